def hello := "world"
