import Sm9.Model.Api
/-!
Support definitions for the generated translation (`Sm9/Gen/Rust.lean`).  Hand-written, Mathlib-free.
-/
namespace Sm9

/-- `res[lo..hi].copy_from_slice(src)` (`hi = none`: to the end).  Rust panics when the range is out
    of bounds or the lengths differ. -/
def sliceCopy (res : List UInt8) (lo : Nat) (hi : Option Nat) (src : List UInt8) : Outcome (List UInt8) :=
  let hi := hi.getD res.length
  if lo ≤ hi ∧ hi ≤ res.length ∧ hi - lo = src.length then .ok (res.take lo ++ src ++ res.drop hi) else .panic

/-- `while cond { body }` with fuel (the state is the tuple of variables the body assigns) -/
def whileFuel {σ : Type} : Nat → (σ → Bool) → (σ → σ) → σ → σ
  | 0, _, _, s => s
  | fuel + 1, cond, body, s => if cond s then whileFuel fuel cond body (body s) else s

end Sm9
