import Sm9.Model.Api
/-!
Support definitions for the generated translation (`Sm9/Gen/Rust.lean`).  Hand-written, Mathlib-free.
-/
namespace Sm9

/-- `res[lo..hi].copy_from_slice(src)` (`hi = none`: to the end).  Rust panics when the range is out
    of bounds or the lengths differ. -/
def sliceCopy (res : List UInt8) (lo : Nat) (hi : Option Nat) (src : List UInt8) : Outcome (List UInt8) :=
  let hi := hi.getD res.length
  if lo ≤ hi ∧ hi ≤ res.length ∧ hi - lo = src.length then .ok (res.take lo ++ src ++ res.drop hi) else .panic

/-- `while cond { body }` with fuel (the state is the tuple of variables the body assigns) -/
def whileFuel {σ : Type} : Nat → (σ → Bool) → (σ → σ) → σ → σ
  | 0, _, _, s => s
  | fuel + 1, cond, body, s => if cond s then whileFuel fuel cond body (body s) else s

/-! ### error enums of the source that the hand-written model does not have (it keeps `Option`) -/

/-- `u256::Error` (the `Error` of `fields/fq2.rs`) -/
inductive U256Error where
  | InvalidLength (expected actual : Nat)
  | NotMember
  deriving DecidableEq, Repr

/-- `FieldError` of lib.rs -/
inductive FieldError where
  | InvalidSliceLength
  | InvalidU512Encoding
  | NotMember
  | InvalidDecimalString
  deriving DecidableEq, Repr

/-- `fields::Fq2::from_slice` with its errors: SPEC of the translation of fq2.rs `from_slice`, and what lib.rs calls.
    Forgetting the error gives the model's `Api.fq2FromSlice` (`GenEquiv.fq2FromSliceE_toOption`). -/
def fq2FromSliceE (s : List UInt8) : Except U256Error Fq2 :=
  if s.length ≠ 64 then .error (.InvalidLength 64 s.length) else
  match Api.fq2FromSlice s with
  | some v => .ok v
  | none => .error .NotMember

/-! ### `random`: the generator is a script of `u64` draws (the convention of the limb level, `Gen/LimbEquiv.lean`
`Fp_random_equiv`: `Fq::random(rng)` consumes eight draws, limb 0 first, reduces the 512-bit number modulo p and stores the
remainder *as the Montgomery representative*).  SPEC definitions: value-level reading of that, then component by component
in the order the source draws them. -/

/-- `Fq::random(rng)`: remaining script, element -/
def Fq.randomS (rng : List Nat) : List Nat × Fq := (rng.drop 8, Fq.ofNat (Fp.into_u256 paramsQ (Fp.random paramsQ rng)))
/-- `Fr::random(rng)` -/
def Fr.randomS (rng : List Nat) : List Nat × Fr := (rng.drop 8, Fr.ofNat (Fp.into_u256 paramsR (Fp.random paramsR rng)))
/-- `Fq2::random`: `c0` is drawn first -/
def Fq2.randomS (rng : List Nat) : List Nat × Fq2 :=
  let a := Fq.randomS rng
  let b := Fq.randomS a.1
  (b.1, { c0 := a.2, c1 := b.2 })
/-- `Fq4::random`: `c0` is drawn first -/
def Fq4.randomS (rng : List Nat) : List Nat × Fq4 :=
  let a := Fq2.randomS rng
  let b := Fq2.randomS a.1
  (b.1, { c0 := a.2, c1 := b.2 })
/-- `Fq12::random`: `c0`, `c1`, `c2` in this order -/
def Fq12.randomS (rng : List Nat) : List Nat × Fq12 :=
  let a := Fq4.randomS rng
  let b := Fq4.randomS a.1
  let c := Fq4.randomS b.1
  (c.1, { c0 := a.2, c1 := b.2, c2 := c.2 })
/-- `G::random`: the generator times a random scalar -/
def G.randomS {F} [FieldElement F] [GroupParams F] (rng : List Nat) : List Nat × G F :=
  let a := Fr.randomS rng
  (a.1, G.mul G.one a.2)

end Sm9
