import Sm9.Model.Api
/-!
Support definitions for the generated translation (`Sm9/Gen/Rust.lean`).  Hand-written, Mathlib-free.
-/
namespace Sm9

/-- `res[lo..hi].copy_from_slice(src)` (`hi = none`: to the end).  Rust panics when the range is out
    of bounds or the lengths differ. -/
def sliceCopy (res : List UInt8) (lo : Nat) (hi : Option Nat) (src : List UInt8) : Outcome (List UInt8) :=
  let hi := hi.getD res.length
  if lo ≤ hi ∧ hi ≤ res.length ∧ hi - lo = src.length then .ok (res.take lo ++ src ++ res.drop hi) else .panic

/-- `while cond { body }` with fuel (the state is the tuple of variables the body assigns) -/
def whileFuel {σ : Type} : Nat → (σ → Bool) → (σ → σ) → σ → σ
  | 0, _, _, s => s
  | fuel + 1, cond, body, s => if cond s then whileFuel fuel cond body (body s) else s

/-! ### error enums of the source that the hand-written model does not have (it keeps `Option`) -/

/-- `u256::Error` (the `Error` of `fields/fq2.rs`) -/
inductive U256Error where
  | InvalidLength (expected actual : Nat)
  | NotMember
  deriving DecidableEq, Repr

/-- `FieldError` of lib.rs -/
inductive FieldError where
  | InvalidSliceLength
  | InvalidU512Encoding
  | NotMember
  | InvalidDecimalString
  deriving DecidableEq, Repr

/-- `fields::Fq2::from_slice` with its errors: SPEC of the translation of fq2.rs `from_slice`, and what lib.rs calls.
    Forgetting the error gives the model's `Api.fq2FromSlice` (`GenEquiv.fq2FromSliceE_toOption`). -/
def fq2FromSliceE (s : List UInt8) : Except U256Error Fq2 :=
  if s.length ≠ 64 then .error (.InvalidLength 64 s.length) else
  match Api.fq2FromSlice s with
  | some v => .ok v
  | none => .error .NotMember

end Sm9
