import Sm9.Model.Api
/-!
# Register machine over group values (C16) — the instruction set the line-protocol
programs (`prog.group`) are parsed into.  Every instruction appends one register.
-/
namespace Sm9

inductive GInstr where
  | one | zero
  | add (i j : Nat) | sub (i j : Nat) | neg (i : Nat)
  | mul (i : Nat) (k : Fr)
  | normalize (i : Nat) | affine (i : Nat)

/-- one step on a register file of values of one group; an out-of-range index is a no-op -/
def gstep {F} [FieldElement F] [GroupParams F] (regs : List (G F)) : GInstr → List (G F)
  | .one => regs ++ [G.one]
  | .zero => regs ++ [G.zero]
  | .add i j => match regs[i]?, regs[j]? with
    | some a, some b => regs ++ [a.add b]
    | _, _ => regs
  | .sub i j => match regs[i]?, regs[j]? with
    | some a, some b => regs ++ [a.sub b]
    | _, _ => regs
  | .neg i => match regs[i]? with
    | some a => regs ++ [a.neg]
    | none => regs
  | .mul i k => match regs[i]? with
    | some a => regs ++ [a.mul k]
    | none => regs
  | .normalize i => match regs[i]? with
    | some a => regs ++ [Api.normalize a]
    | none => regs
  | .affine i => match regs[i]? with
    | some a => regs ++ [Api.normalize a]
    | none => regs

def grun {F} [FieldElement F] [GroupParams F] (prog : List GInstr) : List (G F) := prog.foldl gstep []

/-- the abstract machine: discrete logarithms in Z_r -/
def astep (ds : List Fr) : GInstr → List Fr
  | .one => ds ++ [1]
  | .zero => ds ++ [0]
  | .add i j => match ds[i]?, ds[j]? with
    | some a, some b => ds ++ [a + b]
    | _, _ => ds
  | .sub i j => match ds[i]?, ds[j]? with
    | some a, some b => ds ++ [a - b]
    | _, _ => ds
  | .neg i => match ds[i]? with
    | some a => ds ++ [-a]
    | none => ds
  | .mul i k => match ds[i]? with
    | some a => ds ++ [a * k]
    | none => ds
  | .normalize i => match ds[i]? with
    | some a => ds ++ [a]
    | none => ds
  | .affine i => match ds[i]? with
    | some a => ds ++ [a]
    | none => ds

def arun (prog : List GInstr) : List Fr := prog.foldl astep []

/-! ## The mixed machine (C16): registers of both groups, encode/decode round trips

This is the machine the line-protocol programs `prog.group` are run on (the driver only parses
the text of a step into an `MInstr` and calls `mstep`).  A step that the crate-level program
cannot perform (index out of range, operands of different groups, an encoder panic or a
decoder error) yields `none`. -/

inductive Reg where
  | p1 (p : G1)
  | p2 (p : G2)

/-- the three point encodings: raw `x ‖ y`, `04 ‖ x ‖ y`, `02/03 ‖ x` -/
inductive Fmt where
  | slice | uncompressed | compressed
  deriving DecidableEq, Repr

inductive MInstr where
  | one1 | one2 | zero1 | zero2
  | add (i j : Nat) | sub (i j : Nat) | neg (i : Nat)
  | mul (i : Nat) (k : Fr)
  | normalize (i : Nat) | affine (i : Nat)
  | encdec (i : Nat) (fmt : Fmt)

/-- encode, then decode; the identity is passed through (the encoders panic on it) -/
def encDec1 (fmt : Fmt) (p : G1) : Option G1 :=
  if p.is_zero then some p else
  match fmt with
  | .slice => match Api.g1ToSlice p with
    | .ok b => (Api.g1FromSlice b).toOption | .panic => none
  | .uncompressed => match Api.g1ToUncompressed p with
    | .ok b => (Api.g1FromUncompressed b).toOption | .panic => none
  | .compressed => match Api.g1ToCompressed p with
    | .ok b => (Api.g1FromCompressed b).toOption | .panic => none
def encDec2 (fmt : Fmt) (p : G2) : Option G2 :=
  if p.is_zero then some p else
  match fmt with
  | .slice => match Api.g2ToSlice p with
    | .ok b => (Api.g2FromSlice b).toOption | .panic => none
  | .uncompressed => match Api.g2ToUncompressed p with
    | .ok b => (Api.g2FromUncompressed b).toOption | .panic => none
  | .compressed => match Api.g2ToCompressed p with
    | .ok b => (Api.g2FromCompressed b).toOption | .panic => none

/-- `AffineG::from_jacobian(p)` then `to_jacobian` (the identity has no affine form and is kept) -/
def affRound {F} [FieldElement F] (p : G F) : G F :=
  match p.to_affine with
  | some a => a.to_jacobian
  | none => p

/-- the register computed by one instruction (`none`: the step cannot be performed) -/
def mnew (regs : List Reg) : MInstr → Option Reg
  | .one1 => some (.p1 G.one)
  | .one2 => some (.p2 G.one)
  | .zero1 => some (.p1 G.zero)
  | .zero2 => some (.p2 G.zero)
  | .add i j => match regs[i]?, regs[j]? with
    | some (.p1 a), some (.p1 b) => some (.p1 (a.add b))
    | some (.p2 a), some (.p2 b) => some (.p2 (a.add b))
    | _, _ => none
  | .sub i j => match regs[i]?, regs[j]? with
    | some (.p1 a), some (.p1 b) => some (.p1 (a.sub b))
    | some (.p2 a), some (.p2 b) => some (.p2 (a.sub b))
    | _, _ => none
  | .neg i => match regs[i]? with
    | some (.p1 a) => some (.p1 a.neg)
    | some (.p2 a) => some (.p2 a.neg)
    | none => none
  | .mul i k => match regs[i]? with
    | some (.p1 a) => some (.p1 (a.mul k))
    | some (.p2 a) => some (.p2 (a.mul k))
    | none => none
  | .normalize i => match regs[i]? with
    | some (.p1 a) => some (.p1 (Api.normalize a))
    | some (.p2 a) => some (.p2 (Api.normalize a))
    | none => none
  | .affine i => match regs[i]? with
    | some (.p1 a) => some (.p1 (affRound a))
    | some (.p2 a) => some (.p2 (affRound a))
    | none => none
  | .encdec i fmt => match regs[i]? with
    | some (.p1 a) => (encDec1 fmt a).map .p1
    | some (.p2 a) => (encDec2 fmt a).map .p2
    | none => none

/-- one step of the mixed machine; every successful step appends one register -/
def mstep (regs : List Reg) (ins : MInstr) : Option (List Reg) :=
  match mnew regs ins with
  | some x => some (regs ++ [x])
  | none => none

/-- run from a given register file -/
def mrunFrom : List Reg → List MInstr → Option (List Reg)
  | regs, [] => some regs
  | regs, ins :: rest => match mstep regs ins with
    | some regs' => mrunFrom regs' rest
    | none => none

def mrun (prog : List MInstr) : Option (List Reg) := mrunFrom [] prog

/-! observations of the mixed machine -/

/-- `==` of two registers; `none` for registers of different groups -/
def Reg.eqObs : Reg → Reg → Option Bool
  | .p1 a, .p1 b => some (a.eq b)
  | .p2 a, .p2 b => some (a.eq b)
  | _, _ => none
def Reg.isZero : Reg → Bool
  | .p1 p => p.is_zero
  | .p2 p => p.is_zero
/-- the last G1 and the last G2 register (operands of the three pairings) -/
def lastOf (regs : List Reg) : Option G1 × Option G2 :=
  regs.foldl (fun (acc : Option G1 × Option G2) rg =>
    match rg with
    | .p1 p => (some p, acc.2)
    | .p2 p => (acc.1, some p)) (none, none)

/-! ## The abstract mixed machine: (group tag, discrete logarithm in Z_r)

`true` tags G1, `false` tags G2 (as in the driver's `specStep`).  It fails exactly on a bad
index or on operands of different groups. -/

def anew (ds : List (Bool × Fr)) : MInstr → Option (Bool × Fr)
  | .one1 => some (true, 1)
  | .one2 => some (false, 1)
  | .zero1 => some (true, 0)
  | .zero2 => some (false, 0)
  | .add i j => match ds[i]?, ds[j]? with
    | some a, some b => if a.1 != b.1 then none else some (a.1, a.2 + b.2)
    | _, _ => none
  | .sub i j => match ds[i]?, ds[j]? with
    | some a, some b => if a.1 != b.1 then none else some (a.1, a.2 - b.2)
    | _, _ => none
  | .neg i => match ds[i]? with
    | some a => some (a.1, -a.2)
    | none => none
  | .mul i k => match ds[i]? with
    | some a => some (a.1, a.2 * k)
    | none => none
  | .normalize i => ds[i]?
  | .affine i => ds[i]?
  | .encdec i _ => ds[i]?

def astep2 (ds : List (Bool × Fr)) (ins : MInstr) : Option (List (Bool × Fr)) :=
  match anew ds ins with
  | some x => some (ds ++ [x])
  | none => none

def arunFrom2 : List (Bool × Fr) → List MInstr → Option (List (Bool × Fr))
  | ds, [] => some ds
  | ds, ins :: rest => match astep2 ds ins with
    | some ds' => arunFrom2 ds' rest
    | none => none

def arun2 (prog : List MInstr) : Option (List (Bool × Fr)) := arunFrom2 [] prog

/-- the logs of the last G1 and the last G2 register -/
def alastOf (ds : List (Bool × Fr)) : Option Fr × Option Fr :=
  ds.foldl (fun (acc : Option Fr × Option Fr) x => if x.1 then (some x.2, acc.2) else (acc.1, some x.2)) (none, none)

/-- the step is a compressed encode/decode of a G2 register holding a non-identity value
    (the one operation whose exact round trip is proved only under a side condition) -/
def isG2Compressed (ds : List (Bool × Fr)) : MInstr → Bool
  | .encdec i .compressed => match ds[i]? with
    | some (false, d) => d.val != 0
    | _ => false
  | _ => false

def noG2CompressedFrom : List (Bool × Fr) → List MInstr → Bool
  | _, [] => true
  | ds, ins :: rest => !(isG2Compressed ds ins) && match astep2 ds ins with
    | some ds' => noG2CompressedFrom ds' rest
    | none => true

/-- no step of the program applies the compressed encode/decode round trip to a non-identity G2 value -/
def NoG2Compressed (prog : List MInstr) : Prop := noG2CompressedFrom [] prog = true

instance (prog : List MInstr) : Decidable (NoG2Compressed prog) := by unfold NoG2Compressed; infer_instance

end Sm9

namespace Sm9

/-! ## Field programs (C07): register machines over Fr resp. Fq values

This is the machine the line-protocol programs `prog.fr` / `prog.fq` are run on (the driver only
parses the text of a step into an `FInstr` and calls `fstep`).  Every successful step appends one
register.  The instruction set is the public scalar / base-field API of `lib.rs`:
constructors from bytes (`const`, `slice`), decimal strings (`str`), hashes (`hash`, Fr only),
randomness (`random`, Fr only: a script of 8 RNG words), `add sub mul neg`, `pow` (the exponent is a
register), `inverse`, `sqrt` (Fq only), `set_bit` (Fr only) and `dup` (a copy).

One machine `fstep O`, parameterised by a record `O : FOps α` of operations, is instantiated
* at the LIMB level (`FrProg.opsL`, `FqProg.opsL : FOps Nat`: registers are the stored Montgomery
  representatives and the operations are the limb-model functions of `Sm9/Model/Mont.lean` that the
  `lib.rs` wrappers call), and
* at the VALUE level (`FrProg.opsV : FOps Fr`, `FqProg.opsV : FOps Fq`: what the driver runs).

Conventions (those of the test harness): a constructor or operation whose API result is `None`
(bad length, non-digit, `inverse` of zero, `sqrt` of a non-square) leaves zero; a step fails
(`none`) on a register index out of range, on an instruction that does not exist for the field
(`hash random setbit` for Fq, `sqrt` for Fr), on a `random` script that is not 8 words long and on a
`const` literal that has no 32- or 64-byte encoding.  At the limb level a step also fails when a
model function panics or runs out of fuel (`Sm9/Proofs/FieldProgram.lean` proves it never does). -/

inductive FInstr where
  | const (v : Nat)
  | slice (bs : List UInt8)
  | str (cs : List Char)
  | hash (bs : List UInt8)
  | random (draw : List Nat)
  | add (i j : Nat) | sub (i j : Nat) | mul (i j : Nat) | pow (i j : Nat)
  | neg (i : Nat) | dup (i : Nat) | inv (i : Nat) | sqrt (i : Nat)
  | setbit (i b : Nat) (v : Bool)

/-- the operations of one field at one level; `none` = the step cannot be performed -/
structure FOps (α : Type) where
  const : Nat → Option α
  slice : List UInt8 → Option α
  str : List Char → Option α
  hash : List UInt8 → Option α
  random : List Nat → Option α
  add : α → α → Option α
  sub : α → α → Option α
  mul : α → α → Option α
  pow : α → α → Option α
  neg : α → Option α
  inv : α → Option α
  sqrt : α → Option α
  setbit : α → Nat → Bool → Option α

/-- the register computed by one instruction (`none`: the step cannot be performed) -/
def fnew {α} (O : FOps α) (regs : List α) : FInstr → Option α
  | .const v => O.const v
  | .slice bs => O.slice bs
  | .str cs => O.str cs
  | .hash bs => O.hash bs
  | .random draw => O.random draw
  | .add i j => match regs[i]?, regs[j]? with
    | some a, some b => O.add a b
    | _, _ => none
  | .sub i j => match regs[i]?, regs[j]? with
    | some a, some b => O.sub a b
    | _, _ => none
  | .mul i j => match regs[i]?, regs[j]? with
    | some a, some b => O.mul a b
    | _, _ => none
  | .pow i j => match regs[i]?, regs[j]? with
    | some a, some b => O.pow a b
    | _, _ => none
  | .neg i => match regs[i]? with
    | some a => O.neg a
    | none => none
  | .dup i => regs[i]?
  | .inv i => match regs[i]? with
    | some a => O.inv a
    | none => none
  | .sqrt i => match regs[i]? with
    | some a => O.sqrt a
    | none => none
  | .setbit i b v => match regs[i]? with
    | some a => O.setbit a b v
    | none => none

/-- one step of a field machine; every successful step appends one register -/
def fstep {α} (O : FOps α) (regs : List α) (ins : FInstr) : Option (List α) :=
  match fnew O regs ins with
  | some x => some (regs ++ [x])
  | none => none

/-- run from a given register file -/
def frunFrom {α} (O : FOps α) : List α → List FInstr → Option (List α)
  | regs, [] => some regs
  | regs, ins :: rest => match fstep O regs ins with
    | some regs' => frunFrom O regs' rest
    | none => none

def frun {α} (O : FOps α) (prog : List FInstr) : Option (List α) := frunFrom O [] prog

namespace FProg

/-- the byte string a `const` literal stands for: its 32-byte big-endian encoding, or its
    64-byte encoding when it does not fit 32 bytes (`none`: it fits neither) -/
def constBytes (v : Nat) : Option (List UInt8) :=
  if v < W256 then some (beBytes 32 v)
  else if v < W256 * W256 then some (beBytes 64 v)
  else none

/-- `Fr::from_slice` / `Fq::from_slice` of lib.rs on limbs: 1..=31 bytes are left-padded and strictly
    decoded, 32 bytes are reduced by a Montgomery multiplication with R², 33..=64 bytes are
    left-padded and reduced by `interpret` (`= Sm9.Fp.lib_from_slice` of Proofs/LibScalar.lean) -/
def libFromSlice (P : MontParams) (hex : List UInt8) : Outcome (Option Nat) :=
  let len := hex.length
  if 1 ≤ len ∧ len ≤ 31 then .ok (Fp.from_slice P (List.replicate (32 - len) 0 ++ hex))
  else if len = 32 then .ok ((U256.from_slice hex).map (Fp.new_mul_factor P))
  else if 33 ≤ len ∧ len ≤ 64 then
    (Fp.interpret P (List.replicate (64 - len) 0 ++ hex)).bind (fun y => .ok (some y))
  else .ok none

/-- limb level: an API result `None` leaves zero; a panic stops the machine -/
def orZero : Outcome (Option Nat) → Option Nat
  | .ok (some y) => some y
  | .ok none => some Fp.zero
  | .panic => none

/-- limb level, `const`: `from_slice(bytes)?` — the machine stops unless a value is returned -/
def constL (P : MontParams) (v : Nat) : Option Nat :=
  match constBytes v with
  | some bs => (match libFromSlice P bs with
    | .ok (some y) => some y
    | _ => none)
  | none => none

/-- limb level, `inverse().unwrap_or(zero)`; running out of fuel stops the machine -/
def invL (P : MontParams) (a : Nat) : Option Nat :=
  match Fp.inverse P a with
  | some (some y) => some y
  | some none => some Fp.zero
  | none => none

/-- the value denoted by the result of `Fr::random` on an 8-word script: the 512-bit draw is
    reduced and stored as the Montgomery representative, i.e. the value is draw · R⁻¹ -/
def frRandomVal (draw : List Nat) : Fr :=
  Fr.ofNat (Limb.value B64 draw) * (Fr.ofNat W256).pow (r - 2)

end FProg

namespace FrProg

/-- LIMB level, scalar field: registers are stored Montgomery representatives -/
def opsL : FOps Nat where
  const := FProg.constL paramsR
  slice := fun bs => FProg.orZero (FProg.libFromSlice paramsR bs)
  str := fun cs => some ((Fp.from_str paramsR cs).getD Fp.zero)
  hash := fun bs => FProg.orZero (FrL.from_hash bs)
  random := fun draw => if draw.length = 8 then some (Fp.random paramsR draw) else none
  add := fun a b => some (Fp.add paramsR a b)
  sub := fun a b => some (Fp.sub paramsR a b)
  mul := fun a b => some (Fp.mul paramsR a b)
  pow := fun a e => some (Fp.pow paramsR a e)
  neg := fun a => some (Fp.neg paramsR a)
  inv := FProg.invL paramsR
  sqrt := fun _ => none
  setbit := fun a b v => some (Fp.set_bit paramsR a b v)

/-- VALUE level, scalar field (what the driver runs for `prog.fr`) -/
def opsV : FOps Fr where
  const := fun v => (FProg.constBytes v).map (fun _ => Fr.ofNat v)
  slice := fun bs => some ((Api.frFromSlice bs).getD 0)
  str := fun cs => some ((Api.frFromStr cs).getD 0)
  hash := fun bs => some ((Api.frFromHash bs).getD 0)
  random := fun draw => if draw.length = 8 then some (FProg.frRandomVal draw) else none
  add := fun a b => some (a + b)
  sub := fun a b => some (a - b)
  mul := fun a b => some (a * b)
  pow := fun a e => some (a.pow e.val)
  neg := fun a => some (-a)
  inv := fun a => some (a.inverse.getD 0)
  sqrt := fun _ => none
  setbit := fun a b v => some (Api.frSetBit a b v)

/-- the limb-level interpreter -/
def fstepL : List Nat → FInstr → Option (List Nat) := fstep opsL
/-- the value-level interpreter -/
def fstepV : List Fr → FInstr → Option (List Fr) := fstep opsV
def frunL : List FInstr → Option (List Nat) := frun opsL
def frunV : List FInstr → Option (List Fr) := frun opsV

end FrProg

namespace FqProg

/-- LIMB level, base field -/
def opsL : FOps Nat where
  const := FProg.constL paramsQ
  slice := fun bs => FProg.orZero (FProg.libFromSlice paramsQ bs)
  str := fun cs => some ((Fp.from_str paramsQ cs).getD Fp.zero)
  hash := fun _ => none
  random := fun _ => none
  add := fun a b => some (Fp.add paramsQ a b)
  sub := fun a b => some (Fp.sub paramsQ a b)
  mul := fun a b => some (Fp.mul paramsQ a b)
  pow := fun a e => some (Fp.pow paramsQ a e)
  neg := fun a => some (Fp.neg paramsQ a)
  inv := FProg.invL paramsQ
  sqrt := fun a => some ((FqL.sqrt a).getD Fp.zero)
  setbit := fun _ _ _ => none

/-- VALUE level, base field (what the driver runs for `prog.fq`) -/
def opsV : FOps Fq where
  const := fun v => (FProg.constBytes v).map (fun _ => Fq.ofNat v)
  slice := fun bs => some ((Api.fqFromSlice bs).getD 0)
  str := fun cs => some ((Api.fqFromStr cs).getD 0)
  hash := fun _ => none
  random := fun _ => none
  add := fun a b => some (a + b)
  sub := fun a b => some (a - b)
  mul := fun a b => some (a * b)
  pow := fun a e => some (a.pow e.val)
  neg := fun a => some (-a)
  inv := fun a => some (a.inverse.getD 0)
  sqrt := fun a => some (a.sqrt.getD 0)
  setbit := fun _ _ _ => none

def fstepL : List Nat → FInstr → Option (List Nat) := fstep opsL
def fstepV : List Fq → FInstr → Option (List Fq) := fstep opsV
def frunL : List FInstr → Option (List Nat) := frun opsL
def frunV : List FInstr → Option (List Fq) := frun opsV

end FqProg

/-! observations of a limb-level register (what `==`, `is_zero`, `to_slice`, `is_even` read) -/
namespace FProg
/-- derived `PartialEq`: equality of the raw limbs -/
def eqObs (x y : Nat) : Bool := x == y
def isZeroObs (x : Nat) : Bool := Fp.is_zero x
def toSliceObs (P : MontParams) (x : Nat) : List UInt8 := Fp.to_slice P x
/-- `Fq::is_even`: parity of the value taken out of Montgomery form -/
def isEvenObs (x : Nat) : Bool := Big.is_even (Fp.into_u256 paramsQ x)
end FProg

end Sm9
