import Sm9.Model.Api
/-!
# Register machine over group values (C16) — the instruction set the line-protocol
programs (`prog.group`) are parsed into.  Every instruction appends one register.
-/
namespace Sm9

inductive GInstr where
  | one | zero
  | add (i j : Nat) | sub (i j : Nat) | neg (i : Nat)
  | mul (i : Nat) (k : Fr)
  | normalize (i : Nat) | affine (i : Nat)

/-- one step on a register file of values of one group; an out-of-range index is a no-op -/
def gstep {F} [FieldElement F] [GroupParams F] (regs : List (G F)) : GInstr → List (G F)
  | .one => regs ++ [G.one]
  | .zero => regs ++ [G.zero]
  | .add i j => match regs[i]?, regs[j]? with
    | some a, some b => regs ++ [a.add b]
    | _, _ => regs
  | .sub i j => match regs[i]?, regs[j]? with
    | some a, some b => regs ++ [a.sub b]
    | _, _ => regs
  | .neg i => match regs[i]? with
    | some a => regs ++ [a.neg]
    | none => regs
  | .mul i k => match regs[i]? with
    | some a => regs ++ [a.mul k]
    | none => regs
  | .normalize i => match regs[i]? with
    | some a => regs ++ [Api.normalize a]
    | none => regs
  | .affine i => match regs[i]? with
    | some a => regs ++ [Api.normalize a]
    | none => regs

def grun {F} [FieldElement F] [GroupParams F] (prog : List GInstr) : List (G F) := prog.foldl gstep []

/-- the abstract machine: discrete logarithms in Z_r -/
def astep (ds : List Fr) : GInstr → List Fr
  | .one => ds ++ [1]
  | .zero => ds ++ [0]
  | .add i j => match ds[i]?, ds[j]? with
    | some a, some b => ds ++ [a + b]
    | _, _ => ds
  | .sub i j => match ds[i]?, ds[j]? with
    | some a, some b => ds ++ [a - b]
    | _, _ => ds
  | .neg i => match ds[i]? with
    | some a => ds ++ [-a]
    | none => ds
  | .mul i k => match ds[i]? with
    | some a => ds ++ [a * k]
    | none => ds
  | .normalize i => match ds[i]? with
    | some a => ds ++ [a]
    | none => ds
  | .affine i => match ds[i]? with
    | some a => ds ++ [a]
    | none => ds

def arun (prog : List GInstr) : List Fr := prog.foldl astep []

/-! ## The mixed machine (C16): registers of both groups, encode/decode round trips

This is the machine the line-protocol programs `prog.group` are run on (the driver only parses
the text of a step into an `MInstr` and calls `mstep`).  A step that the crate-level program
cannot perform (index out of range, operands of different groups, an encoder panic or a
decoder error) yields `none`. -/

inductive Reg where
  | p1 (p : G1)
  | p2 (p : G2)

/-- the three point encodings: raw `x ‖ y`, `04 ‖ x ‖ y`, `02/03 ‖ x` -/
inductive Fmt where
  | slice | uncompressed | compressed
  deriving DecidableEq, Repr

inductive MInstr where
  | one1 | one2 | zero1 | zero2
  | add (i j : Nat) | sub (i j : Nat) | neg (i : Nat)
  | mul (i : Nat) (k : Fr)
  | normalize (i : Nat) | affine (i : Nat)
  | encdec (i : Nat) (fmt : Fmt)

/-- encode, then decode; the identity is passed through (the encoders panic on it) -/
def encDec1 (fmt : Fmt) (p : G1) : Option G1 :=
  if p.is_zero then some p else
  match fmt with
  | .slice => match Api.g1ToSlice p with
    | .ok b => (Api.g1FromSlice b).toOption | .panic => none
  | .uncompressed => match Api.g1ToUncompressed p with
    | .ok b => (Api.g1FromUncompressed b).toOption | .panic => none
  | .compressed => match Api.g1ToCompressed p with
    | .ok b => (Api.g1FromCompressed b).toOption | .panic => none
def encDec2 (fmt : Fmt) (p : G2) : Option G2 :=
  if p.is_zero then some p else
  match fmt with
  | .slice => match Api.g2ToSlice p with
    | .ok b => (Api.g2FromSlice b).toOption | .panic => none
  | .uncompressed => match Api.g2ToUncompressed p with
    | .ok b => (Api.g2FromUncompressed b).toOption | .panic => none
  | .compressed => match Api.g2ToCompressed p with
    | .ok b => (Api.g2FromCompressed b).toOption | .panic => none

/-- `AffineG::from_jacobian(p)` then `to_jacobian` (the identity has no affine form and is kept) -/
def affRound {F} [FieldElement F] (p : G F) : G F :=
  match p.to_affine with
  | some a => a.to_jacobian
  | none => p

/-- the register computed by one instruction (`none`: the step cannot be performed) -/
def mnew (regs : List Reg) : MInstr → Option Reg
  | .one1 => some (.p1 G.one)
  | .one2 => some (.p2 G.one)
  | .zero1 => some (.p1 G.zero)
  | .zero2 => some (.p2 G.zero)
  | .add i j => match regs[i]?, regs[j]? with
    | some (.p1 a), some (.p1 b) => some (.p1 (a.add b))
    | some (.p2 a), some (.p2 b) => some (.p2 (a.add b))
    | _, _ => none
  | .sub i j => match regs[i]?, regs[j]? with
    | some (.p1 a), some (.p1 b) => some (.p1 (a.sub b))
    | some (.p2 a), some (.p2 b) => some (.p2 (a.sub b))
    | _, _ => none
  | .neg i => match regs[i]? with
    | some (.p1 a) => some (.p1 a.neg)
    | some (.p2 a) => some (.p2 a.neg)
    | none => none
  | .mul i k => match regs[i]? with
    | some (.p1 a) => some (.p1 (a.mul k))
    | some (.p2 a) => some (.p2 (a.mul k))
    | none => none
  | .normalize i => match regs[i]? with
    | some (.p1 a) => some (.p1 (Api.normalize a))
    | some (.p2 a) => some (.p2 (Api.normalize a))
    | none => none
  | .affine i => match regs[i]? with
    | some (.p1 a) => some (.p1 (affRound a))
    | some (.p2 a) => some (.p2 (affRound a))
    | none => none
  | .encdec i fmt => match regs[i]? with
    | some (.p1 a) => (encDec1 fmt a).map .p1
    | some (.p2 a) => (encDec2 fmt a).map .p2
    | none => none

/-- one step of the mixed machine; every successful step appends one register -/
def mstep (regs : List Reg) (ins : MInstr) : Option (List Reg) :=
  match mnew regs ins with
  | some x => some (regs ++ [x])
  | none => none

/-- run from a given register file -/
def mrunFrom : List Reg → List MInstr → Option (List Reg)
  | regs, [] => some regs
  | regs, ins :: rest => match mstep regs ins with
    | some regs' => mrunFrom regs' rest
    | none => none

def mrun (prog : List MInstr) : Option (List Reg) := mrunFrom [] prog

/-! observations of the mixed machine -/

/-- `==` of two registers; `none` for registers of different groups -/
def Reg.eqObs : Reg → Reg → Option Bool
  | .p1 a, .p1 b => some (a.eq b)
  | .p2 a, .p2 b => some (a.eq b)
  | _, _ => none
def Reg.isZero : Reg → Bool
  | .p1 p => p.is_zero
  | .p2 p => p.is_zero
/-- the last G1 and the last G2 register (operands of the three pairings) -/
def lastOf (regs : List Reg) : Option G1 × Option G2 :=
  regs.foldl (fun (acc : Option G1 × Option G2) rg =>
    match rg with
    | .p1 p => (some p, acc.2)
    | .p2 p => (acc.1, some p)) (none, none)

/-! ## The abstract mixed machine: (group tag, discrete logarithm in Z_r)

`true` tags G1, `false` tags G2 (as in the driver's `specStep`).  It fails exactly on a bad
index or on operands of different groups. -/

def anew (ds : List (Bool × Fr)) : MInstr → Option (Bool × Fr)
  | .one1 => some (true, 1)
  | .one2 => some (false, 1)
  | .zero1 => some (true, 0)
  | .zero2 => some (false, 0)
  | .add i j => match ds[i]?, ds[j]? with
    | some a, some b => if a.1 != b.1 then none else some (a.1, a.2 + b.2)
    | _, _ => none
  | .sub i j => match ds[i]?, ds[j]? with
    | some a, some b => if a.1 != b.1 then none else some (a.1, a.2 - b.2)
    | _, _ => none
  | .neg i => match ds[i]? with
    | some a => some (a.1, -a.2)
    | none => none
  | .mul i k => match ds[i]? with
    | some a => some (a.1, a.2 * k)
    | none => none
  | .normalize i => ds[i]?
  | .affine i => ds[i]?
  | .encdec i _ => ds[i]?

def astep2 (ds : List (Bool × Fr)) (ins : MInstr) : Option (List (Bool × Fr)) :=
  match anew ds ins with
  | some x => some (ds ++ [x])
  | none => none

def arunFrom2 : List (Bool × Fr) → List MInstr → Option (List (Bool × Fr))
  | ds, [] => some ds
  | ds, ins :: rest => match astep2 ds ins with
    | some ds' => arunFrom2 ds' rest
    | none => none

def arun2 (prog : List MInstr) : Option (List (Bool × Fr)) := arunFrom2 [] prog

/-- the logs of the last G1 and the last G2 register -/
def alastOf (ds : List (Bool × Fr)) : Option Fr × Option Fr :=
  ds.foldl (fun (acc : Option Fr × Option Fr) x => if x.1 then (some x.2, acc.2) else (acc.1, some x.2)) (none, none)

/-- the step is a compressed encode/decode of a G2 register holding a non-identity value
    (the one operation whose exact round trip is proved only under a side condition) -/
def isG2Compressed (ds : List (Bool × Fr)) : MInstr → Bool
  | .encdec i .compressed => match ds[i]? with
    | some (false, d) => d.val != 0
    | _ => false
  | _ => false

def noG2CompressedFrom : List (Bool × Fr) → List MInstr → Bool
  | _, [] => true
  | ds, ins :: rest => !(isG2Compressed ds ins) && match astep2 ds ins with
    | some ds' => noG2CompressedFrom ds' rest
    | none => true

/-- no step of the program applies the compressed encode/decode round trip to a non-identity G2 value -/
def NoG2Compressed (prog : List MInstr) : Prop := noG2CompressedFrom [] prog = true

instance (prog : List MInstr) : Decidable (NoG2Compressed prog) := by unfold NoG2Compressed; infer_instance

end Sm9
