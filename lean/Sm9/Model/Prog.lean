import Sm9.Model.Api
/-!
# Register machine over group values (C16) — the instruction set the line-protocol
programs (`prog.group`) are parsed into.  Every instruction appends one register.
-/
namespace Sm9

inductive GInstr where
  | one | zero
  | add (i j : Nat) | sub (i j : Nat) | neg (i : Nat)
  | mul (i : Nat) (k : Fr)
  | normalize (i : Nat) | affine (i : Nat)

/-- one step on a register file of values of one group; an out-of-range index is a no-op -/
def gstep {F} [FieldElement F] [GroupParams F] (regs : List (G F)) : GInstr → List (G F)
  | .one => regs ++ [G.one]
  | .zero => regs ++ [G.zero]
  | .add i j => match regs[i]?, regs[j]? with
    | some a, some b => regs ++ [a.add b]
    | _, _ => regs
  | .sub i j => match regs[i]?, regs[j]? with
    | some a, some b => regs ++ [a.sub b]
    | _, _ => regs
  | .neg i => match regs[i]? with
    | some a => regs ++ [a.neg]
    | none => regs
  | .mul i k => match regs[i]? with
    | some a => regs ++ [a.mul k]
    | none => regs
  | .normalize i => match regs[i]? with
    | some a => regs ++ [Api.normalize a]
    | none => regs
  | .affine i => match regs[i]? with
    | some a => regs ++ [Api.normalize a]
    | none => regs

def grun {F} [FieldElement F] [GroupParams F] (prog : List GInstr) : List (G F) := prog.foldl gstep []

/-- the abstract machine: discrete logarithms in Z_r -/
def astep (ds : List Fr) : GInstr → List Fr
  | .one => ds ++ [1]
  | .zero => ds ++ [0]
  | .add i j => match ds[i]?, ds[j]? with
    | some a, some b => ds ++ [a + b]
    | _, _ => ds
  | .sub i j => match ds[i]?, ds[j]? with
    | some a, some b => ds ++ [a - b]
    | _, _ => ds
  | .neg i => match ds[i]? with
    | some a => ds ++ [-a]
    | none => ds
  | .mul i k => match ds[i]? with
    | some a => ds ++ [a * k]
    | none => ds
  | .normalize i => match ds[i]? with
    | some a => ds ++ [a]
    | none => ds
  | .affine i => match ds[i]? with
    | some a => ds ++ [a]
    | none => ds

def arun (prog : List GInstr) : List Fr := prog.foldl astep []

end Sm9
