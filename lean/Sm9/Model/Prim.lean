import Sm9.Gen.Consts
/-!
# Value-level primitives of the model (hand-written, Mathlib-free, executable)

`Fq`, `Fr` are `Fin q`, `Fin r` over the moduli *extracted from the Rust source*
(`Sm9.Consts.FQ`, `FR`).  They are plain `def`s, not `abbrev`s, so that core `Fin`'s
floor-division `Div`/`Mod` instances do not leak; every instance is an explicit
constructor over the core operation so that `ring` sees through model terms once
`Fin.instCommRing` is installed on the proof side.

The *limb-level* model of the same operations (Montgomery form, 4×u64) lives in
`Sm9.Model.Mont`; `Sm9.Proofs.Mont*` proves that it refines this file.
-/
namespace Sm9

/-- The outcome of a Rust call that may panic. -/
inductive Outcome (α : Type) where
  | ok (a : α)
  | panic
  deriving DecidableEq, Repr

namespace Outcome
@[inline] def bind {α β} (x : Outcome α) (f : α → Outcome β) : Outcome β :=
  match x with
  | ok a => f a
  | panic => panic
instance : Monad Outcome where
  pure := ok
  bind := bind
/-- `Option::unwrap` / `expect` -/
@[inline] def unwrap {α} : Option α → Outcome α
  | some a => ok a
  | none => panic
@[inline] def isOk {α} : Outcome α → Bool
  | ok _ => true
  | panic => false
end Outcome

def q : Nat := Consts.FQ
def r : Nat := Consts.FR

instance : NeZero q := ⟨by decide⟩
instance : NeZero r := ⟨by decide⟩

/-- bits of `n`, most significant first, without leading zeros
    (`U256::bits_without_leading_zeros`) -/
def bitLen (n : Nat) : Nat := if n = 0 then 0 else n.log2 + 1

def bitsMSB (n : Nat) : List Bool :=
  (List.range (bitLen n)).reverse.map (fun i => n.testBit i)

/-- The Rust trait `FieldElement` (fields.rs) together with its super-traits
    `Zero + One + Add + Sub + Mul + Neg + PartialEq`. -/
class FieldElement (F : Type) extends Zero F, One F, Add F, Sub F, Mul F, Neg F where
  squared : F → F
  double : F → F
  triple : F → F
  inverse : F → Option F
  is_zero : F → Bool
  beq : F → F → Bool

export FieldElement (squared double triple inverse is_zero)

/-- `FieldElement::pow` (fields.rs): left-to-right square-and-multiply over the bits
    of the exponent without leading zeros. -/
def FieldElement.powBits {F} [FieldElement F] (x : F) (bits : List Bool) : F :=
  bits.foldl (fun res i => let res := squared res; if i then res * x else res) 1

def FieldElement.pow {F} [FieldElement F] (x : F) (e : Nat) : F :=
  FieldElement.powBits x (bitsMSB e)

/-! ## Fq -/

def Fq : Type := Fin q

namespace Fq
instance : Add Fq := ⟨Fin.add⟩
instance : Sub Fq := ⟨Fin.sub⟩
instance : Mul Fq := ⟨Fin.mul⟩
instance : Neg Fq := Fin.neg q
instance : Zero Fq := ⟨Fin.ofNat q 0⟩
instance : One Fq := ⟨Fin.ofNat q 1⟩
instance : DecidableEq Fq := inferInstanceAs (DecidableEq (Fin q))
instance : Inhabited Fq := ⟨0⟩

@[inline] def ofNat (n : Nat) : Fq := Fin.ofNat q n
@[inline] def val (a : Fq) : Nat := Fin.val a
instance : Repr Fq := ⟨fun a _ => repr a.val⟩

/-- `Fp::new`: only values below the modulus -/
def new (n : Nat) : Option Fq := if h : n < q then some ⟨n, h⟩ else none

/-! `add_inplace` … of the `field_impl!` macro -/
def add_inplace (a b : Fq) : Fq := a + b
def sub_inplace (a b : Fq) : Fq := a - b
def mul_inplace (a b : Fq) : Fq := a * b
def neg_inplace (a : Fq) : Fq := -a
def double (a : Fq) : Fq := a + a
/-- `&self.double() + self` -/
def triple (a : Fq) : Fq := a.double + a
def squared (a : Fq) : Fq := a * a
def is_zero (a : Fq) : Bool := a.val == 0
def is_one (a : Fq) : Bool := a.val == 1
def is_even (a : Fq) : Bool := a.val % 2 == 0

/-- square-and-multiply on the value level (same schedule as `FieldElement::pow`) -/
def pow (x : Fq) (e : Nat) : Fq :=
  (bitsMSB e).foldl (fun res i => let res := res * res; if i then res * x else res) 1

/-- value-level inverse (`None` exactly for zero).  The limb level runs the binary
    extended Euclid of `U256::invert`; `Sm9.Proofs` relates the two. -/
def inverse (a : Fq) : Option Fq := if a.is_zero then none else some (a.pow (q - 2))

/-- `U256::div2` under the modulus q: halve, adding q first when odd.  It acts on
    the stored Montgomery representative, which is the same map on values. -/
def div2 (a : Fq) : Fq :=
  ofNat (if a.val % 2 == 0 then a.val / 2 else (a.val + q) / 2)

/-- `Fq::sum_of_products`: Σ aᵢ·bᵢ -/
def sum_of_products (as bs : List Fq) : Fq :=
  (List.zipWith (· * ·) as bs).foldl (· + ·) 0

/-- exponent constants of `Fq::sqrt`, computed as the source does:
    `(-NUM) * DEN⁻¹` in Fq, read back as a canonical integer. -/
def minus1_div4 : Nat :=
  match (ofNat Consts.FQ_MINUS1_DIV4_DEN).inverse with
  | some i => ((- ofNat Consts.FQ_MINUS1_DIV4_NUM) * i).val
  | none => 0
def minus5_div8 : Nat :=
  match (ofNat Consts.FQ_MINUS5_DIV8_DEN).inverse with
  | some i => ((- ofNat Consts.FQ_MINUS5_DIV8_NUM) * i).val
  | none => 0

/-- `Fq::sqrt` (fp.rs), Annex C.1.4.1 Algorithm 2 for q ≡ 5 (mod 8) -/
def sqrt (x : Fq) : Option Fq :=
  if x.is_zero then some 0 else
  let a1a := x.pow minus1_div4
  let res : Fq :=
    if a1a.is_one then x.pow minus5_div8 * x
    else if (-a1a).is_one then
      let a := x.double
      let b := a.double.pow minus5_div8
      a * b
    else 0
  if res.is_zero then none
  else
    let rr := -res
    some (if rr.val < res.val then rr else res)

instance : FieldElement Fq where
  squared := squared
  double := double
  triple := triple
  inverse := inverse
  is_zero := is_zero
  beq := fun a b => decide (a = b)
end Fq

/-! ## Fr -/

def Fr : Type := Fin r

namespace Fr
instance : Add Fr := ⟨Fin.add⟩
instance : Sub Fr := ⟨Fin.sub⟩
instance : Mul Fr := ⟨Fin.mul⟩
instance : Neg Fr := Fin.neg r
instance : Zero Fr := ⟨Fin.ofNat r 0⟩
instance : One Fr := ⟨Fin.ofNat r 1⟩
instance : DecidableEq Fr := inferInstanceAs (DecidableEq (Fin r))
instance : Inhabited Fr := ⟨0⟩

@[inline] def ofNat (n : Nat) : Fr := Fin.ofNat r n
@[inline] def val (a : Fr) : Nat := Fin.val a
instance : Repr Fr := ⟨fun a _ => repr a.val⟩
def new (n : Nat) : Option Fr := if h : n < r then some ⟨n, h⟩ else none
def is_zero (a : Fr) : Bool := a.val == 0
def pow (x : Fr) (e : Nat) : Fr :=
  (bitsMSB e).foldl (fun res i => let res := res * res; if i then res * x else res) 1
def inverse (a : Fr) : Option Fr := if a.is_zero then none else some (a.pow (r - 2))
end Fr

end Sm9
