import Sm9.Model.Prim
/-!
# Fq2, Fq4, Fq12 — model of `fields/fq2.rs`, `fq4.rs`, `fq12.rs`

Function-by-function rendering of the Rust source (same names, same expression
structure, same association order).  `&`/`*` are erased, `&mut`-free code only.
Byte codecs and `sqrt` are in `Codec.lean` / below.
-/
namespace Sm9

/-! ## Fq2 = Fq[u]/(u²+2) -/

structure Fq2 where
  c0 : Fq
  c1 : Fq
  deriving DecidableEq, Inhabited, Repr

namespace Fq2
def new (c0 c1 : Fq) : Fq2 := { c0, c1 }
def zero : Fq2 := { c0 := 0, c1 := 0 }
def one : Fq2 := { c0 := 1, c1 := 0 }
def is_zero (a : Fq2) : Bool := a.c0.is_zero && a.c1.is_zero
def neg_inplace (a : Fq2) : Fq2 := { c0 := -a.c0, c1 := -a.c1 }
def sub_inplace (a rhs : Fq2) : Fq2 := { c0 := a.c0 - rhs.c0, c1 := a.c1 - rhs.c1 }
def add_inplace (a rhs : Fq2) : Fq2 := { c0 := a.c0 + rhs.c0, c1 := a.c1 + rhs.c1 }
/-- c0 = a0 b0 − 2 a1 b1, c1 = a0 b1 + a1 b0, as two sums of products -/
def mul_inplace (a b : Fq2) : Fq2 :=
  { c0 := Fq.sum_of_products [a.c0, -a.c1.double] [b.c0, b.c1],
    c1 := Fq.sum_of_products [a.c0, a.c1] [b.c1, b.c0] }
instance : Zero Fq2 := ⟨zero⟩
instance : One Fq2 := ⟨one⟩
instance : Add Fq2 := ⟨add_inplace⟩
instance : Sub Fq2 := ⟨sub_inplace⟩
instance : Mul Fq2 := ⟨mul_inplace⟩
instance : Neg Fq2 := ⟨neg_inplace⟩

def scale (a : Fq2) (by_ : Fq) : Fq2 := { c0 := a.c0 * by_, c1 := a.c1 * by_ }
def unitary_inverse (a : Fq2) : Fq2 := { c0 := a.c0, c1 := -a.c1 }
def mul_by_nonresidue (a : Fq2) : Fq2 := { c0 := -a.c1.double, c1 := a.c0 }
def div2 (a : Fq2) : Fq2 := { c0 := a.c0.div2, c1 := a.c1.div2 }
def real (a : Fq2) : Fq := a.c0
def imaginary (a : Fq2) : Fq := a.c1
def i : Fq2 := new 0 1
def double (a : Fq2) : Fq2 := { c0 := a.c0.double, c1 := a.c1.double }
def triple (a : Fq2) : Fq2 := { c0 := a.c0.triple, c1 := a.c1.triple }
/-- complex squaring -/
def squared (a : Fq2) : Fq2 :=
  let a0 := a.c0
  let a1 := a.c1
  let v0 := a0 * a1
  { c0 := (a0 + a1) * (a0 - a1.double) + v0, c1 := v0.double }
def inverse (a : Fq2) : Option Fq2 :=
  (a.c0.squared + a.c1.squared.double).inverse.map (fun t => new (a.c0 * t) (-(a.c1 * t)))

/-- `Fq2::sqrt` (fq2.rs), Annex C.1.4.2, with the imaginary-part-zero case handled first -/
def sqrt (x : Fq2) : Option Fq2 :=
  if x.is_zero then some zero else
  let b := x.c1
  let a := x.c0
  if b.is_zero then
    match a.sqrt with
    | some z0 => some (new z0 0)
    | none => ((-a).div2.sqrt).map (fun z1 => new 0 z1)
  else
  let bb := b.squared
  let aa := a.squared
  let u := aa + bb.double
  u.sqrt.bind fun w =>
    let v := (a + w).div2
    let yo : Option Fq :=
      match v.sqrt with
      | some t => some t
      | none => ((a - w).div2).sqrt
    yo.bind fun y =>
      let y2 := y.double
      let z1o : Option Fq :=
        if y.is_zero then w.div2.sqrt else y2.inverse.map (fun t => b * t)
      z1o.bind fun z1 =>
        let z0 := y
        let sqrt_cand := new z0 z1
        if sqrt_cand.squared = x then some sqrt_cand else none

instance : FieldElement Fq2 where
  squared := squared
  double := double
  triple := triple
  inverse := inverse
  is_zero := is_zero
  beq := fun a b => decide (a = b)
end Fq2

/-! ## Fq4 = Fq2[v]/(v²−u) -/

structure Fq4 where
  c0 : Fq2
  c1 : Fq2
  deriving DecidableEq, Inhabited, Repr

namespace Fq4
def new (c0 c1 : Fq2) : Fq4 := { c0, c1 }
def zero : Fq4 := { c0 := Fq2.zero, c1 := Fq2.zero }
def one : Fq4 := { c0 := Fq2.one, c1 := Fq2.zero }
def is_zero (a : Fq4) : Bool := a.c0.is_zero && a.c1.is_zero
def sub_inplace (a rhs : Fq4) : Fq4 := { c0 := a.c0.sub_inplace rhs.c0, c1 := a.c1.sub_inplace rhs.c1 }
def add_inplace (a rhs : Fq4) : Fq4 := { c0 := a.c0.add_inplace rhs.c0, c1 := a.c1.add_inplace rhs.c1 }
def neg_inplace (a : Fq4) : Fq4 := { c0 := a.c0.neg_inplace, c1 := a.c1.neg_inplace }
/-- full-tower interleaved product: four sums of four products -/
def mul_inplace (a b : Fq4) : Fq4 :=
  let a01d := -a.c0.c1.double
  let a11d := -a.c1.c1.double
  { c0 := { c0 := Fq.sum_of_products [a.c0.c0, a01d, -a.c1.c0.double, a11d]
                                      [b.c0.c0, b.c0.c1, b.c1.c1, b.c1.c0],
            c1 := Fq.sum_of_products [a.c0.c0, a.c0.c1, a.c1.c0, a11d]
                                      [b.c0.c1, b.c0.c0, b.c1.c0, b.c1.c1] },
    c1 := { c0 := Fq.sum_of_products [a.c0.c0, a01d, a.c1.c0, a11d]
                                      [b.c1.c0, b.c1.c1, b.c0.c0, b.c0.c1],
            c1 := Fq.sum_of_products [a.c0.c0, a.c0.c1, a.c1.c0, a.c1.c1]
                                      [b.c1.c1, b.c1.c0, b.c0.c1, b.c0.c0] } }
instance : Zero Fq4 := ⟨zero⟩
instance : One Fq4 := ⟨one⟩
instance : Add Fq4 := ⟨add_inplace⟩
instance : Sub Fq4 := ⟨sub_inplace⟩
instance : Mul Fq4 := ⟨mul_inplace⟩
instance : Neg Fq4 := ⟨neg_inplace⟩

def scale (a : Fq4) (by_ : Fq2) : Fq4 := { c0 := a.c0 * by_, c1 := a.c1 * by_ }
def scale_fq (a : Fq4) (by_ : Fq) : Fq4 := { c0 := a.c0.scale by_, c1 := a.c1.scale by_ }
def mul_by_nonresidue (a : Fq4) : Fq4 := { c0 := a.c1.mul_by_nonresidue, c1 := a.c0 }
def unitary_inverse (a : Fq4) : Fq4 := { c0 := a.c0, c1 := -a.c1 }

/-- the Frobenius constants `Fq::new(*CONST).unwrap()`.  That each constant is below q
    (so `new` is `Some` and `unwrap` cannot panic) is `Sm9.consts_lt_q` in
    `Proofs/Consts.lean`, re-checked against the extracted constants on every build. -/
def alpha1 : Fq := Fq.ofNat Consts.SM9_ALPHA1
def alpha2 : Fq := Fq.ofNat Consts.SM9_ALPHA2
def alpha3 : Fq := Fq.ofNat Consts.SM9_ALPHA3
def alpha4 : Fq := Fq.ofNat Consts.SM9_ALPHA4
def alpha5 : Fq := Fq.ofNat Consts.SM9_ALPHA5
def beta : Fq := Fq.ofNat Consts.SM9_BETA

/-! the arms of `Fq4::frobenius_map` -/
def frob10 (a : Fq4) : Fq4 := { c0 := a.c0.unitary_inverse, c1 := a.c1.unitary_inverse.scale alpha3 }
def frob11 (a : Fq4) : Fq4 :=
  { c0 := a.c0.unitary_inverse.scale alpha1, c1 := a.c1.unitary_inverse.scale alpha4 }
def frob12 (a : Fq4) : Fq4 :=
  { c0 := a.c0.unitary_inverse.scale alpha2, c1 := a.c1.unitary_inverse.scale alpha5 }
def frob21 (a : Fq4) : Fq4 := a.unitary_inverse.scale_fq alpha2
def frob22 (a : Fq4) : Fq4 := a.unitary_inverse.scale_fq alpha4
def frob30 (a : Fq4) : Fq4 :=
  { c0 := a.c0.unitary_inverse, c1 := -(a.c1.unitary_inverse * Fq2.new beta 0) }
def frob31 (a : Fq4) : Fq4 :=
  { c0 := a.c0.unitary_inverse * Fq2.new beta 0, c1 := a.c1.unitary_inverse }
def frob32 (a : Fq4) : Fq4 :=
  { c0 := -a.c0.unitary_inverse, c1 := a.c1.unitary_inverse * Fq2.new beta 0 }

/-- `Fq4::frobenius_map`; unsupported powers are `unimplemented!()` -/
def frobenius_map (a : Fq4) (power : Nat) : Outcome Fq4 :=
  match power with
  | 10 => .ok a.frob10
  | 11 => .ok a.frob11
  | 12 => .ok a.frob12
  | 21 => .ok a.frob21
  | 22 => .ok a.frob22
  | 30 => .ok a.frob30
  | 31 => .ok a.frob31
  | 32 => .ok a.frob32
  | _ => Outcome.panic

/-- `c = self * b`, only for `b.c0 == 0` -/
def mul_1 (a b : Fq4) : Fq4 :=
  let bb := a.c1.mul_inplace b.c1
  let ab := a.c0.mul_inplace b.c1
  { c0 := bb.mul_by_nonresidue, c1 := ab }

def double (a : Fq4) : Fq4 := { c0 := a.c0.double, c1 := a.c1.double }
def triple (a : Fq4) : Fq4 := { c0 := a.c0.triple, c1 := a.c1.triple }
def squared (a : Fq4) : Fq4 :=
  let a0 := a.c0
  let a1 := a.c1
  let v0 := a0 * a1
  { c0 := (a0 + a1) * (a0 + a1.mul_by_nonresidue) - v0 - v0.mul_by_nonresidue,
    c1 := v0.double }
def inverse (a : Fq4) : Option Fq4 :=
  (a.c0.squared - a.c1.squared.mul_by_nonresidue).inverse.map
    (fun t => new (a.c0 * t) (-(a.c1 * t)))

instance : FieldElement Fq4 where
  squared := squared
  double := double
  triple := triple
  inverse := inverse
  is_zero := is_zero
  beq := fun a b => decide (a = b)
end Fq4

/-! ## Fq12 = Fq4[w]/(w³−v) -/

structure Fq12 where
  c0 : Fq4
  c1 : Fq4
  c2 : Fq4
  deriving DecidableEq, Inhabited, Repr

namespace Fq12
def new (c0 c1 c2 : Fq4) : Fq12 := { c0, c1, c2 }
def zero : Fq12 := { c0 := Fq4.zero, c1 := Fq4.zero, c2 := Fq4.zero }
def one : Fq12 := { c0 := Fq4.one, c1 := Fq4.zero, c2 := Fq4.zero }
def is_zero (a : Fq12) : Bool := a.c0.is_zero && a.c1.is_zero && a.c2.is_zero
def mul_by_nonresidue (a : Fq12) : Fq12 := { c0 := a.c2.mul_by_nonresidue, c1 := a.c0, c2 := a.c1 }
def scale (a : Fq12) (by_ : Fq4) : Fq12 := { c0 := a.c0 * by_, c1 := a.c1 * by_, c2 := a.c2 * by_ }

/-! the arms of `Fq12::frobenius_map` -/
def frob1 (a : Fq12) : Fq12 := { c0 := a.c0.frob10, c1 := a.c1.frob11, c2 := a.c2.frob12 }
def frob2 (a : Fq12) : Fq12 := { c0 := a.c0.unitary_inverse, c1 := a.c1.frob21, c2 := a.c2.frob22 }
def frob3 (a : Fq12) : Fq12 := { c0 := a.c0.frob30, c1 := a.c1.frob31, c2 := a.c2.frob32 }
def frob6 (a : Fq12) : Fq12 :=
  { c0 := a.c0.unitary_inverse, c1 := -a.c1.unitary_inverse, c2 := a.c2.unitary_inverse }

/-- `Fq12::frobenius_map`; unsupported powers are `unimplemented!()` -/
def frobenius_map (a : Fq12) (power : Nat) : Outcome Fq12 :=
  match power with
  | 1 => .ok a.frob1
  | 2 => .ok a.frob2
  | 3 => .ok a.frob3
  | 6 => .ok a.frob6
  | _ => Outcome.panic

/-- Karatsuba over the cubic extension -/
def mul_inplace (a other : Fq12) : Fq12 :=
  let a_a := a.c0.mul_inplace other.c0
  let b_b := a.c1.mul_inplace other.c1
  let c_c := a.c2.mul_inplace other.c2
  { c0 := ((a.c1 + a.c2) * (other.c1 + other.c2) - b_b - c_c).mul_by_nonresidue + a_a,
    c1 := (a.c0 + a.c1) * (other.c0 + other.c1) - a_a - b_b + c_c.mul_by_nonresidue,
    c2 := (a.c0 + a.c2) * (other.c0 + other.c2) - a_a + b_b - c_c }
def neg_inplace (a : Fq12) : Fq12 := { c0 := a.c0.neg_inplace, c1 := a.c1.neg_inplace, c2 := a.c2.neg_inplace }
def add_inplace (a rhs : Fq12) : Fq12 :=
  { c0 := a.c0.add_inplace rhs.c0, c1 := a.c1.add_inplace rhs.c1, c2 := a.c2.add_inplace rhs.c2 }
def sub_inplace (a rhs : Fq12) : Fq12 :=
  { c0 := a.c0.sub_inplace rhs.c0, c1 := a.c1.sub_inplace rhs.c1, c2 := a.c2.sub_inplace rhs.c2 }
instance : Zero Fq12 := ⟨zero⟩
instance : One Fq12 := ⟨one⟩
instance : Add Fq12 := ⟨add_inplace⟩
instance : Sub Fq12 := ⟨sub_inplace⟩
instance : Mul Fq12 := ⟨mul_inplace⟩
instance : Neg Fq12 := ⟨neg_inplace⟩

/-- `c = self * b`, only for `b.c1 == 0` and `b.c2 == (0, *)` -/
def mul_015 (a b : Fq12) : Fq12 :=
  let aa := a.c0.mul_inplace b.c0
  let ba := a.c1.mul_inplace b.c0
  let ca := a.c2.mul_inplace b.c0
  let ac := a.c0.mul_1 b.c2
  let bc := a.c1.mul_1 b.c2
  let cc := a.c2.mul_1 b.c2
  { c0 := aa + bc.mul_by_nonresidue, c1 := ba + cc.mul_by_nonresidue, c2 := ca + ac }

def double (a : Fq12) : Fq12 := { c0 := a.c0.double, c1 := a.c1.double, c2 := a.c2.double }
def triple (a : Fq12) : Fq12 := { c0 := a.c0.triple, c1 := a.c1.triple, c2 := a.c2.triple }
/-- CH-SQR2 -/
def squared (a : Fq12) : Fq12 :=
  let s0 := a.c0.squared
  let s1 := (a.c0 * a.c1).double
  let s2 := (a.c0 - a.c1 + a.c2).squared
  let s3 := (a.c1 * a.c2).double
  let s4 := a.c2.squared
  { c0 := s0 + s3.mul_by_nonresidue, c1 := s1 + s4.mul_by_nonresidue, c2 := s1 + s2 + s3 - s0 - s4 }
def inverse (a : Fq12) : Option Fq12 :=
  let c0 := a.c0.squared - a.c1 * a.c2.mul_by_nonresidue
  let c1 := a.c2.squared.mul_by_nonresidue - a.c0 * a.c1
  let c2 := a.c1.squared - a.c0 * a.c2
  ((a.c2 * c1 + a.c1 * c2).mul_by_nonresidue + a.c0 * c0).inverse.map
    (fun t => new (t * c0) (t * c1) (t * c2))

instance : FieldElement Fq12 where
  squared := squared
  double := double
  triple := triple
  inverse := inverse
  is_zero := is_zero
  beq := fun a b => decide (a = b)
end Fq12

end Sm9
