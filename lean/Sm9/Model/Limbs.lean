import Sm9.Model.Prim
/-!
# Limb-level primitives (hand-written, Mathlib-free, executable)

* `Limb.*` — the crate's own carry-chain code (`arith.rs` macros and the loops of
  `U256::mul`, `U256::square`, `Fq::sum_of_products`) over little-endian limb lists in a
  generic base `B` (instantiated at `B = 2^64`).
* `Big.*` — ark-ff's `BigInt<4>` / `BigInt<8>` primitives, *modelled* (trusted base) as
  exact fixed-width operations with carry/borrow flags on the integer value.
-/
namespace Sm9

namespace Limb

/-- little-endian value in base `B` -/
def value (B : Nat) : List Nat → Nat
  | [] => 0
  | x :: xs => x + B * value B xs

/-- the `n` little-endian base-`B` digits of `v` -/
def digits (B : Nat) : Nat → Nat → List Nat
  | 0, _ => []
  | n + 1, v => v % B :: digits B n (v / B)

/-- `mac_with_carry!` / `mac`: (a + b*c + carry) split in base B (u128 widening) -/
@[inline] def mac (B a b c carry : Nat) : Nat × Nat :=
  let t := a + b * c + carry
  (t % B, t / B)

/-- `adc` -/
@[inline] def adc (B a b carry : Nat) : Nat × Nat :=
  let t := a + b + carry
  (t % B, t / B)

/-- one row: acc[j] += d * e[j] with carry propagation over the limbs of `e`;
    returns the updated prefix (same length as e) and the carry out -/
def macRow (B : Nat) : List Nat → Nat → List Nat → Nat → List Nat × Nat
  | _, _, [], carry => ([], carry)
  | [], d, e :: es, carry =>
      let (lo, c) := mac B 0 d e carry
      let (rest, c') := macRow B [] d es c
      (lo :: rest, c')
  | a :: as, d, e :: es, carry =>
      let (lo, c) := mac B a d e carry
      let (rest, c') := macRow B as d es c
      (lo :: rest, c')

/-- schoolbook product, operand scanning (first loop nest of
    `mul_without_cond_subtract`); `w` is the live window (|w| = |e|): after row i the
    lowest limb is final and is peeled off -/
def mulAcc (B : Nat) : List Nat → List Nat → List Nat → List Nat
  | w, [], _ => w
  | w, d :: ds, e =>
    match macRow B w d e 0 with
    | ([], c) => c :: mulAcc B [] ds e
    | (x :: xs, c) => x :: mulAcc B (xs ++ [c]) ds e

def mulLimbs (B : Nat) (d e : List Nat) : List Nat := mulAcc B (List.replicate e.length 0) d e

/-- Montgomery reduction, one limb per step (second loop nest).  State: window `w`
    (|w| = |m|), untouched high limbs `hi`, `carry2`. -/
def redc (B inv : Nat) (m : List Nat) : List Nat → List Nat → Nat → List Nat × Nat
  | w, [], carry2 => (w, carry2)
  | w, h :: hi, carry2 =>
    let k := (w.headD 0 * inv) % B
    match macRow B w k m 0 with
    | ([], _) => (w, carry2)
    | (_ :: xs, c) =>
      let t := h + c + carry2
      redc B inv m (xs ++ [t % B]) hi (t / B)

end Limb

/-- limb base -/
def B64 : Nat := 2 ^ 64
/-- 2^256 -/
def W256 : Nat := 2 ^ 256
def W512 : Nat := 2 ^ 512

/-! ark-ff `BigInt` primitives on the integer value (trusted to be exact) -/
namespace Big
@[inline] def add_with_carry (w a b : Nat) : Nat × Bool := ((a + b) % w, decide (a + b ≥ w))
@[inline] def sub_with_borrow (w a b : Nat) : Nat × Bool := ((a + w - b) % w, decide (a < b))
@[inline] def mul2 (w a : Nat) : Nat × Bool := ((2 * a) % w, decide (2 * a ≥ w))
@[inline] def div2 (a : Nat) : Nat := a / 2
@[inline] def is_odd (a : Nat) : Bool := a % 2 == 1
@[inline] def is_even (a : Nat) : Bool := a % 2 == 0
@[inline] def get_bit (a i : Nat) : Bool := a.testBit i
@[inline] def num_bits (a : Nat) : Nat := bitLen a
/-- 256×256 → (low, high) -/
@[inline] def mul (a b : Nat) : Nat × Nat := ((a * b) % W256, (a * b) / W256)
end Big

/-- big-endian bytes of `n`, exactly `len` of them (`to_bytes_be`, `to_big_endian`) -/
def beBytes (len n : Nat) : List UInt8 :=
  (Limb.digits 256 len n).reverse.map (fun d => UInt8.ofNat d)

/-- big-endian integer of a byte string (`BigEndian::read_u64` over the chunks) -/
def beVal (bs : List UInt8) : Nat := bs.foldl (fun acc b => acc * 256 + b.toNat) 0

end Sm9
