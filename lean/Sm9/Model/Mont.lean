import Sm9.Model.Limbs
/-!
# Limb-level model of `u256.rs`, `u512.rs` and the `field_impl!` macro of `fields/fp.rs`

`U256`/`U512` values are `Nat`s (< 2^256, < 2^512); ark-ff primitives act on the value
(`Big.*`), the crate's own multi-limb loops (`mul`, `square`, `sum_of_products`) are run
limb by limb over `Limb.digits B64 4`.  Loops that are `while` in Rust take fuel and
return `none` when it runs out (= the binary would still be looping).
-/
namespace Sm9

structure MontParams where
  modulus : Nat
  rsquared : Nat
  one : Nat
  inv : Nat
  deriving Repr

def paramsQ : MontParams := ⟨Consts.FQ, Consts.FQ_SQUARED, Consts.FQ_ONE, Consts.FQ_INV⟩
def paramsR : MontParams := ⟨Consts.FR, Consts.FR_SQUARED, Consts.FR_ONE, Consts.FR_INV⟩

namespace U256

def limbs (a : Nat) : List Nat := Limb.digits B64 4 a
def ofLimbs (l : List Nat) : Nat := Limb.value B64 l

/-- `set_bit(n, to)`; returns the new value and whether the index was in range -/
def set_bit (a n : Nat) (to : Bool) : Nat × Bool :=
  if n ≥ 256 then (a, false)
  else (if to then a ||| (1 <<< n) else a &&& (W256 - 1 - (1 <<< n)), true)

def get_bit (a n : Nat) : Option Bool := if n ≥ 256 then none else some (a.testBit n)

def subtract_modulus_with_carry (a m : Nat) (carry : Bool) : Nat :=
  if carry || decide (a ≥ m) then (Big.sub_with_borrow W256 a m).1 else a

/-- `add_carry`: `while !self.sub_with_borrow(modulo) {}` -/
def add_carry : Nat → Nat → Nat → Option Nat
  | 0, _, _ => none
  | fuel + 1, a, m =>
    let (d, borrow) := Big.sub_with_borrow W256 a m
    if borrow then some d else add_carry fuel d m

def add (a b m : Nat) : Nat :=
  let (s, c) := Big.add_with_carry W256 a b
  subtract_modulus_with_carry s m c

def sub (a b m : Nat) : Nat :=
  let a := if a < b then (Big.add_with_carry W256 a m).1 else a
  (Big.sub_with_borrow W256 a b).1

def mul2 (a m : Nat) : Nat :=
  let (d, c) := Big.mul2 W256 a
  subtract_modulus_with_carry d m c

def div2 (a m : Nat) : Nat :=
  let (a, carry) := if Big.is_odd a then Big.add_with_carry W256 a m else (a, false)
  let a := Big.div2 a
  if carry then
    let a := (set_bit a 255 true).1
    subtract_modulus_with_carry a m false
  else a

/-- `mul_without_cond_subtract`: schoolbook product then four REDC rows -/
def mul_without_cond_subtract (a b m inv : Nat) : Bool × Nat :=
  let t := Limb.mulLimbs B64 (limbs a) (limbs b)
  let (w, carry2) := Limb.redc B64 inv (limbs m) (t.take 4) (t.drop 4) 0
  (carry2 != 0, ofLimbs w)

def mul (a b m inv : Nat) : Nat :=
  let (carry, res) := mul_without_cond_subtract a b m inv
  subtract_modulus_with_carry res m carry

/-! `square`: off-diagonal products, doubling by shifts, diagonal, then the same REDC -/

def getL (r : List Nat) (i : Nat) : Nat := r.getD i 0

/-- inner `for j in (i+1)..4` of the off-diagonal pass -/
def sqRow (a : List Nat) (i : Nat) (r : List Nat) : List Nat :=
  let (r, carry) := (List.range (3 - i)).foldl (fun (st : List Nat × Nat) k =>
      let j := i + 1 + k
      let (lo, c) := Limb.mac B64 (getL st.1 (i + j)) (getL a i) (getL a j) st.2
      (st.1.set (i + j) lo, c)) (r, 0)
  r.set (4 + i) carry

def sqOffDiag (a : List Nat) : List Nat :=
  [0, 1, 2].foldl (fun r i => sqRow a i r) (List.replicate 8 0)

def sqShift (r : List Nat) : List Nat :=
  let r := r.set 7 (getL r 6 >>> 63)
  let r := [2, 3, 4, 5, 6].foldl (fun r i =>
      r.set (8 - i) (((getL r (8 - i) <<< 1) % B64) ||| (getL r (8 - (i + 1)) >>> 63))) r
  r.set 1 ((getL r 1 <<< 1) % B64)

def sqDiag (a r : List Nat) : List Nat :=
  ([0, 1, 2, 3].foldl (fun (st : List Nat × Nat) i =>
      let (lo, c) := Limb.mac B64 (getL st.1 (2 * i)) (getL a i) (getL a i) st.2
      let r := st.1.set (2 * i) lo
      let (lo2, c2) := Limb.adc B64 (getL r (2 * i + 1)) 0 c
      (r.set (2 * i + 1) lo2, c2)) (r, 0)).1

def square (a m inv : Nat) : Nat :=
  let al := limbs a
  let t := sqDiag al (sqShift (sqOffDiag al))
  let (w, carry2) := Limb.redc B64 inv (limbs m) (t.take 4) (t.drop 4) 0
  subtract_modulus_with_carry (ofLimbs w) m (carry2 != 0)

def neg (a m : Nat) : Nat := if a != 0 then (Big.sub_with_borrow W256 m a).1 else a

/-- inner `while x.is_even() { x.div2(); y.div2(modulo) }` -/
def halve : Nat → Nat → Nat → Nat → Option (Nat × Nat)
  | 0, _, _, _ => none
  | fuel + 1, u, b, m =>
    if Big.is_even u then halve fuel (Big.div2 u) (div2 b m) m else some (u, b)

/-- outer loop of `invert` -/
def invLoop : Nat → Nat → Nat → Nat → Nat → Nat → Option Nat
  | 0, _, _, _, _, _ => none
  | fuel + 1, u, v, b, c, m =>
    if u != 1 && v != 1 then
      match halve 600 u b m with
      | none => none
      | some (u, b) =>
      match halve 600 v c m with
      | none => none
      | some (v, c) =>
        if u ≥ v then invLoop fuel ((Big.sub_with_borrow W256 u v).1) v (sub b c m) c m
        else invLoop fuel u ((Big.sub_with_borrow W256 v u).1) b (sub c b m) m
    else some (if u == 1 then b else c)

/-- `invert`: binary extended Euclid seeded with R²; `none` = does not terminate -/
def invert (a m rsquared : Nat) : Option Nat := invLoop 1200 a m rsquared 0 m

def from_slice (s : List UInt8) : Option Nat := if s.length != 32 then none else some (beVal s)
def to_big_endian (a : Nat) (buflen : Nat) : Option (List UInt8) :=
  if buflen != 32 then none else some (beBytes 32 a)

end U256

namespace U512

/-- `U512::new(c1, c0, modulo)` = c1·modulo + c0; the Boolean is the `debug_assert!(!carry)` -/
def new (c1 c0 m : Nat) : Nat × Bool :=
  let (low, high) := Big.mul c1 m
  let (low, carry) := Big.add_with_carry W256 low c0
  let (high, carry) := if carry then Big.add_with_carry W256 high 1 else (high, carry)
  (high * W256 + low, !carry)

def from_slice (s : List UInt8) : Option Nat := if s.length != 64 then none else some (beVal s)

/-- one iteration of the long division, for bit index `i` -/
def divStep (self m : Nat) (st : Option Nat × Nat) (i : Nat) : Option Nat × Nat :=
  let (q, r) := st
  let (r, carry) := Big.mul2 W256 r
  let r := (U256.set_bit r 0 (Big.get_bit self i)).1
  if decide (r ≥ m) || carry then
    let r := (Big.sub_with_borrow W256 r m).1
    let q := match q with
      | none => none
      | some qv => let (qv', ok) := U256.set_bit qv i true; if ok then some qv' else none
    (q, r)
  else (q, r)

/-- `divrem`; the Boolean is the `debug_assert!` on the reconstruction -/
def divrem (self m : Nat) : (Option Nat × Nat) × Bool :=
  let bits := Big.num_bits self
  let (q, r) := (List.range bits).reverse.foldl (divStep self m) (some 0, 0)
  let dbg := match q with
    | none => true
    | some qv => let (v, ok) := new qv r m; ok && v == self
  (if (match q with | some qv => decide (qv ≥ m) | none => false) then (none, r) else (q, r), dbg)

end U512

/-! limb-level field element: the stored Montgomery representative -/
namespace Fp
variable (P : MontParams)

def into_u256 (a : Nat) : Nat := U256.mul a 1 P.modulus P.inv
def new (a : Nat) : Option Nat :=
  if a < P.modulus then some (if a != 0 then U256.mul a P.rsquared P.modulus P.inv else a) else none
def new_mul_factor (a : Nat) : Nat := U256.mul a P.rsquared P.modulus P.inv
def from_slice (s : List UInt8) : Option Nat := (U256.from_slice s).bind (new P)
def to_slice (a : Nat) : List UInt8 := beBytes 32 (into_u256 P a)
/-- `interpret`: panics (`none`) only if `new` rejects the remainder -/
def interpret (buf : List UInt8) : Outcome Nat :=
  match U512.from_slice buf with
  | none => .panic
  | some v => Outcome.unwrap (new P (U512.divrem v P.modulus).1.2)
def zero : Nat := 0
def one : Nat := P.one
def is_zero (a : Nat) : Bool := a == 0
def add (a b : Nat) : Nat := U256.add a b P.modulus
def sub (a b : Nat) : Nat := U256.sub a b P.modulus
def mul (a b : Nat) : Nat := U256.mul a b P.modulus P.inv
def neg (a : Nat) : Nat := U256.neg a P.modulus
def double (a : Nat) : Nat := U256.mul2 a P.modulus
def triple (a : Nat) : Nat := add P (double P a) a
def squared (a : Nat) : Nat := U256.square a P.modulus P.inv
def div2 (a : Nat) : Nat := U256.div2 a P.modulus
/-- `inverse`; inner `none` = non-termination -/
def inverse (a : Nat) : Option (Option Nat) :=
  if is_zero a then some none else (U256.invert a P.modulus P.rsquared).map some
def set_bit (a bit : Nat) (to : Bool) : Nat :=
  new_mul_factor P (U256.set_bit (into_u256 P a) bit to).1
/-- `FieldElement::pow` with exponent taken out of Montgomery form -/
def pow (a e : Nat) : Nat :=
  (bitsMSB (into_u256 P e)).foldl
    (fun res i => let res := squared P res; if i then mul P res a else res) (one P)
/-- `from_str`: decimal digits only (`char::to_digit(10)`: ASCII 0-9) -/
def from_str (s : List Char) : Option Nat :=
  let ints : List Nat := (List.range 11).foldl (fun (st : List Nat × Nat) _ =>
      (st.1 ++ [st.2], add P st.2 (one P))) ([], zero) |>.1
  s.foldl (fun (res : Option Nat) c =>
    match res with
    | none => none
    | some res =>
      if c.isDigit then
        some (add P (mul P res (ints.getD 10 0)) (ints.getD (c.toNat - 48) 0))
      else none) (some zero)
/-- `random`: a 512-bit draw (limb 0 first) reduced modulo p, stored as is -/
def random (draw : List Nat) : Nat :=
  (U512.divrem (Limb.value B64 (draw.take 8)) P.modulus).1.2
end Fp

namespace FqL   -- `impl Fq` of fp.rs on limbs
def P := paramsQ

def minus1_div4 : Nat :=
  match Fp.new P Consts.FQ_MINUS1_DIV4_NUM, Fp.new P Consts.FQ_MINUS1_DIV4_DEN with
  | some n, some d =>
    match Fp.inverse P d with
    | some (some i) => Fp.mul P (Fp.neg P n) i
    | _ => 0
  | _, _ => 0
def minus5_div8 : Nat :=
  match Fp.new P Consts.FQ_MINUS5_DIV8_NUM, Fp.new P Consts.FQ_MINUS5_DIV8_DEN with
  | some n, some d =>
    match Fp.inverse P d with
    | some (some i) => Fp.mul P (Fp.neg P n) i
    | _ => 0
  | _, _ => 0

def is_one (a : Nat) : Bool := a == Fp.one P

def sqrt (x : Nat) : Option Nat :=
  if Fp.is_zero x then some Fp.zero else
  let a1a := Fp.pow P x minus1_div4
  let res : Nat :=
    if is_one a1a then Fp.mul P (Fp.pow P x minus5_div8) x
    else if is_one (Fp.neg P a1a) then
      let a := Fp.double P x
      let b := Fp.pow P (Fp.double P a) minus5_div8
      Fp.mul P a b
    else Fp.zero
  if Fp.is_zero res then none
  else
    let rr := Fp.neg P res
    some (if Fp.into_u256 P rr < Fp.into_u256 P res then rr else res)

/-- inner fold of `sum_of_products`: accumulate digit_j × row for every pair -/
def sopAcc (j : Nat) (as bs : List Nat) (u : List Nat) : List Nat :=
  (List.zip as bs).foldl (fun (t : List Nat) (ab : Nat × Nat) =>
    let d := U256.getL (U256.limbs ab.1) j
    let e := U256.limbs ab.2
    let (t0, carry) := Limb.mac B64 (U256.getL t 0) d (U256.getL e 0) 0
    let (t1, carry) := Limb.mac B64 (U256.getL t 1) d (U256.getL e 1) carry
    let (t2, carry) := Limb.mac B64 (U256.getL t 2) d (U256.getL e 2) carry
    let (t3, carry) := Limb.mac B64 (U256.getL t 3) d (U256.getL e 3) carry
    let (t4, carry) := Limb.adc B64 (U256.getL t 4) 0 carry
    let (t5, _) := Limb.adc B64 (U256.getL t 5) 0 carry
    [t0, t1, t2, t3, t4, t5]) (u ++ [0])

/-- one Montgomery step of `sum_of_products` -/
def sopRed (t : List Nat) : List Nat :=
  let k := (U256.getL t 0 * P.inv) % B64
  let m := U256.limbs P.modulus
  let (_, carry) := Limb.mac B64 (U256.getL t 0) k (U256.getL m 0) 0
  let (r1, carry) := Limb.mac B64 (U256.getL t 1) k (U256.getL m 1) carry
  let (r2, carry) := Limb.mac B64 (U256.getL t 2) k (U256.getL m 2) carry
  let (r3, carry) := Limb.mac B64 (U256.getL t 3) k (U256.getL m 3) carry
  let (r4, carry) := Limb.adc B64 (U256.getL t 4) 0 carry
  let (r5, _) := Limb.adc B64 (U256.getL t 5) 0 carry
  [r1, r2, r3, r4, r5]

/-- `Fq::sum_of_products` (Longa, ePrint 2022/367, Algorithm 2); `none` = `add_carry`
    did not terminate -/
def sum_of_products (as bs : List Nat) : Option Nat :=
  let u := [0, 1, 2, 3].foldl (fun u j => sopRed (sopAcc j as bs u)) [0, 0, 0, 0, 0]
  let r := U256.ofLimbs (u.take 4)
  let u4 := U256.getL u 4
  let r := (List.range u4).foldl (fun (r : Option Nat) _ =>
      r.bind (fun r => U256.add_carry 8 r P.modulus)) (some r)
  r.map (fun r => U256.subtract_modulus_with_carry r P.modulus false)
end FqL

namespace FrL
def P := paramsR
/-- `Fr::from_hash`: (Ha mod (n−1)) + 1 -/
def from_hash (ha : List UInt8) : Outcome (Option Nat) :=
  if ha.length > 64 then .ok none else
  let v := List.replicate (64 - ha.length) (0 : UInt8) ++ ha
  match U512.from_slice v with
  | none => .panic
  | some u512 =>
    let a := Fp.into_u256 P (Fp.neg P (Fp.one P))
    .ok ((Fp.new P (U512.divrem u512 a).1.2).map (fun f => Fp.add P f (Fp.one P)))
end FrL

end Sm9
