import Sm9.Model.Groups
/-!
# R-ate pairing — model of `pairings.rs`

Two Miller loops (GmSSL-style numerator/denominator in Jacobian coordinates, and the
MIRACL-style precomputed line coefficients), the easy part and the two hard-part
addition chains of the final exponentiation, `Fq12::pow(u128)`.
`for` loops are `List.foldl` over the loop table; the two `while` loops of `pow` take
fuel (128 suffices for a `u128`, `Sm9.Proofs`).  Panic sites (`unwrap`, `expect`,
indexing) are explicit `Outcome`s.
-/
namespace Sm9

open FieldElement

namespace Fq12

/-- first `while` of `pow`: strip trailing zero bits, squaring the base -/
def powStrip : Nat → Fq12 → Nat → Fq12 × Nat
  | 0, base, exp => (base, exp)
  | fuel + 1, base, exp =>
    if exp % 2 == 0 then powStrip fuel base.squared (exp / 2) else (base, exp)

/-- second `while` of `pow` -/
def powAcc : Nat → Fq12 → Fq12 → Nat → Fq12
  | 0, _, acc, _ => acc
  | fuel + 1, base, acc, exp =>
    if exp > 1 then
      let exp := exp / 2
      let base := base.squared
      let acc := if exp % 2 == 1 then acc * base else acc
      powAcc fuel base acc exp
    else acc

/-- `Fq12::pow(&self, exp: u128)` (pairings.rs) -/
def pow_u128 (x : Fq12) (exp : Nat) : Fq12 :=
  if exp == 0 then Fq12.one else
  let (base, exp) := powStrip 128 x exp
  if exp == 1 then base else
  powAcc 128 base base exp

def final_exponentiation_first_chunk (x : Fq12) : Option Fq12 :=
  match x.inverse with
  | none => none
  | some b =>
    let a := x.frob6
    let c := a * b
    let d := c.frob2
    some (d * c)

def final_exponentiation_last_chunk (x : Fq12) : Outcome Fq12 := do
  let a := x.pow_u128 Consts.SM9_A3
  let b ← Outcome.unwrap a.inverse
  let c := b.frob1
  let d := c * b
  let e := d * b
  let f := x.frob1
  let g := x * f
  let h := g.pow_u128 Consts.SM9_NINE
  let i := e * h
  let j := x.squared
  let k := j.squared
  let l := k * i
  let m := f.squared
  let n := d * m
  let o := x.frob2
  let p := o * n
  let q := p.pow_u128 Consts.SM9_A2
  let r := q * l
  let s := x.frob3
  pure (s * r)

/-- `final_exponentiation`: `first_chunk().map(|a| a.last_chunk())`; a panic inside the
    closure propagates -/
def final_exponentiation (x : Fq12) : Outcome (Option Fq12) :=
  match x.final_exponentiation_first_chunk with
  | none => .ok none
  | some a => do let v ← a.final_exponentiation_last_chunk; pure (some v)

def final_exp_last_chunk (x : Fq12) : Outcome Fq12 := do
  let t1 ← Outcome.unwrap (x.pow_u128 Consts.SM9_S).inverse
  let t0 := x.frob1
  let x0 := x.frob2
  let x1 := x.frob6
  let x3 := t1.frob1
  let x4 := t1
  let x0 := x0 * (x * t0)
  let x0 := x0.frob1
  let x5 := t1.pow_u128 Consts.SM9_S
  let t1 ← Outcome.unwrap x5.inverse
  let u ← Outcome.unwrap t1.frob1.inverse
  let x4 := x4 * u
  let x2 := t1.frob2
  let t0 ← Outcome.unwrap (t1.pow_u128 Consts.SM9_S).inverse
  let t1 := t0.frob1
  let t0 := t0 * t1
  let t0 := t0.squared
  let t0 := t0 * (x4 * x5)
  let t1 := x3 * x5
  let t1 := t1 * t0
  let t0 := t0 * x2
  let t1 := t1.squared
  let t1 := t1 * t0
  let t1 := t1.squared
  let t0 := t1 * x1
  let t1 := t1 * x0
  let t0 := t0.squared
  pure (t0 * t1)

def final_exp (x : Fq12) : Outcome (Option Fq12) :=
  match x.final_exponentiation_first_chunk with
  | none => .ok none
  | some a => do let v ← a.final_exp_last_chunk; pure (some v)

end Fq12

/-- `Fq::new(*SM9_PI1).unwrap()` — constants below q by `Sm9.consts_lt_q` -/
def pi1 : Fq := Fq.ofNat Consts.SM9_PI1
def pi2 : Fq := Fq.ofNat Consts.SM9_PI2

namespace G2m   -- `impl G2` of pairings.rs

def point_pi1 (a : G2) : G2 :=
  G.new a.x.unitary_inverse a.y.unitary_inverse (a.z.unitary_inverse.scale pi1)

def point_pi2 (a : G2) : G2 := G.new a.x a.y (a.z.scale pi2)

def eval_g_tangent (t : G2) (q : G1) : Fq12 × Fq12 :=
  let num := Fq12.zero
  let den := Fq12.zero
  let t0 := t.z.squared
  let t1 := t0 * t.z
  let b1 := t1 * t.y
  let a1 := -(b1.scale q.y)
  let t1 := t.x.squared
  let t0 := t0 * t1
  let t0 := t0.scale q.x
  let a4 := t0.triple.div2
  let t1 := t1 * t.x
  let t1 := t1.triple.div2
  let t0 := t.y.squared
  let a0 := t0 - t1
  let num := { num with c0 := Fq4.new a0 a1 }
  let num := { num with c2 := Fq4.new a4 Fq2.zero }
  let den := { den with c0 := Fq4.new Fq2.zero b1 }
  (num, den)

def eval_g_line (t : G2) (p : G2) (q : G1) : Fq12 × Fq12 :=
  let num := Fq12.zero
  let den := Fq12.zero
  let t0 := p.z.squared
  let t1 := t0 * t.x
  let t0 := t0 * p.z
  let t2 := t.z.squared
  let t3 := t2 * p.x
  let t2 := t2 * t.z
  let t2 := t2 * p.y
  let t1 := t1 - t3
  let t1 := t1 * t.z
  let t1 := t1 * p.z
  let b1 := t1 * t0
  let t1 := t1 * p.y
  let t3 := t0 * t.y
  let t3 := t3 - t2
  let t0 := t0 * t3
  let a4 := t0.scale q.x
  let t3 := t3 * p.x * p.z
  let a0 := t1 - t3
  let a1 := -(b1.scale q.y)
  let num := { num with c0 := Fq4.new a0 a1 }
  let num := { num with c2 := Fq4.new a4 Fq2.zero }
  let den := { den with c0 := Fq4.new Fq2.zero b1 }
  (num, den)

/-- state of the first Miller loop: `(t, f_num, f_den)` -/
def millerStep (self q1 : G2) (p : G1) (st : G2 × Fq12 × Fq12) (i : Nat) : G2 × Fq12 × Fq12 :=
  let (t, f_num, f_den) := st
  let f_num := f_num.squared
  let f_den := f_den.squared
  let (g_num, g_den) := eval_g_tangent t p
  let f_num := f_num * g_num
  let f_den := f_den * g_den
  let t := t.double
  if i == 1 then
    let (g_num, g_den) := eval_g_line t self p
    let f_num := f_num * g_num
    let f_den := f_den * g_den
    let t := t.add self
    (t, f_num, f_den)
  else if i == 2 then
    let (g_num, g_den) := eval_g_line t q1 p
    let f_num := f_num * g_num
    let f_den := f_den * g_den
    let t := t.add q1
    (t, f_num, f_den)
  else (t, f_num, f_den)

/-- `G2::miller_loop` (numerator / denominator variant) -/
def miller_loop (self : G2) (p : G1) : Outcome Fq12 :=
  let q1 := self.neg
  let (t, f_num, f_den) :=
    Consts.SM9_LOOP_COUNT.foldl (millerStep self q1 p) (self, Fq12.one, Fq12.one)
  let q1 := point_pi1 self
  let q2 := (point_pi2 self).neg
  let (g_num, g_den) := eval_g_line t q1 p
  let f_num := f_num * g_num
  let f_den := f_den * g_den
  let t := t.add q1
  let (g_num, g_den) := eval_g_line t q2 p
  let f_num := f_num * g_num
  let f_den := f_den * g_den
  do
    let f_den ← Outcome.unwrap f_den.inverse
    pure (f_num * f_den)

def q_power_frobenius (a : G2) (f : Fq2) : Option G2 :=
  match f.inverse with
  | none => none
  | some r =>
    let w := r.squared
    some (G.new (a.x.unitary_inverse * w) (a.y.unitary_inverse * w * r) a.z.unitary_inverse)

/-- `g_line(&mut self, g2)` returns the updated `self` and the coefficients -/
def g_line (t : G2) (g2 : G2) : G2 × (Fq2 × Fq2 × Fq2) :=
  let lam := t.z.squared
  let c2 := t.y - (lam * t.z) * g2.y
  let t := t.add g2
  let c0 := t.z
  let c1 := (-c2) * g2.x - c0 * g2.y
  (t, (c0, c1, c2))

def g_tangent (t : G2) : G2 × (Fq2 × Fq2 × Fq2) :=
  let lam := t.x.squared.triple
  let extra := t.y.squared.double
  let zz := t.z.squared
  let c1 := lam * t.x - extra
  let c2 := -(zz * lam)
  let t := t.double
  let c0 := t.z * zz
  (t, (c0, c1, c2))

end G2m

/-- `bit(n, pos)` -/
def bit (n pos : Nat) : Bool := n.testBit pos

/-- `u128::BITS - SM9_LOOP_N.leading_zeros() - 1` -/
def loopBits : Nat := bitLen Consts.SM9_LOOP_N - 1

/-- the loop indices `(0..bits).rev()` -/
def loopIdx : List Nat := (List.range loopBits).reverse

structure G2Prepared where
  coeffs : List (Fq2 × Fq2 × Fq2)
  deriving DecidableEq, Repr

namespace G2Prepared

def prepStep (g2 : G2) (st : G2 × List (Fq2 × Fq2 × Fq2)) (i : Nat) : G2 × List (Fq2 × Fq2 × Fq2) :=
  let (p, coeffs) := st
  let (p, coeff) := G2m.g_tangent p
  let coeffs := coeffs ++ [coeff]
  if bit Consts.SM9_LOOP_N i then
    let (p, coeff) := G2m.g_line p g2
    (p, coeffs ++ [coeff])
  else (p, coeffs)

/-- the `for i in (0..bits).rev()` loop of `G2Prepared::from` -/
def prepLoop (g2 : G2) : G2 × List (Fq2 × Fq2 × Fq2) := loopIdx.foldl (prepStep g2) (g2, [])

/-- the two Frobenius line steps after the loop -/
def prepTail (g2 : G2) (st : G2 × List (Fq2 × Fq2 × Fq2)) : Outcome G2Prepared :=
  match G2m.q_power_frobenius g2 (Fq2.new pi1 0) with
  | none => .panic            -- `.unwrap()`
  | some ka =>
    let r1 := G2m.g_line st.1 ka
    match G2m.q_power_frobenius ka (Fq2.new pi1 0) with
    | none => .panic          -- `.unwrap()`
    | some ka2 =>
      let r2 := G2m.g_line r1.1 ka2.neg
      .ok { coeffs := (st.2 ++ [r1.2]) ++ [r2.2] }

/-- `From<G2> for G2Prepared` (pairings.rs; the argument is expected normalised) -/
def from_ (g2 : G2) : Outcome G2Prepared :=
  if g2.is_zero then .ok { coeffs := [] } else prepTail g2 (prepLoop g2)

def get_fq12 (c : Fq2 × Fq2 × Fq2) (t1 : Fq2) (x : Fq) : Fq12 :=
  { c0 := Fq4.new (c.1 * t1) c.2.1, c1 := Fq4.zero, c2 := Fq4.new Fq2.zero (c.2.2.scale x) }

/-- `self.coeffs[idx]` -/
def idx (cs : List (Fq2 × Fq2 × Fq2)) (i : Nat) : Outcome (Fq2 × Fq2 × Fq2) :=
  Outcome.unwrap cs[i]?

def mlStep (cs : List (Fq2 × Fq2 × Fq2)) (t1 : Fq2) (x : Fq) (st : Fq12 × Nat) (i : Nat) :
    Outcome (Fq12 × Nat) := do
  let (f, k) := st
  let c ← idx cs k
  let k := k + 1
  let f := f.squared
  let f := f.mul_015 (get_fq12 c t1 x)
  if bit Consts.SM9_LOOP_N i then
    let c ← idx cs k
    let k := k + 1
    let f := f.mul_015 (get_fq12 c t1 x)
    pure (f, k)
  else pure (f, k)

def mlTail (cs : List (Fq2 × Fq2 × Fq2)) (t1 : Fq2) (x : Fq) (st : Fq12 × Nat) (_ : Nat) :
    Outcome (Fq12 × Nat) := do
  let (f, k) := st
  let c ← idx cs k
  let k := k + 1
  let f := f.mul_015 (get_fq12 c t1 x)
  pure (f, k)

/-- `G2Prepared::miller_loop` (the argument is expected normalised) -/
def miller_loop (self : G2Prepared) (g1 : G1) : Outcome Fq12 :=
  let f := Fq12.one
  if g1.is_zero || self.coeffs.isEmpty then .ok f else
  let t1 := (Fq2.new g1.y 0).mul_by_nonresidue
  do
    let st ← loopIdx.foldlM (mlStep self.coeffs t1 g1.x) (f, 0)
    let st ← [0, 1].foldlM (mlTail self.coeffs t1 g1.x) st
    pure st.1

end G2Prepared

namespace Pairings

/-- `pairings::pairing` -/
def pairing (p : G1) (q : G2) : Outcome Fq12 :=
  match p.to_affine, q.to_affine with
  | none, _ => .ok Fq12.one
  | _, none => .ok Fq12.one
  | some p, some q => do
    let f ← G2m.miller_loop q.to_jacobian p.to_jacobian
    let v ← f.final_exponentiation
    Outcome.unwrap v

/-- `pairings::fast_pairing` -/
def fast_pairing (g1 : G1) (g2 : G2) : Outcome Fq12 := do
  let g2p ← G2Prepared.from_ g2
  let f ← g2p.miller_loop g1
  let v ← f.final_exp
  Outcome.unwrap v

end Pairings

end Sm9
