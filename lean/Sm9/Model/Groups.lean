import Sm9.Model.Tower
/-!
# Jacobian groups — model of `groups.rs`

`G F` mirrors `G<P: GroupParams>` with `F = P::Base`; the parameters of `GroupParams`
(`coeff_b`, `check_order`, the generator) are a class indexed by the base field
(the crate has exactly one parameter set per base field).
-/
namespace Sm9

structure G (F : Type) where
  x : F
  y : F
  z : F
  deriving DecidableEq, Inhabited, Repr

structure AffineG (F : Type) where
  x : F
  y : F
  deriving DecidableEq, Inhabited, Repr

inductive GroupError where
  | NotOnCurve
  | NotInSubgroup
  deriving DecidableEq, Repr

class GroupParams (F : Type) [FieldElement F] where
  coeff_b : F
  check_order : Bool
  gen_x : F
  gen_y : F

open FieldElement

namespace G
variable {F : Type} [FieldElement F]

def new (x y z : F) : G F := { x, y, z }
def zero : G F := { x := 0, y := 1, z := 0 }
def is_zero (a : G F) : Bool := FieldElement.is_zero a.z

/-- `PartialEq for G<P>`: cross-multiplied comparison, identity cases first -/
def eq (a other : G F) : Bool :=
  if a.is_zero then other.is_zero else
  if other.is_zero then false else
  let z1_squared := squared a.z
  let z2_squared := squared other.z
  if !(beq (a.x * z2_squared) (other.x * z1_squared)) then false else
  let z1_cubed := a.z * z1_squared
  let z2_cubed := other.z * z2_squared
  if !(beq (a.y * z2_cubed) (other.y * z1_cubed)) then false else
  true

def to_affine (a : G F) : Option (AffineG F) :=
  if FieldElement.is_zero a.z then none
  else if beq a.z 1 then some { x := a.x, y := a.y }
  else
    match inverse a.z with
    | none => none
    | some zinv =>
      let zinv_squared := squared zinv
      some { x := a.x * zinv_squared, y := a.y * (zinv_squared * zinv) }

/-- dbl-2009-l (a = 0) -/
def double (p : G F) : G F :=
  let a := squared p.x
  let b := squared p.y
  let c := squared b
  let d := FieldElement.double (squared (p.x + b) - a - c)
  let e := triple a
  let f := squared e
  let x3 := f - FieldElement.double d
  let eight_c := FieldElement.double (FieldElement.double (FieldElement.double c))
  let y1z1 := p.y * p.z
  { x := x3, y := e * (d - x3) - eight_c, z := FieldElement.double y1z1 }

/-- `(true, true)` arm of `add` -/
def add_tt (a other : G F) : G F :=
  let h := other.x - a.x
  let r := other.y - a.y
  if FieldElement.is_zero r && FieldElement.is_zero h then a.double else
  let hh := squared h
  let hhh := h * hh
  let v := a.x * hh
  let x := squared r - hhh - FieldElement.double v
  let y := r * (v - x) - a.y * hhh
  let z := h
  { x, y, z }

/-- `(false, true)` arm of `add` -/
def add_ft (a other : G F) : G F :=
  let z1_squared := squared a.z
  let u2 := other.x * z1_squared
  let z1_cubed := a.z * z1_squared
  let s2 := other.y * z1_cubed
  let h := u2 - a.x
  let r := s2 - a.y
  if FieldElement.is_zero r && FieldElement.is_zero h then a.double else
  let hh := squared h
  let hhh := h * hh
  let v := a.x * hh
  let x := squared r - hhh - FieldElement.double v
  let y := r * (v - x) - a.y * hhh
  let z := a.z * h
  { x, y, z }

/-- `(false, false)` arm of `add` -/
def add_ff (a other : G F) : G F :=
  let z1_squared := squared a.z
  let z2_squared := squared other.z
  let u1 := a.x * z2_squared
  let u2 := other.x * z1_squared
  let z1_cubed := a.z * z1_squared
  let z2_cubed := other.z * z2_squared
  let s1 := a.y * z2_cubed
  let s2 := other.y * z1_cubed
  let r := s2 - s1
  let h := u2 - u1
  let t6 := s1 + s2
  if FieldElement.is_zero r && FieldElement.is_zero h then a.double else
  if FieldElement.is_zero r && FieldElement.is_zero t6 then zero else
  let hh := squared h
  let hhh := h * hh
  let v := u1 * hh
  let x := squared r - hhh - FieldElement.double v
  let y := r * (v - x) - s1 * hhh
  let z := a.z * other.z * h
  { x, y, z }

/-- `Add for G<P>`.  The `(true, false)` arm is `other + self` in the source: the
    re-entered call passes the same two identity tests and takes the `(false, true)`
    arm, which is what is written here (recursion unfolded once). -/
def add (a other : G F) : G F :=
  if a.is_zero then other else
  if other.is_zero then a else
  match beq a.z 1, beq other.z 1 with
  | true, true => add_tt a other
  | false, true => add_ft a other
  | true, false => add_ft other a
  | false, false => add_ff a other

def neg (a : G F) : G F :=
  if a.is_zero then a else { x := a.x, y := -a.y, z := a.z }

def sub (a other : G F) : G F := a.add other.neg

/-- `Mul<Fr> for G<P>`: double-and-add over the canonical bits of the scalar -/
def mulBits (a : G F) (bits : List Bool) : G F :=
  bits.foldl (fun res i => let res := res.double; if i then res.add a else res) zero

def mul (a : G F) (k : Fr) : G F := a.mulBits (bitsMSB k.val)

/-! operator instances (`impl Add / Sub / Neg for G<P>`) -/
instance : Add (G F) := ⟨G.add⟩
instance : Sub (G F) := ⟨G.sub⟩
instance : Neg (G F) := ⟨G.neg⟩

end G

namespace AffineG
variable {F : Type}
def to_jacobian [FieldElement F] (a : AffineG F) : G F := { x := a.x, y := a.y, z := 1 }
def neg [FieldElement F] (a : AffineG F) : AffineG F := { x := a.x, y := -a.y }

/-- `AffineG::new`: curve equation, then (G2 only) the subgroup test
    `p * (-1) + p == zero` -/
def new [FieldElement F] [GroupParams F] (x y : F) : Except GroupError (AffineG F) :=
  if beq (squared y) ((squared x * x) + GroupParams.coeff_b) then
    if GroupParams.check_order F then
      let p : G F := { x, y, z := 1 }
      if !(G.eq ((p.mul (-(1 : Fr))).add p) G.zero) then
        .error GroupError.NotInSubgroup
      else .ok { x, y }
    else .ok { x, y }
  else .error GroupError.NotOnCurve
end AffineG

/-! ## parameter sets -/

/-- `Fq::from_str("5")` -/
def coeffB1 : Fq := Fq.ofNat Consts.COEFF_B_FQ

instance : GroupParams Fq where
  coeff_b := coeffB1
  check_order := false
  gen_x := Fq.ofNat Consts.SM9_P1X
  gen_y := Fq.ofNat Consts.SM9_P1Y

instance : GroupParams Fq2 where
  coeff_b := Fq2.i.scale (Fq.ofNat Consts.COEFF_B_FQ2)
  check_order := true
  gen_x := Fq2.new (Fq.ofNat Consts.SM9_P2X0) (Fq.ofNat Consts.SM9_P2X1)
  gen_y := Fq2.new (Fq.ofNat Consts.SM9_P2Y0) (Fq.ofNat Consts.SM9_P2Y1)

abbrev G1 := G Fq
abbrev G2 := G Fq2
abbrev AffineG1 := AffineG Fq
abbrev AffineG2 := AffineG Fq2

/-- `G1Params::one`.  The source decodes the generator bytes with the strict
    `Fq::from_slice(..).unwrap()`; `Sm9.Proofs` checks the four/two constants are < q,
    so `ofNat` is the same value. -/
def G.one {F} [FieldElement F] [GroupParams F] : G F := { x := GroupParams.gen_x, y := GroupParams.gen_y, z := 1 }

end Sm9
