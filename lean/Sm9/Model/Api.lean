import Sm9.Model.Pairings
import Sm9.Model.Mont
/-!
# Public API — model of `lib.rs` (hand-written, value level)

Wrappers `Fr Fq Fq2 G1 G2 Gt AffineG1 AffineG2 G2Prepared`, byte codecs and decoders,
`normalize`, the three pairing entry points.  Field conversions are stated on values
(`n mod p`); the limb-level algorithms that compute them (`Sm9.Fp.*`, `U512.divrem`) are
related to these by `Sm9.Proofs.Mont*` and tied to the code by the correspondence check.
Every call that can panic in Rust returns `Outcome`.
-/
namespace Sm9

inductive CurveError where
  | InvalidEncoding
  | NotMember
  deriving DecidableEq, Repr

namespace Api

/-! ## field conversions (lib.rs 103-345, fp.rs) -/

/-- `Fr::from_slice` / `Fq::from_slice`: lengths 1..=64, big-endian integer mod p.
    (1..=31: pad and strict-decode, always below p; 32: Montgomery-multiply by R², which
    reduces; 33..=64: 512-bit remainder.) -/
def frFromSlice (bs : List UInt8) : Option Fr :=
  if 1 ≤ bs.length ∧ bs.length ≤ 64 then some (Fr.ofNat (beVal bs)) else none
def fqFromSlice (bs : List UInt8) : Option Fq :=
  if 1 ≤ bs.length ∧ bs.length ≤ 64 then some (Fq.ofNat (beVal bs)) else none

/-- strict 32-byte decoder `fields::Fq::from_slice` -/
def fqFromSliceStrict (bs : List UInt8) : Option Fq :=
  if bs.length = 32 then Fq.new (beVal bs) else none

def frToSlice (a : Fr) : List UInt8 := beBytes 32 a.val
def fqToSlice (a : Fq) : List UInt8 := beBytes 32 a.val

/-- `Fq::to_big_endian`: a wrong buffer length is an error, not a panic -/
def fqToBigEndian (a : Fq) (buflen : Nat) : Option (List UInt8) :=
  if buflen = 32 then some (beBytes 32 a.val) else none

/-- `from_str`: decimal value mod p, `none` as soon as a non-digit occurs -/
def frFromStr (s : List Char) : Option Fr :=
  if s.all Char.isDigit then some (Fr.ofNat (s.foldl (fun acc c => acc * 10 + (c.toNat - 48)) 0)) else none
def fqFromStr (s : List Char) : Option Fq :=
  if s.all Char.isDigit then some (Fq.ofNat (s.foldl (fun acc c => acc * 10 + (c.toNat - 48)) 0)) else none

/-- `Fr::from_hash`: (Ha mod (r−1)) + 1 for up to 64 bytes -/
def frFromHash (ha : List UInt8) : Option Fr :=
  if ha.length > 64 then none else some (Fr.ofNat (beVal ha % (r - 1) + 1))

/-- `Fr::set_bit` (after the fix): set bit `i` of the canonical value, reduce mod r -/
def frSetBit (a : Fr) (i : Nat) (v : Bool) : Fr := Fr.ofNat (U256.set_bit a.val i v).1

/-- `Fr::random`: 512-bit draw (limb 0 first) mod r, stored *as the Montgomery
    representative*, i.e. the value is draw·R⁻¹ -/
def frRandomRaw (draw : List Nat) : Nat := Limb.value B64 (draw.take 8) % r

/-! ## Fq2 (lib.rs 349-422) -/

def fq2ToSlice (a : Fq2) : List UInt8 := fqToSlice a.c1 ++ fqToSlice a.c0
def fq2FromSlice (bs : List UInt8) : Option Fq2 :=
  if bs.length = 64 then
    match fqFromSliceStrict (bs.take 32), fqFromSliceStrict (bs.drop 32) with
    | some c1, some c0 => some { c0, c1 }
    | _, _ => none
  else none
def fq2IsEven (a : Fq2) : Bool := a.c0.is_even

def fq4ToSlice (a : Fq4) : List UInt8 := fq2ToSlice a.c1 ++ fq2ToSlice a.c0
def fq12ToSlice (a : Fq12) : List UInt8 := fq4ToSlice a.c2 ++ fq4ToSlice a.c1 ++ fq4ToSlice a.c0

/-! ## groups -/

def normalize {F} [FieldElement F] (p : G F) : G F :=
  match p.to_affine with
  | some a => a.to_jacobian
  | none => p

def g1B : Fq := coeffB1
def g2B : Fq2 := GroupParams.coeff_b

def liftNew {F} [FieldElement F] [GroupParams F] (x y : F) : Except CurveError (G F) :=
  match AffineG.new x y with
  | .ok a => .ok a.to_jacobian
  | .error _ => .error CurveError.NotMember

/-- `G1::from_slice` -/
def g1FromSlice (bs : List UInt8) : Except CurveError G1 :=
  if bs.length ≠ 64 then .error .InvalidEncoding else
  match fqFromSliceStrict (bs.take 32), fqFromSliceStrict (bs.drop 32) with
  | some x, some y => liftNew x y
  | _, _ => .error .InvalidEncoding

def g1FromUncompressed (bs : List UInt8) : Except CurveError G1 :=
  if bs.length ≠ 65 ∨ bs.head? ≠ some 4 then .error .InvalidEncoding else g1FromSlice (bs.drop 1)

def g1FromCompressed (bs : List UInt8) : Except CurveError G1 :=
  if bs.length ≠ 33 then .error .InvalidEncoding else
  let sign := (bs.headD 0).toNat
  if sign ≠ 2 ∧ sign ≠ 3 then .error .InvalidEncoding else
  match fqFromSliceStrict (bs.drop 1) with
  | none => .error .InvalidEncoding
  | some x =>
    let y_squared := (x * x * x) + g1B
    match y_squared.sqrt with
    | none => .error .NotMember
    | some y =>
      let is_even := sign % 2 == 0
      let y := if is_even != y.is_even then -y else y
      liftNew x y

/-- `AffineG1::from_jacobian(self).unwrap()` then x ‖ y -/
def g1ToSlice (p : G1) : Outcome (List UInt8) :=
  match p.to_affine with
  | none => .panic
  | some a => .ok (fqToSlice a.x ++ fqToSlice a.y)
def g1ToUncompressed (p : G1) : Outcome (List UInt8) := do
  let s ← g1ToSlice p
  pure ((4 : UInt8) :: s)
def g1ToCompressed (p : G1) : Outcome (List UInt8) :=
  match p.to_affine with
  | none => .panic
  | some a => .ok ((if a.y.is_even then (2 : UInt8) else 3) :: fqToSlice a.x)

def g2FromSlice (bs : List UInt8) : Except CurveError G2 :=
  if bs.length ≠ 128 then .error .InvalidEncoding else
  match fq2FromSlice (bs.take 64), fq2FromSlice (bs.drop 64) with
  | some x, some y => liftNew x y
  | _, _ => .error .InvalidEncoding

def g2FromUncompressed (bs : List UInt8) : Except CurveError G2 :=
  if bs.length ≠ 129 ∨ bs.head? ≠ some 4 then .error .InvalidEncoding else g2FromSlice (bs.drop 1)

def g2FromCompressed (bs : List UInt8) : Except CurveError G2 :=
  if bs.length ≠ 65 then .error .InvalidEncoding else
  let sign := (bs.headD 0).toNat
  if sign ≠ 2 ∧ sign ≠ 3 then .error .InvalidEncoding else
  match fq2FromSlice (bs.drop 1) with
  | none => .error .InvalidEncoding
  | some x =>
    let y_squared := (x * x * x) + g2B
    match y_squared.sqrt with
    | none => .error .NotMember
    | some y =>
      let is_even := sign % 2 == 0
      let y := if is_even != fq2IsEven y then -y else y
      liftNew x y

def g2ToSlice (p : G2) : Outcome (List UInt8) :=
  match p.to_affine with
  | none => .panic
  | some a => .ok (fq2ToSlice a.x ++ fq2ToSlice a.y)
def g2ToUncompressed (p : G2) : Outcome (List UInt8) := do
  let s ← g2ToSlice p
  pure ((4 : UInt8) :: s)
def g2ToCompressed (p : G2) : Outcome (List UInt8) :=
  match p.to_affine with
  | none => .panic
  | some a => .ok ((if fq2IsEven a.y then (2 : UInt8) else 3) :: fq2ToSlice a.x)

/-! ## Gt and pairings (lib.rs 817-944) -/

def gtPow (g : Fq12) (e : Fr) : Fq12 := FieldElement.pow g e.val

/-- `sm9_core::pairing` -/
def pairing (p : G1) (q : G2) : Outcome Fq12 := Pairings.pairing p q

/-- `sm9_core::fast_pairing`: normalise both, then the prepared path -/
def fast_pairing (p : G1) (q : G2) : Outcome Fq12 :=
  Pairings.fast_pairing (normalize p) (normalize q)

/-- `G2Prepared::from(G2)` of lib.rs: normalise, then prepare -/
def prepare (q : G2) : Outcome G2Prepared := G2Prepared.from_ (normalize q)

/-- `G2Prepared::pairing(&self, &G1)` -/
def preparedPairing (pq : G2Prepared) (p : G1) : Outcome Fq12 := do
  let f ← pq.miller_loop (normalize p)
  let v ← f.final_exp
  Outcome.unwrap v

end Api
end Sm9
