import Sm9.Model.Mont
import Sm9.Proofs.MontBasic
import Sm9.Proofs.MontMul
/-!
# Limb level refines value level: `Fq::sum_of_products` (fp.rs, Longa's Algorithm 2)

* `FqL.accStep_spec`, `FqL.accFold_spec`: the inner accumulation of one digit column adds
  `Σ_i digit_j(a_i)·b_i` to the 6-limb accumulator (no limb is lost as long as the total is
  below `2^384`).
* `FqL.sopRed_spec`: one interleaved Montgomery step divides by `2^64` exactly.
* `FqL.round_spec`: one round `u ↦ sopRed (sopAcc j as bs u)`.
* `U256.add_carry_spec`, `FqL.carryFold_spec`: `add_carry` terminates within two iterations,
  stays below `2^256` and adds `2^256` modulo `m`.
* `FqL.sum_of_products_refines_gen` / `FqL.sum_of_products_refines` (main theorems): the
  result exists (no fuel exhaustion), is canonical (`< q`) and is the Montgomery
  representative of `Σ a_i·b_i`.  `sum_of_products_refines_2/_4` are the explicit-element
  instances, `sum_of_products_eq_mul_add` shows agreement with `Fp.add (Fp.mul ..) (Fp.mul ..)`.

Range argument (the Rust comment "one subtraction suffices"): no bound on `u4` is needed.
Whatever `u4` is, the value entering the final conditional subtraction is either `r < 2^256`
(`u4 = 0`) or an output of `add_carry`, which is always `< 2^256`; and `2^256 < 2q`.  The
length bound `≤ 4` is only used to show that the 6-limb accumulator never overflows
(`U + T·2^320 + 2^64·q < 6·2^320 ≤ 2^384`; any `T ≤ 2^64 - 2` would do).
-/
set_option exponentiation.threshold 1024

namespace Sm9

namespace U256

theorem getL_limbs_lt (a j : Nat) : getL (limbs a) j < B64 := by
  rw [limbs_eq]
  have hB := B64_pos
  rcases j with _ | _ | _ | _ | j <;> simp [getL] <;> first | exact Nat.mod_lt _ hB | exact hB

/-- value of the four digits of a 256-bit number -/
theorem digits_sum (a : Nat) (ha : a < W256) :
    getL (limbs a) 0 + B64 * getL (limbs a) 1 + B64 ^ 2 * getL (limbs a) 2
      + B64 ^ 3 * getL (limbs a) 3 = a := by
  have h := ofLimbs_limbs a ha
  unfold ofLimbs at h
  rw [limbs_eq] at h ⊢
  simp only [Limb.value] at h
  simp only [getL, List.getD_cons_zero, List.getD_cons_succ]
  linear_combination h

theorem add_carry_lt (fuel a m : Nat) (h : a < m) :
    add_carry (fuel + 1) a m = some ((a + W256 - m) % W256) := by
  rw [add_carry]
  simp only [Big.sub_with_borrow, h, decide_true, if_true]

theorem add_carry_ge (fuel a m : Nat) (h : ¬ a < m) :
    add_carry (fuel + 1) a m = add_carry fuel ((a + W256 - m) % W256) m := by
  rw [add_carry]
  simp only [Big.sub_with_borrow, h, decide_false]
  simp

/-- `add_carry` (subtract the modulus until a borrow occurs) terminates after at most two
    subtractions; the result is below `2^256` and equals `x + 2^256 - c·m`, `c ∈ {1, 2}`. -/
theorem add_carry_spec (x m : Nat) (hm : m < W256) (hm2 : W256 < 2 * m) (hx : x < W256) :
    ∃ y c, add_carry 8 x m = some y ∧ y < W256 ∧ y + c * m = x + W256 := by
  rw [W256_eq] at hm hm2 hx
  by_cases h : x < m
  · rw [show (8 : Nat) = 7 + 1 from rfl, add_carry_lt _ _ _ h]
    refine ⟨_, 1, rfl, ?_, ?_⟩ <;> rw [W256_eq] <;> omega
  · have h2 : (x + W256 - m) % W256 < m := by rw [W256_eq]; omega
    rw [show (8 : Nat) = 6 + 1 + 1 from rfl, add_carry_ge _ _ _ h, add_carry_lt _ _ _ h2]
    refine ⟨_, 2, rfl, ?_, ?_⟩ <;> rw [W256_eq] <;> omega

theorem subtract_modulus_eq (y m : Nat) (hm : m < W256) (hy : y < W256) :
    subtract_modulus_with_carry y m false = if y ≥ m then y - m else y := by
  rw [W256_eq] at hm hy
  unfold subtract_modulus_with_carry Big.sub_with_borrow
  by_cases h : y ≥ m
  · simp only [Bool.false_or, h, decide_true, if_true]
    rw [W256_eq]; omega
  · simp only [Bool.false_or, h, decide_false]
    simp

/-- the final conditional subtraction on any 256-bit value -/
theorem subtract_modulus_spec (y m : Nat) (hm : m < W256) (hm2 : W256 < 2 * m) (hy : y < W256) :
    subtract_modulus_with_carry y m false < m ∧
      (subtract_modulus_with_carry y m false) % m = y % m := by
  rw [subtract_modulus_eq y m hm hy]
  rw [W256_eq] at hm hm2 hy
  split
  · next h => exact ⟨by omega, (Nat.mod_eq_sub_mod h).symm⟩
  · next h => exact ⟨by omega, rfl⟩

end U256

namespace FqL
open Limb U256

/-- limb lists of length `n` with all limbs below `2^64` -/
def Good (n : Nat) (t : List Nat) : Prop := t.length = n ∧ ∀ x ∈ t, x < B64

theorem value_lt (t : List Nat) (h : ∀ x ∈ t, x < B64) : value B64 t < B64 ^ t.length := by
  induction t with
  | nil => simp [value]
  | cons x xs ih =>
    have hx := h x (by simp)
    have hxs := ih (fun y hy => h y (by simp [hy]))
    simp only [value, List.length_cons, pow_succ]
    nlinarith [hx, hxs]

/-- the body of the inner loop of `sum_of_products` -/
def accStep (j : Nat) (t : List Nat) (ab : Nat × Nat) : List Nat :=
  let d := U256.getL (U256.limbs ab.1) j
  let e := U256.limbs ab.2
  let (t0, carry) := Limb.mac B64 (U256.getL t 0) d (U256.getL e 0) 0
  let (t1, carry) := Limb.mac B64 (U256.getL t 1) d (U256.getL e 1) carry
  let (t2, carry) := Limb.mac B64 (U256.getL t 2) d (U256.getL e 2) carry
  let (t3, carry) := Limb.mac B64 (U256.getL t 3) d (U256.getL e 3) carry
  let (t4, carry) := Limb.adc B64 (U256.getL t 4) 0 carry
  let (t5, _) := Limb.adc B64 (U256.getL t 5) 0 carry
  [t0, t1, t2, t3, t4, t5]

theorem sopAcc_eq (j : Nat) (as bs u : List Nat) :
    sopAcc j as bs u = (List.zip as bs).foldl (accStep j) (u ++ [0]) := rfl

def accStep6 (t0 t1 t2 t3 t4 t5 d e0 e1 e2 e3 : Nat) : List Nat :=
  let m0 := mac B64 t0 d e0 0
  let m1 := mac B64 t1 d e1 m0.2
  let m2 := mac B64 t2 d e2 m1.2
  let m3 := mac B64 t3 d e3 m2.2
  let c4 := adc B64 t4 0 m3.2
  let c5 := adc B64 t5 0 c4.2
  [m0.1, m1.1, m2.1, m3.1, c4.1, c5.1]

theorem accStep_eq (j t0 t1 t2 t3 t4 t5 a b : Nat) :
    accStep j [t0, t1, t2, t3, t4, t5] (a, b) =
      accStep6 t0 t1 t2 t3 t4 t5 (getL (limbs a) j)
        (b % B64) (b / B64 % B64) (b / B64 / B64 % B64) (b / B64 / B64 / B64 % B64) := rfl

theorem accStep6_spec (t0 t1 t2 t3 t4 t5 d e0 e1 e2 e3 : Nat) :
    ∃ o0 o1 o2 o3 o4 o5 c, accStep6 t0 t1 t2 t3 t4 t5 d e0 e1 e2 e3 = [o0, o1, o2, o3, o4, o5] ∧
      o0 < B64 ∧ o1 < B64 ∧ o2 < B64 ∧ o3 < B64 ∧ o4 < B64 ∧ o5 < B64 ∧
      o0 + o1 * B64 + o2 * B64 ^ 2 + o3 * B64 ^ 3 + o4 * B64 ^ 4 + o5 * B64 ^ 5 + c * B64 ^ 6
        = t0 + t1 * B64 + t2 * B64 ^ 2 + t3 * B64 ^ 3 + t4 * B64 ^ 4 + t5 * B64 ^ 5
          + d * (e0 + e1 * B64 + e2 * B64 ^ 2 + e3 * B64 ^ 3) := by
  unfold accStep6
  obtain ⟨l0, c0, e0', b0, s0, -⟩ := mac64_cases t0 d e0 0
  simp only [e0']
  obtain ⟨l1, c1, e1', b1, s1, -⟩ := mac64_cases t1 d e1 c0
  simp only [e1']
  obtain ⟨l2, c2, e2', b2, s2, -⟩ := mac64_cases t2 d e2 c1
  simp only [e2']
  obtain ⟨l3, c3, e3', b3, s3, -⟩ := mac64_cases t3 d e3 c2
  simp only [e3']
  obtain ⟨l4, c4, e4', b4, s4⟩ := adc64_cases t4 0 c3
  simp only [e4']
  obtain ⟨l5, c5, e5', b5, s5⟩ := adc64_cases t5 0 c4
  simp only [e5']
  refine ⟨_, _, _, _, _, _, c5, rfl, b0, b1, b2, b3, b4, b5, ?_⟩
  linear_combination s0 + B64 * s1 + B64 ^ 2 * s2 + B64 ^ 3 * s3 + B64 ^ 4 * s4 + B64 ^ 5 * s5

theorem good6_cases (t : List Nat) (h : Good 6 t) :
    ∃ t0 t1 t2 t3 t4 t5, t = [t0, t1, t2, t3, t4, t5] ∧
      t0 < B64 ∧ t1 < B64 ∧ t2 < B64 ∧ t3 < B64 ∧ t4 < B64 ∧ t5 < B64 := by
  obtain ⟨hl, hb⟩ := h
  rcases t with _ | ⟨t0, _ | ⟨t1, _ | ⟨t2, _ | ⟨t3, _ | ⟨t4, _ | ⟨t5, _ | ⟨t6, r⟩⟩⟩⟩⟩⟩⟩ <;>
    simp at hl
  exact ⟨t0, t1, t2, t3, t4, t5, rfl, hb _ (by simp), hb _ (by simp), hb _ (by simp),
    hb _ (by simp), hb _ (by simp), hb _ (by simp)⟩

theorem good6_mk (t0 t1 t2 t3 t4 t5 : Nat) (h0 : t0 < B64) (h1 : t1 < B64) (h2 : t2 < B64)
    (h3 : t3 < B64) (h4 : t4 < B64) (h5 : t5 < B64) : Good 6 [t0, t1, t2, t3, t4, t5] := by
  refine ⟨rfl, ?_⟩
  intro x hx
  simp only [List.mem_cons, List.not_mem_nil, or_false] at hx
  rcases hx with rfl | rfl | rfl | rfl | rfl | rfl <;> assumption

/-- one pair: the accumulator gains `digit_j(a) · b`, provided the sum fits into six limbs -/
theorem accStep_spec (j : Nat) (t : List Nat) (a b : Nat) (ht : Good 6 t) (hb : b < W256)
    (hfit : value B64 t + getL (limbs a) j * b < B64 ^ 6) :
    Good 6 (accStep j t (a, b)) ∧
      value B64 (accStep j t (a, b)) = value B64 t + getL (limbs a) j * b := by
  obtain ⟨t0, t1, t2, t3, t4, t5, rfl, -⟩ := good6_cases t ht
  rw [accStep_eq]
  obtain ⟨o0, o1, o2, o3, o4, o5, c, eo, b0, b1, b2, b3, b4, b5, ho⟩ :=
    accStep6_spec t0 t1 t2 t3 t4 t5 (getL (limbs a) j)
      (b % B64) (b / B64 % B64) (b / B64 / B64 % B64) (b / B64 / B64 / B64 % B64)
  rw [eo]
  have hbv := ofLimbs_limbs b hb
  unfold ofLimbs at hbv
  rw [limbs_eq] at hbv
  simp only [value] at hbv hfit ⊢
  have hbv2 : b % B64 + b / B64 % B64 * B64 + b / B64 / B64 % B64 * B64 ^ 2
      + b / B64 / B64 / B64 % B64 * B64 ^ 3 = b := by
    linear_combination hbv
  rw [hbv2] at ho
  generalize getL (limbs a) j = d at *
  have hc : c = 0 := by
    rcases Nat.eq_zero_or_pos c with h | h
    · exact h
    · exfalso
      have h6 : B64 ^ 6 ≤ c * B64 ^ 6 := Nat.le_mul_of_pos_left _ h
      have : t0 + t1 * B64 + t2 * B64 ^ 2 + t3 * B64 ^ 3 + t4 * B64 ^ 4 + t5 * B64 ^ 5 + d * b
          < B64 ^ 6 := by
        have e : t0 + t1 * B64 + t2 * B64 ^ 2 + t3 * B64 ^ 3 + t4 * B64 ^ 4 + t5 * B64 ^ 5
            = t0 + B64 * (t1 + B64 * (t2 + B64 * (t3 + B64 * (t4 + B64 * (t5 + B64 * 0))))) := by
          ring
        rw [e]; exact hfit
      omega
  subst hc
  refine ⟨good6_mk _ _ _ _ _ _ b0 b1 b2 b3 b4 b5, ?_⟩
  linear_combination ho

/-- column sum: `Σ_i digit_j(a_i) · b_i` -/
def colSum (j : Nat) (l : List (Nat × Nat)) : Nat :=
  (l.map (fun ab => getL (limbs ab.1) j * ab.2)).sum

theorem colSum_cons (j : Nat) (ab : Nat × Nat) (l : List (Nat × Nat)) :
    colSum j (ab :: l) = getL (limbs ab.1) j * ab.2 + colSum j l := by
  simp [colSum]

/-- the inner loop adds the column sum -/
theorem accFold_spec (j : Nat) (l : List (Nat × Nat)) (t : List Nat) (ht : Good 6 t)
    (hl : ∀ ab ∈ l, ab.2 < W256) (hfit : value B64 t + colSum j l < B64 ^ 6) :
    Good 6 (l.foldl (accStep j) t) ∧
      value B64 (l.foldl (accStep j) t) = value B64 t + colSum j l := by
  induction l generalizing t with
  | nil => simp [colSum, ht]
  | cons ab l ih =>
    obtain ⟨a, b⟩ := ab
    rw [colSum_cons] at hfit ⊢
    simp only at hfit ⊢
    have hb : b < W256 := hl (a, b) (by simp)
    obtain ⟨g, v⟩ := accStep_spec j t a b ht hb (by omega)
    rw [List.foldl_cons]
    obtain ⟨g2, v2⟩ := ih (accStep j t (a, b)) g (fun x hx => hl x (by simp [hx]))
      (by rw [v]; omega)
    exact ⟨g2, by rw [v2, v]; ring⟩

theorem colSum_le (j : Nat) (l : List (Nat × Nat)) (hl : ∀ ab ∈ l, ab.2 < W256) :
    colSum j l ≤ l.length * B64 ^ 5 := by
  induction l with
  | nil => simp [colSum]
  | cons ab l ih =>
    rw [colSum_cons, List.length_cons]
    have h1 := ih (fun x hx => hl x (by simp [hx]))
    have h2 : ab.2 < W256 := hl ab (by simp)
    have h3 := getL_limbs_lt ab.1 j
    have h4 : getL (limbs ab.1) j * ab.2 ≤ B64 * W256 := Nat.mul_le_mul h3.le h2.le
    have h5 : B64 * W256 = B64 ^ 5 := by rw [← B64_pow4]; ring
    rw [h5] at h4
    have : (l.length + 1) * B64 ^ 5 = l.length * B64 ^ 5 + B64 ^ 5 := by ring
    omega

/-- the column sums recombine to `Σ a_i · b_i` -/
theorem colSum_total (l : List (Nat × Nat)) (hl : ∀ ab ∈ l, ab.1 < W256) :
    colSum 0 l + B64 * colSum 1 l + B64 ^ 2 * colSum 2 l + B64 ^ 3 * colSum 3 l
      = (l.map (fun ab => ab.1 * ab.2)).sum := by
  induction l with
  | nil => simp [colSum]
  | cons ab l ih =>
    have h1 := ih (fun x hx => hl x (by simp [hx]))
    have h2 := digits_sum ab.1 (hl ab (by simp))
    simp only [colSum_cons, List.map_cons, List.sum_cons]
    rw [← h1]
    generalize getL (limbs ab.1) 0 = d0 at *
    generalize getL (limbs ab.1) 1 = d1 at *
    generalize getL (limbs ab.1) 2 = d2 at *
    generalize getL (limbs ab.1) 3 = d3 at *
    rw [← h2]; ring

/-! ### the Montgomery step -/

def red6 (t0 t1 t2 t3 t4 t5 k m0 m1 m2 m3 : Nat) : List Nat :=
  let r0 := mac B64 t0 k m0 0
  let r1 := mac B64 t1 k m1 r0.2
  let r2 := mac B64 t2 k m2 r1.2
  let r3 := mac B64 t3 k m3 r2.2
  let c4 := adc B64 t4 0 r3.2
  let c5 := adc B64 t5 0 c4.2
  [r1.1, r2.1, r3.1, c4.1, c5.1]

theorem sopRed_eq (t0 t1 t2 t3 t4 t5 : Nat) :
    sopRed [t0, t1, t2, t3, t4, t5] =
      red6 t0 t1 t2 t3 t4 t5 ((t0 * P.inv) % B64)
        (getL (limbs P.modulus) 0) (getL (limbs P.modulus) 1)
        (getL (limbs P.modulus) 2) (getL (limbs P.modulus) 3) := rfl

theorem good5_mk (t0 t1 t2 t3 t4 : Nat) (h0 : t0 < B64) (h1 : t1 < B64) (h2 : t2 < B64)
    (h3 : t3 < B64) (h4 : t4 < B64) : Good 5 [t0, t1, t2, t3, t4] := by
  refine ⟨rfl, ?_⟩
  intro x hx
  simp only [List.mem_cons, List.not_mem_nil, or_false] at hx
  rcases hx with rfl | rfl | rfl | rfl | rfl <;> assumption

theorem P_modulus : P.modulus = Consts.FQ := rfl

theorem FQ_lt : Consts.FQ < W256 := paramsQ_ok.lt

theorem red6_spec (t0 t1 t2 t3 t4 t5 k m0 m1 m2 m3 : Nat) (hk : k < B64)
    (hhead : (t0 + k * m0 + 0) % B64 = 0)
    (hfit : t0 + t1 * B64 + t2 * B64 ^ 2 + t3 * B64 ^ 3 + t4 * B64 ^ 4 + t5 * B64 ^ 5
      + B64 * (m0 + m1 * B64 + m2 * B64 ^ 2 + m3 * B64 ^ 3) < B64 ^ 6) :
    ∃ o1 o2 o3 o4 o5, red6 t0 t1 t2 t3 t4 t5 k m0 m1 m2 m3 = [o1, o2, o3, o4, o5] ∧
      o1 < B64 ∧ o2 < B64 ∧ o3 < B64 ∧ o4 < B64 ∧ o5 < B64 ∧
      B64 * (o1 + o2 * B64 + o3 * B64 ^ 2 + o4 * B64 ^ 3 + o5 * B64 ^ 4)
        = t0 + t1 * B64 + t2 * B64 ^ 2 + t3 * B64 ^ 3 + t4 * B64 ^ 4 + t5 * B64 ^ 5
          + k * (m0 + m1 * B64 + m2 * B64 ^ 2 + m3 * B64 ^ 3) := by
  unfold red6
  obtain ⟨l0, c0, e0, b0, s0, -⟩ := mac64_cases t0 k m0 0
  have hl0 : l0 = 0 := by
    have h := congrArg Prod.fst e0
    simp only at h
    rw [← h]; exact hhead
  simp only [e0]
  obtain ⟨l1, c1, e1, b1, s1, -⟩ := mac64_cases t1 k m1 c0
  simp only [e1]
  obtain ⟨l2, c2, e2, b2, s2, -⟩ := mac64_cases t2 k m2 c1
  simp only [e2]
  obtain ⟨l3, c3, e3, b3, s3, -⟩ := mac64_cases t3 k m3 c2
  simp only [e3]
  obtain ⟨l4, c4, e4, b4, s4⟩ := adc64_cases t4 0 c3
  simp only [e4]
  obtain ⟨l5, c5, e5, b5, s5⟩ := adc64_cases t5 0 c4
  simp only [e5]
  subst hl0
  generalize hM : m0 + m1 * B64 + m2 * B64 ^ 2 + m3 * B64 ^ 3 = M at *
  have htot : B64 * (l1 + l2 * B64 + l3 * B64 ^ 2 + l4 * B64 ^ 3 + l5 * B64 ^ 4 + c5 * B64 ^ 5)
      = t0 + t1 * B64 + t2 * B64 ^ 2 + t3 * B64 ^ 3 + t4 * B64 ^ 4 + t5 * B64 ^ 5
        + k * M := by
    rw [← hM]
    linear_combination s0 + B64 * s1 + B64 ^ 2 * s2 + B64 ^ 3 * s3 + B64 ^ 4 * s4 + B64 ^ 5 * s5
  have hc : c5 = 0 := by
    rcases Nat.eq_zero_or_pos c5 with h | h
    · exact h
    · exfalso
      have h6 : B64 ^ 5 ≤ c5 * B64 ^ 5 := Nat.le_mul_of_pos_left _ h
      have hkq : k * M ≤ B64 * M := Nat.mul_le_mul_right _ hk.le
      have h7 : B64 * B64 ^ 5 = B64 ^ 6 := by ring
      have h8 : B64 * B64 ^ 5 ≤ B64 * (l1 + l2 * B64 + l3 * B64 ^ 2 + l4 * B64 ^ 3 + l5 * B64 ^ 4
          + c5 * B64 ^ 5) := Nat.mul_le_mul_left _ (by omega)
      have hpos : 0 < B64 := B64_pos
      omega
  subst hc
  refine ⟨_, _, _, _, _, rfl, b1, b2, b3, b4, b5, ?_⟩
  linear_combination htot


/-- one interleaved Montgomery step: exact division by `2^64` of `t + k·q` -/
theorem sopRed_spec (t : List Nat) (ht : Good 6 t)
    (hfit : value B64 t + B64 * Consts.FQ < B64 ^ 6) :
    Good 5 (sopRed t) ∧ ∃ k, k < B64 ∧ B64 * value B64 (sopRed t) = value B64 t + k * Consts.FQ := by
  obtain ⟨t0, t1, t2, t3, t4, t5, rfl, -⟩ := good6_cases t ht
  rw [sopRed_eq]
  have hq := digits_sum P.modulus FQ_lt
  have hB := B64_pos
  have hinv0 : (getL (limbs P.modulus) 0 * P.inv) % B64 = B64 - 1 := by
    have h := paramsQ_ok.inv
    have e : getL (limbs P.modulus) 0 = P.modulus % B64 := rfl
    rw [e, Nat.mod_mul_mod]
    exact h
  have hk : (t0 * P.inv) % B64 < B64 := Nat.mod_lt _ hB
  have hhead := row_head_zero B64 P.inv (getL (limbs P.modulus) 0) t0 hB hinv0
  have hq2 : getL (limbs P.modulus) 0 + getL (limbs P.modulus) 1 * B64
      + getL (limbs P.modulus) 2 * B64 ^ 2 + getL (limbs P.modulus) 3 * B64 ^ 3 = Consts.FQ := by
    rw [P_modulus] at hq ⊢
    linear_combination hq
  simp only [value] at hfit ⊢
  obtain ⟨o1, o2, o3, o4, o5, eo, b1, b2, b3, b4, b5, ho⟩ :=
    red6_spec t0 t1 t2 t3 t4 t5 ((t0 * P.inv) % B64) (getL (limbs P.modulus) 0)
      (getL (limbs P.modulus) 1) (getL (limbs P.modulus) 2) (getL (limbs P.modulus) 3) hk hhead
      (by rw [hq2]; linarith [hfit])
  rw [eo]
  rw [hq2] at ho
  refine ⟨good5_mk _ _ _ _ _ b1 b2 b3 b4 b5, _, hk, ?_⟩
  simp only [value]
  linear_combination ho


theorem good_append_zero (u : List Nat) (hu : Good 5 u) : Good 6 (u ++ [0]) := by
  obtain ⟨hl, hb⟩ := hu
  refine ⟨by simp [hl], ?_⟩
  intro x hx
  simp only [List.mem_append, List.mem_singleton] at hx
  rcases hx with hx | rfl
  · exact hb x hx
  · exact B64_pos

theorem value_append_zero (u : List Nat) : value B64 (u ++ [0]) = value B64 u := by
  rw [value_append]; simp [value]

/-- one round of Algorithm 2: `2^64 · U_j = U_{j-1} + Σ_i digit_j(a_i)·b_i + k_j·q` -/
theorem round_spec (j : Nat) (as bs u : List Nat) (hu : Good 5 u)
    (hlen : (List.zip as bs).length ≤ 4) (hb : ∀ ab ∈ List.zip as bs, ab.2 < W256) :
    Good 5 (sopRed (sopAcc j as bs u)) ∧
      ∃ k, B64 * value B64 (sopRed (sopAcc j as bs u))
        = value B64 u + colSum j (List.zip as bs) + k * Consts.FQ := by
  rw [sopAcc_eq]
  have hv := value_lt u hu.2
  rw [hu.1] at hv
  have hS := colSum_le j _ hb
  have hq := FQ_lt
  have hW : B64 * W256 = B64 ^ 5 := by rw [← B64_pow4]; ring
  have h6 : B64 ^ 6 = B64 * B64 ^ 5 := by ring
  have hB6 : 6 ≤ B64 := by rw [B64_eq]; omega
  have hBq : B64 * Consts.FQ < B64 ^ 5 := by
    rw [← hW]; exact Nat.mul_lt_mul_of_pos_left hq B64_pos
  have hS4 : (List.zip as bs).length * B64 ^ 5 ≤ 4 * B64 ^ 5 := Nat.mul_le_mul_right _ hlen
  have h66 : 6 * B64 ^ 5 ≤ B64 * B64 ^ 5 := Nat.mul_le_mul_right _ hB6
  obtain ⟨g, v⟩ := accFold_spec j (List.zip as bs) (u ++ [0]) (good_append_zero u hu) hb
    (by rw [value_append_zero]; omega)
  rw [value_append_zero] at v
  obtain ⟨g2, k, -, hk⟩ := sopRed_spec _ g (by rw [v]; omega)
  exact ⟨g2, k, by rw [hk, v]⟩


/-- `u4` applications of `add_carry`: no fuel exhaustion, the value stays below `2^256` and
    gains `u4 · 2^256` modulo `m` -/
theorem carryFold_spec (m : Nat) (hm : m < W256) (hm2 : W256 < 2 * m) (n x : Nat) (hx : x < W256) :
    ∃ y, (List.range n).foldl (fun (r : Option Nat) _ =>
        r.bind (fun r => U256.add_carry 8 r m)) (some x) = some y ∧ y < W256 ∧
      y ≡ x + n * W256 [MOD m] := by
  induction n with
  | zero => exact ⟨x, rfl, hx, by simp [Nat.ModEq]⟩
  | succ n ih =>
    obtain ⟨y, hy, hyW, hym⟩ := ih
    obtain ⟨y2, c, e, hy2, hc⟩ := add_carry_spec y m hm hm2 hyW
    refine ⟨y2, ?_, hy2, ?_⟩
    · rw [List.range_succ, List.foldl_append, hy]
      simp only [List.foldl_cons, List.foldl_nil, Option.bind_some]
      exact e
    · have h1 : y2 ≡ y2 + c * m [MOD m] := by
        simp [Nat.ModEq]
      rw [hc] at h1
      have h2 : y + W256 ≡ x + n * W256 + W256 [MOD m] := hym.add_right _
      have e2 : x + (n + 1) * W256 = x + n * W256 + W256 := by ring
      rw [e2]
      exact h1.trans h2

theorem sop_unfold (as bs : List Nat) :
    sum_of_products as bs =
      ((List.range (getL (sopRed (sopAcc 3 as bs (sopRed (sopAcc 2 as bs (sopRed (sopAcc 1 as bs
            (sopRed (sopAcc 0 as bs [0, 0, 0, 0, 0])))))))) 4)).foldl
          (fun (r : Option Nat) _ => r.bind (fun r => U256.add_carry 8 r P.modulus))
          (some (ofLimbs ((sopRed (sopAcc 3 as bs (sopRed (sopAcc 2 as bs (sopRed (sopAcc 1 as bs
            (sopRed (sopAcc 0 as bs [0, 0, 0, 0, 0])))))))).take 4)))).map
        (fun r => U256.subtract_modulus_with_carry r P.modulus false) := rfl

theorem good5_zero : Good 5 [0, 0, 0, 0, 0] := good5_mk 0 0 0 0 0 B64_pos B64_pos B64_pos B64_pos B64_pos

/-- MAIN THEOREM (zip form, operands only required to be 256-bit): `sum_of_products`
    returns (without exhausting the `add_carry` fuel) the canonical Montgomery
    representative of `Σ a_i·b_i`. -/
theorem sum_of_products_refines_gen (as bs : List Nat) (hlen : (List.zip as bs).length ≤ 4)
    (ha : ∀ ab ∈ List.zip as bs, ab.1 < W256) (hb : ∀ ab ∈ List.zip as bs, ab.2 < W256) :
    ∃ res, sum_of_products as bs = some res ∧ res < Consts.FQ ∧
      (res * W256) % Consts.FQ
        = ((List.zip as bs).map (fun ab => ab.1 * ab.2)).sum % Consts.FQ := by
  rw [sop_unfold]
  obtain ⟨g1, k1, h1⟩ := round_spec 0 as bs _ good5_zero hlen hb
  obtain ⟨g2, k2, h2⟩ := round_spec 1 as bs _ g1 hlen hb
  obtain ⟨g3, k3, h3⟩ := round_spec 2 as bs _ g2 hlen hb
  obtain ⟨g4, k4, h4⟩ := round_spec 3 as bs _ g3 hlen hb
  have htot := colSum_total (List.zip as bs) ha
  generalize sopRed (sopAcc 0 as bs [0, 0, 0, 0, 0]) = u1 at *
  generalize sopRed (sopAcc 1 as bs u1) = u2 at *
  generalize sopRed (sopAcc 2 as bs u2) = u3 at *
  generalize sopRed (sopAcc 3 as bs u3) = u4 at *
  have hz : value B64 [0, 0, 0, 0, 0] = 0 := by simp [value]
  rw [hz] at h1
  -- 2^256 · U_4 = Σ a_i b_i + K q
  have hU : W256 * value B64 u4 = ((List.zip as bs).map (fun ab => ab.1 * ab.2)).sum
      + (k1 + B64 * k2 + B64 ^ 2 * k3 + B64 ^ 3 * k4) * Consts.FQ := by
    rw [← htot, ← B64_pow4]
    linear_combination h1 + B64 * h2 + B64 ^ 2 * h3 + B64 ^ 3 * h4
  -- split U_4 = r + 2^256 · u4
  have hsplit := value_take_drop B64 4 u4 (by rw [g4.1]; omega)
  have hdrop : value B64 (u4.drop 4) = getL u4 4 := by
    obtain ⟨hl, -⟩ := g4
    rcases u4 with _ | ⟨x0, _ | ⟨x1, _ | ⟨x2, _ | ⟨x3, _ | ⟨x4, _ | ⟨x5, r⟩⟩⟩⟩⟩⟩ <;> simp at hl
    simp [value, getL]
  rw [hdrop, B64_pow4] at hsplit
  have hr : ofLimbs (u4.take 4) < W256 := by
    unfold ofLimbs
    have := value_lt (u4.take 4) (fun x hx => g4.2 x (List.mem_of_mem_take hx))
    rw [List.length_take, g4.1] at this
    rw [← B64_pow4]; exact this
  have hm := paramsQ_ok.lt
  have hm2 := paramsQ_ok.gt
  obtain ⟨y, hy, hyW, hym⟩ := carryFold_spec P.modulus hm hm2 (getL u4 4) _ hr
  rw [hy]
  obtain ⟨hlt, hmod⟩ := subtract_modulus_spec y P.modulus hm hm2 hyW
  refine ⟨_, rfl, hlt, ?_⟩
  rw [P_modulus] at hmod hym
  have e1 : subtract_modulus_with_carry y Consts.FQ false ≡ value B64 u4 [MOD Consts.FQ] := by
    have : subtract_modulus_with_carry y Consts.FQ false ≡ y [MOD Consts.FQ] := hmod
    refine this.trans (hym.trans ?_)
    unfold ofLimbs
    rw [← hsplit, mul_comm (getL u4 4)]
  have e2 := e1.mul_right W256
  rw [mul_comm (value B64 u4), hU] at e2
  show subtract_modulus_with_carry y Consts.FQ false * W256 % Consts.FQ = _
  rw [show _ % Consts.FQ = _ % Consts.FQ from e2]
  exact Nat.add_mul_mod_self_right _ _ _

/-- MAIN THEOREM in the requested form -/
theorem sum_of_products_refines (as bs : List Nat) (hlen : as.length = bs.length)
    (h4 : as.length ≤ 4) (ha : ∀ a ∈ as, a < Consts.FQ) (hb : ∀ b ∈ bs, b < Consts.FQ) :
    ∃ res, sum_of_products as bs = some res ∧ res < Consts.FQ ∧
      (res * W256) % Consts.FQ = ((List.zipWith (· * ·) as bs).sum) % Consts.FQ := by
  have hq := FQ_lt
  obtain ⟨res, h1, h2, h3⟩ := sum_of_products_refines_gen as bs
    (by rw [List.length_zip]; omega)
    (fun ab hab => lt_trans (ha _ (List.of_mem_zip (a := ab.1) (b := ab.2) hab).1) hq)
    (fun ab hab => lt_trans (hb _ (List.of_mem_zip (a := ab.1) (b := ab.2) hab).2) hq)
  refine ⟨res, h1, h2, ?_⟩
  rw [h3, List.map_zip_eq_zipWith]
  rfl


/-- the two-pair instance (the shape used by `Fq2` multiplication) -/
theorem sum_of_products_refines_2 (a0 a1 b0 b1 : Nat) (ha0 : a0 < Consts.FQ) (ha1 : a1 < Consts.FQ)
    (hb0 : b0 < Consts.FQ) (hb1 : b1 < Consts.FQ) :
    ∃ res, sum_of_products [a0, a1] [b0, b1] = some res ∧ res < Consts.FQ ∧
      (res * W256) % Consts.FQ = (a0 * b0 + a1 * b1) % Consts.FQ := by
  obtain ⟨res, h1, h2, h3⟩ := sum_of_products_refines [a0, a1] [b0, b1] rfl (by simp)
    (by intro a h; simp only [List.mem_cons, List.not_mem_nil, or_false] at h
        rcases h with rfl | rfl <;> assumption)
    (by intro b h; simp only [List.mem_cons, List.not_mem_nil, or_false] at h
        rcases h with rfl | rfl <;> assumption)
  refine ⟨res, h1, h2, ?_⟩
  rw [h3]; simp

/-- the four-pair instance -/
theorem sum_of_products_refines_4 (a0 a1 a2 a3 b0 b1 b2 b3 : Nat)
    (ha0 : a0 < Consts.FQ) (ha1 : a1 < Consts.FQ) (ha2 : a2 < Consts.FQ) (ha3 : a3 < Consts.FQ)
    (hb0 : b0 < Consts.FQ) (hb1 : b1 < Consts.FQ) (hb2 : b2 < Consts.FQ) (hb3 : b3 < Consts.FQ) :
    ∃ res, sum_of_products [a0, a1, a2, a3] [b0, b1, b2, b3] = some res ∧ res < Consts.FQ ∧
      (res * W256) % Consts.FQ = (a0 * b0 + a1 * b1 + a2 * b2 + a3 * b3) % Consts.FQ := by
  obtain ⟨res, h1, h2, h3⟩ := sum_of_products_refines [a0, a1, a2, a3] [b0, b1, b2, b3] rfl
    (by simp)
    (by intro a h; simp only [List.mem_cons, List.not_mem_nil, or_false] at h
        rcases h with rfl | rfl | rfl | rfl <;> assumption)
    (by intro b h; simp only [List.mem_cons, List.not_mem_nil, or_false] at h
        rcases h with rfl | rfl | rfl | rfl <;> assumption)
  refine ⟨res, h1, h2, ?_⟩
  rw [h3]; simp [Nat.add_assoc]

/-- agreement with the non-interleaved code path: `sum_of_products [a0,a1] [b0,b1]` is exactly
    `a0*b0 + a1*b1` computed with `Fp.mul` and `Fp.add` -/
theorem sum_of_products_eq_mul_add (a0 a1 b0 b1 : Nat) (ha0 : a0 < Consts.FQ)
    (ha1 : a1 < Consts.FQ) (hb0 : b0 < Consts.FQ) (hb1 : b1 < Consts.FQ) :
    sum_of_products [a0, a1] [b0, b1] = some (Fp.add P (Fp.mul P a0 b0) (Fp.mul P a1 b1)) := by
  obtain ⟨res, h1, h2, h3⟩ := sum_of_products_refines_2 a0 a1 b0 b1 ha0 ha1 hb0 hb1
  obtain ⟨x1, x2⟩ := Fp.mul_refines_q a0 b0 ha0 hb0
  obtain ⟨y1, y2⟩ := Fp.mul_refines_q a1 b1 ha1 hb1
  obtain ⟨z1, z2⟩ := U256.add_refines _ _ Consts.FQ paramsQ_ok.lt paramsQ_ok.gt x1 y1
  rw [h1]
  congr 1
  apply Fp.eq_of_mul_W256 paramsQ_ok h2 z1
  show res * W256 % Consts.FQ
    = U256.add (Fp.mul paramsQ a0 b0) (Fp.mul paramsQ a1 b1) Consts.FQ * W256 % Consts.FQ
  rw [h3, z2, Nat.mod_mul_mod, Nat.add_mul]
  conv_rhs => rw [Nat.add_mod, x2, y2, ← Nat.add_mod]

/-- the hypotheses are satisfiable and the statement is not vacuous -/
example : ∃ res, sum_of_products [2, 3] [5, 7] = some res ∧ res < Consts.FQ ∧
    (res * W256) % Consts.FQ = 31 % Consts.FQ :=
  sum_of_products_refines_2 2 3 5 7 (by decide +kernel) (by decide +kernel) (by decide +kernel)
    (by decide +kernel)

end FqL
end Sm9

