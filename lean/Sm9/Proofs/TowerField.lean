import Sm9.Proofs.Pow
import Sm9.Proofs.Consts
import Mathlib.FieldTheory.Finite.Basic
/-!
# The tower Fq2 / Fq4 / Fq12 is a tower of fields, and the model's `inverse` is correct

Bottom-up: `-2` is not a square in `Fq` (one kernel evaluation of `(-2)^((q-1)/2)` plus
Fermat), hence the norm `a² + 2b²` of a non-zero `Fq2` element is non-zero, hence
`Fq2.inverse` is a two-sided inverse and `Fq2` is a field with `q²` elements.  Then `u` is not a
square in `Fq2` (kernel evaluation of `u^((q²-1)/2)` in the model + Lagrange), giving `Fq4`;
then `v` is not a cube in `Fq4` (kernel evaluation of `v^((q⁴-1)/3)`), giving `Fq12`.
-/
namespace Sm9

set_option maxRecDepth 100000

/-! ## Fq -/

theorem Fq.inverse_zero : (0 : Fq).inverse = none := by
  unfold Fq.inverse
  rw [if_pos ((Fq.is_zero_iff 0).2 rfl)]

theorem Fq.inverse_eq (x : Fq) (h : x ≠ 0) : x.inverse = some (x ^ (q - 2)) := by
  unfold Fq.inverse
  have : ¬ (x.is_zero = true) := fun h0 => h ((Fq.is_zero_iff x).1 h0)
  rw [if_neg this, Fq.pow_eq]

theorem Fq.inverse_correct (x : Fq) (h : x ≠ 0) : ∃ y, x.inverse = some y ∧ y * x = 1 :=
  ⟨_, Fq.inverse_eq x h, Fq.pow_sub_two_mul x h⟩

theorem Fq.inverse_eq_inv (x : Fq) (h : x ≠ 0) : x.inverse = some x⁻¹ := by
  rw [Fq.inverse_eq x h, eq_inv_of_mul_eq_one_left (Fq.pow_sub_two_mul x h)]

theorem Fq.nr_eq : nr = -(1 + 1) := by decide +kernel
theorem Fq.nr_pow_half : nr.pow ((q - 1) / 2) = -1 := by decide +kernel
theorem Fq.one_ne_neg_one : (1 : Fq) ≠ -1 := by decide +kernel
theorem Fq.nr_ne_zero : nr ≠ 0 := by decide +kernel
theorem Fq.q_sub_one_half : 2 * ((q - 1) / 2) = q - 1 := by decide +kernel

/-- `-2` is not a square in `Fq` -/
theorem Fq.neg_two_not_sq (s : Fq) : s * s ≠ -(1 + 1) := by
  intro h
  rw [← Fq.nr_eq] at h
  have hs : s ≠ 0 := by
    intro h0; rw [h0, mul_zero] at h; exact Fq.nr_ne_zero h.symm
  have h1 : nr ^ ((q - 1) / 2) = 1 := by
    rw [← h, ← pow_two, ← pow_mul, Fq.q_sub_one_half]; exact Fq.fermat s hs
  rw [← Fq.pow_eq, Fq.nr_pow_half] at h1
  exact Fq.one_ne_neg_one h1.symm

/-- the norm form of `Fq2` is anisotropic -/
theorem Fq.norm2_eq_zero (a b : Fq) (h : a * a + (b * b + b * b) = 0) : a = 0 ∧ b = 0 := by
  by_cases hb : b = 0
  · subst hb
    simp only [mul_zero, add_zero] at h
    exact ⟨mul_self_eq_zero.1 h, rfl⟩
  · exfalso
    apply Fq.neg_two_not_sq (a * b⁻¹)
    have h2 : a * a = -(b * b + b * b) := eq_neg_of_add_eq_zero_left h
    calc a * b⁻¹ * (a * b⁻¹) = a * a * (b⁻¹ * b⁻¹) := by ring
      _ = -(1 + 1) * ((b * b⁻¹) * (b * b⁻¹)) := by rw [h2]; ring
      _ = -(1 + 1) := by rw [mul_inv_cancel₀ hb]; ring

/-! ## Fq2 -/
namespace Fq2

theorem ne_zero_iff (x : Fq2) : x ≠ 0 ↔ ¬ (x.c0 = 0 ∧ x.c1 = 0) := by
  constructor
  · intro h h2; apply h; ext <;> simp [h2.1, h2.2]
  · intro h h2; apply h; subst h2; exact ⟨rfl, rfl⟩

theorem norm_ne_zero (x : Fq2) (h : x ≠ 0) : x.c0.squared + x.c1.squared.double ≠ 0 := by
  intro h0
  simp only [Fq.squared_def, Fq.double_def] at h0
  exact (ne_zero_iff x).1 h (Fq.norm2_eq_zero _ _ h0)

theorem inverse_zero : (0 : Fq2).inverse = none := by decide +kernel

theorem inverse_correct (x : Fq2) (h : x ≠ 0) : ∃ y, x.inverse = some y ∧ y * x = 1 := by
  have hn := norm_ne_zero x h
  unfold inverse
  rw [Fq.inverse_eq _ hn]
  refine ⟨_, rfl, ?_⟩
  have key := Fq.pow_sub_two_mul _ hn
  generalize (x.c0.squared + x.c1.squared.double) ^ (q - 2) = t at key
  simp only [Fq.squared_def, Fq.double_def] at key
  ext
  · simp only [mul_c0, new, one_c0]
    rw [← key]; ring
  · simp only [mul_c1, new, one_c1]
    ring

theorem isField : IsField Fq2 where
  exists_pair_ne := ⟨0, 1, by decide +kernel⟩
  mul_comm := mul_comm
  mul_inv_cancel := by
    intro a ha
    obtain ⟨y, _, hy⟩ := inverse_correct a ha
    exact ⟨y, by rw [mul_comm]; exact hy⟩

noncomputable instance instField : Field Fq2 := isField.toField

theorem inverse_eq_inv (x : Fq2) (h : x ≠ 0) : x.inverse = some x⁻¹ := by
  obtain ⟨y, h1, h2⟩ := inverse_correct x h
  rw [h1, eq_inv_of_mul_eq_one_left h2]

def equivProd : Fq2 ≃ Fq × Fq where
  toFun x := (x.c0, x.c1)
  invFun p := ⟨p.1, p.2⟩
  left_inv x := by cases x; rfl
  right_inv p := by cases p; rfl

instance : Fintype Fq := inferInstanceAs (Fintype (Fin q))
theorem _root_.Sm9.Fq.card : Fintype.card Fq = q := Fintype.card_fin q

instance : Fintype Fq2 := Fintype.ofEquiv _ equivProd.symm
theorem card : Fintype.card Fq2 = q ^ 2 := by
  rw [Fintype.card_congr equivProd, Fintype.card_prod, Fq.card, pow_two]

theorem pow_card_sub_one (x : Fq2) (h : x ≠ 0) : x ^ (q ^ 2 - 1) = 1 := by
  rw [← card]; exact FiniteField.pow_card_sub_one_eq_one x h

/-- `FieldElement::pow` on Fq2 is exponentiation -/
theorem pow_eq (g : Fq2) (e : Nat) : FieldElement.pow g e = g ^ e := by
  unfold FieldElement.pow FieldElement.powBits
  have := powFold_eq (M := Fq2) Fq2.squared Fq2.squared_eq_mul g (bitsMSB e) 1
  simp only [one_pow, one_mul] at this
  rw [bitsVal_bitsMSB] at this
  exact this

theorem i_pow_half : FieldElement.pow Fq2.i ((q ^ 2 - 1) / 2) = -1 := by decide +kernel
theorem one_ne_neg_one : (1 : Fq2) ≠ -1 := by decide +kernel
theorem i_ne_zero : Fq2.i ≠ 0 := by decide +kernel
theorem card_sub_one_half : 2 * ((q ^ 2 - 1) / 2) = q ^ 2 - 1 := by decide +kernel

/-- `u` is not a square in `Fq2` -/
theorem i_not_sq (s : Fq2) : s * s ≠ Fq2.i := by
  intro h
  have hs : s ≠ 0 := by
    intro h0; rw [h0, mul_zero] at h; exact i_ne_zero h.symm
  have h1 : Fq2.i ^ ((q ^ 2 - 1) / 2) = 1 := by
    rw [← h, ← pow_two, ← pow_mul, card_sub_one_half]; exact pow_card_sub_one s hs
  rw [← pow_eq, i_pow_half] at h1
  exact one_ne_neg_one h1.symm

/-- the norm form of `Fq4` over `Fq2` is anisotropic -/
theorem norm4_eq_zero (a b : Fq2) (h : a * a - b * b * Fq2.i = 0) : a = 0 ∧ b = 0 := by
  by_cases hb : b = 0
  · subst hb
    simp only [mul_zero, zero_mul, sub_zero] at h
    exact ⟨mul_self_eq_zero.1 h, rfl⟩
  · exfalso
    apply i_not_sq (a * b⁻¹)
    have h2 : a * a = b * b * Fq2.i := sub_eq_zero.1 h
    calc a * b⁻¹ * (a * b⁻¹) = a * a * (b⁻¹ * b⁻¹) := by ring
      _ = Fq2.i * ((b * b⁻¹) * (b * b⁻¹)) := by rw [h2]; ring
      _ = Fq2.i := by rw [mul_inv_cancel₀ hb]; ring

end Fq2

/-! ## Fq4 -/
namespace Fq4

theorem ne_zero_iff (x : Fq4) : x ≠ 0 ↔ ¬ (x.c0 = 0 ∧ x.c1 = 0) := by
  constructor
  · intro h h2; apply h; ext : 1 <;> simp [h2.1, h2.2]
  · intro h h2; apply h; subst h2; exact ⟨rfl, rfl⟩

theorem norm_ne_zero (x : Fq4) (h : x ≠ 0) :
    x.c0.squared - x.c1.squared.mul_by_nonresidue ≠ 0 := by
  intro h0
  rw [Fq2.squared_eq_mul, Fq2.squared_eq_mul, Fq2.mul_by_nonresidue_eq] at h0
  exact (ne_zero_iff x).1 h (Fq2.norm4_eq_zero _ _ h0)

theorem inverse_zero : (0 : Fq4).inverse = none := by decide +kernel

theorem inverse_correct (x : Fq4) (h : x ≠ 0) : ∃ y, x.inverse = some y ∧ y * x = 1 := by
  have hn := norm_ne_zero x h
  unfold inverse
  rw [Fq2.inverse_eq_inv _ hn]
  refine ⟨_, rfl, ?_⟩
  have key := inv_mul_cancel₀ hn
  generalize (x.c0.squared - x.c1.squared.mul_by_nonresidue)⁻¹ = t at key
  rw [Fq2.squared_eq_mul, Fq2.squared_eq_mul, Fq2.mul_by_nonresidue_eq] at key
  ext : 1
  · simp only [mul_c0, new, one_c0]
    rw [← key]; ring
  · simp only [mul_c1, new, one_c1]
    ring

theorem isField : IsField Fq4 where
  exists_pair_ne := ⟨0, 1, by decide +kernel⟩
  mul_comm := mul_comm
  mul_inv_cancel := by
    intro a ha
    obtain ⟨y, _, hy⟩ := inverse_correct a ha
    exact ⟨y, by rw [mul_comm]; exact hy⟩

noncomputable instance instField : Field Fq4 := isField.toField

theorem inverse_eq_inv (x : Fq4) (h : x ≠ 0) : x.inverse = some x⁻¹ := by
  obtain ⟨y, h1, h2⟩ := inverse_correct x h
  rw [h1, eq_inv_of_mul_eq_one_left h2]

def equivProd : Fq4 ≃ Fq2 × Fq2 where
  toFun x := (x.c0, x.c1)
  invFun p := ⟨p.1, p.2⟩
  left_inv x := by cases x; rfl
  right_inv p := by cases p; rfl

instance : Fintype Fq4 := Fintype.ofEquiv _ equivProd.symm
theorem card : Fintype.card Fq4 = q ^ 4 := by
  rw [Fintype.card_congr equivProd, Fintype.card_prod, Fq2.card]; ring

theorem pow_card_sub_one (x : Fq4) (h : x ≠ 0) : x ^ (q ^ 4 - 1) = 1 := by
  rw [← card]; exact FiniteField.pow_card_sub_one_eq_one x h

/-- `FieldElement::pow` on Fq4 is exponentiation -/
theorem pow_eq (g : Fq4) (e : Nat) : FieldElement.pow g e = g ^ e := by
  unfold FieldElement.pow FieldElement.powBits
  have := powFold_eq (M := Fq4) Fq4.squared Fq4.squared_eq_mul g (bitsMSB e) 1
  simp only [one_pow, one_mul] at this
  rw [bitsVal_bitsMSB] at this
  exact this

theorem v_pow_third : FieldElement.pow Fq4.v ((q ^ 4 - 1) / 3) ≠ 1 := by decide +kernel
theorem v_ne_zero : Fq4.v ≠ 0 := by decide +kernel
theorem card_sub_one_third : 3 * ((q ^ 4 - 1) / 3) = q ^ 4 - 1 := by decide +kernel

/-- `v` is not a cube in `Fq4` -/
theorem v_not_cube (s : Fq4) : s ^ 3 ≠ Fq4.v := by
  intro h
  have hs : s ≠ 0 := by
    intro h0; rw [h0] at h; exact v_ne_zero (by rw [← h]; exact zero_pow (by norm_num))
  apply v_pow_third
  rw [pow_eq, ← h, ← pow_mul, card_sub_one_third]
  exact pow_card_sub_one s hs

/-- the norm form `c0³ + v c1³ + v² c2³ − 3 v c0 c1 c2` of `Fq12` over `Fq4` is anisotropic -/
theorem norm12_eq_zero (a b c : Fq4)
    (h : (c * (c * c * v - a * b) + b * (b * b - a * c)) * v + a * (a * a - b * (c * v)) = 0) :
    a = 0 ∧ b = 0 ∧ c = 0 := by
  -- C1³ = v C2³ with C1 = v c² − a b, C2 = b² − a c
  have hid : (c * c * v - a * b) ^ 3 - v * (b * b - a * c) ^ 3
      = (v * c ^ 3 - b ^ 3)
        * ((c * (c * c * v - a * b) + b * (b * b - a * c)) * v + a * (a * a - b * (c * v))) := by
    ring
  rw [h, mul_zero] at hid
  have hC2 : b * b - a * c = 0 := by
    by_contra hne
    apply v_not_cube ((c * c * v - a * b) * (b * b - a * c)⁻¹)
    rw [mul_pow, sub_eq_zero.1 hid, mul_assoc, ← mul_pow, mul_inv_cancel₀ hne, one_pow, mul_one]
  rw [hC2] at hid
  have hC1 : c * c * v - a * b = 0 := by
    have : (c * c * v - a * b) ^ 3 = 0 := by rw [sub_eq_zero.1 hid]; ring
    exact pow_eq_zero_iff (by norm_num) |>.1 this
  have hc : c = 0 := by
    by_contra hne
    apply v_not_cube (b * c⁻¹)
    have e1 : b * b = a * c := sub_eq_zero.1 hC2
    have e2 : c * c * v = a * b := sub_eq_zero.1 hC1
    have e3 : b ^ 3 = v * c ^ 3 := by
      calc b ^ 3 = b * b * b := by ring
        _ = c * (a * b) := by rw [e1]; ring
        _ = v * c ^ 3 := by rw [← e2]; ring
    rw [mul_pow, e3, mul_assoc, ← mul_pow, mul_inv_cancel₀ hne, one_pow, mul_one]
  subst hc
  have hb : b = 0 := by
    simp only [mul_zero, sub_zero] at hC2
    exact mul_self_eq_zero.1 hC2
  subst hb
  simp only [mul_zero, zero_mul, sub_zero, add_zero, zero_add] at h
  have ha : a = 0 := by
    have : a ^ 3 = 0 := by rw [← h]; ring
    exact pow_eq_zero_iff (by norm_num) |>.1 this
  exact ⟨ha, rfl, rfl⟩

end Fq4

/-! ## Fq12 -/
namespace Fq12

theorem ne_zero_iff (x : Fq12) : x ≠ 0 ↔ ¬ (x.c0 = 0 ∧ x.c1 = 0 ∧ x.c2 = 0) := by
  constructor
  · intro h h2; apply h; ext : 1 <;> simp [h2.1, h2.2.1, h2.2.2]
  · intro h h2; apply h; subst h2; exact ⟨rfl, rfl, rfl⟩

theorem norm_ne_zero (x : Fq12) (h : x ≠ 0) :
    ((x.c2 * (x.c2.squared.mul_by_nonresidue - x.c0 * x.c1)
        + x.c1 * (x.c1.squared - x.c0 * x.c2)).mul_by_nonresidue
      + x.c0 * (x.c0.squared - x.c1 * x.c2.mul_by_nonresidue)) ≠ 0 := by
  intro h0
  simp only [Fq4.squared_eq_mul, Fq4.mul_by_nonresidue_eq] at h0
  exact (ne_zero_iff x).1 h (Fq4.norm12_eq_zero _ _ _ h0)

theorem inverse_zero : (0 : Fq12).inverse = none := by decide +kernel

theorem inverse_correct (x : Fq12) (h : x ≠ 0) : ∃ y, x.inverse = some y ∧ y * x = 1 := by
  have hn := norm_ne_zero x h
  unfold inverse
  simp only
  rw [Fq4.inverse_eq_inv _ hn]
  refine ⟨_, rfl, ?_⟩
  have key := inv_mul_cancel₀ hn
  generalize ((x.c2 * (x.c2.squared.mul_by_nonresidue - x.c0 * x.c1)
        + x.c1 * (x.c1.squared - x.c0 * x.c2)).mul_by_nonresidue
      + x.c0 * (x.c0.squared - x.c1 * x.c2.mul_by_nonresidue))⁻¹ = t at key
  simp only [Fq4.squared_eq_mul, Fq4.mul_by_nonresidue_eq] at key ⊢
  ext : 1
  · simp only [mul_c0, new, one_c0]
    rw [← key]; ring
  · simp only [mul_c1, new, one_c1]
    ring
  · simp only [mul_c2, new, one_c2]
    ring

theorem isField : IsField Fq12 where
  exists_pair_ne := ⟨0, 1, by decide +kernel⟩
  mul_comm := mul_comm
  mul_inv_cancel := by
    intro a ha
    obtain ⟨y, _, hy⟩ := inverse_correct a ha
    exact ⟨y, by rw [mul_comm]; exact hy⟩

noncomputable instance instField : Field Fq12 := isField.toField

theorem inverse_eq_inv (x : Fq12) (h : x ≠ 0) : x.inverse = some x⁻¹ := by
  obtain ⟨y, h1, h2⟩ := inverse_correct x h
  rw [h1, eq_inv_of_mul_eq_one_left h2]

def equivProd : Fq12 ≃ Fq4 × Fq4 × Fq4 where
  toFun x := (x.c0, x.c1, x.c2)
  invFun p := ⟨p.1, p.2.1, p.2.2⟩
  left_inv x := by cases x; rfl
  right_inv p := by obtain ⟨a, b, c⟩ := p; rfl

instance : Fintype Fq12 := Fintype.ofEquiv _ equivProd.symm
theorem card : Fintype.card Fq12 = q ^ 12 := by
  rw [Fintype.card_congr equivProd, Fintype.card_prod, Fintype.card_prod, Fq4.card]; ring

/-- Lagrange in the multiplicative group of `Fq12` -/
theorem pow_card_sub_one (x : Fq12) (h : x ≠ 0) : x ^ (q ^ 12 - 1) = 1 := by
  rw [← card]; exact FiniteField.pow_card_sub_one_eq_one x h

end Fq12

example : ∃ x : Fq12, x ≠ 0 := ⟨1, one_ne_zero⟩

end Sm9
