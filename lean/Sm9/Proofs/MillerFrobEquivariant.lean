import Sm9.Proofs.MillerFrobenius
import Sm9.Proofs.MillerNaf
import Sm9.Proofs.GtOrder
/-!
# The Frobenius fragment of bilinearity: `e(P, π(Q)) = e(P, Q)^q`, hence `e(P, [q]Q) = e(P, Q)^q`

`π(x, y) = (x̄·π₁⁻², ȳ·π₁⁻³)` is the `q`-power Frobenius transported to the twist (`Miller.frobTwist`,
`Miller.frobHom`), `P ∈ E(Fq)`.

1. `lineSpec_pow_q` — the `q`-power map of `Fq12` sends the line through `T` with slope `λ`
   evaluated at `P` to the line through `π(T)` with slope `λ̄·π₁⁻¹` (`ofFq` is fixed, `ofFq2` is
   conjugated, `w ↦ π₁ w`).
2. `lineVal_map … specTail_map` — generic: for the twist map `ptMap b σ c` on points and a monoid
   endomorphism `φ` of the values with `ℓ(σx·c², σy·c³, σλ·c) = φ(ℓ(x, y, λ))`, the Miller loops
   (binary and signed-digit) and the tail started from the mapped points return the mapped state
   (`twist_slope`, `ptMap_add`).
3. (A) `specMiller_frobTwist`, (B) `specMillerNaf_frobTwist` — `f(P, π(Q)) = f(P, Q)^q` for both
   textbook Miller functions, for every `Q` on the twist.
4. (C) `api_fast_pairing_frob`, `api_prepared_pairing_frob`, `api_pairing_frob` — the entry points on
   `(E(Fq) ∖ O) × (⟨P2⟩ ∖ O)`, any Jacobian representatives, with `frobG2 Q` the affine representative
   of `π(Q)`; `api_pairings_q_power_frobenius` — the same with `π(Q)` computed by the code's own
   `G2::q_power_frobenius(&π₁)` on any representative.
5. (D) `api_fast_pairing_mul_q`, `api_prepared_pairing_mul_q`, `api_pairing_mul_q` —
   `e(P, [q mod r]Q) = e(P, Q)^q` with the model's scalar multiplication `G2::mul`
   (`π(Q) = [q]Q` on `⟨P2⟩`, `eigen_of_multiple`); `…_mul_qFr` — the same as
   `e(P, [s]Q) = e(P, Q)^s`, `s = q mod r`, using `e(P, Q)^r = 1`.
-/
namespace Sm9
namespace Miller
open WeierstrassCurve
set_option maxRecDepth 100000

/-! ## 1. the `q`-power map on a line value -/

theorem ofFq_pow_q (a : Fq) : Fq12.ofFq a ^ q = Fq12.ofFq a := by
  rw [← map_pow]
  have := Fq.pow_q_pow a 1
  rw [pow_one] at this
  rw [this]

theorem w_inv_pow_q : (Fq12.w⁻¹) ^ q = Fq12.ofFq2 pi1F⁻¹ * Fq12.w⁻¹ := by
  rw [inv_pow, Fq12.w_pow_q, ← ofFq2_pi1F, mul_inv, map_inv₀]

theorem w3_inv_pow_q : ((Fq12.w ^ 3)⁻¹) ^ q = Fq12.ofFq2 (pi1F⁻¹ ^ 3) * (Fq12.w ^ 3)⁻¹ := by
  rw [inv_pow, ← pow_mul, mul_comm 3 q, pow_mul, Fq12.w_pow_q, ← ofFq2_pi1F, mul_pow, mul_inv, map_pow,
    map_inv₀, inv_pow]

/-- **the `q`-power map sends the line through `T` with slope `λ` to the line through `π(T)` with
    slope `λ̄·π₁⁻¹`** (the point `P` has coordinates in `Fq`, fixed by the map) -/
theorem lineSpec_pow_q (x y lam : Fq2) (xP yP : Fq) :
    lineSpec x y lam xP yP ^ q
      = lineSpec (conj x * pi1F⁻¹ ^ 2) (conj y * pi1F⁻¹ ^ 3) (conj lam * pi1F⁻¹) xP yP := by
  rw [lineSpec_eq_w, lineSpec_eq_w, ← frobenius_def, map_add, map_sub, map_mul, map_mul, map_mul]
  simp only [frobenius_def, ofFq_pow_q, ofFq2_pow_q, w_inv_pow_q, w3_inv_pow_q, ← conj_apply]
  simp only [map_mul, map_sub, map_pow]
  ring

/-! ## 2. the generic equivariance of the Miller loop -/

section generic
variable {F : Type} [Field F] [DecidableEq F] {K : Type} [Monoid K]
variable (b : F) (σ : F →+* F) (c : F) (hc : c ≠ 0) (hb : σ b * c ^ 6 = b)
variable (ℓ : F → F → F → K) (φ : K →* K)

theorem lineVal_map (hℓ : ∀ x y lam, ℓ (σ x * c ^ 2) (σ y * c ^ 3) (σ lam * c) = φ (ℓ x y lam))
    (A B : (Jac.Wb b).Point) :
    lineVal (Jac.Wb b) ℓ (ptMap b σ c hc hb A) (ptMap b σ c hc hb B) = φ (lineVal (Jac.Wb b) ℓ A B) := by
  cases A with
  | zero => exact (map_one φ).symm
  | some x1 y1 h1 =>
    cases B with
    | zero => exact (map_one φ).symm
    | some x2 y2 h2 =>
      rw [ptMap_some, ptMap_some, lineVal_some, lineVal_some, twist_slope b σ c hc, hℓ]

theorem ptMap_neg (A : (Jac.Wb b).Point) : ptMap b σ c hc hb (-A) = -ptMap b σ c hc hb A :=
  map_neg (ptMapHom b σ c hc hb) A

theorem specStep_map (hℓ : ∀ x y lam, ℓ (σ x * c ^ 2) (σ y * c ^ 3) (σ lam * c) = φ (ℓ x y lam))
    (Q : (Jac.Wb b).Point) (N : Nat) (st : (Jac.Wb b).Point × K) (i : Nat) :
    specStep (Jac.Wb b) ℓ (ptMap b σ c hc hb Q) N (ptMap b σ c hc hb st.1, φ st.2) i
      = (ptMap b σ c hc hb (specStep (Jac.Wb b) ℓ Q N st i).1, φ (specStep (Jac.Wb b) ℓ Q N st i).2) := by
  unfold specStep
  simp only
  split
  · simp only [ptMap_add, map_mul, ← lineVal_map b σ c hc hb ℓ φ hℓ]
  · simp only [ptMap_add, map_mul, ← lineVal_map b σ c hc hb ℓ φ hℓ]

theorem foldl_specStep_map (hℓ : ∀ x y lam, ℓ (σ x * c ^ 2) (σ y * c ^ 3) (σ lam * c) = φ (ℓ x y lam))
    (Q : (Jac.Wb b).Point) (N : Nat) (idx : List Nat) (st : (Jac.Wb b).Point × K) :
    idx.foldl (specStep (Jac.Wb b) ℓ (ptMap b σ c hc hb Q) N) (ptMap b σ c hc hb st.1, φ st.2)
      = (ptMap b σ c hc hb (idx.foldl (specStep (Jac.Wb b) ℓ Q N) st).1,
         φ (idx.foldl (specStep (Jac.Wb b) ℓ Q N) st).2) := by
  induction idx generalizing st with
  | nil => rfl
  | cons i is ih =>
    rw [List.foldl_cons, List.foldl_cons, specStep_map b σ c hc hb ℓ φ hℓ, ih]

theorem specLoop_map (hℓ : ∀ x y lam, ℓ (σ x * c ^ 2) (σ y * c ^ 3) (σ lam * c) = φ (ℓ x y lam))
    (Q : (Jac.Wb b).Point) (N : Nat) (idx : List Nat) :
    specLoop (Jac.Wb b) ℓ (ptMap b σ c hc hb Q) N idx
      = (ptMap b σ c hc hb (specLoop (Jac.Wb b) ℓ Q N idx).1, φ (specLoop (Jac.Wb b) ℓ Q N idx).2) := by
  unfold specLoop
  rw [← foldl_specStep_map b σ c hc hb ℓ φ hℓ, map_one]

theorem specStepNaf_map (hℓ : ∀ x y lam, ℓ (σ x * c ^ 2) (σ y * c ^ 3) (σ lam * c) = φ (ℓ x y lam))
    (Q : (Jac.Wb b).Point) (st : (Jac.Wb b).Point × K) (d : Nat) :
    specStepNaf (Jac.Wb b) ℓ (ptMap b σ c hc hb Q) (ptMap b σ c hc hb st.1, φ st.2) d
      = (ptMap b σ c hc hb (specStepNaf (Jac.Wb b) ℓ Q st d).1, φ (specStepNaf (Jac.Wb b) ℓ Q st d).2) := by
  unfold specStepNaf
  simp only
  split
  · simp only [ptMap_add, map_mul, ← lineVal_map b σ c hc hb ℓ φ hℓ]
  · split
    · simp only [ptMap_add, ptMap_neg, map_mul, ← lineVal_map b σ c hc hb ℓ φ hℓ]
    · simp only [ptMap_add, map_mul, ← lineVal_map b σ c hc hb ℓ φ hℓ]

theorem foldl_specStepNaf_map (hℓ : ∀ x y lam, ℓ (σ x * c ^ 2) (σ y * c ^ 3) (σ lam * c) = φ (ℓ x y lam))
    (Q : (Jac.Wb b).Point) (ds : List Nat) (st : (Jac.Wb b).Point × K) :
    ds.foldl (specStepNaf (Jac.Wb b) ℓ (ptMap b σ c hc hb Q)) (ptMap b σ c hc hb st.1, φ st.2)
      = (ptMap b σ c hc hb (ds.foldl (specStepNaf (Jac.Wb b) ℓ Q) st).1,
         φ (ds.foldl (specStepNaf (Jac.Wb b) ℓ Q) st).2) := by
  induction ds generalizing st with
  | nil => rfl
  | cons d ds ih =>
    rw [List.foldl_cons, List.foldl_cons, specStepNaf_map b σ c hc hb ℓ φ hℓ, ih]

theorem specLoopNaf_map (hℓ : ∀ x y lam, ℓ (σ x * c ^ 2) (σ y * c ^ 3) (σ lam * c) = φ (ℓ x y lam))
    (Q : (Jac.Wb b).Point) (ds : List Nat) :
    specLoopNaf (Jac.Wb b) ℓ (ptMap b σ c hc hb Q) ds
      = (ptMap b σ c hc hb (specLoopNaf (Jac.Wb b) ℓ Q ds).1, φ (specLoopNaf (Jac.Wb b) ℓ Q ds).2) := by
  unfold specLoopNaf
  rw [← foldl_specStepNaf_map b σ c hc hb ℓ φ hℓ, map_one]

theorem specTail_map (hℓ : ∀ x y lam, ℓ (σ x * c ^ 2) (σ y * c ^ 3) (σ lam * c) = φ (ℓ x y lam))
    (Q1 Q2 : (Jac.Wb b).Point) (st : (Jac.Wb b).Point × K) :
    specTail (Jac.Wb b) ℓ (ptMap b σ c hc hb Q1) (ptMap b σ c hc hb Q2) (ptMap b σ c hc hb st.1, φ st.2)
      = φ (specTail (Jac.Wb b) ℓ Q1 Q2 st) := by
  unfold specTail
  simp only [map_mul, ← lineVal_map b σ c hc hb ℓ φ hℓ, ptMap_add, ptMap_neg]

end generic

/-! ## 3. (A), (B): the textbook Miller functions at `π(Q)` -/

/-- `frobHom` is `ptMap` -/
theorem frobHom_apply (X : (Jac.Wb b2).Point) :
    frobHom X = ptMap b2 conj pi1F⁻¹ (inv_ne_zero pi1F_ne_zero) frob_coeff X := rfl

theorem lineAt_frob (xP yP : Fq) (x y lam : Fq2) :
    lineAt xP yP (conj x * pi1F⁻¹ ^ 2) (conj y * pi1F⁻¹ ^ 3) (conj lam * pi1F⁻¹)
      = powMonoidHom q (lineAt xP yP x y lam) :=
  (lineSpec_pow_q x y lam xP yP).symm

/-- (A) for a pair -/
theorem specMiller_frobTwist' (xP yP : Fq) (p : Fq2 × Fq2) (hp : p.2 * p.2 = p.1 * p.1 * p.1 + b2) :
    specMiller xP yP (frobTwist p).1 (frobTwist p).2 = specMiller xP yP p.1 p.2 ^ q := by
  have hp1 := frobTwist_equation p hp
  have hp2 := frobTwist_equation _ hp1
  unfold specMiller
  show specTail _ _ (twPt (frobTwist (frobTwist p))) (twPt (frobTwist (frobTwist (frobTwist p))))
      (specLoop _ _ (twPt (frobTwist p)) _ _) = (specTail _ _ (twPt (frobTwist p))
        (twPt (frobTwist (frobTwist p))) (specLoop _ _ (twPt p) _ _)) ^ q
  rw [← frobHom_twPt _ hp2, ← frobHom_twPt _ hp1, ← frobHom_twPt _ hp]
  simp only [frobHom_apply]
  rw [specLoop_map b2 conj pi1F⁻¹ _ _ (lineAt xP yP) (powMonoidHom q) (lineAt_frob xP yP),
    specTail_map b2 conj pi1F⁻¹ _ _ (lineAt xP yP) (powMonoidHom q) (lineAt_frob xP yP)]
  rfl

/-- **(A)** the textbook Miller function (binary chain) at the Frobenius image of `Q` is the
    `q`-th power of its value at `Q` -/
theorem specMiller_frobTwist (xP yP : Fq) (xQ yQ : Fq2) (hQ : yQ * yQ = xQ * xQ * xQ + b2) :
    specMiller xP yP (frobTwist (xQ, yQ)).1 (frobTwist (xQ, yQ)).2 = specMiller xP yP xQ yQ ^ q :=
  specMiller_frobTwist' xP yP (xQ, yQ) hQ

/-- (B) for a pair -/
theorem specMillerNaf_frobTwist' (xP yP : Fq) (p : Fq2 × Fq2) (hp : p.2 * p.2 = p.1 * p.1 * p.1 + b2) :
    specMillerNaf xP yP (frobTwist p).1 (frobTwist p).2 = specMillerNaf xP yP p.1 p.2 ^ q := by
  have hp1 := frobTwist_equation p hp
  have hp2 := frobTwist_equation _ hp1
  unfold specMillerNaf
  show specTail _ _ (twPt (frobTwist (frobTwist p))) (twPt (frobTwist (frobTwist (frobTwist p))))
      (specLoopNaf _ _ (twPt (frobTwist p)) _) = (specTail _ _ (twPt (frobTwist p))
        (twPt (frobTwist (frobTwist p))) (specLoopNaf _ _ (twPt p) _)) ^ q
  rw [← frobHom_twPt _ hp2, ← frobHom_twPt _ hp1, ← frobHom_twPt _ hp]
  simp only [frobHom_apply]
  rw [specLoopNaf_map b2 conj pi1F⁻¹ _ _ (lineAt xP yP) (powMonoidHom q) (lineAt_frob xP yP),
    specTail_map b2 conj pi1F⁻¹ _ _ (lineAt xP yP) (powMonoidHom q) (lineAt_frob xP yP)]
  rfl

/-- **(B)** the same along the signed-digit chain of `pairing()` -/
theorem specMillerNaf_frobTwist (xP yP : Fq) (xQ yQ : Fq2) (hQ : yQ * yQ = xQ * xQ * xQ + b2) :
    specMillerNaf xP yP (frobTwist (xQ, yQ)).1 (frobTwist (xQ, yQ)).2 = specMillerNaf xP yP xQ yQ ^ q :=
  specMillerNaf_frobTwist' xP yP (xQ, yQ) hQ

/-! ## 4. (C): the entry points at `π(Q)` -/

/-- the affine (`z = 1`) representative of `π(Q)` for a Jacobian `Q` -/
noncomputable def frobG2 (Q : G2) : G2 := affG2 (frobTwist (Q.x / Q.z ^ 2, Q.y / Q.z ^ 3))

theorem frobG2_z (Q : G2) : (frobG2 Q).z ≠ 0 := one_ne_zero

theorem frobG2_coords (Q : G2) :
    ((frobG2 Q).x / (frobG2 Q).z ^ 2, (frobG2 Q).y / (frobG2 Q).z ^ 3)
      = frobTwist (Q.x / Q.z ^ 2, Q.y / Q.z ^ 3) := by
  show ((frobTwist _).1 / (1 : Fq2) ^ 2, (frobTwist _).2 / (1 : Fq2) ^ 3) = _
  rw [one_pow, one_pow, div_one, div_one]

theorem frobG2_valid (Q : G2) (hQz : Q.z ≠ 0) (hQv : G2.Valid Q) : G2.Valid (frobG2 Q) :=
  affG2_valid _ (frobTwist_equation _ (twPt_of_valid Q hQz hQv).1)

/-- `π(Q) = [q]Q` on `⟨P2⟩`, for the representative `frobG2 Q` -/
theorem frobG2_toAff (Q : G2) (hQz : Q.z ≠ 0) (hQv : G2.Valid Q) (k : Nat)
    (hk : G2.toAff Q = k • G2.toAff (G.one : G2)) :
    G2.toAff (frobG2 Q) = q • G2.toAff Q := by
  obtain ⟨he, hpt⟩ := twPt_of_valid Q hQz hQv
  have hg : twPt genXY = G2.toAff (G.one : G2) := by rw [twPt_eq, affG2_gen]
  have hk' : twPt (Q.x / Q.z ^ 2, Q.y / Q.z ^ 3) = k • twPt genXY := by
    rw [hg]; exact hpt.trans hk
  obtain ⟨_, e1, _⟩ := eigen_of_multiple (Q.x / Q.z ^ 2, Q.y / Q.z ^ 3) he k hk'
  rw [hpt] at e1
  exact e1

theorem frobG2_multiple (Q : G2) (hQz : Q.z ≠ 0) (hQv : G2.Valid Q) (k : Nat)
    (hk : G2.toAff Q = k • G2.toAff (G.one : G2)) :
    G2.toAff (frobG2 Q) = (q * k) • G2.toAff (G.one : G2) := by
  rw [frobG2_toAff Q hQz hQv k hk, hk, mul_nsmul']

/-- the code's own Frobenius `G2::q_power_frobenius(&π₁)` on the normalised point returns `frobG2 Q` -/
theorem q_power_frobenius_normalize (Q : G2) (hQz : Q.z ≠ 0) :
    G2m.q_power_frobenius (Api.normalize Q) (Fq2.new pi1 0) = some (frobG2 Q) := by
  rw [G2.normalize_eq Q hQz]
  exact q_power_frobenius_eq (Q.x / Q.z ^ 2, Q.y / Q.z ^ 3)

/-- **(C) `fast_pairing` at `π(Q)`**, with the value made explicit -/
theorem api_fast_pairing_frob_eq (P : G1) (Q : G2) (hPz : P.z ≠ 0) (hPv : G1.Valid P) (hQz : Q.z ≠ 0)
    (hQv : G2.Valid Q) (k : Nat) (hk : G2.toAff Q = k • G2.toAff (G.one : G2)) :
    Api.fast_pairing P (frobG2 Q)
      = .ok ((specMiller (P.x / P.z ^ 2) (P.y / P.z ^ 3) (Q.x / Q.z ^ 2) (Q.y / Q.z ^ 3)
          ^ ((q ^ 12 - 1) / r)) ^ q) := by
  have he := (twPt_of_valid Q hQz hQv).1
  have h := api_fast_pairing_eq_spec_G2 P (frobG2 Q) hPz hPv (frobG2_z Q) (frobG2_valid Q hQz hQv)
    (q * k) (frobG2_multiple Q hQz hQv k hk)
  have hx : (frobG2 Q).x / (frobG2 Q).z ^ 2 = (frobTwist (Q.x / Q.z ^ 2, Q.y / Q.z ^ 3)).1 :=
    congrArg Prod.fst (frobG2_coords Q)
  have hy : (frobG2 Q).y / (frobG2 Q).z ^ 3 = (frobTwist (Q.x / Q.z ^ 2, Q.y / Q.z ^ 3)).2 :=
    congrArg Prod.snd (frobG2_coords Q)
  rw [hx, hy, specMiller_frobTwist' _ _ (Q.x / Q.z ^ 2, Q.y / Q.z ^ 3) he] at h
  rw [h]
  generalize (q ^ 12 - 1) / r = e
  exact congrArg Outcome.ok (pow_right_comm _ q e)

/-- **(C) `e(P, π(Q)) = e(P, Q)^q` for `fast_pairing`** -/
theorem api_fast_pairing_frob (P : G1) (Q : G2) (hPz : P.z ≠ 0) (hPv : G1.Valid P) (hQz : Q.z ≠ 0)
    (hQv : G2.Valid Q) (k : Nat) (hk : G2.toAff Q = k • G2.toAff (G.one : G2)) :
    ∃ g, Api.fast_pairing P Q = .ok g ∧ Api.fast_pairing P (frobG2 Q) = .ok (g ^ q) :=
  ⟨_, api_fast_pairing_eq_spec_G2 P Q hPz hPv hQz hQv k hk, api_fast_pairing_frob_eq P Q hPz hPv hQz hQv k hk⟩

/-- **(C) the same for the prepared API** (`G2Prepared::from` then `G2Prepared::pairing`) -/
theorem api_prepared_pairing_frob (P : G1) (Q : G2) (hPz : P.z ≠ 0) (hPv : G1.Valid P) (hQz : Q.z ≠ 0)
    (hQv : G2.Valid Q) (k : Nat) (hk : G2.toAff Q = k • G2.toAff (G.one : G2)) :
    ∃ g, (do let pr ← Api.prepare Q; Api.preparedPairing pr P) = .ok g ∧
      (do let pr ← Api.prepare (frobG2 Q); Api.preparedPairing pr P) = .ok (g ^ q) := by
  rw [api_prepared_eq_fast, api_prepared_eq_fast]
  exact api_fast_pairing_frob P Q hPz hPv hQz hQv k hk

/-- **(C) `pairing()` at `π(Q)`**, with the value made explicit -/
theorem api_pairing_frob_eq (P : G1) (Q : G2) (hPz : P.z ≠ 0) (hPv : G1.Valid P) (hQz : Q.z ≠ 0)
    (hQv : G2.Valid Q) (k : Nat) (hk : G2.toAff Q = k • G2.toAff (G.one : G2)) :
    Api.pairing P (frobG2 Q)
      = .ok ((specMillerNaf (P.x / P.z ^ 2) (P.y / P.z ^ 3) (Q.x / Q.z ^ 2) (Q.y / Q.z ^ 3)
          ^ ((q ^ 12 - 1) / r)) ^ q) := by
  have he := (twPt_of_valid Q hQz hQv).1
  have h := api_pairing_eq_spec_G2 P (frobG2 Q) hPz hPv (frobG2_z Q) (frobG2_valid Q hQz hQv)
    (q * k) (frobG2_multiple Q hQz hQv k hk)
  have hx : (frobG2 Q).x / (frobG2 Q).z ^ 2 = (frobTwist (Q.x / Q.z ^ 2, Q.y / Q.z ^ 3)).1 :=
    congrArg Prod.fst (frobG2_coords Q)
  have hy : (frobG2 Q).y / (frobG2 Q).z ^ 3 = (frobTwist (Q.x / Q.z ^ 2, Q.y / Q.z ^ 3)).2 :=
    congrArg Prod.snd (frobG2_coords Q)
  rw [hx, hy, specMillerNaf_frobTwist' _ _ (Q.x / Q.z ^ 2, Q.y / Q.z ^ 3) he] at h
  rw [h]
  generalize (q ^ 12 - 1) / r = e
  exact congrArg Outcome.ok (pow_right_comm _ q e)

/-- **(C) `e(P, π(Q)) = e(P, Q)^q` for `pairing()`** -/
theorem api_pairing_frob (P : G1) (Q : G2) (hPz : P.z ≠ 0) (hPv : G1.Valid P) (hQz : Q.z ≠ 0)
    (hQv : G2.Valid Q) (k : Nat) (hk : G2.toAff Q = k • G2.toAff (G.one : G2)) :
    ∃ g, Api.pairing P Q = .ok g ∧ Api.pairing P (frobG2 Q) = .ok (g ^ q) :=
  ⟨_, api_pairing_eq_spec_G2 P Q hPz hPv hQz hQv k hk, api_pairing_frob_eq P Q hPz hPv hQz hQv k hk⟩

/-! ## 5. (D): bilinearity in the second argument for the scalar `q` -/

/-- the scalar `q mod r` of `Fr` -/
def qFr : Fr := Fr.ofNat q

theorem qFr_val : qFr.val = q % r := rfl

/-- on `⟨P2⟩`: `[q mod r]Q` (the model's scalar multiplication) and `π(Q)` are the same point -/
theorem mul_qFr_toAff (Q : G2) (hQz : Q.z ≠ 0) (hQv : G2.Valid Q) (k : Nat)
    (hk : G2.toAff Q = k • G2.toAff (G.one : G2)) :
    G2.toAff (Q.mul qFr) = G2.toAff (frobG2 Q) := by
  obtain ⟨he, hpt⟩ := twPt_of_valid Q hQz hQv
  have hg : twPt genXY = G2.toAff (G.one : G2) := by rw [twPt_eq, affG2_gen]
  have hk' : twPt (Q.x / Q.z ^ 2, Q.y / Q.z ^ 3) = k • twPt genXY := by
    rw [hg]; exact hpt.trans hk
  obtain ⟨ho, _, _⟩ := eigen_of_multiple (Q.x / Q.z ^ 2, Q.y / Q.z ^ 3) he k hk'
  rw [hpt] at ho
  rw [G2.mul_correct Q hQv, qFr_val, ← nsmul_mod ho q, frobG2_toAff Q hQz hQv k hk]

theorem mul_qFr_to_affine (Q : G2) (hQz : Q.z ≠ 0) (hQv : G2.Valid Q) (k : Nat)
    (hk : G2.toAff Q = k • G2.toAff (G.one : G2)) :
    (Q.mul qFr).to_affine = (frobG2 Q).to_affine :=
  G2.to_affine_congr _ _ (G2.mul_valid Q hQv qFr) (frobG2_valid Q hQz hQv) (mul_qFr_toAff Q hQz hQv k hk)

/-- **(D) `e(P, [q]Q) = e(P, Q)^q` for `fast_pairing`**, `[q]Q` computed by the model's `G2::mul`
    with the scalar `q mod r` -/
theorem api_fast_pairing_mul_q (P : G1) (Q : G2) (hPz : P.z ≠ 0) (hPv : G1.Valid P) (hQz : Q.z ≠ 0)
    (hQv : G2.Valid Q) (k : Nat) (hk : G2.toAff Q = k • G2.toAff (G.one : G2)) :
    ∃ g, Api.fast_pairing P Q = .ok g ∧ Api.fast_pairing P (Q.mul qFr) = .ok (g ^ q) := by
  rw [fast_pairing_congr P P (Q.mul qFr) (frobG2 Q) rfl (mul_qFr_to_affine Q hQz hQv k hk)]
  exact api_fast_pairing_frob P Q hPz hPv hQz hQv k hk

/-- **(D) for the prepared API** -/
theorem api_prepared_pairing_mul_q (P : G1) (Q : G2) (hPz : P.z ≠ 0) (hPv : G1.Valid P) (hQz : Q.z ≠ 0)
    (hQv : G2.Valid Q) (k : Nat) (hk : G2.toAff Q = k • G2.toAff (G.one : G2)) :
    ∃ g, (do let pr ← Api.prepare Q; Api.preparedPairing pr P) = .ok g ∧
      (do let pr ← Api.prepare (Q.mul qFr); Api.preparedPairing pr P) = .ok (g ^ q) := by
  rw [api_prepared_eq_fast, api_prepared_eq_fast]
  exact api_fast_pairing_mul_q P Q hPz hPv hQz hQv k hk

/-- **(D) for `pairing()`** -/
theorem api_pairing_mul_q (P : G1) (Q : G2) (hPz : P.z ≠ 0) (hPv : G1.Valid P) (hQz : Q.z ≠ 0)
    (hQv : G2.Valid Q) (k : Nat) (hk : G2.toAff Q = k • G2.toAff (G.one : G2)) :
    ∃ g, Api.pairing P Q = .ok g ∧ Api.pairing P (Q.mul qFr) = .ok (g ^ q) := by
  rw [pairing_congr P P (Q.mul qFr) (frobG2 Q) rfl (mul_qFr_to_affine Q hQz hQv k hk)]
  exact api_pairing_frob P Q hPz hPv hQz hQv k hk

/-! ### the exponent reduced mod `r` -/

theorem pow_q_eq_pow_qFr (g : Fq12) (h : g ^ r = 1) : g ^ q = g ^ qFr.val := by
  rw [qFr_val]
  conv_lhs => rw [← Nat.div_add_mod q r, pow_add, pow_mul, h, one_pow, one_mul]

theorem G1.affine_y_ne_zero (P : G1) (hPz : P.z ≠ 0) (hPv : G1.Valid P) : P.y / P.z ^ 3 ≠ 0 :=
  div_ne_zero (Jac.y_ne_zero b1 Fq.no_two_torsion P hPz (hPv.resolve_left hPz)) (pow_ne_zero _ hPz)

/-- the value of `fast_pairing` has order dividing `r` -/
theorem api_fast_pairing_order (P : G1) (Q : G2) (hPz : P.z ≠ 0) (hPv : G1.Valid P) (hQz : Q.z ≠ 0)
    (hQv : G2.Valid Q) (k : Nat) (hk : G2.toAff Q = k • G2.toAff (G.one : G2)) (g : Fq12)
    (hg : Api.fast_pairing P Q = .ok g) : g ^ r = 1 := by
  rw [api_fast_pairing_eq_spec_G2 P Q hPz hPv hQz hQv k hk] at hg
  rw [← Outcome.ok.inj hg]
  exact pow_final_exponent_pow_r _ (specMiller_ne_zero _ _ _ _ (G1.affine_y_ne_zero P hPz hPv))

/-- the value of `pairing()` has order dividing `r` -/
theorem api_pairing_order (P : G1) (Q : G2) (hPz : P.z ≠ 0) (hPv : G1.Valid P) (hQz : Q.z ≠ 0)
    (hQv : G2.Valid Q) (k : Nat) (hk : G2.toAff Q = k • G2.toAff (G.one : G2)) (g : Fq12)
    (hg : Api.pairing P Q = .ok g) : g ^ r = 1 := by
  rw [api_pairing_eq_spec_G2 P Q hPz hPv hQz hQv k hk] at hg
  rw [← Outcome.ok.inj hg]
  exact pow_final_exponent_pow_r _ (specMillerNaf_ne_zero _ _ _ _ (G1.affine_y_ne_zero P hPz hPv))

/-- **(D) in the form `e(P, [s]Q) = e(P, Q)^s`** for the scalar `s = q mod r ∈ Fr` -/
theorem api_fast_pairing_mul_qFr (P : G1) (Q : G2) (hPz : P.z ≠ 0) (hPv : G1.Valid P) (hQz : Q.z ≠ 0)
    (hQv : G2.Valid Q) (k : Nat) (hk : G2.toAff Q = k • G2.toAff (G.one : G2)) :
    ∃ g, Api.fast_pairing P Q = .ok g ∧ g ^ r = 1 ∧
      Api.fast_pairing P (Q.mul qFr) = .ok (g ^ qFr.val) := by
  obtain ⟨g, h1, h2⟩ := api_fast_pairing_mul_q P Q hPz hPv hQz hQv k hk
  have ho := api_fast_pairing_order P Q hPz hPv hQz hQv k hk g h1
  exact ⟨g, h1, ho, by rw [← pow_q_eq_pow_qFr g ho]; exact h2⟩

theorem api_prepared_pairing_mul_qFr (P : G1) (Q : G2) (hPz : P.z ≠ 0) (hPv : G1.Valid P) (hQz : Q.z ≠ 0)
    (hQv : G2.Valid Q) (k : Nat) (hk : G2.toAff Q = k • G2.toAff (G.one : G2)) :
    ∃ g, (do let pr ← Api.prepare Q; Api.preparedPairing pr P) = .ok g ∧ g ^ r = 1 ∧
      (do let pr ← Api.prepare (Q.mul qFr); Api.preparedPairing pr P) = .ok (g ^ qFr.val) := by
  rw [api_prepared_eq_fast, api_prepared_eq_fast]
  exact api_fast_pairing_mul_qFr P Q hPz hPv hQz hQv k hk

theorem api_pairing_mul_qFr (P : G1) (Q : G2) (hPz : P.z ≠ 0) (hPv : G1.Valid P) (hQz : Q.z ≠ 0)
    (hQv : G2.Valid Q) (k : Nat) (hk : G2.toAff Q = k • G2.toAff (G.one : G2)) :
    ∃ g, Api.pairing P Q = .ok g ∧ g ^ r = 1 ∧ Api.pairing P (Q.mul qFr) = .ok (g ^ qFr.val) := by
  obtain ⟨g, h1, h2⟩ := api_pairing_mul_q P Q hPz hPv hQz hQv k hk
  have ho := api_pairing_order P Q hPz hPv hQz hQv k hk g h1
  exact ⟨g, h1, ho, by rw [← pow_q_eq_pow_qFr g ho]; exact h2⟩

/-! ## 6. the code's own Frobenius `G2::q_power_frobenius(&π₁)` on any Jacobian representative -/

theorem conj_ne_zero {a : Fq2} (h : a ≠ 0) : a.unitary_inverse ≠ 0 := by
  rw [← conj_apply]; exact (map_ne_zero conj).2 h

/-- `q_power_frobenius` never fails with `π₁`, and its result denotes `π(Q)` -/
theorem q_power_frobenius_to_affine (Q : G2) (hQz : Q.z ≠ 0) :
    ∃ Q', G2m.q_power_frobenius Q (Fq2.new pi1 0) = some Q' ∧ Q'.to_affine = (frobG2 Q).to_affine := by
  unfold G2m.q_power_frobenius
  have h : (Fq2.new pi1 0).inverse = some pi1F⁻¹ := Fq2.inverse_eq_inv pi1F pi1F_ne_zero
  rw [h]
  refine ⟨_, rfl, ?_⟩
  have hz' : Q.z.unitary_inverse ≠ 0 := conj_ne_zero hQz
  rw [G2.to_affine_spec, G2.to_affine_spec, if_neg (frobG2_z Q)]
  simp only [G.new, Fq2.squared_eq_mul]
  rw [if_neg hz']
  unfold frobG2 affG2 frobTwist
  simp only [← conj_apply, map_div₀, map_pow, one_pow, div_one]
  have hz'' : conj Q.z ≠ 0 := hz'
  congr 2
  · field_simp
  · field_simp

/-- **`e(P, π(Q)) = e(P, Q)^q` with `π(Q)` computed by the code's `q_power_frobenius`** on any Jacobian
    representative of `Q`, for all three entry points -/
theorem api_pairings_q_power_frobenius (P : G1) (Q : G2) (hPz : P.z ≠ 0) (hPv : G1.Valid P) (hQz : Q.z ≠ 0)
    (hQv : G2.Valid Q) (k : Nat) (hk : G2.toAff Q = k • G2.toAff (G.one : G2)) :
    ∃ Q', G2m.q_power_frobenius Q (Fq2.new pi1 0) = some Q' ∧
      (∃ g, Api.fast_pairing P Q = .ok g ∧ Api.fast_pairing P Q' = .ok (g ^ q)) ∧
      (∃ g, (do let pr ← Api.prepare Q; Api.preparedPairing pr P) = .ok g ∧
        (do let pr ← Api.prepare Q'; Api.preparedPairing pr P) = .ok (g ^ q)) ∧
      (∃ g, Api.pairing P Q = .ok g ∧ Api.pairing P Q' = .ok (g ^ q)) := by
  obtain ⟨Q', h1, h2⟩ := q_power_frobenius_to_affine Q hQz
  refine ⟨Q', h1, ?_, ?_, ?_⟩
  · rw [fast_pairing_congr P P Q' (frobG2 Q) rfl h2]
    exact api_fast_pairing_frob P Q hPz hPv hQz hQv k hk
  · rw [prepared_pairing_congr P P Q' (frobG2 Q) rfl h2]
    exact api_prepared_pairing_frob P Q hPz hPv hQz hQv k hk
  · rw [pairing_congr P P Q' (frobG2 Q) rfl h2]
    exact api_pairing_frob P Q hPz hPv hQz hQv k hk

/-- the hypotheses are satisfiable: `Q = P2` (`k = 1`) -/
example (P : G1) (hPz : P.z ≠ 0) (hPv : G1.Valid P) :
    ∃ g, Api.fast_pairing P (G.one : G2) = .ok g ∧
      Api.fast_pairing P ((G.one : G2).mul qFr) = .ok (g ^ q) :=
  api_fast_pairing_mul_q P G.one hPz hPv (by decide +kernel) G2.one_valid 1 (one_nsmul _).symm

end Miller
end Sm9
