import Sm9.Proofs.JacobianInst
import Sm9.Model.Prog
import Mathlib.GroupTheory.OrderOfElement
/-!
# C16: any program over G1 registers refines arithmetic of discrete logarithms in Z_r

`run_refines`: after any instruction sequence (any length, any order) register k of the
concrete machine denotes `d_k • P1` where `d_k` is register k of the abstract machine that
only tracks discrete logs mod r.  Observations (`==`, `is_zero`, encodings via the affine
conversion) are functions of the denoted point, hence of the discrete log.
-/
namespace Sm9
open WeierstrassCurve

noncomputable def gen1 := G1.toAff (G.one : G1)

theorem gen1_order : r • gen1 = 0 ∧ gen1 ≠ 0 := by
  unfold gen1
  refine ⟨?_, ?_⟩
  · have hz : (((G.one : G1).mul (-(1 : Fr))).add G.one).z = 0 := by decide +kernel
    have h := G1.add_correct _ _ (G1.mul_valid _ G1.one_valid (-(1 : Fr))) G1.one_valid
    rw [G1.toAff_zero _ hz, G1.mul_correct _ G1.one_valid] at h
    have hv : (-(1 : Fr)).val = r - 1 := by decide +kernel
    rw [hv] at h
    have hr1 : r - 1 + 1 = r := by decide +kernel
    calc r • G1.toAff (G.one : G1) = (r - 1 + 1) • G1.toAff (G.one : G1) := by rw [hr1]
      _ = (r - 1) • G1.toAff (G.one : G1) + G1.toAff (G.one : G1) := by rw [add_smul, one_smul]
      _ = 0 := h.symm
  · have hz : (G.one : G1).z ≠ 0 := by decide +kernel
    rw [G1.toAff_some _ hz (G1.one_valid.resolve_left hz)]
    exact Affine.Point.some_ne_zero _

theorem gen1_addOrderOf : addOrderOf gen1 = r := by
  haveI : Fact (Nat.Prime r) := ⟨r_prime⟩
  exact addOrderOf_eq_prime gen1_order.1 gen1_order.2

/-- scalars act on the generator through their residue mod r -/
theorem smul_mod_r (n : Nat) : (n % r) • gen1 = n • gen1 := by
  conv_rhs => rw [← Nat.div_add_mod n r, add_smul, mul_smul, smul_comm, gen1_order.1, smul_zero, zero_add]

theorem smul_gen1_inj (a b : Fr) (h : a.val • gen1 = b.val • gen1) : a = b := by
  rw [nsmul_eq_nsmul_iff_modEq, gen1_addOrderOf] at h
  apply Fin.ext
  have ha : a.val < r := a.isLt
  have hb : b.val < r := b.isLt
  unfold Nat.ModEq at h
  rwa [Nat.mod_eq_of_lt ha, Nat.mod_eq_of_lt hb] at h

/-- the refinement relation between a concrete and an abstract register -/
def Rel (P : G1) (d : Fr) : Prop := G1.Valid P ∧ G1.toAff P = d.val • gen1

theorem rel_add {P Q : G1} {a b : Fr} (hP : Rel P a) (hQ : Rel Q b) : Rel (P.add Q) (a + b) := by
  refine ⟨G1.add_valid P Q hP.1 hQ.1, ?_⟩
  rw [G1.add_correct P Q hP.1 hQ.1, hP.2, hQ.2, ← add_smul]
  have : (a + b).val = (a.val + b.val) % r := rfl
  rw [this, smul_mod_r]

theorem rel_neg {P : G1} {a : Fr} (hP : Rel P a) : Rel P.neg (-a) := by
  refine ⟨G1.neg_valid P hP.1, ?_⟩
  rw [G1.neg_correct P hP.1, hP.2]
  -- (-a).val • g = -(a.val • g) because (−a).val + a.val ≡ 0 mod r
  have hsum : (-a).val • gen1 + a.val • gen1 = 0 := by
    rw [← add_smul]
    have : ((-a) + a).val = ((-a).val + a.val) % r := rfl
    rw [← smul_mod_r, ← this]
    have h0 : (-a + a) = 0 := by ring
    rw [h0]
    show Fin.val (0 : Fr) • gen1 = 0
    rw [Fr.zero_val, zero_smul]
  exact (eq_neg_of_add_eq_zero_left hsum).symm

theorem rel_sub {P Q : G1} {a b : Fr} (hP : Rel P a) (hQ : Rel Q b) : Rel (P.sub Q) (a - b) := by
  have := rel_add hP (rel_neg hQ)
  have e : a + -b = a - b := by ring
  rw [e] at this
  exact this

theorem rel_mul {P : G1} {a : Fr} (hP : Rel P a) (k : Fr) : Rel (P.mul k) (a * k) := by
  refine ⟨G1.mul_valid P hP.1 k, ?_⟩
  rw [G1.mul_correct P hP.1 k, hP.2, ← mul_smul]
  have : (a * k).val = (a.val * k.val) % r := rfl
  rw [this, smul_mod_r, mul_comm]

theorem rel_normalize {P : G1} {a : Fr} (hP : Rel P a) : Rel (Api.normalize P) a := by
  obtain ⟨h1, _, _, h4⟩ := G1.normalize_spec P hP.1
  exact ⟨h4, by rw [h1, hP.2]⟩

theorem rel_one : Rel (G.one : G1) 1 := by
  refine ⟨G1.one_valid, ?_⟩
  show _ = Fin.val (1 : Fr) • gen1
  rw [Fr.one_val, one_smul]; rfl

theorem rel_zero : Rel (G.zero : G1) 0 := by
  refine ⟨Or.inl rfl, ?_⟩
  show _ = Fin.val (0 : Fr) • gen1
  rw [G1.toAff_zero _ rfl, Fr.zero_val, zero_smul]

/-- one step preserves the register-wise refinement -/
theorem step_refines (regs : List G1) (ds : List Fr) (h : List.Forall₂ Rel regs ds) (ins : GInstr) :
    List.Forall₂ Rel (gstep regs ins) (astep ds ins) := by
  have hlen := h.length_eq
  have get : ∀ i : Nat, (regs[i]? = none ∧ ds[i]? = none) ∨ ∃ P d, regs[i]? = some P ∧ ds[i]? = some d ∧ Rel P d := by
    intro i
    by_cases hi : i < regs.length
    · right
      have hi' : i < ds.length := hlen ▸ hi
      refine ⟨regs[i], ds[i], List.getElem?_eq_getElem hi, List.getElem?_eq_getElem hi', ?_⟩
      have := List.Forall₂.get h hi hi'
      simpa using this
    · left
      exact ⟨List.getElem?_eq_none (by omega), List.getElem?_eq_none (by omega)⟩
  have app : ∀ {P d}, Rel P d → List.Forall₂ Rel (regs ++ [P]) (ds ++ [d]) := fun hr =>
    List.rel_append h (List.Forall₂.cons hr List.Forall₂.nil)
  cases ins with
  | one => exact app rel_one
  | zero => exact app rel_zero
  | add i j =>
    simp only [gstep, astep]
    rcases get i with ⟨h1, h2⟩ | ⟨P, a, h1, h2, hr1⟩
    · rw [h1, h2]; exact h
    · rcases get j with ⟨h3, h4⟩ | ⟨Q, b, h3, h4, hr2⟩
      · rw [h1, h2, h3, h4]; exact h
      · rw [h1, h2, h3, h4]; exact app (rel_add hr1 hr2)
  | sub i j =>
    simp only [gstep, astep]
    rcases get i with ⟨h1, h2⟩ | ⟨P, a, h1, h2, hr1⟩
    · rw [h1, h2]; exact h
    · rcases get j with ⟨h3, h4⟩ | ⟨Q, b, h3, h4, hr2⟩
      · rw [h1, h2, h3, h4]; exact h
      · rw [h1, h2, h3, h4]; exact app (rel_sub hr1 hr2)
  | neg i =>
    simp only [gstep, astep]
    rcases get i with ⟨h1, h2⟩ | ⟨P, a, h1, h2, hr1⟩
    · rw [h1, h2]; exact h
    · rw [h1, h2]; exact app (rel_neg hr1)
  | mul i k =>
    simp only [gstep, astep]
    rcases get i with ⟨h1, h2⟩ | ⟨P, a, h1, h2, hr1⟩
    · rw [h1, h2]; exact h
    · rw [h1, h2]; exact app (rel_mul hr1 k)
  | normalize i =>
    simp only [gstep, astep]
    rcases get i with ⟨h1, h2⟩ | ⟨P, a, h1, h2, hr1⟩
    · rw [h1, h2]; exact h
    · rw [h1, h2]; exact app (rel_normalize hr1)
  | affine i =>
    simp only [gstep, astep]
    rcases get i with ⟨h1, h2⟩ | ⟨P, a, h1, h2, hr1⟩
    · rw [h1, h2]; exact h
    · rw [h1, h2]; exact app (rel_normalize hr1)

theorem foldl_refines (prog : List GInstr) (regs : List G1) (ds : List Fr) (h : List.Forall₂ Rel regs ds) :
    List.Forall₂ Rel (prog.foldl gstep regs) (prog.foldl astep ds) := by
  induction prog generalizing regs ds with
  | nil => exact h
  | cons ins rest ih => exact ih _ _ (step_refines regs ds h ins)

/-- **every program**: register k denotes (discrete log k) • P1 -/
theorem run_refines (prog : List GInstr) : List.Forall₂ Rel (grun prog : List G1) (arun prog) :=
  foldl_refines prog [] [] List.Forall₂.nil

/-- observations are functions of the discrete log -/
theorem observe_eq {P Q : G1} {a b : Fr} (hP : Rel P a) (hQ : Rel Q b) : P.eq Q = true ↔ a = b := by
  rw [G1.eq_iff P Q hP.1 hQ.1, hP.2, hQ.2]
  exact ⟨smul_gen1_inj a b, fun h => by rw [h]⟩

theorem observe_is_zero {P : G1} {a : Fr} (hP : Rel P a) : P.is_zero = true ↔ a = 0 := by
  have hz : Rel (G.zero : G1) 0 := rel_zero
  rw [← observe_eq hP hz, G1.is_zero_iff, G1.eq_zero_iff P G.zero rfl]

end Sm9
