import Sm9.Proofs.Codec
import Sm9.Proofs.Sqrt
import Sm9.Proofs.RepIndep
import Sm9.Props.C09
/-!
# Point decoders and encoders: exact characterisation and round trips

For each of the three byte formats of G1 and G2 (raw x ‖ y, 0x04-prefixed, compressed):

* `*_iff` — the decoder returns `.ok P` exactly on the strings described (length, canonical
  coordinates `< q`, curve equation, for G2 the order-r subgroup), and `P` is the affine point in
  normal form (z = 1); every other input is an `.error` (`*_total`, and for the raw G1 format the
  error kind is characterised: `g1_from_slice_invalid_iff`, `g1_from_slice_not_member_iff`);
* `*_reencode` — an accepted string is the encoding of the decoded point (no non-canonical
  encodings are accepted);
* `*_roundtrip` — every valid non-identity value, in any Jacobian representation (for G2: in the
  subgroup), encodes to a string that decodes to an `==`-equal value;
* `*_congr` — encodings depend only on the denoted group element.

Partial: the compressed G2 format (`g2_compressed_roundtrip_partial`,
`g2_from_compressed_reencode_partial`) is proved under the hypothesis Re y ≠ 0; what is missing is
a proof that no point of the order-r subgroup of the twist has Re y = 0.  Without the hypothesis,
`g2_compressed_roundtrip_up_to_sign` and `g2_from_compressed_sound` are proved at full strength.

The square-root theorems are taken from `Sm9.Proofs.SqrtCompat` (see there for the reason).
-/
set_option maxRecDepth 100000
namespace Sm9
open WeierstrassCurve


/-! ## validated construction, G1 -/

theorem AffineG.new_g1 (x y : Fq) :
    (AffineG.new x y : Except GroupError AffineG1) =
      if y * y = x * x * x + b1 then .ok ⟨x, y⟩ else .error GroupError.NotOnCurve := by
  unfold AffineG.new
  have hc : GroupParams.check_order Fq = false := rfl
  simp only [hc, Bool.false_eq_true, if_false]
  by_cases h : y * y = x * x * x + b1
  · have : FieldElement.beq (FieldElement.squared y) (FieldElement.squared x * x + GroupParams.coeff_b) = true := by
      rw [Fq.beq_iff]; exact h
    rw [if_pos this, if_pos h]
  · have : ¬ FieldElement.beq (FieldElement.squared y) (FieldElement.squared x * x + GroupParams.coeff_b) = true := by
      rw [Fq.beq_iff]; exact h
    rw [if_neg this, if_neg h]

theorem Api.liftNew_g1 (x y : Fq) :
    (Api.liftNew x y : Except CurveError G1) =
      if y * y = x * x * x + b1 then .ok { x := x, y := y, z := 1 } else .error CurveError.NotMember := by
  unfold Api.liftNew
  rw [AffineG.new_g1]
  by_cases h : y * y = x * x * x + b1
  · rw [if_pos h, if_pos h]; rfl
  · rw [if_neg h, if_neg h]

theorem Api.liftNew_g1_iff (x y : Fq) (P : G1) :
    (Api.liftNew x y : Except CurveError G1) = .ok P ↔
      y * y = x * x * x + b1 ∧ P = { x := x, y := y, z := 1 } := by
  rw [Api.liftNew_g1]
  by_cases h : y * y = x * x * x + b1
  · rw [if_pos h]
    constructor
    · intro e; exact ⟨h, (Except.ok.inj e).symm⟩
    · rintro ⟨_, rfl⟩; rfl
  · rw [if_neg h]
    constructor
    · intro e; cases e
    · rintro ⟨h', _⟩; exact absurd h' h

/-! ## G1, raw 64-byte format -/

/-- **`G1::from_slice` accepts exactly the 64-byte strings x ‖ y with canonical x, y < q on the curve** -/
theorem g1_from_slice_iff (bs : List UInt8) (P : G1) :
    Api.g1FromSlice bs = .ok P ↔
      bs.length = 64 ∧ ∃ x y : Fq, beVal (bs.take 32) = x.val ∧ beVal (bs.drop 32) = y.val ∧
        (beVal (bs.take 32) < q) ∧ (beVal (bs.drop 32) < q) ∧
        y * y = x * x * x + b1 ∧ P = { x := x, y := y, z := 1 } := by
  unfold Api.g1FromSlice
  by_cases hl : bs.length = 64
  · rw [if_neg (by simpa using hl)]
    have ht : (bs.take 32).length = 32 := by rw [List.length_take]; omega
    have hd : (bs.drop 32).length = 32 := by rw [List.length_drop]; omega
    constructor
    · intro h
      split at h
      · next x y hx hy =>
        obtain ⟨_, hxv⟩ := (Api.fqFromSliceStrict_iff _ _).1 hx
        obtain ⟨_, hyv⟩ := (Api.fqFromSliceStrict_iff _ _).1 hy
        obtain ⟨he, hP⟩ := (Api.liftNew_g1_iff x y P).1 h
        exact ⟨hl, x, y, hxv, hyv, hxv ▸ x.isLt, hyv ▸ y.isLt, he, hP⟩
      · cases h
    · rintro ⟨_, x, y, hxv, hyv, _, _, he, hP⟩
      rw [(Api.fqFromSliceStrict_iff _ x).2 ⟨ht, hxv⟩, (Api.fqFromSliceStrict_iff _ y).2 ⟨hd, hyv⟩]
      exact (Api.liftNew_g1_iff x y P).2 ⟨he, hP⟩
  · rw [if_pos (by simpa using hl)]
    constructor
    · intro h; cases h
    · rintro ⟨h, _⟩; exact absurd h hl

theorem g1_from_slice_total (bs : List UInt8) :
    (∃ P, Api.g1FromSlice bs = .ok P) ∨ (∃ e, Api.g1FromSlice bs = .error e) := by
  cases h : Api.g1FromSlice bs with
  | ok P => exact Or.inl ⟨P, rfl⟩
  | error e => exact Or.inr ⟨e, rfl⟩

theorem Fq.one_ne_zero_fq : (1 : Fq) ≠ 0 := by decide +kernel

theorem G1.to_affine_of_z_one (x y : Fq) : ({ x := x, y := y, z := 1 } : G1).to_affine = some ⟨x, y⟩ := by
  rw [G1.to_affine_spec]
  rw [if_neg Fq.one_ne_zero_fq]
  simp only [one_pow, div_one]

theorem Api.g1ToSlice_of_z_one (x y : Fq) :
    Api.g1ToSlice { x := x, y := y, z := 1 } = .ok (Api.fqToSlice x ++ Api.fqToSlice y) := by
  unfold Api.g1ToSlice
  rw [G1.to_affine_of_z_one]

/-- every accepted input is the canonical encoding of the point it decodes to -/
theorem g1_from_slice_reencode (bs : List UInt8) (P : G1) (h : Api.g1FromSlice bs = .ok P) :
    Api.g1ToSlice P = .ok bs := by
  obtain ⟨hl, x, y, hxv, hyv, _, _, _, hP⟩ := (g1_from_slice_iff bs P).1 h
  have ht : (bs.take 32).length = 32 := by rw [List.length_take]; omega
  have hd : (bs.drop 32).length = 32 := by rw [List.length_drop]; omega
  subst hP
  rw [Api.g1ToSlice_of_z_one]
  unfold Api.fqToSlice
  rw [← hxv, ← hyv, beBytes_beVal ht, beBytes_beVal hd, List.take_append_drop]

/-- decoding the raw encoding of an affine curve point returns exactly that point (z = 1) -/
theorem g1_from_slice_encode (x y : Fq) (h : y * y = x * x * x + b1) :
    Api.g1FromSlice (Api.fqToSlice x ++ Api.fqToSlice y) = .ok { x := x, y := y, z := 1 } := by
  rw [g1_from_slice_iff]
  refine ⟨by rw [List.length_append, Api.fqToSlice_length, Api.fqToSlice_length], x, y, ?_, ?_, ?_, ?_, h, rfl⟩
  · rw [take_append_of_length (Api.fqToSlice_length x), Api.beVal_fqToSlice]
  · rw [drop_append_of_length (Api.fqToSlice_length x), Api.beVal_fqToSlice]
  · rw [take_append_of_length (Api.fqToSlice_length x), Api.beVal_fqToSlice]; exact x.isLt
  · rw [drop_append_of_length (Api.fqToSlice_length x), Api.beVal_fqToSlice]; exact y.isLt

/-- the affine coordinates of a valid non-identity value satisfy the curve equation -/
theorem G1.affine_equation (P : G1) (hP : G1.Valid P) (hz : P.z ≠ 0) :
    (P.y / P.z ^ 3) * (P.y / P.z ^ 3) =
      (P.x / P.z ^ 2) * (P.x / P.z ^ 2) * (P.x / P.z ^ 2) + b1 := by
  have hn := hP.resolve_left hz
  rw [Jac.nonsingular_iff] at hn
  have := hn.1
  calc (P.y / P.z ^ 3) * (P.y / P.z ^ 3) = (P.y / P.z ^ 3) ^ 2 := by ring
    _ = (P.x / P.z ^ 2) ^ 3 + b1 := this
    _ = _ := by ring

/-- the normalised form (x/z², y/z³, 1) denotes the same group element -/
theorem G1.toAff_affine (P : G1) (hP : G1.Valid P) (hz : P.z ≠ 0) :
    G1.Valid { x := P.x / P.z ^ 2, y := P.y / P.z ^ 3, z := 1 } ∧
    G1.toAff { x := P.x / P.z ^ 2, y := P.y / P.z ^ 3, z := 1 } = G1.toAff P := by
  have hn := G1.normalize_spec P hP
  have ha : P.to_affine = some ⟨P.x / P.z ^ 2, P.y / P.z ^ 3⟩ := by
    rw [G1.to_affine_spec, if_neg hz]
  have : Api.normalize P = { x := P.x / P.z ^ 2, y := P.y / P.z ^ 3, z := 1 } := by
    unfold Api.normalize
    rw [ha]
    rfl
  rw [this] at hn
  exact ⟨hn.2.2.2, hn.1⟩

/-- **raw-format round trip for every valid non-identity value, in any Jacobian representation** -/
theorem g1_slice_roundtrip (P : G1) (hP : G1.Valid P) (hz : P.z ≠ 0) :
    ∃ bs P', Api.g1ToSlice P = .ok bs ∧ Api.g1FromSlice bs = .ok P' ∧ P'.eq P = true := by
  have ha : P.to_affine = some ⟨P.x / P.z ^ 2, P.y / P.z ^ 3⟩ := by
    rw [G1.to_affine_spec, if_neg hz]
  refine ⟨Api.fqToSlice (P.x / P.z ^ 2) ++ Api.fqToSlice (P.y / P.z ^ 3),
    { x := P.x / P.z ^ 2, y := P.y / P.z ^ 3, z := 1 }, ?_, ?_, ?_⟩
  · unfold Api.g1ToSlice; rw [ha]
  · exact g1_from_slice_encode _ _ (G1.affine_equation P hP hz)
  · obtain ⟨hv, ht⟩ := G1.toAff_affine P hP hz
    exact (G1.eq_iff _ _ hv hP).2 ht

/-- the identity has no encoding (modelled panic), so the hypothesis `P.z ≠ 0` is necessary -/
theorem g1_to_slice_identity_panics (P : G1) (hz : P.z = 0) : Api.g1ToSlice P = .panic := by
  unfold Api.g1ToSlice
  rw [G1.to_affine_spec, if_pos hz]

/-- **representation independence**: the encoding is a function of the denoted group element -/
theorem g1_to_slice_congr (P Q : G1) (hP : G1.Valid P) (hQ : G1.Valid Q) (h : G1.toAff P = G1.toAff Q) :
    Api.g1ToSlice P = Api.g1ToSlice Q := by
  unfold Api.g1ToSlice
  rw [G1.to_affine_congr P Q hP hQ h]

/-- which inputs give `InvalidEncoding`: wrong length or a non-canonical coordinate -/
theorem g1_from_slice_invalid_iff (bs : List UInt8) :
    Api.g1FromSlice bs = .error .InvalidEncoding ↔
      bs.length ≠ 64 ∨ q ≤ beVal (bs.take 32) ∨ q ≤ beVal (bs.drop 32) := by
  unfold Api.g1FromSlice
  by_cases hl : bs.length = 64
  · rw [if_neg (by simpa using hl)]
    have ht : (bs.take 32).length = 32 := by rw [List.length_take]; omega
    have hd : (bs.drop 32).length = 32 := by rw [List.length_drop]; omega
    cases hx : Api.fqFromSliceStrict (bs.take 32) with
    | none =>
      have := (Api.fqFromSliceStrict_eq_none_iff _).1 hx
      simp only [ht, ne_eq, not_true_eq_false, false_or] at this
      simp [this]
    | some x =>
      have hxv := ((Api.fqFromSliceStrict_iff _ _).1 hx).2
      cases hy : Api.fqFromSliceStrict (bs.drop 32) with
      | none =>
        have := (Api.fqFromSliceStrict_eq_none_iff _).1 hy
        simp only [hd, ne_eq, not_true_eq_false, false_or] at this
        simp [this]
      | some y =>
        have hyv := ((Api.fqFromSliceStrict_iff _ _).1 hy).2
        have h1 : ¬ q ≤ beVal (bs.take 32) := by rw [hxv]; exact Nat.not_le.2 x.isLt
        have h2 : ¬ q ≤ beVal (bs.drop 32) := by rw [hyv]; exact Nat.not_le.2 y.isLt
        simp only [hl, ne_eq, not_true_eq_false, h1, h2, or_self, iff_false]
        rw [Api.liftNew_g1]
        split <;> simp
  · rw [if_pos (by simpa using hl)]
    simp [hl]

/-- which inputs give `NotMember`: well-formed canonical coordinates off the curve -/
theorem g1_from_slice_not_member_iff (bs : List UInt8) :
    Api.g1FromSlice bs = .error .NotMember ↔
      bs.length = 64 ∧ ∃ x y : Fq, beVal (bs.take 32) = x.val ∧ beVal (bs.drop 32) = y.val ∧
        y * y ≠ x * x * x + b1 := by
  unfold Api.g1FromSlice
  by_cases hl : bs.length = 64
  · rw [if_neg (by simpa using hl)]
    have ht : (bs.take 32).length = 32 := by rw [List.length_take]; omega
    have hd : (bs.drop 32).length = 32 := by rw [List.length_drop]; omega
    constructor
    · intro h
      split at h
      · next x y hx hy =>
        refine ⟨hl, x, y, ((Api.fqFromSliceStrict_iff _ _).1 hx).2, ((Api.fqFromSliceStrict_iff _ _).1 hy).2, ?_⟩
        intro he
        rw [Api.liftNew_g1, if_pos he] at h
        cases h
      · cases h
    · rintro ⟨_, x, y, hxv, hyv, hne⟩
      rw [(Api.fqFromSliceStrict_iff _ x).2 ⟨ht, hxv⟩, (Api.fqFromSliceStrict_iff _ y).2 ⟨hd, hyv⟩]
      show Api.liftNew x y = _
      rw [Api.liftNew_g1, if_neg hne]
  · rw [if_pos (by simpa using hl)]
    constructor
    · intro h; cases h
    · rintro ⟨h, _⟩; exact absurd h hl

/-! ## G1, 0x04-prefixed uncompressed format -/

/-- **`G1::from_uncompressed` accepts exactly 0x04 ‖ (an accepted raw encoding)** -/
theorem g1_from_uncompressed_iff (bs : List UInt8) (P : G1) :
    Api.g1FromUncompressed bs = .ok P ↔ ∃ tl, bs = (4 : UInt8) :: tl ∧ Api.g1FromSlice tl = .ok P := by
  unfold Api.g1FromUncompressed
  constructor
  · intro h
    split at h
    · cases h
    · next hc =>
      have hc' : bs.length = 65 ∧ bs.head? = some 4 := by simpa using hc
      match bs, hc', h with
      | b :: tl, hc', h =>
        have hb : b = 4 := by simpa using hc'.2
        subst hb
        exact ⟨tl, rfl, by simpa using h⟩
  · rintro ⟨tl, rfl, h⟩
    have hl := ((g1_from_slice_iff tl P).1 h).1
    rw [if_neg (by simp [hl])]
    simpa using h

theorem Api.g1ToUncompressed_ok (P : G1) (s : List UInt8) (h : Api.g1ToSlice P = .ok s) :
    Api.g1ToUncompressed P = .ok ((4 : UInt8) :: s) := by
  unfold Api.g1ToUncompressed; rw [h]; rfl
theorem Api.g1ToUncompressed_panic (P : G1) (h : Api.g1ToSlice P = .panic) :
    Api.g1ToUncompressed P = .panic := by
  unfold Api.g1ToUncompressed; rw [h]; rfl

theorem g1_from_uncompressed_reencode (bs : List UInt8) (P : G1) (h : Api.g1FromUncompressed bs = .ok P) :
    Api.g1ToUncompressed P = .ok bs := by
  obtain ⟨tl, rfl, h'⟩ := (g1_from_uncompressed_iff bs P).1 h
  exact Api.g1ToUncompressed_ok P tl (g1_from_slice_reencode tl P h')

theorem g1_from_uncompressed_total (bs : List UInt8) :
    (∃ P, Api.g1FromUncompressed bs = .ok P) ∨ (∃ e, Api.g1FromUncompressed bs = .error e) := by
  cases h : Api.g1FromUncompressed bs with
  | ok P => exact Or.inl ⟨P, rfl⟩
  | error e => exact Or.inr ⟨e, rfl⟩

theorem g1_uncompressed_roundtrip (P : G1) (hP : G1.Valid P) (hz : P.z ≠ 0) :
    ∃ bs P', Api.g1ToUncompressed P = .ok bs ∧ Api.g1FromUncompressed bs = .ok P' ∧ P'.eq P = true := by
  obtain ⟨bs, P', h1, h2, h3⟩ := g1_slice_roundtrip P hP hz
  exact ⟨4 :: bs, P', Api.g1ToUncompressed_ok P bs h1, (g1_from_uncompressed_iff _ _).2 ⟨bs, rfl, h2⟩, h3⟩

theorem g1_to_uncompressed_congr (P Q : G1) (hP : G1.Valid P) (hQ : G1.Valid Q) (h : G1.toAff P = G1.toAff Q) :
    Api.g1ToUncompressed P = Api.g1ToUncompressed Q := by
  unfold Api.g1ToUncompressed
  rw [g1_to_slice_congr P Q hP hQ h]

/-! ## G1, compressed format -/

theorem Fq.val_ne_zero {y : Fq} (hy : y ≠ 0) : y.val ≠ 0 := by
  intro h
  apply hy
  apply Fin.ext
  rw [Fq.zero_val]; exact h

theorem Fq.neg_val (y : Fq) (hy : y ≠ 0) : (-y).val = q - y.val := by
  have h0 := Fq.val_ne_zero hy
  have hlt : y.val < q := y.isLt
  show (q - y.val) % q = q - y.val
  exact Nat.mod_eq_of_lt (by omega)

theorem q_odd : q % 2 = 1 := by decide +kernel

theorem Fq.is_even_neg (y : Fq) (hy : y ≠ 0) : (-y).is_even = !y.is_even := by
  unfold Fq.is_even
  rw [Fq.neg_val y hy]
  have h0 := Fq.val_ne_zero hy
  have hlt : y.val < q := y.isLt
  have hq := q_odd
  generalize q = Q at *
  generalize y.val = v at *
  by_cases hv : v % 2 = 0
  · have : (Q - v) % 2 = 1 := by omega
    simp [hv, this]
  · have : (Q - v) % 2 = 0 := by omega
    simp [hv, this]

theorem Api.g1FromCompressed_cons (b : UInt8) (tl : List UInt8) :
    Api.g1FromCompressed (b :: tl) =
      if tl.length ≠ 32 then .error .InvalidEncoding else
      if b.toNat ≠ 2 ∧ b.toNat ≠ 3 then .error .InvalidEncoding else
      match Api.fqFromSliceStrict tl with
      | none => .error .InvalidEncoding
      | some x =>
        match (x * x * x + b1).sqrt with
        | none => .error .NotMember
        | some s => Api.liftNew x (if ((b.toNat % 2 == 0) != s.is_even) then -s else s) := by
  unfold Api.g1FromCompressed
  simp only [List.length_cons, List.headD_cons, List.drop_one, List.tail_cons]
  by_cases hl : tl.length = 32
  · simp only [hl]
    rfl
  · have : ¬ (tl.length + 1 = 33) := by omega
    simp [hl, this]

/-- generic: two square roots of the same element differ by sign -/
theorem sq_eq_cases {F : Type} [Field F] (s y : F) (h : s * s = y * y) : s = y ∨ s = -y := by
  have : (s - y) * (s + y) = 0 := by linear_combination h
  rcases mul_eq_zero.1 this with h1 | h1
  · left; linear_combination h1
  · right; linear_combination h1

theorem G1.y_ne_zero_of_equation (x y : Fq) (h : y * y = x * x * x + b1) : y ≠ 0 := by
  intro hy
  apply Fq.no_two_torsion x
  rw [hy] at h
  calc x ^ 3 + b1 = x * x * x + b1 := by ring
    _ = 0 * 0 := h.symm
    _ = 0 := by ring

/-- the sign selection of the decompressor picks exactly the root with the announced parity -/
theorem g1_decompress_select (x y : Fq) (h : y * y = x * x * x + b1) :
    ∃ s, (x * x * x + b1).sqrt = some s ∧ (if (y.is_even != s.is_even) then -s else s) = y := by
  have hsome := Fq.sqrt_complete (x * x * x + b1) ⟨y, h⟩
  obtain ⟨s, hs⟩ := Option.isSome_iff_exists.1 hsome
  refine ⟨s, hs, ?_⟩
  have hss := Fq.sqrt_sound _ _ hs
  have hy0 := G1.y_ne_zero_of_equation x y h
  rcases sq_eq_cases s y (hss.trans h.symm) with e | e
  · subst e; simp
  · subst e
    rw [Fq.is_even_neg y hy0]
    have : (y.is_even != !y.is_even) = true := by cases y.is_even <;> rfl
    rw [this, if_pos rfl, _root_.neg_neg]

theorem UInt8.two_toNat : (2 : UInt8).toNat = 2 := rfl
theorem UInt8.three_toNat : (3 : UInt8).toNat = 3 := rfl

/-- the compression byte -/
def compByte (even : Bool) : UInt8 := if even then 2 else 3

theorem compByte_parity (e : Bool) : ((compByte e).toNat % 2 == 0) = e := by
  cases e <;> rfl
theorem compByte_valid (e : Bool) : ¬ ((compByte e).toNat ≠ 2 ∧ (compByte e).toNat ≠ 3) := by
  cases e <;> decide
theorem compByte_of_toNat (b : UInt8) (h : b.toNat = 2 ∨ b.toNat = 3) : b = compByte (b.toNat % 2 == 0) := by
  apply UInt8.toNat_inj.1
  rcases h with h | h <;> rw [h] <;> rfl

/-- decoding the compressed encoding of an affine curve point returns exactly that point -/
theorem g1_from_compressed_encode (x y : Fq) (h : y * y = x * x * x + b1) :
    Api.g1FromCompressed (compByte y.is_even :: Api.fqToSlice x) = .ok { x := x, y := y, z := 1 } := by
  rw [Api.g1FromCompressed_cons, if_neg (by simp [Api.fqToSlice_length]), if_neg (compByte_valid _),
    Api.fqFromSliceStrict_toSlice]
  obtain ⟨s, hs, hsel⟩ := g1_decompress_select x y h
  simp only [hs, compByte_parity, hsel]
  exact (Api.liftNew_g1_iff x y _).2 ⟨h, rfl⟩

theorem Api.g1ToCompressed_of_z_one (x y : Fq) :
    Api.g1ToCompressed { x := x, y := y, z := 1 } = .ok (compByte y.is_even :: Api.fqToSlice x) := by
  unfold Api.g1ToCompressed
  rw [G1.to_affine_of_z_one]
  rfl

/-- **exact characterisation of `G1::from_compressed`**: the accepted inputs are exactly the
    compressed encodings of affine curve points, and the result is that point -/
theorem g1_from_compressed_iff (bs : List UInt8) (P : G1) :
    Api.g1FromCompressed bs = .ok P ↔
      ∃ x y : Fq, y * y = x * x * x + b1 ∧ bs = compByte y.is_even :: Api.fqToSlice x ∧
        P = { x := x, y := y, z := 1 } := by
  constructor
  · intro h
    match bs, h with
    | [], h => exact absurd h (by simp [Api.g1FromCompressed])
    | b :: tl, h =>
      rw [Api.g1FromCompressed_cons] at h
      by_cases hl : tl.length ≠ 32
      · rw [if_pos hl] at h; cases h
      rw [if_neg hl] at h
      by_cases hsign0 : b.toNat ≠ 2 ∧ b.toNat ≠ 3
      · rw [if_pos hsign0] at h; cases h
      rw [if_neg hsign0] at h
      have hsign : b.toNat = 2 ∨ b.toNat = 3 := by omega
      split at h
      · cases h
      · next x hx =>
        split at h
        · cases h
        · next s hs =>
          obtain ⟨he, hP⟩ := (Api.liftNew_g1_iff _ _ _).1 h
          refine ⟨x, _, he, ?_, hP⟩
          have hss := Fq.sqrt_sound _ _ hs
          have hs0 : s ≠ 0 := G1.y_ne_zero_of_equation x s hss
          have hpar : (if ((b.toNat % 2 == 0) != s.is_even) = true then -s else s).is_even = (b.toNat % 2 == 0) := by
            by_cases hc : ((b.toNat % 2 == 0) != s.is_even) = true
            · rw [if_pos hc, Fq.is_even_neg s hs0]
              revert hc; cases (b.toNat % 2 == 0) <;> cases s.is_even <;> simp
            · rw [if_neg hc]
              revert hc; cases (b.toNat % 2 == 0) <;> cases s.is_even <;> simp
          rw [hpar, ← compByte_of_toNat b hsign, Api.fqToSlice_of_fromSliceStrict hx]
  · rintro ⟨x, y, he, rfl, rfl⟩
    exact g1_from_compressed_encode x y he

theorem g1_from_compressed_reencode (bs : List UInt8) (P : G1) (h : Api.g1FromCompressed bs = .ok P) :
    Api.g1ToCompressed P = .ok bs := by
  obtain ⟨x, y, _, rfl, rfl⟩ := (g1_from_compressed_iff bs P).1 h
  exact Api.g1ToCompressed_of_z_one x y

/-- **compressed round trip for every valid non-identity value, in any representation** -/
theorem g1_compressed_roundtrip (P : G1) (hP : G1.Valid P) (hz : P.z ≠ 0) :
    ∃ bs P', Api.g1ToCompressed P = .ok bs ∧ Api.g1FromCompressed bs = .ok P' ∧ P'.eq P = true := by
  have ha : P.to_affine = some ⟨P.x / P.z ^ 2, P.y / P.z ^ 3⟩ := by
    rw [G1.to_affine_spec, if_neg hz]
  refine ⟨compByte (P.y / P.z ^ 3).is_even :: Api.fqToSlice (P.x / P.z ^ 2),
    { x := P.x / P.z ^ 2, y := P.y / P.z ^ 3, z := 1 }, ?_, ?_, ?_⟩
  · unfold Api.g1ToCompressed; rw [ha]; rfl
  · exact g1_from_compressed_encode _ _ (G1.affine_equation P hP hz)
  · obtain ⟨hv, ht⟩ := G1.toAff_affine P hP hz
    exact (G1.eq_iff _ _ hv hP).2 ht

theorem g1_to_compressed_congr (P Q : G1) (hP : G1.Valid P) (hQ : G1.Valid Q) (h : G1.toAff P = G1.toAff Q) :
    Api.g1ToCompressed P = Api.g1ToCompressed Q := by
  unfold Api.g1ToCompressed
  rw [G1.to_affine_congr P Q hP hQ h]

/-! ## validated construction, G2 -/

theorem AffineG.new_ok_eq {F} [FieldElement F] [GroupParams F] (x y : F) (a : AffineG F)
    (h : AffineG.new x y = .ok a) : a = ⟨x, y⟩ := by
  unfold AffineG.new at h
  split at h
  · split at h
    · dsimp only at h
      split at h
      · cases h
      · exact (Except.ok.inj h).symm
    · exact (Except.ok.inj h).symm
  · cases h

theorem Api.liftNew_ok_iff {F} [FieldElement F] [GroupParams F] (x y : F) (P : G F) :
    Api.liftNew x y = .ok P ↔ (AffineG.new x y).toBool = true ∧ P = { x := x, y := y, z := 1 } := by
  unfold Api.liftNew
  cases hn : AffineG.new x y with
  | ok a =>
    have := AffineG.new_ok_eq x y a hn
    subst this
    simp only [Except.toBool, true_and]
    constructor
    · intro e; exact (Except.ok.inj e).symm
    · rintro rfl; rfl
  | error e =>
    simp only [Except.toBool]
    constructor
    · intro e; cases e
    · rintro ⟨e, _⟩; cases e

/-- `liftNew` on G2: twist equation and subgroup membership, result in normal form -/
theorem Api.liftNew_g2_iff (x y : Fq2) (P : G2) :
    (Api.liftNew x y : Except CurveError G2) = .ok P ↔
      y * y = x * x * x + b2 ∧ r • G2.toAff { x := x, y := y, z := 1 } = 0 ∧
        P = { x := x, y := y, z := 1 } := by
  rw [Api.liftNew_ok_iff, C09.affine_g2_new_iff]
  constructor
  · rintro ⟨⟨h1, h2⟩, h3⟩; exact ⟨h1, h2, h3⟩
  · rintro ⟨h1, h2, h3⟩; exact ⟨⟨h1, h2⟩, h3⟩

/-! ## G2, raw 128-byte format -/

/-- **`G2::from_slice` accepts exactly the 128-byte strings x ‖ y (each `Fq2::from_slice`-decodable,
    i.e. four canonical 32-byte coordinates, imaginary parts first) on the twist and in the
    order-r subgroup** -/
theorem g2_from_slice_iff (bs : List UInt8) (P : G2) :
    Api.g2FromSlice bs = .ok P ↔
      bs.length = 128 ∧ ∃ x y : Fq2, Api.fq2FromSlice (bs.take 64) = some x ∧
        Api.fq2FromSlice (bs.drop 64) = some y ∧
        y * y = x * x * x + b2 ∧ r • G2.toAff { x := x, y := y, z := 1 } = 0 ∧
        P = { x := x, y := y, z := 1 } := by
  unfold Api.g2FromSlice
  by_cases hl : bs.length = 128
  · rw [if_neg (by simpa using hl)]
    constructor
    · intro h
      split at h
      · next x y hx hy =>
        obtain ⟨he, hs, hP⟩ := (Api.liftNew_g2_iff x y P).1 h
        exact ⟨hl, x, y, hx, hy, he, hs, hP⟩
      · cases h
    · rintro ⟨_, x, y, hx, hy, he, hs, hP⟩
      rw [hx, hy]
      exact (Api.liftNew_g2_iff x y P).2 ⟨he, hs, hP⟩
  · rw [if_pos (by simpa using hl)]
    constructor
    · intro h; cases h
    · rintro ⟨h, _⟩; exact absurd h hl

/-- the same, with the accepted strings written as encodings -/
theorem g2_from_slice_iff_encoding (bs : List UInt8) (P : G2) :
    Api.g2FromSlice bs = .ok P ↔
      ∃ x y : Fq2, y * y = x * x * x + b2 ∧ r • G2.toAff { x := x, y := y, z := 1 } = 0 ∧
        bs = Api.fq2ToSlice x ++ Api.fq2ToSlice y ∧ P = { x := x, y := y, z := 1 } := by
  rw [g2_from_slice_iff]
  constructor
  · rintro ⟨hl, x, y, hx, hy, he, hs, hP⟩
    refine ⟨x, y, he, hs, ?_, hP⟩
    rw [Api.fq2ToSlice_of_fromSlice hx, Api.fq2ToSlice_of_fromSlice hy, List.take_append_drop]
  · rintro ⟨x, y, he, hs, rfl, hP⟩
    refine ⟨by rw [List.length_append, Api.fq2ToSlice_length, Api.fq2ToSlice_length], x, y, ?_, ?_, he, hs, hP⟩
    · rw [take_append_of_length (Api.fq2ToSlice_length x), Api.fq2FromSlice_toSlice]
    · rw [drop_append_of_length (Api.fq2ToSlice_length x), Api.fq2FromSlice_toSlice]

theorem g2_from_slice_total (bs : List UInt8) :
    (∃ P, Api.g2FromSlice bs = .ok P) ∨ (∃ e, Api.g2FromSlice bs = .error e) := by
  cases h : Api.g2FromSlice bs with
  | ok P => exact Or.inl ⟨P, rfl⟩
  | error e => exact Or.inr ⟨e, rfl⟩

theorem Fq2.one_ne_zero_fq2 : (1 : Fq2) ≠ 0 := by
  intro h
  have : (1 : Fq2).c0 = (0 : Fq2).c0 := by rw [h]
  exact Fq.one_ne_zero_fq this

theorem G2.to_affine_of_z_one (x y : Fq2) : ({ x := x, y := y, z := 1 } : G2).to_affine = some ⟨x, y⟩ := by
  rw [G2.to_affine_spec]
  rw [if_neg Fq2.one_ne_zero_fq2]
  simp only [one_pow, div_one]

theorem Api.g2ToSlice_of_z_one (x y : Fq2) :
    Api.g2ToSlice { x := x, y := y, z := 1 } = .ok (Api.fq2ToSlice x ++ Api.fq2ToSlice y) := by
  unfold Api.g2ToSlice
  rw [G2.to_affine_of_z_one]

theorem g2_from_slice_reencode (bs : List UInt8) (P : G2) (h : Api.g2FromSlice bs = .ok P) :
    Api.g2ToSlice P = .ok bs := by
  obtain ⟨x, y, _, _, rfl, rfl⟩ := (g2_from_slice_iff_encoding bs P).1 h
  exact Api.g2ToSlice_of_z_one x y

theorem g2_from_slice_encode (x y : Fq2) (h : y * y = x * x * x + b2)
    (hs : r • G2.toAff { x := x, y := y, z := 1 } = 0) :
    Api.g2FromSlice (Api.fq2ToSlice x ++ Api.fq2ToSlice y) = .ok { x := x, y := y, z := 1 } :=
  (g2_from_slice_iff_encoding _ _).2 ⟨x, y, h, hs, rfl, rfl⟩

theorem G2.affine_equation (P : G2) (hP : G2.Valid P) (hz : P.z ≠ 0) :
    (P.y / P.z ^ 3) * (P.y / P.z ^ 3) =
      (P.x / P.z ^ 2) * (P.x / P.z ^ 2) * (P.x / P.z ^ 2) + b2 := by
  have hn := hP.resolve_left hz
  rw [Jac.nonsingular_iff] at hn
  have := hn.1
  calc (P.y / P.z ^ 3) * (P.y / P.z ^ 3) = (P.y / P.z ^ 3) ^ 2 := by ring
    _ = (P.x / P.z ^ 2) ^ 3 + b2 := this
    _ = _ := by ring

theorem G2.toAff_affine (P : G2) (hP : G2.Valid P) (hz : P.z ≠ 0) :
    G2.Valid { x := P.x / P.z ^ 2, y := P.y / P.z ^ 3, z := 1 } ∧
    G2.toAff { x := P.x / P.z ^ 2, y := P.y / P.z ^ 3, z := 1 } = G2.toAff P := by
  have hn := G2.normalize_spec P hP
  have ha : P.to_affine = some ⟨P.x / P.z ^ 2, P.y / P.z ^ 3⟩ := by
    rw [G2.to_affine_spec, if_neg hz]
  have : Api.normalize P = { x := P.x / P.z ^ 2, y := P.y / P.z ^ 3, z := 1 } := by
    unfold Api.normalize
    rw [ha]
    rfl
  rw [this] at hn
  exact ⟨hn.2.2.2, hn.1⟩

/-- **raw-format round trip for every valid non-identity value of the order-r subgroup** -/
theorem g2_slice_roundtrip (P : G2) (hP : G2.Valid P) (hz : P.z ≠ 0) (hsub : r • G2.toAff P = 0) :
    ∃ bs P', Api.g2ToSlice P = .ok bs ∧ Api.g2FromSlice bs = .ok P' ∧ P'.eq P = true := by
  have ha : P.to_affine = some ⟨P.x / P.z ^ 2, P.y / P.z ^ 3⟩ := by
    rw [G2.to_affine_spec, if_neg hz]
  obtain ⟨hv, ht⟩ := G2.toAff_affine P hP hz
  refine ⟨Api.fq2ToSlice (P.x / P.z ^ 2) ++ Api.fq2ToSlice (P.y / P.z ^ 3),
    { x := P.x / P.z ^ 2, y := P.y / P.z ^ 3, z := 1 }, ?_, ?_, ?_⟩
  · unfold Api.g2ToSlice; rw [ha]
  · exact g2_from_slice_encode _ _ (G2.affine_equation P hP hz) (by rw [ht]; exact hsub)
  · exact (G2.eq_iff _ _ hv hP).2 ht

/-- a value outside the subgroup is encodable but its encoding is rejected: the subgroup
    hypothesis of `g2_slice_roundtrip` is necessary -/
theorem g2_slice_off_subgroup (P : G2) (hP : G2.Valid P) (hz : P.z ≠ 0) (hsub : r • G2.toAff P ≠ 0) :
    ∃ bs, Api.g2ToSlice P = .ok bs ∧ ∀ P', Api.g2FromSlice bs ≠ .ok P' := by
  have ha : P.to_affine = some ⟨P.x / P.z ^ 2, P.y / P.z ^ 3⟩ := by
    rw [G2.to_affine_spec, if_neg hz]
  obtain ⟨hv, ht⟩ := G2.toAff_affine P hP hz
  refine ⟨Api.fq2ToSlice (P.x / P.z ^ 2) ++ Api.fq2ToSlice (P.y / P.z ^ 3), ?_, ?_⟩
  · unfold Api.g2ToSlice; rw [ha]
  · intro P' h
    obtain ⟨x, y, _, hs, hbs, _⟩ := (g2_from_slice_iff_encoding _ _).1 h
    have hlen : (Api.fq2ToSlice (P.x / P.z ^ 2)).length = (Api.fq2ToSlice x).length := by
      rw [Api.fq2ToSlice_length, Api.fq2ToSlice_length]
    obtain ⟨e1, e2⟩ := List.append_inj hbs hlen
    rw [← Api.fq2ToSlice_inj e1, ← Api.fq2ToSlice_inj e2, ht] at hs
    exact hsub hs

theorem g2_to_slice_identity_panics (P : G2) (hz : P.z = 0) : Api.g2ToSlice P = .panic := by
  unfold Api.g2ToSlice
  rw [G2.to_affine_spec, if_pos hz]

theorem g2_to_slice_congr (P Q : G2) (hP : G2.Valid P) (hQ : G2.Valid Q) (h : G2.toAff P = G2.toAff Q) :
    Api.g2ToSlice P = Api.g2ToSlice Q := by
  unfold Api.g2ToSlice
  rw [G2.to_affine_congr P Q hP hQ h]


/-- `g1_from_slice_iff` with the accepted strings written as encodings -/
theorem g1_from_slice_iff_encoding (bs : List UInt8) (P : G1) :
    Api.g1FromSlice bs = .ok P ↔
      ∃ x y : Fq, y * y = x * x * x + b1 ∧ bs = Api.fqToSlice x ++ Api.fqToSlice y ∧
        P = { x := x, y := y, z := 1 } := by
  constructor
  · intro h
    have hr := g1_from_slice_reencode bs P h
    obtain ⟨_, x, y, _, _, _, _, he, rfl⟩ := (g1_from_slice_iff bs P).1 h
    rw [Api.g1ToSlice_of_z_one] at hr
    exact ⟨x, y, he, (Outcome.ok.inj hr).symm, rfl⟩
  · rintro ⟨x, y, he, rfl, rfl⟩
    exact g1_from_slice_encode x y he

/-! ## G2, 0x04-prefixed uncompressed format -/

theorem g2_from_uncompressed_iff (bs : List UInt8) (P : G2) :
    Api.g2FromUncompressed bs = .ok P ↔ ∃ tl, bs = (4 : UInt8) :: tl ∧ Api.g2FromSlice tl = .ok P := by
  unfold Api.g2FromUncompressed
  constructor
  · intro h
    split at h
    · cases h
    · next hc =>
      have hc' : bs.length = 129 ∧ bs.head? = some 4 := by simpa using hc
      match bs, hc', h with
      | b :: tl, hc', h =>
        have hb : b = 4 := by simpa using hc'.2
        subst hb
        exact ⟨tl, rfl, by simpa using h⟩
  · rintro ⟨tl, rfl, h⟩
    have hl := ((g2_from_slice_iff tl P).1 h).1
    rw [if_neg (by simp [hl])]
    simpa using h

theorem Api.g2ToUncompressed_ok (P : G2) (s : List UInt8) (h : Api.g2ToSlice P = .ok s) :
    Api.g2ToUncompressed P = .ok ((4 : UInt8) :: s) := by
  unfold Api.g2ToUncompressed; rw [h]; rfl
theorem Api.g2ToUncompressed_panic (P : G2) (h : Api.g2ToSlice P = .panic) :
    Api.g2ToUncompressed P = .panic := by
  unfold Api.g2ToUncompressed; rw [h]; rfl

theorem g2_from_uncompressed_reencode (bs : List UInt8) (P : G2) (h : Api.g2FromUncompressed bs = .ok P) :
    Api.g2ToUncompressed P = .ok bs := by
  obtain ⟨tl, rfl, h'⟩ := (g2_from_uncompressed_iff bs P).1 h
  exact Api.g2ToUncompressed_ok P tl (g2_from_slice_reencode tl P h')

theorem g2_from_uncompressed_total (bs : List UInt8) :
    (∃ P, Api.g2FromUncompressed bs = .ok P) ∨ (∃ e, Api.g2FromUncompressed bs = .error e) := by
  cases h : Api.g2FromUncompressed bs with
  | ok P => exact Or.inl ⟨P, rfl⟩
  | error e => exact Or.inr ⟨e, rfl⟩

theorem g2_uncompressed_roundtrip (P : G2) (hP : G2.Valid P) (hz : P.z ≠ 0) (hsub : r • G2.toAff P = 0) :
    ∃ bs P', Api.g2ToUncompressed P = .ok bs ∧ Api.g2FromUncompressed bs = .ok P' ∧ P'.eq P = true := by
  obtain ⟨bs, P', h1, h2, h3⟩ := g2_slice_roundtrip P hP hz hsub
  exact ⟨4 :: bs, P', Api.g2ToUncompressed_ok P bs h1, (g2_from_uncompressed_iff _ _).2 ⟨bs, rfl, h2⟩, h3⟩

theorem g2_to_uncompressed_congr (P Q : G2) (hP : G2.Valid P) (hQ : G2.Valid Q) (h : G2.toAff P = G2.toAff Q) :
    Api.g2ToUncompressed P = Api.g2ToUncompressed Q := by
  unfold Api.g2ToUncompressed
  rw [g2_to_slice_congr P Q hP hQ h]

/-! ## G2, compressed format -/

theorem Api.g2FromCompressed_cons (b : UInt8) (tl : List UInt8) :
    Api.g2FromCompressed (b :: tl) =
      if tl.length ≠ 64 then .error .InvalidEncoding else
      if b.toNat ≠ 2 ∧ b.toNat ≠ 3 then .error .InvalidEncoding else
      match Api.fq2FromSlice tl with
      | none => .error .InvalidEncoding
      | some x =>
        match (x * x * x + b2).sqrt with
        | none => .error .NotMember
        | some s => Api.liftNew x (if ((b.toNat % 2 == 0) != Api.fq2IsEven s) then -s else s) := by
  unfold Api.g2FromCompressed
  simp only [List.length_cons, List.headD_cons, List.drop_one, List.tail_cons]
  by_cases hl : tl.length = 64
  · simp only [hl]
    rfl
  · have : ¬ (tl.length + 1 = 65) := by omega
    simp [hl, this]

theorem Api.fq2IsEven_neg (y : Fq2) (hre : y.c0 ≠ 0) : Api.fq2IsEven (-y) = !Api.fq2IsEven y := by
  unfold Api.fq2IsEven
  rw [Fq2.neg_c0]
  exact Fq.is_even_neg y.c0 hre

/-- if Re y = 0 both roots ±y have the same ("even") sign bit -/
theorem Api.fq2IsEven_of_re_zero (y : Fq2) (hre : y.c0 = 0) : Api.fq2IsEven y = true := by
  unfold Api.fq2IsEven
  rw [hre]
  decide +kernel

theorem g2_decompress_select (x y : Fq2) (h : y * y = x * x * x + b2) (hre : y.c0 ≠ 0) :
    ∃ s, (x * x * x + b2).sqrt = some s ∧ (if (Api.fq2IsEven y != Api.fq2IsEven s) then -s else s) = y := by
  have hsome := Fq2.sqrt_complete (x * x * x + b2) ⟨y, h⟩
  obtain ⟨s, hs⟩ := Option.isSome_iff_exists.1 hsome
  refine ⟨s, hs, ?_⟩
  have hss := Fq2.sqrt_sound _ _ hs
  rcases sq_eq_cases s y (hss.trans h.symm) with e | e
  · subst e; simp
  · subst e
    rw [Api.fq2IsEven_neg y hre]
    have : (Api.fq2IsEven y != !Api.fq2IsEven y) = true := by cases Api.fq2IsEven y <;> rfl
    rw [this, if_pos rfl, _root_.neg_neg]

theorem g2_from_compressed_encode_partial (x y : Fq2) (h : y * y = x * x * x + b2)
    (hs : r • G2.toAff { x := x, y := y, z := 1 } = 0) (hre : y.c0 ≠ 0) :
    Api.g2FromCompressed (compByte (Api.fq2IsEven y) :: Api.fq2ToSlice x) = .ok { x := x, y := y, z := 1 } := by
  rw [Api.g2FromCompressed_cons, if_neg (by simp [Api.fq2ToSlice_length]), if_neg (compByte_valid _),
    Api.fq2FromSlice_toSlice]
  obtain ⟨s, hsq, hsel⟩ := g2_decompress_select x y h hre
  simp only [hsq, compByte_parity, hsel]
  exact (Api.liftNew_g2_iff x y _).2 ⟨h, hs, rfl⟩

theorem Api.g2ToCompressed_of_z_one (x y : Fq2) :
    Api.g2ToCompressed { x := x, y := y, z := 1 } = .ok (compByte (Api.fq2IsEven y) :: Api.fq2ToSlice x) := by
  unfold Api.g2ToCompressed
  rw [G2.to_affine_of_z_one]
  rfl

/-- Everything `G2::from_compressed` accepts is a subgroup point of the twist in normal form
    whose x-coordinate is the encoded one (full strength, no side condition). -/
theorem g2_from_compressed_sound (bs : List UInt8) (P : G2) (h : Api.g2FromCompressed bs = .ok P) :
    ∃ (b : UInt8) (x y : Fq2), (b.toNat = 2 ∨ b.toNat = 3) ∧ bs = b :: Api.fq2ToSlice x ∧
      y * y = x * x * x + b2 ∧ r • G2.toAff { x := x, y := y, z := 1 } = 0 ∧
      P = { x := x, y := y, z := 1 } ∧
      (y.c0 ≠ 0 → b = compByte (Api.fq2IsEven y)) := by
  match bs, h with
  | [], h => exact absurd h (by simp [Api.g2FromCompressed])
  | b :: tl, h =>
    rw [Api.g2FromCompressed_cons] at h
    by_cases hl : tl.length ≠ 64
    · rw [if_pos hl] at h; cases h
    rw [if_neg hl] at h
    by_cases hsign0 : b.toNat ≠ 2 ∧ b.toNat ≠ 3
    · rw [if_pos hsign0] at h; cases h
    rw [if_neg hsign0] at h
    have hsign : b.toNat = 2 ∨ b.toNat = 3 := by omega
    split at h
    · cases h
    · next x hx =>
      split at h
      · cases h
      · next s hsq =>
        obtain ⟨he, hsub, hP⟩ := (Api.liftNew_g2_iff _ _ _).1 h
        refine ⟨b, x, _, hsign, by rw [Api.fq2ToSlice_of_fromSlice hx], he, hsub, hP, ?_⟩
        intro hre
        have hpar : Api.fq2IsEven (if ((b.toNat % 2 == 0) != Api.fq2IsEven s) = true then -s else s)
            = (b.toNat % 2 == 0) := by
          by_cases hc : ((b.toNat % 2 == 0) != Api.fq2IsEven s) = true
          · rw [if_pos hc] at hre ⊢
            have hs0 : s.c0 ≠ 0 := by
              intro e; apply hre; rw [Fq2.neg_c0, e]; exact neg_zero
            rw [Api.fq2IsEven_neg s hs0]
            revert hc; cases (b.toNat % 2 == 0) <;> cases Api.fq2IsEven s <;> simp
          · rw [if_neg hc]
            revert hc; cases (b.toNat % 2 == 0) <;> cases Api.fq2IsEven s <;> simp
        rw [hpar]
        exact compByte_of_toNat b hsign

/-- Re-encoding of an accepted compressed input, **partial**: proved for accepted points with
    Re y ≠ 0.  Missing piece: a proof that no point of the order-r subgroup of the twist has
    Re y = 0.  (If such a point (x, y) exists, both `02 ‖ x` and `03 ‖ x` are accepted — giving
    (x, s) and (x, −s) for the root s returned by `Fq2::sqrt` — and both points re-encode to
    `02 ‖ x`.) -/
theorem g2_from_compressed_reencode_partial (bs : List UInt8) (P : G2)
    (h : Api.g2FromCompressed bs = .ok P) (hre : P.y.c0 ≠ 0) :
    Api.g2ToCompressed P = .ok bs := by
  obtain ⟨b, x, y, _, rfl, _, _, rfl, hb⟩ := g2_from_compressed_sound bs P h
  rw [Api.g2ToCompressed_of_z_one, ← hb hre]

/-- Compressed round trip for G2, **partial**: for every valid non-identity value of the
    order-r subgroup *whose affine y-coordinate has non-zero real part*.  Missing piece: a proof
    that no point of the order-r subgroup of the twist has Re y = 0 (for such a point both roots
    ±y carry the same sign bit, and the decoder returns whichever root `Fq2::sqrt` produces). -/
theorem g2_compressed_roundtrip_partial (P : G2) (hP : G2.Valid P) (hz : P.z ≠ 0)
    (hsub : r • G2.toAff P = 0) (hre : (P.y / P.z ^ 3).c0 ≠ 0) :
    ∃ bs P', Api.g2ToCompressed P = .ok bs ∧ Api.g2FromCompressed bs = .ok P' ∧ P'.eq P = true := by
  have ha : P.to_affine = some ⟨P.x / P.z ^ 2, P.y / P.z ^ 3⟩ := by
    rw [G2.to_affine_spec, if_neg hz]
  obtain ⟨hv, ht⟩ := G2.toAff_affine P hP hz
  refine ⟨compByte (Api.fq2IsEven (P.y / P.z ^ 3)) :: Api.fq2ToSlice (P.x / P.z ^ 2),
    { x := P.x / P.z ^ 2, y := P.y / P.z ^ 3, z := 1 }, ?_, ?_, ?_⟩
  · unfold Api.g2ToCompressed; rw [ha]; rfl
  · exact g2_from_compressed_encode_partial _ _ (G2.affine_equation P hP hz) (by rw [ht]; exact hsub) hre
  · exact (G2.eq_iff _ _ hv hP).2 ht

theorem g2_to_compressed_congr (P Q : G2) (hP : G2.Valid P) (hQ : G2.Valid Q) (h : G2.toAff P = G2.toAff Q) :
    Api.g2ToCompressed P = Api.g2ToCompressed Q := by
  unfold Api.g2ToCompressed
  rw [G2.to_affine_congr P Q hP hQ h]


theorem G2.neg_of_z_one (x y : Fq2) : ({ x := x, y := y, z := 1 } : G2).neg = { x := x, y := -y, z := 1 } := by
  unfold G.neg
  have : G.is_zero ({ x := x, y := y, z := 1 } : G2) = false := by
    cases hh : G.is_zero ({ x := x, y := y, z := 1 } : G2)
    · rfl
    · exact absurd ((G2.is_zero_iff _).1 hh) Fq2.one_ne_zero_fq2
  rw [this]
  rfl

/-- the subgroup is closed under negation (affine form) -/
theorem G2.subgroup_neg (x y : Fq2) (h : y * y = x * x * x + b2)
    (hs : r • G2.toAff { x := x, y := y, z := 1 } = 0) :
    G2.toAff { x := x, y := -y, z := 1 } = -G2.toAff { x := x, y := y, z := 1 } ∧
    r • G2.toAff { x := x, y := -y, z := 1 } = 0 := by
  have hv := G2.valid_of_equation x y h
  have hn := G2.neg_correct _ hv
  rw [G2.neg_of_z_one] at hn
  refine ⟨hn, ?_⟩
  rw [hn, smul_neg, hs, neg_zero]

/-- without the side condition the decoder returns the encoded point or its negative -/
theorem g2_from_compressed_encode_up_to_sign (x y : Fq2) (h : y * y = x * x * x + b2)
    (hs : r • G2.toAff { x := x, y := y, z := 1 } = 0) :
    ∃ y2, (y2 = y ∨ y2 = -y) ∧
      Api.g2FromCompressed (compByte (Api.fq2IsEven y) :: Api.fq2ToSlice x) = .ok { x := x, y := y2, z := 1 } := by
  by_cases hre : y.c0 = 0
  · have hsome := Fq2.sqrt_complete (x * x * x + b2) ⟨y, h⟩
    obtain ⟨s, hsq⟩ := Option.isSome_iff_exists.1 hsome
    have hss := Fq2.sqrt_sound _ _ hsq
    have hcases := sq_eq_cases s y (hss.trans h.symm)
    have hs0 : s.c0 = 0 := by
      rcases hcases with e | e
      · rw [e]; exact hre
      · rw [e, Fq2.neg_c0, hre]; exact neg_zero
    refine ⟨s, hcases, ?_⟩
    rw [Api.g2FromCompressed_cons, if_neg (by simp [Api.fq2ToSlice_length]), if_neg (compByte_valid _),
      Api.fq2FromSlice_toSlice]
    simp only [hsq, compByte_parity, Api.fq2IsEven_of_re_zero y hre, Api.fq2IsEven_of_re_zero s hs0]
    refine (Api.liftNew_g2_iff x s _).2 ⟨hss, ?_, rfl⟩
    rcases hcases with e | e
    · rw [e]; exact hs
    · rw [e]; exact (G2.subgroup_neg x y h hs).2
  · exact ⟨y, Or.inl rfl, g2_from_compressed_encode_partial x y h hs hre⟩

/-- **compressed round trip for G2 up to sign, no side condition**: every valid non-identity value
    of the order-r subgroup is encodable, its encoding is accepted, and the decoded point is the
    original or its negative (exactly the original when Re y ≠ 0, `g2_compressed_roundtrip_partial`). -/
theorem g2_compressed_roundtrip_up_to_sign (P : G2) (hP : G2.Valid P) (hz : P.z ≠ 0)
    (hsub : r • G2.toAff P = 0) :
    ∃ bs P', Api.g2ToCompressed P = .ok bs ∧ Api.g2FromCompressed bs = .ok P' ∧
      (P'.eq P = true ∨ P'.eq P.neg = true) := by
  have ha : P.to_affine = some ⟨P.x / P.z ^ 2, P.y / P.z ^ 3⟩ := by
    rw [G2.to_affine_spec, if_neg hz]
  obtain ⟨hv, ht⟩ := G2.toAff_affine P hP hz
  have he := G2.affine_equation P hP hz
  have hs' : r • G2.toAff { x := P.x / P.z ^ 2, y := P.y / P.z ^ 3, z := 1 } = 0 := by rw [ht]; exact hsub
  obtain ⟨y2, hy2, hdec⟩ := g2_from_compressed_encode_up_to_sign _ _ he hs'
  refine ⟨compByte (Api.fq2IsEven (P.y / P.z ^ 3)) :: Api.fq2ToSlice (P.x / P.z ^ 2),
    { x := P.x / P.z ^ 2, y := y2, z := 1 }, ?_, hdec, ?_⟩
  · unfold Api.g2ToCompressed; rw [ha]; rfl
  · rcases hy2 with e | e
    · left; rw [e]; exact (G2.eq_iff _ _ hv hP).2 ht
    · right
      rw [e]
      have hneg := (G2.subgroup_neg _ _ he hs').1
      have hvn : G2.Valid { x := P.x / P.z ^ 2, y := -(P.y / P.z ^ 3), z := 1 } := by
        have := G2.neg_valid _ hv
        rw [G2.neg_of_z_one] at this
        exact this
      refine (G2.eq_iff _ _ hvn (G2.neg_valid P hP)).2 ?_
      rw [hneg, ht, G2.neg_correct P hP]

/-! ## the hypotheses are satisfiable: the generators -/

example : ∃ bs P', Api.g1ToSlice G.one = .ok bs ∧ Api.g1FromSlice bs = .ok P' ∧ P'.eq G.one = true :=
  g1_slice_roundtrip G.one G1.one_valid (by decide +kernel)

example : ∃ bs P', Api.g1ToCompressed G.one = .ok bs ∧ Api.g1FromCompressed bs = .ok P' ∧ P'.eq G.one = true :=
  g1_compressed_roundtrip G.one G1.one_valid (by decide +kernel)

theorem G2.one_in_subgroup : r • G2.toAff (G.one : G2) = 0 := by
  obtain ⟨_, h⟩ := (C09.affine_g2_new_iff (G.one : G2).x (G.one : G2).y).1 C09.P2_accepted
  exact h

theorem G2.one_z_ne_zero : (G.one : G2).z ≠ 0 := Fq2.one_ne_zero_fq2

example : ∃ bs P', Api.g2ToSlice G.one = .ok bs ∧ Api.g2FromSlice bs = .ok P' ∧ P'.eq G.one = true :=
  g2_slice_roundtrip G.one G2.one_valid G2.one_z_ne_zero G2.one_in_subgroup

example : ∃ bs P', Api.g2ToCompressed G.one = .ok bs ∧ Api.g2FromCompressed bs = .ok P' ∧ P'.eq G.one = true := by
  refine g2_compressed_roundtrip_partial G.one G2.one_valid G2.one_z_ne_zero G2.one_in_subgroup ?_
  have hz : (G.one : G2).z = 1 := rfl
  rw [hz, one_pow, div_one]
  decide +kernel


end Sm9
