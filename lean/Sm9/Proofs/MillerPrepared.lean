import Sm9.Proofs.MillerSpec
import Sm9.Proofs.FinalExp
import Sm9.Proofs.RepIndep
import Mathlib.GroupTheory.OrderOfElement
/-!
# The prepared Miller loop computes the textbook Miller function, up to a factor in Fq2ˣ

`G2Prepared::from` followed by `G2Prepared::miller_loop` (pairings.rs) against `Miller.specMiller`
(`Sm9/Proofs/MillerSpec.lean`).

1. `from_miller_eq_fused` — plumbing: the coefficient list written by `from_` and read back by
   `miller_loop` (both walk `loopIdx`) is eliminated; the composite is one fold `fusedMiller`
   carrying the Jacobian point and the accumulator together.  No indexing panic is possible.
2. `dblStep_refines`, `addStep_refines` — one doubling / addition step of the code refines the
   step of the specification: the point component through `G2.toAff`, the accumulator up to a
   non-zero factor of `Fq2` (`MillerLines.lean`).
3. `loop_refines`, `fused_refines` — the induction over the loop and the two Frobenius steps.
   The order hypothesis `r • Q = 0` excludes `T = O`, `T = ±Q` in the loop (`chainOK_loop`: every
   multiplier `m` of the chain has `0 < m`, `2m + 1 < r`).  For the Frobenius steps the excluded
   cases `[6t+2]Q = ±π(Q)`, `[6t+2]Q + π(Q) = ±π²(Q)` are explicit hypotheses `hT1 … hT4`.
4. `prepared_miller_eq_spec` — the refinement for `from_`/`miller_loop`;
   `fast_pairing_eq_spec` — the final exponentiation removes the factor (`ofFq2_pow_final`);
   `…_of_eigen` — `hT1 … hT4` follow from the eigenvalue property `π(Q) = [q]Q` (`tail_of_eigen`);
   `api_fast_pairing_eq_spec(_valid)` — the public entry point on arbitrary representatives.
5. `fast_pairing_generator` — all hypotheses hold for `Q = P2` (kernel evaluation of the model).
   `Sm9/Proofs/MillerFrobenius.lean` extends this to every `Q ∈ ⟨P2⟩`.
-/
namespace Sm9
namespace Miller
open WeierstrassCurve G2Prepared
set_option maxRecDepth 100000

/-! ## 1. the two loops fused -/

/-- one iteration of `from_` and `miller_loop` fused: the point walk and the accumulation together -/
def fusedStep (Q : G2) (t1 : Fq2) (x : Fq) (st : G2 × Fq12) (i : Nat) : G2 × Fq12 :=
  let r1 := G2m.g_tangent st.1
  let f := (st.2.squared).mul_015 (get_fq12 r1.2 t1 x)
  if bit Consts.SM9_LOOP_N i then
    let r2 := G2m.g_line r1.1 Q
    (r2.1, f.mul_015 (get_fq12 r2.2 t1 x))
  else (r1.1, f)

theorem prepStep_eq (Q T : G2) (cs : List (Fq2 × Fq2 × Fq2)) (i : Nat) :
    prepStep Q (T, cs) i =
      if bit Consts.SM9_LOOP_N i then
        ((G2m.g_line (G2m.g_tangent T).1 Q).1, cs ++ [(G2m.g_tangent T).2, (G2m.g_line (G2m.g_tangent T).1 Q).2])
      else ((G2m.g_tangent T).1, cs ++ [(G2m.g_tangent T).2]) := by
  by_cases h : bit Consts.SM9_LOOP_N i <;> simp [prepStep, h]

theorem prepStep_append (Q T : G2) (cs : List (Fq2 × Fq2 × Fq2)) (i : Nat) :
    prepStep Q (T, cs) i = ((prepStep Q (T, []) i).1, cs ++ (prepStep Q (T, []) i).2) := by
  rw [prepStep_eq, prepStep_eq]
  split <;> simp

theorem prepFold_append (Q : G2) (idx : List Nat) (T : G2) (cs : List (Fq2 × Fq2 × Fq2)) :
    idx.foldl (prepStep Q) (T, cs) =
      ((idx.foldl (prepStep Q) (T, [])).1, cs ++ (idx.foldl (prepStep Q) (T, [])).2) := by
  induction idx generalizing T cs with
  | nil => simp
  | cons i is ih =>
    simp only [List.foldl_cons]
    rw [prepStep_append Q T cs i, ih, ih (prepStep Q (T, []) i).1 (prepStep Q (T, []) i).2]
    simp

theorem mlStep_bit (cs : List (Fq2 × Fq2 × Fq2)) (t1 : Fq2) (x : Fq) (f : Fq12) (k i : Nat)
    (c1 c2 : Fq2 × Fq2 × Fq2) (hb : bit Consts.SM9_LOOP_N i = true)
    (h1 : cs[k]? = some c1) (h2 : cs[k+1]? = some c2) :
    mlStep cs t1 x (f, k) i =
        .ok (((f.squared).mul_015 (get_fq12 c1 t1 x)).mul_015 (get_fq12 c2 t1 x), k + 1 + 1) := by
  unfold mlStep idx
  simp only [h1, h2, hb, Outcome.unwrap, bind, Outcome.bind]
  rfl

theorem mlStep_nobit (cs : List (Fq2 × Fq2 × Fq2)) (t1 : Fq2) (x : Fq) (f : Fq12) (k i : Nat)
    (c1 : Fq2 × Fq2 × Fq2) (hb : bit Consts.SM9_LOOP_N i = false)
    (h1 : cs[k]? = some c1) :
    mlStep cs t1 x (f, k) i = .ok ((f.squared).mul_015 (get_fq12 c1 t1 x), k + 1) := by
  unfold mlStep idx
  simp only [h1, hb, Outcome.unwrap, bind, Outcome.bind]
  rfl

theorem mlTail_eq (cs : List (Fq2 × Fq2 × Fq2)) (t1 : Fq2) (x : Fq) (f : Fq12) (k i : Nat)
    (c1 : Fq2 × Fq2 × Fq2) (h1 : cs[k]? = some c1) :
    mlTail cs t1 x (f, k) i = .ok (f.mul_015 (get_fq12 c1 t1 x), k + 1) := by
  unfold mlTail idx
  simp only [h1, Outcome.unwrap, bind, Outcome.bind]
  rfl

theorem getElem?_mid {α} (pre post : List α) (c : α) : (pre ++ c :: post)[pre.length]? = some c := by
  simp

theorem getElem?_mid2 {α} (pre post : List α) (c d : α) : (pre ++ c :: d :: post)[pre.length + 1]? = some d := by
  simp

/-- the two loops of the code walk the same index list: `mlStep` over the coefficients that
    `prepStep` produced is the fused step -/
theorem fused_sim (Q : G2) (t1 : Fq2) (x : Fq) (idx : List Nat) (T : G2) (f : Fq12)
    (pre post : List (Fq2 × Fq2 × Fq2)) :
    idx.foldlM (mlStep (pre ++ (idx.foldl (prepStep Q) (T, [])).2 ++ post) t1 x) (f, pre.length)
      = .ok ((idx.foldl (fusedStep Q t1 x) (T, f)).2, pre.length + (idx.foldl (prepStep Q) (T, [])).2.length) ∧
    (idx.foldl (prepStep Q) (T, [])).1 = (idx.foldl (fusedStep Q t1 x) (T, f)).1 := by
  induction idx generalizing T f pre with
  | nil => simp [pure]
  | cons i is ih =>
    simp only [List.foldl_cons, List.foldlM_cons]
    rw [prepFold_append]
    by_cases hb : bit Consts.SM9_LOOP_N i = true
    · have e1 : prepStep Q (T, []) i = ((G2m.g_line (G2m.g_tangent T).1 Q).1,
          [(G2m.g_tangent T).2, (G2m.g_line (G2m.g_tangent T).1 Q).2]) := by
        rw [prepStep_eq, if_pos hb]; simp
      have e2 : fusedStep Q t1 x (T, f) i = ((G2m.g_line (G2m.g_tangent T).1 Q).1,
          ((f.squared).mul_015 (get_fq12 (G2m.g_tangent T).2 t1 x)).mul_015
            (get_fq12 (G2m.g_line (G2m.g_tangent T).1 Q).2 t1 x)) := by
        unfold fusedStep; rw [if_pos hb]
      rw [e1, e2]
      simp only
      obtain ⟨ih1, ih2⟩ := ih (G2m.g_line (G2m.g_tangent T).1 Q).1
        (((f.squared).mul_015 (get_fq12 (G2m.g_tangent T).2 t1 x)).mul_015
            (get_fq12 (G2m.g_line (G2m.g_tangent T).1 Q).2 t1 x))
        (pre ++ [(G2m.g_tangent T).2, (G2m.g_line (G2m.g_tangent T).1 Q).2])
      refine ⟨?_, ih2⟩
      rw [mlStep_bit _ t1 x f pre.length i (G2m.g_tangent T).2 (G2m.g_line (G2m.g_tangent T).1 Q).2 hb
        (by simp) (by simp)]
      have hl : (pre ++ [(G2m.g_tangent T).2, (G2m.g_line (G2m.g_tangent T).1 Q).2]).length = pre.length + 1 + 1 := by simp
      rw [hl] at ih1
      have hcs : pre ++ ([(G2m.g_tangent T).2, (G2m.g_line (G2m.g_tangent T).1 Q).2] ++
            (is.foldl (prepStep Q) ((G2m.g_line (G2m.g_tangent T).1 Q).1, [])).2) ++ post
          = pre ++ [(G2m.g_tangent T).2, (G2m.g_line (G2m.g_tangent T).1 Q).2] ++
            (is.foldl (prepStep Q) ((G2m.g_line (G2m.g_tangent T).1 Q).1, [])).2 ++ post := by simp
      rw [hcs]
      show is.foldlM _ _ = _
      rw [ih1]
      simp only [List.length_append, List.length_cons, List.length_nil]
      congr 2; omega
    · have hb' : bit Consts.SM9_LOOP_N i = false := by simpa using hb
      have e1 : prepStep Q (T, []) i = ((G2m.g_tangent T).1, [(G2m.g_tangent T).2]) := by
        rw [prepStep_eq, if_neg hb]; simp
      have e2 : fusedStep Q t1 x (T, f) i = ((G2m.g_tangent T).1,
          (f.squared).mul_015 (get_fq12 (G2m.g_tangent T).2 t1 x)) := by
        unfold fusedStep; rw [if_neg hb]
      rw [e1, e2]
      simp only
      obtain ⟨ih1, ih2⟩ := ih (G2m.g_tangent T).1
        ((f.squared).mul_015 (get_fq12 (G2m.g_tangent T).2 t1 x))
        (pre ++ [(G2m.g_tangent T).2])
      refine ⟨?_, ih2⟩
      rw [mlStep_nobit _ t1 x f pre.length i (G2m.g_tangent T).2 hb' (by simp)]
      have hl : (pre ++ [(G2m.g_tangent T).2]).length = pre.length + 1 := by simp
      rw [hl] at ih1
      have hcs : pre ++ ([(G2m.g_tangent T).2] ++
            (is.foldl (prepStep Q) ((G2m.g_tangent T).1, [])).2) ++ post
          = pre ++ [(G2m.g_tangent T).2] ++
            (is.foldl (prepStep Q) ((G2m.g_tangent T).1, [])).2 ++ post := by simp
      rw [hcs]
      show is.foldlM _ _ = _
      rw [ih1]
      simp only [List.length_append, List.length_cons, List.length_nil]
      congr 2; omega

/-- the Jacobian value with `z = 1` of an affine pair -/
def affG2 (p : Fq2 × Fq2) : G2 := ⟨p.1, p.2, 1⟩

theorem one_unitary_inverse : (1 : Fq2).unitary_inverse = 1 := by decide +kernel

/-- `q_power_frobenius(&frob)` on an affine point is `frobTwist` -/
theorem q_power_frobenius_eq (p : Fq2 × Fq2) :
    G2m.q_power_frobenius (affG2 p) (Fq2.new pi1 0) = some (affG2 (frobTwist p)) := by
  unfold G2m.q_power_frobenius
  have h : (Fq2.new pi1 0).inverse = some pi1F⁻¹ := Fq2.inverse_eq_inv pi1F pi1F_ne_zero
  rw [h]
  simp only [G.new, affG2, frobTwist, one_unitary_inverse, Fq2.squared_eq_mul, Option.some.injEq, G.mk.injEq, and_true]
  constructor <;> ring

theorem affG2_neg (p : Fq2 × Fq2) : (affG2 p).neg = affG2 (p.1, -p.2) := by
  unfold G.neg
  have : (affG2 p).is_zero = false := by
    show Fq2.is_zero (1 : Fq2) = false
    decide +kernel
  rw [this]
  rfl

/-- the value computed by `from_` followed by `miller_loop`, as one fold -/
noncomputable def fusedMiller (xP yP : Fq) (p : Fq2 × Fq2) : Fq12 :=
  let t1 := (Fq2.new yP 0).mul_by_nonresidue
  let st := loopIdx.foldl (fusedStep (affG2 p) t1 xP) (affG2 p, Fq12.one)
  let r1 := G2m.g_line st.1 (affG2 (frobTwist p))
  let f1 := st.2.mul_015 (get_fq12 r1.2 t1 xP)
  let r2 := G2m.g_line r1.1 (affG2 (frobTwist (frobTwist p))).neg
  f1.mul_015 (get_fq12 r2.2 t1 xP)

theorem from_miller_eq_fused (xP yP : Fq) (p : Fq2 × Fq2) :
    (do let pr ← G2Prepared.from_ (affG2 p); pr.miller_loop (⟨xP, yP, 1⟩ : G1))
      = .ok (fusedMiller xP yP p) := by
  have hz : (affG2 p).is_zero = false := by
    show Fq2.is_zero (1 : Fq2) = false
    decide +kernel
  have hzP : (⟨xP, yP, 1⟩ : G1).is_zero = false := by
    show Fq.is_zero (1 : Fq) = false
    decide +kernel
  unfold G2Prepared.from_ prepTail
  rw [hz]
  simp only [Bool.false_eq_true, if_false, q_power_frobenius_eq]
  simp only [bind, Outcome.bind]
  unfold G2Prepared.miller_loop
  rw [hzP]
  obtain ⟨L, hL⟩ : ∃ L, L = (prepLoop (affG2 p)).2 := ⟨_, rfl⟩
  obtain ⟨c1, hc1⟩ : ∃ c, c = (G2m.g_line (prepLoop (affG2 p)).1 (affG2 (frobTwist p))).2 := ⟨_, rfl⟩
  obtain ⟨c2, hc2⟩ : ∃ c, c = (G2m.g_line (G2m.g_line (prepLoop (affG2 p)).1 (affG2 (frobTwist p))).1
                        (G.neg (affG2 (frobTwist (frobTwist p))))).2 := ⟨_, rfl⟩
  rw [← hL, ← hc1, ← hc2]
  have hne : (L ++ [c1] ++ [c2]).isEmpty = false := by simp
  simp only [hne, Bool.or_self, Bool.false_eq_true, if_false]
  obtain ⟨s1, s2⟩ := fused_sim (affG2 p) (Fq2.new yP 0).mul_by_nonresidue xP loopIdx (affG2 p) Fq12.one [] [c1, c2]
  have hcs : L ++ [c1] ++ [c2] = [] ++ (loopIdx.foldl (prepStep (affG2 p)) (affG2 p, [])).2 ++ [c1, c2] := by
    rw [hL]; simp [prepLoop]
  rw [hcs]
  simp only [bind, Outcome.bind, List.length_nil] at s1 ⊢
  rw [s1]
  simp only [List.foldlM_cons, List.foldlM_nil, bind, Outcome.bind, zero_add]
  rw [mlTail_eq _ _ _ _ _ 0 c1 (by simp)]
  simp only
  rw [mlTail_eq _ _ _ _ _ 1 c2 (by simp)]
  simp only [pure]
  unfold fusedMiller
  simp only [Outcome.ok.injEq]
  rw [hc1, hc2]
  unfold prepLoop
  rw [s2]

/-! ## 2. single steps -/

theorem G2.double_valid (P : G2) (hP : G2.Valid P) : G2.Valid P.double := by
  have := Jac.double_valid b2 Fq2.two_ne_zero P hP
  unfold Jac.dbl at this
  rw [← fe_Fq2_eq] at this
  exact this

theorem z_ne_zero_of_toAff (T : G2) (h : G2.toAff T ≠ 0) : T.z ≠ 0 :=
  fun hz => h (G2.toAff_zero T hz)

/-- tangent slope on `y² = x³ + b`, away from 2-torsion -/
theorem slope_tangent (x y : Fq2) (hy : y ≠ 0) :
    (Jac.Wb b2).slope x x y y = 3 * x ^ 2 / (2 * y) := by
  have hY : y ≠ (Jac.Wb b2).negY x y := by
    simp only [Affine.negY, Jac.Wb, zero_mul, sub_zero]
    intro h
    have : 2 * y = 0 := by linear_combination h
    rcases mul_eq_zero.mp this with h' | h'
    · exact Fq2.two_ne_zero h'
    · exact hy h'
  rw [Affine.slope_of_Y_ne rfl hY]
  simp only [Affine.negY, Jac.Wb, zero_mul, mul_zero, add_zero, sub_zero]
  congr 1; ring

theorem slope_chord (x1 x2 y1 y2 : Fq2) (hx : x1 ≠ x2) :
    (Jac.Wb b2).slope x1 x2 y1 y2 = (y2 - y1) / (x2 - x1) := by
  rw [Affine.slope_of_X_ne hx, ← neg_sub y2 y1, ← neg_sub x2 x1, neg_div_neg_eq]

/-- one `g_tangent` step refines `f := f²·l_{T,T}(P)`, `T := 2T` -/
theorem dblStep_refines (xP yP : Fq) (T : G2) (hz : T.z ≠ 0) (hv : G2.Valid T) (f g : Fq12) (κ : Fq2)
    (hκ : κ ≠ 0) (hf : f = Fq12.ofFq2 κ * g) :
    (G2m.g_tangent T).1.z ≠ 0 ∧ G2.Valid (G2m.g_tangent T).1 ∧
    G2.toAff (G2m.g_tangent T).1 = G2.toAff T + G2.toAff T ∧
    ∃ κ', κ' ≠ 0 ∧
      (f.squared).mul_015 (get_fq12 (G2m.g_tangent T).2 (Fq2.new yP 0).mul_by_nonresidue xP)
        = Fq12.ofFq2 κ' * (g * g * lineVal (Jac.Wb b2) (lineAt xP yP) (G2.toAff T) (G2.toAff T)) := by
  have hn := hv.resolve_left hz
  have hy : T.y ≠ 0 := Jac.y_ne_zero b2 Fq2.no_two_torsion T hz hn
  obtain ⟨e1, hc0, eline⟩ := g_tangent_line T xP yP hz hy
  have hT : G2.toAff T = .some _ _ hn := G2.toAff_some T hz hn
  have hy' : T.y / T.z ^ 3 ≠ 0 := div_ne_zero hy (pow_ne_zero _ hz)
  have hdc := G2.double_correct T hv
  have hYne : T.y / T.z ^ 3 ≠ (Jac.Wb b2).negY (T.x / T.z ^ 2) (T.y / T.z ^ 3) := by
    simp only [Affine.negY, Jac.Wb, zero_mul, sub_zero]
    intro h
    have : 2 * (T.y / T.z ^ 3) = 0 := by linear_combination h
    rcases mul_eq_zero.mp this with h' | h'
    · exact Fq2.two_ne_zero h'
    · exact hy' h'
  refine ⟨?_, ?_, ?_, ?_⟩
  · rw [e1]
    apply z_ne_zero_of_toAff
    rw [hdc, hT, Affine.Point.add_self_of_Y_ne hYne]
    exact Affine.Point.some_ne_zero _
  · rw [e1]; exact G2.double_valid T hv
  · rw [e1]; exact hdc
  · refine ⟨κ * κ * ((G2m.g_tangent T).2.1 * Fq2.i), mul_ne_zero (mul_ne_zero hκ hκ) (mul_ne_zero hc0 Fq2.i_ne_zero), ?_⟩
    rw [mul_015_get_fq12, Fq12.squared_eq_mul, eline, hT, lineVal_some, hf]
    unfold lineAt
    rw [slope_tangent _ _ hy']
    simp only [map_mul]
    ring

/-- one `g_line` step refines `f := f·l_{T,R}(P)`, `T := T + R`, for an affine `R ≠ ±T` -/
theorem addStep_refines (xP yP : Fq) (T R : G2) (hz : T.z ≠ 0) (hv : G2.Valid T) (hRz : R.z = 1)
    (hRv : G2.Valid R) (hne : G2.toAff T ≠ G2.toAff R) (hne2 : G2.toAff T ≠ -G2.toAff R)
    (f g : Fq12) (κ : Fq2) (hκ : κ ≠ 0) (hf : f = Fq12.ofFq2 κ * g) :
    (G2m.g_line T R).1.z ≠ 0 ∧ G2.Valid (G2m.g_line T R).1 ∧
    G2.toAff (G2m.g_line T R).1 = G2.toAff T + G2.toAff R ∧
    ∃ κ', κ' ≠ 0 ∧
      f.mul_015 (get_fq12 (G2m.g_line T R).2 (Fq2.new yP 0).mul_by_nonresidue xP)
        = Fq12.ofFq2 κ' * (g * lineVal (Jac.Wb b2) (lineAt xP yP) (G2.toAff T) (G2.toAff R)) := by
  have hn := hv.resolve_left hz
  have hRz0 : R.z ≠ 0 := by rw [hRz]; exact one_ne_zero
  have hRn := hRv.resolve_left hRz0
  have hT : G2.toAff T = .some _ _ hn := G2.toAff_some T hz hn
  have hR : G2.toAff R = .some _ _ hRn := G2.toAff_some R hRz0 hRn
  have ex : R.x / R.z ^ 2 = R.x := by rw [hRz]; simp
  have ey : R.y / R.z ^ 3 = R.y := by rw [hRz]; simp
  have hx : T.x / T.z ^ 2 ≠ R.x / R.z ^ 2 := by
    intro h
    rcases (Affine.Point.X_eq_iff (h₁ := hn) (h₂ := hRn)).1 h with h' | h'
    · exact hne (by rw [hT, hR]; exact h')
    · exact hne2 (by rw [hT, hR]; exact h')
  have hx' : T.x / T.z ^ 2 ≠ R.x := by rw [← ex]; exact hx
  obtain ⟨e1, _, hc0, eline⟩ := g_line_line T R xP yP hz hRz hx'
  have hac := G2.add_correct T R hv hRv
  refine ⟨?_, ?_, ?_, ?_⟩
  · rw [e1]
    apply z_ne_zero_of_toAff
    rw [hac, hT, hR, Affine.Point.add_of_X_ne hx]
    exact Affine.Point.some_ne_zero _
  · rw [e1]; exact G2.add_valid T R hv hRv
  · rw [e1]; exact hac
  · refine ⟨κ * ((G2m.g_line T R).2.1 * Fq2.i), mul_ne_zero hκ (mul_ne_zero hc0 Fq2.i_ne_zero), ?_⟩
    rw [mul_015_get_fq12, eline, hT, hR, lineVal_some, hf]
    unfold lineAt
    rw [slope_chord _ _ _ _ hx, ex, ey]
    simp only [map_mul]
    ring

/-! ## 3. the induction -/

section order
variable {A : Type} [AddGroup A] {Qp : A}

theorem nsmul_ne_zero_of_lt (hr : r • Qp = 0) (h0 : Qp ≠ 0) {k : Nat} (hk : 0 < k) (hlt : k < r) :
    k • Qp ≠ 0 := by
  intro h
  have ho : addOrderOf Qp = r := addOrderOf_eq_prime hr h0
  have hd := addOrderOf_dvd_of_nsmul_eq_zero h
  rw [ho] at hd
  exact absurd (Nat.le_of_dvd hk hd) (by omega)

theorem nsmul_ne_self (hr : r • Qp = 0) (h0 : Qp ≠ 0) {k : Nat} (hk : 1 < k) (hlt : k ≤ r) :
    k • Qp ≠ Qp := by
  intro h
  apply nsmul_ne_zero_of_lt hr h0 (k := k - 1) (by omega) (by omega)
  have : k • Qp = (k - 1) • Qp + Qp := by
    rw [← succ_nsmul]; congr 1; omega
  rw [this] at h
  exact add_eq_right.mp h

theorem nsmul_ne_neg (hr : r • Qp = 0) (h0 : Qp ≠ 0) {k : Nat} (hlt : k + 1 < r) :
    k • Qp ≠ -Qp := by
  intro h
  apply nsmul_ne_zero_of_lt hr h0 (k := k + 1) (by omega) hlt
  rw [succ_nsmul, h, neg_add_cancel]
end order

/-- side condition on the addition chain: every intermediate multiplier `m` has `0 < m` and
    `2m + 1 < r`, so that no doubling/addition meets `O` or `±Q` when `Q` has order `r` -/
def chainOK (N : Nat) : List Nat → Nat → Bool
  | [], _ => true
  | i :: is, m => decide (0 < m) && decide (2 * m + 1 < r) && chainOK N is (2 * m + (if bit N i then 1 else 0))

theorem chainOK_loop : chainOK Consts.SM9_LOOP_N loopIdx 1 = true := by decide +kernel

theorem twPt_eq (p : Fq2 × Fq2) : twPt p = G2.toAff (affG2 p) := rfl

theorem affG2_valid (p : Fq2 × Fq2) (hp : p.2 * p.2 = p.1 * p.1 * p.1 + b2) : G2.Valid (affG2 p) :=
  G2.valid_of_equation p.1 p.2 hp

theorem twPt_ne_zero (p : Fq2 × Fq2) (hp : p.2 * p.2 = p.1 * p.1 * p.1 + b2) : twPt p ≠ 0 := by
  have hv := affG2_valid p hp
  have hz : (affG2 p).z ≠ 0 := one_ne_zero
  rw [twPt_eq, G2.toAff_some _ hz (hv.resolve_left hz)]
  exact Affine.Point.some_ne_zero _

theorem fusedStep_bit (Q : G2) (t1 : Fq2) (x : Fq) (T : G2) (f : Fq12) (i : Nat)
    (hb : bit Consts.SM9_LOOP_N i = true) :
    fusedStep Q t1 x (T, f) i = ((G2m.g_line (G2m.g_tangent T).1 Q).1,
          ((f.squared).mul_015 (get_fq12 (G2m.g_tangent T).2 t1 x)).mul_015
            (get_fq12 (G2m.g_line (G2m.g_tangent T).1 Q).2 t1 x)) := by
  unfold fusedStep; rw [if_pos hb]

theorem fusedStep_nobit (Q : G2) (t1 : Fq2) (x : Fq) (T : G2) (f : Fq12) (i : Nat)
    (hb : ¬ bit Consts.SM9_LOOP_N i = true) :
    fusedStep Q t1 x (T, f) i = ((G2m.g_tangent T).1,
          (f.squared).mul_015 (get_fq12 (G2m.g_tangent T).2 t1 x)) := by
  unfold fusedStep; rw [if_neg hb]

/-- **the loop refines the specification**: point component through `toAff`, accumulator up to `Fq2ˣ` -/
theorem loop_refines (xP yP : Fq) (p : Fq2 × Fq2) (hp : p.2 * p.2 = p.1 * p.1 * p.1 + b2)
    (hord : r • twPt p = 0) (idx : List Nat) :
    ∀ (T : G2) (f : Fq12) (S : _ × Fq12) (m : Nat), chainOK Consts.SM9_LOOP_N idx m = true →
      T.z ≠ 0 → G2.Valid T → G2.toAff T = S.1 → S.1 = m • twPt p →
      (∃ κ : Fq2, κ ≠ 0 ∧ f = Fq12.ofFq2 κ * S.2) →
      (idx.foldl (fusedStep (affG2 p) (Fq2.new yP 0).mul_by_nonresidue xP) (T, f)).1.z ≠ 0 ∧
      G2.Valid (idx.foldl (fusedStep (affG2 p) (Fq2.new yP 0).mul_by_nonresidue xP) (T, f)).1 ∧
      G2.toAff (idx.foldl (fusedStep (affG2 p) (Fq2.new yP 0).mul_by_nonresidue xP) (T, f)).1
        = (idx.foldl (specStep (Jac.Wb b2) (lineAt xP yP) (twPt p) Consts.SM9_LOOP_N) S).1 ∧
      ∃ κ : Fq2, κ ≠ 0 ∧
        (idx.foldl (fusedStep (affG2 p) (Fq2.new yP 0).mul_by_nonresidue xP) (T, f)).2
          = Fq12.ofFq2 κ * (idx.foldl (specStep (Jac.Wb b2) (lineAt xP yP) (twPt p) Consts.SM9_LOOP_N) S).2 := by
  have h0 := twPt_ne_zero p hp
  have hQv := affG2_valid p hp
  induction idx with
  | nil =>
    intro T f S m _ hz hv hT _ hf
    exact ⟨hz, hv, hT, hf⟩
  | cons i is ih =>
    intro T f S m hok hz hv hT hS hf
    simp only [chainOK, Bool.and_eq_true, decide_eq_true_eq] at hok
    obtain ⟨⟨hm0, hmr⟩, hok'⟩ := hok
    obtain ⟨κ, hκ, hfκ⟩ := hf
    obtain ⟨d1, d2, d3, κ1, hκ1, d4⟩ := dblStep_refines xP yP T hz hv f S.2 κ hκ hfκ
    rw [hT] at d3 d4
    have h2m : S.1 + S.1 = (2 * m) • twPt p := by rw [hS, mul_smul, two_smul]
    simp only [List.foldl_cons]
    have hSp := specStep_point (Jac.Wb b2) (lineAt xP yP) (twPt p) Consts.SM9_LOOP_N S i m hS
    by_cases hb : bit Consts.SM9_LOOP_N i = true
    · rw [fusedStep_bit _ _ _ _ _ _ hb]
      have hne1 : G2.toAff (G2m.g_tangent T).1 ≠ G2.toAff (affG2 p) := by
        rw [d3, h2m, ← twPt_eq]
        exact nsmul_ne_self hord h0 (by omega) (by omega)
      have hne2 : G2.toAff (G2m.g_tangent T).1 ≠ -G2.toAff (affG2 p) := by
        rw [d3, h2m, ← twPt_eq]
        exact nsmul_ne_neg hord h0 hmr
      obtain ⟨a1, a2, a3, κ2, hκ2, a4⟩ := addStep_refines xP yP (G2m.g_tangent T).1 (affG2 p) d1 d2 rfl hQv
        hne1 hne2 _ _ κ1 hκ1 d4
      rw [d3, ← twPt_eq] at a3 a4
      have hS' : specStep (Jac.Wb b2) (lineAt xP yP) (twPt p) Consts.SM9_LOOP_N S i
          = (S.1 + S.1 + twPt p, S.2 * S.2 * lineVal (Jac.Wb b2) (lineAt xP yP) S.1 S.1
              * lineVal (Jac.Wb b2) (lineAt xP yP) (S.1 + S.1) (twPt p)) := by
        unfold specStep; rw [if_pos hb]
      rw [hS'] at hSp ⊢
      exact ih _ _ _ _ hok' a1 a2 a3 hSp ⟨κ2, hκ2, a4⟩
    · rw [fusedStep_nobit _ _ _ _ _ _ hb]
      have hS' : specStep (Jac.Wb b2) (lineAt xP yP) (twPt p) Consts.SM9_LOOP_N S i
          = (S.1 + S.1, S.2 * S.2 * lineVal (Jac.Wb b2) (lineAt xP yP) S.1 S.1) := by
        unfold specStep; rw [if_neg hb]
      rw [hS'] at hSp ⊢
      exact ih _ _ _ _ hok' d1 d2 d3 hSp ⟨κ1, hκ1, d4⟩

theorem nsmul_eq_zero_iff_dvd {A : Type} [AddGroup A] {Qp : A} (hr : r • Qp = 0) (h0 : Qp ≠ 0) (k : Nat) :
    k • Qp = 0 ↔ r ∣ k := by
  rw [← addOrderOf_eq_prime hr h0]
  exact addOrderOf_dvd_iff_nsmul_eq_zero.symm

/-- **`from_` then `miller_loop` is the textbook Miller function up to `Fq2ˣ`** (fused form) -/
theorem fused_refines (xP yP : Fq) (p : Fq2 × Fq2) (hp : p.2 * p.2 = p.1 * p.1 * p.1 + b2)
    (hord : r • twPt p = 0)
    (hT1 : Consts.SM9_LOOP_N • twPt p ≠ twPt (frobTwist p))
    (hT2 : Consts.SM9_LOOP_N • twPt p ≠ -twPt (frobTwist p))
    (hT3 : Consts.SM9_LOOP_N • twPt p + twPt (frobTwist p) ≠ -twPt (frobTwist (frobTwist p)))
    (hT4 : Consts.SM9_LOOP_N • twPt p + twPt (frobTwist p) ≠ twPt (frobTwist (frobTwist p))) :
    ∃ κ : Fq2, κ ≠ 0 ∧ fusedMiller xP yP p = Fq12.ofFq2 κ * specMiller xP yP p.1 p.2 := by
  have hQv := affG2_valid p hp
  have hp1 := frobTwist_equation p hp
  have hp2 := frobTwist_equation _ hp1
  have hQ1v := affG2_valid _ hp1
  have hQ2v := affG2_valid _ hp2
  obtain ⟨l1, l2, l3, κ, hκ, l4⟩ := loop_refines xP yP p hp hord loopIdx (affG2 p) Fq12.one (twPt p, 1) 1
    chainOK_loop one_ne_zero hQv rfl (one_smul _ _).symm ⟨1, one_ne_zero, by rw [map_one, mul_one]; rfl⟩
  have hpt := specLoop_point xP yP p
  unfold specLoop at hpt
  obtain ⟨St, hSt⟩ : ∃ St, St = loopIdx.foldl (specStep (Jac.Wb b2) (lineAt xP yP) (twPt p) Consts.SM9_LOOP_N) (twPt p, 1) :=
    ⟨_, rfl⟩
  obtain ⟨Ct, hCt⟩ : ∃ Ct, Ct = loopIdx.foldl (fusedStep (affG2 p) (Fq2.new yP 0).mul_by_nonresidue xP) (affG2 p, Fq12.one) :=
    ⟨_, rfl⟩
  rw [← hSt] at l3 l4 hpt
  rw [← hCt] at l1 l2 l3 l4
  -- first Frobenius step
  obtain ⟨a1, a2, a3, κ1, hκ1, a4⟩ := addStep_refines xP yP Ct.1 (affG2 (frobTwist p)) l1 l2 rfl hQ1v
    (by rw [l3, hpt, ← twPt_eq]; exact hT1) (by rw [l3, hpt, ← twPt_eq]; exact hT2) _ _ κ hκ l4
  rw [l3, ← twPt_eq] at a3 a4
  -- second Frobenius step
  have hR : G2.toAff (affG2 (frobTwist (frobTwist p))).neg = -twPt (frobTwist (frobTwist p)) :=
    G2.neg_correct _ hQ2v
  have hRz : (affG2 (frobTwist (frobTwist p))).neg.z = 1 := by rw [affG2_neg]; rfl
  obtain ⟨_, _, _, κ2, hκ2, c4⟩ := addStep_refines xP yP (G2m.g_line Ct.1 (affG2 (frobTwist p))).1
    (affG2 (frobTwist (frobTwist p))).neg a1 a2 hRz (G2.neg_valid _ hQ2v)
    (by rw [a3, hR, hpt]; exact hT3) (by rw [a3, hR, hpt, neg_neg]; exact hT4) _ _ κ1 hκ1 a4
  rw [a3, hR] at c4
  refine ⟨κ2, hκ2, ?_⟩
  unfold fusedMiller specMiller specTail specLoop
  simp only [Prod.mk.eta]
  rw [← hCt, ← hSt]
  exact c4

/-! ## 4. main theorems -/

/-- **C02/C03/C17: the prepared Miller loop is the textbook Miller function up to `Fq2ˣ`.** -/
theorem prepared_miller_eq_spec (xP yP : Fq) (xQ yQ : Fq2) (hQ : yQ * yQ = xQ * xQ * xQ + b2)
    (hord : r • twPt (xQ, yQ) = 0)
    (hT1 : Consts.SM9_LOOP_N • twPt (xQ, yQ) ≠ twPt (frobTwist (xQ, yQ)))
    (hT2 : Consts.SM9_LOOP_N • twPt (xQ, yQ) ≠ -twPt (frobTwist (xQ, yQ)))
    (hT3 : Consts.SM9_LOOP_N • twPt (xQ, yQ) + twPt (frobTwist (xQ, yQ)) ≠ -twPt (frobTwist (frobTwist (xQ, yQ))))
    (hT4 : Consts.SM9_LOOP_N • twPt (xQ, yQ) + twPt (frobTwist (xQ, yQ)) ≠ twPt (frobTwist (frobTwist (xQ, yQ)))) :
    ∃ κ : Fq2, κ ≠ 0 ∧
      (do let pr ← G2Prepared.from_ (⟨xQ, yQ, 1⟩ : G2); pr.miller_loop (⟨xP, yP, 1⟩ : G1))
        = .ok (Fq12.ofFq2 κ * specMiller xP yP xQ yQ) := by
  obtain ⟨κ, hκ, h⟩ := fused_refines xP yP (xQ, yQ) hQ hord hT1 hT2 hT3 hT4
  refine ⟨κ, hκ, ?_⟩
  have := from_miller_eq_fused xP yP (xQ, yQ)
  rw [h] at this
  exact this

theorem tail_cond : ¬ r ∣ q - Consts.SM9_LOOP_N ∧ ¬ r ∣ Consts.SM9_LOOP_N + q ∧
    ¬ r ∣ Consts.SM9_LOOP_N + q + q * q ∧ ¬ r ∣ q * q - (Consts.SM9_LOOP_N + q) ∧
    Consts.SM9_LOOP_N ≤ q ∧ Consts.SM9_LOOP_N + q ≤ q * q := by decide +kernel

/-- the non-degeneracy hypotheses of the two Frobenius steps follow from the eigenvalue property
    `π(Q) = [q]Q` of `G2` -/
theorem tail_of_eigen {A : Type} [AddGroup A] {Qp Q1 Q2 : A} (hr : r • Qp = 0) (h0 : Qp ≠ 0)
    (hE1 : Q1 = q • Qp) (hE2 : Q2 = q • Q1) :
    Consts.SM9_LOOP_N • Qp ≠ Q1 ∧ Consts.SM9_LOOP_N • Qp ≠ -Q1 ∧
    Consts.SM9_LOOP_N • Qp + Q1 ≠ -Q2 ∧ Consts.SM9_LOOP_N • Qp + Q1 ≠ Q2 := by
  obtain ⟨c1, c2, c3, c4, le1, le2⟩ := tail_cond
  have hE2' : Q2 = (q * q) • Qp := by rw [hE2, hE1, mul_smul]
  have key := nsmul_eq_zero_iff_dvd hr h0
  subst hE1
  rw [hE2']
  refine ⟨?_, ?_, ?_, ?_⟩
  · intro h
    apply c1; rw [← key]
    have : q • Qp = (q - Consts.SM9_LOOP_N) • Qp + Consts.SM9_LOOP_N • Qp := by
      rw [← add_nsmul, Nat.sub_add_cancel le1]
    rw [← h] at this
    exact (add_eq_right.mp this.symm)
  · intro h
    apply c2; rw [← key, add_nsmul, h, neg_add_cancel]
  · intro h
    apply c3; rw [← key, add_nsmul, add_nsmul, h, neg_add_cancel]
  · intro h
    apply c4; rw [← key]
    have : (q * q) • Qp = (q * q - (Consts.SM9_LOOP_N + q)) • Qp + (Consts.SM9_LOOP_N + q) • Qp := by
      rw [← add_nsmul, Nat.sub_add_cancel le2]
    rw [add_nsmul, h] at this
    exact (add_eq_right.mp this.symm)

theorem fq2_card_dvd : q ^ 2 - 1 ∣ (q ^ 12 - 1) / r := by decide +kernel

/-- the final exponentiation kills `Fq2ˣ` -/
theorem ofFq2_pow_final (κ : Fq2) (hκ : κ ≠ 0) : Fq12.ofFq2 κ ^ ((q ^ 12 - 1) / r) = 1 := by
  obtain ⟨c, hc⟩ := fq2_card_dvd
  rw [← map_pow, hc, pow_mul, Fq2.pow_card_sub_one κ hκ, one_pow, map_one]

/-- **`fast_pairing` is the textbook R-ate pairing**: the reduced value of the textbook Miller
    function -/
theorem fast_pairing_eq_spec (xP yP : Fq) (hyP : yP ≠ 0) (xQ yQ : Fq2) (hQ : yQ * yQ = xQ * xQ * xQ + b2)
    (hord : r • twPt (xQ, yQ) = 0)
    (hT1 : Consts.SM9_LOOP_N • twPt (xQ, yQ) ≠ twPt (frobTwist (xQ, yQ)))
    (hT2 : Consts.SM9_LOOP_N • twPt (xQ, yQ) ≠ -twPt (frobTwist (xQ, yQ)))
    (hT3 : Consts.SM9_LOOP_N • twPt (xQ, yQ) + twPt (frobTwist (xQ, yQ)) ≠ -twPt (frobTwist (frobTwist (xQ, yQ))))
    (hT4 : Consts.SM9_LOOP_N • twPt (xQ, yQ) + twPt (frobTwist (xQ, yQ)) ≠ twPt (frobTwist (frobTwist (xQ, yQ)))) :
    Pairings.fast_pairing (⟨xP, yP, 1⟩ : G1) (⟨xQ, yQ, 1⟩ : G2)
      = .ok (specMiller xP yP xQ yQ ^ ((q ^ 12 - 1) / r)) := by
  obtain ⟨κ, hκ, h⟩ := prepared_miller_eq_spec xP yP xQ yQ hQ hord hT1 hT2 hT3 hT4
  obtain ⟨pr, hpr⟩ := prepared_from_ok (⟨xQ, yQ, 1⟩ : G2)
  rw [hpr, Outcome.bind_ok] at h
  have hs := specMiller_ne_zero xP yP xQ yQ hyP
  have hx : Fq12.ofFq2 κ * specMiller xP yP xQ yQ ≠ 0 := mul_ne_zero (Fq12.ofFq2_ne_zero hκ) hs
  unfold Pairings.fast_pairing
  rw [hpr, Outcome.bind_ok, h, Outcome.bind_ok, Fq12.final_exp_eq_pow _ hx, Outcome.bind_ok,
    Outcome.unwrap_some, mul_pow, ofFq2_pow_final κ hκ, one_mul]

/-- the same with the non-degeneracy of the Frobenius steps derived from the eigenvalue property
    `π(Q) = [q]Q`, `π(π(Q)) = [q]π(Q)` of the points of `G2` -/
theorem fast_pairing_eq_spec_of_eigen (xP yP : Fq) (hyP : yP ≠ 0) (xQ yQ : Fq2)
    (hQ : yQ * yQ = xQ * xQ * xQ + b2) (hord : r • twPt (xQ, yQ) = 0)
    (hE1 : twPt (frobTwist (xQ, yQ)) = q • twPt (xQ, yQ))
    (hE2 : twPt (frobTwist (frobTwist (xQ, yQ))) = q • twPt (frobTwist (xQ, yQ))) :
    Pairings.fast_pairing (⟨xP, yP, 1⟩ : G1) (⟨xQ, yQ, 1⟩ : G2)
      = .ok (specMiller xP yP xQ yQ ^ ((q ^ 12 - 1) / r)) := by
  obtain ⟨t1, t2, t3, t4⟩ := tail_of_eigen hord (twPt_ne_zero _ hQ) hE1 hE2
  exact fast_pairing_eq_spec xP yP hyP xQ yQ hQ hord t1 t2 t3 t4

theorem prepared_miller_eq_spec_of_eigen (xP yP : Fq) (xQ yQ : Fq2)
    (hQ : yQ * yQ = xQ * xQ * xQ + b2) (hord : r • twPt (xQ, yQ) = 0)
    (hE1 : twPt (frobTwist (xQ, yQ)) = q • twPt (xQ, yQ))
    (hE2 : twPt (frobTwist (frobTwist (xQ, yQ))) = q • twPt (frobTwist (xQ, yQ))) :
    ∃ κ : Fq2, κ ≠ 0 ∧
      (do let pr ← G2Prepared.from_ (⟨xQ, yQ, 1⟩ : G2); pr.miller_loop (⟨xP, yP, 1⟩ : G1))
        = .ok (Fq12.ofFq2 κ * specMiller xP yP xQ yQ) := by
  obtain ⟨t1, t2, t3, t4⟩ := tail_of_eigen hord (twPt_ne_zero _ hQ) hE1 hE2
  exact prepared_miller_eq_spec xP yP xQ yQ hQ hord t1 t2 t3 t4

/-! ## the public entry point: any Jacobian representation -/

theorem G1.normalize_eq (P : G1) (hz : P.z ≠ 0) : Api.normalize P = ⟨P.x / P.z ^ 2, P.y / P.z ^ 3, 1⟩ := by
  unfold Api.normalize
  rw [G1.to_affine_spec, if_neg hz]
  rfl

theorem G2.normalize_eq (Q : G2) (hz : Q.z ≠ 0) : Api.normalize Q = ⟨Q.x / Q.z ^ 2, Q.y / Q.z ^ 3, 1⟩ := by
  unfold Api.normalize
  rw [G2.to_affine_spec, if_neg hz]
  rfl

theorem twPt_of_valid (Q : G2) (hz : Q.z ≠ 0) (hv : G2.Valid Q) :
    (Q.y / Q.z ^ 3) * (Q.y / Q.z ^ 3) = (Q.x / Q.z ^ 2) * (Q.x / Q.z ^ 2) * (Q.x / Q.z ^ 2) + b2 ∧
    twPt (Q.x / Q.z ^ 2, Q.y / Q.z ^ 3) = G2.toAff Q := by
  have hn := hv.resolve_left hz
  have he := ((Jac.nonsingular_iff b2 _ _).1 hn).1
  refine ⟨by linear_combination he, ?_⟩
  have h := (G2.normalize_spec Q hv).1
  rw [G2.normalize_eq Q hz] at h
  exact h

/-- **`sm9_core::fast_pairing`** on arbitrary Jacobian representatives of `P ∈ E(Fq)`, `Q ∈ G2`
    (neither the identity): the reduced textbook Miller function of the affine coordinates -/
theorem api_fast_pairing_eq_spec (P : G1) (Q : G2) (hPz : P.z ≠ 0) (hPy : P.y ≠ 0) (hQz : Q.z ≠ 0)
    (hQv : G2.Valid Q) (hord : r • G2.toAff Q = 0)
    (hE1 : twPt (frobTwist (Q.x / Q.z ^ 2, Q.y / Q.z ^ 3)) = q • G2.toAff Q)
    (hE2 : twPt (frobTwist (frobTwist (Q.x / Q.z ^ 2, Q.y / Q.z ^ 3)))
      = q • twPt (frobTwist (Q.x / Q.z ^ 2, Q.y / Q.z ^ 3))) :
    Api.fast_pairing P Q
      = .ok (specMiller (P.x / P.z ^ 2) (P.y / P.z ^ 3) (Q.x / Q.z ^ 2) (Q.y / Q.z ^ 3) ^ ((q ^ 12 - 1) / r)) := by
  obtain ⟨he, hpt⟩ := twPt_of_valid Q hQz hQv
  unfold Api.fast_pairing
  rw [G1.normalize_eq P hPz, G2.normalize_eq Q hQz]
  apply fast_pairing_eq_spec_of_eigen _ _ (div_ne_zero hPy (pow_ne_zero _ hPz)) _ _ he
  · rw [hpt]; exact hord
  · rw [hpt]; exact hE1
  · exact hE2

/-- the same for a valid `P ∈ E(Fq)`: `yP ≠ 0` is automatic (no 2-torsion) -/
theorem api_fast_pairing_eq_spec_valid (P : G1) (Q : G2) (hPz : P.z ≠ 0) (hPv : G1.Valid P) (hQz : Q.z ≠ 0)
    (hQv : G2.Valid Q) (hord : r • G2.toAff Q = 0)
    (hE1 : twPt (frobTwist (Q.x / Q.z ^ 2, Q.y / Q.z ^ 3)) = q • G2.toAff Q)
    (hE2 : twPt (frobTwist (frobTwist (Q.x / Q.z ^ 2, Q.y / Q.z ^ 3)))
      = q • twPt (frobTwist (Q.x / Q.z ^ 2, Q.y / Q.z ^ 3))) :
    Api.fast_pairing P Q
      = .ok (specMiller (P.x / P.z ^ 2) (P.y / P.z ^ 3) (Q.x / Q.z ^ 2) (Q.y / Q.z ^ 3) ^ ((q ^ 12 - 1) / r)) :=
  api_fast_pairing_eq_spec P Q hPz (Jac.y_ne_zero b1 Fq.no_two_torsion P hPz (hPv.resolve_left hPz)) hQz hQv hord hE1 hE2

/-! ## the hypotheses are satisfiable: the generator of `G2` -/

/-- affine coordinates of the generator `P2` -/
def genXY : Fq2 × Fq2 := ((G.one : G2).x, (G.one : G2).y)

theorem affG2_gen : affG2 genXY = (G.one : G2) := rfl

theorem gen_on_twist : genXY.2 * genXY.2 = genXY.1 * genXY.1 * genXY.1 + b2 := by
  have h := P2_on_twist
  rw [Fq2.squared_eq_mul, Fq2.squared_eq_mul] at h
  exact h

/-- `π(P2)`, `π²(P2)` as computed by the code -/
def genQ1 : G2 := (G2m.q_power_frobenius (G.one : G2) (Fq2.new pi1 0)).getD G.zero
def genQ2 : G2 := (G2m.q_power_frobenius genQ1 (Fq2.new pi1 0)).getD G.zero

theorem genQ1_eq : affG2 (frobTwist genXY) = genQ1 := by
  have h1 : G2m.q_power_frobenius (G.one : G2) (Fq2.new pi1 0) = some genQ1 := by decide +kernel
  have h2 := q_power_frobenius_eq genXY
  rw [affG2_gen, h1] at h2
  exact (Option.some.inj h2).symm

theorem genQ2_eq : affG2 (frobTwist (frobTwist genXY)) = genQ2 := by
  have h1 : G2m.q_power_frobenius genQ1 (Fq2.new pi1 0) = some genQ2 := by decide +kernel
  have h2 := q_power_frobenius_eq (frobTwist genXY)
  rw [genQ1_eq, h1] at h2
  exact (Option.some.inj h2).symm

theorem gen_order : r • twPt genXY = 0 := by
  rw [twPt_eq, affG2_gen]
  have hz : (((G.one : G2).mul (-(1 : Fr))).add G.one).z = 0 := by decide +kernel
  have h := G2.add_correct _ _ (G2.mul_valid _ G2.one_valid (-(1 : Fr))) G2.one_valid
  rw [G2.toAff_zero _ hz, G2.mul_correct _ G2.one_valid] at h
  have hv : (-(1 : Fr)).val = r - 1 := by decide +kernel
  rw [hv] at h
  have hr1 : r - 1 + 1 = r := by decide +kernel
  calc r • G2.toAff (G.one : G2) = (r - 1 + 1) • G2.toAff (G.one : G2) := by rw [hr1]
    _ = (r - 1) • G2.toAff (G.one : G2) + G2.toAff (G.one : G2) := by rw [add_smul, one_smul]
    _ = 0 := h.symm

/-- `[q]X = [q mod r]X` on `r`-torsion -/
theorem nsmul_mod {A : Type} [AddGroup A] {X : A} (hr : r • X = 0) (k : Nat) : k • X = (k % r) • X := by
  conv_lhs => rw [← Nat.div_add_mod k r, add_nsmul, mul_nsmul, hr, nsmul_zero, zero_add]

/-- the eigenvalue property `π(X) = [q]X`, checked on a Jacobian representative by the model's
    scalar multiplication and equality test -/
theorem eigen_of_test (X Y : G2) (hX : G2.Valid X) (hY : G2.Valid Y) (hr : r • G2.toAff X = 0)
    (ht : (X.mul (Fr.ofNat q)).eq Y = true) : G2.toAff Y = q • G2.toAff X := by
  have h := (G2.eq_iff _ _ (G2.mul_valid X hX _) hY).1 ht
  rw [G2.mul_correct X hX] at h
  rw [nsmul_mod hr q, ← h]
  rfl

theorem gen_eigen1 : twPt (frobTwist genXY) = q • twPt genXY := by
  rw [twPt_eq, twPt_eq, genQ1_eq, affG2_gen]
  have hv : G2.Valid genQ1 := by rw [← genQ1_eq]; exact affG2_valid _ (frobTwist_equation _ gen_on_twist)
  have ho := gen_order
  rw [twPt_eq, affG2_gen] at ho
  exact eigen_of_test _ _ G2.one_valid hv ho (by decide +kernel)

theorem gen_eigen2 : twPt (frobTwist (frobTwist genXY)) = q • twPt (frobTwist genXY) := by
  have hv1 : G2.Valid genQ1 := by rw [← genQ1_eq]; exact affG2_valid _ (frobTwist_equation _ gen_on_twist)
  have hv2 : G2.Valid genQ2 := by
    rw [← genQ2_eq]; exact affG2_valid _ (frobTwist_equation _ (frobTwist_equation _ gen_on_twist))
  have ho : r • G2.toAff genQ1 = 0 := by
    have h1 := gen_eigen1
    rw [twPt_eq, genQ1_eq] at h1
    rw [h1, ← mul_nsmul, mul_comm, mul_nsmul, gen_order, nsmul_zero]
  rw [twPt_eq, twPt_eq, genQ1_eq, genQ2_eq]
  exact eigen_of_test _ _ hv1 hv2 ho (by decide +kernel)

/-- all hypotheses of `fast_pairing_eq_spec_of_eigen` hold for the generator of `G2`: for every
    affine `P` with `yP ≠ 0`, `fast_pairing(P, P2)` is the reduced textbook Miller function -/
theorem fast_pairing_generator (xP yP : Fq) (hyP : yP ≠ 0) :
    Pairings.fast_pairing (⟨xP, yP, 1⟩ : G1) (G.one : G2)
      = .ok (specMiller xP yP genXY.1 genXY.2 ^ ((q ^ 12 - 1) / r)) :=
  fast_pairing_eq_spec_of_eigen xP yP hyP genXY.1 genXY.2 gen_on_twist gen_order gen_eigen1 gen_eigen2

end Miller
end Sm9
