import Lean
import Sm9.Spec.Spec
/-!
# `make_twin`: a copy of an oracle definition with chosen constants turned into parameters

The kernel unfolds matchers (reducibility hint `abbrev`) before regular definitions and then
evaluates the discriminant; for `match Spec.slope2 T Q with …`, `match Spec.frobTwist Q with …`
this runs into `x + q` with the 256-bit literal `q` and never returns.  `make_twin f as g abstracting c₁ … cₙ`
adds `g := fun c₁ … cₙ => (value of f)` with the *same* reducibility height, and the theorem
`g.eq : ∀ xs, f xs = g c₁ … cₙ xs` by `Eq.refl` (both sides unfold in one step to structurally
equal terms, so no matcher is ever reduced).  All reasoning is then done on `g` with abstract parameters.
-/
open Lean Elab Command Meta

elab "make_twin " orig:ident " as " new:ident " abstracting " cs:ident* : command => do
  let origName ← liftCoreM <| realizeGlobalConstNoOverloadWithInfo orig
  let csNames ← cs.mapM fun c => liftCoreM <| realizeGlobalConstNoOverloadWithInfo c
  let ns ← getCurrNamespace
  let newName := ns ++ new.getId
  liftTermElabM do
    let info ← getConstInfoDefn origName
    let decls ← csNames.mapM fun c => do
      let ci ← getConstInfo c
      pure (c.componentsRev.head!, ci.type)
    withLocalDeclsDND decls fun fvars => do
      let value' := info.value.replace fun e =>
        if e.isConst then
          match csNames.idxOf? e.constName! with
          | some i => some fvars[i]!
          | none => none
        else none
      let newVal ← mkLambdaFVars fvars value'
      let newType ← mkForallFVars fvars info.type
      addDecl (.defnDecl { name := newName, levelParams := [], type := newType, value := newVal,
                           hints := info.hints, safety := .safe })
      -- the equation
      let consts := csNames.map fun c => mkConst c
      forallTelescope info.type fun xs _ => do
        let lhs := mkAppN (mkConst origName) xs
        let rhs := mkAppN (mkAppN (mkConst newName) consts) xs
        let stmt ← mkForallFVars xs (← mkEq lhs rhs)
        let prf ← mkLambdaFVars xs (← mkEqRefl lhs)
        addDecl (.thmDecl { name := newName ++ `eq, levelParams := [], type := stmt, value := prf })
