import Sm9.Proofs.SpecField
import Sm9.Proofs.MillerFrobenius
/-!
# The oracle's curve arithmetic (`Spec.slope2`, `ptAdd`, `lineEval`, `frobTwist`)
against Mathlib's `WeierstrassCurve.Affine` on the twist `Jac.Wb b2`, `Miller.lineSpec`, `Miller.frobTwist`
-/
namespace Sm9
namespace SpecCurve
open SpecField Miller WeierstrassCurve
open Fq12 (w ofFq ofFq2)

set_option maxRecDepth 100000

/-- the twist `y² = x³ + 5u` -/
noncomputable abbrev W : Affine Fq2 := Jac.Wb b2

theorem negY_eq (x y : Fq2) : W.negY x y = -y := by
  simp only [Affine.negY, Jac.Wb, zero_mul, sub_zero]

/-- Mathlib's slope on the twist in closed form -/
theorem slope_eq (x1 x2 y1 y2 : Fq2) :
    W.slope x1 x2 y1 y2 =
      if x1 = x2 then (if y1 = -y2 then 0 else 3 * (x1 * x1) * (y1 + y1)⁻¹)
      else (y2 - y1) * (x2 - x1)⁻¹ := by
  by_cases hx : x1 = x2
  · rw [if_pos hx]
    by_cases hy : y1 = -y2
    · rw [if_pos hy, Affine.slope_of_Y_eq hx (by rw [negY_eq]; exact hy)]
    · rw [if_neg hy, Affine.slope_of_Y_ne hx (by rw [negY_eq]; exact hy), negY_eq]
      simp only [Jac.Wb, mul_zero, zero_mul, add_zero, sub_zero, sub_neg_eq_add, div_eq_mul_inv]
      ring
  · rw [if_neg hx, Affine.slope_of_X_ne hx, ← neg_sub y2 y1, ← neg_sub x2 x1, neg_div_neg_eq,
      div_eq_mul_inv]

theorem three_eq : Spec.Q2.ofNat 3 = toQ2 (3 : Fq2) := by
  rw [toQ2_ofNat]; norm_num

/-- **`Spec.slope2` is Mathlib's `slope`** (and `none` exactly for a vertical line) -/
theorem slope2_eq (x1 y1 x2 y2 : Fq2) :
    Spec.slope2 (toQ2 x1, toQ2 y1) (toQ2 x2, toQ2 y2)
      = if x1 = x2 ∧ y1 = -y2 then none else some (toQ2 (W.slope x1 x2 y1 y2)) := by
  unfold Spec.slope2
  simp only [toQ2_sub, toQ2_add, toQ2_isZero, toQ2_mul, toQ2_inv, three_eq, decide_eq_true_eq,
    sub_eq_zero, add_eq_zero_iff_eq_neg]
  rw [slope_eq]
  by_cases hx : x1 = x2
  · by_cases hy : y1 = -y2
    · simp [hx, hy]
    · simp [hx, hy]
  · simp [hx]

/-- points of the twist as the oracle represents them -/
noncomputable def encPt : W.Point → Spec.Pt Spec.Q2
  | .zero => none
  | .some x y _ => some (toQ2 x, toQ2 y)

theorem encPt_zero : encPt (0 : W.Point) = none := rfl
theorem encPt_some {x y : Fq2} (h : W.Nonsingular x y) : encPt (.some x y h) = some (toQ2 x, toQ2 y) := rfl

theorem encPt_injective : Function.Injective encPt := by
  intro A B h
  cases A <;> cases B <;> simp only [encPt, reduceCtorEq, Option.some.injEq, Prod.mk.injEq] at h
  · rfl
  · obtain ⟨h1, h2⟩ := h
    cases toQ2_injective h1; cases toQ2_injective h2; rfl

theorem addX_eq (x1 x2 l : Fq2) : W.addX x1 x2 l = l * l - (x1 + x2) := by
  simp only [Affine.addX, Jac.Wb]; ring
theorem addY_eq (x1 x2 y1 l : Fq2) : W.addY x1 x2 y1 l = l * (x1 - (l * l - (x1 + x2))) - y1 := by
  simp only [Affine.addY, Affine.negAddY, Affine.negY, Affine.addX, Jac.Wb]; ring

/-- **`Spec.ptAdd Spec.opsQ2` is Mathlib's point addition on the twist** -/
theorem ptAdd_eq (A B : W.Point) : Spec.ptAdd Spec.opsQ2 (encPt A) (encPt B) = encPt (A + B) := by
  cases A with
  | zero =>
    show Spec.ptAdd Spec.opsQ2 none (encPt B) = encPt (0 + B)
    rw [zero_add]; rfl
  | some x1 y1 h1 =>
    cases B with
    | zero =>
      show Spec.ptAdd Spec.opsQ2 (some _) none = encPt (_ + 0)
      rw [add_zero]; rfl
    | some x2 y2 h2 =>
      simp only [encPt, Spec.ptAdd, Spec.opsQ2, toQ2_sub, toQ2_add, toQ2_isZero, toQ2_mul, toQ2_inv,
        three_eq, decide_eq_true_eq, sub_eq_zero, add_eq_zero_iff_eq_neg]
      by_cases hx : x1 = x2
      · by_cases hy : y1 = -y2
        · rw [if_pos hx, if_pos hy, Affine.Point.add_of_Y_eq hx (by rw [negY_eq]; exact hy)]
        · have hxy : ¬(x1 = x2 ∧ y1 = W.negY x2 y2) := by rw [negY_eq]; exact fun h => hy h.2
          rw [if_pos hx, if_neg hy, Affine.Point.add_some hxy]
          simp only [addX_eq, addY_eq, slope_eq, if_pos hx, if_neg hy]
      · have hxy : ¬(x1 = x2 ∧ y1 = W.negY x2 y2) := fun h => hx h.1
        rw [if_neg hx, Affine.Point.add_some hxy]
        simp only [addX_eq, addY_eq, slope_eq, if_neg hx]

/-! ## line values -/

theorem natCast_Fq2 (n : ℕ) : (n : Fq2) = ⟨(n : Fq), 0⟩ := by
  rw [← Q2.ev_ofNat]
  unfold evQ2 Spec.Q2.ofNat
  simp only [cast_mod, Nat.cast_zero]

theorem ofNat_val (a : Fq) : Spec.Q2.ofNat a.val = toQ2 (Fq2.new a 0) := by
  rw [toQ2_ofNat, natCast_Fq2, cast_val]; rfl

/-- the body of the `some lam` arm of `Spec.lineEval` (with `w1 = F12.winv` abstracted, see
    `SpecField.toF12_winv`) is `Miller.lineSpec` -/
theorem lineEval_body (xT yT lam : Fq2) (xP yP : Fq) (W1 : Spec.F12) (hW : W1 = toF12 w⁻¹) :
    Spec.F12.add (Spec.F12.ofQ yP.val)
      (Spec.F12.add
        (Spec.F12.mul (Spec.F12.ofQ2 (Spec.Q2.neg (Spec.Q2.mul (toQ2 lam) (Spec.Q2.ofNat xP.val)))) W1)
        (Spec.F12.mul (Spec.F12.ofQ2 (Spec.Q2.sub (Spec.Q2.mul (toQ2 lam) (toQ2 xT)) (toQ2 yT)))
          (Spec.F12.mul W1 (Spec.F12.mul W1 W1))))
      = toF12 (lineSpec xT yT lam xP yP) := by
  subst hW
  rw [ofNat_val, toQ2_mul, toQ2_neg, toQ2_mul, toQ2_sub, toF12_ofQ2, toF12_ofQ2, toF12_ofQ,
    toF12_mul, toF12_mul, toF12_mul, toF12_mul, toF12_add, toF12_add, lineSpec_eq_w]
  congr 1
  rw [map_neg, map_mul, ← Fq12.ofFq_eq_ofFq2, ← inv_pow]
  ring

end SpecCurve
end Sm9
