import Sm9.Proofs.SpecField
import Sm9.Proofs.MillerFrobenius
import Sm9.Proofs.SpecTwin
/-!
# The oracle's curve arithmetic (`Spec.slope2`, `ptAdd`, `lineEval`, `frobTwist`)
against Mathlib's `WeierstrassCurve.Affine` on the twist `Jac.Wb b2`, `Miller.lineSpec`, `Miller.frobTwist`
-/
namespace Sm9
namespace SpecCurve
open SpecField Miller WeierstrassCurve
open Fq12 (w ofFq ofFq2)

set_option maxRecDepth 100000

/-- the twist `y² = x³ + 5u` -/
noncomputable abbrev W : Affine Fq2 := Jac.Wb b2

theorem negY_eq (x y : Fq2) : W.negY x y = -y := by
  simp only [Affine.negY, Jac.Wb, zero_mul, sub_zero]

/-- Mathlib's slope on the twist in closed form -/
theorem slope_eq (x1 x2 y1 y2 : Fq2) :
    W.slope x1 x2 y1 y2 =
      if x1 = x2 then (if y1 = -y2 then 0 else 3 * (x1 * x1) * (y1 + y1)⁻¹)
      else (y2 - y1) * (x2 - x1)⁻¹ := by
  by_cases hx : x1 = x2
  · rw [if_pos hx]
    by_cases hy : y1 = -y2
    · rw [if_pos hy, Affine.slope_of_Y_eq hx (by rw [negY_eq]; exact hy)]
    · rw [if_neg hy, Affine.slope_of_Y_ne hx (by rw [negY_eq]; exact hy), negY_eq]
      simp only [Jac.Wb, mul_zero, zero_mul, add_zero, sub_zero, sub_neg_eq_add, div_eq_mul_inv]
      ring
  · rw [if_neg hx, Affine.slope_of_X_ne hx, ← neg_sub y2 y1, ← neg_sub x2 x1, neg_div_neg_eq,
      div_eq_mul_inv]

theorem three_eq : Spec.Q2.ofNat 3 = toQ2 (3 : Fq2) := by
  rw [toQ2_ofNat]; norm_num

/-- **`Spec.slope2` is Mathlib's `slope`** (and `none` exactly for a vertical line) -/
theorem slope2_eq (x1 y1 x2 y2 : Fq2) :
    Spec.slope2 (toQ2 x1, toQ2 y1) (toQ2 x2, toQ2 y2)
      = if x1 = x2 ∧ y1 = -y2 then none else some (toQ2 (W.slope x1 x2 y1 y2)) := by
  unfold Spec.slope2
  simp only [toQ2_sub, toQ2_add, toQ2_isZero, toQ2_mul, toQ2_inv, three_eq, decide_eq_true_eq,
    sub_eq_zero, add_eq_zero_iff_eq_neg]
  rw [slope_eq]
  by_cases hx : x1 = x2
  · by_cases hy : y1 = -y2
    · simp [hx, hy]
    · simp [hx, hy]
  · simp [hx]

/-- points of the twist as the oracle represents them -/
noncomputable def encPt : W.Point → Spec.Pt Spec.Q2
  | .zero => none
  | .some x y _ => some (toQ2 x, toQ2 y)

theorem encPt_zero : encPt (0 : W.Point) = none := rfl
theorem encPt_some {x y : Fq2} (h : W.Nonsingular x y) : encPt (.some x y h) = some (toQ2 x, toQ2 y) := rfl

theorem encPt_injective : Function.Injective encPt := by
  intro A B h
  cases A <;> cases B <;> simp only [encPt, reduceCtorEq, Option.some.injEq, Prod.mk.injEq] at h
  · rfl
  · obtain ⟨h1, h2⟩ := h
    cases toQ2_injective h1; cases toQ2_injective h2; rfl

theorem addX_eq (x1 x2 l : Fq2) : W.addX x1 x2 l = l * l - (x1 + x2) := by
  simp only [Affine.addX, Jac.Wb]; ring
theorem addY_eq (x1 x2 y1 l : Fq2) : W.addY x1 x2 y1 l = l * (x1 - (l * l - (x1 + x2))) - y1 := by
  simp only [Affine.addY, Affine.negAddY, Affine.negY, Affine.addX, Jac.Wb]; ring

/-- **`Spec.ptAdd Spec.opsQ2` is Mathlib's point addition on the twist** -/
theorem ptAdd_eq (A B : W.Point) : Spec.ptAdd Spec.opsQ2 (encPt A) (encPt B) = encPt (A + B) := by
  cases A with
  | zero =>
    show Spec.ptAdd Spec.opsQ2 none (encPt B) = encPt (0 + B)
    rw [zero_add]; rfl
  | some x1 y1 h1 =>
    cases B with
    | zero =>
      show Spec.ptAdd Spec.opsQ2 (some _) none = encPt (_ + 0)
      rw [add_zero]; rfl
    | some x2 y2 h2 =>
      simp only [encPt, Spec.ptAdd, Spec.opsQ2, toQ2_sub, toQ2_add, toQ2_isZero, toQ2_mul, toQ2_inv,
        three_eq, decide_eq_true_eq, sub_eq_zero, add_eq_zero_iff_eq_neg]
      by_cases hx : x1 = x2
      · by_cases hy : y1 = -y2
        · rw [if_pos hx, if_pos hy, Affine.Point.add_of_Y_eq hx (by rw [negY_eq]; exact hy)]
        · have hxy : ¬(x1 = x2 ∧ y1 = W.negY x2 y2) := by rw [negY_eq]; exact fun h => hy h.2
          rw [if_pos hx, if_neg hy, Affine.Point.add_some hxy]
          simp only [addX_eq, addY_eq, slope_eq, if_pos hx, if_neg hy]
      · have hxy : ¬(x1 = x2 ∧ y1 = W.negY x2 y2) := fun h => hx h.1
        rw [if_neg hx, Affine.Point.add_some hxy]
        simp only [addX_eq, addY_eq, slope_eq, if_neg hx]

/-! ## line values -/

theorem natCast_Fq2 (n : ℕ) : (n : Fq2) = ⟨(n : Fq), 0⟩ := by
  rw [← Q2.ev_ofNat]
  unfold evQ2 Spec.Q2.ofNat
  simp only [cast_mod, Nat.cast_zero]

theorem ofNat_val (a : Fq) : Spec.Q2.ofNat a.val = toQ2 (Fq2.new a 0) := by
  rw [toQ2_ofNat, natCast_Fq2, cast_val]; rfl

/-- the body of the `some lam` arm of `Spec.lineEval` (with `w1 = F12.winv` abstracted, see
    `SpecField.toF12_winv`) is `Miller.lineSpec` -/
theorem lineEval_body (xT yT lam : Fq2) (xP yP : Fq) (W1 : Spec.F12) (hW : W1 = toF12 w⁻¹) :
    Spec.F12.add (Spec.F12.ofQ yP.val)
      (Spec.F12.add
        (Spec.F12.mul (Spec.F12.ofQ2 (Spec.Q2.neg (Spec.Q2.mul (toQ2 lam) (Spec.Q2.ofNat xP.val)))) W1)
        (Spec.F12.mul (Spec.F12.ofQ2 (Spec.Q2.sub (Spec.Q2.mul (toQ2 lam) (toQ2 xT)) (toQ2 yT)))
          (Spec.F12.mul W1 (Spec.F12.mul W1 W1))))
      = toF12 (lineSpec xT yT lam xP yP) := by
  subst hW
  rw [ofNat_val, toQ2_mul, toQ2_neg, toQ2_mul, toQ2_sub, toF12_ofQ2, toF12_ofQ2, toF12_ofQ,
    toF12_mul, toF12_mul, toF12_mul, toF12_mul, toF12_add, toF12_add, lineSpec_eq_w]
  congr 1
  rw [map_neg, map_mul, ← Fq12.ofFq_eq_ofFq2, ← inv_pow]
  ring

make_twin Sm9.Spec.lineEval as lineEvalT abstracting Sm9.Spec.slope2
make_twin Sm9.Spec.frobTwist as frobTwistT abstracting Sm9.Spec.F12.toQ2?


theorem lineEvalT_some (sl : Spec.Q2 × Spec.Q2 → Spec.Q2 × Spec.Q2 → Option Spec.Q2)
    (T Q : Spec.Q2 × Spec.Q2) (P : ℕ × ℕ) (lam : Spec.Q2) (h : sl T Q = some lam) :
    lineEvalT sl T Q P =
      Spec.F12.add (Spec.F12.ofQ P.2)
        (Spec.F12.add
          (Spec.F12.mul (Spec.F12.ofQ2 (Spec.Q2.neg (Spec.Q2.mul lam (Spec.Q2.ofNat P.1)))) Spec.F12.winv)
          (Spec.F12.mul (Spec.F12.ofQ2 (Spec.Q2.sub (Spec.Q2.mul lam T.1) T.2))
            (Spec.F12.mul Spec.F12.winv (Spec.F12.mul Spec.F12.winv Spec.F12.winv)))) := by
  unfold lineEvalT
  rw [h]
theorem lineEval_eq (xT yT xQ yQ : Fq2) (xP yP : Fq) (h : ¬(xT = xQ ∧ yT = -yQ)) :
    Spec.lineEval (toQ2 xT, toQ2 yT) (toQ2 xQ, toQ2 yQ) (xP.val, yP.val)
      = toF12 (lineSpec xT yT (W.slope xT xQ yT yQ) xP yP) := by
  have hs := slope2_eq xT yT xQ yQ
  rw [if_neg h] at hs
  rw [lineEvalT.eq, lineEvalT_some _ _ _ _ _ hs]
  exact lineEval_body xT yT _ xP yP Spec.F12.winv toF12_winv

theorem lineEvalT_none (sl : Spec.Q2 × Spec.Q2 → Spec.Q2 × Spec.Q2 → Option Spec.Q2)
    (T Q : Spec.Q2 × Spec.Q2) (P : ℕ × ℕ) (h : sl T Q = none) :
    lineEvalT sl T Q P =
      Spec.F12.add (Spec.F12.ofQ P.1)
        (Spec.F12.mul (Spec.F12.ofQ2 (Spec.Q2.neg T.1)) (Spec.F12.mul Spec.F12.winv Spec.F12.winv)) := by
  unfold lineEvalT
  rw [h]

theorem lineEval_vertical (xT yT xQ yQ : Fq2) (xP yP : Fq) (h : xT = xQ ∧ yT = -yQ) :
    Spec.lineEval (toQ2 xT, toQ2 yT) (toQ2 xQ, toQ2 yQ) (xP.val, yP.val)
      = toF12 (ofFq xP - ofFq2 xT * (w ^ 2)⁻¹) := by
  have hs := slope2_eq xT yT xQ yQ
  rw [if_pos h] at hs
  rw [lineEvalT.eq, lineEvalT_none _ _ _ _ hs]
  have key : ∀ W1 : Spec.F12, W1 = toF12 w⁻¹ →
      Spec.F12.add (Spec.F12.ofQ xP.val)
        (Spec.F12.mul (Spec.F12.ofQ2 (Spec.Q2.neg (toQ2 xT))) (Spec.F12.mul W1 W1))
      = toF12 (ofFq xP - ofFq2 xT * (w ^ 2)⁻¹) := by
    intro W1 hW
    subst hW
    rw [toQ2_neg, toF12_ofQ2, toF12_ofQ, toF12_mul, toF12_mul, toF12_add]
    congr 1
    rw [map_neg, pow_two, mul_inv]
    ring
  exact key _ toF12_winv
theorem w_ne_zero : w ≠ 0 := by decide +kernel
theorem mono2 : Spec.F12.mono 2 1 = toF12 (w ^ 2) := by decide +kernel
theorem mono3 : Spec.F12.mono 3 1 = toF12 (w ^ 3) := by decide +kernel
theorem frobTwist_body (p : Fq2 × Fq2) (W1 : Spec.F12) (hW : W1 = toF12 w⁻¹) (e : ℕ) (he : e = q) :
    Spec.F12.mul (Spec.F12.pow (Spec.F12.mul (Spec.F12.ofQ2 (toQ2 p.1)) (Spec.F12.mul W1 W1)) e)
        (Spec.F12.mono 2 1) = toF12 (ofFq2 (Miller.frobTwist p).1) ∧
    Spec.F12.mul (Spec.F12.pow (Spec.F12.mul (Spec.F12.ofQ2 (toQ2 p.2))
        (Spec.F12.mul (Spec.F12.mul W1 W1) W1)) e) (Spec.F12.mono 3 1)
      = toF12 (ofFq2 (Miller.frobTwist p).2) := by
  subst hW
  rw [mono2, mono3]
  simp only [toF12_ofQ2, toF12_mul, toF12_pow]
  have e2 : w⁻¹ * w⁻¹ = (w ^ 2)⁻¹ := by rw [pow_two, mul_inv]
  have e3 : w⁻¹ * w⁻¹ * w⁻¹ = (w ^ 3)⁻¹ := by rw [pow_succ, pow_two, mul_inv, mul_inv]
  have hx := frobTwist_untwist_x p
  have hy := frobTwist_untwist_y p
  rw [← he] at hx hy
  constructor
  · rw [e2, ← hx, inv_mul_cancel_right₀ (pow_ne_zero 2 w_ne_zero)]
  · rw [e3, ← hy, inv_mul_cancel_right₀ (pow_ne_zero 3 w_ne_zero)]
theorem frobTwistT_some (tq : Spec.F12 → Option Spec.Q2) (Q : Spec.Q2 × Spec.Q2) (x' y' : Spec.Q2)
    (hx : tq (Spec.F12.mul (Spec.F12.pow (Spec.F12.mul (Spec.F12.ofQ2 Q.1)
        (Spec.F12.mul Spec.F12.winv Spec.F12.winv)) Spec.q) (Spec.F12.mono 2 1)) = some x')
    (hy : tq (Spec.F12.mul (Spec.F12.pow (Spec.F12.mul (Spec.F12.ofQ2 Q.2)
        (Spec.F12.mul (Spec.F12.mul Spec.F12.winv Spec.F12.winv) Spec.F12.winv)) Spec.q) (Spec.F12.mono 3 1)) = some y') :
    frobTwistT tq Q = some (x', y') := by
  unfold frobTwistT
  simp only []
  rw [hx, hy]
theorem frobTwist_eq (p : Fq2 × Fq2) :
    Spec.frobTwist (toQ2 p.1, toQ2 p.2)
      = some (toQ2 (Miller.frobTwist p).1, toQ2 (Miller.frobTwist p).2) := by
  obtain ⟨h1, h2⟩ := frobTwist_body p Spec.F12.winv toF12_winv Spec.q SpecField.q_eq
  rw [frobTwistT.eq]
  apply frobTwistT_some
  · show Spec.F12.toQ2? (Spec.F12.mul (Spec.F12.pow (Spec.F12.mul (Spec.F12.ofQ2 (toQ2 p.1))
        (Spec.F12.mul Spec.F12.winv Spec.F12.winv)) Spec.q) (Spec.F12.mono 2 1)) = _
    rw [h1, toQ2?_toF12_ofFq2]
  · show Spec.F12.toQ2? (Spec.F12.mul (Spec.F12.pow (Spec.F12.mul (Spec.F12.ofQ2 (toQ2 p.2))
        (Spec.F12.mul (Spec.F12.mul Spec.F12.winv Spec.F12.winv) Spec.F12.winv)) Spec.q) (Spec.F12.mono 3 1)) = _
    rw [h2, toQ2?_toF12_ofFq2]

end SpecCurve
end Sm9
