import Sm9.Proofs.Conversions
import Sm9.Proofs.MontInvert
import Sm9.Proofs.Pow
import Sm9.Proofs.FqField
import Sm9.Model.Api
import Mathlib.Tactic.FieldSimp
/-!
# The public scalar / base-field API (`lib.rs`, `impl Fr`, `impl Fq`): limb level refines value level

Abstraction: a stored Montgomery representative `x < p` denotes `Fq.ofMont x = x · R⁻¹ (mod p)`, computed as
`Fp.into_u256 P x` (`R = 2^256`).  For every function of the limb model that the `lib.rs` wrappers call, the theorems
below state (i) the result is again canonical and (ii) its denotation is the value-level operation of
`Sm9/Model/Prim.lean` / `Sm9/Model/Api.lean` applied to the denotations of the arguments.
The generated file `Sm9/Gen/LimbEquiv.lean` composes these with `generated = limb model`.
-/
set_option exponentiation.threshold 1024
set_option maxRecDepth 100000

namespace Sm9

/-! ## generic facts about `into_u256` (any well-formed parameter set) -/
namespace Fp
variable {P : MontParams}

theorem into_lt (hP : P.Ok) (x : Nat) (hx : x < P.modulus) : into_u256 P x < P.modulus :=
  (into_u256_refines hP x hx).1

theorem into_mulW (hP : P.Ok) (x : Nat) (hx : x < P.modulus) : (into_u256 P x * W256) % P.modulus = x :=
  (into_u256_refines hP x hx).2

/-- the denotation is characterised by `v · R ≡ x` -/
theorem into_eq_of (hP : P.Ok) (x v : Nat) (hx : x < P.modulus) (hv : v < P.modulus)
    (h : (v * W256) % P.modulus = x) : into_u256 P x = v :=
  eq_of_mul_W256 hP (into_lt hP x hx) hv (by rw [into_mulW hP x hx, h])

theorem into_inj (hP : P.Ok) (x y : Nat) (hx : x < P.modulus) (hy : y < P.modulus)
    (h : into_u256 P x = into_u256 P y) : x = y := by
  rw [← into_mulW hP x hx, ← into_mulW hP y hy, h]

theorem into_zero (hP : P.Ok) : into_u256 P 0 = 0 := by
  have hpos : 0 < P.modulus := by have := hP.odd; omega
  exact into_eq_of hP 0 0 hpos hpos (by simp)

theorem one_lt (hP : P.Ok) : P.one < P.modulus := by
  have hpos : 0 < P.modulus := by have := hP.odd; omega
  rw [hP.one]; exact Nat.mod_lt _ hpos

theorem into_one (hP : P.Ok) : into_u256 P P.one = 1 := by
  have h1 : 1 < P.modulus := by have := hP.gt; rw [U256.W256_eq] at this; omega
  exact into_eq_of hP _ 1 (one_lt hP) h1 (by rw [one_mul, hP.one])

theorem into_eq_zero_iff (hP : P.Ok) (x : Nat) (hx : x < P.modulus) : into_u256 P x = 0 ↔ x = 0 := by
  have hpos : 0 < P.modulus := by have := hP.odd; omega
  constructor
  · intro h; exact into_inj hP x 0 hx hpos (by rw [h, into_zero hP])
  · intro h; subst h; exact into_zero hP

theorem into_add (hP : P.Ok) (a b : Nat) (ha : a < P.modulus) (hb : b < P.modulus) :
    add P a b < P.modulus ∧ into_u256 P (add P a b) = (into_u256 P a + into_u256 P b) % P.modulus := by
  have hpos : 0 < P.modulus := by omega
  obtain ⟨h1, h2⟩ := U256.add_refines a b P.modulus hP.lt hP.gt ha hb
  refine ⟨h1, into_eq_of hP _ _ h1 (Nat.mod_lt _ hpos) ?_⟩
  show _ = U256.add a b P.modulus
  rw [h2]
  have e1 : (into_u256 P a + into_u256 P b) % P.modulus * W256 ≡ (into_u256 P a + into_u256 P b) * W256 [MOD P.modulus] :=
    (Nat.mod_modEq _ _).mul_right _
  have ea : into_u256 P a * W256 ≡ a [MOD P.modulus] := by
    unfold Nat.ModEq; rw [into_mulW hP a ha, Nat.mod_eq_of_lt ha]
  have eb : into_u256 P b * W256 ≡ b [MOD P.modulus] := by
    unfold Nat.ModEq; rw [into_mulW hP b hb, Nat.mod_eq_of_lt hb]
  have e2 : (into_u256 P a + into_u256 P b) * W256 ≡ a + b [MOD P.modulus] := by
    rw [add_mul]; exact ea.add eb
  exact e1.trans e2

theorem into_sub (hP : P.Ok) (a b : Nat) (ha : a < P.modulus) (hb : b < P.modulus) :
    sub P a b < P.modulus ∧
      (into_u256 P (sub P a b) + into_u256 P b) % P.modulus = into_u256 P a := by
  have hpos : 0 < P.modulus := by omega
  obtain ⟨h1', h2'⟩ := U256.sub_refines a b P.modulus hP.lt ha hb
  have h1 : sub P a b < P.modulus := h1'
  have h2 : (sub P a b + b) % P.modulus = a := h2'
  refine ⟨h1, ?_⟩
  -- (into(sub) + into b) % m is the denotation of (sub + b) % m = a
  have hsum : (sub P a b + b) % P.modulus < P.modulus := Nat.mod_lt _ hpos
  have := into_eq_of hP ((sub P a b + b) % P.modulus) ((into_u256 P (sub P a b) + into_u256 P b) % P.modulus) hsum (Nat.mod_lt _ hpos) (by
    have e1 : (into_u256 P (sub P a b) + into_u256 P b) % P.modulus * W256 ≡ (into_u256 P (sub P a b) + into_u256 P b) * W256 [MOD P.modulus] :=
      (Nat.mod_modEq _ _).mul_right _
    have ea : into_u256 P (sub P a b) * W256 ≡ sub P a b [MOD P.modulus] := by
      unfold Nat.ModEq; rw [into_mulW hP _ h1, Nat.mod_eq_of_lt h1]
    have eb : into_u256 P b * W256 ≡ b [MOD P.modulus] := by
      unfold Nat.ModEq; rw [into_mulW hP b hb, Nat.mod_eq_of_lt hb]
    have e2 : (into_u256 P (sub P a b) + into_u256 P b) * W256 ≡ sub P a b + b [MOD P.modulus] := by
      rw [add_mul]; exact ea.add eb
    exact e1.trans e2)
  rw [← this, h2]

theorem into_neg (hP : P.Ok) (a : Nat) (ha : a < P.modulus) :
    neg P a < P.modulus ∧ (into_u256 P (neg P a) + into_u256 P a) % P.modulus = 0 := by
  have hpos : 0 < P.modulus := by omega
  obtain ⟨h1', h2'⟩ := U256.neg_refines a P.modulus hP.lt ha
  have h1 : neg P a < P.modulus := h1'
  have h2 : (neg P a + a) % P.modulus = 0 := h2'
  refine ⟨h1, ?_⟩
  have := into_eq_of hP ((neg P a + a) % P.modulus) ((into_u256 P (neg P a) + into_u256 P a) % P.modulus) (Nat.mod_lt _ hpos) (Nat.mod_lt _ hpos) (by
    have e1 : (into_u256 P (neg P a) + into_u256 P a) % P.modulus * W256 ≡ (into_u256 P (neg P a) + into_u256 P a) * W256 [MOD P.modulus] :=
      (Nat.mod_modEq _ _).mul_right _
    have ea : into_u256 P (neg P a) * W256 ≡ neg P a [MOD P.modulus] := by
      unfold Nat.ModEq; rw [into_mulW hP _ h1, Nat.mod_eq_of_lt h1]
    have eb : into_u256 P a * W256 ≡ a [MOD P.modulus] := by
      unfold Nat.ModEq; rw [into_mulW hP a ha, Nat.mod_eq_of_lt ha]
    have e2 : (into_u256 P (neg P a) + into_u256 P a) * W256 ≡ neg P a + a [MOD P.modulus] := by
      rw [add_mul]; exact ea.add eb
    exact e1.trans e2)
  rw [← this, h2, into_zero hP]

theorem into_mul_canon (hP : P.Ok) (a b : Nat) (ha : a < P.modulus) (hb : b < P.modulus) :
    mul P a b < P.modulus ∧ into_u256 P (mul P a b) = (into_u256 P a * into_u256 P b) % P.modulus :=
  ⟨(mul_refines hP a b ha hb).1, into_u256_mul hP a b ha hb⟩

theorem into_squared (hP : P.Ok) (a : Nat) (ha : a < P.modulus) :
    squared P a < P.modulus ∧ into_u256 P (squared P a) = (into_u256 P a * into_u256 P a) % P.modulus := by
  rw [squared_eq_mul]; exact into_mul_canon hP a a ha ha

theorem into_double (hP : P.Ok) (a : Nat) (ha : a < P.modulus) :
    double P a < P.modulus ∧ into_u256 P (double P a) = (into_u256 P a + into_u256 P a) % P.modulus := by
  have hd : double P a = add P a a := by
    obtain ⟨_, h2⟩ := U256.mul2_refines a P.modulus hP.lt hP.gt ha
    obtain ⟨_, h4⟩ := U256.add_refines a a P.modulus hP.lt hP.gt ha ha
    show U256.mul2 a P.modulus = U256.add a a P.modulus
    rw [h2, h4, two_mul]
  rw [hd]; exact into_add hP a a ha ha

end Fp

/-- transfer of a fold along an abstraction `φ` that holds on a class `C` of states -/
theorem foldl_abs {σ τ α : Type} (φ : σ → τ) (C : σ → Prop) (f : σ → α → σ) (g : τ → α → τ)
    (h : ∀ s x, C s → C (f s x) ∧ φ (f s x) = g (φ s) x) (l : List α) (s : σ) (hs : C s) :
    C (List.foldl f s l) ∧ φ (List.foldl f s l) = List.foldl g (φ s) l := by
  induction l generalizing s with
  | nil => exact ⟨hs, rfl⟩
  | cons x xs ih =>
    simp only [List.foldl_cons]
    obtain ⟨h1, h2⟩ := h s x hs
    rw [← h2]
    exact ih _ h1

/-! ## limb-level model of the two `lib.rs` wrappers that are more than a forwarding call -/
namespace Fp
/-- `Fr::from_slice` / `Fq::from_slice` of lib.rs: 1..=31 bytes are left-padded and strictly decoded, 32 bytes are
    reduced by a Montgomery multiplication with R², 33..=64 bytes are left-padded and reduced by `interpret` -/
def lib_from_slice (P : MontParams) (hex : List UInt8) : Outcome (Option Nat) :=
  let len := hex.length
  if 1 ≤ len ∧ len ≤ 31 then .ok (Fp.from_slice P (List.replicate (32 - len) 0 ++ hex))
  else if len = 32 then .ok ((U256.from_slice hex).map (Fp.new_mul_factor P))
  else if 33 ≤ len ∧ len ≤ 64 then
    (Fp.interpret P (List.replicate (64 - len) 0 ++ hex)).bind (fun y => .ok (some y))
  else .ok none

theorem beVal_pad (k : Nat) (bs : List UInt8) : beVal (List.replicate k (0 : UInt8) ++ bs) = beVal bs := by
  rw [beVal_append, beVal_replicate_zero, zero_mul, zero_add]

/-- entering Montgomery form then reading back -/
theorem into_mulW_mod (hP : P.Ok) (v : Nat) (hv : v < P.modulus) : into_u256 P (v * W256 % P.modulus) = v := by
  rw [← new_mul_factor_eq hP v hv, into_u256_new_mul_factor hP v hv]
end Fp

/-! ## Fq: `x < q` stored, denotes `Fq.ofMont x` -/
namespace Fq

/-- the value a stored Montgomery representative denotes -/
def ofMont (x : Nat) : Fq := Fq.ofNat (Fp.into_u256 paramsQ x)

theorem hQ : paramsQ.modulus = Consts.FQ := rfl
theorem q_eq : q = Consts.FQ := rfl

theorem ext_val {a b : Fq} (h : a.val = b.val) : a = b := Fin.ext h
theorem val_ofNat (n : Nat) : (Fq.ofNat n).val = n % Consts.FQ := rfl
theorem val_add_eq (a b : Fq) : (a + b).val = (a.val + b.val) % Consts.FQ := by cases a; cases b; rfl
theorem val_mul_eq (a b : Fq) : (a * b).val = (a.val * b.val) % Consts.FQ := by cases a; cases b; rfl

theorem ofMont_val (x : Nat) (hx : x < Consts.FQ) : (ofMont x).val = Fp.into_u256 paramsQ x := by
  unfold ofMont
  rw [val_ofNat]
  exact Nat.mod_eq_of_lt (Fp.into_lt paramsQ_ok x hx)

theorem ofNat_val (a : Fq) : Fq.ofNat a.val = a := by
  apply ext_val; exact Nat.mod_eq_of_lt a.isLt

theorem ofMont_zero : ofMont Fp.zero = 0 := by
  apply ext_val; show Fp.into_u256 paramsQ 0 % Consts.FQ = _; rw [Fp.into_zero paramsQ_ok]; rfl

theorem ofMont_one : ofMont (Fp.one paramsQ) = 1 := by
  apply ext_val; show Fp.into_u256 paramsQ paramsQ.one % Consts.FQ = _; rw [Fp.into_one paramsQ_ok]; rfl

theorem one_canon : Fp.one paramsQ < Consts.FQ := Fp.one_lt paramsQ_ok
theorem zero_canon : (Fp.zero : Nat) < Consts.FQ := by decide +kernel

theorem ofMont_inj (x y : Nat) (hx : x < Consts.FQ) (hy : y < Consts.FQ) (h : ofMont x = ofMont y) : x = y := by
  apply Fp.into_inj paramsQ_ok x y hx hy
  rw [← ofMont_val x hx, ← ofMont_val y hy, h]

theorem add_refines (a b : Nat) (ha : a < Consts.FQ) (hb : b < Consts.FQ) :
    Fp.add paramsQ a b < Consts.FQ ∧ ofMont (Fp.add paramsQ a b) = ofMont a + ofMont b := by
  obtain ⟨h1, h2⟩ := Fp.into_add paramsQ_ok a b ha hb
  refine ⟨h1, ext_val ?_⟩
  rw [val_add_eq, ofMont_val _ h1, ofMont_val a ha, ofMont_val b hb, h2]; rfl

theorem mul_refines (a b : Nat) (ha : a < Consts.FQ) (hb : b < Consts.FQ) :
    Fp.mul paramsQ a b < Consts.FQ ∧ ofMont (Fp.mul paramsQ a b) = ofMont a * ofMont b := by
  obtain ⟨h1, h2⟩ := Fp.into_mul_canon paramsQ_ok a b ha hb
  refine ⟨h1, ext_val ?_⟩
  rw [val_mul_eq, ofMont_val _ h1, ofMont_val a ha, ofMont_val b hb, h2]; rfl

theorem squared_refines (a : Nat) (ha : a < Consts.FQ) :
    Fp.squared paramsQ a < Consts.FQ ∧ ofMont (Fp.squared paramsQ a) = ofMont a * ofMont a := by
  rw [Fp.squared_eq_mul]; exact mul_refines a a ha ha

theorem double_refines (a : Nat) (ha : a < Consts.FQ) :
    Fp.double paramsQ a < Consts.FQ ∧ ofMont (Fp.double paramsQ a) = ofMont a + ofMont a := by
  obtain ⟨h1, h2⟩ := Fp.into_double paramsQ_ok a ha
  refine ⟨h1, ext_val ?_⟩
  rw [val_add_eq, ofMont_val _ h1, ofMont_val a ha, h2]; rfl

theorem sub_refines (a b : Nat) (ha : a < Consts.FQ) (hb : b < Consts.FQ) :
    Fp.sub paramsQ a b < Consts.FQ ∧ ofMont (Fp.sub paramsQ a b) = ofMont a - ofMont b := by
  obtain ⟨h1, h2⟩ := Fp.into_sub paramsQ_ok a b ha hb
  refine ⟨h1, ?_⟩
  have : ofMont (Fp.sub paramsQ a b) + ofMont b = ofMont a := by
    apply ext_val
    rw [val_add_eq, ofMont_val _ h1, ofMont_val a ha, ofMont_val b hb]; exact h2
  exact eq_sub_of_add_eq this

theorem neg_refines (a : Nat) (ha : a < Consts.FQ) :
    Fp.neg paramsQ a < Consts.FQ ∧ ofMont (Fp.neg paramsQ a) = - ofMont a := by
  obtain ⟨h1, h2⟩ := Fp.into_neg paramsQ_ok a ha
  refine ⟨h1, ?_⟩
  have : ofMont (Fp.neg paramsQ a) + ofMont a = 0 := by
    apply ext_val
    rw [val_add_eq, ofMont_val _ h1, ofMont_val a ha]; exact h2
  exact eq_neg_of_add_eq_zero_left this

theorem is_zero_refines (a : Nat) (ha : a < Consts.FQ) : Fp.is_zero a = (ofMont a).is_zero := by
  unfold Fp.is_zero Fq.is_zero
  rw [ofMont_val a ha]
  by_cases h : a = 0
  · subst h; rw [Fp.into_zero paramsQ_ok]
  · have h2 : Fp.into_u256 paramsQ a ≠ 0 := fun e => h ((Fp.into_eq_zero_iff paramsQ_ok a ha).mp e)
    simp [h, h2]

theorem is_one_refines (a : Nat) (ha : a < Consts.FQ) : FqL.is_one a = (ofMont a).is_one := by
  unfold FqL.is_one Fq.is_one
  rw [ofMont_val a ha]
  by_cases h : a = Fp.one FqL.P
  · subst h
    have : Fp.into_u256 paramsQ (Fp.one FqL.P) = 1 := Fp.into_one paramsQ_ok
    rw [this]; simp
  · have h2 : Fp.into_u256 paramsQ a ≠ 1 := by
      intro e
      apply h
      apply Fp.into_inj paramsQ_ok a _ ha one_canon
      rw [e]; exact (Fp.into_one paramsQ_ok).symm
    simp [h, h2]

theorem new_mul_factor_refines (v : Nat) (hv : v < W256) :
    Fp.new_mul_factor paramsQ v < Consts.FQ ∧ ofMont (Fp.new_mul_factor paramsQ v) = Fq.ofNat v := by
  obtain ⟨h1, h2⟩ := Fp.new_mul_factor_reduces paramsQ_ok v hv
  refine ⟨h1, ext_val ?_⟩
  rw [ofMont_val _ h1, val_ofNat, h2]; rfl

theorem into_u256_refines (a : Nat) (ha : a < Consts.FQ) : Fp.into_u256 paramsQ a = (ofMont a).val := by
  rw [ofMont_val a ha]

theorem to_slice_refines (a : Nat) (ha : a < Consts.FQ) : Fp.to_slice paramsQ a = Api.fqToSlice (ofMont a) := by
  unfold Fp.to_slice Api.fqToSlice
  rw [← ofMont_val a ha]

theorem is_even_refines (a : Nat) (ha : a < Consts.FQ) : Big.is_even (Fp.into_u256 paramsQ a) = (ofMont a).is_even := by
  unfold Big.is_even Fq.is_even
  rw [ofMont_val a ha]

theorem to_big_endian_refines (a : Nat) (ha : a < Consts.FQ) (n : Nat) :
    U256.to_big_endian (Fp.into_u256 paramsQ a) n = Api.fqToBigEndian (ofMont a) n := by
  unfold U256.to_big_endian Api.fqToBigEndian
  rw [← ofMont_val a ha]
  by_cases h : n = 32
  · subst h; rfl
  · simp [h]

/-- step of `FieldElement::pow` on stored values / on values -/
def powStepL (a : Nat) (s : Nat) (x : Bool) : Nat := let res := Fp.squared paramsQ s; if x then Fp.mul paramsQ res a else res
def powStepV (a : Fq) (s : Fq) (x : Bool) : Fq := let res := s * s; if x then res * a else res

theorem powStep_refines (a : Nat) (ha : a < Consts.FQ) (s : Nat) (x : Bool) (hs : s < Consts.FQ) :
    powStepL a s x < Consts.FQ ∧ ofMont (powStepL a s x) = powStepV (ofMont a) (ofMont s) x := by
  obtain ⟨h1, h2⟩ := squared_refines s hs
  cases x
  · simp only [powStepL, powStepV, Bool.false_eq_true, if_false]
    exact ⟨h1, h2⟩
  · obtain ⟨h3, h4⟩ := mul_refines _ a h1 ha
    simp only [powStepL, powStepV, if_true]
    refine ⟨h3, ?_⟩
    rw [h4, h2]

/-- `FieldElement::pow` at limb level: same schedule as the value-level `Fq.pow`, exponent = denotation of `e` -/
theorem pow_refines (a e : Nat) (ha : a < Consts.FQ) :
    Fp.pow paramsQ a e < Consts.FQ ∧ ofMont (Fp.pow paramsQ a e) = (ofMont a).pow (Fp.into_u256 paramsQ e) := by
  obtain ⟨h1, h2⟩ := foldl_abs ofMont (fun x => x < Consts.FQ) (powStepL a) (powStepV (ofMont a))
    (fun s x hs => powStep_refines a ha s x hs) (bitsMSB (Fp.into_u256 paramsQ e)) (Fp.one paramsQ) one_canon
  have e1 : Fp.pow paramsQ a e = List.foldl (powStepL a) (Fp.one paramsQ) (bitsMSB (Fp.into_u256 paramsQ e)) := by
    unfold Fp.pow powStepL; rfl
  have e2 : (ofMont a).pow (Fp.into_u256 paramsQ e) = List.foldl (powStepV (ofMont a)) 1 (bitsMSB (Fp.into_u256 paramsQ e)) := by
    unfold Fq.pow powStepV; rfl
  rw [e1, e2, ← ofMont_one]
  exact ⟨h1, h2⟩

theorem inverse_refines (a : Nat) (ha : a < Consts.FQ) :
    ∃ o, Fp.inverse paramsQ a = some o ∧ o.map ofMont = (ofMont a).inverse ∧ ∀ y, o = some y → y < Consts.FQ := by
  obtain ⟨h0, h1⟩ := Fp.inverse_refines_q a ha
  by_cases hz : a = 0
  · refine ⟨none, h0 hz, ?_, by intro y h; cases h⟩
    subst hz
    have : (ofMont 0).is_zero = true := by rw [← is_zero_refines 0 ha]; rfl
    unfold Fq.inverse; rw [this]; rfl
  · obtain ⟨y, hy, hylt, hmul⟩ := h1 hz
    refine ⟨some y, hy, ?_, by intro y' h; cases h; exact hylt⟩
    have hnz : ofMont a ≠ 0 := by
      intro e
      have := (Fq.is_zero_iff (ofMont a)).mpr e
      rw [← is_zero_refines a ha] at this
      exact hz (by simpa [Fp.is_zero] using this)
    have hprod : ofMont y * ofMont a = 1 := by
      rw [← (mul_refines y a hylt ha).2, hmul]; exact ofMont_one
    have hne : (ofMont a).is_zero = false := by
      cases h : (ofMont a).is_zero
      · rfl
      · exact absurd ((Fq.is_zero_iff _).mp h) hnz
    unfold Fq.inverse
    rw [hne, Fq.pow_eq]
    simp only [Option.map_some, Bool.false_eq_true, if_false]
    refine congrArg some ?_
    -- uniqueness of the inverse
    have h2 := Fq.pow_sub_two_mul (ofMont a) hnz
    calc ofMont y = ofMont y * ((ofMont a) ^ (q - 2) * ofMont a) := by rw [h2, mul_one]
      _ = (ofMont y * ofMont a) * (ofMont a) ^ (q - 2) := by ring
      _ = (ofMont a) ^ (q - 2) := by rw [hprod, one_mul]

theorem interpret_refines (bs : List UInt8) (h : bs.length = 64) :
    ∃ y, Fp.interpret paramsQ bs = .ok y ∧ y < Consts.FQ ∧ ofMont y = Fq.ofNat (beVal bs) := by
  obtain ⟨y, h1, h2, h3⟩ := Fp.interpret_spec paramsQ_ok bs h
  refine ⟨y, h1, h2, ext_val ?_⟩
  rw [ofMont_val y h2, val_ofNat, h3]; rfl

theorem pow256_31_lt : 256 ^ 31 < Consts.FQ := by decide +kernel

/-- strict 32-byte decoder `fields::Fq::from_slice` = `Api.fqFromSliceStrict` (and `fields::Fr::from_slice`) -/
theorem from_slice_strict_refines (bs : List UInt8) :
    (Fp.from_slice paramsQ bs).map ofMont = (if bs.length = 32 then Fq.new (beVal bs) else none) ∧
    ∀ y, Fp.from_slice paramsQ bs = some y → y < Consts.FQ := by
  have hpos : 0 < Consts.FQ := by decide +kernel
  rw [Fp.from_slice_strict_spec paramsQ_ok, hQ]
  by_cases hl : bs.length = 32
  · by_cases hv : beVal bs < Consts.FQ
    · have hc : bs.length = 32 ∧ beVal bs < Consts.FQ := ⟨hl, hv⟩
      rw [if_pos hc, if_pos hl]
      refine ⟨?_, ?_⟩
      · unfold Fq.new
        rw [dif_pos (show beVal bs < q from hv)]
        simp only [Option.map_some]
        refine congrArg some (ext_val ?_)
        rw [ofMont_val _ (Nat.mod_lt _ hpos)]
        exact Fp.into_mulW_mod paramsQ_ok _ hv
      · intro y hy; rw [Option.some.injEq] at hy; subst hy; exact Nat.mod_lt _ hpos
    · have hc : ¬ (bs.length = 32 ∧ beVal bs < Consts.FQ) := fun c => hv c.2
      rw [if_neg hc, if_pos hl]
      refine ⟨?_, by intro y hy; cases hy⟩
      unfold Fq.new
      rw [dif_neg (show ¬ beVal bs < q from hv)]; rfl
  · have hc : ¬ (bs.length = 32 ∧ beVal bs < Consts.FQ) := fun c => hl c.1
    rw [if_neg hc, if_neg hl]
    exact ⟨rfl, by intro y hy; cases hy⟩

/-- `Fq::from_slice` of lib.rs (all three length arms) = `Api.fqFromSlice` -/
theorem lib_from_slice_refines (bs : List UInt8) :
    ∃ o, Fp.lib_from_slice paramsQ bs = .ok o ∧ o.map ofMont = Api.fqFromSlice bs ∧
      ∀ y, o = some y → y < Consts.FQ := by
  have hpos : 0 < Consts.FQ := by decide +kernel
  unfold Fp.lib_from_slice Api.fqFromSlice
  simp only []
  by_cases h1 : 1 ≤ bs.length ∧ bs.length ≤ 31
  · rw [if_pos h1, if_pos (by omega : 1 ≤ bs.length ∧ bs.length ≤ 64)]
    have hlen : (List.replicate (32 - bs.length) (0 : UInt8) ++ bs).length = 32 := by
      rw [List.length_append, List.length_replicate]; omega
    have hval : beVal bs < Consts.FQ := by
      have := beVal_lt bs
      have h2 : 256 ^ bs.length ≤ 256 ^ 31 := Nat.pow_le_pow_right (by decide) h1.2
      have := pow256_31_lt
      omega
    obtain ⟨hs1, hs2⟩ := from_slice_strict_refines (List.replicate (32 - bs.length) (0 : UInt8) ++ bs)
    refine ⟨_, rfl, ?_, fun y hy => hs2 y hy⟩
    rw [hs1, if_pos hlen, Fp.beVal_pad]
    unfold Fq.new
    rw [dif_pos (show beVal bs < q from hval)]
    refine congrArg some (ext_val ?_)
    rw [val_ofNat]; exact (Nat.mod_eq_of_lt hval).symm
  · rw [if_neg h1]
    by_cases h2 : bs.length = 32
    · rw [if_pos h2, if_pos (by omega : 1 ≤ bs.length ∧ bs.length ≤ 64)]
      have hfs : U256.from_slice bs = some (beVal bs) := by unfold U256.from_slice; simp [h2]
      have hv : beVal bs < W256 := by have := beVal_lt bs; rw [h2, pow256_32] at this; exact this
      obtain ⟨hn1, hn2⟩ := new_mul_factor_refines (beVal bs) hv
      refine ⟨_, rfl, ?_, ?_⟩
      · rw [hfs]; simp only [Option.map_some]; rw [hn2]
      · intro y hy; rw [hfs] at hy; simp only [Option.map_some, Option.some.injEq] at hy; subst hy; exact hn1
    · rw [if_neg h2]
      by_cases h3 : 33 ≤ bs.length ∧ bs.length ≤ 64
      · rw [if_pos h3, if_pos (by omega : 1 ≤ bs.length ∧ bs.length ≤ 64)]
        have hlen : (List.replicate (64 - bs.length) (0 : UInt8) ++ bs).length = 64 := by
          rw [List.length_append, List.length_replicate]; omega
        obtain ⟨y, hy1, hy2, hy3⟩ := interpret_refines _ hlen
        refine ⟨some y, ?_, ?_, ?_⟩
        · rw [hy1]; rfl
        · simp only [Option.map_some]; rw [hy3, Fp.beVal_pad]
        · intro y' hy'; rw [Option.some.injEq] at hy'; subst hy'; exact hy2
      · rw [if_neg h3, if_neg (by omega : ¬ (1 ≤ bs.length ∧ bs.length ≤ 64))]
        exact ⟨none, rfl, rfl, by intro y hy; cases hy⟩

/-! ### `from_str` -/

theorem ofNat_add (a b : Nat) : Fq.ofNat (a + b) = Fq.ofNat a + Fq.ofNat b := by
  apply ext_val; rw [val_add_eq, val_ofNat, val_ofNat, val_ofNat]; exact Nat.add_mod _ _ _
theorem ofNat_mul (a b : Nat) : Fq.ofNat (a * b) = Fq.ofNat a * Fq.ofNat b := by
  apply ext_val; rw [val_mul_eq, val_ofNat, val_ofNat, val_ofNat]; exact Nat.mul_mod _ _ _

/-- the table `ints` of `from_str`: Montgomery representatives of 0..10 -/
def strInts : List Nat :=
  ((List.range 11).foldl (fun (st : List Nat × Nat) _ => (st.1 ++ [st.2], Fp.add paramsQ st.2 (Fp.one paramsQ))) ([], Fp.zero)).1

theorem strInts_spec : ∀ k, k < 11 → strInts.getD k 0 < Consts.FQ ∧ Fp.into_u256 paramsQ (strInts.getD k 0) = k := by
  decide +kernel

theorem strInts_ofMont (k : Nat) (hk : k < 11) : strInts.getD k 0 < Consts.FQ ∧ ofMont (strInts.getD k 0) = Fq.ofNat k := by
  obtain ⟨h1, h2⟩ := strInts_spec k hk
  refine ⟨h1, ext_val ?_⟩
  rw [ofMont_val _ h1, h2, val_ofNat]
  exact (Nat.mod_eq_of_lt (by have : (11 : Nat) < Consts.FQ := by decide +kernel
                              omega)).symm

def strStepL (res : Option Nat) (c : Char) : Option Nat :=
  match res with
  | none => none
  | some res =>
    if c.isDigit then
      some (Fp.add paramsQ (Fp.mul paramsQ res (strInts.getD 10 0)) (strInts.getD (c.toNat - 48) 0))
    else none

theorem from_str_eq (s : List Char) : Fp.from_str paramsQ s = s.foldl strStepL (some Fp.zero) := rfl

theorem foldl_strStepL_none (s : List Char) : s.foldl strStepL none = none := by
  induction s with
  | nil => rfl
  | cons c cs ih => exact ih

theorem digit_lt (c : Char) (h : c.isDigit = true) : c.toNat - 48 < 11 := by
  simp only [Char.isDigit, Bool.and_eq_true, decide_eq_true_eq] at h
  have : c.toNat ≤ 57 := by show c.val.toNat ≤ 57; exact UInt32.le_iff_toNat_le.mp h.2
  omega

theorem from_str_fold (s : List Char) (res acc : Nat) (hres : res < Consts.FQ) (hv : ofMont res = Fq.ofNat acc) :
    (s.foldl strStepL (some res)).map ofMont =
      (if s.all Char.isDigit then some (Fq.ofNat (s.foldl (fun acc c => acc * 10 + (c.toNat - 48)) acc)) else none) ∧
    ∀ y, s.foldl strStepL (some res) = some y → y < Consts.FQ := by
  induction s generalizing res acc with
  | nil => exact ⟨by simp [hv], by intro y hy; simp at hy; subst hy; exact hres⟩
  | cons c cs ih =>
    simp only [List.foldl_cons, List.all_cons]
    by_cases hd : c.isDigit = true
    · have hstep : strStepL (some res) c =
          some (Fp.add paramsQ (Fp.mul paramsQ res (strInts.getD 10 0)) (strInts.getD (c.toNat - 48) 0)) := by
        simp [strStepL, hd]
      obtain ⟨t1, t2⟩ := strInts_ofMont 10 (by decide)
      obtain ⟨d1, d2⟩ := strInts_ofMont (c.toNat - 48) (digit_lt c hd)
      obtain ⟨m1, m2⟩ := mul_refines res _ hres t1
      obtain ⟨a1, a2⟩ := add_refines _ _ m1 d1
      rw [hstep]
      have hv' : ofMont (Fp.add paramsQ (Fp.mul paramsQ res (strInts.getD 10 0)) (strInts.getD (c.toNat - 48) 0))
          = Fq.ofNat (acc * 10 + (c.toNat - 48)) := by
        rw [a2, m2, hv, t2, d2, ofNat_add, ofNat_mul]
      have := ih _ _ a1 hv'
      simp only [hd, Bool.true_and]
      exact this
    · have hf : c.isDigit = false := by simpa using hd
      have : strStepL (some res) c = none := by simp [strStepL, hf]
      rw [this, foldl_strStepL_none]
      simp only [hf, Bool.false_and]
      exact ⟨by simp, by intro y hy; cases hy⟩

/-- `fields::Fq::from_str` (decimal string) = `Api.fqFromStr` -/
theorem from_str_refines (s : List Char) :
    (Fp.from_str paramsQ s).map ofMont = Api.fqFromStr s ∧ ∀ y, Fp.from_str paramsQ s = some y → y < Consts.FQ := by
  rw [from_str_eq]
  exact from_str_fold s Fp.zero 0 zero_canon (by rw [ofMont_zero]; rfl)

/-! ### `sqrt` -/

theorem minus1_div4_val : Fp.into_u256 paramsQ FqL.minus1_div4 = Fq.minus1_div4 := by decide +kernel
theorem minus5_div8_val : Fp.into_u256 paramsQ FqL.minus5_div8 = Fq.minus5_div8 := by decide +kernel

/-- the candidate root `res` of `Fq::sqrt`, on stored values / on values -/
def sqrtResL (x : Nat) : Nat :=
  let a1a := Fp.pow paramsQ x FqL.minus1_div4
  if FqL.is_one a1a then Fp.mul paramsQ (Fp.pow paramsQ x FqL.minus5_div8) x
  else if FqL.is_one (Fp.neg paramsQ a1a) then
    let a := Fp.double paramsQ x
    let b := Fp.pow paramsQ (Fp.double paramsQ a) FqL.minus5_div8
    Fp.mul paramsQ a b
  else Fp.zero
def sqrtResV (x : Fq) : Fq :=
  let a1a := x.pow Fq.minus1_div4
  if a1a.is_one then x.pow Fq.minus5_div8 * x
  else if (-a1a).is_one then
    let a := x.double
    let b := a.double.pow Fq.minus5_div8
    a * b
  else 0

theorem sqrtRes_refines (x : Nat) (hx : x < Consts.FQ) :
    sqrtResL x < Consts.FQ ∧ ofMont (sqrtResL x) = sqrtResV (ofMont x) := by
  obtain ⟨p1c, p1⟩ := pow_refines x FqL.minus1_div4 hx
  rw [minus1_div4_val] at p1
  obtain ⟨p5c, p5⟩ := pow_refines x FqL.minus5_div8 hx
  rw [minus5_div8_val] at p5
  obtain ⟨nc, nv⟩ := neg_refines _ p1c
  unfold sqrtResL sqrtResV
  simp only []
  rw [is_one_refines _ p1c, is_one_refines _ nc, nv, p1]
  by_cases h1 : ((ofMont x).pow Fq.minus1_div4).is_one = true
  · rw [if_pos h1, if_pos h1]
    obtain ⟨mc, mv⟩ := mul_refines _ x p5c hx
    exact ⟨mc, by rw [mv, p5]⟩
  · rw [if_neg h1, if_neg h1]
    by_cases h2 : (-(ofMont x).pow Fq.minus1_div4).is_one = true
    · rw [if_pos h2, if_pos h2]
      obtain ⟨dc, dv⟩ := double_refines x hx
      obtain ⟨ddc, ddv⟩ := double_refines _ dc
      obtain ⟨pc, pv⟩ := pow_refines (Fp.double paramsQ (Fp.double paramsQ x)) FqL.minus5_div8 ddc
      rw [minus5_div8_val] at pv
      obtain ⟨mc, mv⟩ := mul_refines _ _ dc pc
      refine ⟨mc, ?_⟩
      rw [mv, pv, ddv, dv]; rfl
    · rw [if_neg h2, if_neg h2]
      exact ⟨zero_canon, ofMont_zero⟩

theorem sqrtL_eq (x : Nat) : FqL.sqrt x =
    (if Fp.is_zero x then some Fp.zero else
      if Fp.is_zero (sqrtResL x) then none else
        some (if Fp.into_u256 paramsQ (Fp.neg paramsQ (sqrtResL x)) < Fp.into_u256 paramsQ (sqrtResL x)
              then Fp.neg paramsQ (sqrtResL x) else sqrtResL x)) := rfl

theorem sqrtV_eq (x : Fq) : x.sqrt =
    (if x.is_zero then some 0 else
      if (sqrtResV x).is_zero then none else
        some (if (-(sqrtResV x)).val < (sqrtResV x).val then -(sqrtResV x) else sqrtResV x)) := rfl

/-- `Fq::sqrt` (fp.rs) at limb level = value-level `Fq.sqrt` -/
theorem sqrt_refines (x : Nat) (hx : x < Consts.FQ) :
    (FqL.sqrt x).map ofMont = (ofMont x).sqrt ∧ ∀ y, FqL.sqrt x = some y → y < Consts.FQ := by
  obtain ⟨rc, rv⟩ := sqrtRes_refines x hx
  obtain ⟨nc, nv⟩ := neg_refines _ rc
  rw [sqrtL_eq, sqrtV_eq, is_zero_refines x hx, is_zero_refines _ rc, rv]
  by_cases hz : (ofMont x).is_zero = true
  · rw [if_pos hz, if_pos hz]
    exact ⟨by simp [ofMont_zero], by intro y hy; rw [Option.some.injEq] at hy; subst hy; exact zero_canon⟩
  · rw [if_neg hz, if_neg hz]
    by_cases hr : (sqrtResV (ofMont x)).is_zero = true
    · rw [if_pos hr, if_pos hr]
      exact ⟨rfl, by intro y hy; cases hy⟩
    · rw [if_neg hr, if_neg hr]
      rw [← ofMont_val _ nc, ← ofMont_val _ rc, nv, rv]
      by_cases hlt : (-(sqrtResV (ofMont x))).val < (sqrtResV (ofMont x)).val
      · rw [if_pos hlt, if_pos hlt]
        exact ⟨by simp [nv, rv], by intro y hy; rw [Option.some.injEq] at hy; subst hy; exact nc⟩
      · rw [if_neg hlt, if_neg hlt]
        exact ⟨by simp [rv], by intro y hy; rw [Option.some.injEq] at hy; subst hy; exact rc⟩

end Fq

/-! ## Fr: the same development for the scalar field -/
/-! ## Fr: `x < q` stored, denotes `Fr.ofMont x` -/
namespace Fr

/-- the value a stored Montgomery representative denotes -/
def ofMont (x : Nat) : Fr := Fr.ofNat (Fp.into_u256 paramsR x)

theorem hR : paramsR.modulus = Consts.FR := rfl
theorem r_eq : r = Consts.FR := rfl

theorem ext_val {a b : Fr} (h : a.val = b.val) : a = b := Fin.ext h
theorem val_ofNat (n : Nat) : (Fr.ofNat n).val = n % Consts.FR := rfl
theorem val_add_eq (a b : Fr) : (a + b).val = (a.val + b.val) % Consts.FR := by cases a; cases b; rfl
theorem val_mul_eq (a b : Fr) : (a * b).val = (a.val * b.val) % Consts.FR := by cases a; cases b; rfl

theorem ofMont_val (x : Nat) (hx : x < Consts.FR) : (ofMont x).val = Fp.into_u256 paramsR x := by
  unfold ofMont
  rw [val_ofNat]
  exact Nat.mod_eq_of_lt (Fp.into_lt paramsR_ok x hx)

theorem ofNat_val (a : Fr) : Fr.ofNat a.val = a := by
  apply ext_val; exact Nat.mod_eq_of_lt a.isLt

theorem ofMont_zero : ofMont Fp.zero = 0 := by
  apply ext_val; show Fp.into_u256 paramsR 0 % Consts.FR = _; rw [Fp.into_zero paramsR_ok]; rfl

theorem ofMont_one : ofMont (Fp.one paramsR) = 1 := by
  apply ext_val; show Fp.into_u256 paramsR paramsR.one % Consts.FR = _; rw [Fp.into_one paramsR_ok]; rfl

theorem one_canon : Fp.one paramsR < Consts.FR := Fp.one_lt paramsR_ok
theorem zero_canon : (Fp.zero : Nat) < Consts.FR := by decide +kernel

theorem ofMont_inj (x y : Nat) (hx : x < Consts.FR) (hy : y < Consts.FR) (h : ofMont x = ofMont y) : x = y := by
  apply Fp.into_inj paramsR_ok x y hx hy
  rw [← ofMont_val x hx, ← ofMont_val y hy, h]

theorem add_refines (a b : Nat) (ha : a < Consts.FR) (hb : b < Consts.FR) :
    Fp.add paramsR a b < Consts.FR ∧ ofMont (Fp.add paramsR a b) = ofMont a + ofMont b := by
  obtain ⟨h1, h2⟩ := Fp.into_add paramsR_ok a b ha hb
  refine ⟨h1, ext_val ?_⟩
  rw [val_add_eq, ofMont_val _ h1, ofMont_val a ha, ofMont_val b hb, h2]; rfl

theorem mul_refines (a b : Nat) (ha : a < Consts.FR) (hb : b < Consts.FR) :
    Fp.mul paramsR a b < Consts.FR ∧ ofMont (Fp.mul paramsR a b) = ofMont a * ofMont b := by
  obtain ⟨h1, h2⟩ := Fp.into_mul_canon paramsR_ok a b ha hb
  refine ⟨h1, ext_val ?_⟩
  rw [val_mul_eq, ofMont_val _ h1, ofMont_val a ha, ofMont_val b hb, h2]; rfl

theorem squared_refines (a : Nat) (ha : a < Consts.FR) :
    Fp.squared paramsR a < Consts.FR ∧ ofMont (Fp.squared paramsR a) = ofMont a * ofMont a := by
  rw [Fp.squared_eq_mul]; exact mul_refines a a ha ha

theorem double_refines (a : Nat) (ha : a < Consts.FR) :
    Fp.double paramsR a < Consts.FR ∧ ofMont (Fp.double paramsR a) = ofMont a + ofMont a := by
  obtain ⟨h1, h2⟩ := Fp.into_double paramsR_ok a ha
  refine ⟨h1, ext_val ?_⟩
  rw [val_add_eq, ofMont_val _ h1, ofMont_val a ha, h2]; rfl

theorem sub_refines (a b : Nat) (ha : a < Consts.FR) (hb : b < Consts.FR) :
    Fp.sub paramsR a b < Consts.FR ∧ ofMont (Fp.sub paramsR a b) = ofMont a - ofMont b := by
  obtain ⟨h1, h2⟩ := Fp.into_sub paramsR_ok a b ha hb
  refine ⟨h1, ?_⟩
  have : ofMont (Fp.sub paramsR a b) + ofMont b = ofMont a := by
    apply ext_val
    rw [val_add_eq, ofMont_val _ h1, ofMont_val a ha, ofMont_val b hb]; exact h2
  exact eq_sub_of_add_eq this

theorem neg_refines (a : Nat) (ha : a < Consts.FR) :
    Fp.neg paramsR a < Consts.FR ∧ ofMont (Fp.neg paramsR a) = - ofMont a := by
  obtain ⟨h1, h2⟩ := Fp.into_neg paramsR_ok a ha
  refine ⟨h1, ?_⟩
  have : ofMont (Fp.neg paramsR a) + ofMont a = 0 := by
    apply ext_val
    rw [val_add_eq, ofMont_val _ h1, ofMont_val a ha]; exact h2
  exact eq_neg_of_add_eq_zero_left this

theorem is_zero_refines (a : Nat) (ha : a < Consts.FR) : Fp.is_zero a = (ofMont a).is_zero := by
  unfold Fp.is_zero Fr.is_zero
  rw [ofMont_val a ha]
  by_cases h : a = 0
  · subst h; rw [Fp.into_zero paramsR_ok]
  · have h2 : Fp.into_u256 paramsR a ≠ 0 := fun e => h ((Fp.into_eq_zero_iff paramsR_ok a ha).mp e)
    simp [h, h2]

theorem new_mul_factor_refines (v : Nat) (hv : v < W256) :
    Fp.new_mul_factor paramsR v < Consts.FR ∧ ofMont (Fp.new_mul_factor paramsR v) = Fr.ofNat v := by
  obtain ⟨h1, h2⟩ := Fp.new_mul_factor_reduces paramsR_ok v hv
  refine ⟨h1, ext_val ?_⟩
  rw [ofMont_val _ h1, val_ofNat, h2]; rfl

theorem into_u256_refines (a : Nat) (ha : a < Consts.FR) : Fp.into_u256 paramsR a = (ofMont a).val := by
  rw [ofMont_val a ha]

theorem to_slice_refines (a : Nat) (ha : a < Consts.FR) : Fp.to_slice paramsR a = Api.frToSlice (ofMont a) := by
  unfold Fp.to_slice Api.frToSlice
  rw [← ofMont_val a ha]

/-- step of `FieldElement::pow` on stored values / on values -/
def powStepL (a : Nat) (s : Nat) (x : Bool) : Nat := let res := Fp.squared paramsR s; if x then Fp.mul paramsR res a else res
def powStepV (a : Fr) (s : Fr) (x : Bool) : Fr := let res := s * s; if x then res * a else res

theorem powStep_refines (a : Nat) (ha : a < Consts.FR) (s : Nat) (x : Bool) (hs : s < Consts.FR) :
    powStepL a s x < Consts.FR ∧ ofMont (powStepL a s x) = powStepV (ofMont a) (ofMont s) x := by
  obtain ⟨h1, h2⟩ := squared_refines s hs
  cases x
  · simp only [powStepL, powStepV, Bool.false_eq_true, if_false]
    exact ⟨h1, h2⟩
  · obtain ⟨h3, h4⟩ := mul_refines _ a h1 ha
    simp only [powStepL, powStepV, if_true]
    refine ⟨h3, ?_⟩
    rw [h4, h2]

/-- `FieldElement::pow` at limb level: same schedule as the value-level `Fr.pow`, exponent = denotation of `e` -/
theorem pow_refines (a e : Nat) (ha : a < Consts.FR) :
    Fp.pow paramsR a e < Consts.FR ∧ ofMont (Fp.pow paramsR a e) = (ofMont a).pow (Fp.into_u256 paramsR e) := by
  obtain ⟨h1, h2⟩ := foldl_abs ofMont (fun x => x < Consts.FR) (powStepL a) (powStepV (ofMont a))
    (fun s x hs => powStep_refines a ha s x hs) (bitsMSB (Fp.into_u256 paramsR e)) (Fp.one paramsR) one_canon
  have e1 : Fp.pow paramsR a e = List.foldl (powStepL a) (Fp.one paramsR) (bitsMSB (Fp.into_u256 paramsR e)) := by
    unfold Fp.pow powStepL; rfl
  have e2 : (ofMont a).pow (Fp.into_u256 paramsR e) = List.foldl (powStepV (ofMont a)) 1 (bitsMSB (Fp.into_u256 paramsR e)) := by
    unfold Fr.pow powStepV; rfl
  rw [e1, e2, ← ofMont_one]
  exact ⟨h1, h2⟩

theorem inverse_refines (a : Nat) (ha : a < Consts.FR) :
    ∃ o, Fp.inverse paramsR a = some o ∧ o.map ofMont = (ofMont a).inverse ∧ ∀ y, o = some y → y < Consts.FR := by
  obtain ⟨h0, h1⟩ := Fp.inverse_refines_r a ha
  by_cases hz : a = 0
  · refine ⟨none, h0 hz, ?_, by intro y h; cases h⟩
    subst hz
    have : (ofMont 0).is_zero = true := by rw [← is_zero_refines 0 ha]; rfl
    unfold Fr.inverse; rw [this]; rfl
  · obtain ⟨y, hy, hylt, hmul⟩ := h1 hz
    refine ⟨some y, hy, ?_, by intro y' h; cases h; exact hylt⟩
    have hnz : ofMont a ≠ 0 := by
      intro e
      have := (Fr.is_zero_iff (ofMont a)).mpr e
      rw [← is_zero_refines a ha] at this
      exact hz (by simpa [Fp.is_zero] using this)
    have hprod : ofMont y * ofMont a = 1 := by
      rw [← (mul_refines y a hylt ha).2, hmul]; exact ofMont_one
    have hne : (ofMont a).is_zero = false := by
      cases h : (ofMont a).is_zero
      · rfl
      · exact absurd ((Fr.is_zero_iff _).mp h) hnz
    unfold Fr.inverse
    rw [hne, Fr.pow_eq]
    simp only [Option.map_some, Bool.false_eq_true, if_false]
    refine congrArg some ?_
    -- uniqueness of the inverse
    have h2 := Fr.pow_sub_two_mul (ofMont a) hnz
    calc ofMont y = ofMont y * ((ofMont a) ^ (r - 2) * ofMont a) := by rw [h2, mul_one]
      _ = (ofMont y * ofMont a) * (ofMont a) ^ (r - 2) := by ring
      _ = (ofMont a) ^ (r - 2) := by rw [hprod, one_mul]

theorem interpret_refines (bs : List UInt8) (h : bs.length = 64) :
    ∃ y, Fp.interpret paramsR bs = .ok y ∧ y < Consts.FR ∧ ofMont y = Fr.ofNat (beVal bs) := by
  obtain ⟨y, h1, h2, h3⟩ := Fp.interpret_spec paramsR_ok bs h
  refine ⟨y, h1, h2, ext_val ?_⟩
  rw [ofMont_val y h2, val_ofNat, h3]; rfl

theorem pow256_31_lt : 256 ^ 31 < Consts.FR := by decide +kernel

/-- strict 32-byte decoder `fields::Fr::from_slice` = `Api.FRSTRICT__` (and `fields::Fr::from_slice`) -/
theorem from_slice_strict_refines (bs : List UInt8) :
    (Fp.from_slice paramsR bs).map ofMont = (if bs.length = 32 then Fr.new (beVal bs) else none) ∧
    ∀ y, Fp.from_slice paramsR bs = some y → y < Consts.FR := by
  have hpos : 0 < Consts.FR := by decide +kernel
  rw [Fp.from_slice_strict_spec paramsR_ok, hR]
  by_cases hl : bs.length = 32
  · by_cases hv : beVal bs < Consts.FR
    · have hc : bs.length = 32 ∧ beVal bs < Consts.FR := ⟨hl, hv⟩
      rw [if_pos hc, if_pos hl]
      refine ⟨?_, ?_⟩
      · unfold Fr.new
        rw [dif_pos (show beVal bs < r from hv)]
        simp only [Option.map_some]
        refine congrArg some (ext_val ?_)
        rw [ofMont_val _ (Nat.mod_lt _ hpos)]
        exact Fp.into_mulW_mod paramsR_ok _ hv
      · intro y hy; rw [Option.some.injEq] at hy; subst hy; exact Nat.mod_lt _ hpos
    · have hc : ¬ (bs.length = 32 ∧ beVal bs < Consts.FR) := fun c => hv c.2
      rw [if_neg hc, if_pos hl]
      refine ⟨?_, by intro y hy; cases hy⟩
      unfold Fr.new
      rw [dif_neg (show ¬ beVal bs < r from hv)]; rfl
  · have hc : ¬ (bs.length = 32 ∧ beVal bs < Consts.FR) := fun c => hl c.1
    rw [if_neg hc, if_neg hl]
    exact ⟨rfl, by intro y hy; cases hy⟩

/-- `Fr::from_slice` of lib.rs (all three length arms) = `Api.frFromSlice` -/
theorem lib_from_slice_refines (bs : List UInt8) :
    ∃ o, Fp.lib_from_slice paramsR bs = .ok o ∧ o.map ofMont = Api.frFromSlice bs ∧
      ∀ y, o = some y → y < Consts.FR := by
  have hpos : 0 < Consts.FR := by decide +kernel
  unfold Fp.lib_from_slice Api.frFromSlice
  simp only []
  by_cases h1 : 1 ≤ bs.length ∧ bs.length ≤ 31
  · rw [if_pos h1, if_pos (by omega : 1 ≤ bs.length ∧ bs.length ≤ 64)]
    have hlen : (List.replicate (32 - bs.length) (0 : UInt8) ++ bs).length = 32 := by
      rw [List.length_append, List.length_replicate]; omega
    have hval : beVal bs < Consts.FR := by
      have := beVal_lt bs
      have h2 : 256 ^ bs.length ≤ 256 ^ 31 := Nat.pow_le_pow_right (by decide) h1.2
      have := pow256_31_lt
      omega
    obtain ⟨hs1, hs2⟩ := from_slice_strict_refines (List.replicate (32 - bs.length) (0 : UInt8) ++ bs)
    refine ⟨_, rfl, ?_, fun y hy => hs2 y hy⟩
    rw [hs1, if_pos hlen, Fp.beVal_pad]
    unfold Fr.new
    rw [dif_pos (show beVal bs < r from hval)]
    refine congrArg some (ext_val ?_)
    rw [val_ofNat]; exact (Nat.mod_eq_of_lt hval).symm
  · rw [if_neg h1]
    by_cases h2 : bs.length = 32
    · rw [if_pos h2, if_pos (by omega : 1 ≤ bs.length ∧ bs.length ≤ 64)]
      have hfs : U256.from_slice bs = some (beVal bs) := by unfold U256.from_slice; simp [h2]
      have hv : beVal bs < W256 := by have := beVal_lt bs; rw [h2, pow256_32] at this; exact this
      obtain ⟨hn1, hn2⟩ := new_mul_factor_refines (beVal bs) hv
      refine ⟨_, rfl, ?_, ?_⟩
      · rw [hfs]; simp only [Option.map_some]; rw [hn2]
      · intro y hy; rw [hfs] at hy; simp only [Option.map_some, Option.some.injEq] at hy; subst hy; exact hn1
    · rw [if_neg h2]
      by_cases h3 : 33 ≤ bs.length ∧ bs.length ≤ 64
      · rw [if_pos h3, if_pos (by omega : 1 ≤ bs.length ∧ bs.length ≤ 64)]
        have hlen : (List.replicate (64 - bs.length) (0 : UInt8) ++ bs).length = 64 := by
          rw [List.length_append, List.length_replicate]; omega
        obtain ⟨y, hy1, hy2, hy3⟩ := interpret_refines _ hlen
        refine ⟨some y, ?_, ?_, ?_⟩
        · rw [hy1]; rfl
        · simp only [Option.map_some]; rw [hy3, Fp.beVal_pad]
        · intro y' hy'; rw [Option.some.injEq] at hy'; subst hy'; exact hy2
      · rw [if_neg h3, if_neg (by omega : ¬ (1 ≤ bs.length ∧ bs.length ≤ 64))]
        exact ⟨none, rfl, rfl, by intro y hy; cases hy⟩

/-! ### `from_str` -/

theorem ofNat_add (a b : Nat) : Fr.ofNat (a + b) = Fr.ofNat a + Fr.ofNat b := by
  apply ext_val; rw [val_add_eq, val_ofNat, val_ofNat, val_ofNat]; exact Nat.add_mod _ _ _
theorem ofNat_mul (a b : Nat) : Fr.ofNat (a * b) = Fr.ofNat a * Fr.ofNat b := by
  apply ext_val; rw [val_mul_eq, val_ofNat, val_ofNat, val_ofNat]; exact Nat.mul_mod _ _ _

/-- the table `ints` of `from_str`: Montgomery representatives of 0..10 -/
def strInts : List Nat :=
  ((List.range 11).foldl (fun (st : List Nat × Nat) _ => (st.1 ++ [st.2], Fp.add paramsR st.2 (Fp.one paramsR))) ([], Fp.zero)).1

theorem strInts_spec : ∀ k, k < 11 → strInts.getD k 0 < Consts.FR ∧ Fp.into_u256 paramsR (strInts.getD k 0) = k := by
  decide +kernel

theorem strInts_ofMont (k : Nat) (hk : k < 11) : strInts.getD k 0 < Consts.FR ∧ ofMont (strInts.getD k 0) = Fr.ofNat k := by
  obtain ⟨h1, h2⟩ := strInts_spec k hk
  refine ⟨h1, ext_val ?_⟩
  rw [ofMont_val _ h1, h2, val_ofNat]
  exact (Nat.mod_eq_of_lt (by have : (11 : Nat) < Consts.FR := by decide +kernel
                              omega)).symm

def strStepL (res : Option Nat) (c : Char) : Option Nat :=
  match res with
  | none => none
  | some res =>
    if c.isDigit then
      some (Fp.add paramsR (Fp.mul paramsR res (strInts.getD 10 0)) (strInts.getD (c.toNat - 48) 0))
    else none

theorem from_str_eq (s : List Char) : Fp.from_str paramsR s = s.foldl strStepL (some Fp.zero) := rfl

theorem foldl_strStepL_none (s : List Char) : s.foldl strStepL none = none := by
  induction s with
  | nil => rfl
  | cons c cs ih => exact ih

theorem digit_lt (c : Char) (h : c.isDigit = true) : c.toNat - 48 < 11 := by
  simp only [Char.isDigit, Bool.and_eq_true, decide_eq_true_eq] at h
  have : c.toNat ≤ 57 := by show c.val.toNat ≤ 57; exact UInt32.le_iff_toNat_le.mp h.2
  omega

theorem from_str_fold (s : List Char) (res acc : Nat) (hres : res < Consts.FR) (hv : ofMont res = Fr.ofNat acc) :
    (s.foldl strStepL (some res)).map ofMont =
      (if s.all Char.isDigit then some (Fr.ofNat (s.foldl (fun acc c => acc * 10 + (c.toNat - 48)) acc)) else none) ∧
    ∀ y, s.foldl strStepL (some res) = some y → y < Consts.FR := by
  induction s generalizing res acc with
  | nil => exact ⟨by simp [hv], by intro y hy; simp at hy; subst hy; exact hres⟩
  | cons c cs ih =>
    simp only [List.foldl_cons, List.all_cons]
    by_cases hd : c.isDigit = true
    · have hstep : strStepL (some res) c =
          some (Fp.add paramsR (Fp.mul paramsR res (strInts.getD 10 0)) (strInts.getD (c.toNat - 48) 0)) := by
        simp [strStepL, hd]
      obtain ⟨t1, t2⟩ := strInts_ofMont 10 (by decide)
      obtain ⟨d1, d2⟩ := strInts_ofMont (c.toNat - 48) (digit_lt c hd)
      obtain ⟨m1, m2⟩ := mul_refines res _ hres t1
      obtain ⟨a1, a2⟩ := add_refines _ _ m1 d1
      rw [hstep]
      have hv' : ofMont (Fp.add paramsR (Fp.mul paramsR res (strInts.getD 10 0)) (strInts.getD (c.toNat - 48) 0))
          = Fr.ofNat (acc * 10 + (c.toNat - 48)) := by
        rw [a2, m2, hv, t2, d2, ofNat_add, ofNat_mul]
      have := ih _ _ a1 hv'
      simp only [hd, Bool.true_and]
      exact this
    · have hf : c.isDigit = false := by simpa using hd
      have : strStepL (some res) c = none := by simp [strStepL, hf]
      rw [this, foldl_strStepL_none]
      simp only [hf, Bool.false_and]
      exact ⟨by simp, by intro y hy; cases hy⟩

/-- `fields::Fr::from_str` (decimal string) = `Api.frFromStr` -/
theorem from_str_refines (s : List Char) :
    (Fp.from_str paramsR s).map ofMont = Api.frFromStr s ∧ ∀ y, Fp.from_str paramsR s = some y → y < Consts.FR := by
  rw [from_str_eq]
  exact from_str_fold s Fp.zero 0 zero_canon (by rw [ofMont_zero]; rfl)

end Fr

/-! ## value-level API models that exist for one field only -/

/-- strict decoder of point coordinates -/
theorem Fq.from_slice_strict_api (bs : List UInt8) :
    (Fp.from_slice paramsQ bs).map Fq.ofMont = Api.fqFromSliceStrict bs :=
  (Fq.from_slice_strict_refines bs).1

namespace Fr

/-- `Fr::from_hash` = `Api.frFromHash` -/
theorem from_hash_refines (ha : List UInt8) :
    ∃ o, FrL.from_hash ha = .ok o ∧ o.map ofMont = Api.frFromHash ha ∧ ∀ y, o = some y → y < Consts.FR := by
  unfold Api.frFromHash
  by_cases h : ha.length > 64
  · rw [if_pos h]
    exact ⟨none, FrL.from_hash_too_long ha h, rfl, by intro y hy; cases hy⟩
  · rw [if_neg h]
    obtain ⟨y, h1, h2, h3⟩ := FrL.from_hash_spec ha (by omega)
    refine ⟨some y, h1, ?_, by intro y' hy; rw [Option.some.injEq] at hy; subst hy; exact h2⟩
    simp only [Option.map_some]
    refine congrArg some (ext_val ?_)
    rw [ofMont_val y h2, h3, val_ofNat]
    have hr : (1 : Nat) < Consts.FR - 1 := by decide +kernel
    have hlt : beVal ha % (Consts.FR - 1) < Consts.FR - 1 := Nat.mod_lt _ (by omega)
    have e : r - 1 = Consts.FR - 1 := rfl
    rw [e]
    exact (Nat.mod_eq_of_lt (by omega)).symm

/-- `Fr::set_bit` = `Api.frSetBit` -/
theorem set_bit_refines (a i : Nat) (v : Bool) (ha : a < Consts.FR) :
    Fp.set_bit paramsR a i v < Consts.FR ∧ ofMont (Fp.set_bit paramsR a i v) = Api.frSetBit (ofMont a) i v := by
  obtain ⟨h1, h2⟩ := Fp.set_bit_spec paramsR_ok a i v ha
  refine ⟨h2, ext_val ?_⟩
  unfold Api.frSetBit
  rw [ofMont_val _ h2, h1, val_ofNat, ofMont_val a ha]; rfl

/-- `Fr::random`: the reduced draw is stored as it is (`Api.frRandomRaw`) -/
theorem random_refines (draw : List Nat) :
    Fp.random paramsR draw < Consts.FR ∧ Fp.random paramsR draw = Api.frRandomRaw draw := by
  obtain ⟨h1, h2⟩ := Fp.random_spec paramsR_ok draw
  exact ⟨h2, h1⟩

end Fr

end Sm9
