import Sm9.Proofs.MillerNaf
import Sm9.Props.C02
/-!
# The two textbook Miller functions agree after the final exponentiation — a closed instance

`Miller.specMiller` (binary chain, `MillerSpec.lean`) and `Miller.specMillerNaf` (signed-digit chain,
`MillerNafSpec.lean`) are two evaluations of `f_{6t+2,Q}(P)·l·l` along different addition chains.  That
their reduced values coincide for all `P`, `Q` is the chain independence of Miller functions (divisor
theory) and is **not** proved in this development.  Here: the instance at the test vector of the
standard (`Sm9.C02.kaP`, `Sm9.C02.kaQ`), where both sides are pinned to the published value by the
refinement theorems and the kernel-evaluated known answers
(`Sm9.C02.known_answer_pairing`, `Sm9.C02.known_answer_fast_pairing`).  The point `kaQ` is not given
as a multiple of `P2`; its order and the eigenvalue property `π(Q) = [q]Q` are checked by kernel
evaluation of the model's scalar multiplication.
-/
namespace Sm9
namespace Miller
open WeierstrassCurve C02
set_option maxRecDepth 100000

theorem kaQ_eq : kaQ = affG2 (kaQ.x, kaQ.y) := rfl

theorem kaQ_on_twist : kaQ.y * kaQ.y = kaQ.x * kaQ.x * kaQ.x + b2 := by decide +kernel

theorem kaQ_order : r • twPt (kaQ.x, kaQ.y) = 0 := by
  have h := (G2.subgroup_test_iff kaQ.x kaQ.y kaQ_on_twist).1 (by decide +kernel)
  exact h

theorem kaQ_eigen1 : twPt (frobTwist (kaQ.x, kaQ.y)) = q • twPt (kaQ.x, kaQ.y) := by
  have hp1 := frobTwist_equation (kaQ.x, kaQ.y) kaQ_on_twist
  obtain ⟨hz, hc⟩ := point_pi1_affine kaQ.x kaQ.y
  obtain ⟨hv, ha⟩ := toAff_of_affine _ hz _ hp1 hc
  rw [← ha]
  exact eigen_of_test (affG2 (kaQ.x, kaQ.y)) _ (affG2_valid (kaQ.x, kaQ.y) kaQ_on_twist) hv kaQ_order (by decide +kernel)

theorem kaQ_eigen2 : twPt (frobTwist (frobTwist (kaQ.x, kaQ.y))) = q • twPt (frobTwist (kaQ.x, kaQ.y)) := by
  have hp1 := frobTwist_equation (kaQ.x, kaQ.y) kaQ_on_twist
  have hp2 := frobTwist_equation _ hp1
  obtain ⟨hz, hc⟩ := point_pi1_affine kaQ.x kaQ.y
  obtain ⟨hv, ha⟩ := toAff_of_affine _ hz _ hp1 hc
  obtain ⟨hz2, hc2⟩ := point_pi2_affine kaQ.x kaQ.y
  obtain ⟨hv2, ha2⟩ := toAff_of_affine _ hz2 _ hp2 hc2
  have ho : r • G2.toAff (G2m.point_pi1 (⟨kaQ.x, kaQ.y, 1⟩ : G2)) = 0 := by
    rw [ha, kaQ_eigen1, ← mul_nsmul, mul_comm, mul_nsmul, kaQ_order, nsmul_zero]
  rw [← ha, ← ha2]
  exact eigen_of_test _ _ hv hv2 ho (by decide +kernel)

theorem kaP_y_ne_zero : kaP.y ≠ 0 := by decide +kernel

/-- **closed instance of chain independence**: at the standard's test vector the reduced values of the
    signed-digit and of the binary textbook Miller functions coincide (both are the published value) -/
theorem specMillerNaf_eq_specMiller_known_answer :
    specMillerNaf kaP.x kaP.y kaQ.x kaQ.y ^ ((q ^ 12 - 1) / r)
      = specMiller kaP.x kaP.y kaQ.x kaQ.y ^ ((q ^ 12 - 1) / r) ∧
    specMillerNaf kaP.x kaP.y kaQ.x kaQ.y ^ ((q ^ 12 - 1) / r) = kaExpected := by
  have hQv : G2.Valid kaQ := by
    rw [kaQ_eq]; exact affG2_valid (kaQ.x, kaQ.y) kaQ_on_twist
  have hz1 : kaP.z ≠ 0 := by decide +kernel
  have hz2 : kaQ.z ≠ 0 := by decide +kernel
  have hpt : twPt (kaQ.x, kaQ.y) = G2.toAff kaQ := rfl
  have ex1 : kaP.x / kaP.z ^ 2 = kaP.x := by
    show kaP.x / (1 : Fq) ^ 2 = kaP.x
    rw [one_pow, div_one]
  have ey1 : kaP.y / kaP.z ^ 3 = kaP.y := by
    show kaP.y / (1 : Fq) ^ 3 = kaP.y
    rw [one_pow, div_one]
  have ex2 : kaQ.x / kaQ.z ^ 2 = kaQ.x := by
    show kaQ.x / (1 : Fq2) ^ 2 = kaQ.x
    rw [one_pow, div_one]
  have ey2 : kaQ.y / kaQ.z ^ 3 = kaQ.y := by
    show kaQ.y / (1 : Fq2) ^ 3 = kaQ.y
    rw [one_pow, div_one]
  have h1 := pairing_eq_spec_of_eigen kaP kaQ hz1 kaP_y_ne_zero hz2 hQv
    (by rw [← hpt]; exact kaQ_order) (by rw [ex2, ey2, ← hpt]; exact kaQ_eigen1)
    (by rw [ex2, ey2]; exact kaQ_eigen2)
  have h2 := api_fast_pairing_eq_spec kaP kaQ hz1 kaP_y_ne_zero hz2 hQv
    (by rw [← hpt]; exact kaQ_order) (by rw [ex2, ey2, ← hpt]; exact kaQ_eigen1)
    (by rw [ex2, ey2]; exact kaQ_eigen2)
  rw [ex1, ey1, ex2, ey2] at h1 h2
  have k1 : Pairings.pairing kaP kaQ = .ok kaExpected := known_answer_pairing
  have k2 := known_answer_fast_pairing
  rw [h1, Outcome.ok.injEq] at k1
  rw [h2, Outcome.ok.injEq] at k2
  exact ⟨k1.trans k2.symm, k1⟩

end Miller
end Sm9
