import Sm9.Proofs.Pratt
import Mathlib.Tactic.NormNum.Prime

set_option maxRecDepth 100000

theorem prime_461 : Nat.Prime 461 := by
  refine lucas_of_factors 461 2 [2, 2, 5, 23] (by norm_num) ?_ (by decide +kernel) (by decide +kernel) ?_
  · intro f hf
    simp only [List.mem_cons, List.mem_nil_iff, or_false] at hf
    rcases hf with rfl | rfl | rfl | rfl
    · exact (by norm_num : Nat.Prime 2)
    · exact (by norm_num : Nat.Prime 2)
    · exact (by norm_num : Nat.Prime 5)
    · exact (by norm_num : Nat.Prime 23)
  · intro f hf
    simp only [List.mem_cons, List.mem_nil_iff, or_false] at hf
    rcases hf with rfl | rfl | rfl | rfl <;> decide +kernel

theorem prime_131 : Nat.Prime 131 := by
  refine lucas_of_factors 131 2 [2, 5, 13] (by norm_num) ?_ (by decide +kernel) (by decide +kernel) ?_
  · intro f hf
    simp only [List.mem_cons, List.mem_nil_iff, or_false] at hf
    rcases hf with rfl | rfl | rfl
    · exact (by norm_num : Nat.Prime 2)
    · exact (by norm_num : Nat.Prime 5)
    · exact (by norm_num : Nat.Prime 13)
  · intro f hf
    simp only [List.mem_cons, List.mem_nil_iff, or_false] at hf
    rcases hf with rfl | rfl | rfl <;> decide +kernel

theorem prime_9433 : Nat.Prime 9433 := by
  refine lucas_of_factors 9433 5 [2, 2, 2, 3, 3, 131] (by norm_num) ?_ (by decide +kernel) (by decide +kernel) ?_
  · intro f hf
    simp only [List.mem_cons, List.mem_nil_iff, or_false] at hf
    rcases hf with rfl | rfl | rfl | rfl | rfl | rfl
    · exact (by norm_num : Nat.Prime 2)
    · exact (by norm_num : Nat.Prime 2)
    · exact (by norm_num : Nat.Prime 2)
    · exact (by norm_num : Nat.Prime 3)
    · exact (by norm_num : Nat.Prime 3)
    · exact prime_131
  · intro f hf
    simp only [List.mem_cons, List.mem_nil_iff, or_false] at hf
    rcases hf with rfl | rfl | rfl | rfl | rfl | rfl <;> decide +kernel

theorem prime_287008459 : Nat.Prime 287008459 := by
  refine lucas_of_factors 287008459 3 [2, 3, 11, 461, 9433] (by norm_num) ?_ (by decide +kernel) (by decide +kernel) ?_
  · intro f hf
    simp only [List.mem_cons, List.mem_nil_iff, or_false] at hf
    rcases hf with rfl | rfl | rfl | rfl | rfl
    · exact (by norm_num : Nat.Prime 2)
    · exact (by norm_num : Nat.Prime 3)
    · exact (by norm_num : Nat.Prime 11)
    · exact prime_461
    · exact prime_9433
  · intro f hf
    simp only [List.mem_cons, List.mem_nil_iff, or_false] at hf
    rcases hf with rfl | rfl | rfl | rfl | rfl <;> decide +kernel

theorem prime_1148033837 : Nat.Prime 1148033837 := by
  refine lucas_of_factors 1148033837 2 [2, 2, 287008459] (by norm_num) ?_ (by decide +kernel) (by decide +kernel) ?_
  · intro f hf
    simp only [List.mem_cons, List.mem_nil_iff, or_false] at hf
    rcases hf with rfl | rfl | rfl
    · exact (by norm_num : Nat.Prime 2)
    · exact (by norm_num : Nat.Prime 2)
    · exact prime_287008459
  · intro f hf
    simp only [List.mem_cons, List.mem_nil_iff, or_false] at hf
    rcases hf with rfl | rfl | rfl <;> decide +kernel

theorem prime_1033 : Nat.Prime 1033 := by
  refine lucas_of_factors 1033 5 [2, 2, 2, 3, 43] (by norm_num) ?_ (by decide +kernel) (by decide +kernel) ?_
  · intro f hf
    simp only [List.mem_cons, List.mem_nil_iff, or_false] at hf
    rcases hf with rfl | rfl | rfl | rfl | rfl
    · exact (by norm_num : Nat.Prime 2)
    · exact (by norm_num : Nat.Prime 2)
    · exact (by norm_num : Nat.Prime 2)
    · exact (by norm_num : Nat.Prime 3)
    · exact (by norm_num : Nat.Prime 43)
  · intro f hf
    simp only [List.mem_cons, List.mem_nil_iff, or_false] at hf
    rcases hf with rfl | rfl | rfl | rfl | rfl <;> decide +kernel

theorem prime_101 : Nat.Prime 101 := by
  refine lucas_of_factors 101 2 [2, 2, 5, 5] (by norm_num) ?_ (by decide +kernel) (by decide +kernel) ?_
  · intro f hf
    simp only [List.mem_cons, List.mem_nil_iff, or_false] at hf
    rcases hf with rfl | rfl | rfl | rfl
    · exact (by norm_num : Nat.Prime 2)
    · exact (by norm_num : Nat.Prime 2)
    · exact (by norm_num : Nat.Prime 5)
    · exact (by norm_num : Nat.Prime 5)
  · intro f hf
    simp only [List.mem_cons, List.mem_nil_iff, or_false] at hf
    rcases hf with rfl | rfl | rfl | rfl <;> decide +kernel

theorem prime_673 : Nat.Prime 673 := by
  refine lucas_of_factors 673 5 [2, 2, 2, 2, 2, 3, 7] (by norm_num) ?_ (by decide +kernel) (by decide +kernel) ?_
  · intro f hf
    simp only [List.mem_cons, List.mem_nil_iff, or_false] at hf
    rcases hf with rfl | rfl | rfl | rfl | rfl | rfl | rfl
    · exact (by norm_num : Nat.Prime 2)
    · exact (by norm_num : Nat.Prime 2)
    · exact (by norm_num : Nat.Prime 2)
    · exact (by norm_num : Nat.Prime 2)
    · exact (by norm_num : Nat.Prime 2)
    · exact (by norm_num : Nat.Prime 3)
    · exact (by norm_num : Nat.Prime 7)
  · intro f hf
    simp only [List.mem_cons, List.mem_nil_iff, or_false] at hf
    rcases hf with rfl | rfl | rfl | rfl | rfl | rfl | rfl <;> decide +kernel

theorem prime_47111 : Nat.Prime 47111 := by
  refine lucas_of_factors 47111 7 [2, 5, 7, 673] (by norm_num) ?_ (by decide +kernel) (by decide +kernel) ?_
  · intro f hf
    simp only [List.mem_cons, List.mem_nil_iff, or_false] at hf
    rcases hf with rfl | rfl | rfl | rfl
    · exact (by norm_num : Nat.Prime 2)
    · exact (by norm_num : Nat.Prime 5)
    · exact (by norm_num : Nat.Prime 7)
    · exact prime_673
  · intro f hf
    simp only [List.mem_cons, List.mem_nil_iff, or_false] at hf
    rcases hf with rfl | rfl | rfl | rfl <;> decide +kernel

theorem prime_376889 : Nat.Prime 376889 := by
  refine lucas_of_factors 376889 3 [2, 2, 2, 47111] (by norm_num) ?_ (by decide +kernel) (by decide +kernel) ?_
  · intro f hf
    simp only [List.mem_cons, List.mem_nil_iff, or_false] at hf
    rcases hf with rfl | rfl | rfl | rfl
    · exact (by norm_num : Nat.Prime 2)
    · exact (by norm_num : Nat.Prime 2)
    · exact (by norm_num : Nat.Prime 2)
    · exact prime_47111
  · intro f hf
    simp only [List.mem_cons, List.mem_nil_iff, or_false] at hf
    rcases hf with rfl | rfl | rfl | rfl <;> decide +kernel

theorem prime_163569827 : Nat.Prime 163569827 := by
  refine lucas_of_factors 163569827 2 [2, 7, 31, 376889] (by norm_num) ?_ (by decide +kernel) (by decide +kernel) ?_
  · intro f hf
    simp only [List.mem_cons, List.mem_nil_iff, or_false] at hf
    rcases hf with rfl | rfl | rfl | rfl
    · exact (by norm_num : Nat.Prime 2)
    · exact (by norm_num : Nat.Prime 7)
    · exact (by norm_num : Nat.Prime 31)
    · exact prime_376889
  · intro f hf
    simp only [List.mem_cons, List.mem_nil_iff, or_false] at hf
    rcases hf with rfl | rfl | rfl | rfl <;> decide +kernel

theorem prime_2289977579 : Nat.Prime 2289977579 := by
  refine lucas_of_factors 2289977579 2 [2, 7, 163569827] (by norm_num) ?_ (by decide +kernel) (by decide +kernel) ?_
  · intro f hf
    simp only [List.mem_cons, List.mem_nil_iff, or_false] at hf
    rcases hf with rfl | rfl | rfl
    · exact (by norm_num : Nat.Prime 2)
    · exact (by norm_num : Nat.Prime 7)
    · exact prime_163569827
  · intro f hf
    simp only [List.mem_cons, List.mem_nil_iff, or_false] at hf
    rcases hf with rfl | rfl | rfl <;> decide +kernel

theorem prime_11101811302993 : Nat.Prime 11101811302993 := by
  refine lucas_of_factors 11101811302993 5 [2, 2, 2, 2, 3, 101, 2289977579] (by norm_num) ?_ (by decide +kernel) (by decide +kernel) ?_
  · intro f hf
    simp only [List.mem_cons, List.mem_nil_iff, or_false] at hf
    rcases hf with rfl | rfl | rfl | rfl | rfl | rfl | rfl
    · exact (by norm_num : Nat.Prime 2)
    · exact (by norm_num : Nat.Prime 2)
    · exact (by norm_num : Nat.Prime 2)
    · exact (by norm_num : Nat.Prime 2)
    · exact (by norm_num : Nat.Prime 3)
    · exact prime_101
    · exact prime_2289977579
  · intro f hf
    simp only [List.mem_cons, List.mem_nil_iff, or_false] at hf
    rcases hf with rfl | rfl | rfl | rfl | rfl | rfl | rfl <;> decide +kernel

theorem prime_389917816583720147 : Nat.Prime 389917816583720147 := by
  refine lucas_of_factors 389917816583720147 2 [2, 17, 1033, 11101811302993] (by norm_num) ?_ (by decide +kernel) (by decide +kernel) ?_
  · intro f hf
    simp only [List.mem_cons, List.mem_nil_iff, or_false] at hf
    rcases hf with rfl | rfl | rfl | rfl
    · exact (by norm_num : Nat.Prime 2)
    · exact (by norm_num : Nat.Prime 17)
    · exact prime_1033
    · exact prime_11101811302993
  · intro f hf
    simp only [List.mem_cons, List.mem_nil_iff, or_false] at hf
    rcases hf with rfl | rfl | rfl | rfl <;> decide +kernel

theorem prime_409 : Nat.Prime 409 := by
  refine lucas_of_factors 409 21 [2, 2, 2, 3, 17] (by norm_num) ?_ (by decide +kernel) (by decide +kernel) ?_
  · intro f hf
    simp only [List.mem_cons, List.mem_nil_iff, or_false] at hf
    rcases hf with rfl | rfl | rfl | rfl | rfl
    · exact (by norm_num : Nat.Prime 2)
    · exact (by norm_num : Nat.Prime 2)
    · exact (by norm_num : Nat.Prime 2)
    · exact (by norm_num : Nat.Prime 3)
    · exact (by norm_num : Nat.Prime 17)
  · intro f hf
    simp only [List.mem_cons, List.mem_nil_iff, or_false] at hf
    rcases hf with rfl | rfl | rfl | rfl | rfl <;> decide +kernel

theorem prime_8179 : Nat.Prime 8179 := by
  refine lucas_of_factors 8179 2 [2, 3, 29, 47] (by norm_num) ?_ (by decide +kernel) (by decide +kernel) ?_
  · intro f hf
    simp only [List.mem_cons, List.mem_nil_iff, or_false] at hf
    rcases hf with rfl | rfl | rfl | rfl
    · exact (by norm_num : Nat.Prime 2)
    · exact (by norm_num : Nat.Prime 3)
    · exact (by norm_num : Nat.Prime 29)
    · exact (by norm_num : Nat.Prime 47)
  · intro f hf
    simp only [List.mem_cons, List.mem_nil_iff, or_false] at hf
    rcases hf with rfl | rfl | rfl | rfl <;> decide +kernel

theorem prime_17539 : Nat.Prime 17539 := by
  refine lucas_of_factors 17539 3 [2, 3, 37, 79] (by norm_num) ?_ (by decide +kernel) (by decide +kernel) ?_
  · intro f hf
    simp only [List.mem_cons, List.mem_nil_iff, or_false] at hf
    rcases hf with rfl | rfl | rfl | rfl
    · exact (by norm_num : Nat.Prime 2)
    · exact (by norm_num : Nat.Prime 3)
    · exact (by norm_num : Nat.Prime 37)
    · exact (by norm_num : Nat.Prime 79)
  · intro f hf
    simp only [List.mem_cons, List.mem_nil_iff, or_false] at hf
    rcases hf with rfl | rfl | rfl | rfl <;> decide +kernel

theorem prime_1434514811 : Nat.Prime 1434514811 := by
  refine lucas_of_factors 1434514811 2 [2, 5, 8179, 17539] (by norm_num) ?_ (by decide +kernel) (by decide +kernel) ?_
  · intro f hf
    simp only [List.mem_cons, List.mem_nil_iff, or_false] at hf
    rcases hf with rfl | rfl | rfl | rfl
    · exact (by norm_num : Nat.Prime 2)
    · exact (by norm_num : Nat.Prime 5)
    · exact prime_8179
    · exact prime_17539
  · intro f hf
    simp only [List.mem_cons, List.mem_nil_iff, or_false] at hf
    rcases hf with rfl | rfl | rfl | rfl <;> decide +kernel

theorem prime_17214177733 : Nat.Prime 17214177733 := by
  refine lucas_of_factors 17214177733 2 [2, 2, 3, 1434514811] (by norm_num) ?_ (by decide +kernel) (by decide +kernel) ?_
  · intro f hf
    simp only [List.mem_cons, List.mem_nil_iff, or_false] at hf
    rcases hf with rfl | rfl | rfl | rfl
    · exact (by norm_num : Nat.Prime 2)
    · exact (by norm_num : Nat.Prime 2)
    · exact (by norm_num : Nat.Prime 3)
    · exact prime_1434514811
  · intro f hf
    simp only [List.mem_cons, List.mem_nil_iff, or_false] at hf
    rcases hf with rfl | rfl | rfl | rfl <;> decide +kernel

theorem prime_1548931712415341 : Nat.Prime 1548931712415341 := by
  refine lucas_of_factors 1548931712415341 3 [2, 2, 5, 11, 409, 17214177733] (by norm_num) ?_ (by decide +kernel) (by decide +kernel) ?_
  · intro f hf
    simp only [List.mem_cons, List.mem_nil_iff, or_false] at hf
    rcases hf with rfl | rfl | rfl | rfl | rfl | rfl
    · exact (by norm_num : Nat.Prime 2)
    · exact (by norm_num : Nat.Prime 2)
    · exact (by norm_num : Nat.Prime 5)
    · exact (by norm_num : Nat.Prime 11)
    · exact prime_409
    · exact prime_17214177733
  · intro f hf
    simp only [List.mem_cons, List.mem_nil_iff, or_false] at hf
    rcases hf with rfl | rfl | rfl | rfl | rfl | rfl <;> decide +kernel

theorem prime_103 : Nat.Prime 103 := by
  refine lucas_of_factors 103 5 [2, 3, 17] (by norm_num) ?_ (by decide +kernel) (by decide +kernel) ?_
  · intro f hf
    simp only [List.mem_cons, List.mem_nil_iff, or_false] at hf
    rcases hf with rfl | rfl | rfl
    · exact (by norm_num : Nat.Prime 2)
    · exact (by norm_num : Nat.Prime 3)
    · exact (by norm_num : Nat.Prime 17)
  · intro f hf
    simp only [List.mem_cons, List.mem_nil_iff, or_false] at hf
    rcases hf with rfl | rfl | rfl <;> decide +kernel

theorem prime_2473 : Nat.Prime 2473 := by
  refine lucas_of_factors 2473 5 [2, 2, 2, 3, 103] (by norm_num) ?_ (by decide +kernel) (by decide +kernel) ?_
  · intro f hf
    simp only [List.mem_cons, List.mem_nil_iff, or_false] at hf
    rcases hf with rfl | rfl | rfl | rfl | rfl
    · exact (by norm_num : Nat.Prime 2)
    · exact (by norm_num : Nat.Prime 2)
    · exact (by norm_num : Nat.Prime 2)
    · exact (by norm_num : Nat.Prime 3)
    · exact prime_103
  · intro f hf
    simp only [List.mem_cons, List.mem_nil_iff, or_false] at hf
    rcases hf with rfl | rfl | rfl | rfl | rfl <;> decide +kernel

theorem prime_1182915037 : Nat.Prime 1182915037 := by
  refine lucas_of_factors 1182915037 2 [2, 2, 3, 3, 3, 43, 103, 2473] (by norm_num) ?_ (by decide +kernel) (by decide +kernel) ?_
  · intro f hf
    simp only [List.mem_cons, List.mem_nil_iff, or_false] at hf
    rcases hf with rfl | rfl | rfl | rfl | rfl | rfl | rfl | rfl
    · exact (by norm_num : Nat.Prime 2)
    · exact (by norm_num : Nat.Prime 2)
    · exact (by norm_num : Nat.Prime 3)
    · exact (by norm_num : Nat.Prime 3)
    · exact (by norm_num : Nat.Prime 3)
    · exact (by norm_num : Nat.Prime 43)
    · exact prime_103
    · exact prime_2473
  · intro f hf
    simp only [List.mem_cons, List.mem_nil_iff, or_false] at hf
    rcases hf with rfl | rfl | rfl | rfl | rfl | rfl | rfl | rfl <;> decide +kernel

theorem prime_4731660149 : Nat.Prime 4731660149 := by
  refine lucas_of_factors 4731660149 2 [2, 2, 1182915037] (by norm_num) ?_ (by decide +kernel) (by decide +kernel) ?_
  · intro f hf
    simp only [List.mem_cons, List.mem_nil_iff, or_false] at hf
    rcases hf with rfl | rfl | rfl
    · exact (by norm_num : Nat.Prime 2)
    · exact (by norm_num : Nat.Prime 2)
    · exact prime_1182915037
  · intro f hf
    simp only [List.mem_cons, List.mem_nil_iff, or_false] at hf
    rcases hf with rfl | rfl | rfl <;> decide +kernel

theorem prime_277 : Nat.Prime 277 := by
  refine lucas_of_factors 277 5 [2, 2, 3, 23] (by norm_num) ?_ (by decide +kernel) (by decide +kernel) ?_
  · intro f hf
    simp only [List.mem_cons, List.mem_nil_iff, or_false] at hf
    rcases hf with rfl | rfl | rfl | rfl
    · exact (by norm_num : Nat.Prime 2)
    · exact (by norm_num : Nat.Prime 2)
    · exact (by norm_num : Nat.Prime 3)
    · exact (by norm_num : Nat.Prime 23)
  · intro f hf
    simp only [List.mem_cons, List.mem_nil_iff, or_false] at hf
    rcases hf with rfl | rfl | rfl | rfl <;> decide +kernel

theorem prime_1109 : Nat.Prime 1109 := by
  refine lucas_of_factors 1109 2 [2, 2, 277] (by norm_num) ?_ (by decide +kernel) (by decide +kernel) ?_
  · intro f hf
    simp only [List.mem_cons, List.mem_nil_iff, or_false] at hf
    rcases hf with rfl | rfl | rfl
    · exact (by norm_num : Nat.Prime 2)
    · exact (by norm_num : Nat.Prime 2)
    · exact prime_277
  · intro f hf
    simp only [List.mem_cons, List.mem_nil_iff, or_false] at hf
    rcases hf with rfl | rfl | rfl <;> decide +kernel

theorem prime_82067 : Nat.Prime 82067 := by
  refine lucas_of_factors 82067 2 [2, 37, 1109] (by norm_num) ?_ (by decide +kernel) (by decide +kernel) ?_
  · intro f hf
    simp only [List.mem_cons, List.mem_nil_iff, or_false] at hf
    rcases hf with rfl | rfl | rfl
    · exact (by norm_num : Nat.Prime 2)
    · exact (by norm_num : Nat.Prime 37)
    · exact prime_1109
  · intro f hf
    simp only [List.mem_cons, List.mem_nil_iff, or_false] at hf
    rcases hf with rfl | rfl | rfl <;> decide +kernel

theorem prime_193 : Nat.Prime 193 := by
  refine lucas_of_factors 193 5 [2, 2, 2, 2, 2, 2, 3] (by norm_num) ?_ (by decide +kernel) (by decide +kernel) ?_
  · intro f hf
    simp only [List.mem_cons, List.mem_nil_iff, or_false] at hf
    rcases hf with rfl | rfl | rfl | rfl | rfl | rfl | rfl
    · exact (by norm_num : Nat.Prime 2)
    · exact (by norm_num : Nat.Prime 2)
    · exact (by norm_num : Nat.Prime 2)
    · exact (by norm_num : Nat.Prime 2)
    · exact (by norm_num : Nat.Prime 2)
    · exact (by norm_num : Nat.Prime 2)
    · exact (by norm_num : Nat.Prime 3)
  · intro f hf
    simp only [List.mem_cons, List.mem_nil_iff, or_false] at hf
    rcases hf with rfl | rfl | rfl | rfl | rfl | rfl | rfl <;> decide +kernel

theorem prime_773 : Nat.Prime 773 := by
  refine lucas_of_factors 773 2 [2, 2, 193] (by norm_num) ?_ (by decide +kernel) (by decide +kernel) ?_
  · intro f hf
    simp only [List.mem_cons, List.mem_nil_iff, or_false] at hf
    rcases hf with rfl | rfl | rfl
    · exact (by norm_num : Nat.Prime 2)
    · exact (by norm_num : Nat.Prime 2)
    · exact prime_193
  · intro f hf
    simp only [List.mem_cons, List.mem_nil_iff, or_false] at hf
    rcases hf with rfl | rfl | rfl <;> decide +kernel

theorem prime_231901 : Nat.Prime 231901 := by
  refine lucas_of_factors 231901 7 [2, 2, 3, 5, 5, 773] (by norm_num) ?_ (by decide +kernel) (by decide +kernel) ?_
  · intro f hf
    simp only [List.mem_cons, List.mem_nil_iff, or_false] at hf
    rcases hf with rfl | rfl | rfl | rfl | rfl | rfl
    · exact (by norm_num : Nat.Prime 2)
    · exact (by norm_num : Nat.Prime 2)
    · exact (by norm_num : Nat.Prime 3)
    · exact (by norm_num : Nat.Prime 5)
    · exact (by norm_num : Nat.Prime 5)
    · exact prime_773
  · intro f hf
    simp only [List.mem_cons, List.mem_nil_iff, or_false] at hf
    rcases hf with rfl | rfl | rfl | rfl | rfl | rfl <;> decide +kernel

theorem prime_26643987113801 : Nat.Prime 26643987113801 := by
  refine lucas_of_factors 26643987113801 3 [2, 2, 2, 5, 5, 7, 82067, 231901] (by norm_num) ?_ (by decide +kernel) (by decide +kernel) ?_
  · intro f hf
    simp only [List.mem_cons, List.mem_nil_iff, or_false] at hf
    rcases hf with rfl | rfl | rfl | rfl | rfl | rfl | rfl | rfl
    · exact (by norm_num : Nat.Prime 2)
    · exact (by norm_num : Nat.Prime 2)
    · exact (by norm_num : Nat.Prime 2)
    · exact (by norm_num : Nat.Prime 5)
    · exact (by norm_num : Nat.Prime 5)
    · exact (by norm_num : Nat.Prime 7)
    · exact prime_82067
    · exact prime_231901
  · intro f hf
    simp only [List.mem_cons, List.mem_nil_iff, or_false] at hf
    rcases hf with rfl | rfl | rfl | rfl | rfl | rfl | rfl | rfl <;> decide +kernel

theorem prime_53287974227603 : Nat.Prime 53287974227603 := by
  refine lucas_of_factors 53287974227603 2 [2, 26643987113801] (by norm_num) ?_ (by decide +kernel) (by decide +kernel) ?_
  · intro f hf
    simp only [List.mem_cons, List.mem_nil_iff, or_false] at hf
    rcases hf with rfl | rfl
    · exact (by norm_num : Nat.Prime 2)
    · exact prime_26643987113801
  · intro f hf
    simp only [List.mem_cons, List.mem_nil_iff, or_false] at hf
    rcases hf with rfl | rfl <;> decide +kernel

theorem prime_639455690731237 : Nat.Prime 639455690731237 := by
  refine lucas_of_factors 639455690731237 2 [2, 2, 3, 53287974227603] (by norm_num) ?_ (by decide +kernel) (by decide +kernel) ?_
  · intro f hf
    simp only [List.mem_cons, List.mem_nil_iff, or_false] at hf
    rcases hf with rfl | rfl | rfl | rfl
    · exact (by norm_num : Nat.Prime 2)
    · exact (by norm_num : Nat.Prime 2)
    · exact (by norm_num : Nat.Prime 3)
    · exact prime_53287974227603
  · intro f hf
    simp only [List.mem_cons, List.mem_nil_iff, or_false] at hf
    rcases hf with rfl | rfl | rfl | rfl <;> decide +kernel

theorem prime_63945569073123701 : Nat.Prime 63945569073123701 := by
  refine lucas_of_factors 63945569073123701 2 [2, 2, 5, 5, 639455690731237] (by norm_num) ?_ (by decide +kernel) (by decide +kernel) ?_
  · intro f hf
    simp only [List.mem_cons, List.mem_nil_iff, or_false] at hf
    rcases hf with rfl | rfl | rfl | rfl | rfl
    · exact (by norm_num : Nat.Prime 2)
    · exact (by norm_num : Nat.Prime 2)
    · exact (by norm_num : Nat.Prime 5)
    · exact (by norm_num : Nat.Prime 5)
    · exact prime_639455690731237
  · intro f hf
    simp only [List.mem_cons, List.mem_nil_iff, or_false] at hf
    rcases hf with rfl | rfl | rfl | rfl | rfl <;> decide +kernel

theorem prime_94401434677189000286356532089 : Nat.Prime 94401434677189000286356532089 := by
  refine lucas_of_factors 94401434677189000286356532089 11 [2, 2, 2, 3, 13, 4731660149, 63945569073123701] (by norm_num) ?_ (by decide +kernel) (by decide +kernel) ?_
  · intro f hf
    simp only [List.mem_cons, List.mem_nil_iff, or_false] at hf
    rcases hf with rfl | rfl | rfl | rfl | rfl | rfl | rfl
    · exact (by norm_num : Nat.Prime 2)
    · exact (by norm_num : Nat.Prime 2)
    · exact (by norm_num : Nat.Prime 2)
    · exact (by norm_num : Nat.Prime 3)
    · exact (by norm_num : Nat.Prime 13)
    · exact prime_4731660149
    · exact prime_63945569073123701
  · intro f hf
    simp only [List.mem_cons, List.mem_nil_iff, or_false] at hf
    rcases hf with rfl | rfl | rfl | rfl | rfl | rfl | rfl <;> decide +kernel

theorem prime_82434016654578246444830763105245969129603161266935169637912592173415460324733 : Nat.Prime 82434016654578246444830763105245969129603161266935169637912592173415460324733 := by
  refine lucas_of_factors 82434016654578246444830763105245969129603161266935169637912592173415460324733 2 [2, 2, 3, 7, 11, 29, 47, 1148033837, 389917816583720147, 1548931712415341, 94401434677189000286356532089] (by norm_num) ?_ (by decide +kernel) (by decide +kernel) ?_
  · intro f hf
    simp only [List.mem_cons, List.mem_nil_iff, or_false] at hf
    rcases hf with rfl | rfl | rfl | rfl | rfl | rfl | rfl | rfl | rfl | rfl | rfl
    · exact (by norm_num : Nat.Prime 2)
    · exact (by norm_num : Nat.Prime 2)
    · exact (by norm_num : Nat.Prime 3)
    · exact (by norm_num : Nat.Prime 7)
    · exact (by norm_num : Nat.Prime 11)
    · exact (by norm_num : Nat.Prime 29)
    · exact (by norm_num : Nat.Prime 47)
    · exact prime_1148033837
    · exact prime_389917816583720147
    · exact prime_1548931712415341
    · exact prime_94401434677189000286356532089
  · intro f hf
    simp only [List.mem_cons, List.mem_nil_iff, or_false] at hf
    rcases hf with rfl | rfl | rfl | rfl | rfl | rfl | rfl | rfl | rfl | rfl | rfl <;> decide +kernel

theorem prime_113 : Nat.Prime 113 := by
  refine lucas_of_factors 113 3 [2, 2, 2, 2, 7] (by norm_num) ?_ (by decide +kernel) (by decide +kernel) ?_
  · intro f hf
    simp only [List.mem_cons, List.mem_nil_iff, or_false] at hf
    rcases hf with rfl | rfl | rfl | rfl | rfl
    · exact (by norm_num : Nat.Prime 2)
    · exact (by norm_num : Nat.Prime 2)
    · exact (by norm_num : Nat.Prime 2)
    · exact (by norm_num : Nat.Prime 2)
    · exact (by norm_num : Nat.Prime 7)
  · intro f hf
    simp only [List.mem_cons, List.mem_nil_iff, or_false] at hf
    rcases hf with rfl | rfl | rfl | rfl | rfl <;> decide +kernel

theorem prime_2689 : Nat.Prime 2689 := by
  refine lucas_of_factors 2689 19 [2, 2, 2, 2, 2, 2, 2, 3, 7] (by norm_num) ?_ (by decide +kernel) (by decide +kernel) ?_
  · intro f hf
    simp only [List.mem_cons, List.mem_nil_iff, or_false] at hf
    rcases hf with rfl | rfl | rfl | rfl | rfl | rfl | rfl | rfl | rfl
    · exact (by norm_num : Nat.Prime 2)
    · exact (by norm_num : Nat.Prime 2)
    · exact (by norm_num : Nat.Prime 2)
    · exact (by norm_num : Nat.Prime 2)
    · exact (by norm_num : Nat.Prime 2)
    · exact (by norm_num : Nat.Prime 2)
    · exact (by norm_num : Nat.Prime 2)
    · exact (by norm_num : Nat.Prime 3)
    · exact (by norm_num : Nat.Prime 7)
  · intro f hf
    simp only [List.mem_cons, List.mem_nil_iff, or_false] at hf
    rcases hf with rfl | rfl | rfl | rfl | rfl | rfl | rfl | rfl | rfl <;> decide +kernel

theorem prime_149 : Nat.Prime 149 := by
  refine lucas_of_factors 149 2 [2, 2, 37] (by norm_num) ?_ (by decide +kernel) (by decide +kernel) ?_
  · intro f hf
    simp only [List.mem_cons, List.mem_nil_iff, or_false] at hf
    rcases hf with rfl | rfl | rfl
    · exact (by norm_num : Nat.Prime 2)
    · exact (by norm_num : Nat.Prime 2)
    · exact (by norm_num : Nat.Prime 37)
  · intro f hf
    simp only [List.mem_cons, List.mem_nil_iff, or_false] at hf
    rcases hf with rfl | rfl | rfl <;> decide +kernel

theorem prime_3187 : Nat.Prime 3187 := by
  refine lucas_of_factors 3187 2 [2, 3, 3, 3, 59] (by norm_num) ?_ (by decide +kernel) (by decide +kernel) ?_
  · intro f hf
    simp only [List.mem_cons, List.mem_nil_iff, or_false] at hf
    rcases hf with rfl | rfl | rfl | rfl | rfl
    · exact (by norm_num : Nat.Prime 2)
    · exact (by norm_num : Nat.Prime 3)
    · exact (by norm_num : Nat.Prime 3)
    · exact (by norm_num : Nat.Prime 3)
    · exact (by norm_num : Nat.Prime 59)
  · intro f hf
    simp only [List.mem_cons, List.mem_nil_iff, or_false] at hf
    rcases hf with rfl | rfl | rfl | rfl | rfl <;> decide +kernel

theorem prime_5479 : Nat.Prime 5479 := by
  refine lucas_of_factors 5479 3 [2, 3, 11, 83] (by norm_num) ?_ (by decide +kernel) (by decide +kernel) ?_
  · intro f hf
    simp only [List.mem_cons, List.mem_nil_iff, or_false] at hf
    rcases hf with rfl | rfl | rfl | rfl
    · exact (by norm_num : Nat.Prime 2)
    · exact (by norm_num : Nat.Prime 3)
    · exact (by norm_num : Nat.Prime 11)
    · exact (by norm_num : Nat.Prime 83)
  · intro f hf
    simp only [List.mem_cons, List.mem_nil_iff, or_false] at hf
    rcases hf with rfl | rfl | rfl | rfl <;> decide +kernel

theorem prime_1271129 : Nat.Prime 1271129 := by
  refine lucas_of_factors 1271129 3 [2, 2, 2, 29, 5479] (by norm_num) ?_ (by decide +kernel) (by decide +kernel) ?_
  · intro f hf
    simp only [List.mem_cons, List.mem_nil_iff, or_false] at hf
    rcases hf with rfl | rfl | rfl | rfl | rfl
    · exact (by norm_num : Nat.Prime 2)
    · exact (by norm_num : Nat.Prime 2)
    · exact (by norm_num : Nat.Prime 2)
    · exact (by norm_num : Nat.Prime 29)
    · exact prime_5479
  · intro f hf
    simp only [List.mem_cons, List.mem_nil_iff, or_false] at hf
    rcases hf with rfl | rfl | rfl | rfl | rfl <;> decide +kernel

theorem prime_27725865749 : Nat.Prime 27725865749 := by
  refine lucas_of_factors 27725865749 2 [2, 2, 7, 19, 41, 1271129] (by norm_num) ?_ (by decide +kernel) (by decide +kernel) ?_
  · intro f hf
    simp only [List.mem_cons, List.mem_nil_iff, or_false] at hf
    rcases hf with rfl | rfl | rfl | rfl | rfl | rfl
    · exact (by norm_num : Nat.Prime 2)
    · exact (by norm_num : Nat.Prime 2)
    · exact (by norm_num : Nat.Prime 7)
    · exact (by norm_num : Nat.Prime 19)
    · exact (by norm_num : Nat.Prime 41)
    · exact prime_1271129
  · intro f hf
    simp only [List.mem_cons, List.mem_nil_iff, or_false] at hf
    rcases hf with rfl | rfl | rfl | rfl | rfl | rfl <;> decide +kernel

theorem prime_267554604477851 : Nat.Prime 267554604477851 := by
  refine lucas_of_factors 267554604477851 2 [2, 5, 5, 193, 27725865749] (by norm_num) ?_ (by decide +kernel) (by decide +kernel) ?_
  · intro f hf
    simp only [List.mem_cons, List.mem_nil_iff, or_false] at hf
    rcases hf with rfl | rfl | rfl | rfl | rfl
    · exact (by norm_num : Nat.Prime 2)
    · exact (by norm_num : Nat.Prime 5)
    · exact (by norm_num : Nat.Prime 5)
    · exact prime_193
    · exact prime_27725865749
  · intro f hf
    simp only [List.mem_cons, List.mem_nil_iff, or_false] at hf
    rcases hf with rfl | rfl | rfl | rfl | rfl <;> decide +kernel

theorem prime_3080243406351642671208773 : Nat.Prime 3080243406351642671208773 := by
  refine lucas_of_factors 3080243406351642671208773 3 [2, 2, 11, 19, 29, 149, 3187, 267554604477851] (by norm_num) ?_ (by decide +kernel) (by decide +kernel) ?_
  · intro f hf
    simp only [List.mem_cons, List.mem_nil_iff, or_false] at hf
    rcases hf with rfl | rfl | rfl | rfl | rfl | rfl | rfl | rfl
    · exact (by norm_num : Nat.Prime 2)
    · exact (by norm_num : Nat.Prime 2)
    · exact (by norm_num : Nat.Prime 11)
    · exact (by norm_num : Nat.Prime 19)
    · exact (by norm_num : Nat.Prime 29)
    · exact prime_149
    · exact prime_3187
    · exact prime_267554604477851
  · intro f hf
    simp only [List.mem_cons, List.mem_nil_iff, or_false] at hf
    rcases hf with rfl | rfl | rfl | rfl | rfl | rfl | rfl | rfl <;> decide +kernel

theorem prime_1986114220967214475817859646585100848354345103812102768231 : Nat.Prime 1986114220967214475817859646585100848354345103812102768231 := by
  refine lucas_of_factors 1986114220967214475817859646585100848354345103812102768231 3 [2, 3, 5, 7, 11, 13, 17, 29, 37, 41, 61, 113, 2689, 1548931712415341, 3080243406351642671208773] (by norm_num) ?_ (by decide +kernel) (by decide +kernel) ?_
  · intro f hf
    simp only [List.mem_cons, List.mem_nil_iff, or_false] at hf
    rcases hf with rfl | rfl | rfl | rfl | rfl | rfl | rfl | rfl | rfl | rfl | rfl | rfl | rfl | rfl | rfl
    · exact (by norm_num : Nat.Prime 2)
    · exact (by norm_num : Nat.Prime 3)
    · exact (by norm_num : Nat.Prime 5)
    · exact (by norm_num : Nat.Prime 7)
    · exact (by norm_num : Nat.Prime 11)
    · exact (by norm_num : Nat.Prime 13)
    · exact (by norm_num : Nat.Prime 17)
    · exact (by norm_num : Nat.Prime 29)
    · exact (by norm_num : Nat.Prime 37)
    · exact (by norm_num : Nat.Prime 41)
    · exact (by norm_num : Nat.Prime 61)
    · exact prime_113
    · exact prime_2689
    · exact prime_1548931712415341
    · exact prime_3080243406351642671208773
  · intro f hf
    simp only [List.mem_cons, List.mem_nil_iff, or_false] at hf
    rcases hf with rfl | rfl | rfl | rfl | rfl | rfl | rfl | rfl | rfl | rfl | rfl | rfl | rfl | rfl | rfl <;> decide +kernel

theorem prime_82434016654578246444830763105245969129316048019845143771873730126023764135717 : Nat.Prime 82434016654578246444830763105245969129316048019845143771873730126023764135717 := by
  refine lucas_of_factors 82434016654578246444830763105245969129316048019845143771873730126023764135717 2 [2, 2, 3, 7, 11, 29, 1548931712415341, 1986114220967214475817859646585100848354345103812102768231] (by norm_num) ?_ (by decide +kernel) (by decide +kernel) ?_
  · intro f hf
    simp only [List.mem_cons, List.mem_nil_iff, or_false] at hf
    rcases hf with rfl | rfl | rfl | rfl | rfl | rfl | rfl | rfl
    · exact (by norm_num : Nat.Prime 2)
    · exact (by norm_num : Nat.Prime 2)
    · exact (by norm_num : Nat.Prime 3)
    · exact (by norm_num : Nat.Prime 7)
    · exact (by norm_num : Nat.Prime 11)
    · exact (by norm_num : Nat.Prime 29)
    · exact prime_1548931712415341
    · exact prime_1986114220967214475817859646585100848354345103812102768231
  · intro f hf
    simp only [List.mem_cons, List.mem_nil_iff, or_false] at hf
    rcases hf with rfl | rfl | rfl | rfl | rfl | rfl | rfl | rfl <;> decide +kernel

theorem q_prime : Nat.Prime 0xB640000002A3A6F1D603AB4FF58EC74521F2934B1A7AEEDBE56F9B27E351457D := prime_82434016654578246444830763105245969129603161266935169637912592173415460324733
theorem r_prime : Nat.Prime 0xB640000002A3A6F1D603AB4FF58EC74449F2934B18EA8BEEE56EE19CD69ECF25 := prime_82434016654578246444830763105245969129316048019845143771873730126023764135717
