import Sm9.Spec.Spec
import Sm9.Proofs.MillerLines
import Mathlib.Algebra.BigOperators.Intervals
/-!
# The oracle's field arithmetic (`Sm9.Spec`) is the arithmetic of the model's tower

`Spec.Q2 = ℕ × ℕ` and `Spec.F12 = Array ℕ` against `Fq2`, `Fq12`:
`toQ2`, `toF12` (coordinates in the basis `1, w, …, w¹¹`), and the evaluation maps `evQ2`, `ev`
in the other direction, defined on *all* pairs / arrays.
-/
namespace Sm9
namespace SpecField
open Sm9.Spec (powm invm negm subm)

set_option maxRecDepth 100000

theorem q_eq : Spec.q = q := by decide +kernel
theorem r_eq : Spec.r = r := by decide +kernel

/-! ## generic square-and-multiply loop -/

/-- one round of the right-to-left square-and-multiply loops of the oracle -/
def powStep {α : Type} (mul : α → α → α) (s : α × α × ℕ) : α × α × ℕ :=
  (if s.2.2 % 2 = 1 then mul s.1 s.2.1 else s.1, mul s.2.1 s.2.1, s.2.2 / 2)

theorem forIn_ignore {β : Type} (l : List ℕ) (f : β → β) (init : β) :
    (forIn (m := Id) l init (fun _ s => pure (ForInStep.yield (f s)))) = pure (f^[l.length] init) := by
  induction l generalizing init with
  | nil => rfl
  | cons a l ih => simp only [List.forIn_cons, pure_bind, ih, List.length_cons, Function.iterate_succ_apply]

theorem range'_len (n : ℕ) : (List.range' 0 ((n - 0 + 1 - 1) / 1)).length = n := by simp

theorem powStep_iter {α M : Type} [CommMonoid M] (mul : α → α → α) (φ : α → M) (C : α → Prop)
    (hmul : ∀ a b, C a → C b → C (mul a b) ∧ φ (mul a b) = φ a * φ b) (n : ℕ) :
    ∀ s : α × α × ℕ, C s.1 → C s.2.1 →
      C ((powStep mul)^[n] s).1 ∧ C ((powStep mul)^[n] s).2.1 ∧
      φ ((powStep mul)^[n] s).1 * φ ((powStep mul)^[n] s).2.1 ^ ((powStep mul)^[n] s).2.2
        = φ s.1 * φ s.2.1 ^ s.2.2 ∧
      ((powStep mul)^[n] s).2.2 = s.2.2 / 2 ^ n := by
  induction n with
  | zero => intro s h1 h2; simp [h1, h2]
  | succ n ih =>
    intro s h1 h2
    rw [Function.iterate_succ_apply]
    have hb := hmul s.2.1 s.2.1 h2 h2
    have hs1 : C (powStep mul s).1 := by
      unfold powStep; dsimp only; split
      · exact (hmul _ _ h1 h2).1
      · exact h1
    obtain ⟨i1, i2, i3, i4⟩ := ih (powStep mul s) hs1 hb.1
    refine ⟨i1, i2, ?_, ?_⟩
    · rw [i3]
      unfold powStep; dsimp only
      rw [hb.2]
      conv_rhs => rw [← Nat.div_add_mod s.2.2 2]
      split
      · rename_i h; rw [h, (hmul _ _ h1 h2).2, pow_succ, pow_mul, pow_two]; ac_rfl
      · rename_i h
        have : s.2.2 % 2 = 0 := by omega
        rw [this, add_zero, pow_mul, pow_two]
    · rw [i4]; unfold powStep; dsimp only
      rw [Nat.div_div_eq_div_mul, pow_succ']

/-- the result of the loop with fuel `e.log2 + 1` -/
theorem powStep_final {α M : Type} [CommMonoid M] (mul : α → α → α) (φ : α → M) (C : α → Prop)
    (hmul : ∀ a b, C a → C b → C (mul a b) ∧ φ (mul a b) = φ a * φ b)
    (one x : α) (e : ℕ) (h1 : C one) (hx : C x) (hφ : φ one = 1) :
    C ((powStep mul)^[e.log2 + 1] (one, x, e)).1 ∧
    φ ((powStep mul)^[e.log2 + 1] (one, x, e)).1 = φ x ^ e := by
  obtain ⟨i1, _, i3, i4⟩ := powStep_iter mul φ C hmul (e.log2 + 1) (one, x, e) h1 hx
  refine ⟨i1, ?_⟩
  have h0 : e / 2 ^ (e.log2 + 1) = 0 := Nat.div_eq_of_lt Nat.lt_log2_self
  dsimp only at i3 i4
  rw [i4, h0, pow_zero, mul_one, hφ, one_mul] at i3
  exact i3

/-! ## `Fq` -/

/-- the canonical representative -/
theorem val_lt (a : Fq) : a.val < Spec.q := by rw [q_eq]; exact a.isLt

theorem cast_val (a : Fq) : ((a.val : ℕ) : Fq) = a := by
  have h : ∀ (a : Fin q), @Nat.cast (Fin q) (Fin.instCommRing q).toNatCast (Fin.val a) = a := by
    intro a; open Fin.NatCast in exact Fin.cast_val_eq_self a
  exact h a

theorem val_cast (n : ℕ) : (n : Fq).val = n % Spec.q := by
  rw [q_eq]
  have h : Fin.val (@Nat.cast (Fin q) (Fin.instCommRing q).toNatCast n) = n % q := by
    open Fin.NatCast in exact Fin.val_natCast n q
  exact h

theorem val_cast_of_lt {n : ℕ} (h : n < Spec.q) : (n : Fq).val = n := by
  rw [val_cast, Nat.mod_eq_of_lt h]

theorem cast_q : ((Spec.q : ℕ) : Fq) = 0 := by
  rw [q_eq]; exact CharP.cast_eq_zero Fq q

@[simp] theorem cast_mod (n : ℕ) : ((n % Spec.q : ℕ) : Fq) = n := by
  rw [q_eq]; exact (CharP.cast_eq_mod Fq q n).symm

@[simp] theorem cast_subm (x y : ℕ) : ((subm Spec.q x y : ℕ) : Fq) = (x : Fq) - y := by
  unfold subm
  have hq : 0 < Spec.q := by decide +kernel
  have h : y % Spec.q ≤ x % Spec.q + Spec.q := by
    have := Nat.mod_lt y hq; omega
  rw [cast_mod, Nat.cast_sub h, Nat.cast_add, cast_mod, cast_mod, cast_q, add_zero]

@[simp] theorem cast_negm (x : ℕ) : ((negm Spec.q x : ℕ) : Fq) = -(x : Fq) := by
  unfold negm
  have hq : 0 < Spec.q := by decide +kernel
  have h : x % Spec.q ≤ Spec.q := (Nat.mod_lt x hq).le
  rw [cast_mod, Nat.cast_sub h, cast_mod, cast_q, zero_sub]

theorem subm_lt (x y : ℕ) : subm Spec.q x y < Spec.q := Nat.mod_lt _ (by decide +kernel)
theorem negm_lt (x : ℕ) : negm Spec.q x < Spec.q := Nat.mod_lt _ (by decide +kernel)
theorem mod_lt (x : ℕ) : x % Spec.q < Spec.q := Nat.mod_lt _ (by decide +kernel)

theorem powm_eq_iter (p x e : ℕ) :
    powm p x e = ((powStep (fun a b => a * b % p))^[e.log2 + 1] (1 % p, x % p, e)).1 := by
  unfold powm
  simp only [Std.Legacy.Range.forIn_eq_forIn_range']
  have hf : (fun (_ : ℕ) (s : ℕ × ℕ × ℕ) =>
      if (s.2.2 % 2 == 1) = true then
        (pure (ForInStep.yield (s.1 * s.2.1 % p, s.2.1 * s.2.1 % p, s.2.2 / 2)) : Id _)
      else pure (ForInStep.yield (s.1, s.2.1 * s.2.1 % p, s.2.2 / 2)))
      = fun _ s => pure (ForInStep.yield (powStep (fun a b => a * b % p) s)) := by
    funext _ s
    unfold powStep
    by_cases h : s.2.2 % 2 = 1 <;> simp [h]
  rw [hf, forIn_ignore]
  simp only [Std.Legacy.Range.size, range'_len]
  rfl

@[simp] theorem cast_powm (x e : ℕ) : ((powm Spec.q x e : ℕ) : Fq) = (x : Fq) ^ e := by
  rw [powm_eq_iter]
  have := (powStep_final (fun a b => a * b % Spec.q) (fun n : ℕ => (n : Fq)) (fun _ => True)
    (fun a b _ _ => ⟨trivial, by rw [cast_mod, Nat.cast_mul]⟩) (1 % Spec.q) (x % Spec.q) e trivial trivial
    (by rw [cast_mod, Nat.cast_one])).2
  rw [this, cast_mod]

theorem powm_lt (x e : ℕ) : powm Spec.q x e < Spec.q := by
  rw [powm_eq_iter]
  exact (powStep_final (M := Fq) (fun a b => a * b % Spec.q) (fun _ => 1) (fun n => n < Spec.q)
    (fun a b _ _ => ⟨mod_lt _, (one_mul 1).symm⟩) (1 % Spec.q) (x % Spec.q) e (mod_lt _) (mod_lt _) rfl).1

theorem Fq_pow_sub_two (a : Fq) : a ^ (q - 2) = a⁻¹ := by
  by_cases h : a = 0
  · subst h
    rw [inv_zero]; exact zero_pow (by decide +kernel)
  · exact eq_inv_of_mul_eq_one_left (Fq.pow_sub_two_mul a h)

@[simp] theorem cast_invm (x : ℕ) : ((invm Spec.q x : ℕ) : Fq) = (x : Fq)⁻¹ := by
  unfold invm
  rw [cast_powm, q_eq, Fq_pow_sub_two]

theorem invm_lt (x : ℕ) : invm Spec.q x < Spec.q := powm_lt _ _

/-- a natural below `q` is determined by its class -/
theorem eq_val_of_cast {n : ℕ} {a : Fq} (hn : n < Spec.q) (h : (n : Fq) = a) : n = a.val := by
  rw [← h, val_cast_of_lt hn]

/-! ## `Fq2` -/

/-- canonical pair of an element of `Fq2`: (real, imaginary) -/
def toQ2 (a : Fq2) : Spec.Q2 := (a.c0.val, a.c1.val)

/-- the element of `Fq2` denoted by an arbitrary pair -/
noncomputable def evQ2 (x : Spec.Q2) : Fq2 := ⟨(x.1 : Fq), (x.2 : Fq)⟩

/-- canonical pairs -/
def CanonQ2 (x : Spec.Q2) : Prop := x.1 < Spec.q ∧ x.2 < Spec.q

theorem canon_toQ2 (a : Fq2) : CanonQ2 (toQ2 a) := ⟨val_lt _, val_lt _⟩
@[simp] theorem evQ2_toQ2 (a : Fq2) : evQ2 (toQ2 a) = a := by
  unfold evQ2 toQ2; ext <;> simp only [cast_val]
theorem toQ2_evQ2 {x : Spec.Q2} (h : CanonQ2 x) : toQ2 (evQ2 x) = x := by
  unfold evQ2 toQ2
  exact Prod.ext (val_cast_of_lt h.1) (val_cast_of_lt h.2)
theorem toQ2_injective : Function.Injective toQ2 := fun a b h => by
  rw [← evQ2_toQ2 a, h, evQ2_toQ2]
theorem eq_toQ2 {x : Spec.Q2} {a : Fq2} (hc : CanonQ2 x) (h : evQ2 x = a) : x = toQ2 a := by
  rw [← h, toQ2_evQ2 hc]

theorem Q2.canon_add (x y : Spec.Q2) : CanonQ2 (Spec.Q2.add x y) := ⟨mod_lt _, mod_lt _⟩
theorem Q2.canon_sub (x y : Spec.Q2) : CanonQ2 (Spec.Q2.sub x y) := ⟨subm_lt _ _, subm_lt _ _⟩
theorem Q2.canon_neg (x : Spec.Q2) : CanonQ2 (Spec.Q2.neg x) := ⟨negm_lt _, negm_lt _⟩
theorem Q2.canon_mul (x y : Spec.Q2) : CanonQ2 (Spec.Q2.mul x y) := ⟨subm_lt _ _, mod_lt _⟩
theorem Q2.canon_inv (x : Spec.Q2) : CanonQ2 (Spec.Q2.inv x) := ⟨mod_lt _, negm_lt _⟩
theorem Q2.canon_ofNat (n : ℕ) : CanonQ2 (Spec.Q2.ofNat n) := ⟨mod_lt _, show 0 < Spec.q by decide +kernel⟩

theorem Q2.ev_add (x y : Spec.Q2) : evQ2 (Spec.Q2.add x y) = evQ2 x + evQ2 y := by
  unfold evQ2 Spec.Q2.add; ext <;> simp
theorem Q2.ev_sub (x y : Spec.Q2) : evQ2 (Spec.Q2.sub x y) = evQ2 x - evQ2 y := by
  unfold evQ2 Spec.Q2.sub; ext <;> simp
theorem Q2.ev_neg (x : Spec.Q2) : evQ2 (Spec.Q2.neg x) = -evQ2 x := by
  unfold evQ2 Spec.Q2.neg; ext <;> simp
theorem Q2.ev_mul (x y : Spec.Q2) : evQ2 (Spec.Q2.mul x y) = evQ2 x * evQ2 y := by
  unfold evQ2 Spec.Q2.mul
  ext
  · simp only [cast_subm, Nat.cast_mul, Nat.cast_ofNat, Fq2.mul_c0]; ring
  · simp only [cast_mod, Nat.cast_mul, Nat.cast_add, Fq2.mul_c1]
theorem Q2.ev_ofNat (n : ℕ) : evQ2 (Spec.Q2.ofNat n) = (n : Fq2) := by
  unfold evQ2 Spec.Q2.ofNat
  induction n with
  | zero => ext <;> simp
  | succ n ih =>
    have h := ih
    rw [Fq2.ext_iff] at h
    simp only [cast_mod, Nat.cast_zero] at h
    ext <;> simp [h.1, ← h.2]

/-- closed form of the inverse in `Fq2` (also at `0`) -/
theorem Fq2_inv_eq (a : Fq2) :
    a⁻¹ = ⟨a.c0 * (a.c0 * a.c0 + (a.c1 * a.c1 + a.c1 * a.c1))⁻¹,
           -(a.c1 * (a.c0 * a.c0 + (a.c1 * a.c1 + a.c1 * a.c1))⁻¹)⟩ := by
  by_cases h : a = 0
  · subst h; rw [inv_zero]; ext <;> simp
  · have h1 := Fq2.inverse_eq_inv a h
    unfold Fq2.inverse at h1
    rw [Fq.inverse_eq_inv _ (Fq2.norm_ne_zero a h)] at h1
    simp only [Option.map_some, Option.some.injEq, Fq.squared_def, Fq.double_def, Fq2.new] at h1
    exact h1.symm

theorem Q2.ev_inv (x : Spec.Q2) : evQ2 (Spec.Q2.inv x) = (evQ2 x)⁻¹ := by
  rw [Fq2_inv_eq]
  unfold evQ2 Spec.Q2.inv
  ext
  · simp only [cast_mod, cast_invm, Nat.cast_mul, Nat.cast_add, Nat.cast_ofNat]; ring
  · simp only [cast_mod, cast_negm, cast_invm, Nat.cast_mul, Nat.cast_add, Nat.cast_ofNat]; ring

theorem Q2.isZero_iff (x : Spec.Q2) : Spec.Q2.isZero x = true ↔ evQ2 x = 0 := by
  unfold Spec.Q2.isZero evQ2
  rw [Bool.and_eq_true, beq_iff_eq, beq_iff_eq, Fq2.ext_iff]
  have key : ∀ n : ℕ, n % Spec.q = 0 ↔ (n : Fq) = 0 := by
    intro n
    rw [q_eq, ← Nat.dvd_iff_mod_eq_zero]
    exact (CharP.cast_eq_zero_iff Fq q n).symm
  rw [key, key]; rfl

/-! the operations on canonical representatives -/
theorem toQ2_add (a b : Fq2) : Spec.Q2.add (toQ2 a) (toQ2 b) = toQ2 (a + b) :=
  eq_toQ2 (Q2.canon_add _ _) (by rw [Q2.ev_add, evQ2_toQ2, evQ2_toQ2])
theorem toQ2_sub (a b : Fq2) : Spec.Q2.sub (toQ2 a) (toQ2 b) = toQ2 (a - b) :=
  eq_toQ2 (Q2.canon_sub _ _) (by rw [Q2.ev_sub, evQ2_toQ2, evQ2_toQ2])
theorem toQ2_neg (a : Fq2) : Spec.Q2.neg (toQ2 a) = toQ2 (-a) :=
  eq_toQ2 (Q2.canon_neg _) (by rw [Q2.ev_neg, evQ2_toQ2])
theorem toQ2_mul (a b : Fq2) : Spec.Q2.mul (toQ2 a) (toQ2 b) = toQ2 (a * b) :=
  eq_toQ2 (Q2.canon_mul _ _) (by rw [Q2.ev_mul, evQ2_toQ2, evQ2_toQ2])
theorem toQ2_inv (a : Fq2) : Spec.Q2.inv (toQ2 a) = toQ2 a⁻¹ :=
  eq_toQ2 (Q2.canon_inv _) (by rw [Q2.ev_inv, evQ2_toQ2])
theorem toQ2_ofNat (n : ℕ) : Spec.Q2.ofNat n = toQ2 (n : Fq2) :=
  eq_toQ2 (Q2.canon_ofNat _) (Q2.ev_ofNat n)
theorem toQ2_isZero (a : Fq2) : Spec.Q2.isZero (toQ2 a) = decide (a = 0) := by
  rw [Bool.eq_iff_iff, Q2.isZero_iff, evQ2_toQ2, decide_eq_true_iff]

/-! ## arrays -/

theorem get_set (b : Array ℕ) (k v i : ℕ) :
    (b.set! k v)[i]! = if k = i ∧ k < b.size then v else b[i]! := by
  simp only [Array.set!_eq_setIfInBounds, getElem!_def, Array.getElem?_setIfInBounds]
  by_cases h : k = i
  · subst h
    by_cases h2 : k < b.size
    · simp [h2]
    · simp [h2]
  · simp [h]
theorem get_oob (b : Array ℕ) (i : ℕ) (h : b.size ≤ i) : b[i]! = 0 := by
  simp [h]
theorem size_set (b : Array ℕ) (k v : ℕ) : (b.set! k v).size = b.size := by simp
theorem get_replicate (m i : ℕ) : (Array.replicate m 0 : Array ℕ)[i]! = 0 := by
  simp only [getElem!_def, Array.getElem?_replicate]
  by_cases h : i < m <;> simp [h]

theorem array12_ext (x y : Array ℕ) (hx : x.size = 12) (hy : y.size = 12)
    (h : ∀ i < 12, x[i]! = y[i]!) : x = y := by
  apply Array.ext (by rw [hx, hy])
  intro i h1 h2
  have := h i (by omega)
  rwa [getElem!_pos x i h1, getElem!_pos y i h2] at this

/-- a fold of `set!`s -/
theorem foldl_set (h : ℕ → ℕ) (l : List ℕ) : ∀ b : Array ℕ,
    (l.foldl (fun b i => b.set! i (h i)) b).size = b.size ∧
    ∀ k, k < b.size → (l.foldl (fun b i => b.set! i (h i)) b)[k]! = if k ∈ l then h k else b[k]! := by
  induction l with
  | nil => intro b; simp
  | cons a l ih =>
    intro b
    obtain ⟨h1, h2⟩ := ih (b.set! a (h a))
    rw [size_set] at h1 h2
    refine ⟨h1, fun k hk => ?_⟩
    rw [List.foldl_cons, h2 k hk, get_set]
    by_cases hl : k ∈ l
    · simp [hl]
    · by_cases ha : a = k
      · subst ha; simp [hk]
      · simp [hl, ha, Ne.symm ha]

/-! ## `Fq12` -/
open Fq12 (w ofFq ofFq2)

/-- canonical arrays: twelve entries below `q` -/
def Canon (x : Spec.F12) : Prop := x.size = 12 ∧ ∀ i < 12, x[i]! < Spec.q

/-- `Σ_{i<n} x[i] wⁱ` for an arbitrary array (missing entries read as `0`) -/
noncomputable def evN (n : ℕ) (x : Array ℕ) : Fq12 := ∑ i ∈ Finset.range n, (x[i]! : Fq12) * w ^ i

/-- the element of `Fq12` denoted by an array: `Σ_{i<12} x[i] wⁱ` -/
noncomputable def ev (x : Spec.F12) : Fq12 := evN 12 x

/-- coordinate vector in the basis `1, w, …, w¹¹`: the coefficient of `w^(i+3j+6k)` is `g.c_i.c_j.c_k` -/
def toF12 (g : Fq12) : Spec.F12 :=
  #[g.c0.c0.c0.val, g.c1.c0.c0.val, g.c2.c0.c0.val, g.c0.c1.c0.val, g.c1.c1.c0.val, g.c2.c1.c0.val,
    g.c0.c0.c1.val, g.c1.c0.c1.val, g.c2.c0.c1.val, g.c0.c1.c1.val, g.c1.c1.c1.val, g.c2.c1.c1.val]

theorem cast12 (n : ℕ) : (n : Fq12) = ofFq (n : Fq) := (map_natCast ofFq n).symm
@[simp] theorem cast12_mod (n : ℕ) : ((n % Spec.q : ℕ) : Fq12) = n := by
  rw [cast12, cast_mod, ← cast12]
@[simp] theorem cast12_subm (x y : ℕ) : ((subm Spec.q x y : ℕ) : Fq12) = (x : Fq12) - y := by
  rw [cast12, cast_subm, map_sub, ← cast12, ← cast12]
@[simp] theorem cast12_negm (x : ℕ) : ((negm Spec.q x : ℕ) : Fq12) = -(x : Fq12) := by
  rw [cast12, cast_negm, map_neg, ← cast12]
@[simp] theorem cast12_invm (x : ℕ) : ((invm Spec.q x : ℕ) : Fq12) = (x : Fq12)⁻¹ := by
  rw [cast12, cast_invm, map_inv₀, ← cast12]

theorem w12 : w ^ 12 = -2 := by
  rw [Fq12.w_pow12, Fq.nr_eq, map_neg, map_add, map_one, one_add_one_eq_two]

theorem ev_coords (x : Spec.F12) :
    ev x = ⟨⟨⟨(x[0]! : Fq), (x[6]! : Fq)⟩, ⟨(x[3]! : Fq), (x[9]! : Fq)⟩⟩,
            ⟨⟨(x[1]! : Fq), (x[7]! : Fq)⟩, ⟨(x[4]! : Fq), (x[10]! : Fq)⟩⟩,
            ⟨⟨(x[2]! : Fq), (x[8]! : Fq)⟩, ⟨(x[5]! : Fq), (x[11]! : Fq)⟩⟩⟩ := by
  unfold ev evN
  simp only [Finset.sum_range_succ, Finset.sum_range_zero, cast12, pow_zero, pow_one]
  rw [Fq12.w_pow2, Fq12.w_pow3, Fq12.w_pow4, Fq12.w_pow5, Fq12.w_pow6, Fq12.w_pow7, Fq12.w_pow8,
    Fq12.w_pow9, Fq12.w_pow10, Fq12.w_pow11]
  ext <;> simp [Fq12.ofFq_apply, w, Fq4.v, -map_natCast]

theorem canon_toF12 (g : Fq12) : Canon (toF12 g) := by
  refine ⟨rfl, fun i hi => ?_⟩
  interval_cases i <;> exact val_lt _

@[simp] theorem ev_toF12 (g : Fq12) : ev (toF12 g) = g := by
  rw [ev_coords]
  ext <;> exact cast_val _

theorem toF12_ev {x : Spec.F12} (h : Canon x) : toF12 (ev x) = x := by
  rw [ev_coords]
  apply array12_ext _ _ rfl h.1
  intro i hi
  interval_cases i <;> exact val_cast_of_lt (h.2 _ (by norm_num))

theorem toF12_injective : Function.Injective toF12 := fun a b h => by
  rw [← ev_toF12 a, h, ev_toF12]

theorem eq_toF12 {x : Spec.F12} {g : Fq12} (hc : Canon x) (h : ev x = g) : x = toF12 g := by
  rw [← h, toF12_ev hc]

/-- `ev` is injective on canonical arrays -/
theorem ev_injOn {x y : Spec.F12} (hx : Canon x) (hy : Canon y) (h : ev x = ev y) : x = y := by
  rw [← toF12_ev hx, h, toF12_ev hy]

/-! ### accumulation lemmas -/

theorem evN_replicate (n m : ℕ) : evN n (Array.replicate m 0) = 0 := by
  unfold evN
  apply Finset.sum_eq_zero
  intro i _
  rw [get_replicate, Nat.cast_zero, zero_mul]

theorem evN_set_add (n : ℕ) (b : Array ℕ) (k c : ℕ) (hk : k < n) (hb : k < b.size) :
    evN n (b.set! k (b[k]! + c)) = evN n b + (c : Fq12) * w ^ k := by
  unfold evN
  have : ∀ i, (((b.set! k (b[k]! + c))[i]! : ℕ) : Fq12) * w ^ i
      = ((b[i]! : ℕ) : Fq12) * w ^ i + (if i = k then (c : Fq12) * w ^ k else 0) := by
    intro i
    rw [get_set]
    by_cases h : k = i
    · subst h; simp [hb, add_mul]
    · simp [h, Ne.symm h]
  simp only [this, Finset.sum_add_distrib, Finset.sum_ite_eq', Finset.mem_range, hk, if_true]

theorem foldl_evN {α : Type} (n s : ℕ) (F : α → Array ℕ → Array ℕ) (G : α → Fq12) (l : List α)
    (hF : ∀ a ∈ l, ∀ b : Array ℕ, b.size = s → (F a b).size = s ∧ evN n (F a b) = evN n b + G a) :
    ∀ b : Array ℕ, b.size = s → (l.foldl (fun b a => F a b) b).size = s ∧
      evN n (l.foldl (fun b a => F a b) b) = evN n b + (l.map G).sum := by
  induction l with
  | nil => intro b hb; simp [hb]
  | cons a l ih =>
    intro b hb
    obtain ⟨h1, h2⟩ := hF a List.mem_cons_self b hb
    obtain ⟨h3, h4⟩ := ih (fun a' ha' => hF a' (List.mem_cons_of_mem _ ha')) (F a b) h1
    simp only [List.foldl_cons, List.map_cons, List.sum_cons]
    exact ⟨h3, by rw [h4, h2, add_assoc]⟩

theorem list_sum_range' (f : ℕ → Fq12) (n : ℕ) :
    ((List.range' 0 n).map f).sum = ∑ i ∈ Finset.range n, f i := by
  rw [← List.range_eq_range']
  induction n with
  | zero => simp
  | succ n ih => rw [List.range_succ, List.map_append, List.sum_append, ih, Finset.sum_range_succ]; simp

/-! ### `F12.mul` -/

/-- the 23 coefficients of the schoolbook product -/
def mulAcc (x y : Array ℕ) : Array ℕ :=
  List.foldl (fun b i => List.foldl (fun b j => b.set! (i + j) (b[i + j]! + x[i]! * y[j]!)) b (List.range' 0 12))
    (Array.replicate 23 0) (List.range' 0 12)

/-- reduction modulo `w¹² + 2` -/
def redCoeff (acc : Array ℕ) (i : ℕ) : ℕ :=
  subm Spec.q acc[i]! (2 * if i + 12 < 23 then acc[i + 12]! else 0)
def reduce (acc : Array ℕ) : Array ℕ :=
  List.foldl (fun b i => b.set! i (redCoeff acc i)) (Array.replicate 12 0) (List.range' 0 12)

theorem mul_eq (x y : Spec.F12) : Spec.F12.mul x y = reduce (mulAcc x y) := by
  unfold Spec.F12.mul
  simp only [Std.Legacy.Range.forIn_eq_forIn_range', Std.Legacy.Range.size, List.forIn_pure_yield_eq_foldl,
    bind_pure_comp, map_pure, pure_bind, Id.run_pure]
  rfl

theorem mulAcc_spec (x y : Array ℕ) :
    (mulAcc x y).size = 23 ∧ evN 23 (mulAcc x y) = evN 12 x * evN 12 y := by
  have inner : ∀ i ∈ List.range' 0 12, ∀ b : Array ℕ, b.size = 23 →
      (List.foldl (fun b j => b.set! (i + j) (b[i + j]! + x[i]! * y[j]!)) b (List.range' 0 12)).size = 23 ∧
      evN 23 (List.foldl (fun b j => b.set! (i + j) (b[i + j]! + x[i]! * y[j]!)) b (List.range' 0 12))
        = evN 23 b + ((List.range' 0 12).map
            (fun j => ((x[i]! * y[j]! : ℕ) : Fq12) * w ^ (i + j))).sum := by
    intro i hi
    have hi' : i < 12 := by simpa using (List.mem_range'_1.1 hi).2
    apply foldl_evN 23 23 (fun j b => b.set! (i + j) (b[i + j]! + x[i]! * y[j]!))
    intro j hj b hb
    have hj' : j < 12 := by simpa using (List.mem_range'_1.1 hj).2
    exact ⟨by rw [size_set, hb], evN_set_add 23 b (i + j) _ (by omega) (by omega)⟩
  obtain ⟨h1, h2⟩ := foldl_evN 23 23
    (fun i b => List.foldl (fun b j => b.set! (i + j) (b[i + j]! + x[i]! * y[j]!)) b (List.range' 0 12))
    _ (List.range' 0 12) inner (Array.replicate 23 0) (by simp)
  refine ⟨h1, ?_⟩
  unfold mulAcc
  rw [h2, evN_replicate, zero_add, list_sum_range']
  simp only [list_sum_range']
  unfold evN
  rw [Finset.sum_mul_sum]
  apply Finset.sum_congr rfl; intro i _
  apply Finset.sum_congr rfl; intro j _
  rw [Nat.cast_mul, pow_add]; ring

theorem reduce_spec (acc : Array ℕ) (hs : acc.size = 23) :
    Canon (reduce acc) ∧ evN 12 (reduce acc) = evN 23 acc := by
  obtain ⟨h1, h2⟩ := foldl_set (redCoeff acc) (List.range' 0 12) (Array.replicate 12 0)
  have hsz : (reduce acc).size = 12 := h1.trans (by simp)
  have hget : ∀ k < 12, (reduce acc)[k]! = subm Spec.q acc[k]! (2 * acc[k + 12]!) := by
    intro k hk
    refine (h2 k (by simpa using hk)).trans ?_
    rw [if_pos (List.mem_range'_1.2 ⟨Nat.zero_le _, by omega⟩)]
    unfold redCoeff
    have e : (if k + 12 < 23 then acc[k + 12]! else 0) = acc[k + 12]! := by
      split
      · rfl
      · exact (get_oob acc _ (by omega)).symm
    rw [e]
  refine ⟨⟨hsz, fun k hk => by rw [hget k hk]; exact subm_lt _ _⟩, ?_⟩
  have e24 : evN 23 acc = evN (12 + 12) acc := by
    show evN 23 acc = evN 24 acc
    unfold evN
    rw [Finset.sum_range_succ _ 23, get_oob acc 23 (by omega), Nat.cast_zero, zero_mul, add_zero]
  rw [e24]
  unfold evN
  rw [Finset.sum_range_add, ← Finset.sum_add_distrib]
  apply Finset.sum_congr rfl
  intro i hi
  rw [hget i (Finset.mem_range.1 hi), cast12_subm, pow_add, w12, Nat.cast_mul, Nat.add_comm i 12]
  push_cast; ring

theorem F12.ev_mul (x y : Spec.F12) : ev (Spec.F12.mul x y) = ev x * ev y := by
  obtain ⟨h1, h2⟩ := mulAcc_spec x y
  rw [mul_eq]; unfold ev
  rw [(reduce_spec _ h1).2, h2]

theorem F12.canon_mul (x y : Spec.F12) : Canon (Spec.F12.mul x y) := by
  rw [mul_eq]; exact (reduce_spec _ (mulAcc_spec x y).1).1

/-! ### `F12.add`, constants, embeddings -/

theorem F12.size_add (x y : Spec.F12) : (Spec.F12.add x y).size = 12 := by simp [Spec.F12.add]
theorem F12.get_add (x y : Spec.F12) (i : ℕ) (hi : i < 12) :
    (Spec.F12.add x y)[i]! = (x[i]! + y[i]!) % Spec.q := by
  unfold Spec.F12.add
  simp [hi]

theorem F12.canon_add (x y : Spec.F12) : Canon (Spec.F12.add x y) :=
  ⟨F12.size_add x y, fun i hi => by rw [F12.get_add x y i hi]; exact mod_lt _⟩

theorem F12.ev_add (x y : Spec.F12) : ev (Spec.F12.add x y) = ev x + ev y := by
  unfold ev evN
  rw [← Finset.sum_add_distrib]
  apply Finset.sum_congr rfl
  intro i hi
  rw [F12.get_add x y i (Finset.mem_range.1 hi), cast12_mod, Nat.cast_add, add_mul]

theorem F12.size_zero : Spec.F12.zero.size = 12 := by simp [Spec.F12.zero]
theorem F12.get_zero (i : ℕ) : Spec.F12.zero[i]! = 0 := get_replicate 12 i
theorem F12.ev_zero : ev Spec.F12.zero = 0 := evN_replicate 12 12

theorem canon_set {x : Spec.F12} (h : Canon x) (k v : ℕ) (hv : v < Spec.q) : Canon (x.set! k v) := by
  refine ⟨by rw [size_set, h.1], fun i hi => ?_⟩
  rw [get_set]
  split
  · exact hv
  · exact h.2 i hi

theorem F12.canon_zero : Canon Spec.F12.zero :=
  ⟨F12.size_zero, fun i _ => by rw [F12.get_zero]; decide +kernel⟩

/-- overwriting a zero entry -/
theorem ev_set_of_zero (x : Spec.F12) (k v : ℕ) (hk : k < 12) (hs : x.size = 12) (h0 : x[k]! = 0) :
    ev (x.set! k v) = ev x + (v : Fq12) * w ^ k := by
  have := evN_set_add 12 x k v hk (by omega)
  rw [h0, Nat.zero_add] at this
  exact this

theorem F12.canon_mono (i c : ℕ) : Canon (Spec.F12.mono i c) :=
  canon_set F12.canon_zero _ _ (mod_lt _)

theorem F12.ev_mono (i c : ℕ) (hi : i < 12) : ev (Spec.F12.mono i c) = (c : Fq12) * w ^ i := by
  unfold Spec.F12.mono
  rw [ev_set_of_zero _ _ _ hi F12.size_zero (F12.get_zero i), F12.ev_zero, zero_add, cast12_mod]

theorem F12.canon_ofQ (x : ℕ) : Canon (Spec.F12.ofQ x) := F12.canon_mono 0 x
theorem F12.ev_ofQ (x : ℕ) : ev (Spec.F12.ofQ x) = ofFq (x : Fq) := by
  have := F12.ev_mono 0 x (by norm_num)
  rw [pow_zero, mul_one, cast12] at this
  exact this

theorem ofFq2_eq (a : Fq2) : ofFq2 a = ofFq a.c0 + ofFq a.c1 * w ^ 6 := by
  rw [Fq12.w_pow6]
  ext <;> simp [Fq12.ofFq2_apply, Fq12.ofFq_apply]

theorem F12.canon_ofQ2 (x : Spec.Q2) : Canon (Spec.F12.ofQ2 x) :=
  canon_set (canon_set F12.canon_zero _ _ (mod_lt _)) _ _ (mod_lt _)

theorem F12.ev_ofQ2 (x : Spec.Q2) : ev (Spec.F12.ofQ2 x) = ofFq2 (evQ2 x) := by
  unfold Spec.F12.ofQ2
  rw [ev_set_of_zero _ _ _ (by norm_num) (by rw [size_set, F12.size_zero])
      (by rw [get_set, if_neg (by omega), F12.get_zero]),
    ev_set_of_zero _ _ _ (by norm_num) F12.size_zero (F12.get_zero 0), F12.ev_zero, ofFq2_eq]
  simp only [evQ2, cast12, cast_mod, pow_zero, mul_one, zero_add]

theorem F12.one_eq : Spec.F12.one = toF12 1 := by decide +kernel
theorem F12.canon_one : Canon Spec.F12.one := by rw [F12.one_eq]; exact canon_toF12 1
theorem F12.ev_one : ev Spec.F12.one = 1 := by rw [F12.one_eq, ev_toF12]

theorem F12.canon_winv : Canon Spec.F12.winv := F12.canon_mono _ _
theorem Fq12_two_ne_zero : (2 : Fq12) ≠ 0 := by
  have h : (1 + 1 : Fq12) ≠ 0 := by decide +kernel
  rwa [one_add_one_eq_two] at h
/-- `F12.winv` is `w⁻¹` -/
theorem F12.ev_winv : ev Spec.F12.winv = w⁻¹ := by
  unfold Spec.F12.winv
  rw [F12.ev_mono _ _ (by norm_num), cast12_negm, cast12_invm]
  apply eq_inv_of_mul_eq_one_left
  have h2 := Fq12_two_ne_zero
  calc -((2 : ℕ) : Fq12)⁻¹ * w ^ 11 * w = -((2 : ℕ) : Fq12)⁻¹ * w ^ 12 := by ring
    _ = 1 := by rw [w12]; push_cast; field_simp

/-! ### `F12.pow` -/

theorem F12.pow_eq_iter (x : Spec.F12) (e : ℕ) :
    Spec.F12.pow x e = ((powStep Spec.F12.mul)^[e.log2 + 1] (Spec.F12.one, x, e)).1 := by
  unfold Spec.F12.pow
  simp only [Std.Legacy.Range.forIn_eq_forIn_range']
  have hf : (fun (_ : ℕ) (s : Spec.F12 × Spec.F12 × ℕ) =>
      if (s.2.2 % 2 == 1) = true then
        (pure (ForInStep.yield (Spec.F12.mul s.1 s.2.1, Spec.F12.mul s.2.1 s.2.1, s.2.2 / 2)) : Id _)
      else pure (ForInStep.yield (s.1, Spec.F12.mul s.2.1 s.2.1, s.2.2 / 2)))
      = fun _ s => pure (ForInStep.yield (powStep Spec.F12.mul s)) := by
    funext _ s
    unfold powStep
    by_cases h : s.2.2 % 2 = 1 <;> simp [h]
  rw [hf, forIn_ignore]
  simp only [Std.Legacy.Range.size, range'_len]
  rfl

theorem F12.ev_pow (x : Spec.F12) (e : ℕ) : ev (Spec.F12.pow x e) = ev x ^ e := by
  rw [F12.pow_eq_iter]
  exact (powStep_final Spec.F12.mul ev (fun _ => True)
    (fun a b _ _ => ⟨trivial, F12.ev_mul a b⟩) Spec.F12.one x e trivial trivial F12.ev_one).2

theorem F12.canon_pow (x : Spec.F12) (e : ℕ) (hx : Canon x) : Canon (Spec.F12.pow x e) := by
  rw [F12.pow_eq_iter]
  exact (powStep_final (M := Fq12) Spec.F12.mul (fun _ => 1) Canon
    (fun a b _ _ => ⟨F12.canon_mul a b, (one_mul 1).symm⟩) Spec.F12.one x e F12.canon_one hx rfl).1

/-! ### the operations on coordinate vectors -/

theorem toF12_add (a b : Fq12) : Spec.F12.add (toF12 a) (toF12 b) = toF12 (a + b) :=
  eq_toF12 (F12.canon_add _ _) (by rw [F12.ev_add, ev_toF12, ev_toF12])
theorem toF12_mul (a b : Fq12) : Spec.F12.mul (toF12 a) (toF12 b) = toF12 (a * b) :=
  eq_toF12 (F12.canon_mul _ _) (by rw [F12.ev_mul, ev_toF12, ev_toF12])
theorem toF12_pow (a : Fq12) (e : ℕ) : Spec.F12.pow (toF12 a) e = toF12 (a ^ e) :=
  eq_toF12 (F12.canon_pow _ _ (canon_toF12 a)) (by rw [F12.ev_pow, ev_toF12])
theorem toF12_one : Spec.F12.one = toF12 1 := F12.one_eq
theorem toF12_ofQ (a : Fq) : Spec.F12.ofQ a.val = toF12 (ofFq a) :=
  eq_toF12 (F12.canon_ofQ _) (by rw [F12.ev_ofQ, cast_val])
theorem toF12_ofQ2 (a : Fq2) : Spec.F12.ofQ2 (toQ2 a) = toF12 (ofFq2 a) :=
  eq_toF12 (F12.canon_ofQ2 _) (by rw [F12.ev_ofQ2, evQ2_toQ2])
theorem toF12_winv : Spec.F12.winv = toF12 w⁻¹ := eq_toF12 F12.canon_winv F12.ev_winv
theorem toF12_mono (i : ℕ) (hi : i < 12) (c : Fq) :
    Spec.F12.mono i c.val = toF12 (ofFq c * w ^ i) :=
  eq_toF12 (F12.canon_mono _ _) (by rw [F12.ev_mono _ _ hi, cast12, cast_val])

/-- `F12.toQ2?` recognises exactly the image of `Fq2` -/
theorem toQ2?_toF12_ofFq2 (a : Fq2) : Spec.F12.toQ2? (toF12 (ofFq2 a)) = some (toQ2 a) := by
  unfold Spec.F12.toQ2?
  rw [if_pos]
  · rfl
  · simp only [List.all_eq_true, List.mem_range]
    intro i hi
    interval_cases i <;> rfl

/-! the flattening on the generators `w`, `v = w³`, `u = w⁶` of the tower -/
theorem toF12_w : toF12 w = Spec.F12.mono 1 1 := by decide +kernel
theorem toF12_v : toF12 ⟨Fq4.v, 0, 0⟩ = Spec.F12.mono 3 1 := by decide +kernel
theorem toF12_u : toF12 (ofFq2 Fq2.i) = Spec.F12.mono 6 1 := by decide +kernel

end SpecField
end Sm9
