import Sm9.Proofs.JacobianInst2
import Sm9.Proofs.Frobenius
import Sm9.Model.Pairings
/-!
# The coded line coefficients are the textbook line functions, up to a factor in Fq2ˣ

`E : y² = x³ + 5` over `Fq`, twist `E′ : y² = x³ + 5u` over `Fq2`, untwisting map
`ψ(x′, y′) = (x′ w⁻², y′ w⁻³)` (`w⁶ = u`).  The line through `ψ(T)` with slope `λ w⁻¹`
(`λ` the slope on the twist) evaluated at `P = (xP, yP) ∈ E(Fq)` is

  `yP − λ·xP·w⁻¹ + (λ·xT − yT)·w⁻³`                                   (`lineSpec_eq_w`)

`lineSpec` is this element written in the tower basis (`w⁻³ = u⁻¹ v`, `w⁻¹ = u⁻¹ v w²`).

* `g_tangent_line`: the coefficients produced by `G2m.g_tangent T`, assembled by
  `G2Prepared.get_fq12` as `miller_loop` does, are `κ · lineSpec` for the tangent at `T`, with
  `κ = c0·u ∈ Fq2ˣ`, and the updated point is `T.double`.
* `g_line_line`: the same for `G2m.g_line T Q` (chord through `T` and the affine `Q`), updated
  point `T.add Q`.
* `get_fq12_sparse`: the assembled element has the shape required by `Fq12.mul_015`, so the sparse
  product is the product.
-/
namespace Sm9

set_option maxRecDepth 100000

namespace Fq12

/-- the embedding `Fq2 → Fq12` -/
def ofFq2 : Fq2 →+* Fq12 where
  toFun a := ⟨⟨a, 0⟩, 0, 0⟩
  map_one' := rfl
  map_zero' := rfl
  map_mul' := by intros; ext : 2 <;> simp
  map_add' := by intros; ext : 2 <;> simp

theorem ofFq2_apply (a : Fq2) : ofFq2 a = ⟨⟨a, 0⟩, 0, 0⟩ := rfl

theorem ofFq2_injective : Function.Injective ofFq2 := by
  intro a b h
  have := congrArg (fun x : Fq12 => x.c0.c0) h
  exact this

theorem ofFq2_ne_zero {a : Fq2} (h : a ≠ 0) : ofFq2 a ≠ 0 := by
  intro h0; apply h; apply ofFq2_injective; rw [h0, map_zero]

theorem ofFq2_mul_sparse (k a b d : Fq2) :
    ofFq2 k * ⟨⟨a, b⟩, 0, ⟨0, d⟩⟩ = ⟨⟨k * a, k * b⟩, 0, ⟨0, k * d⟩⟩ := by
  ext : 2 <;> simp [ofFq2_apply]

/-- `w⁻¹ = u⁻¹ v w²` -/
theorem w_inv : (w : Fq12)⁻¹ = ⟨0, 0, ⟨0, Fq2.i⁻¹⟩⟩ := by
  apply inv_eq_of_mul_eq_one_right
  have hi := Fq2.i_ne_zero
  ext : 2 <;> simp [w, Fq4.v, hi]
/-- `w⁻³ = v⁻¹ = u⁻¹ v` -/
theorem w_pow3_inv : ((w : Fq12) ^ 3)⁻¹ = ⟨⟨0, Fq2.i⁻¹⟩, 0, 0⟩ := by
  apply inv_eq_of_mul_eq_one_right
  have hi := Fq2.i_ne_zero
  rw [w_pow3]
  ext : 2 <;> simp [hi]
theorem ofFq_eq_ofFq2 (a : Fq) : ofFq a = ofFq2 (Fq2.new a 0) := rfl

end Fq12

/-- the embedding `Fq → Fq2` used by the code (`Fq2::new(y, 0)`) is the ring embedding -/
theorem Fq2.new_zero_mul (a b : Fq) : Fq2.new (a * b) 0 = Fq2.new a 0 * Fq2.new b 0 := by
  ext <;> simp [Fq2.new]

namespace Jac
variable {F : Type} [Field F] [DecidableEq F]
/-- the adder on a non-identity `P` and an affine `Q` with different x-coordinates: the chord formulas -/
theorem add_chord (P Q : G F) (hz : P.z ≠ 0) (hq : Q.z = 1) (hH : chordH P.x P.z Q.x Q.z ≠ 0) :
    add P Q = ⟨chordX P.x P.y P.z Q.x Q.y Q.z, chordY P.x P.y P.z Q.x Q.y Q.z, chordZ P.x P.z Q.x Q.z⟩ := by
  unfold add G.add
  have hz1 : @G.is_zero F (feOfField F) P = false := by
    cases h : @G.is_zero F (feOfField F) P
    · rfl
    · exact absurd ((isZero_iff P).1 h) hz
  have hz2 : @G.is_zero F (feOfField F) Q = false := by
    cases h : @G.is_zero F (feOfField F) Q
    · rfl
    · exact absurd ((isZero_iff Q).1 h) (by rw [hq]; exact one_ne_zero)
  rw [hz1, hz2]
  simp only [Bool.false_eq_true, if_false, fe_beq, fe_one]
  have harm : armOut P Q = ⟨chordX P.x P.y P.z Q.x Q.y Q.z, chordY P.x P.y P.z Q.x Q.y Q.z, chordZ P.x P.z Q.x Q.z⟩ := by
    unfold armOut; rw [if_neg (fun h => hH h.2)]
  rw [decide_eq_true hq]
  by_cases h1 : P.z = 1
  · rw [decide_eq_true h1]
    show @G.add_tt F (feOfField F) P Q = _
    rw [add_tt_eq P Q h1 hq, harm]
  · rw [decide_eq_false h1]
    show @G.add_ft F (feOfField F) P Q = _
    rw [add_ft_eq P Q hq, harm]
end Jac

theorem G2.add_chord (P Q : G2) (hz : P.z ≠ 0) (hq : Q.z = 1) (hH : Jac.chordH P.x P.z Q.x Q.z ≠ 0) :
    P.add Q = ⟨Jac.chordX P.x P.y P.z Q.x Q.y Q.z, Jac.chordY P.x P.y P.z Q.x Q.y Q.z, Jac.chordZ P.x P.z Q.x Q.z⟩ := by
  have := Jac.add_chord P Q hz hq hH
  unfold Jac.add at this
  rw [← fe_Fq2_eq] at this
  exact this

namespace Miller

/-- textbook line value `yP − λ·xP·w⁻¹ + (λ·xT − yT)·w⁻³` in tower coordinates -/
noncomputable def lineSpec (xT yT lam : Fq2) (xP yP : Fq) : Fq12 :=
  { c0 := ⟨Fq2.new yP 0, (lam * xT - yT) * Fq2.i⁻¹⟩,
    c1 := 0,
    c2 := ⟨0, -(lam * Fq2.new xP 0) * Fq2.i⁻¹⟩ }

/-- `lineSpec` is the line through the untwisted point, written with `w` -/
theorem lineSpec_eq_w (xT yT lam : Fq2) (xP yP : Fq) :
    lineSpec xT yT lam xP yP
      = Fq12.ofFq yP - Fq12.ofFq2 lam * Fq12.ofFq xP * Fq12.w⁻¹
        + Fq12.ofFq2 (lam * xT - yT) * (Fq12.w ^ 3)⁻¹ := by
  rw [Fq12.w_inv, Fq12.w_pow3_inv]
  unfold lineSpec
  ext : 2 <;> simp [Fq12.ofFq2_apply, Fq12.ofFq_apply, Fq4.v, Fq2.new]

/-- a line value is non-zero as soon as `yP ≠ 0` (every point of `E(Fq)` other than `O`) -/
theorem lineSpec_ne_zero (xT yT lam : Fq2) (xP yP : Fq) (hy : yP ≠ 0) :
    lineSpec xT yT lam xP yP ≠ 0 := by
  intro h
  apply hy
  have := congrArg (fun x : Fq12 => x.c0.c0.c0) h
  exact this

/-! ## what `miller_loop` assembles from a coefficient triple -/

theorem get_fq12_eq (c : Fq2 × Fq2 × Fq2) (t1 : Fq2) (x : Fq) :
    G2Prepared.get_fq12 c t1 x = ⟨⟨c.1 * t1, c.2.1⟩, 0, ⟨0, c.2.2 * Fq2.new x 0⟩⟩ := by
  unfold G2Prepared.get_fq12
  rw [Fq2.scale_eq]
  rfl

theorem lineSpec_scale (k xT yT lam : Fq2) (xP yP : Fq) :
    Fq12.ofFq2 k * lineSpec xT yT lam xP yP =
      ⟨⟨k * Fq2.new yP 0, k * ((lam * xT - yT) * Fq2.i⁻¹)⟩, 0, ⟨0, k * (-(lam * Fq2.new xP 0) * Fq2.i⁻¹)⟩⟩ := by
  unfold lineSpec
  exact Fq12.ofFq2_mul_sparse _ _ _ _

/-- the generic shape of both line lemmas -/
theorem line_of_coeffs (c0 c1 c2 xT yT lam : Fq2) (xP yP : Fq)
    (h1 : c1 = c0 * (lam * xT - yT)) (h2 : c2 = -(c0 * lam)) :
    G2Prepared.get_fq12 (c0, c1, c2) (Fq2.new yP 0).mul_by_nonresidue xP
      = Fq12.ofFq2 (c0 * Fq2.i) * lineSpec xT yT lam xP yP := by
  have hi := Fq2.i_ne_zero
  rw [get_fq12_eq, lineSpec_scale, Fq2.mul_by_nonresidue_eq, h1, h2]
  congr 2
  · ring
  · field_simp
  · field_simp


/-- (d) the assembled element has the sparsity pattern `mul_015` expects -/
theorem get_fq12_sparse (c : Fq2 × Fq2 × Fq2) (t1 : Fq2) (x : Fq) :
    (G2Prepared.get_fq12 c t1 x).c1 = 0 ∧ (G2Prepared.get_fq12 c t1 x).c2.c0 = 0 := ⟨rfl, rfl⟩

/-- (d) hence the sparse product with it is the product of `Fq12` -/
theorem mul_015_get_fq12 (f : Fq12) (c : Fq2 × Fq2 × Fq2) (t1 : Fq2) (x : Fq) :
    f.mul_015 (G2Prepared.get_fq12 c t1 x) = f * G2Prepared.get_fq12 c t1 x :=
  Fq12.mul_015_eq_mul _ _ rfl rfl

/-! ## (b) the tangent step -/

theorem tangent_coeffs (T : G2) :
    (G2m.g_tangent T).2 =
      ((2 * (T.y * T.z)) * (T.z * T.z), 3 * (T.x * T.x) * T.x - 2 * (T.y * T.y), -((T.z*T.z) * (3 * (T.x * T.x)))) := by
  unfold G2m.g_tangent G.double
  simp only [FieldElement.double, Fq2.squared_eq_mul, Fq2.double_eq, Fq2.triple_eq]
  refine Prod.ext ?_ (Prod.ext ?_ ?_) <;> simp only <;> ring


/-- **`g_tangent` is the tangent line.**  For a Jacobian `T = (X, Y, Z)` with `Z ≠ 0`, `Y ≠ 0`,
    affine `(x, y) = (X/Z², Y/Z³)` and tangent slope `λ = 3x²/(2y)`: the point is doubled, and the
    coefficients assembled at `P = (xP, yP)` are `κ · lineSpec x y λ`, `κ = c0·u`, `c0 = 2YZ³ ≠ 0`. -/
theorem g_tangent_line (T : G2) (xP yP : Fq) (hz : T.z ≠ 0) (hy : T.y ≠ 0) :
    (G2m.g_tangent T).1 = T.double ∧
    (G2m.g_tangent T).2.1 ≠ 0 ∧
    G2Prepared.get_fq12 (G2m.g_tangent T).2 (Fq2.new yP 0).mul_by_nonresidue xP
      = Fq12.ofFq2 ((G2m.g_tangent T).2.1 * Fq2.i) *
          lineSpec (T.x / T.z ^ 2) (T.y / T.z ^ 3) (3 * (T.x / T.z ^ 2) ^ 2 / (2 * (T.y / T.z ^ 3))) xP yP := by
  have h2 := Fq2.two_ne_zero
  refine ⟨rfl, ?_, ?_⟩
  · rw [tangent_coeffs]
    exact mul_ne_zero (mul_ne_zero h2 (mul_ne_zero hy hz)) (mul_ne_zero hz hz)
  · rw [tangent_coeffs]
    apply line_of_coeffs
    · field_simp
    · field_simp

/-! ## (c) the addition step -/

theorem line_algebra {K : Type} [Field K] (X Y Z xQ yQ : K) (hz : Z ≠ 0) (hd : xQ * Z ^ 2 - X ≠ 0) :
    -(Y - Z * Z * Z * yQ) * xQ - Z * (xQ * Z ^ 2 - X) * yQ
        = Z * (xQ * Z ^ 2 - X) * ((yQ - Y / Z ^ 3) / (xQ - X / Z ^ 2) * (X / Z ^ 2) - Y / Z ^ 3) ∧
    Y - Z * Z * Z * yQ = -(Z * (xQ * Z ^ 2 - X) * ((yQ - Y / Z ^ 3) / (xQ - X / Z ^ 2))) := by
  have e : xQ - X / Z ^ 2 = (xQ * Z ^ 2 - X) / Z ^ 2 := by field_simp
  rw [e]
  obtain ⟨D, hD⟩ : ∃ D, D = xQ * Z ^ 2 - X := ⟨_, rfl⟩
  rw [← hD] at hd ⊢
  constructor
  · field_simp
    rw [hD]; ring
  · field_simp
    ring

theorem line_coeffs (T Q : G2) :
    (G2m.g_line T Q).2 =
      ((T.add Q).z, -(T.y - T.z * T.z * T.z * Q.y) * Q.x - (T.add Q).z * Q.y, T.y - T.z * T.z * T.z * Q.y) := by
  unfold G2m.g_line
  simp only [Fq2.squared_eq_mul]


/-- **`g_line` is the chord.**  For a Jacobian `T = (X, Y, Z)`, `Z ≠ 0`, an affine `Q = (xQ, yQ, 1)`
    with `x(T) ≠ xQ`, and chord slope `λ = (yQ − y)/(xQ − x)`: the point becomes `T.add Q`, and the
    coefficients assembled at `P` are `κ · lineSpec x y λ`, `κ = c0·u`, `c0 = (T.add Q).z ≠ 0`. -/
theorem g_line_line (T Q : G2) (xP yP : Fq) (hz : T.z ≠ 0) (hq : Q.z = 1) (hx : T.x / T.z ^ 2 ≠ Q.x) :
    (G2m.g_line T Q).1 = T.add Q ∧
    (G2m.g_line T Q).2.1 = (T.add Q).z ∧
    (G2m.g_line T Q).2.1 ≠ 0 ∧
    G2Prepared.get_fq12 (G2m.g_line T Q).2 (Fq2.new yP 0).mul_by_nonresidue xP
      = Fq12.ofFq2 ((G2m.g_line T Q).2.1 * Fq2.i) *
          lineSpec (T.x / T.z ^ 2) (T.y / T.z ^ 3)
            ((Q.y - T.y / T.z ^ 3) / (Q.x - T.x / T.z ^ 2)) xP yP := by
  have hd : Q.x * T.z ^ 2 - T.x ≠ 0 := by
    intro h; apply hx
    field_simp
    linear_combination -h
  have hH : Jac.chordH T.x T.z Q.x Q.z ≠ 0 := by
    unfold Jac.chordH
    rw [hq]
    intro h; apply hd; linear_combination h
  have hadd := G2.add_chord T Q hz hq hH
  have hzz : (T.add Q).z = T.z * (Q.x * T.z ^ 2 - T.x) := by
    rw [hadd]; simp only [Jac.chordZ, Jac.chordH, hq]; ring
  obtain ⟨a1, a2⟩ := line_algebra T.x T.y T.z Q.x Q.y hz hd
  refine ⟨rfl, by rw [line_coeffs], ?_, ?_⟩
  · rw [line_coeffs]
    show (T.add Q).z ≠ 0
    rw [hzz]
    exact mul_ne_zero hz hd
  · rw [line_coeffs]
    apply line_of_coeffs
    · rw [hzz]; exact a1
    · rw [hzz]; exact a2

/-- the hypotheses of both line lemmas are satisfiable: the generator `P2` (tangent), and `2·P2` with
    `P2` (chord) -/
example : (G.one : G2).z ≠ 0 ∧ (G.one : G2).y ≠ 0 := by decide +kernel
example : (G.one : G2).double.z ≠ 0 ∧ (G.one : G2).z = 1 ∧
    (G.one : G2).double.x * (G.one : G2).z ^ 2 ≠ (G.one : G2).x * (G.one : G2).double.z ^ 2 := by decide +kernel

end Miller
end Sm9

