import Sm9.Model.Api
/-!
# Kernel-checked facts about the constants extracted from the Rust source

Each statement is a closed term over `Sm9.Consts.*` (regenerated from `/repo/src` on
every run) evaluated by `decide +kernel`; a changed constant breaks it.
-/
namespace Sm9
open Consts

/-- the SM9 curve parameter -/
def tParam : Nat := 0x600000000058F98A

theorem S_eq : SM9_S = tParam := by decide +kernel
theorem q_poly : FQ = 36*tParam^4 + 36*tParam^3 + 24*tParam^2 + 6*tParam + 1 := by decide +kernel
theorem r_poly : FR = 36*tParam^4 + 36*tParam^3 + 18*tParam^2 + 6*tParam + 1 := by decide +kernel
theorem loopN_eq : SM9_LOOP_N = 6*tParam + 2 := by decide +kernel
theorem a3_eq : SM9_A3 = 6*tParam + 5 := by decide +kernel
theorem a2_eq : SM9_A2 = 6*tParam^2 + 1 := by decide +kernel
theorem nine_eq : SM9_NINE = 9 := by decide +kernel

/-- value of the signed-digit loop table: digit 1 = +1, digit 2 = −1, leading 1 implicit -/
def signedDigitsVal (ds : List Nat) : Int :=
  ds.foldl (fun acc d => 2 * acc + (if d = 1 then 1 else if d = 2 then -1 else 0)) 1

theorem loop_count_eval : signedDigitsVal SM9_LOOP_COUNT = (SM9_LOOP_N : Int) := by decide +kernel
theorem loop_count_digits : ∀ d ∈ SM9_LOOP_COUNT, d = 0 ∨ d = 1 ∨ d = 2 := by decide +kernel

/-! Montgomery constants -/
theorem fq_inv_ok : (FQ * FQ_INV) % 2^64 = 2^64 - 1 := by decide +kernel
theorem fr_inv_ok : (FR * FR_INV) % 2^64 = 2^64 - 1 := by decide +kernel
theorem fq_one_ok : FQ_ONE = 2^256 % FQ := by decide +kernel
theorem fr_one_ok : FR_ONE = 2^256 % FR := by decide +kernel
theorem fq_squared_ok : FQ_SQUARED = 2^512 % FQ := by decide +kernel
theorem fr_squared_ok : FR_SQUARED = 2^512 % FR := by decide +kernel
theorem fq_range : 2^255 < FQ ∧ FQ < 2^256 ∧ FQ % 2 = 1 := by decide +kernel
theorem fr_range : 2^255 < FR ∧ FR < 2^256 ∧ FR % 2 = 1 := by decide +kernel
theorem fq_inv_lt : FQ_INV < 2^64 ∧ FR_INV < 2^64 := by decide +kernel
theorem q_mod_8 : FQ % 8 = 5 := by decide +kernel
theorem q_mod_12 : FQ % 12 = 1 := by decide +kernel

/-- every `Fq::new(*CONST).unwrap()` / `Fq::from_slice(&CONST).unwrap()` site of the
    crate is on a constant below q, so none of them can panic -/
theorem consts_lt_q :
    SM9_ALPHA1 < FQ ∧ SM9_ALPHA2 < FQ ∧ SM9_ALPHA3 < FQ ∧ SM9_ALPHA4 < FQ ∧ SM9_ALPHA5 < FQ ∧
    SM9_BETA < FQ ∧ SM9_PI1 < FQ ∧ SM9_PI2 < FQ ∧
    SM9_P1X < FQ ∧ SM9_P1Y < FQ ∧ SM9_P2X0 < FQ ∧ SM9_P2X1 < FQ ∧ SM9_P2Y0 < FQ ∧ SM9_P2Y1 < FQ := by
  decide +kernel

/-- exponent constants of `Fq::sqrt` -/
theorem minus1_div4_eq : Fq.minus1_div4 = (FQ - 1) / 4 := by decide +kernel
theorem minus5_div8_eq : Fq.minus5_div8 = (FQ - 5) / 8 := by decide +kernel

/-! Frobenius constants are the stated powers of the non-residue −2 -/
def nr : Fq := Fq.ofNat (FQ - 2)
theorem alpha1_eq : Fq4.alpha1 = nr.pow ((FQ - 1) / 12) := by decide +kernel
theorem alpha2_eq : Fq4.alpha2 = nr.pow ((FQ - 1) / 6) := by decide +kernel
theorem alpha3_eq : Fq4.alpha3 = nr.pow ((FQ - 1) / 4) := by decide +kernel
theorem alpha4_eq : Fq4.alpha4 = nr.pow ((FQ - 1) / 3) := by decide +kernel
theorem alpha5_eq : Fq4.alpha5 = nr.pow (5 * ((FQ - 1) / 12)) := by decide +kernel
theorem beta_eq : Fq4.beta = Fq4.alpha3 := by decide +kernel
theorem pi1_eq : pi1 = Fq4.alpha1 := by decide +kernel
theorem pi2_eq : pi2 = Fq4.alpha2 := by decide +kernel

/-! generators -/
theorem P1_on_curve : (G.one : G1).y.squared = (G.one : G1).x.squared * (G.one : G1).x + coeffB1 := by
  decide +kernel
theorem P2_on_twist :
    (G.one : G2).y.squared = (G.one : G2).x.squared * (G.one : G2).x + (GroupParams.coeff_b : Fq2) := by
  decide +kernel
theorem coeff_b1 : coeffB1 = Fq.ofNat 5 := by decide +kernel
theorem coeff_b2 : (GroupParams.coeff_b : Fq2) = Fq2.new 0 (Fq.ofNat 5) := by decide +kernel

end Sm9
