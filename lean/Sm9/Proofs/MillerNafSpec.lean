import Sm9.Proofs.MillerSpec
/-!
# The textbook Miller loop of the R-ate pairing over a signed-digit chain

The same state `(T, f)` and line values as `Sm9/Proofs/MillerSpec.lean`, but the addition chain is
given by a list of signed digits `d ∈ {0, 1, 2}` (`2` stands for `−1`), the table
`Consts.SM9_LOOP_COUNT` of `G2::miller_loop` (pairings.rs):

  `f := f² · l_{T,T}(P)`, `T := 2T`;
  `d = 1`:  `f := f · l_{T,Q}(P)`,  `T := T + Q`;
  `d = 2`:  `f := f · l_{T,−Q}(P)`, `T := T − Q`.

After the loop the two Frobenius lines of `specTail`.  Vertical lines are omitted, as in
`specMiller`.  The chain reaches the same multiple: `chainValNaf_loop :
chainValNaf SM9_LOOP_COUNT 1 = SM9_LOOP_N = 6t+2`, so `specMillerNaf` and `specMiller` are two
Miller functions `f_{6t+2,Q}` computed along different addition chains (times the same two lines).
-/
namespace Sm9
namespace Miller
open WeierstrassCurve

set_option maxRecDepth 100000

section generic
variable {F : Type} [Field F] [DecidableEq F] {K : Type} [Mul K] [One K]

/-- one iteration of the signed-digit Miller loop for the digit `d` (`1`: add `Q`, `2`: subtract `Q`) -/
noncomputable def specStepNaf (W : Affine F) (ℓ : F → F → F → K) (Q : W.Point)
    (st : W.Point × K) (d : Nat) : W.Point × K :=
  let f := st.2 * st.2 * lineVal W ℓ st.1 st.1
  let T := st.1 + st.1
  if d = 1 then (T + Q, f * lineVal W ℓ T Q)
  else if d = 2 then (T + -Q, f * lineVal W ℓ T (-Q))
  else (T, f)

/-- the signed-digit double-and-add loop, from `(Q, 1)` -/
noncomputable def specLoopNaf (W : Affine F) (ℓ : F → F → F → K) (Q : W.Point)
    (digits : List Nat) : W.Point × K :=
  digits.foldl (specStepNaf W ℓ Q) (Q, 1)

end generic

/-! ### the point component is the signed-digit chain -/

/-- the next multiplier of the chain -/
def nafNext (m d : Nat) : Nat := if d = 1 then 2 * m + 1 else if d = 2 then 2 * m - 1 else 2 * m

/-- the multiple of `Q` reached from `m•Q` after the signed digits `ds` -/
def chainValNaf (ds : List Nat) (m : Nat) : Nat := ds.foldl nafNext m

/-- the signed-digit table of the code is a recoding of `6t+2` (without its leading one) -/
theorem chainValNaf_loop : chainValNaf Consts.SM9_LOOP_COUNT 1 = Consts.SM9_LOOP_N := by decide +kernel

/-- the digits are `0, 1, 2` -/
theorem loop_count_digits : ∀ d ∈ Consts.SM9_LOOP_COUNT, d = 0 ∨ d = 1 ∨ d = 2 := by decide +kernel

section
variable {F : Type} [Field F] [DecidableEq F] {K : Type} [Mul K] [One K]

theorem specStepNaf_point (W : Affine F) (ℓ : F → F → F → K) (Q : W.Point) (st : W.Point × K) (d m : Nat)
    (hm : 0 < m) (h : st.1 = m • Q) : (specStepNaf W ℓ Q st d).1 = nafNext m d • Q := by
  unfold specStepNaf nafNext
  split
  · simp only [h]
    rw [add_smul, one_smul, mul_smul, two_smul]
  · split
    · simp only [h]
      have e : 2 * m = (2 * m - 1) + 1 := by omega
      have : (2 * m) • Q = (2 * m - 1) • Q + Q := by
        conv_lhs => rw [e, add_smul, one_smul]
      rw [← two_smul ℕ (m • Q), ← mul_smul, this, add_neg_cancel_right]
    · simp only [h]
      rw [mul_smul, two_smul]

theorem nafNext_pos (m d : Nat) (hm : 0 < m) : 0 < nafNext m d := by
  unfold nafNext; split
  · omega
  · split <;> omega

theorem foldl_specStepNaf_point (W : Affine F) (ℓ : F → F → F → K) (Q : W.Point) (ds : List Nat)
    (st : W.Point × K) (m : Nat) (hm : 0 < m) (h : st.1 = m • Q) :
    (ds.foldl (specStepNaf W ℓ Q) st).1 = chainValNaf ds m • Q := by
  induction ds generalizing st m with
  | nil => exact h
  | cons d ds ih => exact ih _ _ (nafNext_pos m d hm) (specStepNaf_point W ℓ Q st d m hm h)
end

/-! ### the function component is non-zero when no line value vanishes -/

section nonzero
variable {F : Type} [Field F] [DecidableEq F] {K : Type} [Field K]

theorem specStepNaf_ne_zero (W : Affine F) (ℓ : F → F → F → K) (hℓ : ∀ x y l, ℓ x y l ≠ 0) (Q : W.Point)
    (st : W.Point × K) (d : Nat) (h : st.2 ≠ 0) : (specStepNaf W ℓ Q st d).2 ≠ 0 := by
  unfold specStepNaf
  have h1 := mul_ne_zero (mul_ne_zero h h) (lineVal_ne_zero W ℓ hℓ st.1 st.1)
  split
  · exact mul_ne_zero h1 (lineVal_ne_zero W ℓ hℓ _ _)
  · split
    · exact mul_ne_zero h1 (lineVal_ne_zero W ℓ hℓ _ _)
    · exact h1

theorem foldl_specStepNaf_ne_zero (W : Affine F) (ℓ : F → F → F → K) (hℓ : ∀ x y l, ℓ x y l ≠ 0) (Q : W.Point)
    (ds : List Nat) (st : W.Point × K) (h : st.2 ≠ 0) : (ds.foldl (specStepNaf W ℓ Q) st).2 ≠ 0 := by
  induction ds generalizing st with
  | nil => exact h
  | cons d ds ih => exact ih _ (specStepNaf_ne_zero W ℓ hℓ Q st d h)
end nonzero

/-! ## the SM9 instance -/

/-- **the textbook Miller function of the SM9 R-ate pairing along the signed-digit chain** of
    `G2::miller_loop`, at `P = (xP, yP)`, `Q = (xQ, yQ)`:
    `f_{6t+2,Q}(P) · l_{[6t+2]Q, π(Q)}(P) · l_{[6t+2]Q + π(Q), −π²(Q)}(P)` -/
noncomputable def specMillerNaf (xP yP : Fq) (xQ yQ : Fq2) : Fq12 :=
  specTail (Jac.Wb b2) (lineAt xP yP) (twPt (frobTwist (xQ, yQ))) (twPt (frobTwist (frobTwist (xQ, yQ))))
    (specLoopNaf (Jac.Wb b2) (lineAt xP yP) (twPt (xQ, yQ)) Consts.SM9_LOOP_COUNT)

theorem specMillerNaf_ne_zero (xP yP : Fq) (xQ yQ : Fq2) (hy : yP ≠ 0) : specMillerNaf xP yP xQ yQ ≠ 0 := by
  have hℓ : ∀ x y l, lineAt xP yP x y l ≠ 0 := fun x y l => lineSpec_ne_zero x y l xP yP hy
  apply specTail_ne_zero _ _ hℓ
  exact foldl_specStepNaf_ne_zero _ _ hℓ _ _ _ one_ne_zero

/-- the point component of the loop: `[6t+2]Q`, the same multiple as the binary chain of
    `specLoop` (`specLoop_point`) -/
theorem specLoopNaf_point (xP yP : Fq) (p : Fq2 × Fq2) :
    (specLoopNaf (Jac.Wb b2) (lineAt xP yP) (twPt p) Consts.SM9_LOOP_COUNT).1
      = Consts.SM9_LOOP_N • twPt p := by
  have h := foldl_specStepNaf_point (Jac.Wb b2) (lineAt xP yP) (twPt p) Consts.SM9_LOOP_COUNT
    (twPt p, 1) 1 Nat.one_pos (one_smul _ _).symm
  rw [chainValNaf_loop] at h
  exact h

end Miller
end Sm9
