import Mathlib.NumberTheory.LucasPrimality
import Mathlib.Data.Nat.ModEq

/-! Pratt certificates checked by kernel evaluation (design-phase prototype) -/

/-- binary modular exponentiation, structural on fuel; kernel-evaluable -/
def powModAux : Nat → Nat → Nat → Nat → Nat → Nat
  | 0, _, _, _, acc => acc
  | fuel+1, b, e, m, acc =>
    if e = 0 then acc else
    powModAux fuel (b * b % m) (e / 2) m (if e % 2 = 1 then acc * b % m else acc)

def powMod (b e m : Nat) : Nat := powModAux (e.log2 + 1) (b % m) e m (1 % m)

theorem powModAux_spec (fuel b e m acc : Nat) (h : e < 2 ^ fuel) :
    powModAux fuel b e m acc ≡ acc * b ^ e [MOD m] := by
  induction fuel generalizing b e acc with
  | zero =>
    have : e = 0 := by simpa using h
    subst this; simp [powModAux, Nat.ModEq]
  | succ n ih =>
    unfold powModAux
    split
    · next h0 => subst h0; simp [Nat.ModEq]
    · next h0 =>
      have hlt : e / 2 < 2 ^ n := by
        rw [Nat.div_lt_iff_lt_mul (by norm_num)]; rw [pow_succ] at h; exact h
      refine (ih _ _ _ hlt).trans ?_
      have he : e = 2 * (e / 2) + e % 2 := (Nat.div_add_mod e 2).symm
      have hsq : (b * b % m) ^ (e / 2) ≡ b ^ (2 * (e / 2)) [MOD m] := by
        rw [pow_mul, sq]; exact (Nat.mod_modEq _ _).pow _
      rcases Nat.mod_two_eq_zero_or_one e with h2 | h2
      · simp only [h2, show (0 : Nat) = 1 ↔ False by decide, if_false]
        conv_rhs => rw [he, h2, Nat.add_zero]
        exact hsq.mul_left _
      · simp only [h2, if_true]
        conv_rhs => rw [he, h2, pow_add, pow_one]
        calc acc * b % m * (b * b % m) ^ (e / 2)
            ≡ acc * b * b ^ (2 * (e / 2)) [MOD m] := (Nat.mod_modEq _ _).mul hsq
          _ = acc * (b ^ (2 * (e / 2)) * b) := by ring

theorem powMod_spec (b e m : Nat) : powMod b e m ≡ b ^ e [MOD m] := by
  unfold powMod
  refine (powModAux_spec _ _ _ _ _ (Nat.lt_log2_self (n := e))).trans ?_
  calc 1 % m * (b % m) ^ e ≡ 1 * b ^ e [MOD m] := (Nat.mod_modEq _ _).mul ((Nat.mod_modEq _ _).pow _)
    _ = b ^ e := one_mul _

/-- Lucas test from an explicit prime factorisation of p-1; every numeric side condition is a closed
    term that `decide +kernel` evaluates. -/
theorem lucas_of_factors (p a : Nat) (fs : List Nat) (hp : 1 < p)
    (hfs : ∀ f ∈ fs, f.Prime)
    (hprod : fs.prod = p - 1)
    (h1 : powMod a (p - 1) p % p = 1)
    (h2 : ∀ f ∈ fs, powMod a ((p - 1) / f) p % p ≠ 1) : p.Prime := by
  have h1p : 1 % p = 1 := Nat.mod_eq_of_lt hp
  have hmod : ∀ e, ((a : ZMod p) ^ e = 1) ↔ powMod a e p % p = 1 := by
    intro e
    have := powMod_spec a e p
    rw [← Nat.cast_pow, ← Nat.cast_one, ZMod.natCast_eq_natCast_iff]
    unfold Nat.ModEq at this ⊢
    rw [h1p, ← this]
  apply lucas_primality p (a : ZMod p)
  · exact (hmod _).2 h1
  · intro l hl hdvd
    rw [← hprod] at hdvd
    obtain ⟨f, hf, hlf⟩ := (Prime.dvd_prod_iff (Nat.prime_iff.mp hl)).mp hdvd
    have : l = f := (Nat.prime_dvd_prime_iff_eq hl (hfs f hf)).mp hlf
    subst this
    rw [Ne, hmod]
    exact h2 l hf
