import Sm9.Proofs.FieldProgram
import Sm9.Proofs.MontSop
import Sm9.Model.Tower
/-!
# Field programs (C07), third instantiation: Fq2 registers

The register machine `fstep O` / `frun O` of `Sm9/Model/Prog.lean` is instantiated for the
quadratic extension `Fq2 = Fq[u]/(u²+2)`:

* LIMB level `Fq2Prog.opsL : FOps (Nat × Nat)`: a register is the pair `(c0, c1)` of stored
  Montgomery representatives; `slice` is `Fq2::from_slice` (64 bytes, imaginary part first, each
  half decoded by the strict `fields::Fq::from_slice` = `Fp.from_slice paramsQ`), `add sub neg` are
  coordinate-wise and `mul` is `Fq2::mul_inplace`: two interleaved `Fq::sum_of_products`.
* VALUE level `Fq2Prog.opsV : FOps Fq2`: `Api.fq2FromSlice` and the model's `+ - * -` on `Fq2`.

The public `Fq2` API has no `const`, `str`, `hash`, `random`, `pow`, `inverse`, `sqrt`, `set_bit`
step in the program language: these fields of `FOps` are `none` at both levels (a program that uses
them fails on both machines).

Main theorems: `opsSim`, `frun_refines`, `frun_refines_left`, `frun_fails_iff`, `frun_canonical`,
`frunV_fails_iff_wf`, `frunL_total`, `canonRel2_unique`, `observe_eq`, `observe_is_zero`,
`observe_to_slice`, `step_congr`, `frun_observe`.
-/
set_option maxRecDepth 100000

namespace Sm9

namespace Fq2Prog

/-! ## the two machines -/

/-- `Fq2::from_slice` on limbs: 64 bytes, the first 32 are the imaginary part `c1`, the last 32 the
    real part `c0`; each half goes through the strict decoder `fields::Fq::from_slice` -/
def sliceL (bs : List UInt8) : Option (Nat × Nat) :=
  if bs.length = 64 then
    match Fp.from_slice paramsQ (bs.take 32), Fp.from_slice paramsQ (bs.drop 32) with
    | some c1, some c0 => some (c0, c1)
    | _, _ => none
  else none

/-- both results, or `none` as soon as one computation did not terminate -/
def pairOpt (x y : Option Nat) : Option (Nat × Nat) :=
  match x, y with
  | some c0, some c1 => some (c0, c1)
  | _, _ => none

/-- `Fq2::mul_inplace` of fq2.rs on limbs: c0 = Σ [a0, −2·a1]·[b0, b1], c1 = Σ [a0, a1]·[b1, b0];
    `none` iff one of the two `sum_of_products` runs out of fuel -/
def mulL (a b : Nat × Nat) : Option (Nat × Nat) :=
  pairOpt (FqL.sum_of_products [a.1, Fp.neg paramsQ (Fp.double paramsQ a.2)] [b.1, b.2])
    (FqL.sum_of_products [a.1, a.2] [b.2, b.1])

/-- LIMB level, Fq2: registers are pairs `(c0, c1)` of stored Montgomery representatives.
    An API result `None` of `from_slice` leaves zero.  `const str hash random pow inv sqrt setbit`
    do not exist for Fq2. -/
def opsL : FOps (Nat × Nat) where
  const := fun _ => none
  slice := fun bs => some ((sliceL bs).getD (Fp.zero, Fp.zero))
  str := fun _ => none
  hash := fun _ => none
  random := fun _ => none
  add := fun a b => some (Fp.add paramsQ a.1 b.1, Fp.add paramsQ a.2 b.2)
  sub := fun a b => some (Fp.sub paramsQ a.1 b.1, Fp.sub paramsQ a.2 b.2)
  mul := mulL
  pow := fun _ _ => none
  neg := fun a => some (Fp.neg paramsQ a.1, Fp.neg paramsQ a.2)
  inv := fun _ => none
  sqrt := fun _ => none
  setbit := fun _ _ _ => none

/-- VALUE level, Fq2 -/
def opsV : FOps Fq2 where
  const := fun _ => none
  slice := fun bs => some ((Api.fq2FromSlice bs).getD Fq2.zero)
  str := fun _ => none
  hash := fun _ => none
  random := fun _ => none
  add := fun a b => some (a + b)
  sub := fun a b => some (a - b)
  mul := fun a b => some (a * b)
  pow := fun _ _ => none
  neg := fun a => some (-a)
  inv := fun _ => none
  sqrt := fun _ => none
  setbit := fun _ _ _ => none

def fstepL : List (Nat × Nat) → FInstr → Option (List (Nat × Nat)) := fstep opsL
def fstepV : List Fq2 → FInstr → Option (List Fq2) := fstep opsV
def frunL : List FInstr → Option (List (Nat × Nat)) := frun opsL
def frunV : List FInstr → Option (List Fq2) := frun opsV

/-- a limb-level register `(x0, x1)` is, in both coordinates, the canonical Montgomery
    representative of the coordinates of the value `a` -/
def CanonRel2 (x : Nat × Nat) (a : Fq2) : Prop := FqProg.CanonRel x.1 a.c0 ∧ FqProg.CanonRel x.2 a.c1

theorem canonRel2_zero : CanonRel2 (Fp.zero, Fp.zero) Fq2.zero :=
  ⟨FqProg.canonRel_zero, FqProg.canonRel_zero⟩

/-! ## per-operation refinement -/

theorem slice_rel (bs : List UInt8) :
    CanonRel2 ((sliceL bs).getD (Fp.zero, Fp.zero)) ((Api.fq2FromSlice bs).getD Fq2.zero) := by
  unfold sliceL Api.fq2FromSlice
  by_cases hl : bs.length = 64
  · rw [if_pos hl, if_pos hl]
    obtain ⟨h1, h1'⟩ := Fq.from_slice_strict_refines (bs.take 32)
    obtain ⟨h0, h0'⟩ := Fq.from_slice_strict_refines (bs.drop 32)
    rw [← Fq.from_slice_strict_api (bs.take 32), ← Fq.from_slice_strict_api (bs.drop 32)]
    cases e1 : Fp.from_slice paramsQ (bs.take 32) with
    | none => exact canonRel2_zero
    | some c1 =>
      cases e0 : Fp.from_slice paramsQ (bs.drop 32) with
      | none => exact canonRel2_zero
      | some c0 => exact ⟨⟨h0' c0 e0, rfl⟩, ⟨h1' c1 e1, rfl⟩⟩
  · rw [if_neg hl, if_neg hl]; exact canonRel2_zero

theorem add_rel {a b : Nat × Nat} {a' b' : Fq2} (ha : CanonRel2 a a') (hb : CanonRel2 b b') :
    CanonRel2 (Fp.add paramsQ a.1 b.1, Fp.add paramsQ a.2 b.2) (a' + b') :=
  ⟨FqProg.opsSim.add ha.1 hb.1, FqProg.opsSim.add ha.2 hb.2⟩

theorem sub_rel {a b : Nat × Nat} {a' b' : Fq2} (ha : CanonRel2 a a') (hb : CanonRel2 b b') :
    CanonRel2 (Fp.sub paramsQ a.1 b.1, Fp.sub paramsQ a.2 b.2) (a' - b') :=
  ⟨FqProg.opsSim.sub ha.1 hb.1, FqProg.opsSim.sub ha.2 hb.2⟩

theorem neg_rel {a : Nat × Nat} {a' : Fq2} (ha : CanonRel2 a a') :
    CanonRel2 (Fp.neg paramsQ a.1, Fp.neg paramsQ a.2) (-a') :=
  ⟨FqProg.opsSim.neg ha.1, FqProg.opsSim.neg ha.2⟩

/-- the two-pair sum of products on canonical limbs: terminates, canonical, denotes a0·b0 + a1·b1 -/
theorem sop2_rel {a0 a1 b0 b1 : Nat} {x0 x1 y0 y1 : Fq} (ha0 : FqProg.CanonRel a0 x0)
    (ha1 : FqProg.CanonRel a1 x1) (hb0 : FqProg.CanonRel b0 y0) (hb1 : FqProg.CanonRel b1 y1) :
    ∃ res, FqL.sum_of_products [a0, a1] [b0, b1] = some res ∧
      FqProg.CanonRel res (Fq.sum_of_products [x0, x1] [y0, y1]) := by
  refine ⟨_, FqL.sum_of_products_eq_mul_add a0 a1 b0 b1 ha0.1 ha1.1 hb0.1 hb1.1, ?_⟩
  have h : Fq.sum_of_products [x0, x1] [y0, y1] = x0 * y0 + x1 * y1 := by
    simp [Fq.sum_of_products]
  rw [h]
  exact FqProg.opsSim.add (FqProg.opsSim.mul ha0 hb0) (FqProg.opsSim.mul ha1 hb1)

theorem negDouble_rel {a : Nat} {x : Fq} (ha : FqProg.CanonRel a x) :
    FqProg.CanonRel (Fp.neg paramsQ (Fp.double paramsQ a)) (-x.double) := by
  obtain ⟨h1, h2⟩ := Fq.double_refines a ha.1
  have hd : FqProg.CanonRel (Fp.double paramsQ a) x.double := ⟨h1, by rw [h2, ha.2]; rfl⟩
  exact FqProg.opsSim.neg hd

theorem pairOpt_some {x y : Option Nat} {r0 r1 : Nat} (e0 : x = some r0) (e1 : y = some r1) :
    pairOpt x y = some (r0, r1) := by
  subst e0 e1; rfl

theorem mul_c0_sop (a b : Fq2) : (a * b).c0 = Fq.sum_of_products [a.c0, -a.c1.double] [b.c0, b.c1] := rfl
theorem mul_c1_sop (a b : Fq2) : (a * b).c1 = Fq.sum_of_products [a.c0, a.c1] [b.c1, b.c0] := rfl

/-- `Fq2::mul_inplace` on canonical limbs terminates and denotes the product in Fq2 -/
theorem mulL_spec {a b : Nat × Nat} {a' b' : Fq2} (ha : CanonRel2 a a') (hb : CanonRel2 b b') :
    ∃ r, mulL a b = some r ∧ CanonRel2 r (a' * b') := by
  obtain ⟨r0, e0, h0⟩ := sop2_rel ha.1 (negDouble_rel ha.2) hb.1 hb.2
  obtain ⟨r1, e1, h1⟩ := sop2_rel ha.1 ha.2 hb.2 hb.1
  refine ⟨(r0, r1), pairOpt_some e0 e1, ?_, ?_⟩
  · rw [mul_c0_sop]; exact h0
  · rw [mul_c1_sop]; exact h1

theorem mul_rel {a b : Nat × Nat} {a' b' : Fq2} (ha : CanonRel2 a a') (hb : CanonRel2 b b') :
    OptRel CanonRel2 (mulL a b) (some (a' * b')) := by
  obtain ⟨r, e, h⟩ := mulL_spec ha hb
  rw [e]; exact h

/-- every operation of the limb-level Fq2 machine simulates the value-level operation -/
theorem opsSim : OpsSim CanonRel2 opsL opsV where
  const := fun _ => trivial
  slice := fun bs => slice_rel bs
  str := fun _ => trivial
  hash := fun _ => trivial
  random := fun _ => trivial
  add := fun ha hb => add_rel ha hb
  sub := fun ha hb => sub_rel ha hb
  mul := fun ha hb => mul_rel ha hb
  pow := fun _ _ => trivial
  neg := fun ha => neg_rel ha
  inv := fun _ => trivial
  sqrt := fun _ => trivial
  setbit := fun _ _ _ => trivial

/-- one step from related states (the step lemma) -/
theorem fstep_refines {regs : List (Nat × Nat)} {ds : List Fq2} (h : List.Forall₂ CanonRel2 regs ds)
    (ins : FInstr) : OptRel (List.Forall₂ CanonRel2) (fstepL regs ins) (fstepV ds ins) :=
  fstep_sim opsSim h ins

/-! ## whole programs -/

/-- from any related state: the machines fail together, and otherwise end in related states -/
theorem frunFrom_refines (prog : List FInstr) (regs : List (Nat × Nat)) (ds : List Fq2)
    (h : List.Forall₂ CanonRel2 regs ds) :
    OptRel (List.Forall₂ CanonRel2) (frunFrom opsL regs prog) (frunFrom opsV ds prog) :=
  frunFrom_sim opsSim prog regs ds h

/-- **every program over the Fq2 operations**: if the value-level machine runs, the limb-level
    machine runs too (no `sum_of_products` runs out of fuel), and limb register k is, in both
    coordinates, the canonical Montgomery representative (`< q`) of value register k -/
theorem frun_refines (prog : List FInstr) (ds : List Fq2) (h : frunV prog = some ds) :
    ∃ regs, frunL prog = some regs ∧ List.Forall₂ CanonRel2 regs ds :=
  (frun_sim opsSim prog).of_some h

/-- conversely every limb-level run is a value-level run -/
theorem frun_refines_left (prog : List FInstr) (regs : List (Nat × Nat)) (h : frunL prog = some regs) :
    ∃ ds, frunV prog = some ds ∧ List.Forall₂ CanonRel2 regs ds :=
  (frun_sim opsSim prog).of_some_left h

/-- the two machines fail on exactly the same programs -/
theorem frun_fails_iff (prog : List FInstr) : frunL prog = none ↔ frunV prog = none :=
  (frun_sim opsSim prog).none_iff

theorem forall₂_canon {regs : List (Nat × Nat)} {ds : List Fq2} (h : List.Forall₂ CanonRel2 regs ds) :
    ∀ x ∈ regs, x.1 < paramsQ.modulus ∧ x.2 < paramsQ.modulus := by
  induction h with
  | nil => intro x hx; cases hx
  | cons hr _ ih =>
    intro x hx
    rcases List.mem_cons.mp hx with rfl | hx
    · exact ⟨hr.1.1, hr.2.1⟩
    · exact ih x hx

/-- **canonicity after any sequence of operations**: both coordinates of every register are `< q` -/
theorem frun_canonical (prog : List FInstr) (regs : List (Nat × Nat)) (h : frunL prog = some regs) :
    ∀ x ∈ regs, x.1 < paramsQ.modulus ∧ x.2 < paramsQ.modulus := by
  obtain ⟨ds, _, hr⟩ := frun_refines_left prog regs h
  exact forall₂_canon hr

/-! ## when does a program fail?  A purely syntactic condition -/

/-- instruction `ins` can be performed on a register file of `n` registers: only
    `slice add sub mul neg dup` exist for Fq2 -/
def wfInstr (n : Nat) : FInstr → Bool
  | .slice _ => true
  | .add i j => decide (i < n) && decide (j < n)
  | .sub i j => decide (i < n) && decide (j < n)
  | .mul i j => decide (i < n) && decide (j < n)
  | .neg i => decide (i < n)
  | .dup i => decide (i < n)
  | _ => false

def wfFrom : Nat → List FInstr → Bool
  | _, [] => true
  | n, ins :: rest => wfInstr n ins && wfFrom (n + 1) rest

/-- the program only uses `slice add sub mul neg dup` and every register index refers to an
    earlier step -/
def WellFormed (prog : List FInstr) : Prop := wfFrom 0 prog = true

instance (prog : List FInstr) : Decidable (WellFormed prog) := by unfold WellFormed; infer_instance

theorem fnewV_isSome (ds : List Fq2) (ins : FInstr) : (fnew opsV ds ins).isSome = wfInstr ds.length ins := by
  cases ins with
  | const v => rfl
  | slice bs => rfl
  | str cs => rfl
  | hash bs => rfl
  | random draw => rfl
  | add i j =>
    simp only [fnew, opsV, wfInstr]
    rcases Nat.lt_or_ge i ds.length with hi | hi <;> rcases Nat.lt_or_ge j ds.length with hj | hj <;>
      simp [hi, hj, Nat.not_lt.mpr]
  | sub i j =>
    simp only [fnew, opsV, wfInstr]
    rcases Nat.lt_or_ge i ds.length with hi | hi <;> rcases Nat.lt_or_ge j ds.length with hj | hj <;>
      simp [hi, hj, Nat.not_lt.mpr]
  | mul i j =>
    simp only [fnew, opsV, wfInstr]
    rcases Nat.lt_or_ge i ds.length with hi | hi <;> rcases Nat.lt_or_ge j ds.length with hj | hj <;>
      simp [hi, hj, Nat.not_lt.mpr]
  | pow i j =>
    simp only [fnew, opsV, wfInstr]
    rcases Nat.lt_or_ge i ds.length with hi | hi <;> rcases Nat.lt_or_ge j ds.length with hj | hj <;>
      simp [hi, hj]
  | neg i =>
    simp only [fnew, opsV, wfInstr]
    rcases Nat.lt_or_ge i ds.length with hi | hi <;> simp [hi, Nat.not_lt.mpr]
  | dup i =>
    simp only [fnew, wfInstr]
    rcases Nat.lt_or_ge i ds.length with hi | hi <;> simp [hi, Nat.not_lt.mpr]
  | inv i =>
    simp only [fnew, opsV, wfInstr]
    rcases Nat.lt_or_ge i ds.length with hi | hi <;> simp [hi]
  | sqrt i =>
    simp only [fnew, opsV, wfInstr]
    rcases Nat.lt_or_ge i ds.length with hi | hi <;> simp [hi]
  | setbit i b v =>
    simp only [fnew, opsV, wfInstr]
    rcases Nat.lt_or_ge i ds.length with hi | hi <;> simp [hi]

theorem frunFromV_isSome (prog : List FInstr) : ∀ ds : List Fq2,
    (frunFrom opsV ds prog).isSome = wfFrom ds.length prog := by
  induction prog with
  | nil => intro ds; rfl
  | cons ins rest ih =>
    intro ds
    have h1 := fnewV_isSome ds ins
    simp only [frunFrom, fstep, wfFrom]
    cases hn : fnew opsV ds ins with
    | none => rw [hn] at h1; rw [← h1]; rfl
    | some x =>
      rw [hn] at h1
      rw [← h1]
      simp only [Option.isSome_some, Bool.true_and]
      rw [ih (ds ++ [x])]
      simp

/-- the value-level machine (hence, by `frun_fails_iff`, the limb-level machine) fails exactly on
    programs that are not well formed -/
theorem frunV_fails_iff_wf (prog : List FInstr) : frunV prog = none ↔ ¬ WellFormed prog := by
  have h := frunFromV_isSome prog []
  unfold frunV frun WellFormed
  simp only [List.length_nil] at h
  rw [← h]
  cases frunFrom opsV [] prog <;> simp

/-- the same for the limb-level machine -/
theorem frunL_fails_iff_wf (prog : List FInstr) : frunL prog = none ↔ ¬ WellFormed prog :=
  (frun_fails_iff prog).trans (frunV_fails_iff_wf prog)

/-- **totality**: on every well-formed program the limb-level machine terminates within the model's
    fuel, with canonical registers denoting the value-level registers -/
theorem frunL_total (prog : List FInstr) (hwf : WellFormed prog) :
    ∃ regs ds, frunL prog = some regs ∧ frunV prog = some ds ∧ List.Forall₂ CanonRel2 regs ds ∧
      regs.length = prog.length ∧ ∀ x ∈ regs, x.1 < paramsQ.modulus ∧ x.2 < paramsQ.modulus := by
  cases hv : frunV prog with
  | none => exact absurd hwf ((frunV_fails_iff_wf prog).mp hv)
  | some ds =>
    obtain ⟨regs, hl, hr⟩ := frun_refines prog ds hv
    refine ⟨regs, ds, hl, rfl, hr, ?_, forall₂_canon hr⟩
    have := frunFrom_length prog hl
    simpa using this

/-! ## observations are functions of the denoted Fq2 element -/

/-- derived `PartialEq` of `Fq2`: equality of the raw limbs of both coordinates -/
def eqObs2 (x y : Nat × Nat) : Bool := x == y
/-- `Fq2::is_zero`: `c0.is_zero() && c1.is_zero()` -/
def isZeroObs2 (x : Nat × Nat) : Bool := FProg.isZeroObs x.1 && FProg.isZeroObs x.2
/-- `Fq2::to_slice`: imaginary part first -/
def toSliceObs2 (x : Nat × Nat) : List UInt8 := FProg.toSliceObs paramsQ x.2 ++ FProg.toSliceObs paramsQ x.1
/-- `Fq2::is_even`: parity of the real part -/
def isEvenObs2 (x : Nat × Nat) : Bool := FProg.isEvenObs x.1

theorem fq2_ext {a b : Fq2} (h0 : a.c0 = b.c0) (h1 : a.c1 = b.c1) : a = b := by
  cases a; cases b; simp_all

/-- the representative is unique: the stored limb pair is a function of the Fq2 element -/
theorem canonRel2_unique {x y : Nat × Nat} {a : Fq2} (hx : CanonRel2 x a) (hy : CanonRel2 y a) : x = y :=
  Prod.ext (FqProg.canonRel_unique hx.1 hy.1) (FqProg.canonRel_unique hx.2 hy.2)

/-- the denotation is unique -/
theorem canonRel2_functional {x : Nat × Nat} {a b : Fq2} (hx : CanonRel2 x a) (hy : CanonRel2 x b) : a = b :=
  fq2_ext (hx.1.2.symm.trans hy.1.2) (hx.2.2.symm.trans hy.2.2)

/-- derived `==` (equality of raw limb pairs) ⇔ equality in Fq2 -/
theorem observe_eq {x y : Nat × Nat} {a b : Fq2} (hx : CanonRel2 x a) (hy : CanonRel2 y b) :
    x = y ↔ a = b := by
  constructor
  · intro h; subst h; exact canonRel2_functional hx hy
  · intro h; subst h; exact canonRel2_unique hx hy

theorem observe_eq_bool {x y : Nat × Nat} {a b : Fq2} (hx : CanonRel2 x a) (hy : CanonRel2 y b) :
    eqObs2 x y = decide (a = b) := by
  unfold eqObs2
  by_cases h : a = b
  · have := (observe_eq hx hy).mpr h
    simp [h, this]
  · have : ¬ x = y := fun e => h ((observe_eq hx hy).mp e)
    simp [h, this]

/-- `is_zero` of the limb pair is `Fq2.is_zero` of the value -/
theorem observe_is_zero {x : Nat × Nat} {a : Fq2} (hx : CanonRel2 x a) : isZeroObs2 x = a.is_zero := by
  unfold isZeroObs2 Fq2.is_zero
  rw [FqProg.observe_is_zero hx.1, FqProg.observe_is_zero hx.2]

theorem fq2_is_zero_iff (a : Fq2) : a.is_zero = true ↔ a = Fq2.zero := by
  unfold Fq2.is_zero
  rw [Bool.and_eq_true, Fq.is_zero_iff, Fq.is_zero_iff]
  constructor
  · intro h; exact fq2_ext h.1 h.2
  · intro h; subst h; exact ⟨rfl, rfl⟩

theorem observe_is_zero_iff {x : Nat × Nat} {a : Fq2} (hx : CanonRel2 x a) :
    isZeroObs2 x = true ↔ a = Fq2.zero := by
  rw [observe_is_zero hx]; exact fq2_is_zero_iff a

/-- both limbs are zero ⇔ the value is zero -/
theorem observe_limbs_zero_iff {x : Nat × Nat} {a : Fq2} (hx : CanonRel2 x a) :
    x = (Fp.zero, Fp.zero) ↔ a = Fq2.zero :=
  observe_eq hx canonRel2_zero

/-- the 64-byte encoding of the limb pair (imaginary part first) is `Api.fq2ToSlice` of the value -/
theorem observe_to_slice {x : Nat × Nat} {a : Fq2} (hx : CanonRel2 x a) : toSliceObs2 x = Api.fq2ToSlice a := by
  unfold toSliceObs2 Api.fq2ToSlice
  rw [FqProg.observe_to_slice hx.1, FqProg.observe_to_slice hx.2]

theorem observe_is_even {x : Nat × Nat} {a : Fq2} (hx : CanonRel2 x a) : isEvenObs2 x = Api.fq2IsEven a :=
  FqProg.observe_is_even hx.1

/-- every Fq2 element has a canonical representative -/
theorem canonRel2_fresh (a : Fq2) :
    CanonRel2 (Fp.new_mul_factor paramsQ a.c0.val, Fp.new_mul_factor paramsQ a.c1.val) a :=
  ⟨FqProg.canonRel_fresh a.c0, FqProg.canonRel_fresh a.c1⟩

/-- two limb-level register files denoting the same values are equal -/
theorem regs_unique {regs regs' : List (Nat × Nat)} {ds : List Fq2} (h : List.Forall₂ CanonRel2 regs ds)
    (h' : List.Forall₂ CanonRel2 regs' ds) : regs = regs' := by
  induction h generalizing regs' with
  | nil => cases h'; rfl
  | cons hr _ ih =>
    cases h' with
    | cons hr' ht' => rw [canonRel2_unique hr hr', ih ht']

/-- **any further instruction** applied to two register files related to the same value-level file
    gives related results — in fact the same result -/
theorem step_congr {regs regs' : List (Nat × Nat)} {ds : List Fq2} (h : List.Forall₂ CanonRel2 regs ds)
    (h' : List.Forall₂ CanonRel2 regs' ds) (ins : FInstr) :
    OptRel (List.Forall₂ CanonRel2) (fstepL regs ins) (fstepV ds ins) ∧
    OptRel (List.Forall₂ CanonRel2) (fstepL regs' ins) (fstepV ds ins) ∧
    fstepL regs ins = fstepL regs' ins :=
  ⟨fstep_sim opsSim h ins, fstep_sim opsSim h' ins, by rw [regs_unique h h']⟩

/-- the observations of a run: for registers i, j of the limb-level run, `==`, `is_zero`, `to_slice`,
    `is_even` are those of the value-level registers -/
theorem frun_observe (prog : List FInstr) (regs : List (Nat × Nat)) (h : frunL prog = some regs) :
    ∃ ds, frunV prog = some ds ∧ ds.length = regs.length ∧
      ∀ (i j : Nat) (x y : Nat × Nat), regs[i]? = some x → regs[j]? = some y →
        ∃ a b, ds[i]? = some a ∧ ds[j]? = some b ∧ CanonRel2 x a ∧
        eqObs2 x y = decide (a = b) ∧ isZeroObs2 x = a.is_zero ∧
        toSliceObs2 x = Api.fq2ToSlice a ∧ isEvenObs2 x = Api.fq2IsEven a := by
  obtain ⟨ds, hv, hr⟩ := frun_refines_left prog regs h
  refine ⟨ds, hv, hr.length_eq.symm, fun i j x y hi hj => ?_⟩
  obtain ⟨a, ha, hxa⟩ := (lookup_rel hr i).of_some_left hi
  obtain ⟨b, hb, hyb⟩ := (lookup_rel hr j).of_some_left hj
  exact ⟨a, b, ha, hb, hxa, observe_eq_bool hxa hyb, observe_is_zero hxa, observe_to_slice hxa,
    observe_is_even hxa⟩

/-! ## non-vacuity -/

/-- 64 bytes: imaginary part `im` first, then real part `re` (both one-byte values) -/
def bytes2 (im re : UInt8) : List UInt8 := List.replicate 31 0 ++ [im] ++ (List.replicate 31 0 ++ [re])

/-- (3 + 5u)·(7 + 11u) -/
def demo : List FInstr := [.slice (bytes2 5 3), .slice (bytes2 11 7), .mul 0 1]

example : WellFormed demo := by decide

/-- the value machine runs: (3 + 5u)(7 + 11u) = (21 − 2·55) + (33 + 35)u -/
example : frunV demo = some [Fq2.new (Fq.ofNat 3) (Fq.ofNat 5), Fq2.new (Fq.ofNat 7) (Fq.ofNat 11),
    Fq2.new (Fq.ofNat (q - 89)) (Fq.ofNat 68)] := by decide +kernel

/-- the limb machine runs too, and its registers taken out of Montgomery form are the same values -/
example : (frunL demo).map (List.map fun x => (Fp.into_u256 paramsQ x.1, Fp.into_u256 paramsQ x.2))
    = some [(3, 5), (7, 11), (q - 89, 68)] := by decide +kernel

/-- the `None` convention: a 63-byte slice and a slice whose real part is `2^256 − 1 ≥ q` leave zero;
    all six instructions -/
example : frunV [.slice (List.replicate 63 1), .slice (List.replicate 32 0 ++ List.replicate 32 255),
      .slice (bytes2 1 2), .add 0 2, .sub 3 2, .neg 2, .dup 5, .mul 6 2] =
    some [Fq2.zero, Fq2.zero, Fq2.new (Fq.ofNat 2) (Fq.ofNat 1), Fq2.new (Fq.ofNat 2) (Fq.ofNat 1), Fq2.zero,
      Fq2.new (Fq.ofNat (q - 2)) (Fq.ofNat (q - 1)), Fq2.new (Fq.ofNat (q - 2)) (Fq.ofNat (q - 1)),
      Fq2.new (Fq.ofNat (q - 2)) (Fq.ofNat (q - 4))] := by decide +kernel

/-- programs on which both machines fail: an index out of range, an instruction Fq2 does not have -/
example : frunL [.slice (bytes2 1 2), .mul 0 1] = none ∧ frunV [.slice (bytes2 1 2), .mul 0 1] = none ∧
    frunL [.const 5] = none ∧ frunV [.const 5] = none ∧ frunL [.slice [], .inv 0] = none := by
  refine ⟨?_, ?_, ?_, ?_, ?_⟩ <;> rfl

end Fq2Prog

end Sm9
