import Sm9.Proofs.MillerFrobenius
import Sm9.Proofs.MillerNaf
/-!
# The negation fragment of bilinearity: `e(−P, Q) = e(P, −Q) = e(P, Q)⁻¹`

`σ : x ↦ x^(q⁶)` is the conjugation of `Fq12` over `Fq6`; it fixes `Fq2`, and `σ(w) = −w`.
* negating `P` turns every line value `ℓ` into `−σ(ℓ)`, so the Miller function becomes `±σ(f)`;
* negating `Q` negates every point of the chain and every slope, and turns `ℓ` into `σ(ℓ)`, so the
  Miller function becomes `σ(f)`;
* `σ(f)^E · f^E = f^((q⁶+1)·E) = 1` for `E = (q¹²−1)/r`, since `r ∣ q⁶+1`; and `(−1)^E = 1`.
-/
namespace Sm9
namespace Miller
open WeierstrassCurve

set_option maxRecDepth 100000

/-- `σ : x ↦ x^(q⁶)` -/
noncomputable def sigma : Fq12 →+* Fq12 := iterateFrobenius Fq12 q 6

theorem sigma_apply (x : Fq12) : sigma x = x ^ q ^ 6 := iterateFrobenius_def _ _ _

theorem sigma_eq_twist (x : Fq12) : sigma x = Fq12.twist (-1) x := by
  rw [sigma_apply, Fq12.pow_q_pow_eq_twist, Fq12.consts6]

theorem twist_neg_one_sparse (a A B : Fq2) :
    Fq12.twist (-1) ⟨⟨a, A⟩, 0, ⟨0, B⟩⟩ = ⟨⟨a, -A⟩, 0, ⟨0, -B⟩⟩ := by
  have e3 : (-1 : Fq) ^ 3 = -1 := Odd.neg_one_pow (by decide)
  have e5 : (-1 : Fq) ^ 5 = -1 := Odd.neg_one_pow (by decide)
  have e9 : (-1 : Fq) ^ 9 = -1 := Odd.neg_one_pow (by decide)
  have e11 : (-1 : Fq) ^ 11 = -1 := Odd.neg_one_pow (by decide)
  have e6 : (-1 : Fq) ^ 6 = 1 := Even.neg_one_pow (by decide)
  ext <;> simp [Fq12.twist, e3, e5, e6, e9, e11] <;> ring

theorem sigma_lineSpec (x y lam : Fq2) (xP yP : Fq) :
    sigma (lineSpec x y lam xP yP)
      = ⟨⟨Fq2.new yP 0, -((lam * x - y) * Fq2.i⁻¹)⟩, 0, ⟨0, -(-(lam * Fq2.new xP 0) * Fq2.i⁻¹)⟩⟩ := by
  rw [sigma_eq_twist]
  exact twist_neg_one_sparse _ _ _

theorem Fq12.neg_sparse (a A B : Fq2) : -(⟨⟨a, A⟩, 0, ⟨0, B⟩⟩ : Fq12) = ⟨⟨-a, -A⟩, 0, ⟨0, -B⟩⟩ := by
  ext <;> simp

theorem Fq2.new_neg_zero (a : Fq) : Fq2.new (-a) 0 = -Fq2.new a 0 := by
  ext <;> simp [Fq2.new]

/-- negating `yP`: `ℓ ↦ −σ(ℓ)` -/
theorem lineSpec_neg_P (x y lam : Fq2) (xP yP : Fq) :
    lineSpec x y lam xP (-yP) = -sigma (lineSpec x y lam xP yP) := by
  rw [sigma_lineSpec, Fq12.neg_sparse, neg_neg, neg_neg, ← Fq2.new_neg_zero]
  rfl

/-- negating `yT` and the slope: `ℓ ↦ σ(ℓ)` -/
theorem lineSpec_neg_Q (x y lam : Fq2) (xP yP : Fq) :
    lineSpec x (-y) (-lam) xP yP = sigma (lineSpec x y lam xP yP) := by
  rw [sigma_lineSpec]
  unfold lineSpec
  congr 2
  · ring
  · ring

/-! ## the final exponent -/

theorem sigma_exp_identity :
    (q ^ 6 + 1) * ((q ^ 12 - 1) / r) = (q ^ 12 - 1) * ((q ^ 6 + 1) / r) := by decide +kernel

/-- `σ(f)^E · f^E = 1` for `E = (q¹²−1)/r` -/
theorem sigma_pow_final (f : Fq12) (hf : f ≠ 0) :
    sigma f ^ ((q ^ 12 - 1) / r) * f ^ ((q ^ 12 - 1) / r) = 1 := by
  rw [sigma_apply, ← pow_mul, ← pow_add,
    show q ^ 6 * ((q ^ 12 - 1) / r) + (q ^ 12 - 1) / r = (q ^ 6 + 1) * ((q ^ 12 - 1) / r) by ring,
    sigma_exp_identity, pow_mul, Fq12.pow_card_sub_one f hf, one_pow]

/-- equal up to sign -/
def SignEq {K : Type} [Neg K] (a b : K) : Prop := a = b ∨ a = -b

theorem signEq_pow_final (g f : Fq12) (hf : f ≠ 0) (h : SignEq g (sigma f)) :
    g ^ ((q ^ 12 - 1) / r) * f ^ ((q ^ 12 - 1) / r) = 1 := by
  rcases h with h | h
  · rw [h]; exact sigma_pow_final f hf
  · rw [h, neg_pow, neg_one_pow_final, one_mul]; exact sigma_pow_final f hf

theorem foldl_rel {α β ι : Type} (R : α → β → Prop) (f : α → ι → α) (g : β → ι → β)
    (hstep : ∀ a b i, R a b → R (f a i) (g b i)) (l : List ι) (a : α) (b : β) (h : R a b) :
    R (l.foldl f a) (l.foldl g b) := by
  induction l generalizing a b with
  | nil => exact h
  | cons i is ih => exact ih _ _ (hstep a b i h)

/-! ## negating `P`: generic induction -/

section negP
variable {F : Type} [Field F] [DecidableEq F] {K : Type} [Field K]

theorem SignEq.mul_map (σ : K →+* K) {a b c d : K} (h1 : SignEq a (σ b)) (h2 : SignEq c (σ d)) :
    SignEq (a * c) (σ (b * d)) := by
  rw [map_mul]
  rcases h1 with h1 | h1 <;> rcases h2 with h2 | h2 <;> rw [h1, h2]
  · left; rfl
  · right; ring
  · right; ring
  · left; ring

variable (W : Affine F) (σ : K →+* K) (ℓ ℓ' : F → F → F → K)

theorem lineVal_negP (h : ∀ x y l, ℓ' x y l = -σ (ℓ x y l)) (A B : W.Point) :
    SignEq (lineVal W ℓ' A B) (σ (lineVal W ℓ A B)) := by
  cases A with
  | zero => left; exact (map_one σ).symm
  | some x1 y1 h1 =>
    cases B with
    | zero => left; exact (map_one σ).symm
    | some x2 y2 h2 => right; exact h _ _ _

/-- the states of the two loops: same point, function equal to `±σ(f)` -/
def RelP (st' st : W.Point × K) : Prop := st'.1 = st.1 ∧ SignEq st'.2 (σ st.2)

theorem specStep_negP (h : ∀ x y l, ℓ' x y l = -σ (ℓ x y l)) (Q : W.Point) (N : Nat)
    (st' st : W.Point × K) (i : Nat) (hr : RelP W σ st' st) :
    RelP W σ (specStep W ℓ' Q N st' i) (specStep W ℓ Q N st i) := by
  obtain ⟨T', f'⟩ := st'
  obtain ⟨T, f⟩ := st
  obtain ⟨h1, h2⟩ := hr
  simp only at h1 h2
  subst h1
  have hd := (h2.mul_map σ h2).mul_map σ (lineVal_negP W σ ℓ ℓ' h T' T')
  unfold specStep
  simp only
  split
  · exact ⟨rfl, hd.mul_map σ (lineVal_negP W σ ℓ ℓ' h _ _)⟩
  · exact ⟨rfl, hd⟩

theorem specStepNaf_negP (h : ∀ x y l, ℓ' x y l = -σ (ℓ x y l)) (Q : W.Point)
    (st' st : W.Point × K) (d : Nat) (hr : RelP W σ st' st) :
    RelP W σ (specStepNaf W ℓ' Q st' d) (specStepNaf W ℓ Q st d) := by
  obtain ⟨T', f'⟩ := st'
  obtain ⟨T, f⟩ := st
  obtain ⟨h1, h2⟩ := hr
  simp only at h1 h2
  subst h1
  have hd := (h2.mul_map σ h2).mul_map σ (lineVal_negP W σ ℓ ℓ' h T' T')
  unfold specStepNaf
  simp only
  split
  · exact ⟨rfl, hd.mul_map σ (lineVal_negP W σ ℓ ℓ' h _ _)⟩
  · split
    · exact ⟨rfl, hd.mul_map σ (lineVal_negP W σ ℓ ℓ' h _ _)⟩
    · exact ⟨rfl, hd⟩

theorem specTail_negP (h : ∀ x y l, ℓ' x y l = -σ (ℓ x y l)) (Q1 Q2 : W.Point)
    (st' st : W.Point × K) (hr : RelP W σ st' st) :
    SignEq (specTail W ℓ' Q1 Q2 st') (σ (specTail W ℓ Q1 Q2 st)) := by
  obtain ⟨T', f'⟩ := st'
  obtain ⟨T, f⟩ := st
  obtain ⟨h1, h2⟩ := hr
  simp only at h1 h2
  subst h1
  unfold specTail
  exact (h2.mul_map σ (lineVal_negP W σ ℓ ℓ' h _ _)).mul_map σ (lineVal_negP W σ ℓ ℓ' h _ _)

omit [DecidableEq F] in
theorem relP_init (Q : W.Point) : RelP W σ (Q, (1 : K)) (Q, 1) := ⟨rfl, Or.inl (map_one σ).symm⟩

end negP

/-! ## negating `P`: the SM9 Miller functions -/

theorem lineAt_neg_P (xP yP : Fq) (x y l : Fq2) : lineAt xP (-yP) x y l = -sigma (lineAt xP yP x y l) :=
  lineSpec_neg_P x y l xP yP

/-- `f_{−P} = ±σ(f_P)` (binary chain) -/
theorem specMiller_neg_P (xP yP : Fq) (xQ yQ : Fq2) :
    SignEq (specMiller xP (-yP) xQ yQ) (sigma (specMiller xP yP xQ yQ)) := by
  unfold specMiller specLoop
  apply specTail_negP _ _ _ _ (lineAt_neg_P xP yP)
  exact foldl_rel (RelP _ sigma) _ _
    (fun a b i hr => specStep_negP _ sigma _ _ (lineAt_neg_P xP yP) _ _ a b i hr) _ _ _ (relP_init _ _ _)

/-- `f_{−P} = ±σ(f_P)` (signed-digit chain) -/
theorem specMillerNaf_neg_P (xP yP : Fq) (xQ yQ : Fq2) :
    SignEq (specMillerNaf xP (-yP) xQ yQ) (sigma (specMillerNaf xP yP xQ yQ)) := by
  unfold specMillerNaf specLoopNaf
  apply specTail_negP _ _ _ _ (lineAt_neg_P xP yP)
  exact foldl_rel (RelP _ sigma) _ _
    (fun a b i hr => specStepNaf_negP _ sigma _ _ (lineAt_neg_P xP yP) _ a b i hr) _ _ _ (relP_init _ _ _)

/-! ## negating `Q`: generic induction -/

section negQ
variable {F : Type} [Field F] [DecidableEq F] {K : Type} [Field K] (b : F)

theorem slope_neg (x1 x2 y1 y2 : F) :
    (Jac.Wb b).slope x1 x2 (-y1) (-y2) = -(Jac.Wb b).slope x1 x2 y1 y2 := by
  unfold Affine.slope
  simp only [twist_negY]
  by_cases hx : x1 = x2
  · by_cases hy : y1 = -y2
    · rw [if_pos hx, if_pos (by rw [hy]), if_pos hx, if_pos hy, neg_zero]
    · have hy' : ¬ (-y1 = - -y2) := fun h => hy (neg_injective h)
      rw [if_pos hx, if_neg hy', if_pos hx, if_neg hy]
      simp only [Jac.Wb, mul_zero, zero_mul, add_zero, sub_zero]
      rw [show -y1 - - -y1 = -(y1 - -y1) by ring, div_neg]
  · rw [if_neg hx, if_neg hx, show -y1 - -y2 = -(y1 - y2) by ring, neg_div]

variable (σ : K →+* K) (ℓ : F → F → F → K)

theorem lineVal_negQ (h : ∀ x y l, ℓ x (-y) (-l) = σ (ℓ x y l)) (A B : (Jac.Wb b).Point) :
    lineVal (Jac.Wb b) ℓ (-A) (-B) = σ (lineVal (Jac.Wb b) ℓ A B) := by
  cases A with
  | zero => exact (map_one σ).symm
  | some x1 y1 h1 =>
    cases B with
    | zero => exact (map_one σ).symm
    | some x2 y2 h2 =>
      rw [Affine.Point.neg_some, Affine.Point.neg_some, lineVal_some, lineVal_some, twist_negY, twist_negY,
        slope_neg, h]

/-- the states of the two loops: opposite points, function equal to `σ(f)` -/
def RelQ (st' st : (Jac.Wb b).Point × K) : Prop := st'.1 = -st.1 ∧ st'.2 = σ st.2

theorem specStep_negQ (h : ∀ x y l, ℓ x (-y) (-l) = σ (ℓ x y l)) (Q : (Jac.Wb b).Point) (N : Nat)
    (st' st : (Jac.Wb b).Point × K) (i : Nat) (hr : RelQ b σ st' st) :
    RelQ b σ (specStep (Jac.Wb b) ℓ (-Q) N st' i) (specStep (Jac.Wb b) ℓ Q N st i) := by
  obtain ⟨T', f'⟩ := st'
  obtain ⟨T, f⟩ := st
  obtain ⟨h1, h2⟩ := hr
  simp only at h1 h2
  subst h1 h2
  unfold specStep RelQ
  simp only
  split
  · refine ⟨by simp only [neg_add], ?_⟩
    rw [← neg_add, lineVal_negQ b σ ℓ h, lineVal_negQ b σ ℓ h]
    simp only [map_mul]
  · refine ⟨by simp only [neg_add], ?_⟩
    rw [lineVal_negQ b σ ℓ h]
    simp only [map_mul]

theorem specStepNaf_negQ (h : ∀ x y l, ℓ x (-y) (-l) = σ (ℓ x y l)) (Q : (Jac.Wb b).Point)
    (st' st : (Jac.Wb b).Point × K) (d : Nat) (hr : RelQ b σ st' st) :
    RelQ b σ (specStepNaf (Jac.Wb b) ℓ (-Q) st' d) (specStepNaf (Jac.Wb b) ℓ Q st d) := by
  obtain ⟨T', f'⟩ := st'
  obtain ⟨T, f⟩ := st
  obtain ⟨h1, h2⟩ := hr
  simp only at h1 h2
  subst h1 h2
  unfold specStepNaf RelQ
  simp only
  split
  · refine ⟨by simp only [neg_add], ?_⟩
    rw [← neg_add, lineVal_negQ b σ ℓ h, lineVal_negQ b σ ℓ h]
    simp only [map_mul]
  · split
    · refine ⟨by simp only [neg_add], ?_⟩
      rw [← neg_add, lineVal_negQ b σ ℓ h, lineVal_negQ b σ ℓ h]
      simp only [map_mul]
    · refine ⟨by simp only [neg_add], ?_⟩
      rw [lineVal_negQ b σ ℓ h]
      simp only [map_mul]

theorem specTail_negQ (h : ∀ x y l, ℓ x (-y) (-l) = σ (ℓ x y l)) (Q1 Q2 : (Jac.Wb b).Point)
    (st' st : (Jac.Wb b).Point × K) (hr : RelQ b σ st' st) :
    specTail (Jac.Wb b) ℓ (-Q1) (-Q2) st' = σ (specTail (Jac.Wb b) ℓ Q1 Q2 st) := by
  obtain ⟨T', f'⟩ := st'
  obtain ⟨T, f⟩ := st
  obtain ⟨h1, h2⟩ := hr
  simp only at h1 h2
  subst h1 h2
  unfold specTail
  simp only
  rw [← neg_add, lineVal_negQ b σ ℓ h, lineVal_negQ b σ ℓ h]
  simp only [map_mul]

omit [DecidableEq F] in
theorem relQ_init (Q : (Jac.Wb b).Point) : RelQ b σ (-Q, (1 : K)) (Q, 1) := ⟨rfl, (map_one σ).symm⟩

end negQ

/-! ## negating `Q`: the SM9 Miller functions -/

theorem twPt_eq_zero (x y : Fq2) (hn : ¬ (Jac.Wb b2).Nonsingular x y) : twPt (x, y) = 0 := by
  unfold twPt Jac.toAff
  simp [hn]

/-- `(x, −y) = −(x, y)` on the twist (both are `O` off the curve) -/
theorem twPt_neg (p : Fq2 × Fq2) : twPt (p.1, -p.2) = -twPt p := by
  obtain ⟨x, y⟩ := p
  by_cases hn : (Jac.Wb b2).Nonsingular x y
  · have hv : G2.Valid (affG2 (x, y)) := Or.inr (by simpa [affG2] using hn)
    rw [twPt_eq, twPt_eq, ← G2.neg_correct _ hv, affG2_neg]
  · have hn' : ¬ (Jac.Wb b2).Nonsingular x (-y) := by
      intro h; apply hn
      have := (Affine.nonsingular_neg (W' := Jac.Wb b2) x (-y)).2 h
      rwa [twist_negY, neg_neg] at this
    rw [twPt_eq_zero x y hn, twPt_eq_zero x (-y) hn', neg_zero]

theorem frobTwist_neg (p : Fq2 × Fq2) :
    frobTwist (p.1, -p.2) = ((frobTwist p).1, -(frobTwist p).2) := by
  unfold frobTwist
  simp only [← conj_apply, map_neg, neg_mul]

theorem lineAt_neg_Q (xP yP : Fq) (x y l : Fq2) : lineAt xP yP x (-y) (-l) = sigma (lineAt xP yP x y l) :=
  lineSpec_neg_Q x y l xP yP

theorem twPt_frob_neg (p : Fq2 × Fq2) : twPt (frobTwist (p.1, -p.2)) = -twPt (frobTwist p) := by
  rw [frobTwist_neg, twPt_neg]

theorem twPt_frob_frob_neg (p : Fq2 × Fq2) :
    twPt (frobTwist (frobTwist (p.1, -p.2))) = -twPt (frobTwist (frobTwist p)) := by
  rw [frobTwist_neg, twPt_frob_neg]

/-- `f_{P}(−Q) = σ(f_P(Q))` (binary chain) -/
theorem specMiller_neg_Q (xP yP : Fq) (xQ yQ : Fq2) :
    specMiller xP yP xQ (-yQ) = sigma (specMiller xP yP xQ yQ) := by
  unfold specMiller specLoop
  rw [twPt_frob_neg (xQ, yQ), twPt_frob_frob_neg (xQ, yQ), twPt_neg (xQ, yQ)]
  apply specTail_negQ b2 sigma _ (lineAt_neg_Q xP yP)
  exact foldl_rel (RelQ b2 sigma) _ _
    (fun a b i hr => specStep_negQ b2 sigma _ (lineAt_neg_Q xP yP) _ _ a b i hr) _ _ _ (relQ_init _ _ _)

/-- `f_{P}(−Q) = σ(f_P(Q))` (signed-digit chain) -/
theorem specMillerNaf_neg_Q (xP yP : Fq) (xQ yQ : Fq2) :
    specMillerNaf xP yP xQ (-yQ) = sigma (specMillerNaf xP yP xQ yQ) := by
  unfold specMillerNaf specLoopNaf
  rw [twPt_frob_neg (xQ, yQ), twPt_frob_frob_neg (xQ, yQ), twPt_neg (xQ, yQ)]
  apply specTail_negQ b2 sigma _ (lineAt_neg_Q xP yP)
  exact foldl_rel (RelQ b2 sigma) _ _
    (fun a b i hr => specStepNaf_negQ b2 sigma _ (lineAt_neg_Q xP yP) _ a b i hr) _ _ _ (relQ_init _ _ _)

/-! ## the API level -/

theorem G1.neg_eq (P : G1) (hz : P.z ≠ 0) : P.neg = ⟨P.x, -P.y, P.z⟩ := by
  unfold G.neg
  have : P.is_zero = false := by
    cases h : P.is_zero
    · rfl
    · exact absurd ((G1.is_zero_iff P).1 h) hz
  rw [this]
  rfl

theorem G2.neg_eq (Q : G2) (hz : Q.z ≠ 0) : Q.neg = ⟨Q.x, -Q.y, Q.z⟩ := by
  unfold G.neg
  have : Q.is_zero = false := by
    cases h : Q.is_zero
    · rfl
    · exact absurd ((G2.is_zero_iff Q).1 h) hz
  rw [this]
  rfl

theorem gen_neg : (r - 1) • G2.toAff (G.one : G2) = -G2.toAff (G.one : G2) := by
  have ho := gen_order
  rw [twPt_eq, affG2_gen] at ho
  have hr1 : r - 1 + 1 = r := by decide +kernel
  rw [← hr1, add_smul, one_smul] at ho
  exact eq_neg_of_add_eq_zero_left ho

/-- `−[k]P2 = [k(r−1)]P2` -/
theorem neg_multiple (Q : G2) (hQv : G2.Valid Q) (k : Nat) (hk : G2.toAff Q = k • G2.toAff (G.one : G2)) :
    G2.toAff Q.neg = (k * (r - 1)) • G2.toAff (G.one : G2) := by
  rw [G2.neg_correct Q hQv, hk, mul_nsmul', gen_neg, smul_neg]

/-- an entry point `A` that returns the reduced value of a Miller function `S` on `(E(Fq)∖O) × (⟨P2⟩∖O)` -/
def Computes (A : G1 → G2 → Outcome Fq12) (S : Fq → Fq → Fq2 → Fq2 → Fq12) : Prop :=
  ∀ (P : G1) (Q : G2), P.z ≠ 0 → G1.Valid P → Q.z ≠ 0 → G2.Valid Q →
    ∀ k : Nat, G2.toAff Q = k • G2.toAff (G.one : G2) →
      A P Q = .ok (S (P.x / P.z ^ 2) (P.y / P.z ^ 3) (Q.x / Q.z ^ 2) (Q.y / Q.z ^ 3) ^ ((q ^ 12 - 1) / r))

section api
variable (A : G1 → G2 → Outcome Fq12) (S : Fq → Fq → Fq2 → Fq2 → Fq12) (hA : Computes A S)
  (hne : ∀ xP yP xQ yQ, yP ≠ 0 → S xP yP xQ yQ ≠ 0)
include hA hne

theorem neg_left_of_computes (hS : ∀ xP yP xQ yQ, SignEq (S xP (-yP) xQ yQ) (sigma (S xP yP xQ yQ)))
    (P : G1) (Q : G2) (hPz : P.z ≠ 0) (hPv : G1.Valid P) (hQz : Q.z ≠ 0)
    (hQv : G2.Valid Q) (k : Nat) (hk : G2.toAff Q = k • G2.toAff (G.one : G2)) :
    ∃ g g', A P Q = .ok g ∧ A P.neg Q = .ok g' ∧ g' * g = 1 := by
  have hy := Jac.y_ne_zero b1 Fq.no_two_torsion P hPz (hPv.resolve_left hPz)
  have hyP : P.y / P.z ^ 3 ≠ 0 := div_ne_zero hy (pow_ne_zero _ hPz)
  have e := G1.neg_eq P hPz
  have ex : P.neg.x = P.x := by rw [e]
  have ey : P.neg.y = -P.y := by rw [e]
  have ez : P.neg.z = P.z := by rw [e]
  have h1 := hA P Q hPz hPv hQz hQv k hk
  have h2 := hA P.neg Q (by rw [ez]; exact hPz) (G1.neg_valid P hPv) hQz hQv k hk
  rw [ex, ey, ez, neg_div] at h2
  exact ⟨_, _, h1, h2, signEq_pow_final _ _ (hne _ _ _ _ hyP) (hS _ _ _ _)⟩

theorem neg_right_of_computes (hS : ∀ xP yP xQ yQ, S xP yP xQ (-yQ) = sigma (S xP yP xQ yQ))
    (P : G1) (Q : G2) (hPz : P.z ≠ 0) (hPv : G1.Valid P) (hQz : Q.z ≠ 0)
    (hQv : G2.Valid Q) (k : Nat) (hk : G2.toAff Q = k • G2.toAff (G.one : G2)) :
    ∃ g g', A P Q = .ok g ∧ A P Q.neg = .ok g' ∧ g' * g = 1 := by
  have hy := Jac.y_ne_zero b1 Fq.no_two_torsion P hPz (hPv.resolve_left hPz)
  have hyP : P.y / P.z ^ 3 ≠ 0 := div_ne_zero hy (pow_ne_zero _ hPz)
  have e := G2.neg_eq Q hQz
  have ex : Q.neg.x = Q.x := by rw [e]
  have ey : Q.neg.y = -Q.y := by rw [e]
  have ez : Q.neg.z = Q.z := by rw [e]
  have h1 := hA P Q hPz hPv hQz hQv k hk
  have h2 := hA P Q.neg hPz hPv (by rw [ez]; exact hQz) (G2.neg_valid Q hQv) _ (neg_multiple Q hQv k hk)
  rw [ex, ey, ez, neg_div, hS] at h2
  exact ⟨_, _, h1, h2, sigma_pow_final _ (hne _ _ _ _ hyP)⟩

theorem neg_neg_of_computes (hS1 : ∀ xP yP xQ yQ, SignEq (S xP (-yP) xQ yQ) (sigma (S xP yP xQ yQ)))
    (hS2 : ∀ xP yP xQ yQ, S xP yP xQ (-yQ) = sigma (S xP yP xQ yQ))
    (P : G1) (Q : G2) (hPz : P.z ≠ 0) (hPv : G1.Valid P) (hQz : Q.z ≠ 0)
    (hQv : G2.Valid Q) (k : Nat) (hk : G2.toAff Q = k • G2.toAff (G.one : G2)) :
    A P.neg Q.neg = A P Q := by
  obtain ⟨g, g2, a1, a2, a3⟩ := neg_right_of_computes A S hA hne hS2 P Q hPz hPv hQz hQv k hk
  have ez : Q.neg.z = Q.z := by rw [G2.neg_eq Q hQz]
  obtain ⟨g1, g1', c1, c2, c3⟩ := neg_left_of_computes A S hA hne hS1 P Q.neg hPz hPv (by rw [ez]; exact hQz)
    (G2.neg_valid Q hQv) _ (neg_multiple Q hQv k hk)
  have e : g1 = g2 := Outcome.ok.inj (c1.symm.trans a2)
  subst e
  rw [c2, a1]
  congr 1
  calc g1' = g1' * (g1 * g) := by rw [a3, mul_one]
    _ = (g1' * g1) * g := by ring
    _ = g := by rw [c3, one_mul]

end api

theorem computes_fast : Computes Api.fast_pairing specMiller := api_fast_pairing_eq_spec_G2
theorem computes_pairing : Computes Api.pairing specMillerNaf := api_pairing_eq_spec_G2

section main
variable (P : G1) (Q : G2) (hPz : P.z ≠ 0) (hPv : G1.Valid P) (hQz : Q.z ≠ 0)
    (hQv : G2.Valid Q) (k : Nat) (hk : G2.toAff Q = k • G2.toAff (G.one : G2))
include hPz hPv hQz hQv hk

/-- **`e(−P, Q) · e(P, Q) = 1`** for `fast_pairing` -/
theorem fast_pairing_neg_left :
    ∃ g g', Api.fast_pairing P Q = .ok g ∧ Api.fast_pairing P.neg Q = .ok g' ∧ g' * g = 1 :=
  neg_left_of_computes _ _ computes_fast specMiller_ne_zero specMiller_neg_P P Q hPz hPv hQz hQv k hk

/-- **`e(P, −Q) · e(P, Q) = 1`** for `fast_pairing` -/
theorem fast_pairing_neg_right :
    ∃ g g', Api.fast_pairing P Q = .ok g ∧ Api.fast_pairing P Q.neg = .ok g' ∧ g' * g = 1 :=
  neg_right_of_computes _ _ computes_fast specMiller_ne_zero specMiller_neg_Q P Q hPz hPv hQz hQv k hk

/-- **`e(−P, −Q) = e(P, Q)`** for `fast_pairing` -/
theorem fast_pairing_neg_neg : Api.fast_pairing P.neg Q.neg = Api.fast_pairing P Q :=
  neg_neg_of_computes _ _ computes_fast specMiller_ne_zero specMiller_neg_P specMiller_neg_Q
    P Q hPz hPv hQz hQv k hk

/-- **`e(−P, Q) · e(P, Q) = 1`** for `pairing` -/
theorem pairing_neg_left :
    ∃ g g', Api.pairing P Q = .ok g ∧ Api.pairing P.neg Q = .ok g' ∧ g' * g = 1 :=
  neg_left_of_computes _ _ computes_pairing specMillerNaf_ne_zero specMillerNaf_neg_P P Q hPz hPv hQz hQv k hk

/-- **`e(P, −Q) · e(P, Q) = 1`** for `pairing` -/
theorem pairing_neg_right :
    ∃ g g', Api.pairing P Q = .ok g ∧ Api.pairing P Q.neg = .ok g' ∧ g' * g = 1 :=
  neg_right_of_computes _ _ computes_pairing specMillerNaf_ne_zero specMillerNaf_neg_Q P Q hPz hPv hQz hQv k hk

/-- **`e(−P, −Q) = e(P, Q)`** for `pairing` -/
theorem pairing_neg_neg : Api.pairing P.neg Q.neg = Api.pairing P Q :=
  neg_neg_of_computes _ _ computes_pairing specMillerNaf_ne_zero specMillerNaf_neg_P specMillerNaf_neg_Q
    P Q hPz hPv hQz hQv k hk

/-- the same for `G2Prepared::from(Q).pairing(&P)` -/
theorem prepared_pairing_neg_left :
    ∃ g g', (do let pr ← Api.prepare Q; Api.preparedPairing pr P) = .ok g ∧
      (do let pr ← Api.prepare Q; Api.preparedPairing pr P.neg) = .ok g' ∧ g' * g = 1 := by
  rw [api_prepared_eq_fast, api_prepared_eq_fast]
  exact fast_pairing_neg_left P Q hPz hPv hQz hQv k hk

theorem prepared_pairing_neg_right :
    ∃ g g', (do let pr ← Api.prepare Q; Api.preparedPairing pr P) = .ok g ∧
      (do let pr ← Api.prepare Q.neg; Api.preparedPairing pr P) = .ok g' ∧ g' * g = 1 := by
  rw [api_prepared_eq_fast, api_prepared_eq_fast]
  exact fast_pairing_neg_right P Q hPz hPv hQz hQv k hk

theorem prepared_pairing_neg_neg :
    (do let pr ← Api.prepare Q.neg; Api.preparedPairing pr P.neg)
      = (do let pr ← Api.prepare Q; Api.preparedPairing pr P) := by
  rw [api_prepared_eq_fast, api_prepared_eq_fast]
  exact fast_pairing_neg_neg P Q hPz hPv hQz hQv k hk

end main

end Miller
end Sm9
