import Sm9.Proofs.Pow
import Sm9.Proofs.Consts
import Sm9.Proofs.GroupBasic
/-!
# Soundness and completeness of `Fq::sqrt` and `Fq2::sqrt`

`q = 8k+5`.  All facts about quadratic residues that are needed are derived from the
algorithm itself plus Fermat (`Fq.fermat`) and two closed kernel evaluations
(`2^((q-1)/2) = -1`, `1 ≠ -1`); no Mathlib number theory is imported.

Main results
* `Fq.sqrt_sound`, `Fq.sqrt_complete`, `Fq.sqrt_isSome_iff`, `Fq.sqrt_zero`, `Fq.sqrt_smaller`,
  `Fq.sqrt_eq_none_iff`
* `Fq2.sqrt_sound`, `Fq2.sqrt_complete`, `Fq2.sqrt_complete_real`, `Fq2.sqrt_isSome_iff`
-/
namespace Sm9

/-! ## Constants: `q = 8k+5` -/

/-- `k` with `q = 8k+5` -/
def sqrtK : Nat := (q - 5) / 8

theorem q_eq_sqrtK : q = 8 * sqrtK + 5 := by decide +kernel
theorem minus1_div4_sqrtK : Fq.minus1_div4 = 2 * sqrtK + 1 := by decide +kernel
theorem minus5_div8_sqrtK : Fq.minus5_div8 = sqrtK := by decide +kernel
theorem half_eq_sqrtK : (q - 1) / 2 = 4 * sqrtK + 2 := by decide +kernel

namespace Fq

/-- 2 is a quadratic non-residue (`q ≡ 5 mod 8`), by kernel evaluation of Euler's criterion -/
theorem two_pow_half_model : ((1 : Fq) + 1).pow (4 * sqrtK + 2) = -1 := by decide +kernel
theorem two_pow_half : ((1 : Fq) + 1) ^ (4 * sqrtK + 2) = -1 := by
  rw [← Fq.pow_eq]; exact two_pow_half_model
theorem one_ne_neg_one : (1 : Fq) ≠ -1 := by decide +kernel
theorem one_add_one_ne_zero : ((1 : Fq) + 1) ≠ 0 := by decide +kernel

theorem is_one_iff (x : Fq) : x.is_one = true ↔ x = 1 := by
  unfold Fq.is_one Fq.val
  rw [beq_iff_eq]
  constructor
  · intro h; apply Fin.ext; rw [h, Fq.one_val]
  · intro h; rw [h, Fq.one_val]

theorem fermat_sqrtK (x : Fq) (hx : x ≠ 0) : x ^ (8 * sqrtK + 4) = 1 := by
  have h := Fq.fermat x hx
  have e : q - 1 = 8 * sqrtK + 4 := by decide +kernel
  exact e ▸ h

/-- the candidate computed by `Fq::sqrt` before the sign normalisation -/
noncomputable def sqrtRes (x : Fq) : Fq :=
  if x ^ (2 * sqrtK + 1) = 1 then x ^ sqrtK * x
  else if x ^ (2 * sqrtK + 1) = -1 then (x + x) * ((x + x) + (x + x)) ^ sqrtK
  else 0

/-- equation lemma restating `Fq::sqrt` with ring-level powers and propositional tests -/
theorem sqrt_eq (x : Fq) :
    x.sqrt = if x = 0 then some 0 else
      if sqrtRes x = 0 then none
      else some (if (-(sqrtRes x)).val < (sqrtRes x).val then -(sqrtRes x) else sqrtRes x) := by
  have hres : (if (x.pow minus1_div4).is_one = true then x.pow minus5_div8 * x
      else if (-(x.pow minus1_div4)).is_one = true then
        x.double * (x.double.double.pow minus5_div8) else 0) = sqrtRes x := by
    unfold sqrtRes
    simp only [Fq.pow_eq, minus1_div4_sqrtK, minus5_div8_sqrtK, is_one_iff, Fq.double_def,
      neg_eq_iff_eq_neg]
  unfold Fq.sqrt
  simp only [hres, Fq.is_zero_iff]

theorem sqrtRes_sq (x : Fq) (_hx : x ≠ 0) (h : x ^ (4 * sqrtK + 2) = 1) :
    sqrtRes x * sqrtRes x = x := by
  have hy : x ^ (2 * sqrtK + 1) * x ^ (2 * sqrtK + 1) = 1 := by rw [← h]; ring
  rcases mul_self_eq_one_iff.1 hy with h1 | h1
  · unfold sqrtRes
    rw [if_pos h1]
    calc x ^ sqrtK * x * (x ^ sqrtK * x) = x ^ (2 * sqrtK + 1) * x := by ring
      _ = x := by rw [h1, one_mul]
  · have hne : x ^ (2 * sqrtK + 1) ≠ 1 := by rw [h1]; exact fun e => one_ne_neg_one e.symm
    unfold sqrtRes
    rw [if_neg hne, if_pos h1]
    have ht := two_pow_half
    generalize hT : (1 : Fq) + 1 = t at ht
    have h2 : x + x = t * x := by rw [← hT]; ring
    rw [h2]
    calc t * x * (t * x + t * x) ^ sqrtK * (t * x * (t * x + t * x) ^ sqrtK)
        = x * t ^ (4 * sqrtK + 2) * x ^ (2 * sqrtK + 1) := by
          have : t * x + t * x = t * t * x := by rw [← hT]; ring
          rw [this]; ring
      _ = x := by rw [ht, h1]; ring

theorem sqrtRes_eq_zero (x : Fq) (h : x ^ (4 * sqrtK + 2) ≠ 1) : sqrtRes x = 0 := by
  have hsq : x ^ (2 * sqrtK + 1) * x ^ (2 * sqrtK + 1) = x ^ (4 * sqrtK + 2) := by ring
  have h1 : x ^ (2 * sqrtK + 1) ≠ 1 := by
    intro e; apply h; rw [← hsq, e, one_mul]
  have h2 : x ^ (2 * sqrtK + 1) ≠ -1 := by
    intro e; apply h; rw [← hsq, e]; ring
  unfold sqrtRes
  rw [if_neg h1, if_neg h2]

/-- Euler's criterion, direction used here: a non-zero square has `x^((q-1)/2) = 1` -/
theorem pow_half_of_sq (c : Fq) (hc : c ≠ 0) : (c * c) ^ (4 * sqrtK + 2) = 1 := by
  rw [← fermat_sqrtK c hc]; ring

theorem sqrt_zero : (0 : Fq).sqrt = some 0 := by
  rw [sqrt_eq, if_pos rfl]

/-- `Fq::sqrt` succeeds exactly on 0 and on the elements satisfying Euler's criterion -/
theorem sqrt_isSome_iff_euler (x : Fq) :
    x.sqrt.isSome = true ↔ x = 0 ∨ x ^ (4 * sqrtK + 2) = 1 := by
  rw [sqrt_eq]
  by_cases hx : x = 0
  · simp [hx]
  · rw [if_neg hx]
    by_cases h : x ^ (4 * sqrtK + 2) = 1
    · have hr : sqrtRes x ≠ 0 := by
        intro e
        have := sqrtRes_sq x hx h
        rw [e, mul_zero] at this
        exact hx this.symm
      rw [if_neg hr]
      simp [h]
    · rw [if_pos (sqrtRes_eq_zero x h)]
      simp [hx, h]

/-- **Soundness of `Fq::sqrt`**: a returned value is a square root. -/
theorem sqrt_sound (x s : Fq) (h : x.sqrt = some s) : s * s = x := by
  have hsome : x.sqrt.isSome = true := by rw [h]; rfl
  rw [sqrt_eq] at h
  by_cases hx : x = 0
  · rw [if_pos hx, Option.some.injEq] at h
    rw [← h, hx, mul_zero]
  · rw [if_neg hx] at h
    rcases (sqrt_isSome_iff_euler x).1 hsome with h0 | he
    · exact absurd h0 hx
    · have hsq := sqrtRes_sq x hx he
      by_cases hr : sqrtRes x = 0
      · rw [if_pos hr] at h; exact absurd h (by simp)
      · rw [if_neg hr, Option.some.injEq] at h
        rw [← h]
        split
        · calc -sqrtRes x * -sqrtRes x = sqrtRes x * sqrtRes x := by ring
            _ = x := hsq
        · exact hsq

/-- **Completeness of `Fq::sqrt`**: every square has a root found. -/
theorem sqrt_complete (x : Fq) (h : ∃ c, c * c = x) : x.sqrt.isSome = true := by
  obtain ⟨c, rfl⟩ := h
  rw [sqrt_isSome_iff_euler]
  by_cases hc : c = 0
  · left; rw [hc, mul_zero]
  · right; exact pow_half_of_sq c hc

/-- `Fq::sqrt` succeeds exactly on the squares -/
theorem sqrt_isSome_iff (x : Fq) : x.sqrt.isSome = true ↔ ∃ c, c * c = x := by
  constructor
  · intro h
    obtain ⟨s, hs⟩ := Option.isSome_iff_exists.1 h
    exact ⟨s, sqrt_sound x s hs⟩
  · exact sqrt_complete x

theorem sqrt_eq_none_iff (x : Fq) : x.sqrt = none ↔ ¬ ∃ c, c * c = x := by
  rw [← sqrt_isSome_iff]
  cases x.sqrt <;> simp

/-- the returned root is the one with the smaller canonical representative -/
theorem sqrt_smaller (x s : Fq) (h : x.sqrt = some s) : s.val ≤ (-s).val := by
  rw [sqrt_eq] at h
  by_cases hx : x = 0
  · rw [if_pos hx, Option.some.injEq] at h
    rw [← h, neg_zero]
  · rw [if_neg hx] at h
    by_cases hr : sqrtRes x = 0
    · rw [if_pos hr] at h; exact absurd h (by simp)
    · rw [if_neg hr, Option.some.injEq] at h
      rw [← h]
      split
      · next hlt => rw [_root_.neg_neg]; exact Nat.le_of_lt hlt
      · next hlt => exact Nat.le_of_not_lt hlt

end Fq

/-! ## `Fq::div2` is halving -/

theorem Fq.div2_spec (a : Fq) : a.div2 + a.div2 = a := by
  have hq2 : q % 2 = 1 := by decide +kernel
  have hlt : Fin.val a < q := a.isLt
  apply Fin.ext
  refine (Fin.val_add _ _).trans ?_
  show ((Fin.ofNat q _).val + (Fin.ofNat q _).val) % q = _
  simp only [Fin.val_ofNat]
  unfold Fq.val
  generalize Fin.val a = n at *
  by_cases h : n % 2 = 0
  · simp only [h, beq_self_eq_true, if_true]
    have h1 : n / 2 < q := by omega
    rw [Nat.mod_eq_of_lt h1]
    have h2 : n/2 + n/2 = n := by omega
    rw [h2, Nat.mod_eq_of_lt hlt]
  · have hb : (n % 2 == 0) = false := by simpa using h
    simp only [hb, Bool.false_eq_true, if_false]
    have h1 : (n + q) / 2 < q := by omega
    rw [Nat.mod_eq_of_lt h1]
    have h2 : (n + q)/2 + (n + q)/2 = n + q := by omega
    rw [h2, Nat.add_mod_right, Nat.mod_eq_of_lt hlt]

theorem Fq.div2_eq_of_add_self (d e : Fq) (h : e + e = d) : d.div2 = e := by
  have h1 : ((1 : Fq) + 1) * (d.div2 - e) = 0 := by
    have := Fq.div2_spec d
    calc ((1 : Fq) + 1) * (d.div2 - e) = (d.div2 + d.div2) - (e + e) := by ring
      _ = 0 := by rw [this, h, sub_self]
  rcases mul_eq_zero.1 h1 with h2 | h2
  · exact absurd h2 Fq.one_add_one_ne_zero
  · exact sub_eq_zero.1 h2

def Fq2.sqrtY (a w : Fq) : Option Fq :=
  match ((a + w).div2).sqrt with
  | some t => some t
  | none => ((a - w).div2).sqrt

def Fq2.sqrtFinish (x : Fq2) (w y : Fq) : Option Fq2 :=
  (if y.is_zero then w.div2.sqrt else (y.double).inverse.map (fun t => x.c1 * t)).bind fun z1 =>
    if (Fq2.new y z1).squared = x then some (Fq2.new y z1) else none

theorem Fq2.sqrt_general (x : Fq2) (hb : x.c1 ≠ 0) :
    x.sqrt = ((x.c0.squared + x.c1.squared.double).sqrt).bind fun w =>
      (Fq2.sqrtY x.c0 w).bind fun y => Fq2.sqrtFinish x w y := by
  have hx : ¬ x.is_zero = true := by
    rw [Fq2.is_zero_iff]; intro h; apply hb; rw [h]; rfl
  have hb2 : ¬ x.c1.is_zero = true := by rw [Fq.is_zero_iff]; exact hb
  unfold Fq2.sqrt
  rw [if_neg hx]
  simp only [if_neg hb2]
  rfl

/-! ## Quadratic residues in Fq (derived from the algorithm and Fermat) -/

theorem Fq.mul_ne_zero_of {a b : Fq} (ha : a ≠ 0) (hb : b ≠ 0) : a * b ≠ 0 := by
  intro h
  rcases mul_eq_zero.1 h with h | h
  · exact ha h
  · exact hb h

theorem Fq.inverse_spec (a : Fq) (ha : a ≠ 0) : ∃ i, a.inverse = some i ∧ i * a = 1 := by
  refine ⟨a ^ (q - 2), ?_, Fq.pow_sub_two_mul a ha⟩
  unfold Fq.inverse
  rw [if_neg (by rw [Fq.is_zero_iff]; exact ha), Fq.pow_eq]

theorem Fq.euler_dichotomy (x : Fq) (hx : x ≠ 0) :
    x ^ (4 * sqrtK + 2) = 1 ∨ x ^ (4 * sqrtK + 2) = -1 := by
  apply mul_self_eq_one_iff.1
  rw [← Fq.fermat_sqrtK x hx]; ring

theorem Fq.even_half : Even (4 * sqrtK + 2) := ⟨2 * sqrtK + 1, by ring⟩

/-- `-1` is a square (`q ≡ 1 mod 4`) and 2 is not: `-2c²` is a non-residue for `c ≠ 0` -/
theorem Fq.neg_two_sq_not_sq (c : Fq) (hc : c ≠ 0) : ¬ ∃ t, t * t = -(c * c + c * c) := by
  rintro ⟨t, ht⟩
  have hcc : c * c + c * c ≠ 0 := by
    have : c * c + c * c = ((1 : Fq) + 1) * (c * c) := by ring
    rw [this]
    exact Fq.mul_ne_zero_of Fq.one_add_one_ne_zero (Fq.mul_ne_zero_of hc hc)
  have ht0 : t ≠ 0 := by
    intro e; rw [e, mul_zero] at ht
    exact hcc (neg_eq_zero.1 ht.symm)
  have h1 := Fq.pow_half_of_sq t ht0
  rw [ht, Fq.even_half.neg_pow] at h1
  have : c * c + c * c = ((1 : Fq) + 1) * (c * c) := by ring
  rw [this, mul_pow, Fq.two_pow_half, Fq.pow_half_of_sq c hc] at h1
  apply Fq.one_ne_neg_one
  calc (1 : Fq) = -1 * 1 := h1.symm
    _ = -1 := by ring

/-- if `a` is a non-residue then `-a/2` is a residue -/
theorem Fq.sqrt_neg_half_isSome (a : Fq) (h : a.sqrt = none) : ((-a).div2.sqrt).isSome = true := by
  have ha : a ≠ 0 := by
    intro e; rw [e, Fq.sqrt_zero] at h; exact absurd h (by simp)
  have hns : ¬ (a = 0 ∨ a ^ (4 * sqrtK + 2) = 1) := by
    rw [← Fq.sqrt_isSome_iff_euler, h]; simp
  have hm1 : a ^ (4 * sqrtK + 2) = -1 := by
    rcases Fq.euler_dichotomy a ha with h1 | h1
    · exact absurd (Or.inr h1) hns
    · exact h1
  have hspec := Fq.div2_spec (-a)
  generalize (-a).div2 = e at hspec ⊢
  have he : e ≠ 0 := by
    intro e0; rw [e0, add_zero] at hspec
    exact ha (neg_eq_zero.1 hspec.symm)
  rw [Fq.sqrt_isSome_iff_euler]
  right
  have h2 : (e + e) ^ (4 * sqrtK + 2) = -1 := by
    rw [hspec, Fq.even_half.neg_pow, hm1]
  have : e + e = ((1 : Fq) + 1) * e := by ring
  rw [this, mul_pow, Fq.two_pow_half] at h2
  calc e ^ (4 * sqrtK + 2) = -(-1 * e ^ (4 * sqrtK + 2)) := by ring
    _ = 1 := by rw [h2]; ring

/-! ## Fq2 -/
namespace Fq2

theorem sqrt_zero : (0 : Fq2).sqrt = some 0 := by
  unfold Fq2.sqrt
  rw [if_pos ((Fq2.is_zero_iff 0).2 rfl)]
  rfl

/-- the imaginary-part-zero branch -/
theorem sqrt_real (x : Fq2) (hx : x ≠ 0) (hb : x.c1 = 0) :
    x.sqrt = match x.c0.sqrt with
      | some z0 => some (Fq2.new z0 0)
      | none => ((-x.c0).div2.sqrt).map (fun z1 => Fq2.new 0 z1) := by
  have hx2 : ¬ x.is_zero = true := by rw [Fq2.is_zero_iff]; exact hx
  have hb2 : x.c1.is_zero = true := by rw [Fq.is_zero_iff]; exact hb
  unfold Fq2.sqrt
  rw [if_neg hx2]
  simp only [if_pos hb2]
  rfl

/-- **Soundness of `Fq2::sqrt`**: a returned value is a square root. -/
theorem sqrt_sound (x s : Fq2) (h : x.sqrt = some s) : s * s = x := by
  by_cases hx : x = 0
  · rw [hx, sqrt_zero, Option.some.injEq] at h
    rw [← h, hx, mul_zero]
  by_cases hb : x.c1 = 0
  · rw [sqrt_real x hx hb] at h
    cases hs : x.c0.sqrt with
    | some z0 =>
      rw [hs] at h
      simp only [Option.some.injEq] at h
      have h0 := Fq.sqrt_sound _ _ hs
      rw [← h]
      ext
      · simp [Fq2.new, h0]
      · simp [Fq2.new, hb]
    | none =>
      rw [hs] at h
      simp only [Option.map_eq_some_iff] at h
      obtain ⟨z1, hz1, h⟩ := h
      have h0 := Fq.sqrt_sound _ _ hz1
      have hd := Fq.div2_spec (-x.c0)
      rw [← h0] at hd
      rw [← h]
      ext
      · simp only [Fq2.new, Fq2.mul_c0, mul_zero, zero_add]
        calc -(z1 + z1) * z1 = -(z1 * z1 + z1 * z1) := by ring
          _ = x.c0 := by rw [hd, neg_neg]
      · simp [Fq2.new, hb]
  · rw [sqrt_general x hb] at h
    simp only [Option.bind_eq_some_iff] at h
    obtain ⟨w, _, y, _, h⟩ := h
    unfold sqrtFinish at h
    simp only [Option.bind_eq_some_iff] at h
    obtain ⟨z1, _, h⟩ := h
    split at h
    · next hc =>
      rw [Option.some.injEq] at h
      rw [← h, ← Fq2.squared_eq_mul]; exact hc
    · exact absurd h (by simp)

/-- every element of Fq has a square root in Fq2, and `Fq2::sqrt` finds it -/
theorem sqrt_complete_real (a : Fq) : (Fq2.sqrt ⟨a, 0⟩).isSome = true := by
  by_cases hx : (⟨a, 0⟩ : Fq2) = 0
  · rw [hx, sqrt_zero]; rfl
  rw [sqrt_real _ hx rfl]
  cases hs : a.sqrt with
  | some z0 => rfl
  | none =>
    simp only [Option.isSome_map]
    exact Fq.sqrt_neg_half_isSome a hs

/-- the general branch finds a root of every square with non-zero imaginary part -/
theorem sqrt_complete_general (c : Fq2) (hb : (c * c).c1 ≠ 0) : ((c * c).sqrt).isSome = true := by
  obtain ⟨c0, c1⟩ := c
  have hbv : (Fq2.mk c0 c1 * Fq2.mk c0 c1).c1 = c0 * c1 + c1 * c0 := by simp
  have hav : (Fq2.mk c0 c1 * Fq2.mk c0 c1).c0 = c0 * c0 + -(c1 + c1) * c1 := by simp
  have hc0 : c0 ≠ 0 := by
    intro e; apply hb; rw [hbv, e]; ring
  have hc1 : c1 ≠ 0 := by
    intro e; apply hb; rw [hbv, e]; ring
  rw [sqrt_general _ hb]
  generalize hX : Fq2.mk c0 c1 * Fq2.mk c0 c1 = x at *
  -- the norm
  have hn : x.c0.squared + x.c1.squared.double
      = (c0 * c0 + (c1 * c1 + c1 * c1)) * (c0 * c0 + (c1 * c1 + c1 * c1)) := by
    rw [hbv, hav]; simp only [Fq.squared_def, Fq.double_def]; ring
  obtain ⟨w, hw⟩ := Option.isSome_iff_exists.1 (Fq.sqrt_complete _ ⟨_, hn.symm⟩)
  have hww := Fq.sqrt_sound _ _ hw
  rw [hn] at hww
  rw [hw, Option.bind_some]
  -- the real part of the root, up to sign
  have hplus : (c0 * c0 + c0 * c0) = x.c0 + (c0 * c0 + (c1 * c1 + c1 * c1)) := by rw [hav]; ring
  have hminus : -(c1 * c1 + c1 * c1) + -(c1 * c1 + c1 * c1)
      = x.c0 - (c0 * c0 + (c1 * c1 + c1 * c1)) := by rw [hav]; ring
  have hsqc0 : ((c0 * c0).sqrt).isSome = true := Fq.sqrt_complete _ ⟨c0, rfl⟩
  obtain ⟨t, ht⟩ := Option.isSome_iff_exists.1 hsqc0
  have hY : sqrtY x.c0 w = some t := by
    unfold sqrtY
    rcases mul_self_eq_mul_self_iff.1 hww with e | e
    · rw [e, Fq.div2_eq_of_add_self _ _ hplus, ht]
    · rw [e, sub_neg_eq_add, Fq.div2_eq_of_add_self _ _ hplus, ← sub_eq_add_neg,
        Fq.div2_eq_of_add_self _ _ hminus, ht]
      have : (-(c1 * c1 + c1 * c1)).sqrt = none := by
        rw [Fq.sqrt_eq_none_iff]; exact Fq.neg_two_sq_not_sq c1 hc1
      rw [this]
  rw [hY, Option.bind_some]
  have htt := Fq.sqrt_sound _ _ ht
  have ht0 : t ≠ 0 := by
    intro e; rw [e, mul_zero] at htt
    exact Fq.mul_ne_zero_of hc0 hc0 htt.symm
  have htz : ¬ t.is_zero = true := by rw [Fq.is_zero_iff]; exact ht0
  have hd0 : t + t ≠ 0 := by
    have : t + t = ((1 : Fq) + 1) * t := by ring
    rw [this]; exact Fq.mul_ne_zero_of Fq.one_add_one_ne_zero ht0
  have hdz : ¬ (t + t).is_zero = true := by rw [Fq.is_zero_iff]; exact hd0
  obtain ⟨i, hi, hinv⟩ := Fq.inverse_spec (t + t) hd0
  unfold sqrtFinish
  rw [if_neg htz]
  simp only [Fq.double_def, hi, Option.map_some, Option.bind_some]
  have hcand : (Fq2.new t (x.c1 * i)).squared = x := by
    rw [Fq2.squared_eq_mul, hbv, ← hX]
    rcases mul_self_eq_mul_self_iff.1 htt with e | e
    · rw [e] at hinv ⊢
      have hz : (c0 * c1 + c1 * c0) * i = c1 := by
        calc (c0 * c1 + c1 * c0) * i = c1 * (i * (c0 + c0)) := by ring
          _ = c1 := by rw [hinv, mul_one]
      rw [hz]; rfl
    · rw [e] at hinv ⊢
      have hz : (c0 * c1 + c1 * c0) * i = -c1 := by
        calc (c0 * c1 + c1 * c0) * i = -c1 * (i * (-c0 + -c0)) := by ring
          _ = -c1 := by rw [hinv, mul_one]
      rw [hz]
      ext <;> simp only [Fq2.new, Fq2.mul_c0, Fq2.mul_c1] <;> ring
  rw [if_pos hcand]
  rfl

/-- **Completeness of `Fq2::sqrt`**: every square has a root found. -/
theorem sqrt_complete (x : Fq2) (h : ∃ c, c * c = x) : x.sqrt.isSome = true := by
  obtain ⟨c, rfl⟩ := h
  by_cases hb : (c * c).c1 = 0
  · have : c * c = ⟨(c * c).c0, 0⟩ := by ext <;> simp [hb]
    rw [this]; exact sqrt_complete_real _
  · exact sqrt_complete_general c hb

/-- `Fq2::sqrt` succeeds exactly on the squares -/
theorem sqrt_isSome_iff (x : Fq2) : x.sqrt.isSome = true ↔ ∃ c, c * c = x := by
  constructor
  · intro h
    obtain ⟨s, hs⟩ := Option.isSome_iff_exists.1 h
    exact ⟨s, sqrt_sound x s hs⟩
  · exact sqrt_complete x

theorem sqrt_eq_none_iff (x : Fq2) : x.sqrt = none ↔ ¬ ∃ c, c * c = x := by
  rw [← sqrt_isSome_iff]
  cases x.sqrt <;> simp

end Fq2

/-! ## Sanity examples (kernel-evaluated): both outcomes occur, in every branch -/
example : (Fq.ofNat 4).sqrt = some (Fq.ofNat 2) := by decide +kernel
example : (Fq.ofNat 2).sqrt = none := by decide +kernel
example : ∃ x : Fq, x.sqrt = none := ⟨Fq.ofNat 2, by decide +kernel⟩
/-- imaginary-part-zero branch, non-residue real part: the root is purely imaginary -/
example : ((Fq2.sqrt ⟨Fq.ofNat 2, 0⟩).map (·.c0)) = some 0 := by decide +kernel
/-- general branch succeeds on a square and fails on a non-square -/
example : (Fq2.sqrt (Fq2.new (Fq.ofNat 3) (Fq.ofNat 5) * Fq2.new (Fq.ofNat 3) (Fq.ofNat 5))).isSome = true := by
  decide +kernel
example : Fq2.sqrt Fq2.i = none := by decide +kernel

end Sm9
