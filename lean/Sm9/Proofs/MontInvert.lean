import Sm9.Model.Mont
import Sm9.Proofs.MontBasic
import Sm9.Proofs.MontMul
import Sm9.Proofs.Prime
import Mathlib.Data.Nat.ModEq
import Mathlib.Data.Nat.Prime.Basic
import Mathlib.Data.Nat.GCD.Basic
/-!
# `U256::invert` (u256.rs, binary extended Euclid seeded with R²) and `Fp::inverse`

* `U256.div2_spec` / `U256.div2_refines`: modular halving (the `set_bit(255)` carry path included).
* `U256.halve_spec`: the inner `while x.is_even() { x.div2(); y.div2(modulo) }` loop terminates
  within its fuel, strips exactly the factors 2 and keeps the invariant `y·a ≡ x·r2 (mod m)`.
* `U256.invLoop_spec`: the outer loop terminates (measure: `u·v` at least halves per iteration
  as soon as one of `u`, `v` is even, which holds after the first iteration) and returns
  `x < m` with `x·a ≡ r2 (mod m)`.
* `U256.invert_refines_coprime` (odd `m`, `gcd a m = 1`) and `U256.invert_refines` (prime `m`).
* `Fp.inverse_refines`: field level; `inverse x · x = one` in Montgomery form.
-/
set_option exponentiation.threshold 2048
namespace Sm9
namespace U256

theorem or_two_pow_255 (x : Nat) (hx : x < 2 ^ 255) : x ||| (1 <<< 255) = x + 2 ^ 255 := by
  rw [Nat.one_shiftLeft, Nat.or_comm]
  have := Nat.two_pow_add_eq_or_of_lt hx 1
  rw [mul_one] at this
  rw [← this, add_comm]

/-- `div2` computes `b/2` for even `b` and `(b+m)/2` for odd `b` (no final subtraction ever fires) -/
theorem div2_spec (b m : Nat) (hm : m < W256) (hm2 : W256 < 2 * m) (hodd : m % 2 = 1)
    (hb : b < m) : div2 b m = (if b % 2 = 1 then (b + m) / 2 else b / 2) := by
  unfold div2 subtract_modulus_with_carry set_bit Big.is_odd Big.add_with_carry Big.div2
    Big.sub_with_borrow
  by_cases h : b % 2 = 1
  · by_cases hc : b + m ≥ W256
    · have h255 : ¬ (256 ≤ 255) := by decide
      simp only [h, hc, beq_self_eq_true, if_true, decide_true, ge_iff_le, h255, if_false,
        Bool.false_or, decide_eq_true_eq]
      rw [or_two_pow_255 _ (by rw [W256_eq] at *; omega)]
      rw [W256_eq] at *
      rw [if_neg (by omega)]; omega
    · simp only [h, hc, beq_self_eq_true, if_true, decide_false, Bool.false_eq_true, if_false]
      rw [W256_eq] at *; omega
  · have : (b % 2 == 1) = false := by simp [h]
    simp only [this, h, if_false, Bool.false_eq_true]

/-- modular halving: the result is reduced and doubles back to the input -/
theorem div2_refines (b m : Nat) (hm : m < W256) (hm2 : W256 < 2 * m) (hodd : m % 2 = 1)
    (hb : b < m) : div2 b m < m ∧ (2 * div2 b m) % m = b := by
  rw [div2_spec b m hm hm2 hodd hb]
  split
  · next h =>
    refine ⟨by omega, ?_⟩
    have : 2 * ((b + m) / 2) = b + m := by omega
    rw [this, Nat.add_mod_right, Nat.mod_eq_of_lt hb]
  · next h =>
    refine ⟨by omega, ?_⟩
    have : 2 * (b / 2) = b := by omega
    rw [this, Nat.mod_eq_of_lt hb]

/-- inner loop: terminates for `0 < u < 2^fuel`, returns the odd part of `u` and keeps
    `b·a ≡ u·r2 (mod m)` -/
theorem halve_spec (m a r2 : Nat) (hm : m < W256) (hm2 : W256 < 2 * m) (hodd : m % 2 = 1) :
    ∀ fuel u b, 0 < u → u < 2 ^ fuel → b < m → (b * a) % m = (u * r2) % m →
      ∃ u1 b1, halve fuel u b m = some (u1, b1) ∧ u1 % 2 = 1 ∧ u1 ∣ u ∧
        (u % 2 = 0 → 2 * u1 ≤ u) ∧ (u % 2 = 1 → u1 = u) ∧
        b1 < m ∧ (b1 * a) % m = (u1 * r2) % m := by
  intro fuel
  induction fuel with
  | zero => intro u b hu hlt; simp at hlt; omega
  | succ n ih =>
    intro u b hu hlt hb hinv
    unfold halve
    by_cases he : u % 2 = 0
    · have hev : Big.is_even u = true := by simp [Big.is_even, he]
      rw [if_pos hev]
      obtain ⟨hd1, hd2⟩ := div2_refines b m hm hm2 hodd hb
      have h2u : 2 * (u / 2) = u := by omega
      have hinv1 : (div2 b m * a) % m = (Big.div2 u * r2) % m := by
        have hc : Nat.gcd m 2 = 1 := Nat.coprime_two_right.mpr (Nat.odd_iff.mpr hodd)
        have h2 : 2 * div2 b m ≡ b [MOD m] := by
          unfold Nat.ModEq; rw [hd2, Nat.mod_eq_of_lt hb]
        apply Nat.ModEq.cancel_left_of_coprime hc
        calc 2 * (div2 b m * a) = (2 * div2 b m) * a := by ring
          _ ≡ b * a [MOD m] := h2.mul_right a
          _ ≡ u * r2 [MOD m] := hinv
          _ = 2 * (Big.div2 u * r2) := by unfold Big.div2; rw [← mul_assoc, h2u]
      have hlt1 : Big.div2 u < 2 ^ n := by unfold Big.div2; rw [pow_succ] at hlt; omega
      have hpos1 : 0 < Big.div2 u := by unfold Big.div2; omega
      obtain ⟨u1, b1, h1, h2, h3, _, _, h6, h7⟩ := ih (Big.div2 u) (div2 b m) hpos1 hlt1 hd1 hinv1
      refine ⟨u1, b1, h1, h2, ?_, ?_, ?_, h6, h7⟩
      · rw [← h2u]; exact Dvd.dvd.mul_left h3 2
      · intro _
        have := Nat.le_of_dvd hpos1 h3
        unfold Big.div2 at this; omega
      · intro h; omega
    · have hev : Big.is_even u = false := by simp [Big.is_even, he]
      rw [hev]
      refine ⟨u, b, by simp, by omega, dvd_refl u, fun h => absurd h he, fun _ => rfl, hb, hinv⟩

theorem W256_le_pow600 : W256 ≤ 2 ^ 600 := by
  unfold W256; exact Nat.pow_le_pow_right (by decide) (by decide)

/-- outer loop: with the Euclid invariants and `u·v < 2^fuel` (one spare factor 2 when both
    are odd) the loop terminates within its fuel and returns `r2·a⁻¹ mod m` -/
theorem invLoop_spec (m a r2 : Nat) (hm : m < W256) (hm2 : W256 < 2 * m) (hodd : m % 2 = 1) :
    ∀ fuel u v b c, 0 < u → 0 < v → u < W256 → v < W256 → b < m → c < m →
      Nat.Coprime u v → (b * a) % m = (u * r2) % m → (c * a) % m = (v * r2) % m →
      u * v < 2 ^ fuel → (u % 2 = 1 → v % 2 = 1 → 2 * (u * v) < 2 ^ fuel) →
      ∃ x, invLoop fuel u v b c m = some x ∧ x < m ∧ (x * a) % m = r2 % m := by
  intro fuel
  induction fuel with
  | zero =>
    intro u v b c hu hv _ _ _ _ _ _ _ hμ _
    have := Nat.mul_pos hu hv
    simp at hμ; omega
  | succ n ih =>
    intro u v b c hu hv huW hvW hb hc hcop hib hic hμ hμ2
    unfold invLoop
    by_cases hu1 : u = 1
    · subst hu1
      refine ⟨b, by simp, hb, ?_⟩
      rw [hib, one_mul]
    by_cases hv1 : v = 1
    · subst hv1
      refine ⟨c, by simp [hu1], hc, ?_⟩
      rw [hic, one_mul]
    have hcond : (u != 1 && v != 1) = true := by simp [hu1, hv1]
    rw [if_pos hcond]
    obtain ⟨u1, b1, hh1, hu1odd, hu1d, hu1h, hu1e, hb1, hib1⟩ :=
      halve_spec m a r2 hm hm2 hodd 600 u b hu (lt_of_lt_of_le huW W256_le_pow600) hb hib
    obtain ⟨v1, c1, hh2, hv1odd, hv1d, hv1h, hv1e, hc1, hic1⟩ :=
      halve_spec m a r2 hm hm2 hodd 600 v c hv (lt_of_lt_of_le hvW W256_le_pow600) hc hic
    simp only [hh1, hh2]
    have hu1le : u1 ≤ u := Nat.le_of_dvd hu hu1d
    have hv1le : v1 ≤ v := Nat.le_of_dvd hv hv1d
    have hcop1 : Nat.Coprime u1 v1 :=
      Nat.Coprime.coprime_dvd_left hu1d (Nat.Coprime.coprime_dvd_right hv1d hcop)
    -- after halving the two odd parts differ
    have hne : u1 ≠ v1 := by
      intro heq
      subst heq
      have h1 : u1 = 1 := (Nat.coprime_self u1).mp hcop1
      subst h1
      have hue : u % 2 = 0 := by
        rcases Nat.mod_two_eq_zero_or_one u with h | h
        · exact h
        · exact absurd (hu1e h).symm hu1
      have hve : v % 2 = 0 := by
        rcases Nat.mod_two_eq_zero_or_one v with h | h
        · exact h
        · exact absurd (hv1e h).symm hv1
      have h2 : 2 ∣ Nat.gcd u v :=
        Nat.dvd_gcd (Nat.dvd_of_mod_eq_zero hue) (Nat.dvd_of_mod_eq_zero hve)
      rw [hcop] at h2
      exact absurd h2 (by decide)
    -- the product has lost a factor 2
    have hprod : u1 * v1 < 2 ^ n := by
      rw [pow_succ] at hμ hμ2
      rcases Nat.mod_two_eq_zero_or_one u with hue | huo
      · have : (2 * u1) * v1 ≤ u * v := Nat.mul_le_mul (hu1h hue) hv1le
        have h3 : (2 * u1) * v1 = 2 * (u1 * v1) := by ring
        omega
      · rcases Nat.mod_two_eq_zero_or_one v with hve | hvo
        · have : u1 * (2 * v1) ≤ u * v := Nat.mul_le_mul hu1le (hv1h hve)
          have h3 : u1 * (2 * v1) = 2 * (u1 * v1) := by ring
          omega
        · have := hμ2 huo hvo
          rw [hu1e huo, hv1e hvo]; omega
    have hu1pos : 0 < u1 := by omega
    have hv1pos : 0 < v1 := by omega
    by_cases hge : u1 ≥ v1
    · rw [if_pos hge]
      have hsub : (Big.sub_with_borrow W256 u1 v1).1 = u1 - v1 := by
        unfold Big.sub_with_borrow
        rw [W256_eq] at *; omega
      rw [hsub]
      obtain ⟨hs1, hs2⟩ := sub_refines b1 c1 m hm hb1 hc1
      apply ih (u1 - v1) v1 (sub b1 c1 m) c1 (by omega) hv1pos (by omega) (by omega) hs1 hc1
        ((Nat.coprime_sub_self_left hge).mpr hcop1) ?_ hic1 ?_ (by intro h1 h2; omega)
      · have hs : sub b1 c1 m + c1 ≡ b1 [MOD m] := by
          unfold Nat.ModEq; rw [hs2, Nat.mod_eq_of_lt hb1]
        have hic1m : c1 * a ≡ v1 * r2 [MOD m] := hic1
        apply Nat.ModEq.add_right_cancel hic1m
        calc sub b1 c1 m * a + c1 * a = (sub b1 c1 m + c1) * a := by ring
          _ ≡ b1 * a [MOD m] := hs.mul_right a
          _ ≡ u1 * r2 [MOD m] := hib1
          _ = (u1 - v1) * r2 + v1 * r2 := by rw [← add_mul]; congr 1; omega
      · exact lt_of_le_of_lt (Nat.mul_le_mul_right v1 (Nat.sub_le u1 v1)) hprod
    · rw [if_neg hge]
      have hlt : u1 < v1 := by omega
      have hsub : (Big.sub_with_borrow W256 v1 u1).1 = v1 - u1 := by
        unfold Big.sub_with_borrow
        rw [W256_eq] at *; omega
      rw [hsub]
      obtain ⟨hs1, hs2⟩ := sub_refines c1 b1 m hm hc1 hb1
      apply ih u1 (v1 - u1) b1 (sub c1 b1 m) hu1pos (by omega) (by omega) (by omega) hb1 hs1
        ((Nat.coprime_sub_self_right (le_of_lt hlt)).mpr hcop1) hib1 ?_ ?_
        (by intro h1 h2; omega)
      · have hs : sub c1 b1 m + b1 ≡ c1 [MOD m] := by
          unfold Nat.ModEq; rw [hs2, Nat.mod_eq_of_lt hc1]
        have hib1m : b1 * a ≡ u1 * r2 [MOD m] := hib1
        apply Nat.ModEq.add_right_cancel hib1m
        calc sub c1 b1 m * a + b1 * a = (sub c1 b1 m + b1) * a := by ring
          _ ≡ c1 * a [MOD m] := hs.mul_right a
          _ ≡ v1 * r2 [MOD m] := hic1
          _ = (v1 - u1) * r2 + u1 * r2 := by rw [← add_mul]; congr 1; omega
      · exact lt_of_le_of_lt (Nat.mul_le_mul_left u1 (Nat.sub_le v1 u1)) hprod

/-- `invert` for an odd modulus `2^255 < m < 2^256` and `gcd(a, m) = 1`: terminates within the
    fuel and returns the reduced `x` with `x·a ≡ r2 (mod m)` -/
theorem invert_refines_coprime (a m r2 : Nat) (hodd : m % 2 = 1) (hcop : Nat.Coprime a m)
    (hm : m < W256) (hm2 : W256 < 2 * m) (ha0 : 0 < a) (ha : a < m) (hr : r2 < m) :
    ∃ x, invert a m r2 = some x ∧ x < m ∧ (x * a) % m = r2 % m := by
  unfold invert
  have hmpos : 0 < m := by omega
  have hprod : 2 * (a * m) < 2 ^ 1200 := by
    have h1 : a * m ≤ W256 * W256 := Nat.mul_le_mul (by omega) (le_of_lt hm)
    have h2 : 2 * (W256 * W256) < 2 ^ 1200 := by decide +kernel
    omega
  apply invLoop_spec m a r2 hm hm2 hodd 1200 a m r2 0 ha0 hmpos (by omega) hm hr hmpos hcop
    (by rw [mul_comm]) (by rw [zero_mul, Nat.zero_mod, Nat.mul_mod_right]) (by omega)
    (fun _ _ => hprod)

/-- `U256::invert` on a prime modulus `2^255 < m < 2^256`: termination within the fuel and
    correctness `x ≡ r2 · a⁻¹ (mod m)`, `x` reduced -/
theorem invert_refines (a m r2 : Nat) (hp : Nat.Prime m) (hm : m < W256) (hm2 : W256 < 2 * m)
    (ha0 : 0 < a) (ha : a < m) (hr : r2 < m) :
    ∃ x, invert a m r2 = some x ∧ x < m ∧ (x * a) % m = r2 % m := by
  have hodd : m % 2 = 1 := by
    rcases hp.eq_two_or_odd with h | h
    · rw [W256_eq] at hm2; omega
    · exact h
  have hcop : Nat.Coprime a m :=
    Nat.Coprime.symm ((Nat.Prime.coprime_iff_not_dvd hp).mpr (Nat.not_dvd_of_pos_of_lt ha0 ha))
  exact invert_refines_coprime a m r2 hodd hcop hm hm2 ha0 ha hr

/-- partial-correctness reading of `invert_refines` -/
theorem invert_sound (a m r2 x : Nat) (hp : Nat.Prime m) (hm : m < W256) (hm2 : W256 < 2 * m)
    (ha0 : 0 < a) (ha : a < m) (hr : r2 < m) (h : invert a m r2 = some x) :
    x < m ∧ (x * a) % m = r2 % m := by
  obtain ⟨y, hy, h1, h2⟩ := invert_refines a m r2 hp hm hm2 ha0 ha hr
  rw [hy, Option.some.injEq] at h; subst h
  exact ⟨h1, h2⟩

end U256

namespace Fp
variable {P : MontParams}

/-- `Fp::inverse`: `None` exactly on zero; otherwise terminates and returns the reduced Montgomery
    representative `y` with `y · x = one` -/
theorem inverse_refines (hP : P.Ok) (hp : Nat.Prime P.modulus) (x : Nat) (hx : x < P.modulus) :
    (x = 0 → inverse P x = some none) ∧
    (x ≠ 0 → ∃ y, inverse P x = some (some y) ∧ y < P.modulus ∧ mul P y x = P.one) := by
  have hpos : 0 < P.modulus := by omega
  constructor
  · intro h; subst h; simp [inverse, is_zero]
  · intro hx0
    have hr : P.rsquared < P.modulus := by rw [hP.rsq]; exact Nat.mod_lt _ hpos
    obtain ⟨y, hy, hylt, hyx⟩ :=
      U256.invert_refines x P.modulus P.rsquared hp hP.lt hP.gt (Nat.pos_of_ne_zero hx0) hx hr
    refine ⟨y, ?_, hylt, ?_⟩
    · have : is_zero x = false := by simp [is_zero, hx0]
      unfold inverse
      rw [this, hy]; rfl
    · obtain ⟨h1, h2⟩ := mul_refines hP y x hylt hx
      have hone : P.one < P.modulus := by rw [hP.one]; exact Nat.mod_lt _ hpos
      apply eq_of_mul_W256 hP h1 hone
      rw [h2, hyx, hP.rsq, Nat.mod_mod, hP.one, Nat.mod_mul_mod]

theorem inverse_refines_q (x : Nat) (hx : x < Consts.FQ) :
    (x = 0 → inverse paramsQ x = some none) ∧
    (x ≠ 0 → ∃ y, inverse paramsQ x = some (some y) ∧ y < Consts.FQ ∧
      mul paramsQ y x = Consts.FQ_ONE) :=
  inverse_refines paramsQ_ok Sm9.q_prime x hx

theorem inverse_refines_r (x : Nat) (hx : x < Consts.FR) :
    (x = 0 → inverse paramsR x = some none) ∧
    (x ≠ 0 → ∃ y, inverse paramsR x = some (some y) ∧ y < Consts.FR ∧
      mul paramsR y x = Consts.FR_ONE) :=
  inverse_refines paramsR_ok Sm9.r_prime x hx

/-- the hypotheses are satisfiable, and the model agrees on a concrete input -/
example : paramsQ.Ok ∧ Nat.Prime paramsQ.modulus ∧ (2 : Nat) < paramsQ.modulus :=
  ⟨paramsQ_ok, Sm9.q_prime, by decide +kernel⟩

end Fp
end Sm9
