import Sm9.Proofs.PrattCert
import Sm9.Model.Prim
/-!
Primality of the moduli **extracted from the Rust source** (`Sm9.q = Consts.FQ`,
`Sm9.r = Consts.FR`).  The Pratt certificate chain (`PrattCert.lean`, data produced
offline by `tools/pratt_gen.py`) is checked by the kernel; the two equations below tie it
to the extracted constants, so a changed modulus in `fields.rs` breaks these theorems.
-/
namespace Sm9

theorem q_eq : q = 0xB640000002A3A6F1D603AB4FF58EC74521F2934B1A7AEEDBE56F9B27E351457D := by decide +kernel
theorem r_eq : r = 0xB640000002A3A6F1D603AB4FF58EC74449F2934B18EA8BEEE56EE19CD69ECF25 := by decide +kernel

theorem q_prime : Nat.Prime q := by rw [q_eq]; exact _root_.q_prime
theorem r_prime : Nat.Prime r := by rw [r_eq]; exact _root_.r_prime

instance : Fact (Nat.Prime q) := ⟨q_prime⟩
instance : Fact (Nat.Prime r) := ⟨r_prime⟩

end Sm9
