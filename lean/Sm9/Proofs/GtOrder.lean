import Sm9.Proofs.FinalExp
/-!
# Pairing values have order dividing r
Every output of either final exponentiation is x^((q¹²−1)/r), hence is killed by r
(x^(q¹²−1) = 1 in the field with q¹² elements).
-/
set_option maxRecDepth 100000
namespace Sm9

theorem pow_final_exponent_pow_r (x : Fq12) (hx : x ≠ 0) : (x ^ ((q ^ 12 - 1) / r)) ^ r = 1 := by
  rw [← pow_mul, Nat.div_mul_cancel Fq12.r_dvd]
  exact Fq12.pow_card_sub_one x hx

/-- g = final_exp f ⇒ g^r = 1, and in the form of the property: g^(r−1) · g = 1 -/
theorem gt_order (f g : Fq12) (h : f.final_exp = .ok (some g)) : g ^ r = 1 ∧ g ^ (r - 1) * g = 1 := by
  by_cases hf : f = 0
  · subst hf; rw [Fq12.final_exp_zero] at h
    simp only [Outcome.ok.injEq] at h
    exact absurd h (by simp)
  · rw [Fq12.final_exp_eq_pow f hf] at h
    have hg : g = f ^ ((q ^ 12 - 1) / r) := by
      simp only [Outcome.ok.injEq, Option.some.injEq] at h; exact h.symm
    have h1 := pow_final_exponent_pow_r f hf
    rw [← hg] at h1
    refine ⟨h1, ?_⟩
    rw [← pow_succ]
    have : r - 1 + 1 = r := by decide +kernel
    rw [this]; exact h1

theorem gt_order_fe (f g : Fq12) (h : f.final_exponentiation = .ok (some g)) : g ^ r = 1 := by
  rw [← Fq12.final_exp_eq_final_exponentiation] at h
  exact (gt_order f g h).1

end Sm9
