import Sm9.Model.Groups
import Sm9.Proofs.Pow
import Mathlib.AlgebraicGeometry.EllipticCurve.Affine.Point
import Mathlib.Tactic.FieldSimp
import Mathlib.Tactic.LinearCombination
/-!
# The Jacobian arithmetic of `groups.rs` refines the Weierstrass group law of Mathlib

Generic in the field `F`.  The model functions are instantiated at the `FieldElement`
structure induced by the field (`feOfField`); `Proofs/JacobianInst.lean` shows the model's
own instances for `Fq`, `Fq2` are equal to it.

`toAff b P` is total: the identity when `z = 0`, else the affine point `(x/z², y/z³)`
(or the identity if that is not a nonsingular point — validity is a hypothesis of the
theorems, not a subtype).
-/
namespace Sm9.Jac
open WeierstrassCurve

variable {F : Type} [Field F] [DecidableEq F]

/-- the `FieldElement` operations induced by a field -/
@[reducible] def feOfField (F : Type) [Field F] [DecidableEq F] : FieldElement F where
  zero := 0
  one := 1
  add := (· + ·)
  sub := (· - ·)
  mul := (· * ·)
  neg := (- ·)
  squared := fun x => x * x
  double := fun x => x + x
  triple := fun x => x + x + x
  inverse := fun x => if x = 0 then none else some x⁻¹
  is_zero := fun x => decide (x = 0)
  beq := fun a b => decide (a = b)

/-- y² = x³ + b -/
def Wb (b : F) : Affine F := ⟨0, 0, 0, 0, b⟩

open Classical in
noncomputable def toAff (b : F) (P : G F) : (Wb b).Point :=
  if P.z = 0 then 0
  else if hn : (Wb b).Nonsingular (P.x / P.z ^ 2) (P.y / P.z ^ 3) then .some _ _ hn else 0

/-- a Jacobian triple denotes a point of the curve (or the identity) -/
def Valid (b : F) (P : G F) : Prop := P.z = 0 ∨ (Wb b).Nonsingular (P.x / P.z ^ 2) (P.y / P.z ^ 3)

theorem toAff_zero (b : F) (P : G F) (hz : P.z = 0) : toAff b P = 0 := by simp [toAff, hz]

theorem toAff_some (b : F) (P : G F) (hz : P.z ≠ 0)
    (hn : (Wb b).Nonsingular (P.x / P.z ^ 2) (P.y / P.z ^ 3)) :
    toAff b P = .some _ _ hn := by
  simp [toAff, hz, hn]

/-- nonsingularity on y² = x³ + b, spelled out -/
theorem nonsingular_iff (b x y : F) :
    (Wb b).Nonsingular x y ↔ y ^ 2 = x ^ 3 + b ∧ (3 * x ^ 2 ≠ 0 ∨ y ≠ -y) := by
  rw [Affine.nonsingular_iff, Affine.equation_iff]
  simp only [Wb, zero_mul, mul_zero, add_zero, sub_zero]
  have : (0 ≠ 3 * x ^ 2) ↔ (3 * x ^ 2 ≠ 0) := ne_comm
  rw [this]


/-! ## pure field formulas -/

/-- chord formulas of `add` (add-1998-cmo-2 shape), as polynomials in the six coordinates -/
def chordH (x1 z1 x2 z2 : F) : F := x2 * z1 ^ 2 - x1 * z2 ^ 2
def chordR (y1 z1 y2 z2 : F) : F := y2 * z1 ^ 3 - y1 * z2 ^ 3
def chordX (x1 y1 z1 x2 y2 z2 : F) : F :=
  chordR y1 z1 y2 z2 ^ 2 - chordH x1 z1 x2 z2 ^ 3 - 2 * (x1 * z2 ^ 2 * chordH x1 z1 x2 z2 ^ 2)
def chordY (x1 y1 z1 x2 y2 z2 : F) : F :=
  chordR y1 z1 y2 z2 * (x1 * z2 ^ 2 * chordH x1 z1 x2 z2 ^ 2 - chordX x1 y1 z1 x2 y2 z2)
    - y1 * z2 ^ 3 * chordH x1 z1 x2 z2 ^ 3
def chordZ (x1 z1 x2 z2 : F) : F := z1 * z2 * chordH x1 z1 x2 z2

theorem chord_correct (b x1 y1 z1 x2 y2 z2 : F) (hz1 : z1 ≠ 0) (hz2 : z2 ≠ 0)
    (hP : (Wb b).Nonsingular (x1 / z1 ^ 2) (y1 / z1 ^ 3))
    (hQ : (Wb b).Nonsingular (x2 / z2 ^ 2) (y2 / z2 ^ 3))
    (hH : chordH x1 z1 x2 z2 ≠ 0) :
    toAff b ⟨chordX x1 y1 z1 x2 y2 z2, chordY x1 y1 z1 x2 y2 z2, chordZ x1 z1 x2 z2⟩
      = Affine.Point.some _ _ hP + Affine.Point.some _ _ hQ := by
  have hx : x1 / z1 ^ 2 ≠ x2 / z2 ^ 2 := by
    intro h; apply hH
    unfold chordH
    field_simp at h
    linear_combination -h
  rw [Affine.Point.add_of_X_ne hx]
  have hz3 : chordZ x1 z1 x2 z2 ≠ 0 := mul_ne_zero (mul_ne_zero hz1 hz2) hH
  have hns := (Wb b).nonsingular_add hP hQ (fun h => absurd h.1 hx)
  have hslope : (Wb b).slope (x1 / z1 ^ 2) (x2 / z2 ^ 2) (y1 / z1 ^ 3) (y2 / z2 ^ 3)
      = (y1 / z1 ^ 3 - y2 / z2 ^ 3) / (x1 / z1 ^ 2 - x2 / z2 ^ 2) := Affine.slope_of_X_ne hx
  have e1 : x1 / z1 ^ 2 - x2 / z2 ^ 2 = -(chordH x1 z1 x2 z2) / (z1 ^ 2 * z2 ^ 2) := by
    unfold chordH; field_simp; ring
  have e2 : y1 / z1 ^ 3 - y2 / z2 ^ 3 = -(chordR y1 z1 y2 z2) / (z1 ^ 3 * z2 ^ 3) := by
    unfold chordR; field_simp; ring
  have hx2 : x2 = (chordH x1 z1 x2 z2 + x1 * z2 ^ 2) / z1 ^ 2 := by
    unfold chordH; field_simp; ring
  have hXeq : chordX x1 y1 z1 x2 y2 z2 / chordZ x1 z1 x2 z2 ^ 2 =
      (Wb b).addX (x1 / z1 ^ 2) (x2 / z2 ^ 2)
        ((Wb b).slope (x1 / z1 ^ 2) (x2 / z2 ^ 2) (y1 / z1 ^ 3) (y2 / z2 ^ 3)) := by
    rw [hslope, e1, e2]
    simp only [Affine.addX, Wb, chordX, chordZ]
    generalize chordH x1 z1 x2 z2 = H at hH hx2 ⊢
    generalize chordR y1 z1 y2 z2 = R
    field_simp
    rw [hx2]
    field_simp
    ring
  have hYeq : chordY x1 y1 z1 x2 y2 z2 / chordZ x1 z1 x2 z2 ^ 3 =
      (Wb b).addY (x1 / z1 ^ 2) (x2 / z2 ^ 2) (y1 / z1 ^ 3)
        ((Wb b).slope (x1 / z1 ^ 2) (x2 / z2 ^ 2) (y1 / z1 ^ 3) (y2 / z2 ^ 3)) := by
    rw [hslope, e1, e2]
    simp only [Affine.addY, Affine.negAddY, Affine.negY, Affine.addX, Wb, chordY, chordX, chordZ]
    generalize chordH x1 z1 x2 z2 = H at hH hx2 ⊢
    generalize chordR y1 z1 y2 z2 = R
    field_simp
    rw [hx2]
    field_simp
    ring
  have hn3 : (Wb b).Nonsingular (chordX x1 y1 z1 x2 y2 z2 / chordZ x1 z1 x2 z2 ^ 2)
      (chordY x1 y1 z1 x2 y2 z2 / chordZ x1 z1 x2 z2 ^ 3) := by
    rw [hXeq, hYeq]; exact hns
  rw [toAff_some b _ hz3 hn3]
  simp only [Affine.Point.some.injEq]
  exact ⟨hXeq, hYeq⟩


/-- doubling formulas (dbl-2009-l, a = 0) as polynomials -/
def dblX (x y : F) : F := (3 * x ^ 2) ^ 2 - 2 * (4 * x * y ^ 2)
def dblY (x y : F) : F := 3 * x ^ 2 * (4 * x * y ^ 2 - dblX x y) - 8 * y ^ 4
def dblZ (y z : F) : F := 2 * (y * z)

theorem dbl_correct (b x y z : F) (h2 : (2 : F) ≠ 0) (hz : z ≠ 0)
    (hP : (Wb b).Nonsingular (x / z ^ 2) (y / z ^ 3)) :
    toAff b ⟨dblX x y, dblY x y, dblZ y z⟩
      = Affine.Point.some _ _ hP + Affine.Point.some _ _ hP := by
  by_cases hy : y = 0
  · -- 2-torsion: the tangent is vertical, z3 = 0
    have hY : y / z ^ 3 = (Wb b).negY (x / z ^ 2) (y / z ^ 3) := by
      simp [Affine.negY, Wb, hy]
    rw [Affine.Point.add_self_of_Y_eq hY]
    apply toAff_zero
    simp [dblZ, hy]
  · have hY : y / z ^ 3 ≠ (Wb b).negY (x / z ^ 2) (y / z ^ 3) := by
      simp only [Affine.negY, Wb, zero_mul, sub_zero]
      intro h
      have : 2 * (y / z ^ 3) = 0 := by linear_combination h
      rcases mul_eq_zero.mp this with h' | h'
      · exact h2 h'
      · rw [div_eq_zero_iff] at h'
        rcases h' with h' | h'
        · exact hy h'
        · exact hz (pow_eq_zero_iff (by norm_num) |>.mp h')
    rw [Affine.Point.add_self_of_Y_ne hY]
    have hz3 : dblZ y z ≠ 0 := mul_ne_zero h2 (mul_ne_zero hy hz)
    have hns := (Wb b).nonsingular_add hP hP (fun h => hY h.2)
    have hslope : (Wb b).slope (x / z ^ 2) (x / z ^ 2) (y / z ^ 3) (y / z ^ 3)
        = (3 * (x / z ^ 2) ^ 2) / (2 * (y / z ^ 3)) := by
      rw [Affine.slope_of_Y_ne rfl hY]
      simp only [Affine.negY, Wb, zero_mul, mul_zero, add_zero, sub_zero]
      congr 1; ring
    have hXeq : dblX x y / dblZ y z ^ 2 =
        (Wb b).addX (x / z ^ 2) (x / z ^ 2)
          ((Wb b).slope (x / z ^ 2) (x / z ^ 2) (y / z ^ 3) (y / z ^ 3)) := by
      rw [hslope]
      simp only [Affine.addX, Wb, dblX, dblZ]
      field_simp
      ring
    have hYeq : dblY x y / dblZ y z ^ 3 =
        (Wb b).addY (x / z ^ 2) (x / z ^ 2) (y / z ^ 3)
          ((Wb b).slope (x / z ^ 2) (x / z ^ 2) (y / z ^ 3) (y / z ^ 3)) := by
      rw [hslope]
      simp only [Affine.addY, Affine.negAddY, Affine.negY, Affine.addX, Wb, dblY, dblX, dblZ]
      field_simp
      ring
    have hn3 : (Wb b).Nonsingular (dblX x y / dblZ y z ^ 2) (dblY x y / dblZ y z ^ 3) := by
      rw [hXeq, hYeq]; exact hns
    rw [toAff_some b _ hz3 hn3]
    simp only [Affine.Point.some.injEq]
    exact ⟨hXeq, hYeq⟩


/-! ## bridging: the model functions at the field-induced `FieldElement` structure -/

@[simp] theorem fe_squared (x : F) : @FieldElement.squared F (feOfField F) x = x * x := rfl
@[simp] theorem fe_double (x : F) : @FieldElement.double F (feOfField F) x = x + x := rfl
@[simp] theorem fe_triple (x : F) : @FieldElement.triple F (feOfField F) x = x + x + x := rfl
@[simp] theorem fe_is_zero (x : F) : @FieldElement.is_zero F (feOfField F) x = decide (x = 0) := rfl
@[simp] theorem fe_beq (x y : F) : @FieldElement.beq F (feOfField F) x y = decide (x = y) := rfl
@[simp] theorem fe_inverse (x : F) :
    @FieldElement.inverse F (feOfField F) x = if x = 0 then none else some x⁻¹ := rfl
@[simp] theorem fe_add (a b : F) :
    @HAdd.hAdd F F F (@instHAdd F (@FieldElement.toAdd F (feOfField F))) a b = a + b := rfl
@[simp] theorem fe_sub (a b : F) :
    @HSub.hSub F F F (@instHSub F (@FieldElement.toSub F (feOfField F))) a b = a - b := rfl
@[simp] theorem fe_mul (a b : F) :
    @HMul.hMul F F F (@instHMul F (@FieldElement.toMul F (feOfField F))) a b = a * b := rfl
@[simp] theorem fe_neg (a : F) : @Neg.neg F (@FieldElement.toNeg F (feOfField F)) a = -a := rfl
@[simp] theorem fe_zero : @OfNat.ofNat F 0 (@Zero.toOfNat0 F (@FieldElement.toZero F (feOfField F))) = 0 := rfl
@[simp] theorem fe_one : @OfNat.ofNat F 1 (@One.toOfNat1 F (@FieldElement.toOne F (feOfField F))) = 1 := rfl

/-- model operations at `feOfField` -/
abbrev dbl (P : G F) : G F := @G.double F (feOfField F) P
abbrev add (P Q : G F) : G F := @G.add F (feOfField F) P Q
abbrev neg (P : G F) : G F := @G.neg F (feOfField F) P
abbrev isZero (P : G F) : Bool := @G.is_zero F (feOfField F) P

theorem isZero_iff (P : G F) : isZero P = true ↔ P.z = 0 := by
  simp [isZero, G.is_zero]

theorem dbl_unfold (P : G F) : dbl P = ⟨dblX P.x P.y, dblY P.x P.y, dblZ P.y P.z⟩ := by
  unfold dbl G.double dblY dblX dblZ
  simp only [fe_squared, fe_double, fe_triple, fe_add, fe_sub, fe_mul, G.mk.injEq]
  refine ⟨?_, ?_, ?_⟩ <;> ring

/-- `double` is the doubling of the group law, for every valid point in any representation -/
theorem double_correct (b : F) (h2 : (2 : F) ≠ 0) (P : G F) (hP : Valid b P) :
    toAff b (dbl P) = toAff b P + toAff b P := by
  rw [dbl_unfold]
  rcases hP with hz | hn
  · rw [toAff_zero b P hz, add_zero]
    apply toAff_zero
    simp [dblZ, hz]
  · by_cases hz : P.z = 0
    · rw [toAff_zero b P hz, add_zero]
      apply toAff_zero
      simp [dblZ, hz]
    · rw [toAff_some b P hz hn]
      exact dbl_correct b P.x P.y P.z h2 hz hn

theorem double_valid (b : F) (h2 : (2 : F) ≠ 0) (P : G F) (hP : Valid b P) : Valid b (dbl P) := by
  by_cases hz : (dbl P).z = 0
  · exact Or.inl hz
  · right
    have h := double_correct b h2 P hP
    unfold toAff at h
    simp only [hz, if_false] at h
    by_contra hn
    simp only [hn, dif_neg, not_false_eq_true] at h
    -- toAff (dbl P) = 0 forces nothing here; derive nonsingularity directly from the formula
    rw [dbl_unfold] at hz
    rcases hP with hz0 | hn0
    · exact hz (by simp [dblZ, hz0])
    · have hz0 : P.z ≠ 0 := by
        intro h0; exact hz (by simp [dblZ, h0])
      have hy0 : P.y ≠ 0 := by
        intro h0; exact hz (by simp [dblZ, h0])
      have := dbl_correct b P.x P.y P.z h2 hz0 hn0
      rw [dbl_unfold] at hn
      unfold toAff at this
      simp only [hz, if_false, hn, dif_neg, not_false_eq_true] at this
      -- P + P = 0 with y ≠ 0 is impossible
      have hY : P.y / P.z ^ 3 ≠ (Wb b).negY (P.x / P.z ^ 2) (P.y / P.z ^ 3) := by
        simp only [Affine.negY, Wb, zero_mul, sub_zero]
        intro h
        have h' : 2 * (P.y / P.z ^ 3) = 0 := by linear_combination h
        rcases mul_eq_zero.mp h' with h'' | h''
        · exact h2 h''
        · rw [div_eq_zero_iff] at h''
          rcases h'' with h'' | h''
          · exact hy0 h''
          · exact hz0 (pow_eq_zero_iff (by norm_num) |>.mp h'')
      rw [Affine.Point.add_self_of_Y_ne hY] at this
      exact Affine.Point.some_ne_zero _ this.symm


/-! ## the adder -/

/-- what every arm of `add` computes on operands with z ≠ 0 -/
def armOut (P Q : G F) : G F :=
  if chordR P.y P.z Q.y Q.z = 0 ∧ chordH P.x P.z Q.x Q.z = 0 then dbl P
  else ⟨chordX P.x P.y P.z Q.x Q.y Q.z, chordY P.x P.y P.z Q.x Q.y Q.z, chordZ P.x P.z Q.x Q.z⟩

theorem armOut_correct (b : F) (h2 : (2 : F) ≠ 0) (P Q : G F) (hz1 : P.z ≠ 0) (hz2 : Q.z ≠ 0)
    (hP : (Wb b).Nonsingular (P.x / P.z ^ 2) (P.y / P.z ^ 3))
    (hQ : (Wb b).Nonsingular (Q.x / Q.z ^ 2) (Q.y / Q.z ^ 3)) :
    toAff b (armOut P Q) = toAff b P + toAff b Q := by
  have hXiff : P.x / P.z ^ 2 = Q.x / Q.z ^ 2 ↔ chordH P.x P.z Q.x Q.z = 0 := by
    unfold chordH
    constructor
    · intro h; field_simp at h; linear_combination -h
    · intro h; field_simp; linear_combination -h
  have hYiff : P.y / P.z ^ 3 = Q.y / Q.z ^ 3 ↔ chordR P.y P.z Q.y Q.z = 0 := by
    unfold chordR
    constructor
    · intro h; field_simp at h; linear_combination -h
    · intro h; field_simp; linear_combination -h
  unfold armOut
  by_cases hH : chordH P.x P.z Q.x Q.z = 0
  · by_cases hR : chordR P.y P.z Q.y Q.z = 0
    · -- same affine point: the code doubles
      rw [if_pos ⟨hR, hH⟩, double_correct b h2 P (Or.inr hP)]
      rw [toAff_some b P hz1 hP, toAff_some b Q hz2 hQ]
      have hPQ : Affine.Point.some _ _ hQ = Affine.Point.some _ _ hP := by
        simp only [Affine.Point.some.injEq]
        exact ⟨(hXiff.2 hH).symm, (hYiff.2 hR).symm⟩
      rw [hPQ]
    · -- opposite points: z3 = z1 z2 h = 0
      rw [if_neg (fun h => hR h.1)]
      rw [toAff_zero b _ (by simp [chordZ, hH])]
      rw [toAff_some b P hz1 hP, toAff_some b Q hz2 hQ]
      have hX := hXiff.2 hH
      have hYne : P.y / P.z ^ 3 ≠ Q.y / Q.z ^ 3 := fun h => hR (hYiff.1 h)
      have hY : P.y / P.z ^ 3 = (Wb b).negY (Q.x / Q.z ^ 2) (Q.y / Q.z ^ 3) := by
        simp only [Affine.negY, Wb, zero_mul, sub_zero]
        have e1 := ((nonsingular_iff b _ _).1 hP).1
        have e2 := ((nonsingular_iff b _ _).1 hQ).1
        rw [hX] at e1
        have : (P.y / P.z ^ 3 - Q.y / Q.z ^ 3) * (P.y / P.z ^ 3 + Q.y / Q.z ^ 3) = 0 := by
          linear_combination e1 - e2
        rcases mul_eq_zero.mp this with h | h
        · exact absurd (sub_eq_zero.mp h) hYne
        · linear_combination h
      exact (Affine.Point.add_of_Y_eq hX hY).symm
  · rw [if_neg (fun h => hH h.2)]
    rw [toAff_some b P hz1 hP, toAff_some b Q hz2 hQ]
    exact chord_correct b P.x P.y P.z Q.x Q.y Q.z hz1 hz2 hP hQ hH

theorem add_tt_eq (P Q : G F) (h1 : P.z = 1) (h2 : Q.z = 1) :
    @G.add_tt F (feOfField F) P Q = armOut P Q := by
  unfold G.add_tt armOut
  have eH : chordH P.x P.z Q.x Q.z = Q.x - P.x := by unfold chordH; rw [h1, h2]; ring
  have eR : chordR P.y P.z Q.y Q.z = Q.y - P.y := by unfold chordR; rw [h1, h2]; ring
  simp only [fe_squared, fe_double, fe_is_zero, fe_add, fe_sub, fe_mul, Bool.and_eq_true,
    decide_eq_true_eq, eH, eR]
  split
  · rfl
  · unfold chordY chordX chordZ
    rw [eH, eR, h1, h2]
    simp only [G.mk.injEq]
    refine ⟨?_, ?_, ?_⟩ <;> ring

theorem add_ft_eq (P Q : G F) (h2 : Q.z = 1) :
    @G.add_ft F (feOfField F) P Q = armOut P Q := by
  unfold G.add_ft armOut
  have eH : chordH P.x P.z Q.x Q.z = Q.x * (P.z * P.z) - P.x := by unfold chordH; rw [h2]; ring
  have eR : chordR P.y P.z Q.y Q.z = Q.y * (P.z * (P.z * P.z)) - P.y := by unfold chordR; rw [h2]; ring
  simp only [fe_squared, fe_double, fe_is_zero, fe_add, fe_sub, fe_mul, Bool.and_eq_true,
    decide_eq_true_eq, eH, eR]
  split
  · rfl
  · unfold chordY chordX chordZ
    rw [eH, eR, h2]
    simp only [G.mk.injEq]
    refine ⟨?_, ?_, ?_⟩ <;> ring

/-- the `(false,false)` arm, outside the (unreachable) two-torsion early return -/
theorem add_ff_eq (P Q : G F)
    (hno : ¬(chordR P.y P.z Q.y Q.z = 0 ∧ P.y * (Q.z * (Q.z * Q.z)) + Q.y * (P.z * (P.z * P.z)) = 0 ∧
              chordH P.x P.z Q.x Q.z ≠ 0)) :
    @G.add_ff F (feOfField F) P Q = armOut P Q := by
  unfold G.add_ff armOut
  have eH : chordH P.x P.z Q.x Q.z = Q.x * (P.z * P.z) - P.x * (Q.z * Q.z) := by unfold chordH; ring
  have eR : chordR P.y P.z Q.y Q.z = Q.y * (P.z * (P.z * P.z)) - P.y * (Q.z * (Q.z * Q.z)) := by
    unfold chordR; ring
  rw [eH, eR] at hno
  simp only [fe_squared, fe_double, fe_is_zero, fe_add, fe_sub, fe_mul, Bool.and_eq_true,
    decide_eq_true_eq, eH, eR]
  split
  · rfl
  · next hne =>
    split
    · next ht => exact absurd ⟨ht.1, ht.2, fun h => hne ⟨ht.1, h⟩⟩ hno
    · unfold chordY chordX chordZ
      rw [eH, eR]
      simp only [G.mk.injEq]
      exact ⟨by ring, by ring, trivial⟩


/-- no point of the curve has y = 0 when −b is not a cube (no 2-torsion) -/
theorem y_ne_zero (b : F) (hno2 : ∀ x : F, x ^ 3 + b ≠ 0) (P : G F) (hz : P.z ≠ 0)
    (hn : (Wb b).Nonsingular (P.x / P.z ^ 2) (P.y / P.z ^ 3)) : P.y ≠ 0 := by
  intro hy
  have e := ((nonsingular_iff b _ _).1 hn).1
  rw [hy, zero_div] at e
  exact hno2 (P.x / P.z ^ 2) (by rw [← e]; ring)

/-- **Addition implements the group law**, for all valid operands in any representation:
    either operand the identity (any x, y with z = 0), z = 1 or not in any combination,
    equal points, opposite points, independent points. -/
theorem add_correct (b : F) (h2 : (2 : F) ≠ 0) (hno2 : ∀ x : F, x ^ 3 + b ≠ 0) (P Q : G F)
    (hP : Valid b P) (hQ : Valid b Q) : toAff b (add P Q) = toAff b P + toAff b Q := by
  unfold add G.add
  by_cases hz1 : P.z = 0
  · have : @G.is_zero F (feOfField F) P = true := (isZero_iff P).2 hz1
    rw [if_pos this, toAff_zero b P hz1, zero_add]
  have hz1' : @G.is_zero F (feOfField F) P = false := by
    cases h : @G.is_zero F (feOfField F) P
    · rfl
    · exact absurd ((isZero_iff P).1 h) hz1
  rw [hz1']
  simp only [Bool.false_eq_true, if_false]
  by_cases hz2 : Q.z = 0
  · have : @G.is_zero F (feOfField F) Q = true := (isZero_iff Q).2 hz2
    rw [if_pos this, toAff_zero b Q hz2, add_zero]
  have hz2' : @G.is_zero F (feOfField F) Q = false := by
    cases h : @G.is_zero F (feOfField F) Q
    · rfl
    · exact absurd ((isZero_iff Q).1 h) hz2
  rw [hz2']
  simp only [Bool.false_eq_true, if_false]
  have hnP := hP.resolve_left hz1
  have hnQ := hQ.resolve_left hz2
  simp only [fe_beq, fe_one]
  by_cases h1 : P.z = 1 <;> by_cases hq1 : Q.z = 1 <;> simp only [h1, hq1, decide_true, decide_false]
  · -- (true, true)
    rw [add_tt_eq P Q h1 hq1]
    exact armOut_correct b h2 P Q hz1 hz2 hnP hnQ
  · -- (true, false): `other + self`, landing in the (false, true) arm with swapped operands
    rw [add_ft_eq Q P h1, armOut_correct b h2 Q P hz2 hz1 hnQ hnP, add_comm]
  · -- (false, true)
    rw [add_ft_eq P Q hq1]
    exact armOut_correct b h2 P Q hz1 hz2 hnP hnQ
  · -- (false, false): the two-torsion early return is unreachable
    have hy1 := y_ne_zero b hno2 P hz1 hnP
    rw [add_ff_eq P Q ?_]
    · exact armOut_correct b h2 P Q hz1 hz2 hnP hnQ
    · rintro ⟨hR, ht, _⟩
      unfold chordR at hR
      have : 2 * (P.y * Q.z ^ 3) = 0 := by linear_combination ht - hR
      rcases mul_eq_zero.mp this with h | h
      · exact h2 h
      · rcases mul_eq_zero.mp h with h | h
        · exact hy1 h
        · exact hz2 (pow_eq_zero_iff (by norm_num) |>.mp h)


theorem valid_of_toAff_ne_zero (b : F) (R : G F) (h : toAff b R ≠ 0) : Valid b R := by
  unfold toAff at h
  by_cases hz : R.z = 0
  · exact Or.inl hz
  · right
    by_contra hn
    simp [hz, hn] at h

theorem armOut_valid (b : F) (h2 : (2 : F) ≠ 0) (P Q : G F) (hz1 : P.z ≠ 0) (hz2 : Q.z ≠ 0)
    (hP : (Wb b).Nonsingular (P.x / P.z ^ 2) (P.y / P.z ^ 3))
    (hQ : (Wb b).Nonsingular (Q.x / Q.z ^ 2) (Q.y / Q.z ^ 3)) : Valid b (armOut P Q) := by
  by_cases hH : chordH P.x P.z Q.x Q.z = 0
  · by_cases hR : chordR P.y P.z Q.y Q.z = 0
    · unfold armOut; rw [if_pos ⟨hR, hH⟩]
      exact double_valid b h2 P (Or.inr hP)
    · unfold armOut; rw [if_neg (fun h => hR h.1)]
      left; simp [chordZ, hH]
  · apply valid_of_toAff_ne_zero
    have hc := chord_correct b P.x P.y P.z Q.x Q.y Q.z hz1 hz2 hP hQ hH
    unfold armOut; rw [if_neg (fun h => hH h.2), hc]
    have hx : P.x / P.z ^ 2 ≠ Q.x / Q.z ^ 2 := by
      intro h; apply hH
      unfold chordH
      field_simp at h
      linear_combination -h
    rw [Affine.Point.add_of_X_ne hx]
    exact Affine.Point.some_ne_zero _

theorem add_valid (b : F) (h2 : (2 : F) ≠ 0) (hno2 : ∀ x : F, x ^ 3 + b ≠ 0) (P Q : G F)
    (hP : Valid b P) (hQ : Valid b Q) : Valid b (add P Q) := by
  unfold add G.add
  by_cases hz1 : P.z = 0
  · have : @G.is_zero F (feOfField F) P = true := (isZero_iff P).2 hz1
    rw [if_pos this]; exact hQ
  have hz1' : @G.is_zero F (feOfField F) P = false := by
    cases h : @G.is_zero F (feOfField F) P
    · rfl
    · exact absurd ((isZero_iff P).1 h) hz1
  rw [hz1']
  simp only [Bool.false_eq_true, if_false]
  by_cases hz2 : Q.z = 0
  · have : @G.is_zero F (feOfField F) Q = true := (isZero_iff Q).2 hz2
    rw [if_pos this]; exact hP
  have hz2' : @G.is_zero F (feOfField F) Q = false := by
    cases h : @G.is_zero F (feOfField F) Q
    · rfl
    · exact absurd ((isZero_iff Q).1 h) hz2
  rw [hz2']
  simp only [Bool.false_eq_true, if_false]
  have hnP := hP.resolve_left hz1
  have hnQ := hQ.resolve_left hz2
  simp only [fe_beq, fe_one]
  by_cases h1 : P.z = 1 <;> by_cases hq1 : Q.z = 1 <;> simp only [h1, hq1, decide_true, decide_false]
  · rw [add_tt_eq P Q h1 hq1]; exact armOut_valid b h2 P Q hz1 hz2 hnP hnQ
  · rw [add_ft_eq Q P h1]; exact armOut_valid b h2 Q P hz2 hz1 hnQ hnP
  · rw [add_ft_eq P Q hq1]; exact armOut_valid b h2 P Q hz1 hz2 hnP hnQ
  · have hy1 := y_ne_zero b hno2 P hz1 hnP
    rw [add_ff_eq P Q ?_]
    · exact armOut_valid b h2 P Q hz1 hz2 hnP hnQ
    · rintro ⟨hR, ht, _⟩
      unfold chordR at hR
      have : 2 * (P.y * Q.z ^ 3) = 0 := by linear_combination ht - hR
      rcases mul_eq_zero.mp this with h | h
      · exact h2 h
      · rcases mul_eq_zero.mp h with h | h
        · exact hy1 h
        · exact hz2 (pow_eq_zero_iff (by norm_num) |>.mp h)

/-! ## negation, subtraction -/

theorem neg_correct (b : F) (P : G F) (hP : Valid b P) : toAff b (neg P) = -toAff b P := by
  unfold neg G.neg
  by_cases hz : P.z = 0
  · have : @G.is_zero F (feOfField F) P = true := (isZero_iff P).2 hz
    rw [if_pos this, toAff_zero b P hz, neg_zero]
  · have hz' : @G.is_zero F (feOfField F) P = false := by
      cases h : @G.is_zero F (feOfField F) P
      · rfl
      · exact absurd ((isZero_iff P).1 h) hz
    rw [hz']
    simp only [Bool.false_eq_true, if_false, fe_neg]
    have hn := hP.resolve_left hz
    rw [toAff_some b P hz hn, Affine.Point.neg_some]
    have hn' : (Wb b).Nonsingular (P.x / P.z ^ 2) (-P.y / P.z ^ 3) := by
      have := (Affine.nonsingular_neg (W' := Wb b) (P.x / P.z ^ 2) (P.y / P.z ^ 3)).2 hn
      simpa [Affine.negY, Wb, neg_div] using this
    rw [toAff_some b ⟨P.x, -P.y, P.z⟩ hz hn']
    simp only [Affine.Point.some.injEq, Affine.negY, Wb, zero_mul, sub_zero, neg_div, and_self]

theorem neg_valid (b : F) (P : G F) (hP : Valid b P) : Valid b (neg P) := by
  unfold neg G.neg
  by_cases hz : P.z = 0
  · have : @G.is_zero F (feOfField F) P = true := (isZero_iff P).2 hz
    rw [if_pos this]; exact hP
  · have hz' : @G.is_zero F (feOfField F) P = false := by
      cases h : @G.is_zero F (feOfField F) P
      · rfl
      · exact absurd ((isZero_iff P).1 h) hz
    rw [hz']
    simp only [Bool.false_eq_true, if_false, fe_neg]
    right
    have hn := hP.resolve_left hz
    have := (Affine.nonsingular_neg (W' := Wb b) (P.x / P.z ^ 2) (P.y / P.z ^ 3)).2 hn
    simpa [Affine.negY, Wb, neg_div] using this

theorem sub_correct (b : F) (h2 : (2 : F) ≠ 0) (hno2 : ∀ x : F, x ^ 3 + b ≠ 0) (P Q : G F)
    (hP : Valid b P) (hQ : Valid b Q) :
    toAff b (@G.sub F (feOfField F) P Q) = toAff b P - toAff b Q := by
  show toAff b (add P (neg Q)) = _
  rw [add_correct b h2 hno2 P (neg Q) hP (neg_valid b Q hQ), neg_correct b Q hQ, sub_eq_add_neg]


/-! ## scalar multiplication -/

theorem zero_valid (b : F) : Valid b (@G.zero F (feOfField F)) := Or.inl rfl
theorem toAff_zeroG (b : F) : toAff b (@G.zero F (feOfField F)) = 0 := toAff_zero b _ rfl

theorem mulFold_correct (b : F) (h2 : (2 : F) ≠ 0) (hno2 : ∀ x : F, x ^ 3 + b ≠ 0) (P : G F) (hP : Valid b P)
    (bits : List Bool) (acc : G F) (hacc : Valid b acc) :
    Valid b (bits.foldl (fun res i => let res := dbl res; if i then add res P else res) acc) ∧
    toAff b (bits.foldl (fun res i => let res := dbl res; if i then add res P else res) acc)
      = (2 ^ bits.length) • toAff b acc + bitsVal bits • toAff b P := by
  induction bits generalizing acc with
  | nil => simp [bitsVal, hacc]
  | cons c cs ih =>
    simp only [List.foldl_cons, List.length_cons]
    have hd := double_correct b h2 acc hacc
    have hdv := double_valid b h2 acc hacc
    cases c
    · simp only [Bool.false_eq_true, if_false]
      obtain ⟨hv, he⟩ := ih (dbl acc) hdv
      refine ⟨hv, ?_⟩
      rw [he, hd, bitsVal_cons]
      simp only [Bool.false_eq_true, if_false, zero_mul, zero_add]
      rw [pow_succ, mul_smul, two_smul]
    · simp only [if_true]
      have ha := add_correct b h2 hno2 (dbl acc) P hdv hP
      have hav := add_valid b h2 hno2 (dbl acc) P hdv hP
      obtain ⟨hv, he⟩ := ih (add (dbl acc) P) hav
      refine ⟨hv, ?_⟩
      rw [he, ha, hd, bitsVal_cons]
      simp only [if_true, one_mul]
      rw [pow_succ, mul_smul, two_smul, smul_add, add_smul]
      abel

/-- **Scalar multiplication is the module action**: `P * k` is `k.val • P` in the group, for
    every valid `P` (identity included, any representation) and every scalar. -/
theorem mul_correct (b : F) (h2 : (2 : F) ≠ 0) (hno2 : ∀ x : F, x ^ 3 + b ≠ 0) (P : G F) (hP : Valid b P)
    (k : Fr) : toAff b (@G.mul F (feOfField F) P k) = k.val • toAff b P := by
  unfold G.mul G.mulBits
  have := (mulFold_correct b h2 hno2 P hP (bitsMSB k.val) _ (zero_valid b)).2
  rw [toAff_zeroG, smul_zero, zero_add, bitsVal_bitsMSB] at this
  exact this

theorem mul_valid (b : F) (h2 : (2 : F) ≠ 0) (hno2 : ∀ x : F, x ^ 3 + b ≠ 0) (P : G F) (hP : Valid b P)
    (k : Fr) : Valid b (@G.mul F (feOfField F) P k) := by
  unfold G.mul G.mulBits
  exact (mulFold_correct b h2 hno2 P hP (bitsMSB k.val) _ (zero_valid b)).1

/-! ## equality, affine conversion -/

/-- `==` holds exactly when the two values denote the same curve point -/
theorem eq_iff (b : F) (P Q : G F) (hP : Valid b P) (hQ : Valid b Q) :
    @G.eq F (feOfField F) P Q = true ↔ toAff b P = toAff b Q := by
  unfold G.eq
  by_cases hz1 : P.z = 0
  · have h1 : @G.is_zero F (feOfField F) P = true := (isZero_iff P).2 hz1
    rw [if_pos h1, toAff_zero b P hz1]
    by_cases hz2 : Q.z = 0
    · have hq : @G.is_zero F (feOfField F) Q = true := (isZero_iff Q).2 hz2
      rw [hq, toAff_zero b Q hz2]; simp
    · have hq : @G.is_zero F (feOfField F) Q = false := by
        cases h : @G.is_zero F (feOfField F) Q
        · rfl
        · exact absurd ((isZero_iff Q).1 h) hz2
      rw [hq, toAff_some b Q hz2 (hQ.resolve_left hz2)]
      simp only [Bool.false_eq_true, false_iff]
      exact fun h => Affine.Point.some_ne_zero _ h.symm
  · have h1 : @G.is_zero F (feOfField F) P = false := by
      cases h : @G.is_zero F (feOfField F) P
      · rfl
      · exact absurd ((isZero_iff P).1 h) hz1
    rw [h1]
    simp only [Bool.false_eq_true, if_false]
    rw [toAff_some b P hz1 (hP.resolve_left hz1)]
    by_cases hz2 : Q.z = 0
    · rw [if_pos ((isZero_iff Q).2 hz2), toAff_zero b Q hz2]
      simp only [Bool.false_eq_true, false_iff]
      exact Affine.Point.some_ne_zero _
    · have hq : @G.is_zero F (feOfField F) Q = false := by
        cases h : @G.is_zero F (feOfField F) Q
        · rfl
        · exact absurd ((isZero_iff Q).1 h) hz2
      rw [hq, toAff_some b Q hz2 (hQ.resolve_left hz2)]
      simp only [Bool.false_eq_true, if_false, fe_squared, fe_mul, fe_beq, Affine.Point.some.injEq,
        Bool.not_eq_true', decide_eq_false_iff_not]
      have hX : P.x * (Q.z * Q.z) = Q.x * (P.z * P.z) ↔ P.x / P.z ^ 2 = Q.x / Q.z ^ 2 := by
        constructor
        · intro h; field_simp; linear_combination h
        · intro h; field_simp at h; linear_combination h
      have hY : P.y * (Q.z * (Q.z * Q.z)) = Q.y * (P.z * (P.z * P.z)) ↔ P.y / P.z ^ 3 = Q.y / Q.z ^ 3 := by
        constructor
        · intro h; field_simp; linear_combination h
        · intro h; field_simp at h; linear_combination h
      by_cases hx : P.x * (Q.z * Q.z) = Q.x * (P.z * P.z)
      · by_cases hy : P.y * (Q.z * (Q.z * Q.z)) = Q.y * (P.z * (P.z * P.z))
        · simp [hx, hy, hX.1 hx, hY.1 hy]
        · have : ¬ P.y / P.z ^ 3 = Q.y / Q.z ^ 3 := fun h => hy (hY.2 h)
          simp [hx, hy, this]
      · have : ¬ P.x / P.z ^ 2 = Q.x / Q.z ^ 2 := fun h => hx (hX.2 h)
        simp [hx, this]

/-- `to_affine`: `None` exactly for z = 0; otherwise the affine coordinates x/z², y/z³
    (the z = 1 shortcut and the inversion path agree) -/
theorem to_affine_spec (P : G F) :
    @G.to_affine F (feOfField F) P =
      if P.z = 0 then none else some ⟨P.x / P.z ^ 2, P.y / P.z ^ 3⟩ := by
  unfold G.to_affine
  simp only [fe_is_zero, fe_beq, fe_one, fe_inverse, fe_squared, fe_mul]
  by_cases hz : P.z = 0
  · simp [hz]
  · simp only [hz, decide_false, Bool.false_eq_true, if_false]
    by_cases h1 : P.z = 1
    · simp [h1]
    · simp only [h1, decide_false, Bool.false_eq_true, if_false]
      congr 2
      · field_simp
      · field_simp

theorem normalize_spec (b : F) (P : G F) (hP : Valid b P) :
    let N := match @G.to_affine F (feOfField F) P with
      | some a => @AffineG.to_jacobian F (feOfField F) a
      | none => P
    toAff b N = toAff b P ∧ (P.z ≠ 0 → N.z = 1) ∧ (P.z = 0 → N = P) ∧ Valid b N := by
  rw [to_affine_spec]
  by_cases hz : P.z = 0
  · simp [hz, hP]
  · simp only [hz, if_false, AffineG.to_jacobian, fe_one]
    have hn := hP.resolve_left hz
    have hn' : (Wb b).Nonsingular ((P.x / P.z ^ 2) / (1 : F) ^ 2) ((P.y / P.z ^ 3) / (1 : F) ^ 3) := by
      simpa using hn
    refine ⟨?_, ?_, ?_, Or.inr hn'⟩
    · rw [toAff_some b P hz hn, toAff_some b ⟨P.x / P.z ^ 2, P.y / P.z ^ 3, 1⟩ one_ne_zero hn']
      simp
    · simp
    · simp [hz]

end Sm9.Jac
