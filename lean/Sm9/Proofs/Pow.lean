import Sm9.Proofs.Tower
/-!
# Square-and-multiply is exponentiation (`FieldElement::pow`, `Fq::pow`)
-/
namespace Sm9

/-- value of a most-significant-first bit list -/
def bitsVal (bits : List Bool) : Nat := bits.foldl (fun n b => 2 * n + (if b then 1 else 0)) 0

theorem bitsVal_foldl (bits : List Bool) (n0 : Nat) :
    bits.foldl (fun n b => 2 * n + (if b then 1 else 0)) n0 = n0 * 2 ^ bits.length + bitsVal bits := by
  induction bits generalizing n0 with
  | nil => simp [bitsVal]
  | cons c cs ih =>
    simp only [List.foldl_cons, List.length_cons, bitsVal]
    rw [ih (2 * n0 + _), ih (2 * 0 + _)]
    ring

theorem bitsVal_cons (b : Bool) (bs : List Bool) :
    bitsVal (b :: bs) = (if b then 1 else 0) * 2 ^ bs.length + bitsVal bs := by
  simp only [bitsVal, List.foldl_cons]
  rw [bitsVal_foldl]
  simp [bitsVal]

/-- generic: a fold `res ↦ sq res; if bit then res * g` where `sq x = x * x` computes
    `acc ^ 2^len * g ^ bitsVal bits` in any commutative monoid -/
theorem powFold_eq {M : Type} [CommMonoid M] (sq : M → M) (hsq : ∀ x, sq x = x * x) (g : M)
    (bits : List Bool) (acc : M) :
    bits.foldl (fun res i => let res := sq res; if i then res * g else res) acc
      = acc ^ (2 ^ bits.length) * g ^ bitsVal bits := by
  induction bits generalizing acc with
  | nil => simp [bitsVal]
  | cons b bs ih =>
    simp only [List.foldl_cons, List.length_cons]
    rw [ih, bitsVal_cons, hsq]
    cases b
    · simp only [Bool.false_eq_true, if_false, zero_mul, zero_add]
      rw [← pow_two, ← pow_mul, pow_succ]
      ring_nf
    · simp only [if_true, one_mul]
      rw [mul_pow, ← pow_two, ← pow_mul, mul_assoc, ← pow_add]
      congr 2
      rw [pow_succ]; ring

/-- the bits of `n`, most significant first, evaluate to `n` -/
theorem bitsVal_bitsMSB (n : Nat) : bitsVal (bitsMSB n) = n := by
  unfold bitsMSB bitLen
  split
  · next h => subst h; simp [bitsVal]
  · next h =>
    -- general statement: for every k, the top-down fold over range k reconstructs n % 2^k
    have key : ∀ k, bitsVal ((List.range k).reverse.map fun i => n.testBit i) = n % 2 ^ k := by
      intro k
      induction k with
      | zero => simp [bitsVal, Nat.mod_one]
      | succ k ih =>
        rw [List.range_succ, List.reverse_append, List.map_append]
        simp only [List.reverse_cons, List.reverse_nil, List.nil_append, List.map_cons, List.map_nil,
          List.singleton_append]
        rw [bitsVal_cons, ih]
        simp only [List.length_map, List.length_reverse, List.length_range]
        rw [Nat.mod_pow_succ]
        rcases Nat.mod_two_eq_zero_or_one (n / 2 ^ k) with h0 | h1
        · have : n.testBit k = false := by simp [Nat.testBit, Nat.shiftRight_eq_div_pow, h0]
          rw [this, h0]; simp
        · have : n.testBit k = true := by simp [Nat.testBit, Nat.shiftRight_eq_div_pow, h1]
          rw [this, h1]; simp [Nat.add_comm]
    rw [key]
    apply Nat.mod_eq_of_lt
    exact Nat.lt_log2_self

/-- `FieldElement::pow` on Fq12 (used by `Gt::pow`) is exponentiation by the integer value -/
theorem Fq12.pow_eq (g : Fq12) (e : Nat) : FieldElement.pow g e = g ^ e := by
  unfold FieldElement.pow FieldElement.powBits
  have := powFold_eq (M := Fq12) Fq12.squared Fq12.squared_eq_mul g (bitsMSB e) 1
  simp only [one_pow, one_mul] at this
  rw [bitsVal_bitsMSB] at this
  exact this

/-- `Fq::pow` is exponentiation -/
theorem Fq.pow_eq (x : Fq) (e : Nat) : x.pow e = x ^ e := by
  unfold Fq.pow
  have := powFold_eq (M := Fq) (fun x => x * x) (fun _ => rfl) x (bitsMSB e) 1
  simp only [one_pow, one_mul] at this
  rw [bitsVal_bitsMSB] at this
  exact this

theorem Fr.pow_eq (x : Fr) (e : Nat) : x.pow e = x ^ e := by
  unfold Fr.pow
  have := powFold_eq (M := Fr) (fun x => x * x) (fun _ => rfl) x (bitsMSB e) 1
  simp only [one_pow, one_mul] at this
  rw [bitsVal_bitsMSB] at this
  exact this

end Sm9
