import Sm9.Proofs.ChainIndep
/-!
# Additivity of the Miller function in its base point — the coordinate-ring part

Generic field `F`, `W : Affine F`, `R = F[W]` the affine coordinate ring of Mathlib.
`I(A) = ptIdeal W A`, `(z) = Ideal.span {z}`, `L_{A,B} = lineVal W (lineR W) A B`.

* `tail_ideal` — the two line steps after the loop: from the loop invariant `(f)·I(T) = I(Q)^m·(V)`
  to `(f·L_{T,Q1}·L_{T+Q1,−Q2})·I(T+Q1−Q2) = I(Q)^m·I(Q1)·I(−Q2)·(V')`.
* `pair_ideal` — `(v)·I(A)·I(B) = (L_{A,B})·I(A+B)`, `v` the vertical at `A+B`.
* `ideal_combine` — the bookkeeping in the commutative semiring of ideals.
* `cancel_ptIdeal` — `(A)·I(N) = (B)·I(N)`, `N ≠ O` ⇒ `A = c·B`, `c ∈ Fˣ`.
* `MillerIdeal`, `millerIdeal_of_loop` — `(F)·I(N) = I(Q)^a·I(P)·I(M)·(V)` for the loop with its tail.
* `miller_add_coordinateRing` — the result: for three "Miller functions" `F_i` with
  `(F_i)·I(N_i) = I(Q_i)^a·I(P_i)·I(M_i)·(V_i)` and `Q3 = Q1+Q2`, `P3 = P1+P2`, `M3 = M1+M2`,
  `N3 = N1+N2`:  `F1·F2·L_{N1,N2}·V_a = c·F3·L_{Q1,Q2}^a·L_{P1,P2}·L_{M1,M2}·V_b`.
-/
namespace Sm9
namespace Miller
open WeierstrassCurve Polynomial
open scoped Polynomial.Bivariate
open WeierstrassCurve.Affine (CoordinateRing)
open WeierstrassCurve.Affine.CoordinateRing (XClass YClass XIdeal YIdeal XYIdeal)

variable {F : Type} [Field F] [DecidableEq F]

/-- the `x`-coordinates of the affine points of the curve -/
def curveX (W : Affine F) : Set F := {x | ∃ y, W.Nonsingular x y}

omit [DecidableEq F] in
theorem VertProd.mono {W : Affine F} {S T : Set F} (h : S ⊆ T) {v : W.CoordinateRing}
    (hv : VertProd W S v) : VertProd W T v := by
  induction hv with
  | one => exact VertProd.one
  | mul _ hx ih => exact VertProd.mul ih (h hx)

omit [DecidableEq F] in
theorem VertProd.single {W : Affine F} {S : Set F} {x : F} (hx : x ∈ S) :
    VertProd W S (XClass W x) := by
  simpa using VertProd.mul (VertProd.one (W := W) (S := S)) hx

omit [DecidableEq F] in
theorem VertProd.pow {W : Affine F} {S : Set F} {v : W.CoordinateRing} (hv : VertProd W S v) (n : ℕ) :
    VertProd W S (v ^ n) := by
  induction n with
  | zero => rw [pow_zero]; exact VertProd.one
  | succ n ih => rw [pow_succ]; exact ih.mul' hv

theorem multX_subset_curveX (W : Affine F) (Q : W.Point) (n : ℕ) : multX W Q n ⊆ curveX W := by
  rintro x ⟨y, h, _⟩
  exact ⟨y, h⟩

/-- `(v_{A+B}) · I(A) · I(B) = (L_{A,B}) · I(A+B)` with the vertical recorded as a `VertProd` -/
theorem pair_ideal (W : Affine F) (A B : W.Point) (hA : A ≠ 0) (hB : B ≠ 0) (hAB : A + B ≠ 0) :
    ∃ v, VertProd W (curveX W) v ∧
      Ideal.span {v} * (ptIdeal W A * ptIdeal W B)
        = Ideal.span {lineVal W (lineR W) A B} * ptIdeal W (A + B) := by
  obtain ⟨x, y, h, _, hxy⟩ := ptIdeal_add W A B hA hB hAB
  exact ⟨XClass W x, VertProd.single ⟨y, h⟩, hxy⟩

/-- one more line: from `(g)·I(T) = J·(V)` to `(g·L_{T,B})·I(T+B) = J·I(B)·(V')` -/
theorem step_line (W : Affine F) (T B : W.Point) (g V : W.CoordinateRing)
    (J : Ideal W.CoordinateRing) (hT : T ≠ 0) (hB : B ≠ 0) (hTB : T + B ≠ 0)
    (hV : VertProd W (curveX W) V)
    (hI : Ideal.span {g} * ptIdeal W T = J * Ideal.span {V}) :
    ∃ V', VertProd W (curveX W) V' ∧
      Ideal.span {g * lineVal W (lineR W) T B} * ptIdeal W (T + B)
        = J * ptIdeal W B * Ideal.span {V'} := by
  obtain ⟨v, hv, hxy⟩ := pair_ideal W T B hT hB hTB
  refine ⟨V * v, hV.mul' hv, ?_⟩
  rw [← Ideal.span_singleton_mul_span_singleton, ← Ideal.span_singleton_mul_span_singleton,
    mul_assoc (Ideal.span {g}), ← hxy]
  calc Ideal.span {g} * (Ideal.span {v} * (ptIdeal W T * ptIdeal W B))
      = (Ideal.span {g} * ptIdeal W T) * ptIdeal W B * Ideal.span {v} := by ring
    _ = J * ptIdeal W B * (Ideal.span {V} * Ideal.span {v}) := by rw [hI]; ring

/-- the two line steps after the loop -/
theorem tail_ideal (W : Affine F) (Q Q1 Q2 : W.Point) (m : ℕ) (st : W.Point × W.CoordinateRing)
    (V : W.CoordinateRing) (hV : VertProd W (curveX W) V)
    (hI : Ideal.span {st.2} * ptIdeal W st.1 = ptIdeal W Q ^ m * Ideal.span {V})
    (hT : st.1 ≠ 0) (hQ1 : Q1 ≠ 0) (hTQ1 : st.1 + Q1 ≠ 0) (hQ2 : Q2 ≠ 0)
    (hTQ2 : st.1 + Q1 + -Q2 ≠ 0) :
    ∃ V', VertProd W (curveX W) V' ∧
      Ideal.span {specTail W (lineR W) Q1 Q2 st} * ptIdeal W (st.1 + Q1 + -Q2)
        = ptIdeal W Q ^ m * ptIdeal W Q1 * ptIdeal W (-Q2) * Ideal.span {V'} := by
  obtain ⟨V1, hV1, h1⟩ := step_line W st.1 Q1 st.2 V _ hT hQ1 hTQ1 hV hI
  obtain ⟨V2, hV2, h2⟩ := step_line W (st.1 + Q1) (-Q2) _ V1 _ hTQ1 (neg_ne_zero.mpr hQ2) hTQ2 hV1 h1
  exact ⟨V2, hV2, h2⟩

/-- the invariant at the end of the binary loop -/
theorem loop_inv (W : Affine F) (Q : W.Point) (n : ℕ) (hn : ∀ k, 0 < k → k < n → k • Q ≠ 0)
    (h1 : 1 < n) (N : ℕ) (idx : List ℕ) (hbin : binChainOK N idx n = true) :
    Inv W Q n (chainVal N idx 1) (specLoop W (lineR W) Q N idx) := by
  unfold binChainOK at hbin
  have hstart : Inv W Q n 1 (Q, 1) :=
    ⟨Nat.one_pos, h1, (one_smul _ _).symm, 1, VertProd.one, by simp⟩
  exact foldl_inv W Q n (fun m i => 2 * m + (if bit N i then 1 else 0)) (specStep W (lineR W) Q N)
    (fun m st i h h2 => inv_specStep W Q n hn N i m st h h2) idx 1 _ hstart hbin

/-- `f` has the divisor of a Miller function: `(f)·I(N) = I(Q)^a · I(P) · I(M) · (V)`, `V` a product of
    verticals.  (A definition of the generic file on purpose: ideal statements re-elaborated at a
    concrete field pick up instance paths whose unification is very expensive.) -/
def MillerIdeal (W : Affine F) (a : ℕ) (f : W.CoordinateRing) (Q P M N : W.Point) : Prop :=
  ∃ V, VertProd W (curveX W) V ∧
    Ideal.span {f} * ptIdeal W N = ptIdeal W Q ^ a * ptIdeal W P * ptIdeal W M * Ideal.span {V}

/-- (†): the ideal of the loop followed by the two line steps -/
theorem millerIdeal_of_loop (W : Affine F) (Q Q1 Q2 N : W.Point) (n : ℕ)
    (hn : ∀ k, 0 < k → k < n → k • Q ≠ 0) (h1 : 1 < n) (Nn : ℕ) (idx : List ℕ)
    (hbin : binChainOK Nn idx n = true) (a : ℕ) (ha : chainVal Nn idx 1 = a)
    (hQ1 : Q1 ≠ 0) (hQ2 : Q2 ≠ 0) (hT1 : a • Q + Q1 ≠ 0) (hT2 : a • Q + Q1 + -Q2 = N) (hN : N ≠ 0) :
    MillerIdeal W a (specTail W (lineR W) Q1 Q2 (specLoop W (lineR W) Q Nn idx)) Q Q1 (-Q2) N := by
  have hinv := loop_inv W Q n hn h1 Nn idx hbin
  rw [ha] at hinv
  generalize specLoop W (lineR W) Q Nn idx = st at hinv ⊢
  obtain ⟨hm, hmn, hT, V, hV, hI⟩ := hinv
  have hT0 := hn _ hm hmn
  rw [← hT] at hT0 hT1 hT2
  subst hT2
  exact tail_ideal W Q Q1 Q2 a st V (hV.mono (multX_subset_curveX _ _ _)) hI hT0 hQ1 hT1 hQ2 hN

/-- the bookkeeping, in any commutative semiring (here: the ideals of `F[W]`) -/
theorem ideal_combine {M : Type} [CommSemiring M] (a : ℕ)
    (f1 f2 f3 N1 N2 N3 A1 A2 A3 B1 B2 B3 C1 C2 C3 V1 V2 V3 l0 lp lm ln v0 vp vm vn : M)
    (h1 : f1 * N1 = A1 ^ a * B1 * C1 * V1) (h2 : f2 * N2 = A2 ^ a * B2 * C2 * V2)
    (h3 : f3 * N3 = A3 ^ a * B3 * C3 * V3)
    (k0 : v0 * (A1 * A2) = l0 * A3) (kp : vp * (B1 * B2) = lp * B3)
    (km : vm * (C1 * C2) = lm * C3) (kn : vn * (N1 * N2) = ln * N3) :
    (f1 * f2 * ln * (v0 ^ a * vp * vm * V3)) * N3
      = (f3 * l0 ^ a * lp * lm * (V1 * V2 * vn)) * N3 := by
  calc (f1 * f2 * ln * (v0 ^ a * vp * vm * V3)) * N3
      = f1 * f2 * (v0 ^ a * vp * vm * V3) * (ln * N3) := by ring
    _ = (f1 * N1) * (f2 * N2) * (v0 ^ a * vp * vm * V3) * vn := by rw [← kn]; ring
    _ = (v0 * (A1 * A2)) ^ a * (vp * (B1 * B2)) * (vm * (C1 * C2)) * (V1 * V2 * vn) * V3 := by
        rw [h1, h2]; ring
    _ = l0 ^ a * lp * lm * (V1 * V2 * vn) * (A3 ^ a * B3 * C3 * V3) := by rw [k0, kp, km]; ring
    _ = _ := by rw [← h3]; ring

/-- cancelling the ideal of a point: the generators differ by a non-zero constant -/
theorem cancel_ptIdeal (W : Affine F) (N : W.Point) (hN : N ≠ 0) (A B : W.CoordinateRing)
    (h : Ideal.span {A} * ptIdeal W N = Ideal.span {B} * ptIdeal W N) :
    ∃ c : F, c ≠ 0 ∧ A = algebraMap F W.CoordinateRing c * B := by
  obtain ⟨x, y, hxy, rfl⟩ := exists_some_of_ne_zero W hN
  have hneg := ptIdeal_neg_mul W hxy
  have key : Ideal.span {B * XClass W x} = Ideal.span {A * XClass W x} := by
    rw [← Ideal.span_singleton_mul_span_singleton, ← Ideal.span_singleton_mul_span_singleton, ← hneg]
    calc Ideal.span {B} * (ptIdeal W (-.some x y hxy) * ptIdeal W (.some x y hxy))
        = ptIdeal W (-.some x y hxy) * (Ideal.span {B} * ptIdeal W (.some x y hxy)) := by ring
      _ = ptIdeal W (-.some x y hxy) * (Ideal.span {A} * ptIdeal W (.some x y hxy)) := by rw [h]
      _ = _ := by ring
  obtain ⟨u, hu⟩ := Ideal.span_singleton_eq_span_singleton.mp key
  obtain ⟨c, hc, huc⟩ := coordinateRing_unit_const W u u.isUnit
  refine ⟨c, hc, ?_⟩
  apply mul_right_cancel₀ (CoordinateRing.XClass_ne_zero (W' := W) x)
  rw [← hu, huc]
  ring

/-- **additivity in the coordinate ring**: three functions with the divisors of Miller functions at
    `Q1`, `Q2`, `Q3 = Q1 + Q2` satisfy `F1·F2·L_N = c·F3·L_Q^a·L_P·L_M` up to verticals -/
theorem miller_add_coordinateRing (W : Affine F) (a : ℕ) (F1 F2 F3 : W.CoordinateRing)
    (Q1 Q2 Q3 P1 P2 P3 M1 M2 M3 N1 N2 N3 : W.Point)
    (d1 : MillerIdeal W a F1 Q1 P1 M1 N1) (d2 : MillerIdeal W a F2 Q2 P2 M2 N2)
    (d3 : MillerIdeal W a F3 Q3 P3 M3 N3)
    (hQ : Q1 + Q2 = Q3) (hP : P1 + P2 = P3) (hM : M1 + M2 = M3) (hN : N1 + N2 = N3)
    (hQ1 : Q1 ≠ 0) (hQ2 : Q2 ≠ 0) (hQ3 : Q3 ≠ 0) (hP1 : P1 ≠ 0) (hP2 : P2 ≠ 0) (hP3 : P3 ≠ 0)
    (hM1 : M1 ≠ 0) (hM2 : M2 ≠ 0) (hM3 : M3 ≠ 0) (hN1 : N1 ≠ 0) (hN2 : N2 ≠ 0) (hN3 : N3 ≠ 0) :
    ∃ (c : F) (Va Vb : W.CoordinateRing), c ≠ 0 ∧ VertProd W (curveX W) Va ∧
      VertProd W (curveX W) Vb ∧
      F1 * F2 * lineVal W (lineR W) N1 N2 * Va
        = algebraMap F W.CoordinateRing c *
          (F3 * lineVal W (lineR W) Q1 Q2 ^ a * lineVal W (lineR W) P1 P2
            * lineVal W (lineR W) M1 M2 * Vb) := by
  obtain ⟨V1, hV1, h1⟩ := d1
  obtain ⟨V2, hV2, h2⟩ := d2
  obtain ⟨V3, hV3, h3⟩ := d3
  subst hQ hP hM hN
  obtain ⟨v0, hv0, k0⟩ := pair_ideal W Q1 Q2 hQ1 hQ2 hQ3
  obtain ⟨vp, hvp, kp⟩ := pair_ideal W P1 P2 hP1 hP2 hP3
  obtain ⟨vm, hvm, km⟩ := pair_ideal W M1 M2 hM1 hM2 hM3
  obtain ⟨vn, hvn, kn⟩ := pair_ideal W N1 N2 hN1 hN2 hN3
  have key := ideal_combine a _ _ _ _ _ _ _ _ _ _ _ _ _ _ _ _ _ _ _ _ _ _ _ _ _ _
    h1 h2 h3 k0 kp km kn
  simp only [Ideal.span_singleton_pow, Ideal.span_singleton_mul_span_singleton] at key
  obtain ⟨c, hc, e⟩ := cancel_ptIdeal W _ hN3 _ _ key
  refine ⟨c, v0 ^ a * vp * vm * V3, V1 * V2 * vn, hc,
    (((hv0.pow a).mul' hvp).mul' hvm).mul' hV3, (hV1.mul' hV2).mul' hvn, ?_⟩
  exact e

end Miller
end Sm9
