import Sm9.Proofs.Decoders
/-!
# G2 decoders: completeness of compressed decoding, and the funnels

* `g2_from_compressed_complete` — the converse of `g2_from_compressed_sound`: for every subgroup
  point `(x, y)` of the twist and either sign byte `02`/`03`, the string `b ‖ x` is accepted and
  decodes to `(x, ±y)` in normal form; `g2_from_compressed_complete_exact` — with the sign byte of
  `y` and Re y ≠ 0 the result is exactly `(x, y)`.
* `g2_from_compressed_accepts_iff` — the accepted strings are exactly `b ‖ enc x` with `b ∈ {02,03}`
  and `x` the abscissa of a subgroup point of the twist (no side condition).
* `g2_from_compressed_iff_partial` — exact characterisation for results with Re y ≠ 0.
* `g2_from_slice_funnel'`, `g2_from_uncompressed_funnel`, `g2_from_compressed_funnel` — every G2
  decoder only lets subgroup points of the twist, in normal form, through (and the `…_funnel_new`
  forms: `Ok` is reached only through the validated constructor `AffineG2::new`).
* `g2_decoders_total` — the three decoders return `Except CurveError G2`, which has no panic
  outcome: every input gives `.ok` or `.error`.
-/
set_option maxRecDepth 100000
namespace Sm9

/-! ## completeness of compressed decoding -/

/-- what the decompressor computes on a well-formed string `b ‖ enc x` whose `x` has a root -/
theorem Api.g2FromCompressed_enc (b : UInt8) (hb : b.toNat = 2 ∨ b.toNat = 3) (x s : Fq2)
    (hs : (x * x * x + b2).sqrt = some s) :
    Api.g2FromCompressed (b :: Api.fq2ToSlice x) =
      Api.liftNew x (if ((b.toNat % 2 == 0) != Api.fq2IsEven s) then -s else s) := by
  rw [Api.g2FromCompressed_cons, if_neg (by simp [Api.fq2ToSlice_length]),
    if_neg (by omega), Api.fq2FromSlice_toSlice]
  simp only [hs]

/-- **completeness of `G2::from_compressed`**: every subgroup point of the twist is decodable from
    its abscissa with either sign byte, up to the sign of y -/
theorem g2_from_compressed_complete (x y : Fq2) (h : y * y = x * x * x + b2)
    (hsub : r • G2.toAff { x := x, y := y, z := 1 } = 0) (b : UInt8) (hb : b.toNat = 2 ∨ b.toNat = 3) :
    ∃ P : G2, Api.g2FromCompressed (b :: Api.fq2ToSlice x) = .ok P ∧ P.x = x ∧
      (P.y = y ∨ P.y = -y) ∧ P.z = 1 := by
  have hsome := Fq2.sqrt_complete (x * x * x + b2) ⟨y, h⟩
  obtain ⟨s, hsq⟩ := Option.isSome_iff_exists.1 hsome
  have hss := Fq2.sqrt_sound _ _ hsq
  have hcases : s = y ∨ s = -y := sq_eq_cases s y (hss.trans h.symm)
  -- the selected root is again ±y
  have hsel : ∀ c : Bool, (if c then -s else s) = y ∨ (if c then -s else s) = -y := by
    intro c
    cases c
    · simpa using hcases
    · rcases hcases with e | e
      · right; simp [e]
      · left; simp [e]
  rw [Api.g2FromCompressed_enc b hb x s hsq]
  generalize ((b.toNat % 2 == 0) != Api.fq2IsEven s) = c
  have hy2 := hsel c
  generalize (if c = true then -s else s) = y2 at hy2 ⊢
  refine ⟨{ x := x, y := y2, z := 1 }, ?_, rfl, hy2, rfl⟩
  rcases hy2 with e | e
  · subst e
    exact (Api.liftNew_g2_iff x y2 _).2 ⟨h, hsub, rfl⟩
  · subst e
    refine (Api.liftNew_g2_iff x (-y) _).2 ⟨?_, (G2.subgroup_neg x y h hsub).2, rfl⟩
    rw [neg_mul_neg]; exact h

/-- **exact version**: with Re y ≠ 0 and the sign byte of y the decoder returns exactly (x, y) -/
theorem g2_from_compressed_complete_exact (x y : Fq2) (h : y * y = x * x * x + b2)
    (hsub : r • G2.toAff { x := x, y := y, z := 1 } = 0) (hre : y.c0 ≠ 0)
    (b : UInt8) (hb : b = compByte (Api.fq2IsEven y)) :
    ∃ P : G2, Api.g2FromCompressed (b :: Api.fq2ToSlice x) = .ok P ∧ P.x = x ∧ P.y = y ∧ P.z = 1 := by
  subst hb
  exact ⟨_, g2_from_compressed_encode_partial x y h hsub hre, rfl, rfl, rfl⟩

/-- with Re y ≠ 0 the other sign byte gives exactly the negative -/
theorem g2_from_compressed_complete_exact_neg (x y : Fq2) (h : y * y = x * x * x + b2)
    (hsub : r • G2.toAff { x := x, y := y, z := 1 } = 0) (hre : y.c0 ≠ 0) :
    Api.g2FromCompressed (compByte (!Api.fq2IsEven y) :: Api.fq2ToSlice x) =
      .ok { x := x, y := -y, z := 1 } := by
  have hre' : (-y).c0 ≠ 0 := by
    rw [Fq2.neg_c0]; exact neg_ne_zero.2 hre
  have := g2_from_compressed_encode_partial x (-y) (by rw [neg_mul_neg]; exact h)
    (G2.subgroup_neg x y h hsub).2 hre'
  rw [Api.fq2IsEven_neg y hre] at this
  exact this

/-- **which strings `G2::from_compressed` accepts** (no side condition): exactly `b ‖ enc x` with
    `b ∈ {02, 03}` and x the abscissa of a subgroup point of the twist -/
theorem g2_from_compressed_accepts_iff (bs : List UInt8) :
    (∃ P, Api.g2FromCompressed bs = .ok P) ↔
      ∃ (b : UInt8) (x y : Fq2), (b.toNat = 2 ∨ b.toNat = 3) ∧ bs = b :: Api.fq2ToSlice x ∧
        y * y = x * x * x + b2 ∧ r • G2.toAff { x := x, y := y, z := 1 } = 0 := by
  constructor
  · rintro ⟨P, h⟩
    obtain ⟨b, x, y, hb, hbs, he, hs, _, _⟩ := g2_from_compressed_sound bs P h
    exact ⟨b, x, y, hb, hbs, he, hs⟩
  · rintro ⟨b, x, y, hb, rfl, he, hs⟩
    obtain ⟨P, hP, _⟩ := g2_from_compressed_complete x y he hs b hb
    exact ⟨P, hP⟩

/-- **exact characterisation of `G2::from_compressed`, partial**: for results with Re y ≠ 0 the
    accepted inputs are exactly the compressed encodings of subgroup points of the twist.
    (Missing for the unconditional statement: no point of the order-r subgroup has Re y = 0.) -/
theorem g2_from_compressed_iff_partial (bs : List UInt8) (P : G2) (hre : P.y.c0 ≠ 0) :
    Api.g2FromCompressed bs = .ok P ↔
      ∃ x y : Fq2, y * y = x * x * x + b2 ∧ r • G2.toAff { x := x, y := y, z := 1 } = 0 ∧
        bs = compByte (Api.fq2IsEven y) :: Api.fq2ToSlice x ∧ P = { x := x, y := y, z := 1 } := by
  constructor
  · intro h
    obtain ⟨b, x, y, _, hbs, he, hs, hP, hb⟩ := g2_from_compressed_sound bs P h
    have hy : y.c0 ≠ 0 := by rw [hP] at hre; exact hre
    refine ⟨x, y, he, hs, ?_, hP⟩
    rw [hbs, hb hy]
  · rintro ⟨x, y, he, hs, rfl, rfl⟩
    exact g2_from_compressed_encode_partial x y he hs hre

/-! ## funnels: only subgroup points of the twist, in normal form, pass a G2 decoder -/

theorem g2_from_slice_funnel' (bs : List UInt8) (p : G2) (h : Api.g2FromSlice bs = .ok p) :
    p.z = 1 ∧ p.y * p.y = p.x * p.x * p.x + b2 ∧ r • G2.toAff p = 0 := by
  obtain ⟨_, x, y, _, _, he, hs, rfl⟩ := (g2_from_slice_iff bs p).1 h
  exact ⟨rfl, he, hs⟩

theorem g2_from_uncompressed_funnel (bs : List UInt8) (p : G2) (h : Api.g2FromUncompressed bs = .ok p) :
    p.z = 1 ∧ p.y * p.y = p.x * p.x * p.x + b2 ∧ r • G2.toAff p = 0 := by
  obtain ⟨tl, _, h'⟩ := (g2_from_uncompressed_iff bs p).1 h
  exact g2_from_slice_funnel' tl p h'

theorem g2_from_compressed_funnel (bs : List UInt8) (p : G2) (h : Api.g2FromCompressed bs = .ok p) :
    p.z = 1 ∧ p.y * p.y = p.x * p.x * p.x + b2 ∧ r • G2.toAff p = 0 := by
  obtain ⟨_, x, y, _, _, he, hs, rfl, _⟩ := g2_from_compressed_sound bs p h
  exact ⟨rfl, he, hs⟩

/-- `liftNew` reaches `Ok` only through the validated constructor -/
theorem Api.liftNew_funnel {F} [FieldElement F] [GroupParams F] (x y : F) (p : G F)
    (h : Api.liftNew x y = .ok p) :
    ∃ a, (AffineG.new x y : Except GroupError (AffineG F)) = .ok a ∧ p = a.to_jacobian := by
  unfold Api.liftNew at h
  split at h
  · next a ha => exact ⟨a, ha, by cases h; rfl⟩
  · cases h

/-- the raw decoder reaches `Ok` only through `AffineG2::new` (the shape of `C09.g2_from_slice_funnel`) -/
theorem g2_from_slice_funnel_new (bs : List UInt8) (p : G2) (h : Api.g2FromSlice bs = .ok p) :
    ∃ x y a, (AffineG.new x y : Except GroupError AffineG2) = .ok a ∧ p = a.to_jacobian := by
  unfold Api.g2FromSlice at h
  split at h
  · cases h
  · split at h
    · next x y _ _ =>
      obtain ⟨a, ha, hp⟩ := Api.liftNew_funnel x y p h
      exact ⟨x, y, a, ha, hp⟩
    · cases h

theorem g2_from_uncompressed_funnel_new (bs : List UInt8) (p : G2)
    (h : Api.g2FromUncompressed bs = .ok p) :
    ∃ x y a, (AffineG.new x y : Except GroupError AffineG2) = .ok a ∧ p = a.to_jacobian := by
  obtain ⟨tl, _, h'⟩ := (g2_from_uncompressed_iff bs p).1 h
  exact g2_from_slice_funnel_new tl p h'

theorem g2_from_compressed_funnel_new (bs : List UInt8) (p : G2)
    (h : Api.g2FromCompressed bs = .ok p) :
    ∃ x y a, (AffineG.new x y : Except GroupError AffineG2) = .ok a ∧ p = a.to_jacobian := by
  match bs, h with
  | [], h => exact absurd h (by simp [Api.g2FromCompressed])
  | b :: tl, h =>
    rw [Api.g2FromCompressed_cons] at h
    split at h
    · cases h
    · split at h
      · cases h
      · split at h
        · cases h
        · next x _ =>
          split at h
          · cases h
          · next s _ =>
            obtain ⟨a, ha, hp⟩ := Api.liftNew_funnel x _ p h
            exact ⟨x, _, a, ha, hp⟩

/-! ## totality: the decoders have no panic outcome -/

theorem g2_from_compressed_total (bs : List UInt8) :
    (∃ P, Api.g2FromCompressed bs = .ok P) ∨ (∃ e, Api.g2FromCompressed bs = .error e) := by
  cases h : Api.g2FromCompressed bs with
  | ok P => exact Or.inl ⟨P, rfl⟩
  | error e => exact Or.inr ⟨e, rfl⟩

/-- The three G2 decoders have type `List UInt8 → Except CurveError G2` (not `Outcome`): there is
    no panic outcome in their result type, so "never panics" is carried by the type; as a statement,
    every input gives `Ok` of a subgroup point of the twist in normal form, or an `Err`. -/
theorem g2_decoders_total (bs : List UInt8) :
    ((∃ P, Api.g2FromSlice bs = .ok P ∧ P.z = 1 ∧ P.y * P.y = P.x * P.x * P.x + b2 ∧ r • G2.toAff P = 0) ∨
      ∃ e, Api.g2FromSlice bs = .error e) ∧
    ((∃ P, Api.g2FromUncompressed bs = .ok P ∧ P.z = 1 ∧ P.y * P.y = P.x * P.x * P.x + b2 ∧ r • G2.toAff P = 0) ∨
      ∃ e, Api.g2FromUncompressed bs = .error e) ∧
    ((∃ P, Api.g2FromCompressed bs = .ok P ∧ P.z = 1 ∧ P.y * P.y = P.x * P.x * P.x + b2 ∧ r • G2.toAff P = 0) ∨
      ∃ e, Api.g2FromCompressed bs = .error e) := by
  refine ⟨?_, ?_, ?_⟩
  · cases h : Api.g2FromSlice bs with
    | ok P => exact Or.inl ⟨P, rfl, g2_from_slice_funnel' bs P h⟩
    | error e => exact Or.inr ⟨e, rfl⟩
  · cases h : Api.g2FromUncompressed bs with
    | ok P => exact Or.inl ⟨P, rfl, g2_from_uncompressed_funnel bs P h⟩
    | error e => exact Or.inr ⟨e, rfl⟩
  · cases h : Api.g2FromCompressed bs with
    | ok P => exact Or.inl ⟨P, rfl, g2_from_compressed_funnel bs P h⟩
    | error e => exact Or.inr ⟨e, rfl⟩

/-! ## non-vacuity: the generator of G2 -/

theorem G2.one_on_twist :
    (G.one : G2).y * (G.one : G2).y = (G.one : G2).x * (G.one : G2).x * (G.one : G2).x + b2 := by
  obtain ⟨h, _⟩ := (C09.affine_g2_new_iff (G.one : G2).x (G.one : G2).y).1 C09.P2_accepted
  exact h

example (b : UInt8) (hb : b.toNat = 2 ∨ b.toNat = 3) :
    ∃ P : G2, Api.g2FromCompressed (b :: Api.fq2ToSlice (G.one : G2).x) = .ok P ∧ P.x = (G.one : G2).x ∧
      (P.y = (G.one : G2).y ∨ P.y = -(G.one : G2).y) ∧ P.z = 1 :=
  g2_from_compressed_complete _ _ G2.one_on_twist G2.one_in_subgroup b hb

end Sm9
