import Sm9.Proofs.ChainIndep
import Sm9.Proofs.MillerNaf
/-!
# The two SM9 Miller loops have the same reduced value

`Sm9/Proofs/ChainIndep.lean` proves, in the affine coordinate ring `F[W]` of Mathlib, that the
products of lines accumulated along the binary chain and along the signed-digit chain of `6t+2`
differ by a non-zero constant and by verticals `X − x_T`, `T` a non-zero multiple of `Q`.  Here this
is transported to `Fq12`:

1. `ev : Fq2[E′] →+* Fq12`, `X ↦ xP·w²`, `Y ↦ yP·w³` (the point `ψ⁻¹(P)` of the twist over `Fq12`);
   `ev (lineR x y λ) = w³ · lineSpec x y λ xP yP`, `ev (X − x) = xP·w² − x`.
2. the loops commute with monoid homomorphisms of the line values (`specLoop_hom`), in particular with
   `ev` and with `z ↦ z ^ ((q¹²−1)/r)`.
3. the final exponentiation kills `Fq2ˣ` (`ofFq2_pow_final`), `w³` (`w3_pow_final`) and the non-zero
   verticals (`vert_pow_final`: they lie in the fixed field of the `q⁶`-power map).
4. a vertical vanishes at `ψ⁻¹(P)` only for `x_T = 0`; the twist has no point with `x = 0`, because
   `b2 = 5u` is not a square in `Fq2` (`twist_x_ne_zero`).
5. `specMillerNaf_reduced_eq_specMiller_reduced`, and `api_pairing_eq_fast_pairing`.
-/
namespace Sm9
namespace Miller
open WeierstrassCurve Polynomial

set_option maxRecDepth 100000

/-- the final exponent -/
local notation "E" => ((q ^ 12 - 1) / r)

/-! ## 0. closed numeric facts -/

theorem b1_w6 : Fq12.ofFq b1 * Fq12.w ^ 6 = Fq12.ofFq2 b2 := by decide +kernel
theorem w6_eq : Fq12.w ^ 6 = Fq12.ofFq2 Fq2.i := by decide +kernel
theorem b2_pow_half : FieldElement.pow b2 ((q ^ 2 - 1) / 2) = -1 := by decide +kernel
theorem q6_dvd_final : q ^ 6 - 1 ∣ (q ^ 12 - 1) / r := by decide +kernel
theorem two_q2_dvd_final : 2 * (q ^ 2 - 1) ∣ (q ^ 12 - 1) / r := by decide +kernel
theorem q6_pos : q ^ 6 - 1 + 1 = q ^ 6 := by decide +kernel
theorem binChainOK_loop : binChainOK Consts.SM9_LOOP_N loopIdx r = true := by decide +kernel
theorem nafChainOK_loop : nafChainOK Consts.SM9_LOOP_COUNT r = true := by decide +kernel
theorem w_ne_zero : Fq12.w ≠ 0 := by decide +kernel

/-! ## 1. the loops commute with monoid homomorphisms of the line values -/

section generic
variable {F : Type} [Field F] [DecidableEq F] {K K' : Type} [MulOneClass K] [MulOneClass K']
variable (W : Affine F) (ℓ : F → F → F → K) (f : K →* K')

theorem lineVal_hom (A B : W.Point) :
    lineVal W (fun x y l => f (ℓ x y l)) A B = f (lineVal W ℓ A B) := by
  cases A with
  | zero => exact (map_one f).symm
  | some x1 y1 h1 =>
    cases B with
    | zero => exact (map_one f).symm
    | some x2 y2 h2 => rfl

theorem specStep_hom (Q : W.Point) (N : Nat) (st : W.Point × K) (i : Nat) :
    specStep W (fun x y l => f (ℓ x y l)) Q N (st.1, f st.2) i
      = ((specStep W ℓ Q N st i).1, f (specStep W ℓ Q N st i).2) := by
  unfold specStep
  simp only [lineVal_hom]
  split <;> simp only [map_mul]

theorem foldl_specStep_hom (Q : W.Point) (N : Nat) (idx : List Nat) (st : W.Point × K) :
    idx.foldl (specStep W (fun x y l => f (ℓ x y l)) Q N) (st.1, f st.2)
      = ((idx.foldl (specStep W ℓ Q N) st).1, f (idx.foldl (specStep W ℓ Q N) st).2) := by
  induction idx generalizing st with
  | nil => rfl
  | cons i is ih =>
    rw [List.foldl_cons, List.foldl_cons, specStep_hom]
    exact ih _

theorem specLoop_hom (Q : W.Point) (N : Nat) (idx : List Nat) :
    specLoop W (fun x y l => f (ℓ x y l)) Q N idx
      = ((specLoop W ℓ Q N idx).1, f (specLoop W ℓ Q N idx).2) := by
  unfold specLoop
  rw [← foldl_specStep_hom, map_one]

theorem specStepNaf_hom (Q : W.Point) (st : W.Point × K) (d : Nat) :
    specStepNaf W (fun x y l => f (ℓ x y l)) Q (st.1, f st.2) d
      = ((specStepNaf W ℓ Q st d).1, f (specStepNaf W ℓ Q st d).2) := by
  unfold specStepNaf
  simp only [lineVal_hom]
  split
  · simp only [map_mul]
  · split <;> simp only [map_mul]

theorem foldl_specStepNaf_hom (Q : W.Point) (ds : List Nat) (st : W.Point × K) :
    ds.foldl (specStepNaf W (fun x y l => f (ℓ x y l)) Q) (st.1, f st.2)
      = ((ds.foldl (specStepNaf W ℓ Q) st).1, f (ds.foldl (specStepNaf W ℓ Q) st).2) := by
  induction ds generalizing st with
  | nil => rfl
  | cons d ds ih =>
    rw [List.foldl_cons, List.foldl_cons, specStepNaf_hom]
    exact ih _

theorem specLoopNaf_hom (Q : W.Point) (ds : List Nat) :
    specLoopNaf W (fun x y l => f (ℓ x y l)) Q ds
      = ((specLoopNaf W ℓ Q ds).1, f (specLoopNaf W ℓ Q ds).2) := by
  unfold specLoopNaf
  rw [← foldl_specStepNaf_hom, map_one]

end generic

/-! ## 2. the evaluation homomorphism at `ψ⁻¹(P) = (xP·w², yP·w³)` -/

/-- `x(ψ⁻¹(P))` -/
noncomputable def evX (xP : Fq) : Fq12 := Fq12.ofFq xP * Fq12.w ^ 2
/-- `y(ψ⁻¹(P))` -/
noncomputable def evY (yP : Fq) : Fq12 := Fq12.ofFq yP * Fq12.w ^ 3

/-- `ψ⁻¹(P)` lies on the twist (over `Fq12`) -/
theorem ev_root (xP yP : Fq) (hP : yP * yP = xP * xP * xP + b1) :
    eval₂ (eval₂RingHom Fq12.ofFq2 (evX xP)) (evY yP) (Jac.Wb b2).polynomial = 0 := by
  unfold Affine.polynomial Jac.Wb
  simp only [eval₂_add, eval₂_sub, eval₂_pow, eval₂_X, eval₂_C, coe_eval₂RingHom, map_zero,
    zero_mul, add_zero]
  have h : Fq12.ofFq yP * Fq12.ofFq yP
      = Fq12.ofFq xP * Fq12.ofFq xP * Fq12.ofFq xP + Fq12.ofFq b1 := by
    rw [← map_mul, ← map_mul, ← map_mul, ← map_add]
    exact congrArg Fq12.ofFq hP
  unfold evX evY
  linear_combination (Fq12.w ^ 6) * h + b1_w6

/-- evaluation of the functions of the twist at `ψ⁻¹(P)` -/
noncomputable def ev (xP yP : Fq) (hP : yP * yP = xP * xP * xP + b1) :
    (Jac.Wb b2).CoordinateRing →+* Fq12 :=
  AdjoinRoot.lift (eval₂RingHom Fq12.ofFq2 (evX xP)) (evY yP) (ev_root xP yP hP)

theorem ev_lineR (xP yP : Fq) (hP : yP * yP = xP * xP * xP + b1) (x y lam : Fq2) :
    ev xP yP hP (lineR (Jac.Wb b2) x y lam) = Fq12.w ^ 3 * lineAt xP yP x y lam := by
  unfold lineR Affine.CoordinateRing.YClass Affine.linePolynomial ev
  rw [AdjoinRoot.lift_mk]
  simp only [eval₂_add, eval₂_sub, eval₂_mul, eval₂_X, eval₂_C, coe_eval₂RingHom]
  unfold lineAt
  rw [lineSpec_eq_w]
  unfold evX evY
  have hw := w_ne_zero
  simp only [map_sub, map_mul]
  field_simp
  ring

theorem ev_XClass (xP yP : Fq) (hP : yP * yP = xP * xP * xP + b1) (x : Fq2) :
    ev xP yP hP (Affine.CoordinateRing.XClass (Jac.Wb b2) x) = evX xP - Fq12.ofFq2 x := by
  unfold Affine.CoordinateRing.XClass ev
  rw [AdjoinRoot.lift_mk]
  simp only [eval₂_sub, eval₂_X, eval₂_C, coe_eval₂RingHom]

theorem ev_algebraMap (xP yP : Fq) (hP : yP * yP = xP * xP * xP + b1) (c : Fq2) :
    ev xP yP hP (algebraMap Fq2 (Jac.Wb b2).CoordinateRing c) = Fq12.ofFq2 c := by
  unfold ev
  rw [AdjoinRoot.algebraMap_eq', RingHom.comp_apply, AdjoinRoot.lift_of, Polynomial.algebraMap_apply,
    Algebra.algebraMap_self_apply, coe_eval₂RingHom, eval₂_C]

/-! ## 3. factors killed by the final exponentiation -/

theorem w3_pow_final : (Fq12.w ^ 3) ^ E = 1 := by
  obtain ⟨c, hc⟩ := two_q2_dvd_final
  rw [hc, ← pow_mul, ← mul_assoc, ← mul_assoc, pow_mul, pow_mul, show 3 * 2 = 6 from rfl, w6_eq,
    ← map_pow, Fq2.pow_card_sub_one _ Fq2.i_ne_zero, map_one, one_pow]

/-- the `q⁶`-power map fixes `xP·w² − x`, `x ∈ Fq2` -/
theorem vert_pow_q6 (xP : Fq) (x : Fq2) :
    (evX xP - Fq12.ofFq2 x) ^ q ^ 6 = evX xP - Fq12.ofFq2 x := by
  rw [Fq12.pow_q_pow_eq_twist, Fq12.consts6]
  unfold evX
  rw [Fq12.w_pow2]
  ext <;> simp [Fq12.twist, Fq12.ofFq2_apply, Fq12.ofFq_apply]
  ring

theorem vert_pow_final (xP : Fq) (x : Fq2) (hz : evX xP - Fq12.ofFq2 x ≠ 0) :
    (evX xP - Fq12.ofFq2 x) ^ E = 1 := by
  obtain ⟨c, hc⟩ := q6_dvd_final
  have h1 : (evX xP - Fq12.ofFq2 x) ^ (q ^ 6 - 1) = 1 := by
    have h := vert_pow_q6 xP x
    rw [← q6_pos, pow_succ] at h
    exact mul_right_cancel₀ hz (by rw [h, one_mul])
  rw [hc, pow_mul, h1, one_pow]

/-- a vertical vanishes at `ψ⁻¹(P)` only for `x = 0` -/
theorem vert_ne_zero (xP : Fq) (x : Fq2) (hx : x ≠ 0) : evX xP - Fq12.ofFq2 x ≠ 0 := by
  intro h
  apply hx
  have h' := congrArg (fun z : Fq12 => z.c0.c0) h
  unfold evX at h'
  rw [Fq12.w_pow2] at h'
  simpa [Fq12.ofFq2_apply, Fq12.ofFq_apply] using h'

/-! ## 4. the twist has no point with `x = 0` -/

theorem b2_not_sq (y : Fq2) : y * y ≠ b2 := by
  intro h
  have hy : y ≠ 0 := by
    intro h0; rw [h0, mul_zero] at h; exact b2_ne_zero h.symm
  have h1 : b2 ^ ((q ^ 2 - 1) / 2) = 1 := by
    rw [← h, ← pow_two, ← pow_mul, Fq2.card_sub_one_half]; exact Fq2.pow_card_sub_one y hy
  rw [← Fq2.pow_eq, b2_pow_half] at h1
  exact Fq2.one_ne_neg_one h1.symm

theorem twist_x_ne_zero {x y : Fq2} (h : (Jac.Wb b2).Nonsingular x y) : x ≠ 0 := by
  intro hx
  have he := ((Jac.nonsingular_iff b2 _ _).1 h).1
  apply b2_not_sq y
  rw [hx] at he
  linear_combination he

theorem multX_ne_zero (Q : (Jac.Wb b2).Point) (n : Nat) : ∀ x ∈ multX (Jac.Wb b2) Q n, x ≠ 0 := by
  rintro x ⟨y, h, _⟩
  exact twist_x_ne_zero h

/-- verticals through points of the twist are killed -/
theorem vertProd_pow_final (xP yP : Fq) (hP : yP * yP = xP * xP * xP + b1) (S : Set Fq2)
    (hS : ∀ x ∈ S, x ≠ 0) (V : (Jac.Wb b2).CoordinateRing) (hV : VertProd (Jac.Wb b2) S V) :
    ev xP yP hP V ^ E = 1 := by
  induction hV with
  | one => rw [map_one, one_pow]
  | mul _ hx ih =>
    rw [map_mul, mul_pow, ih, one_mul, ev_XClass]
    exact vert_pow_final xP _ (vert_ne_zero xP _ (hS _ hx))

/-! ## 5. assembling -/

/-- the line values of the coordinate ring, evaluated and reduced, are the reduced line values -/
theorem line_reduced (xP yP : Fq) (hP : yP * yP = xP * xP * xP + b1) :
    (fun x y l => powMonoidHom E ((ev xP yP hP : _ →* Fq12) (lineR (Jac.Wb b2) x y l)))
      = (fun x y l => powMonoidHom E (lineAt xP yP x y l)) := by
  funext x y l
  show powMonoidHom E (ev xP yP hP (lineR (Jac.Wb b2) x y l)) = _
  rw [ev_lineR, powMonoidHom_apply, powMonoidHom_apply, mul_pow, w3_pow_final, one_mul]

theorem specLoop_ev_reduced (xP yP : Fq) (hP : yP * yP = xP * xP * xP + b1) (Q : (Jac.Wb b2).Point)
    (N : Nat) (idx : List Nat) :
    ev xP yP hP (specLoop (Jac.Wb b2) (lineR (Jac.Wb b2)) Q N idx).2 ^ E
      = (specLoop (Jac.Wb b2) (lineAt xP yP) Q N idx).2 ^ E := by
  have h1 := specLoop_hom (Jac.Wb b2) (lineR (Jac.Wb b2))
    ((powMonoidHom E : Fq12 →* Fq12).comp (ev xP yP hP : _ →* Fq12)) Q N idx
  have h2 := specLoop_hom (Jac.Wb b2) (lineAt xP yP) (powMonoidHom E : Fq12 →* Fq12) Q N idx
  simp only [MonoidHom.comp_apply] at h1
  rw [line_reduced xP yP hP, h2] at h1
  have := congrArg Prod.snd h1
  simp only [powMonoidHom_apply] at this
  exact this.symm

theorem specLoopNaf_ev_reduced (xP yP : Fq) (hP : yP * yP = xP * xP * xP + b1) (Q : (Jac.Wb b2).Point)
    (ds : List Nat) :
    ev xP yP hP (specLoopNaf (Jac.Wb b2) (lineR (Jac.Wb b2)) Q ds).2 ^ E
      = (specLoopNaf (Jac.Wb b2) (lineAt xP yP) Q ds).2 ^ E := by
  have h1 := specLoopNaf_hom (Jac.Wb b2) (lineR (Jac.Wb b2))
    ((powMonoidHom E : Fq12 →* Fq12).comp (ev xP yP hP : _ →* Fq12)) Q ds
  have h2 := specLoopNaf_hom (Jac.Wb b2) (lineAt xP yP) (powMonoidHom E : Fq12 →* Fq12) Q ds
  simp only [MonoidHom.comp_apply] at h1
  rw [line_reduced xP yP hP, h2] at h1
  have := congrArg Prod.snd h1
  simp only [powMonoidHom_apply] at this
  exact this.symm

/-- the loop components of the two Miller functions have the same reduced value -/
theorem loops_reduced_eq (xP yP : Fq) (hP : yP * yP = xP * xP * xP + b1) (Q : (Jac.Wb b2).Point)
    (hr : r • Q = 0) (h0 : Q ≠ 0) :
    (specLoop (Jac.Wb b2) (lineAt xP yP) Q Consts.SM9_LOOP_N loopIdx).2 ^ E
      = (specLoopNaf (Jac.Wb b2) (lineAt xP yP) Q Consts.SM9_LOOP_COUNT).2 ^ E := by
  obtain ⟨c, V1, V2, hc, hV1, hV2, h⟩ := chain_indep_coordinateRing (Jac.Wb b2) Q r
    (fun k hk hlt => nsmul_ne_zero_of_lt hr h0 hk hlt) Consts.SM9_LOOP_N loopIdx Consts.SM9_LOOP_COUNT
    binChainOK_loop nafChainOK_loop (chainVal_loop.trans chainValNaf_loop.symm)
  have h' := congrArg (fun z => ev xP yP hP z ^ E) h
  simp only [map_mul, mul_pow] at h'
  rw [vertProd_pow_final xP yP hP _ (multX_ne_zero Q r) V1 hV1,
    vertProd_pow_final xP yP hP _ (multX_ne_zero Q r) V2 hV2, ev_algebraMap, ofFq2_pow_final c hc,
    mul_one, mul_one, one_mul, specLoop_ev_reduced, specLoopNaf_ev_reduced] at h'
  exact h'

/-- **chain independence for the SM9 R-ate pairing**: the textbook Miller functions along the
    signed-digit chain (`G2::miller_loop`) and along the binary chain (`G2Prepared`) have the same
    reduced value, for `P ∈ E(Fq)` and `Q ≠ O` in `G2 = ⟨P2⟩` -/
theorem specMillerNaf_reduced_eq_specMiller_reduced (xP yP : Fq) (hP : yP * yP = xP * xP * xP + b1)
    (xQ yQ : Fq2) (hQ : yQ * yQ = xQ * xQ * xQ + b2) (k : ℕ) (hk : twPt (xQ, yQ) = k • twPt genXY) :
    specMillerNaf xP yP xQ yQ ^ ((q ^ 12 - 1) / r) = specMiller xP yP xQ yQ ^ ((q ^ 12 - 1) / r) := by
  obtain ⟨ho, _, _⟩ := eigen_of_multiple (xQ, yQ) hQ k hk
  have hl := loops_reduced_eq xP yP hP (twPt (xQ, yQ)) ho (twPt_ne_zero _ hQ)
  have p1 := specLoop_point xP yP (xQ, yQ)
  have p2 := specLoopNaf_point xP yP (xQ, yQ)
  unfold specMillerNaf specMiller specTail
  simp only [p1, p2, mul_pow, hl]

/-- **`sm9_core::pairing` and `sm9_core::fast_pairing` agree** on all valid inputs with `Q ∈ G2 = ⟨P2⟩` -/
theorem api_pairing_eq_fast_pairing (P : G1) (Q : G2) (hPv : G1.Valid P) (hQv : G2.Valid Q)
    (k : ℕ) (hk : G2.toAff Q = k • G2.toAff (G.one : G2)) : Api.pairing P Q = Api.fast_pairing P Q := by
  by_cases hPz : P.z = 0
  · rw [pairing_left_identity P Q hPz, fast_pairing_left_identity P Q hPz]
  by_cases hQz : Q.z = 0
  · rw [pairing_right_identity P Q hQz, fast_pairing_right_identity P Q hQz]
  rw [api_pairing_eq_fast_pairing_iff P Q hPz hPv hQz hQv k hk]
  obtain ⟨he, hpt⟩ := twPt_of_valid Q hQz hQv
  have hg : twPt genXY = G2.toAff (G.one : G2) := by rw [twPt_eq, affG2_gen]
  have hk' : twPt (Q.x / Q.z ^ 2, Q.y / Q.z ^ 3) = k • twPt genXY := by
    rw [hg]; exact hpt.trans hk
  have hP := ((Jac.nonsingular_iff b1 _ _).1 (hPv.resolve_left hPz)).1
  refine specMillerNaf_reduced_eq_specMiller_reduced _ _ ?_ _ _ he k hk'
  calc P.y / P.z ^ 3 * (P.y / P.z ^ 3) = (P.y / P.z ^ 3) ^ 2 := by ring
    _ = (P.x / P.z ^ 2) ^ 3 + b1 := hP
    _ = P.x / P.z ^ 2 * (P.x / P.z ^ 2) * (P.x / P.z ^ 2) + b1 := by ring

end Miller
end Sm9
