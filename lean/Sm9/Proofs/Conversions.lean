import Sm9.Model.Mont
import Sm9.Proofs.MontBasic
import Sm9.Proofs.MontMul
import Sm9.Proofs.Divrem
import Mathlib.Tactic.Ring
import Mathlib.Tactic.Linarith
import Mathlib.Data.Nat.ModEq
/-!
# Conversions: the limb level computes "big-endian integer mod p"

* `beVal` / `beBytes` round trip and bounds,
* for every well-formed Montgomery parameter set `P` (`hP : P.Ok`, instantiated at `paramsQ`,
  `paramsR`): `new_mul_factor` on an arbitrary 256-bit integer, `interpret` (64-byte path),
  `from_slice` (strict 32-byte path), `to_slice`, `set_bit`, and `Fr::from_hash`, all stated
  through `Fp.into_u256` = the canonical value of a stored Montgomery representative.
-/
set_option exponentiation.threshold 1024

namespace Sm9

/-! ## big-endian bytes -/

theorem beVal_foldl (acc : Nat) (bs : List UInt8) :
    bs.foldl (fun acc b => acc * 256 + b.toNat) acc = acc * 256 ^ bs.length + beVal bs := by
  induction bs generalizing acc with
  | nil => simp [beVal]
  | cons b bs ih =>
    unfold beVal
    rw [List.foldl_cons, List.foldl_cons, ih, ih (0 * 256 + b.toNat), List.length_cons, pow_succ]
    ring

theorem beVal_nil : beVal [] = 0 := rfl

theorem beVal_append (as bs : List UInt8) :
    beVal (as ++ bs) = beVal as * 256 ^ bs.length + beVal bs := by
  unfold beVal
  rw [List.foldl_append, beVal_foldl]
  rfl

theorem beVal_cons (b : UInt8) (bs : List UInt8) :
    beVal (b :: bs) = b.toNat * 256 ^ bs.length + beVal bs := by
  have := beVal_append [b] bs
  simpa [beVal] using this

theorem beVal_lt (bs : List UInt8) : beVal bs < 256 ^ bs.length := by
  induction bs with
  | nil => simp [beVal]
  | cons b bs ih =>
    rw [beVal_cons, List.length_cons, pow_succ]
    have hb : b.toNat < 256 := UInt8.toNat_lt b
    have h1 : (b.toNat + 1) * 256 ^ bs.length ≤ 256 * 256 ^ bs.length :=
      Nat.mul_le_mul_right _ hb
    have h2 : (b.toNat + 1) * 256 ^ bs.length = b.toNat * 256 ^ bs.length + 256 ^ bs.length := by ring
    rw [Nat.mul_comm (256 ^ bs.length) 256]
    omega

theorem beVal_replicate_zero (k : Nat) : beVal (List.replicate k (0 : UInt8)) = 0 := by
  induction k with
  | zero => rfl
  | succ k ih => rw [List.replicate_succ, beVal_cons, ih]; simp

theorem beBytes_length (len n : Nat) : (beBytes len n).length = len := by
  unfold beBytes
  rw [List.length_map, List.length_reverse, Limb.digits_length]

/-- `beBytes len` writes `n mod 256^len` -/
theorem beVal_beBytes_mod (len n : Nat) : beVal (beBytes len n) = n % 256 ^ len := by
  induction len generalizing n with
  | zero => simp [beBytes, Limb.digits, beVal, Nat.mod_one]
  | succ len ih =>
    have e : beBytes (len + 1) n = beBytes len (n / 256) ++ [UInt8.ofNat (n % 256)] := by
      unfold beBytes
      simp [Limb.digits]
    rw [e, beVal_append, ih, beVal_cons, beVal_nil]
    have hb : (UInt8.ofNat (n % 256)).toNat = n % 256 := by
      rw [UInt8.toNat_ofNat']
      exact Nat.mod_eq_of_lt (Nat.mod_lt _ (by decide))
    rw [hb, pow_succ, Nat.mul_comm (256 ^ len) 256, Nat.mod_mul]
    simp only [List.length_cons, List.length_nil, pow_zero]
    omega

theorem beVal_beBytes (len n : Nat) (h : n < 256 ^ len) : beVal (beBytes len n) = n := by
  rw [beVal_beBytes_mod, Nat.mod_eq_of_lt h]

theorem pow256_32 : 256 ^ 32 = W256 := by decide +kernel
theorem pow256_64 : 256 ^ 64 = W512 := by decide +kernel

/-! ## conversions of the `field_impl!` macro -/
namespace Fp
variable {P : MontParams}

/-- `new_mul_factor` (= `U256::mul(x, R²)`) on an ARBITRARY 256-bit integer reduces it modulo
    the modulus (32-byte path of `Fr/Fq::from_slice`, and `set_bit`). -/
theorem new_mul_factor_reduces (hP : P.Ok) (x : Nat) (hx : x < W256) :
    new_mul_factor P x < P.modulus ∧ into_u256 P (new_mul_factor P x) = x % P.modulus := by
  have hpos : 0 < P.modulus := by have := hP.odd; omega
  have hlt := hP.lt
  have hr : P.rsquared < P.modulus := by rw [hP.rsq]; exact Nat.mod_lt _ hpos
  have hab : x * P.rsquared < P.modulus * W256 := by
    have h1 : x * P.rsquared ≤ W256 * P.rsquared := Nat.mul_le_mul_right _ hx.le
    have h2 : W256 * P.rsquared < W256 * P.modulus :=
      Nat.mul_lt_mul_of_pos_left hr (by omega)
    rw [Nat.mul_comm P.modulus]
    omega
  obtain ⟨h1, h2⟩ := U256.mul_refines_gen x P.rsquared P.modulus P.inv hP.lt hP.gt hP.inv hx
    (by omega) hab
  have hxm := Nat.mod_lt x hpos
  have key : new_mul_factor P x = new_mul_factor P (x % P.modulus) := by
    apply eq_of_mul_W256 hP h1 (new_mul_factor_lt hP _ hxm)
    show (U256.mul x P.rsquared P.modulus P.inv * W256) % P.modulus = _
    rw [h2, new_mul_factor_eq hP _ hxm, hP.rsq]
    have e1 : x * (W256 * W256 % P.modulus) ≡ x * (W256 * W256) [MOD P.modulus] :=
      (Nat.mod_modEq _ _).mul_left _
    have e2 : x % P.modulus * W256 % P.modulus * W256 ≡ x * W256 * W256 [MOD P.modulus] :=
      ((Nat.mod_modEq _ _).trans ((Nat.mod_modEq _ _).mul_right _)).mul_right _
    rw [show _ % P.modulus = _ % P.modulus from e1, show _ % P.modulus = _ % P.modulus from e2,
      mul_assoc]
  refine ⟨h1, ?_⟩
  rw [key, into_u256_new_mul_factor hP _ hxm]

/-- `Fp::new` then `into_u256` is the identity on reduced values -/
theorem new_into_u256 (hP : P.Ok) (x : Nat) (hx : x < P.modulus) :
    ∃ y, new P x = some y ∧ y < P.modulus ∧ into_u256 P y = x := by
  have hpos : 0 < P.modulus := by omega
  refine ⟨(x * W256) % P.modulus, ?_, Nat.mod_lt _ hpos, ?_⟩
  · rw [new_eq hP, if_pos hx]
  · rw [← new_mul_factor_eq hP x hx, into_u256_new_mul_factor hP x hx]

/-- `interpret` (64-byte path of `from_slice`, and `Fr::random`'s reduction): never panics on
    64 bytes and yields the big-endian integer modulo the modulus. -/
theorem interpret_spec (hP : P.Ok) (bs : List UInt8) (hlen : bs.length = 64) :
    ∃ y, interpret P bs = .ok y ∧ y < P.modulus ∧ into_u256 P y = beVal bs % P.modulus := by
  have hpos : 0 < P.modulus := by have := hP.odd; omega
  have hfs : U512.from_slice bs = some (beVal bs) := by
    unfold U512.from_slice
    simp [hlen]
  have hrem := U512.divrem_rem (beVal bs) P.modulus hpos hP.lt
  obtain ⟨y, hy, hylt, hyv⟩ := new_into_u256 hP (beVal bs % P.modulus) (Nat.mod_lt _ hpos)
  refine ⟨y, ?_, hylt, hyv⟩
  unfold interpret
  rw [hfs]
  simp only
  rw [hrem, hy]
  rfl

/-- on any other length `interpret` panics (`U512::from_slice(..).unwrap()`) -/
theorem interpret_panic (bs : List UInt8) (hlen : bs.length ≠ 64) : interpret P bs = .panic := by
  unfold interpret U512.from_slice
  simp [hlen]

/-- strict decoder `Fp::from_slice`: exactly 32 bytes and a value below the modulus; the result
    is the Montgomery representative of the big-endian integer. -/
theorem from_slice_strict_spec (hP : P.Ok) (bs : List UInt8) :
    from_slice P bs = (if bs.length = 32 ∧ beVal bs < P.modulus
      then some (beVal bs * W256 % P.modulus) else none) := by
  unfold from_slice U256.from_slice
  by_cases hlen : bs.length = 32
  · simp only [hlen, bne_self_eq_false, Bool.false_eq_true, if_false, Option.bind_some, true_and]
    exact new_eq hP _
  · have : (bs.length != 32) = true := by simp [hlen]
    simp only [this, if_true, Option.bind_none, hlen, false_and, if_false]

/-- value form of the strict decoder -/
theorem from_slice_strict_value (hP : P.Ok) (bs : List UInt8) (y : Nat)
    (h : from_slice P bs = some y) :
    bs.length = 32 ∧ beVal bs < P.modulus ∧ y < P.modulus ∧ into_u256 P y = beVal bs := by
  have hpos : 0 < P.modulus := by have := hP.odd; omega
  rw [from_slice_strict_spec hP] at h
  split at h
  · next hc =>
    rw [Option.some.injEq] at h
    subst h
    refine ⟨hc.1, hc.2, Nat.mod_lt _ hpos, ?_⟩
    rw [← new_mul_factor_eq hP _ hc.2, into_u256_new_mul_factor hP _ hc.2]
  · exact absurd h (by simp)

theorem to_slice_spec (P : MontParams) (x : Nat) :
    to_slice P x = beBytes 32 (into_u256 P x) := rfl

/-- `to_slice` writes the canonical value: 32 bytes whose big-endian integer is
    `into_u256 x`, in particular below the modulus -/
theorem to_slice_value (hP : P.Ok) (x : Nat) (hx : x < P.modulus) :
    (to_slice P x).length = 32 ∧ beVal (to_slice P x) = into_u256 P x ∧
    beVal (to_slice P x) < P.modulus := by
  obtain ⟨h1, -⟩ := into_u256_refines hP x hx
  have hv : beVal (to_slice P x) = into_u256 P x := by
    rw [to_slice_spec, beVal_beBytes]
    rw [pow256_32]
    exact lt_trans h1 hP.lt
  exact ⟨beBytes_length _ _, hv, hv ▸ h1⟩

/-- round trip: strict decoding of `to_slice x` gives `x` back -/
theorem from_slice_to_slice (hP : P.Ok) (x : Nat) (hx : x < P.modulus) :
    from_slice P (to_slice P x) = some x := by
  obtain ⟨hl, hv, hlt⟩ := to_slice_value hP x hx
  rw [from_slice_strict_spec hP, if_pos ⟨hl, hlt⟩, hv]
  obtain ⟨-, h2⟩ := into_u256_refines hP x hx
  rw [h2]

theorem set_bit_raw_lt (a i : Nat) (v : Bool) (ha : a < W256) : (U256.set_bit a i v).1 < W256 := by
  unfold U256.set_bit
  split
  · exact ha
  · next h =>
    cases v
    · simp only [Bool.false_eq_true, if_false]
      exact lt_of_le_of_lt Nat.and_le_left ha
    · simp only [if_true]
      rw [Nat.one_shiftLeft]
      exact Nat.or_lt_two_pow ha (Nat.pow_lt_pow_right (by decide) (by omega))

/-- `Fp::set_bit`: set the bit in the canonical value, reduce modulo the modulus -/
theorem set_bit_spec (hP : P.Ok) (x i : Nat) (v : Bool) (hx : x < P.modulus) :
    into_u256 P (set_bit P x i v) = (U256.set_bit (into_u256 P x) i v).1 % P.modulus ∧
    set_bit P x i v < P.modulus := by
  obtain ⟨h1, -⟩ := into_u256_refines hP x hx
  have hlt := set_bit_raw_lt (into_u256 P x) i v (lt_trans h1 hP.lt)
  obtain ⟨a, b⟩ := new_mul_factor_reduces hP _ hlt
  exact ⟨b, a⟩

/-- `Fp::random`: the 512-bit draw reduced modulo the modulus, stored as is (no precondition on
    the draw: the remainder part of `divrem` does not need the 512-bit bound) -/
theorem random_spec (hP : P.Ok) (draw : List Nat) :
    random P draw = Limb.value B64 (draw.take 8) % P.modulus ∧ random P draw < P.modulus := by
  have hpos : 0 < P.modulus := by have := hP.odd; omega
  have h := U512.divrem_rem (Limb.value B64 (draw.take 8)) P.modulus hpos hP.lt
  exact ⟨h, by unfold random; rw [h]; exact Nat.mod_lt _ hpos⟩

end Fp

/-! ## `Fr::from_hash` -/
namespace FrL

theorem minus_one_value : Fp.into_u256 paramsR (Fp.neg paramsR (Fp.one paramsR)) = Consts.FR - 1 := by
  decide +kernel

theorem from_hash_too_long (ha : List UInt8) (h : ha.length > 64) : from_hash ha = .ok none := by
  unfold from_hash
  rw [if_pos h]

/-- `Fr::from_hash` on at most 64 bytes: `(Ha mod (n-1)) + 1`, never panics -/
theorem from_hash_spec (ha : List UInt8) (hlen : ha.length ≤ 64) :
    ∃ y, from_hash ha = .ok (some y) ∧ y < Consts.FR ∧
      Fp.into_u256 paramsR y = beVal ha % (Consts.FR - 1) + 1 := by
  have hP := paramsR_ok
  have hmod : paramsR.modulus = Consts.FR := rfl
  have hFR : 2 < Consts.FR := by decide +kernel
  have hFRW : Consts.FR < W256 := hP.lt
  -- the padded buffer
  have hvlen : (List.replicate (64 - ha.length) (0 : UInt8) ++ ha).length = 64 := by
    rw [List.length_append, List.length_replicate]; omega
  have hfs : U512.from_slice (List.replicate (64 - ha.length) (0 : UInt8) ++ ha) = some (beVal ha) := by
    unfold U512.from_slice
    simp only [hvlen, bne_self_eq_false, Bool.false_eq_true, if_false]
    rw [beVal_append, beVal_replicate_zero, zero_mul, zero_add]
  have hrem := U512.divrem_rem (beVal ha) (Consts.FR - 1) (by omega) (by omega)
  have hrlt : beVal ha % (Consts.FR - 1) < Consts.FR - 1 := Nat.mod_lt _ (by omega)
  generalize beVal ha % (Consts.FR - 1) = rem at hrem hrlt
  obtain ⟨f, hf, hflt, hfv⟩ := Fp.new_into_u256 hP rem (by rw [hmod]; omega)
  have hone : Fp.one paramsR < paramsR.modulus := by
    show paramsR.one < _
    rw [hP.one]; exact Nat.mod_lt _ (by rw [hmod]; omega)
  obtain ⟨hadd1, hadd2⟩ := U256.add_refines f (Fp.one paramsR) paramsR.modulus hP.lt hP.gt hflt hone
  refine ⟨Fp.add paramsR f (Fp.one paramsR), ?_, hadd1, ?_⟩
  · unfold from_hash
    rw [if_neg (by omega)]
    simp only [hfs]
    show Outcome.ok (Option.map _ (Fp.new paramsR (U512.divrem (beVal ha)
      (Fp.into_u256 paramsR (Fp.neg paramsR (Fp.one paramsR)))).1.2)) = _
    rw [minus_one_value, hrem, hf]
    rfl
  · obtain ⟨hi1, hi2⟩ := Fp.into_u256_refines hP _ hadd1
    obtain ⟨-, hf2⟩ := Fp.into_u256_refines hP f hflt
    apply Fp.eq_of_mul_W256 hP hi1 (by rw [hmod]; omega)
    rw [hi2]
    show U256.add f (Fp.one paramsR) paramsR.modulus = _
    rw [hadd2]
    show (f + paramsR.one) % _ = _
    rw [hP.one, add_mul, one_mul, ← hfv]
    have e1 : f ≡ Fp.into_u256 paramsR f * W256 [MOD paramsR.modulus] := by
      unfold Nat.ModEq
      rw [Nat.mod_eq_of_lt hflt]
      exact hf2.symm
    exact e1.add (Nat.mod_modEq _ _)

end FrL

/-! ## instances at the two SM9 parameter sets, and non-vacuity -/

theorem fq_from_slice64 (bs : List UInt8) (hlen : bs.length = 64) :
    ∃ y, Fp.interpret paramsQ bs = .ok y ∧ y < Consts.FQ ∧
      Fp.into_u256 paramsQ y = beVal bs % Consts.FQ :=
  Fp.interpret_spec paramsQ_ok bs hlen

theorem fr_from_slice64 (bs : List UInt8) (hlen : bs.length = 64) :
    ∃ y, Fp.interpret paramsR bs = .ok y ∧ y < Consts.FR ∧
      Fp.into_u256 paramsR y = beVal bs % Consts.FR :=
  Fp.interpret_spec paramsR_ok bs hlen

theorem fq_from_slice32 (x : Nat) (hx : x < W256) :
    Fp.new_mul_factor paramsQ x < Consts.FQ ∧
      Fp.into_u256 paramsQ (Fp.new_mul_factor paramsQ x) = x % Consts.FQ :=
  Fp.new_mul_factor_reduces paramsQ_ok x hx

theorem fr_from_slice32 (x : Nat) (hx : x < W256) :
    Fp.new_mul_factor paramsR x < Consts.FR ∧
      Fp.into_u256 paramsR (Fp.new_mul_factor paramsR x) = x % Consts.FR :=
  Fp.new_mul_factor_reduces paramsR_ok x hx

example : ∃ y, FrL.from_hash [1, 2, 3] = .ok (some y) ∧ y < Consts.FR ∧
    Fp.into_u256 paramsR y = beVal [1, 2, 3] % (Consts.FR - 1) + 1 :=
  FrL.from_hash_spec _ (by decide)

example : Fp.into_u256 paramsR (Fp.new_mul_factor paramsR (W256 - 1)) = (W256 - 1) % Consts.FR :=
  (fr_from_slice32 _ (by decide +kernel)).2

end Sm9
