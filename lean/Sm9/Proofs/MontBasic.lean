import Sm9.Model.Mont
import Mathlib.Tactic.Ring
import Mathlib.Tactic.Linarith
import Mathlib.Data.Nat.ModEq
/-!
# Limb level refines value level: add / sub / double / halve / negate (u256.rs 106-149, 200-208)

For any modulus `m` with 2²⁵⁵ < m < 2²⁵⁶ (both SM9 moduli, `fq_range`/`fr_range`) and
operands below `m`, the carry-aware conditional subtraction returns the canonical
representative of the exact integer result.
-/
namespace Sm9
namespace U256

theorem W256_eq : W256 = 115792089237316195423570985008687907853269984665640564039457584007913129639936 := by
  decide +kernel

theorem add_spec (a b m : Nat) (hm : m < W256) (hm2 : W256 < 2 * m) (ha : a < m) (hb : b < m) :
    add a b m = (if a + b ≥ m then a + b - m else a + b) := by
  rw [W256_eq] at hm hm2
  unfold add subtract_modulus_with_carry Big.add_with_carry Big.sub_with_borrow
  simp only [W256_eq]
  by_cases h1 : a + b ≥ 115792089237316195423570985008687907853269984665640564039457584007913129639936
  · simp only [h1, decide_true, Bool.true_or, if_true]
    have : a + b ≥ m := by omega
    simp only [this, if_true]
    omega
  · simp only [h1, decide_false, Bool.false_or]
    have hs : (a + b) % 115792089237316195423570985008687907853269984665640564039457584007913129639936 = a + b := by omega
    rw [hs]
    by_cases h2 : a + b ≥ m
    · simp only [h2, decide_true, if_true]; omega
    · simp only [h2, decide_false]; simp

theorem add_refines (a b m : Nat) (hm : m < W256) (hm2 : W256 < 2 * m) (ha : a < m) (hb : b < m) :
    add a b m < m ∧ add a b m = (a + b) % m := by
  rw [add_spec a b m hm hm2 ha hb]
  split
  · next h =>
    refine ⟨by omega, ?_⟩
    rw [Nat.mod_eq_sub_mod h, Nat.mod_eq_of_lt (by omega)]
  · next h =>
    have : a + b < m := by omega
    exact ⟨this, (Nat.mod_eq_of_lt this).symm⟩

theorem sub_spec (a b m : Nat) (hm : m < W256) (ha : a < m) (hb : b < m) :
    sub a b m = (if a < b then a + m - b else a - b) := by
  rw [W256_eq] at hm
  unfold sub Big.add_with_carry Big.sub_with_borrow
  simp only [W256_eq]
  by_cases h : a < b
  · simp only [h, if_true]; omega
  · simp only [h, if_false]; omega

theorem sub_refines (a b m : Nat) (hm : m < W256) (ha : a < m) (hb : b < m) :
    sub a b m < m ∧ (sub a b m + b) % m = a := by
  rw [sub_spec a b m hm ha hb]
  split
  · next h =>
    refine ⟨by omega, ?_⟩
    have : a + m - b + b = a + m := by omega
    rw [this, Nat.add_mod_right, Nat.mod_eq_of_lt ha]
  · next h =>
    refine ⟨by omega, ?_⟩
    have : a - b + b = a := by omega
    rw [this, Nat.mod_eq_of_lt ha]

theorem neg_spec (a m : Nat) (hm : m < W256) (ha : a < m) :
    neg a m = (if a = 0 then 0 else m - a) := by
  rw [W256_eq] at hm
  unfold neg Big.sub_with_borrow
  simp only [W256_eq]
  by_cases h : a = 0
  · simp [h]
  · have : (a != 0) = true := by simp [h]
    simp only [this, if_true, h, if_false]; omega

theorem neg_refines (a m : Nat) (hm : m < W256) (ha : a < m) :
    neg a m < m ∧ (neg a m + a) % m = 0 := by
  rw [neg_spec a m hm ha]
  split
  · next h => subst h; exact ⟨by omega, by simp⟩
  · next h =>
    refine ⟨by omega, ?_⟩
    have : m - a + a = m := by omega
    rw [this, Nat.mod_self]

theorem mul2_spec (a m : Nat) (hm : m < W256) (hm2 : W256 < 2 * m) (ha : a < m) :
    mul2 a m = (if 2 * a ≥ m then 2 * a - m else 2 * a) := by
  rw [W256_eq] at hm hm2
  unfold mul2 subtract_modulus_with_carry Big.mul2 Big.sub_with_borrow
  simp only [W256_eq]
  by_cases h1 : 2 * a ≥ 115792089237316195423570985008687907853269984665640564039457584007913129639936
  · simp only [h1, decide_true, Bool.true_or, if_true]
    have : 2 * a ≥ m := by omega
    simp only [this, if_true]
    omega
  · simp only [h1, decide_false, Bool.false_or]
    have hs : (2 * a) % 115792089237316195423570985008687907853269984665640564039457584007913129639936 = 2 * a := by omega
    rw [hs]
    by_cases h2 : 2 * a ≥ m
    · simp only [h2, decide_true, if_true]; omega
    · simp only [h2, decide_false]; simp

theorem mul2_refines (a m : Nat) (hm : m < W256) (hm2 : W256 < 2 * m) (ha : a < m) :
    mul2 a m < m ∧ mul2 a m = (2 * a) % m := by
  rw [mul2_spec a m hm hm2 ha]
  split
  · next h =>
    refine ⟨by omega, ?_⟩
    rw [Nat.mod_eq_sub_mod h, Nat.mod_eq_of_lt (by omega)]
  · next h =>
    have : 2 * a < m := by omega
    exact ⟨this, (Nat.mod_eq_of_lt this).symm⟩

end U256
end Sm9
