import Sm9.Proofs.MillerLines
import Sm9.Proofs.MillerSpec
import Sm9.Proofs.Sqrt
/-!
# The numerator/denominator line evaluations of `G2::miller_loop` are the textbook lines

`G2m.eval_g_tangent T P` and `G2m.eval_g_line T R P` (pairings.rs, GmSSL style) return a pair
`(num, den)` of elements of `Fq12`.  With `x = X/Z²`, `y = Y/Z³` the affine coordinates of the
Jacobian twist point `T`, `λ` the slope (tangent at `T`, resp. chord through `T` and `R`) and
`lineSpec x y λ xP yP` the textbook line value of `Sm9/Proofs/MillerLines.lean`:

  `den = b₁ · w³`  with  `b₁ ∈ Fq2ˣ`   and   **`num = −(den · lineSpec x y λ xP yP)`**.

So `num/den = −lineSpec`: the factor `κ` of the task statement is exactly `−1 ∈ Fq`; no power
of `w` survives in the quotient.  (`b₁ = Z³Y` for the tangent, `(Z_R²X − Z²X_R)·Z·Z_R⁴` for the
chord; `R` may be any Jacobian representative — the Frobenius points `point_pi1`, `point_pi2` of
the code have `z = π₁`, `π₂`.)

* `eval_g_tangent_line`, `eval_g_line_line` — the two statements above.
* `point_pi1_affine`, `point_pi2_affine` — the affine coordinates of `point_pi1 (x, y, 1)` are
  `frobTwist (x, y)`, those of `point_pi2 (x, y, 1)` are `frobTwist (frobTwist (x, y))`.
-/
namespace Sm9

set_option maxRecDepth 100000

/-- `Fq2::div2` is halving -/
theorem Fq2.div2_eq (a : Fq2) : a.div2 = a / 2 := by
  have h2 := Fq2.two_ne_zero
  have h : a.div2 + a.div2 = a := by
    ext
    · exact Fq.div2_spec a.c0
    · exact Fq.div2_spec a.c1
  field_simp
  linear_combination h

namespace Miller

set_option linter.unnecessarySeqFocus false in
/-- the generic shape of both line lemmas: a numerator `a0 + a1·v + a4·w²` against the
    denominator `b1·v` -/
theorem naf_line_of_coeffs (a0 a1 a4 b1 xT yT lam : Fq2) (xP yP : Fq)
    (h0 : a0 = b1 * (yT - lam * xT)) (h1 : a1 = -(b1 * Fq2.new yP 0))
    (h4 : a4 = b1 * lam * Fq2.new xP 0) :
    (⟨⟨a0, a1⟩, 0, ⟨a4, 0⟩⟩ : Fq12) = -((⟨⟨0, b1⟩, 0, 0⟩ : Fq12) * lineSpec xT yT lam xP yP) := by
  have hi := Fq2.i_ne_zero
  unfold lineSpec
  subst h0 h1 h4
  ext : 2 <;> simp [Fq4.v] <;> field_simp <;> ring

theorem naf_den_ne_zero (b1 : Fq2) (h : b1 ≠ 0) : (⟨⟨0, b1⟩, 0, 0⟩ : Fq12) ≠ 0 := by
  intro h0
  apply h
  have := congrArg (fun x : Fq12 => x.c0.c1) h0
  exact this

/-- the denominator is `b₁·w³` -/
theorem naf_den_eq (b1 : Fq2) : (⟨⟨0, b1⟩, 0, 0⟩ : Fq12) = Fq12.ofFq2 b1 * Fq12.w ^ 3 := by
  rw [Fq12.w_pow3]
  ext : 2 <;> simp [Fq12.ofFq2_apply]

/-! ## the tangent -/

theorem eval_g_tangent_eq (T : G2) (P : G1) :
    G2m.eval_g_tangent T P =
      (⟨⟨T.y * T.y - (T.x * T.x * T.x * 3) / 2, -(T.z * T.z * T.z * T.y * Fq2.new P.y 0)⟩, 0,
         ⟨(T.z * T.z * (T.x * T.x) * Fq2.new P.x 0 * 3) / 2, 0⟩⟩,
       ⟨⟨0, T.z * T.z * T.z * T.y⟩, 0, 0⟩) := by
  unfold G2m.eval_g_tangent
  simp only [Fq2.squared_eq_mul, Fq2.scale_eq, Fq2.triple_eq, Fq2.div2_eq, Fq4.new]
  refine Prod.ext ?_ rfl
  show (⟨⟨_, _⟩, Fq4.zero, ⟨_, Fq2.zero⟩⟩ : Fq12) = _
  congr 2
  · congr 2; ring
  · congr 1; ring

/-- **`eval_g_tangent` is the tangent line**, as a fraction: for a Jacobian `T = (X, Y, Z)` with
    `Z ≠ 0`, `Y ≠ 0`, affine `(x, y) = (X/Z², Y/Z³)`, slope `λ = 3x²/(2y)`:
    `den = Z³Y·w³ ≠ 0` and `num = −den · lineSpec x y λ xP yP`. -/
theorem eval_g_tangent_line (T : G2) (P : G1) (hz : T.z ≠ 0) (hy : T.y ≠ 0) :
    (G2m.eval_g_tangent T P).2 ≠ 0 ∧
    (G2m.eval_g_tangent T P).2 = Fq12.ofFq2 (T.z * T.z * T.z * T.y) * Fq12.w ^ 3 ∧
    (G2m.eval_g_tangent T P).1 = -((G2m.eval_g_tangent T P).2 *
      lineSpec (T.x / T.z ^ 2) (T.y / T.z ^ 3) (3 * (T.x / T.z ^ 2) ^ 2 / (2 * (T.y / T.z ^ 3))) P.x P.y) := by
  have h2 := Fq2.two_ne_zero
  rw [eval_g_tangent_eq]
  refine ⟨?_, naf_den_eq _, ?_⟩
  · exact naf_den_ne_zero _ (mul_ne_zero (mul_ne_zero (mul_ne_zero hz hz) hz) hy)
  · apply naf_line_of_coeffs
    · field_simp
    · rfl
    · field_simp

/-! ## the chord -/

theorem eval_g_line_eq (T R : G2) (P : G1) :
    G2m.eval_g_line T R P =
      (⟨⟨(R.z * R.z * T.x - T.z * T.z * R.x) * T.z * R.z * R.y
            - (R.z * R.z * R.z * T.y - T.z * T.z * T.z * R.y) * R.x * R.z,
          -((R.z * R.z * T.x - T.z * T.z * R.x) * T.z * R.z * (R.z * R.z * R.z) * Fq2.new P.y 0)⟩, 0,
         ⟨R.z * R.z * R.z * (R.z * R.z * R.z * T.y - T.z * T.z * T.z * R.y) * Fq2.new P.x 0, 0⟩⟩,
       ⟨⟨0, (R.z * R.z * T.x - T.z * T.z * R.x) * T.z * R.z * (R.z * R.z * R.z)⟩, 0, 0⟩) := by
  unfold G2m.eval_g_line
  simp only [Fq2.squared_eq_mul, Fq2.scale_eq, Fq4.new]
  rfl

theorem naf_chord_algebra {K : Type} [Field K] (X Y Z Xr Yr Zr : K) (hz : Z ≠ 0) (hzr : Zr ≠ 0)
    (hd : Zr * Zr * X - Z * Z * Xr ≠ 0) :
    (Zr * Zr * X - Z * Z * Xr) * Z * Zr * Yr - (Zr * Zr * Zr * Y - Z * Z * Z * Yr) * Xr * Zr
      = (Zr * Zr * X - Z * Z * Xr) * Z * Zr * (Zr * Zr * Zr) *
          (Y / Z ^ 3 - (Yr / Zr ^ 3 - Y / Z ^ 3) / (Xr / Zr ^ 2 - X / Z ^ 2) * (X / Z ^ 2)) ∧
    Zr * Zr * Zr * (Zr * Zr * Zr * Y - Z * Z * Z * Yr)
      = (Zr * Zr * X - Z * Z * Xr) * Z * Zr * (Zr * Zr * Zr) *
          ((Yr / Zr ^ 3 - Y / Z ^ 3) / (Xr / Zr ^ 2 - X / Z ^ 2)) := by
  have e : Xr / Zr ^ 2 - X / Z ^ 2 = -(Zr * Zr * X - Z * Z * Xr) / (Z ^ 2 * Zr ^ 2) := by
    field_simp; ring
  rw [e]
  obtain ⟨D, hD⟩ : ∃ D, D = Zr * Zr * X - Z * Z * Xr := ⟨_, rfl⟩
  rw [← hD] at hd ⊢
  constructor
  · field_simp
    rw [hD]; ring
  · field_simp
    ring

/-- **`eval_g_line` is the chord**, as a fraction: for Jacobian `T`, `R` on the twist (any
    representatives, `Z_T, Z_R ≠ 0`) with `x(T) ≠ x(R)` and chord slope `λ`:
    `den = b₁·w³ ≠ 0` and `num = −den · lineSpec x_T y_T λ xP yP`. -/
theorem eval_g_line_line (T R : G2) (P : G1) (hz : T.z ≠ 0) (hRz : R.z ≠ 0)
    (hx : T.x / T.z ^ 2 ≠ R.x / R.z ^ 2) :
    (G2m.eval_g_line T R P).2 ≠ 0 ∧
    (G2m.eval_g_line T R P).2
      = Fq12.ofFq2 ((R.z * R.z * T.x - T.z * T.z * R.x) * T.z * R.z * (R.z * R.z * R.z)) * Fq12.w ^ 3 ∧
    (G2m.eval_g_line T R P).1 = -((G2m.eval_g_line T R P).2 *
      lineSpec (T.x / T.z ^ 2) (T.y / T.z ^ 3)
        ((R.y / R.z ^ 3 - T.y / T.z ^ 3) / (R.x / R.z ^ 2 - T.x / T.z ^ 2)) P.x P.y) := by
  have hd : R.z * R.z * T.x - T.z * T.z * R.x ≠ 0 := by
    intro h; apply hx
    field_simp
    linear_combination h
  obtain ⟨a1, a2⟩ := naf_chord_algebra T.x T.y T.z R.x R.y R.z hz hRz hd
  rw [eval_g_line_eq]
  refine ⟨?_, naf_den_eq _, ?_⟩
  · exact naf_den_ne_zero _ (mul_ne_zero (mul_ne_zero (mul_ne_zero hd hz) hRz)
      (mul_ne_zero (mul_ne_zero hRz hRz) hRz))
  · apply naf_line_of_coeffs
    · exact a1
    · rfl
    · rw [a2]

/-! ## the Frobenius points -/

theorem pi2_eq : Fq2.new pi2 0 = pi1F ^ 2 := by decide +kernel

theorem one_scale (k : Fq) : (1 : Fq2).scale k = Fq2.new k 0 := by
  rw [Fq2.scale_eq, one_mul]

theorem one_unitary_inverse_naf : (1 : Fq2).unitary_inverse = 1 := by decide +kernel

theorem point_pi1_eq (x y : Fq2) :
    G2m.point_pi1 (⟨x, y, 1⟩ : G2) = ⟨x.unitary_inverse, y.unitary_inverse, pi1F⟩ := by
  unfold G2m.point_pi1 G.new
  simp only [one_unitary_inverse_naf, one_scale]
  rfl

theorem point_pi2_eq (x y : Fq2) :
    G2m.point_pi2 (⟨x, y, 1⟩ : G2) = ⟨x, y, pi1F ^ 2⟩ := by
  unfold G2m.point_pi2 G.new
  simp only [one_scale, pi2_eq]

/-- `point_pi1` of an affine point is `π` (`frobTwist`) in affine coordinates (`z = π₁ ≠ 0, 1`) -/
theorem point_pi1_affine (x y : Fq2) :
    (G2m.point_pi1 (⟨x, y, 1⟩ : G2)).z ≠ 0 ∧
    ((G2m.point_pi1 (⟨x, y, 1⟩ : G2)).x / (G2m.point_pi1 (⟨x, y, 1⟩ : G2)).z ^ 2,
     (G2m.point_pi1 (⟨x, y, 1⟩ : G2)).y / (G2m.point_pi1 (⟨x, y, 1⟩ : G2)).z ^ 3) = frobTwist (x, y) := by
  rw [point_pi1_eq]
  refine ⟨pi1F_ne_zero, ?_⟩
  unfold frobTwist
  simp only [div_eq_mul_inv, inv_pow]

/-- `point_pi2` of an affine point is `π²` in affine coordinates (`z = π₂ = π₁²`) -/
theorem point_pi2_affine (x y : Fq2) :
    (G2m.point_pi2 (⟨x, y, 1⟩ : G2)).z ≠ 0 ∧
    ((G2m.point_pi2 (⟨x, y, 1⟩ : G2)).x / (G2m.point_pi2 (⟨x, y, 1⟩ : G2)).z ^ 2,
     (G2m.point_pi2 (⟨x, y, 1⟩ : G2)).y / (G2m.point_pi2 (⟨x, y, 1⟩ : G2)).z ^ 3)
      = frobTwist (frobTwist (x, y)) := by
  have hp := pi1F_ne_zero
  rw [point_pi2_eq]
  refine ⟨pow_ne_zero _ hp, ?_⟩
  have hc : pi1F.unitary_inverse = pi1F := by decide +kernel
  have hci : (pi1F⁻¹).unitary_inverse = pi1F⁻¹ := by
    have := map_inv₀ conj pi1F
    rw [conj_apply, conj_apply, hc] at this
    exact this
  have hcc : ∀ a : Fq2, a.unitary_inverse.unitary_inverse = a := by
    intro a; ext <;> simp [Fq2.unitary_inverse]
  unfold frobTwist
  simp only
  rw [← conj_apply (x.unitary_inverse * _), ← conj_apply (y.unitary_inverse * _)]
  simp only [map_mul, map_pow, conj_apply, hcc, hci]
  refine Prod.ext ?_ ?_ <;> simp only <;> field_simp

/-- satisfiability of the hypotheses of the line lemmas: the generator and its double -/
example : (G.one : G2).z ≠ 0 ∧ (G.one : G2).y ≠ 0 := by decide +kernel

end Miller
end Sm9
