import Sm9.Proofs.JacobianInst2
import Sm9.Proofs.Identity
/-!
# Observations depend only on the denoted group element
`to_affine` (and everything computed from it: encodings, `pairing`) is a function of
`toAff`; the fast path normalises first, so it too is a function of the group elements.
Also: the subgroup test of `AffineG2::new` is `r • P = 0`.
-/
set_option maxRecDepth 100000
namespace Sm9
open WeierstrassCurve

theorem G1.to_affine_congr (P Q : G1) (hP : G1.Valid P) (hQ : G1.Valid Q) (h : G1.toAff P = G1.toAff Q) :
    P.to_affine = Q.to_affine := by
  rw [G1.to_affine_spec P, G1.to_affine_spec Q]
  by_cases hz1 : P.z = 0
  · have hq : Q.z = 0 := by
      by_contra hz2
      rw [G1.toAff_zero P hz1, G1.toAff_some Q hz2 (hQ.resolve_left hz2)] at h
      exact Affine.Point.some_ne_zero _ h.symm
    rw [if_pos hz1, if_pos hq]
  · have hz2 : Q.z ≠ 0 := by
      intro hz2
      rw [G1.toAff_zero Q hz2, G1.toAff_some P hz1 (hP.resolve_left hz1)] at h
      exact Affine.Point.some_ne_zero _ h
    rw [if_neg hz1, if_neg hz2]
    rw [G1.toAff_some P hz1 (hP.resolve_left hz1), G1.toAff_some Q hz2 (hQ.resolve_left hz2)] at h
    have := Affine.Point.some.inj h
    rw [this.1, this.2]

theorem G2.to_affine_congr (P Q : G2) (hP : G2.Valid P) (hQ : G2.Valid Q) (h : G2.toAff P = G2.toAff Q) :
    P.to_affine = Q.to_affine := by
  rw [G2.to_affine_spec P, G2.to_affine_spec Q]
  by_cases hz1 : P.z = 0
  · have hq : Q.z = 0 := by
      by_contra hz2
      rw [G2.toAff_zero P hz1, G2.toAff_some Q hz2 (hQ.resolve_left hz2)] at h
      exact Affine.Point.some_ne_zero _ h.symm
    rw [if_pos hz1, if_pos hq]
  · have hz2 : Q.z ≠ 0 := by
      intro hz2
      rw [G2.toAff_zero Q hz2, G2.toAff_some P hz1 (hP.resolve_left hz1)] at h
      exact Affine.Point.some_ne_zero _ h
    rw [if_neg hz1, if_neg hz2]
    rw [G2.toAff_some P hz1 (hP.resolve_left hz1), G2.toAff_some Q hz2 (hQ.resolve_left hz2)] at h
    have := Affine.Point.some.inj h
    rw [this.1, this.2]

/-- `pairing` reads its operands only through `to_affine` -/
theorem pairing_congr (p p' : G1) (qv qv' : G2) (h1 : p.to_affine = p'.to_affine) (h2 : qv.to_affine = qv'.to_affine) :
    Api.pairing p qv = Api.pairing p' qv' := by
  unfold Api.pairing Pairings.pairing
  rw [h1, h2]

theorem G1.z_zero_of_to_affine_none (p : G1) (h : p.to_affine = none) : p.z = 0 := by
  rw [G1.to_affine_spec] at h
  by_contra hz
  rw [if_neg hz] at h
  cases h
theorem G2.z_zero_of_to_affine_none (p : G2) (h : p.to_affine = none) : p.z = 0 := by
  rw [G2.to_affine_spec] at h
  by_contra hz
  rw [if_neg hz] at h
  cases h

/-- `fast_pairing` normalises first: it too depends only on `to_affine` of its operands
    (identity operands short-circuit to one in any representation) -/
theorem fast_pairing_congr (p p' : G1) (qv qv' : G2) (h1 : p.to_affine = p'.to_affine)
    (h2 : qv.to_affine = qv'.to_affine) : Api.fast_pairing p qv = Api.fast_pairing p' qv' := by
  cases hp : p.to_affine with
  | none =>
    rw [fast_pairing_left_identity p qv (G1.z_zero_of_to_affine_none p hp),
      fast_pairing_left_identity p' qv' (G1.z_zero_of_to_affine_none p' (h1 ▸ hp))]
  | some a =>
    cases hq : qv.to_affine with
    | none =>
      rw [fast_pairing_right_identity p qv (G2.z_zero_of_to_affine_none qv hq),
        fast_pairing_right_identity p' qv' (G2.z_zero_of_to_affine_none qv' (h2 ▸ hq))]
    | some b =>
      unfold Api.fast_pairing Api.normalize
      rw [← h1, ← h2, hp, hq]

/-- the same for the prepared path -/
theorem prepared_pairing_congr (p p' : G1) (qv qv' : G2) (h1 : p.to_affine = p'.to_affine)
    (h2 : qv.to_affine = qv'.to_affine) :
    (do let pr ← Api.prepare qv; Api.preparedPairing pr p) = (do let pr ← Api.prepare qv'; Api.preparedPairing pr p') := by
  cases hp : p.to_affine with
  | none =>
    rw [prepared_pairing_left_identity p qv (G1.z_zero_of_to_affine_none p hp),
      prepared_pairing_left_identity p' qv' (G1.z_zero_of_to_affine_none p' (h1 ▸ hp))]
  | some a =>
    cases hq : qv.to_affine with
    | none =>
      rw [prepared_pairing_right_identity p qv (G2.z_zero_of_to_affine_none qv hq),
        prepared_pairing_right_identity p' qv' (G2.z_zero_of_to_affine_none qv' (h2 ▸ hq))]
    | some b =>
      unfold Api.prepare Api.preparedPairing Api.normalize
      rw [← h1, ← h2, hp, hq]

/-- the subgroup test of `AffineG2::new`, `(p·(r−1)) + p == O`, is `r • P = 0` -/
theorem G2.subgroup_test_iff (x y : Fq2) (h : y * y = x * x * x + b2) :
    G.eq ((({ x := x, y := y, z := 1 } : G2).mul (-(1 : Fr))).add { x := x, y := y, z := 1 }) G.zero = true
      ↔ r • G2.toAff { x := x, y := y, z := 1 } = 0 := by
  have hv := G2.valid_of_equation x y h
  have hm := G2.mul_valid _ hv (-(1 : Fr))
  have hz : G2.Valid (G.zero : G2) := Or.inl rfl
  rw [G2.eq_iff _ _ (G2.add_valid _ _ hm hv) hz, G2.add_correct _ _ hm hv, G2.mul_correct _ hv,
    G2.toAff_zero (G.zero : G2) rfl]
  have hvl : (-(1 : Fr)).val = r - 1 := by decide +kernel
  rw [hvl]
  have hr1 : r - 1 + 1 = r := by decide +kernel
  constructor
  · intro h'
    calc r • _ = (r - 1 + 1) • G2.toAff { x := x, y := y, z := 1 } := by rw [hr1]
      _ = (r - 1) • G2.toAff { x := x, y := y, z := 1 } + G2.toAff { x := x, y := y, z := 1 } := by
          rw [add_smul, one_smul]
      _ = 0 := h'
  · intro h'
    calc (r - 1) • G2.toAff { x := x, y := y, z := 1 } + G2.toAff { x := x, y := y, z := 1 }
        = (r - 1 + 1) • G2.toAff { x := x, y := y, z := 1 } := by rw [add_smul, one_smul]
      _ = 0 := by rw [hr1]; exact h'

end Sm9
