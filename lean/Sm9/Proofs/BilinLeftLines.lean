import Sm9.Proofs.ChainIndepSm9
import Sm9.Proofs.MillerFrobEquivariant
/-!
# Reciprocity of two lines on `y² = x³ + b`, and the per-line step of left additivity
-/
namespace Sm9
namespace Miller
open WeierstrassCurve Polynomial

set_option maxRecDepth 100000

/-- the final exponent -/
local notation "E" => ((q ^ 12 - 1) / r)

/-- `(x, y)` is a (non-singular) point of `y² = x³ + b`; stated in a generic context so that over `Fq` the
    ring structure is the one derived from `Field Fq`, as in `G1.Valid`/`G1.toAff` -/
abbrev _root_.Sm9.Jac.NS {F : Type} [Field F] (b x y : F) : Prop := (Jac.Wb b).Nonsingular x y
/-- Mathlib's group of points of `y² = x³ + b` -/
abbrev _root_.Sm9.Jac.Pt {F : Type} [Field F] (b : F) : Type := (Jac.Wb b).Point

/-! ## (R), (V): generic field lemmas -/

section core
variable {K : Type} [Field K]

/-- **(R)** reciprocity of two lines -/
theorem line_reciprocity (β lam c g d ξ1 ξ2 ξ3 ζ1 ζ2 ζ3 : K)
    (hL : ∀ t, (lam * t + c) ^ 2 - (t ^ 3 + β) = -((t - ξ1) * (t - ξ2) * (t - ξ3)))
    (hG : ∀ t, (g * t + d) ^ 2 - (t ^ 3 + β) = -((t - ζ1) * (t - ζ2) * (t - ζ3))) :
    ((lam - g) * ξ1 + (c - d)) * ((lam - g) * ξ2 + (c - d)) * ((lam - g) * ξ3 + (c - d))
      = -(((g - lam) * ζ1 + (d - c)) * ((g - lam) * ζ2 + (d - c)) * ((g - lam) * ζ3 + (d - c))) := by
  obtain ⟨δ, rfl⟩ : ∃ δ, lam = g + δ := ⟨lam - g, by ring⟩
  by_cases hδ : δ = 0
  · subst hδ; ring
  · obtain ⟨X₀, rfl⟩ : ∃ X₀, d = c + δ * X₀ := ⟨(d - c) / δ, by field_simp; ring⟩
    linear_combination (-δ ^ 3) * hL X₀ + δ ^ 3 * hG X₀

/-- **(★) before reduction**: `L(B₁)L(B₂)·G(−A₃)·∏(ζ₃−ξᵢ) = −G(A₁)G(A₂)·L(−B₃)·∏(ξ₃−ζⱼ)` -/
theorem star_core (β lam c g d ξ1 ξ2 ξ3 η1 η2 η3 ζ1 ζ2 ζ3 θ1 θ2 θ3 : K)
    (hL : ∀ t, (lam * t + c) ^ 2 - (t ^ 3 + β) = -((t - ξ1) * (t - ξ2) * (t - ξ3)))
    (hG : ∀ t, (g * t + d) ^ 2 - (t ^ 3 + β) = -((t - ζ1) * (t - ζ2) * (t - ζ3)))
    (e1 : η1 = lam * ξ1 + c) (e2 : η2 = lam * ξ2 + c) (e3 : η3 = lam * ξ3 + c)
    (f1 : θ1 = g * ζ1 + d) (f2 : θ2 = g * ζ2 + d) (f3 : θ3 = g * ζ3 + d) :
    (θ1 - lam * ζ1 - c) * (θ2 - lam * ζ2 - c) * (-η3 - g * ξ3 - d) * ((ζ3 - ξ1) * (ζ3 - ξ2) * (ζ3 - ξ3))
      = -((η1 - g * ξ1 - d) * (η2 - g * ξ2 - d) * (-θ3 - lam * ζ3 - c) * ((ξ3 - ζ1) * (ξ3 - ζ2) * (ξ3 - ζ3))) := by
  have hR := line_reciprocity β lam c g d ξ1 ξ2 ξ3 ζ1 ζ2 ζ3 hL hG
  have hVL : (θ3 - lam * ζ3 - c) * (-θ3 - lam * ζ3 - c) = -((ζ3 - ξ1) * (ζ3 - ξ2) * (ζ3 - ξ3)) := by
    rw [f3]; linear_combination hL ζ3 - hG ζ3
  have hVG : (η3 - g * ξ3 - d) * (-η3 - g * ξ3 - d) = -((ξ3 - ζ1) * (ξ3 - ζ2) * (ξ3 - ζ3)) := by
    rw [e3]; linear_combination hG ξ3 - hL ξ3
  have hR' : (η1 - g * ξ1 - d) * (η2 - g * ξ2 - d) * (η3 - g * ξ3 - d)
      = -((θ1 - lam * ζ1 - c) * (θ2 - lam * ζ2 - c) * (θ3 - lam * ζ3 - c)) := by
    rw [e1, e2, e3, f1, f2, f3]; linear_combination hR
  generalize (θ1 - lam * ζ1 - c) * (θ2 - lam * ζ2 - c) = a at *
  generalize (η1 - g * ξ1 - d) * (η2 - g * ξ2 - d) = g12 at *
  generalize (ζ3 - ξ1) * (ζ3 - ξ2) * (ζ3 - ξ3) = VL at *
  generalize (ξ3 - ζ1) * (ξ3 - ζ2) * (ξ3 - ζ3) = VG at *
  generalize (θ3 - lam * ζ3 - c) = l3 at *
  generalize (-θ3 - lam * ζ3 - c) = l3' at *
  generalize (η3 - g * ξ3 - d) = g3 at *
  generalize (-η3 - g * ξ3 - d) = g3' at *
  linear_combination (a * g3') * hVL - g3' * l3' * hR' + (l3' * g12) * hVG

end core

/-! ## the line through two points of `y² = x³ + b`: the facts from Mathlib, mapped to a field `K` -/

section genline
variable {F : Type} [Field F] [DecidableEq F] {K : Type} [Field K] (φ : F →+* K) (b : F)

theorem line_poly {x1 y1 x2 y2 : F} (h1 : (Jac.Wb b).Equation x1 y1) (h2 : (Jac.Wb b).Equation x2 y2)
    (hxy : ¬(x1 = x2 ∧ y1 = (Jac.Wb b).negY x2 y2)) (t : K) :
    (φ ((Jac.Wb b).slope x1 x2 y1 y2) * (t - φ x1) + φ y1) ^ 2 - (t ^ 3 + φ b)
      = -((t - φ x1) * (t - φ x2) *
          (t - φ ((Jac.Wb b).addX x1 x2 ((Jac.Wb b).slope x1 x2 y1 y2)))) := by
  have h := congrArg (Polynomial.eval₂ φ t) (Affine.addPolynomial_slope h1 h2 hxy)
  rw [Affine.addPolynomial_eq] at h
  generalize (Jac.Wb b).slope x1 x2 y1 y2 = l at h ⊢
  generalize (Jac.Wb b).addX x1 x2 l = x3 at h ⊢
  simp only [Cubic.toPoly, Jac.Wb, eval₂_neg, eval₂_add, eval₂_mul, eval₂_sub, eval₂_pow, eval₂_X,
    eval₂_C, eval₂_one, eval₂_zero, eval₂_ofNat, map_neg, map_add, map_sub, map_mul, map_pow, map_one, map_zero,
    map_ofNat] at h
  linear_combination h

theorem line_second {x1 y1 x2 y2 : F} (h1 : (Jac.Wb b).Equation x1 y1) (h2 : (Jac.Wb b).Equation x2 y2)
    (hxy : ¬(x1 = x2 ∧ y1 = (Jac.Wb b).negY x2 y2)) :
    y2 = (Jac.Wb b).slope x1 x2 y1 y2 * (x2 - x1) + y1 := by
  by_cases hx : x1 = x2
  · have hy := Affine.Y_eq_of_Y_ne h1 h2 hx (fun h => hxy ⟨hx, h⟩)
    rw [hx, hy, sub_self, mul_zero, zero_add]
  · rw [Affine.slope_of_X_ne hx]
    have hd : x1 - x2 ≠ 0 := sub_ne_zero.mpr hx
    field_simp
    ring

omit [DecidableEq F] in
theorem wb_addY (x1 x2 y1 l : F) :
    (Jac.Wb b).addY x1 x2 y1 l = -(l * ((Jac.Wb b).addX x1 x2 l - x1) + y1) := by
  simp [Affine.addY, Affine.negAddY, Affine.negY, Jac.Wb]

/-- the line `y = Γ x + D` through `P1`, `P2`, `−P3` (`P1 + P2 = P3`), seen in `K` -/
structure LineData (x1 y1 x2 y2 x3 y3 Γ D : F) : Prop where
  poly : ∀ s : K, (φ Γ * s + φ D) ^ 2 - (s ^ 3 + φ b) = -((s - φ x1) * (s - φ x2) * (s - φ x3))
  p1 : φ y1 = φ Γ * φ x1 + φ D
  p2 : φ y2 = φ Γ * φ x2 + φ D
  p3 : -φ y3 = φ Γ * φ x3 + φ D

theorem lineData_of_add {x1 y1 x2 y2 x3 y3 : F} (h1 : (Jac.Wb b).Nonsingular x1 y1)
    (h2 : (Jac.Wb b).Nonsingular x2 y2) (h3 : (Jac.Wb b).Nonsingular x3 y3)
    (hadd : (Affine.Point.some x1 y1 h1 : (Jac.Wb b).Point) + Affine.Point.some x2 y2 h2
      = Affine.Point.some x3 y3 h3) :
    ∃ Γ D : F, LineData φ b x1 y1 x2 y2 x3 y3 Γ D := by
  have hxy : ¬(x1 = x2 ∧ y1 = (Jac.Wb b).negY x2 y2) := by
    intro h
    rw [Affine.Point.add_of_Y_eq h.1 h.2] at hadd
    exact Affine.Point.some_ne_zero _ hadd.symm
  rw [Affine.Point.add_some hxy] at hadd
  obtain ⟨ex, ey⟩ := Affine.Point.some.inj hadd
  refine ⟨(Jac.Wb b).slope x1 x2 y1 y2, y1 - (Jac.Wb b).slope x1 x2 y1 y2 * x1, ?_, ?_, ?_, ?_⟩
  · intro s
    have h := line_poly φ b h1.left h2.left hxy s
    rw [ex] at h
    simp only [map_sub, map_mul]
    linear_combination h
  · simp only [map_sub, map_mul]; ring
  · have h := congrArg φ (line_second b h1.left h2.left hxy)
    simp only [map_add, map_sub, map_mul] at h ⊢
    linear_combination h
  · rw [← ey, ← ex, wb_addY]
    simp only [map_neg, map_add, map_sub, map_mul]
    ring

end genline

/-! ## the SM9 instance: everything on the twist `y² = x³ + b2` over `Fq12` -/

/-- `w³·G(ψ(U))` for the line `G : y = Γx + D` of `E(Fq)` and a twist point `U = (x, y)`: the line
    `y = Γw·x + Dw³` of the twist (over `Fq12`) through `ψ⁻¹(P1)`, `ψ⁻¹(P2)`, evaluated at `U` -/
noncomputable def hG (Γ D : Fq) (x y : Fq2) : Fq12 :=
  Fq12.ofFq2 y - Fq12.ofFq Γ * Fq12.w * Fq12.ofFq2 x - Fq12.ofFq D * Fq12.w ^ 3

theorem w3_lineSpec (xT yT lam : Fq2) (xP yP : Fq) :
    Fq12.w ^ 3 * lineSpec xT yT lam xP yP
      = evY yP - Fq12.ofFq2 lam * evX xP - Fq12.ofFq2 (yT - lam * xT) := by
  rw [lineSpec_eq_w]
  unfold evX evY
  have hw := w_ne_zero
  simp only [map_sub, map_mul]
  field_simp
  ring

theorem vert'_pow_final (xP : Fq) (x : Fq2) (hx : x ≠ 0) : (Fq12.ofFq2 x - evX xP) ^ E = 1 := by
  rw [← neg_sub, neg_pow, neg_one_pow_final, one_mul]
  exact vert_pow_final xP x (vert_ne_zero xP x hx)

theorem hG_ne_zero (Γ D : Fq) (x y : Fq2) (hy : y ≠ 0) : hG Γ D x y ≠ 0 := by
  intro h
  apply hy
  have h' := congrArg (fun z : Fq12 => z.c0.c0) h
  unfold hG at h'
  rw [Fq12.w_pow3] at h'
  simpa [Fq12.ofFq2_apply, Fq12.ofFq_apply, Fq12.w] using h'

section sm9
variable {x1 y1 x2 y2 x3 y3 Γ D : Fq} (hd : LineData Fq12.ofFq b1 x1 y1 x2 y2 x3 y3 Γ D)
include hd

theorem polyT (t : Fq12) :
    (Fq12.ofFq Γ * Fq12.w * t + Fq12.ofFq D * Fq12.w ^ 3) ^ 2 - (t ^ 3 + Fq12.ofFq2 b2)
      = -((t - evX x1) * (t - evX x2) * (t - evX x3)) := by
  obtain ⟨s, rfl⟩ : ∃ s, t = s * Fq12.w ^ 2 :=
    ⟨t * (Fq12.w ^ 2)⁻¹, by have := w_ne_zero; field_simp⟩
  unfold evX
  linear_combination (Fq12.w ^ 6) * hd.poly s + b1_w6

/-- (★) before the final exponentiation -/
theorem star_line {xT yT xS yS : Fq2} (hT : (Jac.Wb b2).Equation xT yT) (hS : (Jac.Wb b2).Equation xS yS)
    (hxy : ¬(xT = xS ∧ yT = (Jac.Wb b2).negY xS yS)) :
    (Fq12.w ^ 3 * lineSpec xT yT ((Jac.Wb b2).slope xT xS yT yS) x1 y1)
      * (Fq12.w ^ 3 * lineSpec xT yT ((Jac.Wb b2).slope xT xS yT yS) x2 y2)
      * hG Γ D ((Jac.Wb b2).addX xT xS ((Jac.Wb b2).slope xT xS yT yS))
          ((Jac.Wb b2).addY xT xS yT ((Jac.Wb b2).slope xT xS yT yS))
      * ((evX x3 - Fq12.ofFq2 xT) * (evX x3 - Fq12.ofFq2 xS)
          * (evX x3 - Fq12.ofFq2 ((Jac.Wb b2).addX xT xS ((Jac.Wb b2).slope xT xS yT yS))))
    = -(hG Γ D xT yT * hG Γ D xS yS
      * (Fq12.w ^ 3 * lineSpec xT yT ((Jac.Wb b2).slope xT xS yT yS) x3 y3)
      * ((Fq12.ofFq2 ((Jac.Wb b2).addX xT xS ((Jac.Wb b2).slope xT xS yT yS)) - evX x1)
          * (Fq12.ofFq2 ((Jac.Wb b2).addX xT xS ((Jac.Wb b2).slope xT xS yT yS)) - evX x2)
          * (Fq12.ofFq2 ((Jac.Wb b2).addX xT xS ((Jac.Wb b2).slope xT xS yT yS)) - evX x3))) := by
  have hL := line_poly Fq12.ofFq2 b2 hT hS hxy
  have h2 := congrArg Fq12.ofFq2 (line_second b2 hT hS hxy)
  rw [wb_addY]
  generalize (Jac.Wb b2).slope xT xS yT yS = lam at hL h2 ⊢
  generalize (Jac.Wb b2).addX xT xS lam = x' at hL ⊢
  have hG' := polyT hd
  have q1 : evY y1 = Fq12.ofFq Γ * Fq12.w * evX x1 + Fq12.ofFq D * Fq12.w ^ 3 := by
    unfold evX evY; linear_combination (Fq12.w ^ 3) * hd.p1
  have q2 : evY y2 = Fq12.ofFq Γ * Fq12.w * evX x2 + Fq12.ofFq D * Fq12.w ^ 3 := by
    unfold evX evY; linear_combination (Fq12.w ^ 3) * hd.p2
  have q3 : -evY y3 = Fq12.ofFq Γ * Fq12.w * evX x3 + Fq12.ofFq D * Fq12.w ^ 3 := by
    unfold evX evY; linear_combination (Fq12.w ^ 3) * hd.p3
  have key := star_core (Fq12.ofFq2 b2) (Fq12.ofFq2 lam) (Fq12.ofFq2 (yT - lam * xT))
    (Fq12.ofFq Γ * Fq12.w) (Fq12.ofFq D * Fq12.w ^ 3)
    (Fq12.ofFq2 xT) (Fq12.ofFq2 xS) (Fq12.ofFq2 x')
    (Fq12.ofFq2 yT) (Fq12.ofFq2 yS) (Fq12.ofFq2 (lam * (x' - xT) + yT))
    (evX x1) (evX x2) (evX x3) (evY y1) (evY y2) (-evY y3)
    (fun t => by
      have := hL t
      simp only [map_sub, map_mul]
      linear_combination this)
    hG' (by simp only [map_sub, map_mul]; ring)
    (by simp only [map_add, map_sub, map_mul] at h2 ⊢; linear_combination h2)
    (by simp only [map_add, map_sub, map_mul]; ring) q1 q2 q3
  rw [w3_lineSpec, w3_lineSpec, w3_lineSpec]
  unfold hG
  simp only [map_neg]
  linear_combination key

/-- (★) after the final exponentiation, on coordinates -/
theorem star_red {xT yT xS yS : Fq2} (hT : (Jac.Wb b2).Nonsingular xT yT) (hS : (Jac.Wb b2).Nonsingular xS yS)
    (hxy : ¬(xT = xS ∧ yT = (Jac.Wb b2).negY xS yS)) :
    lineSpec xT yT ((Jac.Wb b2).slope xT xS yT yS) x1 y1 ^ E
      * lineSpec xT yT ((Jac.Wb b2).slope xT xS yT yS) x2 y2 ^ E
      * hG Γ D ((Jac.Wb b2).addX xT xS ((Jac.Wb b2).slope xT xS yT yS))
          ((Jac.Wb b2).addY xT xS yT ((Jac.Wb b2).slope xT xS yT yS)) ^ E
    = hG Γ D xT yT ^ E * hG Γ D xS yS ^ E
      * lineSpec xT yT ((Jac.Wb b2).slope xT xS yT yS) x3 y3 ^ E := by
  have h := star_line hd hT.left hS.left hxy
  have h0 := twist_x_ne_zero hT
  have h1 := twist_x_ne_zero hS
  have h2 := twist_x_ne_zero (Affine.nonsingular_add hT hS hxy)
  have a1 := w3_pow_final
  have a2 := neg_one_pow_final
  have v0 := vert_pow_final x3 _ (vert_ne_zero x3 _ h0)
  have v1 := vert_pow_final x3 _ (vert_ne_zero x3 _ h1)
  have v2 := vert_pow_final x3 _ (vert_ne_zero x3 _ h2)
  have u1 := vert'_pow_final x1 _ h2
  have u2 := vert'_pow_final x2 _ h2
  have u3 := vert'_pow_final x3 _ h2
  generalize (q ^ 12 - 1) / r = e at *
  have h' := congrArg (fun z : Fq12 => z ^ e) h
  simp only [mul_pow, neg_pow, a1, a2, v0, v1, v2, u1, u2, u3, one_mul, mul_one] at h'
  exact h'

end sm9

/-! ## point level -/

/-- `H(U) = (w³·G(ψ(U)))^E` -/
noncomputable def Hpt (Γ D : Fq) : (Jac.Wb b2).Point → Fq12
  | .zero => 1
  | .some x y _ => hG Γ D x y ^ E

theorem Hpt_some (Γ D : Fq) {x y : Fq2} (h : (Jac.Wb b2).Nonsingular x y) :
    Hpt Γ D (.some x y h) = hG Γ D x y ^ E := rfl

theorem twist_y_ne_zero {x y : Fq2} (h : (Jac.Wb b2).Nonsingular x y) : y ≠ 0 := by
  intro hy
  have he := ((Jac.nonsingular_iff b2 _ _).1 h).1
  apply Fq2.no_two_torsion x
  rw [hy] at he
  linear_combination -he

theorem Hpt_ne_zero (Γ D : Fq) (U : (Jac.Wb b2).Point) : Hpt Γ D U ≠ 0 := by
  cases U with
  | zero => exact one_ne_zero
  | some x y h => exact pow_ne_zero _ (hG_ne_zero Γ D x y (twist_y_ne_zero h))

theorem Hpt_pow_r (Γ D : Fq) (U : (Jac.Wb b2).Point) : Hpt Γ D U ^ r = 1 := by
  cases U with
  | zero => exact one_pow _
  | some x y h => exact pow_final_exponent_pow_r _ (hG_ne_zero Γ D x y (twist_y_ne_zero h))

/-- `H(π(U)) = H(U)^q` -/
theorem hG_frob (Γ D : Fq) (x y : Fq2) :
    hG Γ D (conj x * pi1F⁻¹ ^ 2) (conj y * pi1F⁻¹ ^ 3) = Fq12.ofFq2 (pi1F⁻¹ ^ 3) * hG Γ D x y ^ q := by
  have hq : hG Γ D x y ^ q = Fq12.ofFq2 (conj y)
      - Fq12.ofFq Γ * (Fq12.ofFq2 pi1F * Fq12.w) * Fq12.ofFq2 (conj x)
      - Fq12.ofFq D * (Fq12.ofFq2 pi1F * Fq12.w) ^ 3 := by
    unfold hG
    rw [← frobenius_def, map_sub, map_sub, map_mul, map_mul, map_mul, map_pow]
    simp only [frobenius_def, ofFq_pow_q, ofFq2_pow_q, Fq12.w_pow_q, ← ofFq2_pi1F, ← conj_apply]
  rw [hq]
  unfold hG
  have hp : Fq12.ofFq2 pi1F ≠ 0 := Fq12.ofFq2_ne_zero pi1F_ne_zero
  simp only [map_mul, map_pow, map_inv₀]
  field_simp

theorem Hpt_frob (Γ D : Fq) (U : (Jac.Wb b2).Point) : Hpt Γ D (frobHom U) = Hpt Γ D U ^ q := by
  cases U with
  | zero => exact (one_pow _).symm
  | some x y h =>
    show Hpt Γ D (ptMap b2 conj pi1F⁻¹ (inv_ne_zero pi1F_ne_zero) frob_coeff (.some x y h)) = _
    rw [ptMap_some, Hpt_some, Hpt_some, hG_frob, mul_pow,
      ofFq2_pow_final _ (pow_ne_zero _ (inv_ne_zero pi1F_ne_zero)), one_mul, pow_right_comm]

section sm9pt
variable {x1 y1 x2 y2 x3 y3 Γ D : Fq} (hd : LineData Fq12.ofFq b1 x1 y1 x2 y2 x3 y3 Γ D)
include hd

/-- `H(−U)·H(U) = 1` -/
theorem Hpt_neg (U : (Jac.Wb b2).Point) : Hpt Γ D (-U) * Hpt Γ D U = 1 := by
  cases U with
  | zero => exact one_mul _
  | some x y h =>
    rw [Affine.Point.neg_some, Hpt_some, Hpt_some, twist_negY]
    have he := congrArg Fq12.ofFq2 ((Jac.nonsingular_iff b2 _ _).1 h).1
    simp only [map_add, map_pow] at he
    have hp := polyT hd (Fq12.ofFq2 x)
    have hx := twist_x_ne_zero h
    have key : hG Γ D x (-y) * hG Γ D x y
        = -((Fq12.ofFq2 x - evX x1) * (Fq12.ofFq2 x - evX x2) * (Fq12.ofFq2 x - evX x3)) := by
      unfold hG
      simp only [map_neg]
      linear_combination hp - he
    rw [← mul_pow, key, neg_pow, neg_one_pow_final, one_mul, mul_pow, mul_pow, vert'_pow_final _ _ hx,
      vert'_pow_final _ _ hx, vert'_pow_final _ _ hx, one_mul, one_mul]

/-- **(★)** for every line of the Miller loop -/
theorem star_pt (T S : (Jac.Wb b2).Point) (hT : T ≠ 0) (hS : S ≠ 0) (hTS : T + S ≠ 0) :
    lineVal (Jac.Wb b2) (lineAt x1 y1) T S ^ E * lineVal (Jac.Wb b2) (lineAt x2 y2) T S ^ E
        * Hpt Γ D (T + S)
      = Hpt Γ D T * Hpt Γ D S * lineVal (Jac.Wb b2) (lineAt x3 y3) T S ^ E := by
  obtain ⟨xT, yT, hnT, rfl⟩ := exists_some_of_ne_zero _ hT
  obtain ⟨xS, yS, hnS, rfl⟩ := exists_some_of_ne_zero _ hS
  by_cases hxy : xT = xS ∧ yT = (Jac.Wb b2).negY xS yS
  · exact absurd (Affine.Point.add_of_Y_eq hxy.1 hxy.2) hTS
  · rw [Affine.Point.add_some hxy, Hpt_some, Hpt_some, Hpt_some, lineVal_some, lineVal_some, lineVal_some]
    exact star_red hd hnT hnS hxy

end sm9pt

end Miller
end Sm9

