import Sm9.Proofs.Identity
import Sm9.Proofs.Tower
/-!
# Elementary facts about the Jacobian model (identity handling, negation, equality)
-/
namespace Sm9

theorem Fq.beq_iff (a b : Fq) : FieldElement.beq a b = true ↔ a = b := by
  show decide (a = b) = true ↔ a = b
  simp
theorem Fq2.beq_iff (a b : Fq2) : FieldElement.beq a b = true ↔ a = b := by
  show decide (a = b) = true ↔ a = b
  simp

theorem G1.is_zero_iff (p : G1) : p.is_zero = true ↔ p.z = 0 := by
  show Fq.is_zero p.z = true ↔ _
  exact Fq.is_zero_iff p.z

theorem Fq2.is_zero_iff (x : Fq2) : x.is_zero = true ↔ x = 0 := by
  unfold Fq2.is_zero
  rw [Bool.and_eq_true, Fq.is_zero_iff, Fq.is_zero_iff]
  constructor
  · rintro ⟨h0, h1⟩; ext <;> simp [h0, h1]
  · intro h; subst h; exact ⟨rfl, rfl⟩

theorem G2.is_zero_iff (p : G2) : p.is_zero = true ↔ p.z = 0 := by
  show Fq2.is_zero p.z = true ↔ _
  exact Fq2.is_zero_iff p.z

theorem G1.add_zero_left (a b : G1) (h : a.z = 0) : a.add b = b := by
  unfold G.add
  simp [(G1.is_zero_iff a).2 h]
theorem G1.add_zero_right (a b : G1) (ha : a.z ≠ 0) (h : b.z = 0) : a.add b = a := by
  unfold G.add
  have : a.is_zero = false := by
    cases hz : a.is_zero
    · rfl
    · exact absurd ((G1.is_zero_iff a).1 hz) ha
  simp [this, (G1.is_zero_iff b).2 h]
theorem G2.add_zero_left (a b : G2) (h : a.z = 0) : a.add b = b := by
  unfold G.add
  simp [(G2.is_zero_iff a).2 h]
theorem G2.add_zero_right (a b : G2) (ha : a.z ≠ 0) (h : b.z = 0) : a.add b = a := by
  unfold G.add
  have : a.is_zero = false := by
    cases hz : a.is_zero
    · rfl
    · exact absurd ((G2.is_zero_iff a).1 hz) ha
  simp [this, (G2.is_zero_iff b).2 h]

theorem G1.neg_neg (p : G1) : p.neg.neg = p := by
  unfold G.neg
  by_cases h : p.is_zero = true
  · simp [h]
  · have h' : p.is_zero = false := by simpa using h
    simp only [h', Bool.false_eq_true, if_false]
    have : G.is_zero ({ x := p.x, y := -p.y, z := p.z } : G1) = false := h'
    simp only [this, Bool.false_eq_true, if_false]
    obtain ⟨x, y, z⟩ := p
    show ({ x := x, y := - -y, z := z } : G1) = _
    congr 1
    exact _root_.neg_neg y
theorem G2.neg_neg (p : G2) : p.neg.neg = p := by
  unfold G.neg
  by_cases h : p.is_zero = true
  · simp [h]
  · have h' : p.is_zero = false := by simpa using h
    simp only [h', Bool.false_eq_true, if_false]
    have : G.is_zero ({ x := p.x, y := -p.y, z := p.z } : G2) = false := h'
    simp only [this, Bool.false_eq_true, if_false]
    obtain ⟨x, y, z⟩ := p
    show ({ x := x, y := - -y, z := z } : G2) = _
    congr 1
    exact _root_.neg_neg y

/-- `==` is reflexive on every value -/
theorem G1.eq_refl (p : G1) : p.eq p = true := by
  unfold G.eq
  by_cases h : p.is_zero = true
  · simp [h]
  · have h' : p.is_zero = false := by simpa using h
    simp [h', (Fq.beq_iff _ _).2 rfl]
theorem G2.eq_refl (p : G2) : p.eq p = true := by
  unfold G.eq
  by_cases h : p.is_zero = true
  · simp [h]
  · have h' : p.is_zero = false := by simpa using h
    simp [h', (Fq2.beq_iff _ _).2 rfl]

/-- every value with z = 0 is the identity for `==` -/
theorem G1.eq_zero_iff (p o : G1) (ho : o.z = 0) : p.eq o = true ↔ p.z = 0 := by
  unfold G.eq
  have hoz := (G1.is_zero_iff o).2 ho
  by_cases h : p.is_zero = true
  · simp [h, hoz, (G1.is_zero_iff p).1 h]
  · have h' : p.is_zero = false := by simpa using h
    have : p.z ≠ 0 := fun hz => h ((G1.is_zero_iff p).2 hz)
    simp [h', hoz, this]

end Sm9
