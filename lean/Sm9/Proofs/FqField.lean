import Sm9.Proofs.Prime
import Mathlib.Algebra.Field.ZMod
import Mathlib.FieldTheory.Finite.Basic
import Mathlib.Data.ZMod.Defs
import Mathlib.Tactic.Ring
import Mathlib.Tactic.FieldSimp
import Mathlib.Algebra.Field.IsField
/-!
# `Fq` and `Fr` are fields — on the model's own operations

`Fin.instCommRing` puts the ring structure on core `Fin.add`/`Fin.mul`, which *are* the
model's `+`/`*`, so `ring` works on model terms.  Inverses come from Fermat
(`ZMod.pow_card_sub_one_eq_one`, same carrier definitionally) and the proved primality.
-/
namespace Sm9

instance instCommRingFq : CommRing Fq := Fin.instCommRing q
instance instCommRingFr : CommRing Fr := Fin.instCommRing r

theorem Fq.fermat (a : Fq) (h : a ≠ 0) : a ^ (q - 1) = 1 := by
  have := ZMod.pow_card_sub_one_eq_one (p := q) (a := a) h
  exact this

theorem Fr.fermat (a : Fr) (h : a ≠ 0) : a ^ (r - 1) = 1 := by
  have := ZMod.pow_card_sub_one_eq_one (p := r) (a := a) h
  exact this

theorem Fq.isField : IsField Fq where
  exists_pair_ne := ⟨0, 1, by decide +kernel⟩
  mul_comm := mul_comm
  mul_inv_cancel := by
    intro a ha
    refine ⟨a ^ (q - 2), ?_⟩
    rw [← pow_succ']
    have : q - 2 + 1 = q - 1 := by decide +kernel
    rw [this]; exact Fq.fermat a ha

theorem Fr.isField : IsField Fr where
  exists_pair_ne := ⟨0, 1, by decide +kernel⟩
  mul_comm := mul_comm
  mul_inv_cancel := by
    intro a ha
    refine ⟨a ^ (r - 2), ?_⟩
    rw [← pow_succ']
    have : r - 2 + 1 = r - 1 := by decide +kernel
    rw [this]; exact Fr.fermat a ha

noncomputable instance : Field Fq := Fq.isField.toField
noncomputable instance : Field Fr := Fr.isField.toField

example (a b c : Fq) : a * (b + c) = a * b + a * c := by ring
example (a : Fq) : a.double = 2 * a := by simp only [Fq.double]; ring
example (a b : Fq) (hb : b ≠ 0) : a / b * b = a := by field_simp

end Sm9

namespace Sm9
theorem Fq.zero_val : Fin.val (0 : Fq) = 0 := by decide +kernel
theorem Fq.one_val : Fin.val (1 : Fq) = 1 := by decide +kernel
theorem Fr.zero_val : Fin.val (0 : Fr) = 0 := by decide +kernel
theorem Fr.one_val : Fin.val (1 : Fr) = 1 := by decide +kernel

theorem Fq.is_zero_iff (x : Fq) : x.is_zero = true ↔ x = 0 := by
  unfold Fq.is_zero Fq.val
  rw [beq_iff_eq]
  constructor
  · intro h; apply Fin.ext; rw [h, Fq.zero_val]
  · intro h; rw [h, Fq.zero_val]
theorem Fr.is_zero_iff (x : Fr) : x.is_zero = true ↔ x = 0 := by
  unfold Fr.is_zero Fr.val
  rw [beq_iff_eq]
  constructor
  · intro h; apply Fin.ext; rw [h, Fr.zero_val]
  · intro h; rw [h, Fr.zero_val]
end Sm9

namespace Sm9
theorem Fq.pow_sub_two_mul (a : Fq) (ha : a ≠ 0) : a ^ (q - 2) * a = 1 := by
  rw [← pow_succ]
  have : q - 2 + 1 = q - 1 := by decide +kernel
  rw [this]; exact Fq.fermat a ha
theorem Fr.pow_sub_two_mul (a : Fr) (ha : a ≠ 0) : a ^ (r - 2) * a = 1 := by
  rw [← pow_succ]
  have : r - 2 + 1 = r - 1 := by decide +kernel
  rw [this]; exact Fr.fermat a ha
end Sm9
