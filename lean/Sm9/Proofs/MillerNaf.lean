import Sm9.Proofs.MillerNafLines
import Sm9.Proofs.MillerNafSpec
import Sm9.Proofs.MillerFrobenius
/-!
# `G2::miller_loop` (numerator/denominator, signed digits) computes the textbook Miller function

`G2m.miller_loop` (pairings.rs, GmSSL style: Jacobian `T`, accumulators `f_num`, `f_den`, the
signed-digit table `SM9_LOOP_COUNT`, two Frobenius line steps with `point_pi1`, `point_pi2`, finally
`f_num · f_den⁻¹`) against `Miller.specMillerNaf` (`Sm9/Proofs/MillerNafSpec.lean`).

1. `dblStepNaf_refines`, `addStepNaf_refines` — one tangent / chord evaluation of the code is the
   line of the specification as a fraction: `den ≠ 0`, `num = −den · l(P)`
   (`Sm9/Proofs/MillerNafLines.lean`); point components through `G2.toAff`.
2. `loopNaf_refines` — induction over the digit table.  Invariant: `f_den ≠ 0` and
   `f_num = ε · f_den · f_spec` with a sign `ε = ±1`, which is tracked exactly (`signAfter`).
   The order hypothesis `r • Q = 0` excludes `T = O`, `T = ±Q` (`chainOKNaf_loop`: every multiplier
   `m` of the signed chain has `0 < m`, `2m + 1 < r`).
3. `naf_miller_eq_spec` — **`miller_loop (xQ, yQ, 1) P = ok (−specMillerNaf xP yP xQ yQ)`**, under the
   non-degeneracy hypotheses `hT1 … hT4` of the Frobenius steps; `…_of_eigen`, `…_G2` discharge
   them as in `MillerPrepared.lean` / `MillerFrobenius.lean`.  The factor is exactly `−1`.
4. `pairing_eq_spec_G2`, `api_pairing_eq_spec_G2` — `pairing` is the reduced value
   `specMillerNaf ^ ((q¹² − 1)/r)` for arbitrary Jacobian representatives.
-/
namespace Sm9
namespace Miller
open WeierstrassCurve
set_option maxRecDepth 100000

/-! ## 1. single steps -/

/-- the tangent evaluation refines `l_{T,T}(P)`; the point is doubled -/
theorem dblStepNaf_refines (P : G1) (T : G2) (hz : T.z ≠ 0) (hv : G2.Valid T) :
    T.double.z ≠ 0 ∧ G2.Valid T.double ∧ G2.toAff T.double = G2.toAff T + G2.toAff T ∧
    (G2m.eval_g_tangent T P).2 ≠ 0 ∧
    (G2m.eval_g_tangent T P).1 = -((G2m.eval_g_tangent T P).2 *
      lineVal (Jac.Wb b2) (lineAt P.x P.y) (G2.toAff T) (G2.toAff T)) := by
  have hn := hv.resolve_left hz
  have hy : T.y ≠ 0 := Jac.y_ne_zero b2 Fq2.no_two_torsion T hz hn
  obtain ⟨d1, d2, d3, _⟩ := dblStep_refines P.x P.y T hz hv 1 1 1 one_ne_zero (by rw [map_one, one_mul])
  obtain ⟨t1, _, t3⟩ := eval_g_tangent_line T P hz hy
  have hT : G2.toAff T = .some _ _ hn := G2.toAff_some T hz hn
  have hy' : T.y / T.z ^ 3 ≠ 0 := div_ne_zero hy (pow_ne_zero _ hz)
  refine ⟨d1, d2, d3, t1, ?_⟩
  rw [t3, hT, lineVal_some]
  unfold lineAt
  rw [slope_tangent _ _ hy']

/-- the chord evaluation refines `l_{T,R}(P)` for `R ≠ ±T`, any Jacobian representative of `R` -/
theorem addStepNaf_refines (P : G1) (T R : G2) (hz : T.z ≠ 0) (hv : G2.Valid T) (hRz : R.z ≠ 0)
    (hRv : G2.Valid R) (hne : G2.toAff T ≠ G2.toAff R) (hne2 : G2.toAff T ≠ -G2.toAff R) :
    (T.add R).z ≠ 0 ∧ G2.Valid (T.add R) ∧ G2.toAff (T.add R) = G2.toAff T + G2.toAff R ∧
    (G2m.eval_g_line T R P).2 ≠ 0 ∧
    (G2m.eval_g_line T R P).1 = -((G2m.eval_g_line T R P).2 *
      lineVal (Jac.Wb b2) (lineAt P.x P.y) (G2.toAff T) (G2.toAff R)) := by
  have hn := hv.resolve_left hz
  have hRn := hRv.resolve_left hRz
  have hT : G2.toAff T = .some _ _ hn := G2.toAff_some T hz hn
  have hR : G2.toAff R = .some _ _ hRn := G2.toAff_some R hRz hRn
  have hx : T.x / T.z ^ 2 ≠ R.x / R.z ^ 2 := by
    intro h
    rcases (Affine.Point.X_eq_iff (h₁ := hn) (h₂ := hRn)).1 h with h' | h'
    · exact hne (by rw [hT, hR]; exact h')
    · exact hne2 (by rw [hT, hR]; exact h')
  obtain ⟨t1, _, t3⟩ := eval_g_line_line T R P hz hRz hx
  have hac := G2.add_correct T R hv hRv
  refine ⟨?_, G2.add_valid T R hv hRv, hac, t1, ?_⟩
  · apply z_ne_zero_of_toAff
    rw [hac, hT, hR, Affine.Point.add_of_X_ne hx]
    exact Affine.Point.some_ne_zero _
  · rw [t3, hT, hR, lineVal_some]
    unfold lineAt
    rw [slope_chord _ _ _ _ hx]

/-! ## 2. the induction over the digit table -/

theorem millerStep_one (self q1 : G2) (p : G1) (T : G2) (fn fd : Fq12) :
    G2m.millerStep self q1 p (T, fn, fd) 1 =
      (T.double.add self,
        fn.squared * (G2m.eval_g_tangent T p).1 * (G2m.eval_g_line T.double self p).1,
        fd.squared * (G2m.eval_g_tangent T p).2 * (G2m.eval_g_line T.double self p).2) := rfl

theorem millerStep_two (self q1 : G2) (p : G1) (T : G2) (fn fd : Fq12) :
    G2m.millerStep self q1 p (T, fn, fd) 2 =
      (T.double.add q1,
        fn.squared * (G2m.eval_g_tangent T p).1 * (G2m.eval_g_line T.double q1 p).1,
        fd.squared * (G2m.eval_g_tangent T p).2 * (G2m.eval_g_line T.double q1 p).2) := rfl

theorem millerStep_other (self q1 : G2) (p : G1) (T : G2) (fn fd : Fq12) (d : Nat) (h1 : d ≠ 1) (h2 : d ≠ 2) :
    G2m.millerStep self q1 p (T, fn, fd) d =
      (T.double, fn.squared * (G2m.eval_g_tangent T p).1, fd.squared * (G2m.eval_g_tangent T p).2) := by
  have e1 : (d == 1) = false := by simpa using h1
  have e2 : (d == 2) = false := by simpa using h2
  unfold G2m.millerStep
  simp only [e1, e2, Bool.false_eq_true, if_false]

/-- side condition on the signed chain: every intermediate multiplier `m` has `0 < m`, `2m + 1 < r` -/
def chainOKNaf : List Nat → Nat → Bool
  | [], _ => true
  | d :: ds, m => decide (0 < m) && decide (2 * m + 1 < r) && chainOKNaf ds (nafNext m d)

theorem chainOKNaf_loop : chainOKNaf Consts.SM9_LOOP_COUNT 1 = true := by decide +kernel

/-- the sign `ε` in `f_num = ε · f_den · f_spec` after the digits `ds`: squaring clears it, every
    line contributes `−1` -/
def signAfter : List Nat → Fq12 → Fq12
  | [], ε => ε
  | d :: ds, _ => signAfter ds (if d = 1 ∨ d = 2 then 1 else -1)

theorem signAfter_loop : signAfter Consts.SM9_LOOP_COUNT 1 = -1 := by
  simp [signAfter, Consts.SM9_LOOP_COUNT]

theorem affG2_neg_z (p : Fq2 × Fq2) : (affG2 p).neg.z ≠ 0 := by
  rw [affG2_neg]; exact one_ne_zero

/-- **the loop refines the specification**: point component through `toAff`; `f_den ≠ 0` and
    `f_num = ± f_den · f_spec` -/
theorem loopNaf_refines (P : G1) (p : Fq2 × Fq2) (hp : p.2 * p.2 = p.1 * p.1 * p.1 + b2)
    (hord : r • twPt p = 0) (ds : List Nat) :
    ∀ (T : G2) (fn fd : Fq12) (S : _ × Fq12) (m : Nat) (ε : Fq12), chainOKNaf ds m = true →
      T.z ≠ 0 → G2.Valid T → G2.toAff T = S.1 → S.1 = m • twPt p → fd ≠ 0 →
      (ε = 1 ∨ ε = -1) → fn = ε * fd * S.2 →
      (ds.foldl (G2m.millerStep (affG2 p) (affG2 p).neg P) (T, fn, fd)).1.z ≠ 0 ∧
      G2.Valid (ds.foldl (G2m.millerStep (affG2 p) (affG2 p).neg P) (T, fn, fd)).1 ∧
      G2.toAff (ds.foldl (G2m.millerStep (affG2 p) (affG2 p).neg P) (T, fn, fd)).1
        = (ds.foldl (specStepNaf (Jac.Wb b2) (lineAt P.x P.y) (twPt p)) S).1 ∧
      (ds.foldl (G2m.millerStep (affG2 p) (affG2 p).neg P) (T, fn, fd)).2.2 ≠ 0 ∧
      (ds.foldl (G2m.millerStep (affG2 p) (affG2 p).neg P) (T, fn, fd)).2.1
        = signAfter ds ε * (ds.foldl (G2m.millerStep (affG2 p) (affG2 p).neg P) (T, fn, fd)).2.2
            * (ds.foldl (specStepNaf (Jac.Wb b2) (lineAt P.x P.y) (twPt p)) S).2 := by
  have h0 := twPt_ne_zero p hp
  have hQv := affG2_valid p hp
  have hNv := G2.neg_valid _ hQv
  have hNz := affG2_neg_z p
  have hN : G2.toAff (affG2 p).neg = -twPt p := G2.neg_correct _ hQv
  induction ds with
  | nil =>
    intro T fn fd S m ε _ hz hv hT _ hfd _ hf
    exact ⟨hz, hv, hT, hfd, hf⟩
  | cons d ds ih =>
    intro T fn fd S m ε hok hz hv hT hS hfd hε hf
    simp only [chainOKNaf, Bool.and_eq_true, decide_eq_true_eq] at hok
    obtain ⟨⟨hm0, hmr⟩, hok'⟩ := hok
    obtain ⟨d1, d2, d3, t1, t3⟩ := dblStepNaf_refines P T hz hv
    rw [hT] at d3 t3
    have h2m : S.1 + S.1 = (2 * m) • twPt p := by rw [hS, mul_smul, two_smul]
    have hεε : ε * ε = 1 := by rcases hε with h | h <;> rw [h] <;> ring
    simp only [List.foldl_cons, signAfter]
    have hSp := specStepNaf_point (Jac.Wb b2) (lineAt P.x P.y) (twPt p) S d m hm0 hS
    by_cases hd1 : d = 1
    · subst hd1
      rw [millerStep_one]
      have hne1 : G2.toAff T.double ≠ G2.toAff (affG2 p) := by
        rw [d3, h2m, ← twPt_eq]
        exact nsmul_ne_self hord h0 (by omega) (by omega)
      have hne2 : G2.toAff T.double ≠ -G2.toAff (affG2 p) := by
        rw [d3, h2m, ← twPt_eq]
        exact nsmul_ne_neg hord h0 hmr
      obtain ⟨a1, a2, a3, u1, u3⟩ := addStepNaf_refines P T.double (affG2 p) d1 d2 one_ne_zero hQv hne1 hne2
      rw [d3, ← twPt_eq] at a3 u3
      have hS' : specStepNaf (Jac.Wb b2) (lineAt P.x P.y) (twPt p) S 1
          = (S.1 + S.1 + twPt p, S.2 * S.2 * lineVal (Jac.Wb b2) (lineAt P.x P.y) S.1 S.1
              * lineVal (Jac.Wb b2) (lineAt P.x P.y) (S.1 + S.1) (twPt p)) := by
        unfold specStepNaf; rw [if_pos rfl]
      rw [hS'] at hSp ⊢
      rw [if_pos (Or.inl rfl)]
      refine ih _ _ _ _ _ 1 hok' a1 a2 a3 hSp ?_ (Or.inl rfl) ?_
      · exact mul_ne_zero (mul_ne_zero (by rw [Fq12.squared_eq_mul]; exact mul_ne_zero hfd hfd) t1) u1
      · rw [t3, u3, hf, Fq12.squared_eq_mul, Fq12.squared_eq_mul]
        linear_combination (fd * fd * (G2m.eval_g_tangent T P).2 * (G2m.eval_g_line T.double (affG2 p) P).2
          * (S.2 * S.2 * lineVal (Jac.Wb b2) (lineAt P.x P.y) S.1 S.1
              * lineVal (Jac.Wb b2) (lineAt P.x P.y) (S.1 + S.1) (twPt p))) * hεε
    · by_cases hd2 : d = 2
      · subst hd2
        rw [millerStep_two]
        have hne1 : G2.toAff T.double ≠ G2.toAff (affG2 p).neg := by
          rw [d3, h2m, hN]
          exact nsmul_ne_neg hord h0 hmr
        have hne2 : G2.toAff T.double ≠ -G2.toAff (affG2 p).neg := by
          rw [d3, h2m, hN, neg_neg]
          exact nsmul_ne_self hord h0 (by omega) (by omega)
        obtain ⟨a1, a2, a3, u1, u3⟩ := addStepNaf_refines P T.double (affG2 p).neg d1 d2 hNz hNv hne1 hne2
        rw [d3, hN] at a3 u3
        have hS' : specStepNaf (Jac.Wb b2) (lineAt P.x P.y) (twPt p) S 2
            = (S.1 + S.1 + -twPt p, S.2 * S.2 * lineVal (Jac.Wb b2) (lineAt P.x P.y) S.1 S.1
                * lineVal (Jac.Wb b2) (lineAt P.x P.y) (S.1 + S.1) (-twPt p)) := by
          unfold specStepNaf; rw [if_neg (by decide), if_pos rfl]
        rw [hS'] at hSp ⊢
        rw [if_pos (Or.inr rfl)]
        refine ih _ _ _ _ _ 1 hok' a1 a2 a3 hSp ?_ (Or.inl rfl) ?_
        · exact mul_ne_zero (mul_ne_zero (by rw [Fq12.squared_eq_mul]; exact mul_ne_zero hfd hfd) t1) u1
        · rw [t3, u3, hf, Fq12.squared_eq_mul, Fq12.squared_eq_mul]
          linear_combination (fd * fd * (G2m.eval_g_tangent T P).2 * (G2m.eval_g_line T.double (affG2 p).neg P).2
            * (S.2 * S.2 * lineVal (Jac.Wb b2) (lineAt P.x P.y) S.1 S.1
                * lineVal (Jac.Wb b2) (lineAt P.x P.y) (S.1 + S.1) (-twPt p))) * hεε
      · rw [millerStep_other _ _ _ _ _ _ _ hd1 hd2]
        have hS' : specStepNaf (Jac.Wb b2) (lineAt P.x P.y) (twPt p) S d
            = (S.1 + S.1, S.2 * S.2 * lineVal (Jac.Wb b2) (lineAt P.x P.y) S.1 S.1) := by
          unfold specStepNaf; rw [if_neg hd1, if_neg hd2]
        rw [hS'] at hSp ⊢
        rw [if_neg (by rintro (h | h); exact hd1 h; exact hd2 h)]
        refine ih _ _ _ _ _ (-1) hok' d1 d2 d3 hSp ?_ (Or.inr rfl) ?_
        · exact mul_ne_zero (by rw [Fq12.squared_eq_mul]; exact mul_ne_zero hfd hfd) t1
        · rw [t3, hf, Fq12.squared_eq_mul, Fq12.squared_eq_mul]
          linear_combination (-(fd * fd * (G2m.eval_g_tangent T P).2
            * (S.2 * S.2 * lineVal (Jac.Wb b2) (lineAt P.x P.y) S.1 S.1))) * hεε

/-! ## 3. the Frobenius steps and the quotient -/

/-- a Jacobian value whose affine coordinates are `p` denotes `twPt p` -/
theorem toAff_of_affine (R : G2) (hz : R.z ≠ 0) (p : Fq2 × Fq2) (hp : p.2 * p.2 = p.1 * p.1 * p.1 + b2)
    (h : (R.x / R.z ^ 2, R.y / R.z ^ 3) = p) : G2.Valid R ∧ G2.toAff R = twPt p := by
  subst h
  obtain ⟨hn, e⟩ := twPt_some _ hp
  exact ⟨Or.inr hn, by rw [e]; exact G2.toAff_some R hz hn⟩

theorem G2.neg_z (X : G2) : X.neg.z = X.z := by
  unfold G.neg; split <;> rfl

/-- `miller_loop` with the loop result named -/
theorem miller_loop_eq (self : G2) (P : G1) (C : G2 × Fq12 × Fq12)
    (hC : C = Consts.SM9_LOOP_COUNT.foldl (G2m.millerStep self self.neg P) (self, Fq12.one, Fq12.one)) :
    G2m.miller_loop self P =
      (do let fdi ← Outcome.unwrap
            (C.2.2 * (G2m.eval_g_line C.1 (G2m.point_pi1 self) P).2
              * (G2m.eval_g_line (C.1.add (G2m.point_pi1 self)) (G2m.point_pi2 self).neg P).2).inverse
          pure (C.2.1 * (G2m.eval_g_line C.1 (G2m.point_pi1 self) P).1
              * (G2m.eval_g_line (C.1.add (G2m.point_pi1 self)) (G2m.point_pi2 self).neg P).1 * fdi)) := by
  unfold G2m.miller_loop
  simp only []
  rw [← hC]

/-- **`G2::miller_loop` is the textbook Miller function of the signed-digit chain, up to the sign
    `−1`** (which the final exponentiation removes).  `P` enters only through `P.x`, `P.y`. -/
theorem naf_miller_eq_spec (P : G1) (xQ yQ : Fq2) (hQ : yQ * yQ = xQ * xQ * xQ + b2)
    (hord : r • twPt (xQ, yQ) = 0)
    (hT1 : Consts.SM9_LOOP_N • twPt (xQ, yQ) ≠ twPt (frobTwist (xQ, yQ)))
    (hT2 : Consts.SM9_LOOP_N • twPt (xQ, yQ) ≠ -twPt (frobTwist (xQ, yQ)))
    (hT3 : Consts.SM9_LOOP_N • twPt (xQ, yQ) + twPt (frobTwist (xQ, yQ)) ≠ -twPt (frobTwist (frobTwist (xQ, yQ))))
    (hT4 : Consts.SM9_LOOP_N • twPt (xQ, yQ) + twPt (frobTwist (xQ, yQ)) ≠ twPt (frobTwist (frobTwist (xQ, yQ)))) :
    G2m.miller_loop (⟨xQ, yQ, 1⟩ : G2) P = .ok (-specMillerNaf P.x P.y xQ yQ) := by
  obtain ⟨p, hpd⟩ : ∃ p : Fq2 × Fq2, p = (xQ, yQ) := ⟨_, rfl⟩
  have hself : (⟨xQ, yQ, 1⟩ : G2) = affG2 p := by rw [hpd]; rfl
  have hp : p.2 * p.2 = p.1 * p.1 * p.1 + b2 := by rw [hpd]; exact hQ
  rw [← hpd] at hord hT1 hT2 hT3 hT4
  have hxy : specMillerNaf P.x P.y xQ yQ = specMillerNaf P.x P.y p.1 p.2 := by rw [hpd]
  rw [hxy, hself]
  have hQv := affG2_valid p hp
  have hp1 := frobTwist_equation p hp
  have hp2 := frobTwist_equation _ hp1
  -- the loop
  obtain ⟨l1, l2, l3, l4, l5⟩ := loopNaf_refines P p hp hord Consts.SM9_LOOP_COUNT (affG2 p) Fq12.one Fq12.one
    (twPt p, 1) 1 1 chainOKNaf_loop one_ne_zero hQv rfl (one_smul _ _).symm one_ne_zero (Or.inl rfl)
    (by show (1 : Fq12) = 1 * 1 * 1; ring)
  rw [signAfter_loop] at l5
  have hpt := specLoopNaf_point P.x P.y p
  unfold specLoopNaf at hpt
  obtain ⟨St, hSt⟩ : ∃ St, St = Consts.SM9_LOOP_COUNT.foldl (specStepNaf (Jac.Wb b2) (lineAt P.x P.y) (twPt p)) (twPt p, 1) :=
    ⟨_, rfl⟩
  obtain ⟨Ct, hCt⟩ : ∃ Ct, Ct = Consts.SM9_LOOP_COUNT.foldl (G2m.millerStep (affG2 p) (affG2 p).neg P)
      (affG2 p, Fq12.one, Fq12.one) := ⟨_, rfl⟩
  rw [← hSt] at l3 l5 hpt
  rw [← hCt] at l1 l2 l3 l4 l5
  rw [miller_loop_eq (affG2 p) P Ct hCt]
  -- the Frobenius points
  have hpi1 := point_pi1_affine p.1 p.2
  have hpi2 := point_pi2_affine p.1 p.2
  obtain ⟨R1, hR1⟩ : ∃ R1, R1 = G2m.point_pi1 (affG2 p) := ⟨_, rfl⟩
  obtain ⟨X2, hX2⟩ : ∃ X2, X2 = G2m.point_pi2 (affG2 p) := ⟨_, rfl⟩
  have hR1' : G2m.point_pi1 (⟨p.1, p.2, 1⟩ : G2) = R1 := hR1.symm
  have hX2' : G2m.point_pi2 (⟨p.1, p.2, 1⟩ : G2) = X2 := hX2.symm
  rw [hR1'] at hpi1
  rw [hX2'] at hpi2
  rw [← hR1, ← hX2]
  obtain ⟨hR1z, hR1c⟩ := hpi1
  obtain ⟨hX2z, hX2c⟩ := hpi2
  obtain ⟨hR1v, hR1a⟩ := toAff_of_affine R1 hR1z _ hp1 hR1c
  obtain ⟨hX2v, hX2a⟩ := toAff_of_affine X2 hX2z _ hp2 hX2c
  have hR2z : X2.neg.z ≠ 0 := by rw [G2.neg_z]; exact hX2z
  have hR2v := G2.neg_valid X2 hX2v
  have hR2a : G2.toAff X2.neg = -twPt (frobTwist (frobTwist p)) := by
    rw [G2.neg_correct X2 hX2v, hX2a]
  -- first Frobenius step
  obtain ⟨a1, a2, a3, u1, u3⟩ := addStepNaf_refines P Ct.1 R1 l1 l2 hR1z hR1v
    (by rw [l3, hpt, hR1a]; exact hT1) (by rw [l3, hpt, hR1a]; exact hT2)
  rw [l3, hR1a] at a3 u3
  -- second Frobenius step
  obtain ⟨_, _, _, w1, w3⟩ := addStepNaf_refines P (Ct.1.add R1) X2.neg a1 a2 hR2z hR2v
    (by rw [a3, hR2a, hpt]; exact hT3) (by rw [a3, hR2a, hpt, neg_neg]; exact hT4)
  rw [a3, hR2a] at w3
  -- the quotient
  have hden : Ct.2.2 * (G2m.eval_g_line Ct.1 R1 P).2 * (G2m.eval_g_line (Ct.1.add R1) X2.neg P).2 ≠ 0 :=
    mul_ne_zero (mul_ne_zero l4 u1) w1
  rw [Fq12.inverse_eq_inv _ hden, Outcome.unwrap_some, Outcome.bind_ok]
  simp only [pure, Outcome.ok.injEq]
  rw [l5, u3, w3]
  unfold specMillerNaf specTail specLoopNaf
  simp only
  rw [← hSt]
  field_simp

/-! ## 4. main theorems -/

theorem naf_miller_eq_spec_of_eigen (P : G1) (xQ yQ : Fq2)
    (hQ : yQ * yQ = xQ * xQ * xQ + b2) (hord : r • twPt (xQ, yQ) = 0)
    (hE1 : twPt (frobTwist (xQ, yQ)) = q • twPt (xQ, yQ))
    (hE2 : twPt (frobTwist (frobTwist (xQ, yQ))) = q • twPt (frobTwist (xQ, yQ))) :
    G2m.miller_loop (⟨xQ, yQ, 1⟩ : G2) P = .ok (-specMillerNaf P.x P.y xQ yQ) := by
  obtain ⟨t1, t2, t3, t4⟩ := tail_of_eigen hord (twPt_ne_zero _ hQ) hE1 hE2
  exact naf_miller_eq_spec P xQ yQ hQ hord t1 t2 t3 t4

/-- **`G2::miller_loop` on `G2 = ⟨P2⟩`**: for every `Q ≠ O` in the group generated by `P2` and every
    `P` it is `−specMillerNaf` -/
theorem naf_miller_eq_spec_G2 (P : G1) (xQ yQ : Fq2) (hQ : yQ * yQ = xQ * xQ * xQ + b2)
    (k : Nat) (hk : twPt (xQ, yQ) = k • twPt genXY) :
    G2m.miller_loop (⟨xQ, yQ, 1⟩ : G2) P = .ok (-specMillerNaf P.x P.y xQ yQ) := by
  obtain ⟨ho, e1, e2⟩ := eigen_of_multiple (xQ, yQ) hQ k hk
  exact naf_miller_eq_spec_of_eigen P xQ yQ hQ ho e1 e2

theorem final_exponent_even : 2 ∣ (q ^ 12 - 1) / r := by decide +kernel

theorem neg_one_pow_final : (-1 : Fq12) ^ ((q ^ 12 - 1) / r) = 1 := by
  obtain ⟨c, hc⟩ := final_exponent_even
  rw [hc, pow_mul]; norm_num

/-- the form asked for: a factor killed by the final exponentiation -/
theorem naf_miller_eq_spec_G2_factor (xP yP : Fq) (xQ yQ : Fq2) (hQ : yQ * yQ = xQ * xQ * xQ + b2)
    (k : Nat) (hk : twPt (xQ, yQ) = k • twPt genXY) :
    ∃ κ : Fq12, κ ^ ((q ^ 12 - 1) / r) = 1 ∧
      G2m.miller_loop (⟨xQ, yQ, 1⟩ : G2) (⟨xP, yP, 1⟩ : G1) = .ok (κ * specMillerNaf xP yP xQ yQ) := by
  refine ⟨-1, neg_one_pow_final, ?_⟩
  rw [naf_miller_eq_spec_G2 _ xQ yQ hQ k hk, neg_one_mul]

/-- **`pairings::pairing`** on arbitrary Jacobian representatives (`Api.pairing` is this function):
    the reduced textbook Miller function of the affine coordinates -/
theorem pairing_eq_spec_of_eigen (P : G1) (Q : G2) (hPz : P.z ≠ 0) (hPy : P.y ≠ 0) (hQz : Q.z ≠ 0)
    (hQv : G2.Valid Q) (hord : r • G2.toAff Q = 0)
    (hE1 : twPt (frobTwist (Q.x / Q.z ^ 2, Q.y / Q.z ^ 3)) = q • G2.toAff Q)
    (hE2 : twPt (frobTwist (frobTwist (Q.x / Q.z ^ 2, Q.y / Q.z ^ 3)))
      = q • twPt (frobTwist (Q.x / Q.z ^ 2, Q.y / Q.z ^ 3))) :
    Pairings.pairing P Q
      = .ok (specMillerNaf (P.x / P.z ^ 2) (P.y / P.z ^ 3) (Q.x / Q.z ^ 2) (Q.y / Q.z ^ 3) ^ ((q ^ 12 - 1) / r)) := by
  obtain ⟨he, hpt⟩ := twPt_of_valid Q hQz hQv
  rw [← hpt] at hord hE1
  have hm := naf_miller_eq_spec_of_eigen (⟨P.x / P.z ^ 2, P.y / P.z ^ 3, 1⟩ : G1) _ _ he hord hE1 hE2
  have hyP : P.y / P.z ^ 3 ≠ 0 := div_ne_zero hPy (pow_ne_zero _ hPz)
  have hs := specMillerNaf_ne_zero (P.x / P.z ^ 2) (P.y / P.z ^ 3) (Q.x / Q.z ^ 2) (Q.y / Q.z ^ 3) hyP
  unfold Pairings.pairing
  rw [G1.to_affine_spec, G2.to_affine_spec, if_neg hPz, if_neg hQz]
  show (G2m.miller_loop ⟨Q.x / Q.z ^ 2, Q.y / Q.z ^ 3, 1⟩ ⟨P.x / P.z ^ 2, P.y / P.z ^ 3, 1⟩ >>= _) = _
  rw [hm, Outcome.bind_ok, Fq12.final_exponentiation_eq_pow _ (neg_ne_zero.mpr hs), Outcome.bind_ok,
    Outcome.unwrap_some, neg_pow, neg_one_pow_final, one_mul]

/-- **`sm9_core::pairing`** for any Jacobian representatives of a point `P ≠ O` of `E(Fq)` and a
    point `Q ≠ O` of `G2 = ⟨P2⟩` -/
theorem api_pairing_eq_spec_G2 (P : G1) (Q : G2) (hPz : P.z ≠ 0) (hPv : G1.Valid P) (hQz : Q.z ≠ 0)
    (hQv : G2.Valid Q) (k : Nat) (hk : G2.toAff Q = k • G2.toAff (G.one : G2)) :
    Api.pairing P Q
      = .ok (specMillerNaf (P.x / P.z ^ 2) (P.y / P.z ^ 3) (Q.x / Q.z ^ 2) (Q.y / Q.z ^ 3) ^ ((q ^ 12 - 1) / r)) := by
  obtain ⟨he, hpt⟩ := twPt_of_valid Q hQz hQv
  have hg : twPt genXY = G2.toAff (G.one : G2) := by rw [twPt_eq, affG2_gen]
  have hk' : twPt (Q.x / Q.z ^ 2, Q.y / Q.z ^ 3) = k • twPt genXY := by
    rw [hg]; exact hpt.trans hk
  obtain ⟨ho, e1, e2⟩ := eigen_of_multiple (Q.x / Q.z ^ 2, Q.y / Q.z ^ 3) he k hk'
  rw [hpt] at ho e1
  exact pairing_eq_spec_of_eigen P Q hPz (Jac.y_ne_zero b1 Fq.no_two_torsion P hPz (hPv.resolve_left hPz))
    hQz hQv ho e1 e2

/-- **`pairing` on `G2`**, affine inputs -/
theorem pairing_eq_spec_G2 (xP yP : Fq) (hyP : yP ≠ 0) (xQ yQ : Fq2)
    (hQ : yQ * yQ = xQ * xQ * xQ + b2) (k : Nat) (hk : twPt (xQ, yQ) = k • twPt genXY) :
    Pairings.pairing (⟨xP, yP, 1⟩ : G1) (⟨xQ, yQ, 1⟩ : G2)
      = .ok (specMillerNaf xP yP xQ yQ ^ ((q ^ 12 - 1) / r)) := by
  obtain ⟨ho, e1, e2⟩ := eigen_of_multiple (xQ, yQ) hQ k hk
  have hQv : G2.Valid (⟨xQ, yQ, 1⟩ : G2) := G2.valid_of_equation xQ yQ hQ
  have h := pairing_eq_spec_of_eigen (⟨xP, yP, 1⟩ : G1) (⟨xQ, yQ, 1⟩ : G2)
    (by decide +kernel : (1 : Fq) ≠ 0) hyP (one_ne_zero : (1 : Fq2) ≠ 0) hQv
  simp only [one_pow, div_one] at h
  exact h ho e1 e2


/-! ## variants -/

/-- the refinement for every twist point of order `r`, **conditional on `TorsionCyclic`** (the
    `r`-torsion of `E′(Fq2)` is `⟨P2⟩`, `MillerFrobenius.lean`; exactly that hypothesis is missing for
    the unconditional statement) -/
theorem naf_miller_eq_spec_order_r_partial (hcyc : TorsionCyclic) (P : G1) (xQ yQ : Fq2)
    (hQ : yQ * yQ = xQ * xQ * xQ + b2) (hord : r • twPt (xQ, yQ) = 0) :
    G2m.miller_loop (⟨xQ, yQ, 1⟩ : G2) P = .ok (-specMillerNaf P.x P.y xQ yQ) := by
  obtain ⟨k, hk⟩ := hcyc (xQ, yQ) hQ hord
  exact naf_miller_eq_spec_G2 P xQ yQ hQ k hk

theorem pairing_eq_spec_order_r_partial (hcyc : TorsionCyclic) (xP yP : Fq) (hyP : yP ≠ 0) (xQ yQ : Fq2)
    (hQ : yQ * yQ = xQ * xQ * xQ + b2) (hord : r • twPt (xQ, yQ) = 0) :
    Pairings.pairing (⟨xP, yP, 1⟩ : G1) (⟨xQ, yQ, 1⟩ : G2)
      = .ok (specMillerNaf xP yP xQ yQ ^ ((q ^ 12 - 1) / r)) := by
  obtain ⟨k, hk⟩ := hcyc (xQ, yQ) hQ hord
  exact pairing_eq_spec_G2 xP yP hyP xQ yQ hQ k hk

/-- the two entry points agree on `(P, Q)` exactly when the two textbook Miller functions (signed-digit
    chain / binary chain) have the same reduced value there.  The right-hand side for all `P`, `Q` is
    the chain independence of Miller functions; it is not proved in this development (one closed
    instance: `Sm9/Proofs/MillerNafInstance.lean`). -/
theorem api_pairing_eq_fast_pairing_iff (P : G1) (Q : G2) (hPz : P.z ≠ 0) (hPv : G1.Valid P) (hQz : Q.z ≠ 0)
    (hQv : G2.Valid Q) (k : Nat) (hk : G2.toAff Q = k • G2.toAff (G.one : G2)) :
    Api.pairing P Q = Api.fast_pairing P Q ↔
      specMillerNaf (P.x / P.z ^ 2) (P.y / P.z ^ 3) (Q.x / Q.z ^ 2) (Q.y / Q.z ^ 3) ^ ((q ^ 12 - 1) / r)
        = specMiller (P.x / P.z ^ 2) (P.y / P.z ^ 3) (Q.x / Q.z ^ 2) (Q.y / Q.z ^ 3) ^ ((q ^ 12 - 1) / r) := by
  rw [api_pairing_eq_spec_G2 P Q hPz hPv hQz hQv k hk, api_fast_pairing_eq_spec_G2 P Q hPz hPv hQz hQv k hk,
    Outcome.ok.injEq]

/-- satisfiability: `Q = P2`, `k = 1` -/
example (xP yP : Fq) (hyP : yP ≠ 0) :
    Pairings.pairing (⟨xP, yP, 1⟩ : G1) (⟨genXY.1, genXY.2, 1⟩ : G2)
      = .ok (specMillerNaf xP yP genXY.1 genXY.2 ^ ((q ^ 12 - 1) / r)) :=
  pairing_eq_spec_G2 xP yP hyP genXY.1 genXY.2 gen_on_twist 1 (one_nsmul _).symm

end Miller
end Sm9
