import Sm9.Proofs.MillerLines
/-!
# The textbook Miller loop of the R-ate pairing, over Mathlib's Weierstrass points

State `(T, f)`: `T` a point of the twist `E′(Fq2)` in `WeierstrassCurve.Affine.Point` (Mathlib's
group), `f ∈ Fq12`.  One iteration for a bit of `6t+2`:

  `f := f² · l_{T,T}(P)`, `T := T + T`;  if the bit is set: `f := f · l_{T,Q}(P)`, `T := T + Q`

where `l_{A,B}(P)` is `lineSpec` of `Sm9/Proofs/MillerLines.lean` — the line through the untwisted
`ψ(A)`, `ψ(B)` evaluated at `P` — with the slope `WeierstrassCurve.Affine.slope` of Mathlib (chord, or
tangent when `A = B`).  After the loop the two Frobenius steps

  `f := f · l_{T,Q1}(P)`, `T := T + Q1`;  `f := f · l_{T,−Q2}(P)`

with `Q1 = π(Q)`, `Q2 = π(Q1)`, `π(x, y) = (x̄·π₁⁻², ȳ·π₁⁻³)` the `q`-power Frobenius transported to
the twist (`frobTwist_untwist_x/y`: `ψ ∘ π = Frob_q ∘ ψ`).  The loop runs over the binary digits
of `Consts.SM9_LOOP_N = 6t+2` below the leading one, most significant first (`loopIdx`, `bit`),
exactly the addition chain of `G2Prepared::from`.

`lineVal` is total: for `A` or `B` the point at infinity it returns `1`, and for a vertical line
(`A = −B`) it uses Mathlib's slope value `0`; the refinement theorem of
`Sm9/Proofs/MillerPrepared.lean` has hypotheses under which neither case occurs.
-/
namespace Sm9
namespace Miller
open WeierstrassCurve

set_option maxRecDepth 100000

section generic
variable {F : Type} [Field F] [DecidableEq F] {K : Type} [Mul K] [One K]

/-- value of the line through `A` and `B` (tangent if `A = B`); `ℓ x y λ` is the value of the
    line through `(x, y)` with slope `λ` -/
noncomputable def lineVal (W : Affine F) (ℓ : F → F → F → K) : W.Point → W.Point → K
  | .some x1 y1 _, .some x2 y2 _ => ℓ x1 y1 (W.slope x1 x2 y1 y2)
  | _, _ => 1

omit [Mul K] in
theorem lineVal_some (W : Affine F) (ℓ : F → F → F → K) {x1 y1 x2 y2 : F}
    (h1 : W.Nonsingular x1 y1) (h2 : W.Nonsingular x2 y2) :
    lineVal W ℓ (.some x1 y1 h1) (.some x2 y2 h2) = ℓ x1 y1 (W.slope x1 x2 y1 y2) := rfl

/-- one iteration of the Miller loop for the digit at position `i` of `N` -/
noncomputable def specStep (W : Affine F) (ℓ : F → F → F → K) (Q : W.Point) (N : Nat)
    (st : W.Point × K) (i : Nat) : W.Point × K :=
  let f := st.2 * st.2 * lineVal W ℓ st.1 st.1
  let T := st.1 + st.1
  if bit N i then (T + Q, f * lineVal W ℓ T Q) else (T, f)

/-- the double-and-add loop, from `(Q, 1)` -/
noncomputable def specLoop (W : Affine F) (ℓ : F → F → F → K) (Q : W.Point) (N : Nat)
    (idx : List Nat) : W.Point × K :=
  idx.foldl (specStep W ℓ Q N) (Q, 1)

/-- the two final line steps `l_{T,Q1} · l_{T+Q1,−Q2}` -/
noncomputable def specTail (W : Affine F) (ℓ : F → F → F → K) (Q1 Q2 : W.Point)
    (st : W.Point × K) : K :=
  let f := st.2 * lineVal W ℓ st.1 Q1
  let T := st.1 + Q1
  f * lineVal W ℓ T (-Q2)

end generic

/-! ### the point component is the double-and-add chain -/

/-- the multiple of `Q` reached from `m•Q` after the digits at positions `idx` of `N` -/
def chainVal (N : Nat) (idx : List Nat) (m : Nat) : Nat :=
  idx.foldl (fun m i => 2 * m + (if bit N i then 1 else 0)) m

theorem chainVal_loop : chainVal Consts.SM9_LOOP_N loopIdx 1 = Consts.SM9_LOOP_N := by decide +kernel

section
variable {F : Type} [Field F] [DecidableEq F] {K : Type} [Mul K] [One K]

theorem specStep_point (W : Affine F) (ℓ : F → F → F → K) (Q : W.Point) (N : Nat) (st : W.Point × K) (i m : Nat)
    (h : st.1 = m • Q) : (specStep W ℓ Q N st i).1 = (2 * m + (if bit N i then 1 else 0)) • Q := by
  unfold specStep
  split
  · simp only [h]
    rw [add_smul, one_smul, mul_smul, two_smul]
  · simp only [h, add_zero]
    rw [mul_smul, two_smul]

theorem foldl_specStep_point (W : Affine F) (ℓ : F → F → F → K) (Q : W.Point) (N : Nat) (idx : List Nat)
    (st : W.Point × K) (m : Nat) (h : st.1 = m • Q) :
    (idx.foldl (specStep W ℓ Q N) st).1 = chainVal N idx m • Q := by
  induction idx generalizing st m with
  | nil => exact h
  | cons i is ih => exact ih _ _ (specStep_point W ℓ Q N st i m h)
end

/-! ### the function component is non-zero when no line value vanishes -/

section nonzero
variable {F : Type} [Field F] [DecidableEq F] {K : Type} [Field K]

theorem lineVal_ne_zero (W : Affine F) (ℓ : F → F → F → K) (hℓ : ∀ x y l, ℓ x y l ≠ 0) (A B : W.Point) :
    lineVal W ℓ A B ≠ 0 := by
  cases A with
  | zero => exact one_ne_zero
  | some x1 y1 h1 =>
    cases B with
    | zero => exact one_ne_zero
    | some x2 y2 h2 => exact hℓ _ _ _

theorem specStep_ne_zero (W : Affine F) (ℓ : F → F → F → K) (hℓ : ∀ x y l, ℓ x y l ≠ 0) (Q : W.Point) (N : Nat)
    (st : W.Point × K) (i : Nat) (h : st.2 ≠ 0) : (specStep W ℓ Q N st i).2 ≠ 0 := by
  unfold specStep
  have h1 := mul_ne_zero (mul_ne_zero h h) (lineVal_ne_zero W ℓ hℓ st.1 st.1)
  split
  · exact mul_ne_zero h1 (lineVal_ne_zero W ℓ hℓ _ _)
  · exact h1

theorem foldl_specStep_ne_zero (W : Affine F) (ℓ : F → F → F → K) (hℓ : ∀ x y l, ℓ x y l ≠ 0) (Q : W.Point) (N : Nat)
    (idx : List Nat) (st : W.Point × K) (h : st.2 ≠ 0) : (idx.foldl (specStep W ℓ Q N) st).2 ≠ 0 := by
  induction idx generalizing st with
  | nil => exact h
  | cons i is ih => exact ih _ (specStep_ne_zero W ℓ hℓ Q N st i h)

theorem specTail_ne_zero (W : Affine F) (ℓ : F → F → F → K) (hℓ : ∀ x y l, ℓ x y l ≠ 0) (Q1 Q2 : W.Point)
    (st : W.Point × K) (h : st.2 ≠ 0) : specTail W ℓ Q1 Q2 st ≠ 0 :=
  mul_ne_zero (mul_ne_zero h (lineVal_ne_zero W ℓ hℓ _ _)) (lineVal_ne_zero W ℓ hℓ _ _)
end nonzero

/-! ## the SM9 instance -/

/-- the Frobenius constant `π₁` in `Fq2` -/
def pi1F : Fq2 := Fq2.new pi1 0

/-- the `q`-power Frobenius transported to the twist: `(x, y) ↦ (x̄·π₁⁻², ȳ·π₁⁻³)` -/
noncomputable def frobTwist (p : Fq2 × Fq2) : Fq2 × Fq2 :=
  (p.1.unitary_inverse * pi1F⁻¹ ^ 2, p.2.unitary_inverse * pi1F⁻¹ ^ 3)

/-- the point of `E′(Fq2)` with affine coordinates `p` (`O` if `p` is not on the twist) -/
noncomputable def twPt (p : Fq2 × Fq2) := Jac.toAff b2 ⟨p.1, p.2, 1⟩

/-- `l(P)` for the line through `(x, y)` with slope `λ` on the twist -/
noncomputable def lineAt (xP yP : Fq) : Fq2 → Fq2 → Fq2 → Fq12 :=
  fun x y lam => lineSpec x y lam xP yP

/-- **the textbook Miller function of the SM9 R-ate pairing** at `P = (xP, yP)`, `Q = (xQ, yQ)`:
    `f_{6t+2,Q}(P) · l_{[6t+2]Q, π(Q)}(P) · l_{[6t+2]Q + π(Q), −π²(Q)}(P)` by the binary chain -/
noncomputable def specMiller (xP yP : Fq) (xQ yQ : Fq2) : Fq12 :=
  specTail (Jac.Wb b2) (lineAt xP yP) (twPt (frobTwist (xQ, yQ))) (twPt (frobTwist (frobTwist (xQ, yQ))))
    (specLoop (Jac.Wb b2) (lineAt xP yP) (twPt (xQ, yQ)) Consts.SM9_LOOP_N loopIdx)


theorem specMiller_ne_zero (xP yP : Fq) (xQ yQ : Fq2) (hy : yP ≠ 0) : specMiller xP yP xQ yQ ≠ 0 := by
  have hℓ : ∀ x y l, lineAt xP yP x y l ≠ 0 := fun x y l => lineSpec_ne_zero x y l xP yP hy
  apply specTail_ne_zero _ _ hℓ
  exact foldl_specStep_ne_zero _ _ hℓ _ _ _ _ one_ne_zero

/-- the point component of the loop: `[6t+2]Q` -/
theorem specLoop_point (xP yP : Fq) (p : Fq2 × Fq2) :
    (specLoop (Jac.Wb b2) (lineAt xP yP) (twPt p) Consts.SM9_LOOP_N loopIdx).1
      = Consts.SM9_LOOP_N • twPt p := by
  have h := foldl_specStep_point (Jac.Wb b2) (lineAt xP yP) (twPt p) Consts.SM9_LOOP_N loopIdx
    (twPt p, 1) 1 (one_smul _ _).symm
  rw [chainVal_loop] at h
  exact h

/-! ## the Frobenius on the twist -/

theorem pi1F_pow6 : pi1F ^ 6 = -1 := by decide +kernel
theorem pi1F_ne_zero : pi1F ≠ 0 := by decide +kernel
theorem pi1F_inv_pow6 : pi1F⁻¹ ^ 6 = -1 := by
  rw [inv_pow, pi1F_pow6, inv_neg, inv_one]

/-- conjugation of `Fq2` over `Fq` -/
def conj : Fq2 →+* Fq2 where
  toFun a := a.unitary_inverse
  map_one' := by ext <;> simp [Fq2.unitary_inverse]
  map_zero' := by ext <;> simp [Fq2.unitary_inverse]
  map_mul' := by intros; ext <;> (simp [Fq2.unitary_inverse]; ring)
  map_add' := by intros; ext <;> simp [Fq2.unitary_inverse]; ring

theorem conj_apply (a : Fq2) : conj a = a.unitary_inverse := rfl
theorem conj_b2 : b2.unitary_inverse = -b2 := by decide +kernel

theorem frobTwist_equation (p : Fq2 × Fq2) (h : p.2 * p.2 = p.1 * p.1 * p.1 + b2) :
    (frobTwist p).2 * (frobTwist p).2 = (frobTwist p).1 * (frobTwist p).1 * (frobTwist p).1 + b2 := by
  have h' := congrArg conj h
  simp only [map_mul, map_add, conj_apply, conj_b2] at h'
  unfold frobTwist
  simp only
  have e6 := pi1F_inv_pow6
  generalize pi1F⁻¹ = c at e6
  linear_combination (c ^ 6) * h' - b2 * e6

/-! `ψ ∘ π = Frob_q ∘ ψ` for the untwisting `ψ(x, y) = (x w⁻², y w⁻³)` -/

theorem ofFq2_pow_q (a : Fq2) : Fq12.ofFq2 a ^ q = Fq12.ofFq2 a.unitary_inverse := by
  have h := Fq12.pow_q_pow_eq_twist (Fq12.ofFq2 a) 1
  rw [pow_one, pow_one] at h
  rw [h]
  have h6 := Fq12.consts6
  ext <;> simp [Fq12.twist, Fq12.ofFq2_apply, Fq2.unitary_inverse, h6]
  ring

theorem ofFq2_pi1F : Fq12.ofFq2 pi1F = Fq12.ofFq Fq4.alpha1 := by
  rw [← pi1_eq]; rfl

theorem frobTwist_untwist_x (p : Fq2 × Fq2) :
    Fq12.ofFq2 (frobTwist p).1 * (Fq12.w ^ 2)⁻¹ = (Fq12.ofFq2 p.1 * (Fq12.w ^ 2)⁻¹) ^ q := by
  unfold frobTwist
  simp only [map_mul, map_pow, map_inv₀, ofFq2_pi1F]
  rw [mul_pow, ← inv_pow, ← pow_mul, mul_comm 2 q, pow_mul, inv_pow Fq12.w q, Fq12.w_pow_q, ofFq2_pow_q, mul_inv]
  ring

theorem frobTwist_untwist_y (p : Fq2 × Fq2) :
    Fq12.ofFq2 (frobTwist p).2 * (Fq12.w ^ 3)⁻¹ = (Fq12.ofFq2 p.2 * (Fq12.w ^ 3)⁻¹) ^ q := by
  unfold frobTwist
  simp only [map_mul, map_pow, map_inv₀, ofFq2_pi1F]
  rw [mul_pow, ← inv_pow, ← pow_mul, mul_comm 3 q, pow_mul, inv_pow Fq12.w q, Fq12.w_pow_q, ofFq2_pow_q, mul_inv]
  ring

end Miller
end Sm9
