import Sm9.Proofs.FqField
import Sm9.Model.Tower
/-!
# Ring structure of the tower on the model's own operations

`CommRing Fq2`, `CommRing Fq4`, `CommRing Fq12` whose `+ - * 0 1 neg` **are** the model's
`add_inplace … mul_inplace` (sum-of-products, interleaved, Karatsuba).  Every ring axiom
is therefore a statement about the multiplication algorithm as coded.
-/
namespace Sm9

/-! ## Fq helpers -/
@[simp] theorem Fq.sop2 (a0 a1 b0 b1 : Fq) :
    Fq.sum_of_products [a0, a1] [b0, b1] = a0 * b0 + a1 * b1 := by
  simp [Fq.sum_of_products]
@[simp] theorem Fq.sop4 (a0 a1 a2 a3 b0 b1 b2 b3 : Fq) :
    Fq.sum_of_products [a0, a1, a2, a3] [b0, b1, b2, b3] = a0 * b0 + a1 * b1 + a2 * b2 + a3 * b3 := by
  simp [Fq.sum_of_products]
@[simp] theorem Fq.double_def (a : Fq) : a.double = a + a := rfl
@[simp] theorem Fq.triple_def (a : Fq) : a.triple = a + a + a := rfl
@[simp] theorem Fq.squared_def (a : Fq) : a.squared = a * a := rfl

/-! ## Fq2 -/
namespace Fq2
@[ext] theorem ext {a b : Fq2} (h0 : a.c0 = b.c0) (h1 : a.c1 = b.c1) : a = b := by
  cases a; cases b; simp_all
@[simp] theorem add_c0 (a b : Fq2) : (a + b).c0 = a.c0 + b.c0 := rfl
@[simp] theorem add_c1 (a b : Fq2) : (a + b).c1 = a.c1 + b.c1 := rfl
@[simp] theorem sub_c0 (a b : Fq2) : (a - b).c0 = a.c0 - b.c0 := rfl
@[simp] theorem sub_c1 (a b : Fq2) : (a - b).c1 = a.c1 - b.c1 := rfl
@[simp] theorem neg_c0 (a : Fq2) : (-a).c0 = -a.c0 := rfl
@[simp] theorem neg_c1 (a : Fq2) : (-a).c1 = -a.c1 := rfl
@[simp] theorem zero_c0 : (0 : Fq2).c0 = 0 := rfl
@[simp] theorem zero_c1 : (0 : Fq2).c1 = 0 := rfl
@[simp] theorem one_c0 : (1 : Fq2).c0 = 1 := rfl
@[simp] theorem one_c1 : (1 : Fq2).c1 = 0 := rfl
@[simp] theorem mul_inplace_eq (a b : Fq2) : a.mul_inplace b = a * b := rfl
@[simp] theorem mul_c0 (a b : Fq2) : (a * b).c0 = a.c0 * b.c0 + -(a.c1 + a.c1) * b.c1 := by
  show (mul_inplace a b).c0 = _
  simp [mul_inplace]
@[simp] theorem mul_c1 (a b : Fq2) : (a * b).c1 = a.c0 * b.c1 + a.c1 * b.c0 := by
  show (mul_inplace a b).c1 = _
  simp [mul_inplace]

instance instCommRing : CommRing Fq2 where
  add := (· + ·)
  zero := 0
  neg := (- ·)
  sub := (· - ·)
  mul := (· * ·)
  one := 1
  nsmul := nsmulRec
  zsmul := zsmulRec
  npow := npowRec
  add_assoc := by intros; ext <;> simp <;> ring
  zero_add := by intros; ext <;> simp
  add_zero := by intros; ext <;> simp
  add_comm := by intros; ext <;> simp <;> ring
  neg_add_cancel := by intros; ext <;> simp
  sub_eq_add_neg := by intros; ext <;> simp <;> ring
  mul_assoc := by intros; ext <;> simp <;> ring
  one_mul := by intros; ext <;> simp
  mul_one := by intros; ext <;> simp
  left_distrib := by intros; ext <;> simp <;> ring
  right_distrib := by intros; ext <;> simp <;> ring
  zero_mul := by intros; ext <;> simp
  mul_zero := by intros; ext <;> simp
  mul_comm := by intros; ext <;> simp <;> ring

/-- the generator of the extension: u² = −2 -/
theorem i_sq : (Fq2.i * Fq2.i : Fq2) = -(1 + 1) := by
  ext <;> simp [Fq2.i, Fq2.new]

theorem squared_eq_mul (a : Fq2) : a.squared = a * a := by
  ext <;> simp [squared] <;> ring
theorem double_eq (a : Fq2) : a.double = a + a := by ext <;> simp [double]
theorem triple_eq (a : Fq2) : a.triple = a + a + a := by ext <;> simp [triple]
theorem scale_eq (a : Fq2) (k : Fq) : a.scale k = a * Fq2.new k 0 := by
  ext <;> simp [scale, Fq2.new]
theorem mul_by_nonresidue_eq (a : Fq2) : a.mul_by_nonresidue = a * Fq2.i := by
  ext <;> simp [mul_by_nonresidue, Fq2.i, Fq2.new] <;> ring
end Fq2

end Sm9

namespace Sm9

/-! ## Fq4 -/
namespace Fq4
/-- the generator v with v² = u -/
def v : Fq4 := { c0 := 0, c1 := 1 }

@[ext] theorem ext {a b : Fq4} (h0 : a.c0 = b.c0) (h1 : a.c1 = b.c1) : a = b := by
  cases a; cases b; simp_all
@[simp] theorem add_c0 (a b : Fq4) : (a + b).c0 = a.c0 + b.c0 := rfl
@[simp] theorem add_c1 (a b : Fq4) : (a + b).c1 = a.c1 + b.c1 := rfl
@[simp] theorem sub_c0 (a b : Fq4) : (a - b).c0 = a.c0 - b.c0 := rfl
@[simp] theorem sub_c1 (a b : Fq4) : (a - b).c1 = a.c1 - b.c1 := rfl
@[simp] theorem neg_c0 (a : Fq4) : (-a).c0 = -a.c0 := rfl
@[simp] theorem neg_c1 (a : Fq4) : (-a).c1 = -a.c1 := rfl
@[simp] theorem zero_c0 : (0 : Fq4).c0 = 0 := rfl
@[simp] theorem zero_c1 : (0 : Fq4).c1 = 0 := rfl
@[simp] theorem one_c0 : (1 : Fq4).c0 = 1 := rfl
@[simp] theorem one_c1 : (1 : Fq4).c1 = 0 := rfl
@[simp] theorem mul_inplace_eq (a b : Fq4) : a.mul_inplace b = a * b := rfl
@[simp] theorem mul_c0 (a b : Fq4) : (a * b).c0 = a.c0 * b.c0 + a.c1 * b.c1 * Fq2.i := by
  show (mul_inplace a b).c0 = _
  ext <;> simp [mul_inplace, Fq2.i, Fq2.new] <;> ring
@[simp] theorem mul_c1 (a b : Fq4) : (a * b).c1 = a.c0 * b.c1 + a.c1 * b.c0 := by
  show (mul_inplace a b).c1 = _
  ext <;> simp [mul_inplace] <;> ring

instance instCommRing : CommRing Fq4 where
  add := (· + ·)
  zero := 0
  neg := (- ·)
  sub := (· - ·)
  mul := (· * ·)
  one := 1
  nsmul := nsmulRec
  zsmul := zsmulRec
  npow := npowRec
  add_assoc := by intros; ext : 1 <;> simp <;> ring
  zero_add := by intros; ext : 1 <;> simp
  add_zero := by intros; ext : 1 <;> simp
  add_comm := by intros; ext : 1 <;> simp <;> ring
  neg_add_cancel := by intros; ext : 1 <;> simp
  sub_eq_add_neg := by intros; ext : 1 <;> simp <;> ring
  mul_assoc := by intros; ext : 1 <;> simp <;> ring
  one_mul := by intros; ext : 1 <;> simp
  mul_one := by intros; ext : 1 <;> simp
  left_distrib := by intros; ext : 1 <;> simp <;> ring
  right_distrib := by intros; ext : 1 <;> simp <;> ring
  zero_mul := by intros; ext : 1 <;> simp
  mul_zero := by intros; ext : 1 <;> simp
  mul_comm := by intros; ext : 1 <;> simp <;> ring

theorem v_sq : (v * v : Fq4) = { c0 := Fq2.i, c1 := 0 } := by
  ext : 1 <;> simp [v]
theorem mul_by_nonresidue_eq (a : Fq4) : a.mul_by_nonresidue = a * v := by
  ext : 1 <;> simp [mul_by_nonresidue, v, Fq2.mul_by_nonresidue_eq]
theorem squared_eq_mul (a : Fq4) : a.squared = a * a := by
  ext : 1 <;> simp [squared, Fq2.mul_by_nonresidue_eq, Fq2.double_eq] <;> ring
theorem double_eq (a : Fq4) : a.double = a + a := by
  ext : 1 <;> simp [double, Fq2.double_eq]
theorem triple_eq (a : Fq4) : a.triple = a + a + a := by
  ext : 1 <;> simp [triple, Fq2.triple_eq]
/-- `mul_1`: the product with an operand whose c0 is zero (sparsity is a hypothesis,
    as in the Rust comment) -/
theorem mul_1_eq_mul (a b : Fq4) (hb : b.c0 = 0) : a.mul_1 b = a * b := by
  ext : 1 <;> simp [mul_1, hb, Fq2.mul_by_nonresidue_eq] <;> rfl
/-- unconditional form: `mul_1` ignores `b.c0` -/
theorem mul_1_formula (a b : Fq4) : a.mul_1 b = a * { c0 := 0, c1 := b.c1 } := by
  ext : 1 <;> simp [mul_1, Fq2.mul_by_nonresidue_eq] <;> rfl
theorem scale_eq (a : Fq4) (k : Fq2) : a.scale k = a * { c0 := k, c1 := 0 } := by
  ext : 1 <;> simp [scale]
end Fq4

/-! ## Fq12 -/
namespace Fq12
@[ext] theorem ext {a b : Fq12} (h0 : a.c0 = b.c0) (h1 : a.c1 = b.c1) (h2 : a.c2 = b.c2) : a = b := by
  cases a; cases b; simp_all
@[simp] theorem add_c0 (a b : Fq12) : (a + b).c0 = a.c0 + b.c0 := rfl
@[simp] theorem add_c1 (a b : Fq12) : (a + b).c1 = a.c1 + b.c1 := rfl
@[simp] theorem add_c2 (a b : Fq12) : (a + b).c2 = a.c2 + b.c2 := rfl
@[simp] theorem sub_c0 (a b : Fq12) : (a - b).c0 = a.c0 - b.c0 := rfl
@[simp] theorem sub_c1 (a b : Fq12) : (a - b).c1 = a.c1 - b.c1 := rfl
@[simp] theorem sub_c2 (a b : Fq12) : (a - b).c2 = a.c2 - b.c2 := rfl
@[simp] theorem neg_c0 (a : Fq12) : (-a).c0 = -a.c0 := rfl
@[simp] theorem neg_c1 (a : Fq12) : (-a).c1 = -a.c1 := rfl
@[simp] theorem neg_c2 (a : Fq12) : (-a).c2 = -a.c2 := rfl
@[simp] theorem zero_c0 : (0 : Fq12).c0 = 0 := rfl
@[simp] theorem zero_c1 : (0 : Fq12).c1 = 0 := rfl
@[simp] theorem zero_c2 : (0 : Fq12).c2 = 0 := rfl
@[simp] theorem one_c0 : (1 : Fq12).c0 = 1 := rfl
@[simp] theorem one_c1 : (1 : Fq12).c1 = 0 := rfl
@[simp] theorem one_c2 : (1 : Fq12).c2 = 0 := rfl
/-- Karatsuba equals the schoolbook product in Fq4[w]/(w³ − v) -/
@[simp] theorem mul_c0 (a b : Fq12) :
    (a * b).c0 = a.c0 * b.c0 + (a.c1 * b.c2 + a.c2 * b.c1) * Fq4.v := by
  show (mul_inplace a b).c0 = _
  simp only [mul_inplace, Fq4.mul_by_nonresidue_eq]
  show ((a.c1 + a.c2) * (b.c1 + b.c2) - a.c1 * b.c1 - a.c2 * b.c2) * Fq4.v + a.c0 * b.c0 = _
  ring
@[simp] theorem mul_c1 (a b : Fq12) :
    (a * b).c1 = a.c0 * b.c1 + a.c1 * b.c0 + a.c2 * b.c2 * Fq4.v := by
  show (mul_inplace a b).c1 = _
  simp only [mul_inplace, Fq4.mul_by_nonresidue_eq]
  show (a.c0 + a.c1) * (b.c0 + b.c1) - a.c0 * b.c0 - a.c1 * b.c1 + a.c2 * b.c2 * Fq4.v = _
  ring
@[simp] theorem mul_c2 (a b : Fq12) :
    (a * b).c2 = a.c0 * b.c2 + a.c1 * b.c1 + a.c2 * b.c0 := by
  show (mul_inplace a b).c2 = _
  simp only [mul_inplace]
  show (a.c0 + a.c2) * (b.c0 + b.c2) - a.c0 * b.c0 + a.c1 * b.c1 - a.c2 * b.c2 = _
  ring

instance instCommRing : CommRing Fq12 where
  add := (· + ·)
  zero := 0
  neg := (- ·)
  sub := (· - ·)
  mul := (· * ·)
  one := 1
  nsmul := nsmulRec
  zsmul := zsmulRec
  npow := npowRec
  add_assoc := by intros; ext : 1 <;> simp <;> ring
  zero_add := by intros; ext : 1 <;> simp
  add_zero := by intros; ext : 1 <;> simp
  add_comm := by intros; ext : 1 <;> simp <;> ring
  neg_add_cancel := by intros; ext : 1 <;> simp
  sub_eq_add_neg := by intros; ext : 1 <;> simp <;> ring
  mul_assoc := by intros; ext : 1 <;> simp <;> ring
  one_mul := by intros; ext : 1 <;> simp
  mul_one := by intros; ext : 1 <;> simp
  left_distrib := by intros; ext : 1 <;> simp <;> ring
  right_distrib := by intros; ext : 1 <;> simp <;> ring
  zero_mul := by intros; ext : 1 <;> simp
  mul_zero := by intros; ext : 1 <;> simp
  mul_comm := by intros; ext : 1 <;> simp <;> ring

/-- CH-SQR2 squaring equals the product -/
theorem squared_eq_mul (a : Fq12) : a.squared = a * a := by
  ext : 1 <;> simp [squared, Fq4.mul_by_nonresidue_eq, Fq4.squared_eq_mul, Fq4.double_eq] <;> ring
theorem double_eq (a : Fq12) : a.double = a + a := by
  ext : 1 <;> simp [double, Fq4.double_eq]
/-- sparse product: equals the full product when the operand has the stated shape -/
theorem mul_015_eq_mul (a b : Fq12) (h1 : b.c1 = 0) (h2 : b.c2.c0 = 0) : a.mul_015 b = a * b := by
  ext : 1 <;> simp [mul_015, h1, Fq4.mul_by_nonresidue_eq, Fq4.mul_1_eq_mul _ _ h2] <;> ring
/-- unconditional formula for `mul_015` -/
theorem mul_015_formula (a b : Fq12) :
    a.mul_015 b = a * { c0 := b.c0, c1 := 0, c2 := { c0 := 0, c1 := b.c2.c1 } } := by
  ext : 1 <;> simp [mul_015, Fq4.mul_by_nonresidue_eq, Fq4.mul_1_formula] <;> ring
theorem scale_eq (a : Fq12) (k : Fq4) : a.scale k = a * { c0 := k, c1 := 0, c2 := 0 } := by
  ext : 1 <;> simp [scale]
end Fq12

end Sm9
