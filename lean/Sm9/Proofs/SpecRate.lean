import Sm9.Proofs.SpecCurve
import Sm9.Proofs.MillerPrepared
import Sm9.Proofs.MillerFrobenius
/-!
# The oracle `Spec.rate` computes `specMiller ^ ((q^12-1)/r)` on `G1 × G2`
-/
namespace Sm9
namespace SpecRate
open SpecField SpecCurve Miller WeierstrassCurve
open Fq12 (w ofFq ofFq2)

set_option maxRecDepth 100000

make_twin Sm9.Spec.rate as rateT abstracting Sm9.Spec.frobTwist Sm9.Spec.ptAdd

/-- a `for` loop over `idx.map g` that never exits early, simulated by a fold -/
theorem forIn_sim {σ S : Type} (R : S → σ → Prop) (g : ℕ → Bool) (body : Bool → σ → Id (ForInStep σ))
    (step : S → ℕ → S) (Ok : List ℕ → S → Prop)
    (hstep : ∀ i is S0 s, Ok (i :: is) S0 → R S0 s →
      Ok is (step S0 i) ∧ ∃ s', body (g i) s = pure (ForInStep.yield s') ∧ R (step S0 i) s') :
    ∀ idx S0 s, Ok idx S0 → R S0 s →
      ∃ s', forIn (idx.map g) s body = pure s' ∧ R (idx.foldl step S0) s' := by
  intro idx
  induction idx with
  | nil => intro S0 s _ hR; exact ⟨s, rfl, hR⟩
  | cons i is ih =>
    intro S0 s hOk hR
    obtain ⟨hOk', s1, hb, hR1⟩ := hstep i is S0 s hOk hR
    obtain ⟨s', hs', hR'⟩ := ih _ s1 hOk' hR1
    refine ⟨s', ?_, hR'⟩
    rw [List.map_cons, List.forIn_cons, hb, pure_bind]
    exact hs'

theorem lowerBits_a : Spec.lowerBits Spec.a = loopIdx.map (bit Consts.SM9_LOOP_N) := by decide +kernel
theorem finalExponent_eq : Spec.finalExponent = (q ^ 12 - 1) / r := by decide +kernel

theorem forIn_sim' {σ S : Type} (R : S → σ → Prop) (g : ℕ → Bool) (body : Bool → σ → Id (ForInStep σ))
    (step : S → ℕ → S) (Ok : List ℕ → S → Prop) (idx : List ℕ) (S0 : S) (s : σ) (F : Id σ)
    (hF : forIn (idx.map g) s body = F) (hOk : Ok idx S0) (hR : R S0 s)
    (hstep : ∀ i is S0 s, Ok (i :: is) S0 → R S0 s →
      Ok is (step S0 i) ∧ ∃ s', body (g i) s = pure (ForInStep.yield s') ∧ R (step S0 i) s') :
    ∃ s', F = pure s' ∧ R (idx.foldl step S0) s' := by
  obtain ⟨s', h1, h2⟩ := forIn_sim R g body step Ok hstep idx S0 s hOk hR
  exact ⟨s', hF ▸ h1, h2⟩

theorem exists_some {A : W.Point} (h : A ≠ 0) : ∃ x y hn, A = .some x y hn := by
  cases A with
  | zero => exact absurd rfl h
  | some x y hn => exact ⟨x, y, hn, rfl⟩

theorem add_ne_zero_cond {x1 y1 x2 y2 : Fq2} {h1 : W.Nonsingular x1 y1} {h2 : W.Nonsingular x2 y2}
    (h : (Affine.Point.some x1 y1 h1 : W.Point) + .some x2 y2 h2 ≠ 0) : ¬(x1 = x2 ∧ y1 = -y2) := by
  intro hh
  exact h (Affine.Point.add_of_Y_eq hh.1 (by rw [negY_eq]; exact hh.2))

theorem loopN_pos : 0 < Consts.SM9_LOOP_N ∧ Consts.SM9_LOOP_N < r := by decide +kernel

theorem rateT_main (fT : Spec.Q2 × Spec.Q2 → Option (Spec.Q2 × Spec.Q2))
    (pa : {α : Type} → Spec.FieldOps α → Spec.Pt α → Spec.Pt α → Spec.Pt α)
    (hfT : ∀ p : Fq2 × Fq2, fT (toQ2 p.1, toQ2 p.2) = some (toQ2 (frobTwist p).1, toQ2 (frobTwist p).2))
    (hpa : ∀ (x1 y1 : Fq2) (h1 : W.Nonsingular x1 y1) (x2 y2 : Fq2) (h2 : W.Nonsingular x2 y2),
      pa Spec.opsQ2 (some (toQ2 x1, toQ2 y1)) (some (toQ2 x2, toQ2 y2))
        = encPt (Affine.Point.some x1 y1 h1 + Affine.Point.some x2 y2 h2))
    (xP yP : Fq) (xQ yQ : Fq2) (hQ : yQ * yQ = xQ * xQ * xQ + b2)
    (k : ℕ) (hk : twPt (xQ, yQ) = k • twPt genXY) :
    rateT fT @pa (some (xP.val, yP.val)) (some (toQ2 xQ, toQ2 yQ))
      = some (toF12 (specMiller xP yP xQ yQ ^ ((q ^ 12 - 1) / r))) := by
  obtain ⟨hQn, hQp⟩ := twPt_some (xQ, yQ) hQ
  obtain ⟨hr, e1, e2⟩ := eigen_of_multiple (xQ, yQ) hQ k hk
  have h0 := twPt_ne_zero (xQ, yQ) hQ
  obtain ⟨t1, t2, t3, t4⟩ := tail_of_eigen hr h0 e1 e2
  have hp1 := frobTwist_equation (xQ, yQ) hQ
  have hp2 := frobTwist_equation _ hp1
  obtain ⟨hQ1n, hQ1p⟩ := twPt_some _ hp1
  obtain ⟨hQ2n, hQ2p⟩ := twPt_some _ hp2
  have hpt := specLoop_point xP yP (xQ, yQ)
  unfold specMiller specTail
  unfold specLoop at hpt ⊢
  unfold rateT
  simp only []
  rw [lowerBits_a]
  generalize hF : (forIn (List.map (bit Consts.SM9_LOOP_N) loopIdx) _ _ : Id _) = F
  obtain ⟨s', rfl, hR⟩ := forIn_sim'
    (fun (S0 : W.Point × Fq12) s => s = (none, toF12 S0.2, encPt S0.1)) (bit Consts.SM9_LOOP_N) _
    (specStep W (lineAt xP yP) (twPt (xQ, yQ)) Consts.SM9_LOOP_N)
    (fun is S0 => ∃ m, chainOK Consts.SM9_LOOP_N is m = true ∧ S0.1 = m • twPt (xQ, yQ))
    loopIdx (twPt (xQ, yQ), 1) _ F hF ⟨1, chainOK_loop, (one_smul _ _).symm⟩
    (by rw [hQp, toF12_one]; rfl)
    (by
      rintro i is ⟨T, f⟩ s ⟨m, hok, hS⟩ hR
      simp only [chainOK, Bool.and_eq_true, decide_eq_true_eq] at hok
      obtain ⟨⟨hm0, hmr⟩, hok'⟩ := hok
      dsimp only at hS hR
      have hSp := specStep_point W (lineAt xP yP) (twPt (xQ, yQ)) Consts.SM9_LOOP_N (T, f) i m hS
      refine ⟨⟨_, hok', hSp⟩, ?_⟩
      subst hR
      have hTne : T ≠ 0 := by rw [hS]; exact nsmul_ne_zero_of_lt hr h0 hm0 (by omega)
      obtain ⟨x, y, hn, rfl⟩ := exists_some hTne
      have h2m : Affine.Point.some x y hn + .some x y hn = (2 * m) • twPt (xQ, yQ) := by
        rw [hS, mul_smul, two_smul]
      have hT2ne : Affine.Point.some x y hn + .some x y hn ≠ 0 := by
        rw [h2m]; exact nsmul_ne_zero_of_lt hr h0 (by omega) (by omega)
      obtain ⟨x2, y2, hn2, hT2⟩ := exists_some hT2ne
      have hl1 := lineEval_eq x y x y xP yP (add_ne_zero_cond hT2ne)
      unfold specStep
      simp only [encPt_some, hpa x y hn x y hn, hT2, hl1, toF12_mul, lineVal_some, lineAt]
      by_cases hb : bit Consts.SM9_LOOP_N i = true
      · have hT3ne : Affine.Point.some x2 y2 hn2 + .some xQ yQ hQn ≠ 0 := by
          rw [← hT2, h2m, ← hQp, ← succ_nsmul]
          exact nsmul_ne_zero_of_lt hr h0 (by omega) hmr
        have hl2 := lineEval_eq x2 y2 xQ yQ xP yP (add_ne_zero_cond hT3ne)
        simp only [hb, if_true, hpa x2 y2 hn2 xQ yQ hQn, hl2, toF12_mul, hQp, lineVal_some]
        exact ⟨_, rfl, rfl⟩
      · simp only [hb, if_false, Bool.false_eq_true]
        exact ⟨_, rfl, rfl⟩)
  subst hR
  obtain ⟨St, hSt⟩ : ∃ St, St = loopIdx.foldl (specStep W (lineAt xP yP) (twPt (xQ, yQ)) Consts.SM9_LOOP_N)
      (twPt (xQ, yQ), 1) := ⟨_, rfl⟩
  rw [← hSt] at hpt ⊢
  obtain ⟨T, f⟩ := St
  dsimp only at hpt ⊢
  have hTne : T ≠ 0 := by rw [hpt]; exact nsmul_ne_zero_of_lt hr h0 loopN_pos.1 loopN_pos.2
  obtain ⟨x, y, hn, rfl⟩ := exists_some hTne
  have hT3ne : Affine.Point.some x y hn + .some _ _ hQ1n ≠ 0 := by
    rw [hpt, ← hQ1p]; intro h; exact t2 (eq_neg_of_add_eq_zero_left h)
  obtain ⟨x3, y3, hn3, hT3⟩ := exists_some hT3ne
  have hl1 := lineEval_eq x y _ _ xP yP (add_ne_zero_cond hT3ne)
  have hc2 : ¬(x3 = (frobTwist (frobTwist (xQ, yQ))).1 ∧ y3 = - -(frobTwist (frobTwist (xQ, yQ))).2) := by
    rintro ⟨ha, hb⟩
    rw [neg_neg] at hb
    apply t4
    rw [← hpt, hQ1p, hT3, hQ2p]
    subst ha hb
    rfl
  have hl2 := lineEval_eq x3 y3 _ _ xP yP hc2
  simp only [Id.run_bind, hfT (xQ, yQ), hfT (frobTwist (xQ, yQ)), encPt_some,
    finalExponent_eq]
  dsimp only [Id.run]
  simp only [hpa x y hn _ _ hQ1n, hT3, encPt_some, hl1, toQ2_neg, hl2, toF12_mul, toF12_pow]
  rw [hQ1p, hT3, hQ2p, Affine.Point.neg_some, lineVal_some, lineVal_some, negY_eq]
  rfl

/-- **the oracle's R-ate pairing is the Mathlib-level `specMiller ^ ((q¹²−1)/r)`** on `E(Fq) × ⟨P2⟩` -/
theorem spec_rate_eq (xP yP : Fq) (_hP : yP * yP = xP * xP * xP + b1) (xQ yQ : Fq2)
    (hQ : yQ * yQ = xQ * xQ * xQ + b2) (k : ℕ) (hk : twPt (xQ, yQ) = k • twPt genXY) :
    Spec.rate (some (xP.val, yP.val)) (some (toQ2 xQ, toQ2 yQ))
      = some (toF12 (specMiller xP yP xQ yQ ^ ((q ^ 12 - 1) / r))) := by
  rw [rateT.eq]
  exact rateT_main Spec.frobTwist @Spec.ptAdd (fun p => frobTwist_eq p)
    (fun x1 y1 h1 x2 y2 h2 => ptAdd_eq (.some x1 y1 h1) (.some x2 y2 h2)) xP yP xQ yQ hQ k hk

/-! ## identity cases -/

theorem rateT_none_left (fT : Spec.Q2 × Spec.Q2 → Option (Spec.Q2 × Spec.Q2))
    (pa : {α : Type} → Spec.FieldOps α → Spec.Pt α → Spec.Pt α → Spec.Pt α) (Q : Spec.Pt Spec.Q2) :
    rateT fT @pa none Q = some Spec.F12.one := rfl
theorem rateT_none_right (fT : Spec.Q2 × Spec.Q2 → Option (Spec.Q2 × Spec.Q2))
    (pa : {α : Type} → Spec.FieldOps α → Spec.Pt α → Spec.Pt α → Spec.Pt α) (P : Spec.Pt ℕ) :
    rateT fT @pa P none = some Spec.F12.one := by
  cases P <;> rfl

/-- `e(O, Q) = 1` -/
theorem spec_rate_none_left (Q : Spec.Pt Spec.Q2) : Spec.rate none Q = some (toF12 1) := by
  rw [rateT.eq, rateT_none_left, toF12_one]
/-- `e(P, O) = 1` -/
theorem spec_rate_none_right (P : Spec.Pt ℕ) : Spec.rate P none = some (toF12 1) := by
  rw [rateT.eq, rateT_none_right, toF12_one]

end SpecRate
end Sm9
