import Sm9.Proofs.BilinLeftLines
import Sm9.Proofs.MillerNeg
/-!
# The SM9 pairing is additive in its G1 argument

`P1 + P2 = P3` in `E(Fq)`; `G` the line through `P1`, `P2`, `−P3`; `H(U) = (w³·G(ψU))^E` for twist points `U`
(`Sm9/Proofs/BilinLeftLines.lean`).  Every line `l_{T,S}` of the Miller loop satisfies
`l(P1)^E · l(P2)^E · H(T+S) = H(T) · H(S) · l(P3)^E` (`star_pt`); this telescopes along the binary chain
and the two Frobenius lines to `F1^E · F2^E · H(aQ+πQ−π²Q) = F3^E · H(Q)^a · H(πQ) · H(−π²Q)`, and the
correction factor is `1` because `π = [q]` on `⟨P2⟩`, `H∘π = H^q`, `H(−U) = H(U)⁻¹`, `r ∣ a + q − q² + q³`.
-/
namespace Sm9
namespace Miller
open WeierstrassCurve

set_option maxRecDepth 100000

/-- the final exponent -/
local notation "E" => ((q ^ 12 - 1) / r)

/-! ## telescoping, generically -/

section telescoping
variable {F : Type} [Field F] [DecidableEq F] {K : Type} [CommRing K]
variable (W : Affine F) (ℓ1 ℓ2 ℓ3 : F → F → F → K) (H : W.Point → K) (e : ℕ)
  (hstar : ∀ T S : W.Point, T ≠ 0 → S ≠ 0 → T + S ≠ 0 →
    lineVal W ℓ1 T S ^ e * lineVal W ℓ2 T S ^ e * H (T + S) = H T * H S * lineVal W ℓ3 T S ^ e)
  (Q : W.Point) (hn : ∀ k, 0 < k → k < r → k • Q ≠ 0) (N : ℕ)
include hstar hn

theorem step_inv (m : ℕ) (hm : 0 < m) (hmr : 2 * m + 1 < r) (i : ℕ) (f1 f2 f3 : K)
    (hinv : f1 ^ e * f2 ^ e * H (m • Q) = f3 ^ e * H Q ^ m) :
    ∃ g1 g2 g3 : K,
      specStep W ℓ1 Q N (m • Q, f1) i = ((2 * m + (if bit N i then 1 else 0)) • Q, g1) ∧
      specStep W ℓ2 Q N (m • Q, f2) i = ((2 * m + (if bit N i then 1 else 0)) • Q, g2) ∧
      specStep W ℓ3 Q N (m • Q, f3) i = ((2 * m + (if bit N i then 1 else 0)) • Q, g3) ∧
      g1 ^ e * g2 ^ e * H ((2 * m + (if bit N i then 1 else 0)) • Q)
        = g3 ^ e * H Q ^ (2 * m + (if bit N i then 1 else 0)) := by
  have hT : m • Q ≠ 0 := hn m hm (by omega)
  have h2 : m • Q + m • Q = (2 * m) • Q := by rw [mul_smul, two_smul]
  have hTT : m • Q + m • Q ≠ 0 := by rw [h2]; exact hn (2 * m) (by omega) (by omega)
  have s1 := hstar (m • Q) (m • Q) hT hT hTT
  have hdbl : (f1 * f1 * lineVal W ℓ1 (m • Q) (m • Q)) ^ e * (f2 * f2 * lineVal W ℓ2 (m • Q) (m • Q)) ^ e
      * H (m • Q + m • Q) = (f3 * f3 * lineVal W ℓ3 (m • Q) (m • Q)) ^ e * H Q ^ (2 * m) := by
    rw [pow_mul']
    simp only [mul_pow]
    linear_combination (f1 ^ e * f2 ^ e) ^ 2 * s1
      + lineVal W ℓ3 (m • Q) (m • Q) ^ e * (f1 ^ e * f2 ^ e * H (m • Q) + f3 ^ e * H Q ^ m) * hinv
  by_cases hb : bit N i = true
  · have h3 : m • Q + m • Q + Q = (2 * m + 1) • Q := by rw [h2, add_smul, one_smul]
    have hQ0 : Q ≠ 0 := by
      have := hn 1 Nat.one_pos (by omega)
      rwa [one_smul] at this
    have hTQ : m • Q + m • Q + Q ≠ 0 := by rw [h3]; exact hn (2 * m + 1) (by omega) hmr
    have s2 := hstar (m • Q + m • Q) Q hTT hQ0 hTQ
    simp only [if_pos hb]
    refine ⟨f1 * f1 * lineVal W ℓ1 (m • Q) (m • Q) * lineVal W ℓ1 (m • Q + m • Q) Q,
      f2 * f2 * lineVal W ℓ2 (m • Q) (m • Q) * lineVal W ℓ2 (m • Q + m • Q) Q,
      f3 * f3 * lineVal W ℓ3 (m • Q) (m • Q) * lineVal W ℓ3 (m • Q + m • Q) Q, ?_, ?_, ?_, ?_⟩
    · unfold specStep; rw [if_pos hb, h3]
    · unfold specStep; rw [if_pos hb, h3]
    · unfold specStep; rw [if_pos hb, h3]
    · rw [← h3, pow_succ]
      simp only [mul_pow] at hdbl ⊢
      linear_combination
        (f1 ^ e * f1 ^ e * lineVal W ℓ1 (m • Q) (m • Q) ^ e * (f2 ^ e * f2 ^ e * lineVal W ℓ2 (m • Q) (m • Q) ^ e)) * s2
        + H Q * lineVal W ℓ3 (m • Q + m • Q) Q ^ e * hdbl
  · simp only [if_neg hb, add_zero]
    refine ⟨f1 * f1 * lineVal W ℓ1 (m • Q) (m • Q), f2 * f2 * lineVal W ℓ2 (m • Q) (m • Q),
      f3 * f3 * lineVal W ℓ3 (m • Q) (m • Q), ?_, ?_, ?_, ?_⟩
    · unfold specStep; rw [if_neg hb, h2]
    · unfold specStep; rw [if_neg hb, h2]
    · unfold specStep; rw [if_neg hb, h2]
    · rw [← h2]
      exact hdbl

theorem loopL_inv (idx : List ℕ) : ∀ (m : ℕ) (f1 f2 f3 : K), chainOK N idx m = true →
    f1 ^ e * f2 ^ e * H (m • Q) = f3 ^ e * H Q ^ m →
    ∃ g1 g2 g3 : K,
      idx.foldl (specStep W ℓ1 Q N) (m • Q, f1) = (chainVal N idx m • Q, g1) ∧
      idx.foldl (specStep W ℓ2 Q N) (m • Q, f2) = (chainVal N idx m • Q, g2) ∧
      idx.foldl (specStep W ℓ3 Q N) (m • Q, f3) = (chainVal N idx m • Q, g3) ∧
      g1 ^ e * g2 ^ e * H (chainVal N idx m • Q) = g3 ^ e * H Q ^ chainVal N idx m := by
  induction idx with
  | nil =>
    intro m f1 f2 f3 _ hinv
    exact ⟨f1, f2, f3, rfl, rfl, rfl, hinv⟩
  | cons i is ih =>
    intro m f1 f2 f3 hok hinv
    simp only [chainOK, Bool.and_eq_true, decide_eq_true_eq] at hok
    obtain ⟨⟨hm0, hmr⟩, hok'⟩ := hok
    obtain ⟨g1, g2, g3, e1, e2, e3, hinv'⟩ := step_inv W ℓ1 ℓ2 ℓ3 H e hstar Q hn N m hm0 hmr i f1 f2 f3 hinv
    obtain ⟨k1, k2, k3, c1, c2, c3, hk⟩ := ih _ g1 g2 g3 hok' hinv'
    refine ⟨k1, k2, k3, ?_, ?_, ?_, hk⟩
    · rw [List.foldl_cons, e1]; exact c1
    · rw [List.foldl_cons, e2]; exact c2
    · rw [List.foldl_cons, e3]; exact c3

omit hn in
theorem tail_inv (T Q1 Q2 : W.Point) (f1 f2 f3 Z : K) (hT : T ≠ 0) (hQ1 : Q1 ≠ 0) (hQ2 : Q2 ≠ 0)
    (h1 : T + Q1 ≠ 0) (h2 : T + Q1 + -Q2 ≠ 0) (hinv : f1 ^ e * f2 ^ e * H T = f3 ^ e * Z) :
    specTail W ℓ1 Q1 Q2 (T, f1) ^ e * specTail W ℓ2 Q1 Q2 (T, f2) ^ e * H (T + Q1 + -Q2)
      = specTail W ℓ3 Q1 Q2 (T, f3) ^ e * (Z * H Q1 * H (-Q2)) := by
  have s1 := hstar T Q1 hT hQ1 h1
  have s2 := hstar (T + Q1) (-Q2) h1 (neg_ne_zero.mpr hQ2) h2
  unfold specTail
  simp only [mul_pow]
  linear_combination (f1 ^ e * lineVal W ℓ1 T Q1 ^ e * (f2 ^ e * lineVal W ℓ2 T Q1 ^ e)) * s2
    + (f1 ^ e * f2 ^ e * H (-Q2) * lineVal W ℓ3 (T + Q1) (-Q2) ^ e) * s1
    + (H Q1 * lineVal W ℓ3 T Q1 ^ e * H (-Q2) * lineVal W ℓ3 (T + Q1) (-Q2) ^ e) * hinv

end telescoping

/-! ## the SM9 Miller function -/

theorem loopN_bounds : 0 < Consts.SM9_LOOP_N ∧ Consts.SM9_LOOP_N < r := by decide +kernel

/-- `r ∣ a + q − q² + q³`, `a = 6t + 2` -/
theorem rate_rel : ∃ c : ℕ, Consts.SM9_LOOP_N + q + q * q * q = q * q + r * c :=
  ⟨(Consts.SM9_LOOP_N + q + q * q * q - q * q) / r, by decide +kernel⟩

theorem specMiller_add_left_of_line {x1 y1 x2 y2 x3 y3 Γ D : Fq}
    (hd : LineData Fq12.ofFq b1 x1 y1 x2 y2 x3 y3 Γ D)
    (xQ yQ : Fq2) (hQ : yQ * yQ = xQ * xQ * xQ + b2) (k : ℕ) (hk : twPt (xQ, yQ) = k • twPt genXY) :
    specMiller x3 y3 xQ yQ ^ E = specMiller x1 y1 xQ yQ ^ E * specMiller x2 y2 xQ yQ ^ E := by
  obtain ⟨ho, e1, e2⟩ := eigen_of_multiple (xQ, yQ) hQ k hk
  have h0 := twPt_ne_zero (xQ, yQ) hQ
  have hQ1 := frobTwist_equation (xQ, yQ) hQ
  have hQ2 := frobTwist_equation (frobTwist (xQ, yQ)) hQ1
  obtain ⟨-, t2, -, t4⟩ := tail_of_eigen ho h0 e1 e2
  have f1 := frobHom_twPt (xQ, yQ) hQ
  have f2 := frobHom_twPt (frobTwist (xQ, yQ)) hQ1
  have n1 := twPt_ne_zero (frobTwist (xQ, yQ)) hQ1
  have n2 := twPt_ne_zero (frobTwist (frobTwist (xQ, yQ))) hQ2
  obtain ⟨c, hc⟩ := rate_rel
  unfold specMiller specLoop
  generalize twPt (xQ, yQ) = Qp at *
  generalize twPt (frobTwist (xQ, yQ)) = Q1 at *
  generalize twPt (frobTwist (frobTwist (xQ, yQ))) = Q2 at *
  have hn : ∀ k, 0 < k → k < r → k • Qp ≠ 0 := fun k hk hlt => nsmul_ne_zero_of_lt ho h0 hk hlt
  have hstar := star_pt hd
  -- the loop
  obtain ⟨g1, g2, g3, c1, c2, c3, hloop⟩ := loopL_inv (Jac.Wb b2) (lineAt x1 y1) (lineAt x2 y2)
    (lineAt x3 y3) (Hpt Γ D) E hstar Qp hn Consts.SM9_LOOP_N loopIdx 1 1 1 1 chainOK_loop
    (by simp only [one_smul, one_pow, one_mul, pow_one])
  rw [one_smul, chainVal_loop] at c1 c2 c3
  rw [chainVal_loop] at hloop
  rw [c1, c2, c3]
  -- the two Frobenius lines
  have hT : Consts.SM9_LOOP_N • Qp ≠ 0 := hn _ loopN_bounds.1 loopN_bounds.2
  have ht := tail_inv (Jac.Wb b2) (lineAt x1 y1) (lineAt x2 y2) (lineAt x3 y3) (Hpt Γ D) E hstar
    (Consts.SM9_LOOP_N • Qp) Q1 Q2 g1 g2 g3 (Hpt Γ D Qp ^ Consts.SM9_LOOP_N) hT n1 n2
    (fun h => t2 (eq_neg_of_add_eq_zero_left h)) (fun h => t4 (add_neg_eq_zero.mp h)) hloop
  -- the correction factor
  have HQ1 : Hpt Γ D Q1 = Hpt Γ D Qp ^ q := by rw [← f1, Hpt_frob]
  have HQ2 : Hpt Γ D Q2 = Hpt Γ D Qp ^ (q * q) := by rw [← f2, Hpt_frob, HQ1, ← pow_mul]
  have HQ3 : Hpt Γ D (frobHom Q2) = Hpt Γ D Qp ^ (q * q * q) := by rw [Hpt_frob, HQ2, ← pow_mul]
  have hQ3 : frobHom Q2 = (q * q * q) • Qp := by
    rw [e2, map_nsmul, f2, e2, e1, ← mul_nsmul Qp q q, ← mul_nsmul Qp (q * q) q]
  have hQ2' : Q2 = (q * q) • Qp := by rw [e2, e1, ← mul_nsmul]
  have key : Consts.SM9_LOOP_N • Qp + q • Qp + (q * q * q) • Qp = (q * q) • Qp := by
    rw [← add_nsmul, ← add_nsmul, hc, add_nsmul, mul_nsmul Qp r c, ho, nsmul_zero, add_zero]
  have hR : Consts.SM9_LOOP_N • Qp + Q1 + -Q2 = -frobHom Q2 := by
    apply eq_neg_of_add_eq_zero_left
    rw [hQ3, hQ2', e1, ← key]
    abel
  rw [hR] at ht
  have m3 := Hpt_neg hd (frobHom Q2)
  have m2 := Hpt_neg hd Q2
  have hrel : Hpt Γ D Qp ^ Consts.SM9_LOOP_N * Hpt Γ D Qp ^ q * Hpt Γ D Qp ^ (q * q * q)
      = Hpt Γ D Qp ^ (q * q) := by
    rw [← pow_add, ← pow_add, hc, pow_add, pow_mul _ r c, Hpt_pow_r, one_pow, mul_one]
  have hB : Hpt Γ D Qp ^ (q * q) ≠ 0 := pow_ne_zero _ (Hpt_ne_zero Γ D Qp)
  rw [HQ3] at m3
  rw [HQ2] at m2
  rw [HQ1] at ht
  refine (mul_right_cancel₀ hB ?_).symm
  generalize Hpt Γ D Qp ^ (q * q) = B at *
  generalize Hpt Γ D Qp ^ (q * q * q) = C at *
  generalize Hpt Γ D Qp ^ q = A at *
  generalize Hpt Γ D Qp ^ Consts.SM9_LOOP_N = hN at *
  generalize Hpt Γ D (-frobHom Q2) = HR at *
  generalize Hpt Γ D (-Q2) = Hm2 at *
  generalize specTail (Jac.Wb b2) (lineAt x1 y1) Q1 Q2 (Consts.SM9_LOOP_N • Qp, g1) ^ E = X1 at *
  generalize specTail (Jac.Wb b2) (lineAt x2 y2) Q1 Q2 (Consts.SM9_LOOP_N • Qp, g2) ^ E = X2 at *
  generalize specTail (Jac.Wb b2) (lineAt x3 y3) Q1 Q2 (Consts.SM9_LOOP_N • Qp, g3) ^ E = X3 at *
  linear_combination (B * C) * ht - (X1 * X2 * B) * m3 + (X3 * hN * A * C) * m2 + X3 * hrel

/-- **MAIN: the reduced Miller function of the SM9 R-ate pairing is additive in `P`** -/
theorem specMiller_add_left (x1 y1 x2 y2 x3 y3 : Fq)
    (h1 : Jac.NS b1 x1 y1) (h2 : Jac.NS b1 x2 y2) (h3 : Jac.NS b1 x3 y3)
    (hadd : (Affine.Point.some x1 y1 h1 : Jac.Pt b1) + Affine.Point.some x2 y2 h2
      = Affine.Point.some x3 y3 h3)
    (xQ yQ : Fq2) (hQ : yQ * yQ = xQ * xQ * xQ + b2) (k : ℕ) (hk : twPt (xQ, yQ) = k • twPt genXY) :
    specMiller x3 y3 xQ yQ ^ E = specMiller x1 y1 xQ yQ ^ E * specMiller x2 y2 xQ yQ ^ E := by
  obtain ⟨Γ, D, hd⟩ := lineData_of_add Fq12.ofFq b1 h1 h2 h3 hadd
  exact specMiller_add_left_of_line hd xQ yQ hQ k hk

/-! ## the API level -/

theorem api_fast_pairing_ok (P : G1) (Q : G2) (hP : G1.Valid P) (hQ : G2.Valid Q)
    (k : ℕ) (hk : G2.toAff Q = k • G2.toAff (G.one : G2)) : ∃ g, Api.fast_pairing P Q = .ok g := by
  by_cases hPz : P.z = 0
  · exact ⟨_, fast_pairing_left_identity P Q hPz⟩
  by_cases hQz : Q.z = 0
  · exact ⟨_, fast_pairing_right_identity P Q hQz⟩
  exact ⟨_, api_fast_pairing_eq_spec_G2 P Q hPz hP hQz hQ k hk⟩

theorem G1.z_eq_zero_of_toAff (P : G1) (hP : G1.Valid P) (h : G1.toAff P = 0) : P.z = 0 := by
  by_contra hz
  have h' : Jac.toAff b1 P = 0 := h
  rw [Jac.toAff_some b1 P hz (hP.resolve_left hz)] at h'
  exact Affine.Point.some_ne_zero _ h'

/-- **COROLLARY: `e(P + P', Q) = e(P, Q)·e(P', Q)` for `fast_pairing`**, all valid inputs (identities,
    `P' = ±P`, any Jacobian representatives), `Q ∈ ⟨P2⟩` -/
theorem api_fast_pairing_add_left (P P' : G1) (Q : G2) (hP : G1.Valid P) (hP' : G1.Valid P') (hQ : G2.Valid Q)
    (k : ℕ) (hk : G2.toAff Q = k • G2.toAff (G.one : G2)) :
    ∃ g g' : Fq12, Api.fast_pairing P Q = .ok g ∧ Api.fast_pairing P' Q = .ok g' ∧
      Api.fast_pairing (P.add P') Q = .ok (g * g') := by
  have hv := G1.add_valid P P' hP hP'
  have hc := G1.add_correct P P' hP hP'
  by_cases hQz : Q.z = 0
  · refine ⟨1, 1, fast_pairing_right_identity P Q hQz, fast_pairing_right_identity P' Q hQz, ?_⟩
    rw [one_mul]; exact fast_pairing_right_identity _ Q hQz
  by_cases hPz : P.z = 0
  · obtain ⟨g', hg'⟩ := api_fast_pairing_ok P' Q hP' hQ k hk
    refine ⟨1, g', fast_pairing_left_identity P Q hPz, hg', ?_⟩
    rw [one_mul, ← hg']
    apply fast_pairing_congr _ _ _ _ _ rfl
    apply G1.to_affine_congr _ _ hv hP'
    rw [hc, G1.toAff_zero P hPz, zero_add]
  by_cases hPz' : P'.z = 0
  · obtain ⟨g, hg⟩ := api_fast_pairing_ok P Q hP hQ k hk
    refine ⟨g, 1, hg, fast_pairing_left_identity P' Q hPz', ?_⟩
    rw [mul_one, ← hg]
    apply fast_pairing_congr _ _ _ _ _ rfl
    apply G1.to_affine_congr _ _ hv hP
    rw [hc, G1.toAff_zero P' hPz', add_zero]
  by_cases hsum : G1.toAff P + G1.toAff P' = 0
  · have hz : (P.add P').z = 0 := G1.z_eq_zero_of_toAff _ hv (hc.trans hsum)
    obtain ⟨g, g', a1, a2, a3⟩ := fast_pairing_neg_left P Q hPz hP hQz hQ k hk
    refine ⟨g, g', a1, ?_, ?_⟩
    · rw [← a2]
      apply fast_pairing_congr _ _ _ _ _ rfl
      apply G1.to_affine_congr _ _ hP' (G1.neg_valid P hP)
      rw [G1.neg_correct P hP]
      exact eq_neg_of_add_eq_zero_right hsum
    · rw [mul_comm, a3]
      exact fast_pairing_left_identity _ Q hz
  · have hz : (P.add P').z ≠ 0 := by
      intro hz
      apply hsum
      rw [← hc, G1.toAff_zero _ hz]
    have hn1 := hP.resolve_left hPz
    have hn2 := hP'.resolve_left hPz'
    have hn3 := hv.resolve_left hz
    have hadd : (Affine.Point.some _ _ hn1 : Jac.Pt b1) + Affine.Point.some _ _ hn2
        = Affine.Point.some _ _ hn3 := by
      rw [← Jac.toAff_some b1 P hPz hn1, ← Jac.toAff_some b1 P' hPz' hn2, ← Jac.toAff_some b1 _ hz hn3]
      exact hc.symm
    obtain ⟨he, hpt⟩ := twPt_of_valid Q hQz hQ
    have hg : twPt genXY = G2.toAff (G.one : G2) := by rw [twPt_eq, affG2_gen]
    have hk' : twPt (Q.x / Q.z ^ 2, Q.y / Q.z ^ 3) = k • twPt genXY := by
      rw [hg]; exact hpt.trans hk
    have main := specMiller_add_left _ _ _ _ _ _ hn1 hn2 hn3 hadd (Q.x / Q.z ^ 2) (Q.y / Q.z ^ 3) he k hk'
    refine ⟨_, _, api_fast_pairing_eq_spec_G2 P Q hPz hP hQz hQ k hk,
      api_fast_pairing_eq_spec_G2 P' Q hPz' hP' hQz hQ k hk, ?_⟩
    rw [api_fast_pairing_eq_spec_G2 _ Q hz hv hQz hQ k hk, main]

/-- **COROLLARY: `e(P + P', Q) = e(P, Q)·e(P', Q)` for `pairing`** -/
theorem api_pairing_add_left (P P' : G1) (Q : G2) (hP : G1.Valid P) (hP' : G1.Valid P') (hQ : G2.Valid Q)
    (k : ℕ) (hk : G2.toAff Q = k • G2.toAff (G.one : G2)) :
    ∃ g g' : Fq12, Api.pairing P Q = .ok g ∧ Api.pairing P' Q = .ok g' ∧
      Api.pairing (P.add P') Q = .ok (g * g') := by
  rw [api_pairing_eq_fast_pairing P Q hP hQ k hk, api_pairing_eq_fast_pairing P' Q hP' hQ k hk,
    api_pairing_eq_fast_pairing (P.add P') Q (G1.add_valid P P' hP hP') hQ k hk]
  exact api_fast_pairing_add_left P P' Q hP hP' hQ k hk

/-- the same for the prepared API -/
theorem api_prepared_pairing_add_left (P P' : G1) (Q : G2) (hP : G1.Valid P) (hP' : G1.Valid P')
    (hQ : G2.Valid Q) (k : ℕ) (hk : G2.toAff Q = k • G2.toAff (G.one : G2)) :
    ∃ g g' : Fq12, (do let pr ← Api.prepare Q; Api.preparedPairing pr P) = .ok g ∧
      (do let pr ← Api.prepare Q; Api.preparedPairing pr P') = .ok g' ∧
      (do let pr ← Api.prepare Q; Api.preparedPairing pr (P.add P')) = .ok (g * g') := by
  rw [api_prepared_eq_fast, api_prepared_eq_fast, api_prepared_eq_fast]
  exact api_fast_pairing_add_left P P' Q hP hP' hQ k hk

end Miller
end Sm9
