import Sm9.Proofs.BilinLeft
import Sm9.Proofs.BilinRight
import Sm9.Proofs.RepIndep
import Sm9.Proofs.MillerFrobEquivariant
import Sm9.Proofs.Prime
/-!
# Bilinearity of the SM9 pairing

From additivity of `Api.pairing` in each argument (`api_pairing_add_left`, `api_pairing_add_right`),
representative independence and the order of the values: for all valid `P`, all `Q ∈ ⟨P2⟩`, all
scalars `a b : Fr`,  `pairing (a·P) (b·Q) = pairing P Q ^ (a·b)`, identities and zero scalars included;
the same for `fast_pairing` and the prepared path.
-/
set_option maxRecDepth 100000
namespace Sm9
namespace Miller

private theorem Fq12.one_eq_one_b : Fq12.one = (1 : Fq12) := rfl

/-! ## identities -/

theorem G1.z_eq_zero_of_toAff2 (P : G1) (hP : G1.Valid P) (h : G1.toAff P = 0) : P.z = 0 := by
  by_contra hz
  rw [G1.toAff_some P hz (hP.resolve_left hz)] at h
  exact WeierstrassCurve.Affine.Point.some_ne_zero _ h

theorem G2.z_eq_zero_of_toAff2 (Q : G2) (hQ : G2.Valid Q) (h : G2.toAff Q = 0) : Q.z = 0 := by
  by_contra hz
  rw [G2.toAff_some Q hz (hQ.resolve_left hz)] at h
  exact WeierstrassCurve.Affine.Point.some_ne_zero _ h

theorem G1.toAff_eq_zero_iff (P : G1) (hP : G1.Valid P) : G1.toAff P = 0 ↔ P.z = 0 :=
  ⟨G1.z_eq_zero_of_toAff2 P hP, G1.toAff_zero P⟩

theorem G2.toAff_eq_zero_iff (Q : G2) (hQ : G2.Valid Q) : G2.toAff Q = 0 ↔ Q.z = 0 :=
  ⟨G2.z_eq_zero_of_toAff2 Q hQ, G2.toAff_zero Q⟩

private theorem G1.zero_valid_b : G1.Valid (G.zero : G1) := Or.inl rfl
private theorem G2.zero_valid_b : G2.Valid (G.zero : G2) := Or.inl rfl

/-! ## iterated addition: a representative of `n • P` -/

/-- `n`-fold sum of `P` by the model's own `add` -/
def nrep {F : Type} [FieldElement F] (P : G F) : ℕ → G F
  | 0 => G.zero
  | n + 1 => (nrep P n).add P

theorem G1.nrep_valid (P : G1) (hP : G1.Valid P) : ∀ n, G1.Valid (nrep P n)
  | 0 => G1.zero_valid_b
  | n + 1 => G1.add_valid _ _ (G1.nrep_valid P hP n) hP

theorem G1.nrep_correct (P : G1) (hP : G1.Valid P) : ∀ n, G1.toAff (nrep P n) = n • G1.toAff P
  | 0 => by rw [zero_nsmul]; exact G1.toAff_zero _ rfl
  | n + 1 => by
    show G1.toAff ((nrep P n).add P) = _
    rw [G1.add_correct _ _ (G1.nrep_valid P hP n) hP, G1.nrep_correct P hP n, succ_nsmul]

theorem G2.nrep_valid (Q : G2) (hQ : G2.Valid Q) : ∀ n, G2.Valid (nrep Q n)
  | 0 => G2.zero_valid_b
  | n + 1 => G2.add_valid _ _ (G2.nrep_valid Q hQ n) hQ

theorem G2.nrep_correct (Q : G2) (hQ : G2.Valid Q) : ∀ n, G2.toAff (nrep Q n) = n • G2.toAff Q
  | 0 => by rw [zero_nsmul]; exact G2.toAff_zero _ rfl
  | n + 1 => by
    show G2.toAff ((nrep Q n).add Q) = _
    rw [G2.add_correct _ _ (G2.nrep_valid Q hQ n) hQ, G2.nrep_correct Q hQ n, succ_nsmul]

/-- multiples of a point of `⟨P2⟩` stay in `⟨P2⟩` -/
theorem G2.nrep_span (Q : G2) (hQ : G2.Valid Q) (k : ℕ) (hk : G2.toAff Q = k • G2.toAff (G.one : G2)) (n : ℕ) :
    G2.toAff (nrep Q n) = (n * k) • G2.toAff (G.one : G2) := by
  rw [G2.nrep_correct Q hQ n, hk, mul_nsmul']

theorem G2.mul_span (Q : G2) (hQ : G2.Valid Q) (k : ℕ) (hk : G2.toAff Q = k • G2.toAff (G.one : G2)) (b : Fr) :
    G2.toAff (Q.mul b) = (b.val * k) • G2.toAff (G.one : G2) := by
  rw [G2.mul_correct Q hQ b, hk, mul_nsmul']

/-- the negative of a point of `⟨P2⟩` is a natural multiple of `P2` -/
theorem G2.neg_span (Q : G2) (hQ : G2.Valid Q) (k : ℕ) (hk : G2.toAff Q = k • G2.toAff (G.one : G2)) :
    G2.toAff Q.neg = ((r - 1) * k) • G2.toAff (G.one : G2) := by
  have hg : r • G2.toAff (G.one : G2) = 0 := by
    have := gen_order
    rwa [twPt_eq, affG2_gen] at this
  have hr1 : r - 1 + 1 = r := Nat.sub_add_cancel r_prime.pos
  rw [G2.neg_correct Q hQ, hk, mul_nsmul']
  refine neg_eq_of_add_eq_zero_left ?_
  calc (r - 1) • k • G2.toAff (G.one : G2) + k • G2.toAff (G.one : G2)
      = (r - 1 + 1) • k • G2.toAff (G.one : G2) := by rw [add_nsmul, one_nsmul]
    _ = k • r • G2.toAff (G.one : G2) := by rw [hr1, nsmul_left_comm]
    _ = 0 := by rw [hg, nsmul_zero]

/-! ## `Api.pairing` -/

section
variable (P : G1) (Q : G2) (hP : G1.Valid P) (hQ : G2.Valid Q) (k : ℕ)
  (hk : G2.toAff Q = k • G2.toAff (G.one : G2))
include hP hQ hk

/-- **`pairing()` never panics** on valid inputs -/
theorem api_pairing_total : ∃ g, Api.pairing P Q = .ok g := by
  obtain ⟨g, _, h, _⟩ := api_pairing_add_left P P Q hP hP hQ k hk
  exact ⟨g, h⟩

/-- every value of `pairing()` has order dividing `r` (identities included) -/
theorem api_pairing_pow_r (g : Fq12) (hg : Api.pairing P Q = .ok g) : g ^ r = 1 := by
  by_cases hPz : P.z = 0
  · rw [pairing_left_identity P Q hPz] at hg
    rw [← Outcome.ok.inj hg, Fq12.one_eq_one_b, one_pow]
  by_cases hQz : Q.z = 0
  · rw [pairing_right_identity P Q hQz] at hg
    rw [← Outcome.ok.inj hg, Fq12.one_eq_one_b, one_pow]
  exact api_pairing_order P Q hPz hP hQz hQ k hk g hg

theorem api_pairing_nrep_left (n : ℕ) :
    ∃ g, Api.pairing P Q = .ok g ∧ Api.pairing (nrep P n) Q = .ok (g ^ n) := by
  induction n with
  | zero =>
    obtain ⟨g, hg⟩ := api_pairing_total P Q hP hQ k hk
    refine ⟨g, hg, ?_⟩
    rw [pow_zero]
    exact pairing_left_identity _ Q rfl
  | succ n ih =>
    obtain ⟨g, hg, hn⟩ := ih
    obtain ⟨g1, g2, h1, h2, h3⟩ := api_pairing_add_left (nrep P n) P Q (G1.nrep_valid P hP n) hP hQ k hk
    have e1 : g ^ n = g1 := Outcome.ok.inj (hn.symm.trans h1)
    have e2 : g = g2 := Outcome.ok.inj (hg.symm.trans h2)
    refine ⟨g, hg, ?_⟩
    show Api.pairing ((nrep P n).add P) Q = _
    rw [h3, ← e1, ← e2, pow_succ]

/-- **`e([n]P, Q) = e(P, Q)ⁿ`**, for any valid representative `P'` of `[n]P` -/
theorem api_pairing_nsmul_left (n : ℕ) (P' : G1) (hP' : G1.Valid P') (h : G1.toAff P' = n • G1.toAff P) :
    ∃ g, Api.pairing P Q = .ok g ∧ Api.pairing P' Q = .ok (g ^ n) := by
  obtain ⟨g, hg, hn⟩ := api_pairing_nrep_left P Q hP hQ k hk n
  refine ⟨g, hg, ?_⟩
  rw [← hn]
  exact pairing_congr _ _ _ _
    (G1.to_affine_congr P' (nrep P n) hP' (G1.nrep_valid P hP n) (h.trans (G1.nrep_correct P hP n).symm)) rfl

omit hQ hk in
theorem api_pairing_nrep_right (hQ : G2.Valid Q) (hk : G2.toAff Q = k • G2.toAff (G.one : G2)) (n : ℕ) :
    ∃ g, Api.pairing P Q = .ok g ∧ Api.pairing P (nrep Q n) = .ok (g ^ n) := by
  induction n with
  | zero =>
    obtain ⟨g, hg⟩ := api_pairing_total P Q hP hQ k hk
    refine ⟨g, hg, ?_⟩
    rw [pow_zero]
    exact pairing_right_identity P _ rfl
  | succ n ih =>
    obtain ⟨g, hg, hn⟩ := ih
    obtain ⟨g1, g2, h1, h2, h3⟩ := api_pairing_add_right P (nrep Q n) Q hP (G2.nrep_valid Q hQ n) hQ
      (n * k) k (G2.nrep_span Q hQ k hk n) hk
    have e1 : g ^ n = g1 := Outcome.ok.inj (hn.symm.trans h1)
    have e2 : g = g2 := Outcome.ok.inj (hg.symm.trans h2)
    refine ⟨g, hg, ?_⟩
    show Api.pairing P ((nrep Q n).add Q) = _
    rw [h3, ← e1, ← e2, pow_succ]

/-- **`e(P, [n]Q) = e(P, Q)ⁿ`**, for any valid representative `Q'` of `[n]Q` -/
theorem api_pairing_nsmul_right (n : ℕ) (Q' : G2) (hQ' : G2.Valid Q') (h : G2.toAff Q' = n • G2.toAff Q) :
    ∃ g, Api.pairing P Q = .ok g ∧ Api.pairing P Q' = .ok (g ^ n) := by
  obtain ⟨g, hg, hn⟩ := api_pairing_nrep_right P Q hP k hQ hk n
  refine ⟨g, hg, ?_⟩
  rw [← hn]
  exact pairing_congr _ _ _ _ rfl
    (G2.to_affine_congr Q' (nrep Q n) hQ' (G2.nrep_valid Q hQ n) (h.trans (G2.nrep_correct Q hQ n).symm))

/-- **`e([a]P, Q) = e(P, Q)ᵃ`** -/
theorem api_pairing_mul_left (a : Fr) :
    ∃ g, Api.pairing P Q = .ok g ∧ Api.pairing (P.mul a) Q = .ok (g ^ a.val) :=
  api_pairing_nsmul_left P Q hP hQ k hk a.val (P.mul a) (G1.mul_valid P hP a) (G1.mul_correct P hP a)

/-- **`e(P, [b]Q) = e(P, Q)ᵇ`** -/
theorem api_pairing_mul_right (b : Fr) :
    ∃ g, Api.pairing P Q = .ok g ∧ Api.pairing P (Q.mul b) = .ok (g ^ b.val) :=
  api_pairing_nsmul_right P Q hP hQ k hk b.val (Q.mul b) (G2.mul_valid Q hQ b) (G2.mul_correct Q hQ b)

end

private theorem pow_mod_r (g : Fq12) (hg : g ^ r = 1) (n : ℕ) : g ^ (n % r) = g ^ n := by
  conv_rhs => rw [← Nat.div_add_mod n r, pow_add, pow_mul, hg, one_pow, one_mul]

private theorem Fr.mul_val (a b : Fr) : (a * b).val = a.val * b.val % r := rfl

private theorem gtPow_eq (g : Fq12) (a : Fr) : Api.gtPow g a = g ^ a.val := Fq12.pow_eq g a.val

section
variable (P : G1) (Q : G2) (hP : G1.Valid P) (hQ : G2.Valid Q) (k : ℕ)
  (hk : G2.toAff Q = k • G2.toAff (G.one : G2))
include hP hQ hk

/-- **bilinearity: `e([a]P, [b]Q) = e(P, Q)^(ab)`**, with the exponent also as the product in `Fr` -/
theorem api_pairing_bilinear (a b : Fr) :
    ∃ g, Api.pairing P Q = .ok g ∧ Api.pairing (P.mul a) (Q.mul b) = .ok (g ^ (a.val * b.val)) ∧
      Api.pairing (P.mul a) (Q.mul b) = .ok (Api.gtPow g (a * b)) := by
  obtain ⟨g, hg, hb⟩ := api_pairing_mul_right P Q hP hQ k hk b
  obtain ⟨g', hg', ha⟩ := api_pairing_mul_left P (Q.mul b) hP (G2.mul_valid Q hQ b) (b.val * k)
    (G2.mul_span Q hQ k hk b) a
  have e : g ^ b.val = g' := Outcome.ok.inj (hb.symm.trans hg')
  have hab : Api.pairing (P.mul a) (Q.mul b) = .ok (g ^ (a.val * b.val)) := by
    rw [ha, ← e, ← pow_mul, mul_comm]
  refine ⟨g, hg, hab, ?_⟩
  rw [hab, gtPow_eq, Fr.mul_val, pow_mod_r g (api_pairing_pow_r P Q hP hQ k hk g hg)]

/-! ## negation and subtraction -/

/-- **`e(−P, Q) · e(P, Q) = 1`** -/
theorem api_pairing_neg_left :
    ∃ g g' : Fq12, Api.pairing P Q = .ok g ∧ Api.pairing P.neg Q = .ok g' ∧ g' * g = 1 := by
  have hN := G1.neg_valid P hP
  obtain ⟨g', g, h1, h2, h3⟩ := api_pairing_add_left P.neg P Q hN hP hQ k hk
  refine ⟨g, g', h2, h1, ?_⟩
  have hz : (P.neg.add P).z = 0 := G1.z_eq_zero_of_toAff2 _ (G1.add_valid _ _ hN hP) (by
    rw [G1.add_correct _ _ hN hP, G1.neg_correct P hP, neg_add_cancel])
  rw [pairing_left_identity _ Q hz] at h3
  exact (Outcome.ok.inj h3).symm

/-- **`e(P, −Q) · e(P, Q) = 1`** -/
theorem api_pairing_neg_right :
    ∃ g g' : Fq12, Api.pairing P Q = .ok g ∧ Api.pairing P Q.neg = .ok g' ∧ g' * g = 1 := by
  have hN := G2.neg_valid Q hQ
  obtain ⟨g', g, h1, h2, h3⟩ := api_pairing_add_right P Q.neg Q hP hN hQ _ k (G2.neg_span Q hQ k hk) hk
  refine ⟨g, g', h2, h1, ?_⟩
  have hz : (Q.neg.add Q).z = 0 := G2.z_eq_zero_of_toAff2 _ (G2.add_valid _ _ hN hQ) (by
    rw [G2.add_correct _ _ hN hQ, G2.neg_correct Q hQ, neg_add_cancel])
  rw [pairing_right_identity P _ hz] at h3
  exact (Outcome.ok.inj h3).symm

/-- **`e(P − P', Q) · e(P', Q) = e(P, Q)`** -/
theorem api_pairing_sub_left (P' : G1) (hP' : G1.Valid P') :
    ∃ g g' h : Fq12, Api.pairing P Q = .ok g ∧ Api.pairing P' Q = .ok g' ∧
      Api.pairing (P.sub P') Q = .ok h ∧ h * g' = g := by
  have hS : G1.Valid (P.sub P') := G1.add_valid _ _ hP (G1.neg_valid P' hP')
  obtain ⟨h, g', h1, h2, h3⟩ := api_pairing_add_left (P.sub P') P' Q hS hP' hQ k hk
  have e : Api.pairing ((P.sub P').add P') Q = Api.pairing P Q :=
    pairing_congr _ _ _ _ (G1.to_affine_congr _ _ (G1.add_valid _ _ hS hP') hP (by
      rw [G1.add_correct _ _ hS hP', G1.sub_correct P P' hP hP', sub_add_cancel])) rfl
  exact ⟨h * g', g', h, e ▸ h3, h2, h1, rfl⟩

/-- **`e(P, Q − Q') · e(P, Q') = e(P, Q)`** -/
theorem api_pairing_sub_right (Q' : G2) (hQ' : G2.Valid Q') (k' : ℕ)
    (hk' : G2.toAff Q' = k' • G2.toAff (G.one : G2)) :
    ∃ g g' h : Fq12, Api.pairing P Q = .ok g ∧ Api.pairing P Q' = .ok g' ∧
      Api.pairing P (Q.sub Q') = .ok h ∧ h * g' = g := by
  have hN := G2.neg_valid Q' hQ'
  have hS : G2.Valid (Q.sub Q') := G2.add_valid _ _ hQ hN
  have hkS : G2.toAff (Q.sub Q') = (k + (r - 1) * k') • G2.toAff (G.one : G2) := by
    show G2.toAff (Q.add Q'.neg) = _
    rw [G2.add_correct _ _ hQ hN, hk, G2.neg_span Q' hQ' k' hk', add_nsmul]
  obtain ⟨h, g', h1, h2, h3⟩ := api_pairing_add_right P (Q.sub Q') Q' hP hS hQ' _ k' hkS hk'
  have e : Api.pairing P ((Q.sub Q').add Q') = Api.pairing P Q :=
    pairing_congr _ _ _ _ rfl (G2.to_affine_congr _ _ (G2.add_valid _ _ hS hQ') hQ (by
      rw [G2.add_correct _ _ hS hQ', G2.sub_correct Q Q' hQ hQ', sub_add_cancel]))
  exact ⟨h * g', g', h, e ▸ h3, h2, h1, rfl⟩

/-! ## `Api.fast_pairing` and the prepared path -/

theorem api_fast_pairing_add_left2 (P' : G1) (hP' : G1.Valid P') :
    ∃ g g' : Fq12, Api.fast_pairing P Q = .ok g ∧ Api.fast_pairing P' Q = .ok g' ∧
      Api.fast_pairing (P.add P') Q = .ok (g * g') := by
  rw [← api_pairing_eq_fast_pairing P Q hP hQ k hk, ← api_pairing_eq_fast_pairing P' Q hP' hQ k hk,
    ← api_pairing_eq_fast_pairing (P.add P') Q (G1.add_valid P P' hP hP') hQ k hk]
  exact api_pairing_add_left P P' Q hP hP' hQ k hk

theorem api_fast_pairing_add_right (Q' : G2) (hQ' : G2.Valid Q') (k' : ℕ)
    (hk' : G2.toAff Q' = k' • G2.toAff (G.one : G2)) :
    ∃ g g' : Fq12, Api.fast_pairing P Q = .ok g ∧ Api.fast_pairing P Q' = .ok g' ∧
      Api.fast_pairing P (Q.add Q') = .ok (g * g') := by
  have hs : G2.toAff (Q.add Q') = (k + k') • G2.toAff (G.one : G2) := by
    rw [G2.add_correct Q Q' hQ hQ', hk, hk', add_nsmul]
  rw [← api_pairing_eq_fast_pairing P Q hP hQ k hk, ← api_pairing_eq_fast_pairing P Q' hP hQ' k' hk',
    ← api_pairing_eq_fast_pairing P (Q.add Q') hP (G2.add_valid Q Q' hQ hQ') (k + k') hs]
  exact api_pairing_add_right P Q Q' hP hQ hQ' k k' hk hk'

theorem api_fast_pairing_total : ∃ g, Api.fast_pairing P Q = .ok g := by
  rw [← api_pairing_eq_fast_pairing P Q hP hQ k hk]
  exact api_pairing_total P Q hP hQ k hk

theorem api_fast_pairing_mul_left (a : Fr) :
    ∃ g, Api.fast_pairing P Q = .ok g ∧ Api.fast_pairing (P.mul a) Q = .ok (g ^ a.val) := by
  rw [← api_pairing_eq_fast_pairing P Q hP hQ k hk,
    ← api_pairing_eq_fast_pairing (P.mul a) Q (G1.mul_valid P hP a) hQ k hk]
  exact api_pairing_mul_left P Q hP hQ k hk a

theorem api_fast_pairing_mul_right (b : Fr) :
    ∃ g, Api.fast_pairing P Q = .ok g ∧ Api.fast_pairing P (Q.mul b) = .ok (g ^ b.val) := by
  rw [← api_pairing_eq_fast_pairing P Q hP hQ k hk,
    ← api_pairing_eq_fast_pairing P (Q.mul b) hP (G2.mul_valid Q hQ b) (b.val * k) (G2.mul_span Q hQ k hk b)]
  exact api_pairing_mul_right P Q hP hQ k hk b

theorem api_fast_pairing_bilinear (a b : Fr) :
    ∃ g, Api.fast_pairing P Q = .ok g ∧ Api.fast_pairing (P.mul a) (Q.mul b) = .ok (g ^ (a.val * b.val)) ∧
      Api.fast_pairing (P.mul a) (Q.mul b) = .ok (Api.gtPow g (a * b)) := by
  rw [← api_pairing_eq_fast_pairing P Q hP hQ k hk,
    ← api_pairing_eq_fast_pairing (P.mul a) (Q.mul b) (G1.mul_valid P hP a) (G2.mul_valid Q hQ b) (b.val * k)
      (G2.mul_span Q hQ k hk b)]
  exact api_pairing_bilinear P Q hP hQ k hk a b

theorem api_prepared_pairing_add_left2 (P' : G1) (hP' : G1.Valid P') :
    ∃ g g' : Fq12, (do let pr ← Api.prepare Q; Api.preparedPairing pr P) = .ok g ∧
      (do let pr ← Api.prepare Q; Api.preparedPairing pr P') = .ok g' ∧
      (do let pr ← Api.prepare Q; Api.preparedPairing pr (P.add P')) = .ok (g * g') := by
  rw [api_prepared_eq_fast, api_prepared_eq_fast, api_prepared_eq_fast]
  exact api_fast_pairing_add_left2 P Q hP hQ k hk P' hP'

theorem api_prepared_pairing_add_right (Q' : G2) (hQ' : G2.Valid Q') (k' : ℕ)
    (hk' : G2.toAff Q' = k' • G2.toAff (G.one : G2)) :
    ∃ g g' : Fq12, (do let pr ← Api.prepare Q; Api.preparedPairing pr P) = .ok g ∧
      (do let pr ← Api.prepare Q'; Api.preparedPairing pr P) = .ok g' ∧
      (do let pr ← Api.prepare (Q.add Q'); Api.preparedPairing pr P) = .ok (g * g') := by
  rw [api_prepared_eq_fast, api_prepared_eq_fast, api_prepared_eq_fast]
  exact api_fast_pairing_add_right P Q hP hQ k hk Q' hQ' k' hk'

theorem api_prepared_pairing_total : ∃ g, (do let pr ← Api.prepare Q; Api.preparedPairing pr P) = .ok g := by
  rw [api_prepared_eq_fast]
  exact api_fast_pairing_total P Q hP hQ k hk

theorem api_prepared_pairing_mul_left (a : Fr) :
    ∃ g, (do let pr ← Api.prepare Q; Api.preparedPairing pr P) = .ok g ∧
      (do let pr ← Api.prepare Q; Api.preparedPairing pr (P.mul a)) = .ok (g ^ a.val) := by
  rw [api_prepared_eq_fast, api_prepared_eq_fast]
  exact api_fast_pairing_mul_left P Q hP hQ k hk a

theorem api_prepared_pairing_mul_right (b : Fr) :
    ∃ g, (do let pr ← Api.prepare Q; Api.preparedPairing pr P) = .ok g ∧
      (do let pr ← Api.prepare (Q.mul b); Api.preparedPairing pr P) = .ok (g ^ b.val) := by
  rw [api_prepared_eq_fast, api_prepared_eq_fast]
  exact api_fast_pairing_mul_right P Q hP hQ k hk b

theorem api_prepared_pairing_bilinear (a b : Fr) :
    ∃ g, (do let pr ← Api.prepare Q; Api.preparedPairing pr P) = .ok g ∧
      (do let pr ← Api.prepare (Q.mul b); Api.preparedPairing pr (P.mul a)) = .ok (g ^ (a.val * b.val)) ∧
      (do let pr ← Api.prepare (Q.mul b); Api.preparedPairing pr (P.mul a)) = .ok (Api.gtPow g (a * b)) := by
  rw [api_prepared_eq_fast, api_prepared_eq_fast]
  exact api_fast_pairing_bilinear P Q hP hQ k hk a b

end

end Miller
end Sm9
