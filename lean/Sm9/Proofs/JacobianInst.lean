import Sm9.Proofs.Jacobian
import Sm9.Proofs.GroupBasic
import Sm9.Proofs.Consts
/-!
# The generic Jacobian theorems, instantiated at the model's own `FieldElement Fq`

`fe_Fq_eq`: the model's instance (value-level `Fq.squared`, `Fq.inverse` by Fermat power,
`Fq.is_zero` on the canonical value, …) *is* the structure induced by the field.  Side
conditions of the group-law theorems for E : y² = x³ + 5 over Fq: 2 ≠ 0, and −5 is not a
cube (no point with y = 0), by one kernel evaluation plus Fermat.
-/
set_option maxRecDepth 100000
namespace Sm9
open WeierstrassCurve

theorem Fq.inverse_ite (x : Fq) : Fq.inverse x = if x = 0 then none else some x⁻¹ := by
  unfold Fq.inverse
  by_cases h : x = 0
  · subst h
    have : Fq.is_zero (0 : Fq) = true := (Fq.is_zero_iff 0).2 rfl
    simp [this]
  · have hz : Fq.is_zero x = false := by
      cases hh : Fq.is_zero x
      · rfl
      · exact absurd ((Fq.is_zero_iff x).1 hh) h
    rw [hz, if_neg Bool.false_ne_true, if_neg h, Fq.pow_eq,
      eq_inv_of_mul_eq_one_left (Fq.pow_sub_two_mul x h)]

theorem fe_Fq_eq : (Sm9.Fq.instFieldElement : FieldElement Fq) = Jac.feOfField Fq := by
  unfold Sm9.Fq.instFieldElement Jac.feOfField
  congr 1
  · funext x; exact Fq.inverse_ite x
  · funext x
    by_cases h : x = 0
    · subst h; simp [(Fq.is_zero_iff 0).2 rfl]
    · have hz : Fq.is_zero x = false := by
        cases hh : Fq.is_zero x
        · rfl
        · exact absurd ((Fq.is_zero_iff x).1 hh) h
      simp [hz, h]

theorem Fq.two_ne_zero : (2 : Fq) ≠ 0 := by decide +kernel

/-- the curve coefficient as a field element -/
def b1 : Fq := coeffB1

theorem q_sub_one_div_three : 3 * ((q - 1) / 3) = q - 1 := by decide +kernel
theorem neg_b1_not_cube_witness : (-b1).pow ((q - 1) / 3) ≠ 1 := by decide +kernel
theorem b1_ne_zero : b1 ≠ 0 := by decide +kernel

/-- generic: if (−b)^m ≠ 1 while every non-zero x has x^(3m) = 1, then x³ + b has no root -/
theorem no_cube_root {F : Type} [Field F] (b : F) (m : ℕ) (hb0 : b ≠ 0) (hw : (-b) ^ m ≠ 1)
    (hF : ∀ x : F, x ≠ 0 → x ^ (3 * m) = 1) (x : F) : x ^ 3 + b ≠ 0 := by
  intro h
  have hx3 : x ^ 3 = -b := by linear_combination h
  have hx : x ≠ 0 := by
    intro h0; rw [h0] at hx3
    apply hb0
    have : (0 : F) ^ 3 = 0 := by ring
    rw [this] at hx3
    linear_combination hx3
  apply hw
  rw [← hx3, ← pow_mul]
  exact hF x hx

/-- −5 is not a cube in Fq: E(Fq) has no point with y = 0 -/
theorem Fq.no_two_torsion (x : Fq) : x ^ 3 + b1 ≠ 0 := by
  apply no_cube_root b1 ((q - 1) / 3) b1_ne_zero
  · have := neg_b1_not_cube_witness
    rw [Fq.pow_eq] at this
    exact this
  · intro y hy
    rw [q_sub_one_div_three]
    exact Fq.fermat y hy

namespace G1
/-- validity of a G1 value: the identity (z = 0) or a point of E : y² = x³ + 5 -/
abbrev Valid (P : G1) : Prop := Jac.Valid b1 P
/-- the group element a G1 value denotes, in Mathlib's `WeierstrassCurve.Affine.Point` -/
noncomputable abbrev toAff (P : G1) := Jac.toAff b1 P

theorem toAff_zero (P : G1) (h : P.z = 0) : toAff P = 0 := Jac.toAff_zero b1 P h
theorem toAff_some (P : G1) (hz : P.z ≠ 0) (hn : (Jac.Wb b1).Nonsingular (P.x / P.z ^ 2) (P.y / P.z ^ 3)) :
    toAff P = .some _ _ hn := Jac.toAff_some b1 P hz hn

theorem add_correct (P Q : G1) (hP : Valid P) (hQ : Valid Q) : toAff (P.add Q) = toAff P + toAff Q := by
  have := Jac.add_correct b1 Fq.two_ne_zero Fq.no_two_torsion P Q hP hQ
  unfold Jac.add at this
  rw [← fe_Fq_eq] at this
  exact this
theorem add_valid (P Q : G1) (hP : Valid P) (hQ : Valid Q) : Valid (P.add Q) := by
  have := Jac.add_valid b1 Fq.two_ne_zero Fq.no_two_torsion P Q hP hQ
  unfold Jac.add at this
  rw [← fe_Fq_eq] at this
  exact this
theorem neg_correct (P : G1) (hP : Valid P) : toAff P.neg = -toAff P := by
  have := Jac.neg_correct b1 P hP
  unfold Jac.neg at this
  rw [← fe_Fq_eq] at this
  exact this
theorem neg_valid (P : G1) (hP : Valid P) : Valid P.neg := by
  have := Jac.neg_valid b1 P hP
  unfold Jac.neg at this
  rw [← fe_Fq_eq] at this
  exact this
theorem sub_correct (P Q : G1) (hP : Valid P) (hQ : Valid Q) : toAff (P.sub Q) = toAff P - toAff Q := by
  have := Jac.sub_correct b1 Fq.two_ne_zero Fq.no_two_torsion P Q hP hQ
  rw [← fe_Fq_eq] at this
  exact this
theorem double_correct (P : G1) (hP : Valid P) : toAff P.double = toAff P + toAff P := by
  have := Jac.double_correct b1 Fq.two_ne_zero P hP
  unfold Jac.dbl at this
  rw [← fe_Fq_eq] at this
  exact this
theorem mul_correct (P : G1) (hP : Valid P) (k : Fr) : toAff (P.mul k) = k.val • toAff P := by
  have := Jac.mul_correct b1 Fq.two_ne_zero Fq.no_two_torsion P hP k
  rw [← fe_Fq_eq] at this
  exact this
theorem mul_valid (P : G1) (hP : Valid P) (k : Fr) : Valid (P.mul k) := by
  have := Jac.mul_valid b1 Fq.two_ne_zero Fq.no_two_torsion P hP k
  rw [← fe_Fq_eq] at this
  exact this
theorem eq_iff (P Q : G1) (hP : Valid P) (hQ : Valid Q) : P.eq Q = true ↔ toAff P = toAff Q := by
  have := Jac.eq_iff b1 P Q hP hQ
  rw [← fe_Fq_eq] at this
  exact this
theorem to_affine_spec (P : G1) :
    P.to_affine = if P.z = 0 then none else some ⟨P.x / P.z ^ 2, P.y / P.z ^ 3⟩ := by
  have := Jac.to_affine_spec (F := Fq) P
  rw [← fe_Fq_eq] at this
  exact this
theorem normalize_spec (P : G1) (hP : Valid P) :
    toAff (Api.normalize P) = toAff P ∧ (P.z ≠ 0 → (Api.normalize P).z = 1) ∧
    (P.z = 0 → Api.normalize P = P) ∧ Valid (Api.normalize P) := by
  have := Jac.normalize_spec b1 P hP
  rw [← fe_Fq_eq] at this
  exact this

/-- the generator is a valid point -/
theorem one_valid : Valid (G.one : G1) := by
  right
  rw [Jac.nonsingular_iff]
  have hz : (G.one : G1).z = 1 := rfl
  rw [hz]
  simp only [one_pow, div_one]
  have hc := P1_on_curve
  refine ⟨?_, ?_⟩
  · have : (G.one : G1).y ^ 2 = (G.one : G1).x ^ 3 + b1 := by
      have h1 : (G.one : G1).y.squared = (G.one : G1).y ^ 2 := by rw [Fq.squared_def]; ring
      have h2 : (G.one : G1).x.squared * (G.one : G1).x = (G.one : G1).x ^ 3 := by rw [Fq.squared_def]; ring
      rw [← h1, ← h2]; exact hc
    exact this
  · right
    decide +kernel

end G1
end Sm9
