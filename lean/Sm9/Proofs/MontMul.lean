import Sm9.Model.Mont
import Sm9.Proofs.Consts
import Sm9.Proofs.MontBasic
import Mathlib.Tactic.Ring
import Mathlib.Tactic.Linarith
import Mathlib.Tactic.LinearCombination
import Mathlib.Algebra.Order.Ring.Nat
import Mathlib.Data.Nat.ModEq
import Mathlib.Data.Nat.Prime.Basic
/-!
# Limb level refines value level: Montgomery multiplication (u256.rs `mul`)

* `Limb.*`: generic-base lemmas about the carry chains of `Sm9/Model/Limbs.lean`
  (`mulLimbs_spec`, `redc_spec`, `value_digits`, length and `< B` bounds, `value_inj`).
* `U256.mul_refines` (main theorem): for `2^255 < m < 2^256`, `m·inv ≡ -1 (mod 2^64)` and
  `a, b < m`: `mul a b m inv < m` and `mul a b m inv · 2^256 ≡ a·b (mod m)`.
* `U256.square_eq_mul`: the dedicated squaring schedule (`sqOffDiag`, `sqShift`, `sqDiag`)
  returns exactly `mul a a m inv`, for every `a m inv`.
* `MontParams.Ok`, `paramsQ_ok`, `paramsR_ok` and the `Fp.*` corollaries (`mul_refines_q`,
  `mul_refines_r`, `into_u256_refines`, `new_mul_factor_eq`, `new_eq`, round trips,
  `into_u256_mul`, `mul_new_mul_factor`, `squared_refines`).
-/
set_option exponentiation.threshold 1024

namespace Sm9

namespace Limb
variable (B : Nat)

theorem mac_spec (a b c carry : Nat) :
    (mac B a b c carry).1 + B * (mac B a b c carry).2 = a + b * c + carry := by
  simp only [mac]; exact Nat.mod_add_div _ _

/-- value of the updated window plus the carry equals old window (truncated to |e|) + d * e + carry -/
theorem macRow_spec (acc : List Nat) (d : Nat) (e : List Nat) (carry : Nat) :
    value B (macRow B acc d e carry).1 + B ^ e.length * (macRow B acc d e carry).2
      = value B (acc.take e.length) + d * value B e + carry := by
  induction e generalizing acc carry with
  | nil => cases acc <;> simp [macRow, value]
  | cons e es ih =>
    cases acc with
    | nil =>
      simp only [macRow, value, List.length_cons, List.take_nil]
      have h1 := mac_spec B 0 d e carry
      have h2 := ih [] (mac B 0 d e carry).2
      simp only [List.take_nil, value] at h2
      rw [pow_succ]
      nlinarith [h1, h2]
    | cons a as =>
      simp only [macRow, value, List.length_cons, List.take_succ_cons]
      have h1 := mac_spec B a d e carry
      have h2 := ih as (mac B a d e carry).2
      rw [pow_succ]
      nlinarith [h1, h2]

theorem value_append (xs ys : List Nat) :
    value B (xs ++ ys) = value B xs + B ^ xs.length * value B ys := by
  induction xs with
  | nil => simp [value]
  | cons x xs ih => simp only [List.cons_append, value, ih, List.length_cons, pow_succ]; ring

theorem value_take_drop (n : Nat) (xs : List Nat) (h : n ≤ xs.length) :
    value B (xs.take n) + B ^ n * value B (xs.drop n) = value B xs := by
  have := value_append B (xs.take n) (xs.drop n)
  rw [List.take_append_drop, List.length_take, Nat.min_eq_left h] at this
  exact this.symm

theorem value_replicate_zero (n : Nat) : value B (List.replicate n 0) = 0 := by
  induction n with
  | zero => rfl
  | succ n ih => simp [List.replicate_succ, value, ih]

theorem macRow_length (acc : List Nat) (d : Nat) (e : List Nat) (carry : Nat) :
    (macRow B acc d e carry).1.length = e.length := by
  induction e generalizing acc carry with
  | nil => cases acc <;> simp [macRow]
  | cons e es ih => cases acc <;> simp [macRow, ih]

theorem mulAcc_spec (w ds e : List Nat) (hw : w.length = e.length) :
    value B (mulAcc B w ds e) = value B w + value B ds * value B e := by
  induction ds generalizing w with
  | nil => simp [mulAcc, value]
  | cons d ds ih =>
    unfold mulAcc
    have hs := macRow_spec B w d e 0
    have hl := macRow_length B w d e 0
    rw [← hw, List.take_length] at hs
    generalize hrow : macRow B w d e 0 = rc at hs hl
    obtain ⟨row, c⟩ := rc
    cases row with
    | nil =>
      simp only [List.length_nil] at hl
      have he : e = [] := List.eq_nil_of_length_eq_zero hl.symm
      subst he
      have hw' : w = [] := List.eq_nil_of_length_eq_zero hw
      subst hw'
      simp only [value, List.length_nil, pow_zero] at hs ⊢
      rw [ih [] rfl]; simp [value]; omega
    | cons x xs =>
      simp only [List.length_cons] at hl
      have hlen : (xs ++ [c]).length = e.length := by simp [hl]
      simp only [value]
      rw [ih _ hlen, value_append]
      simp only [value] at hs ⊢
      have hwl : w.length = xs.length + 1 := by omega
      rw [hwl, pow_succ] at hs
      nlinarith [hs]

theorem mulAcc_length (w ds e : List Nat) (hw : w.length = e.length) :
    (mulAcc B w ds e).length = ds.length + e.length := by
  induction ds generalizing w with
  | nil => simp [mulAcc, hw]
  | cons d ds ih =>
    unfold mulAcc
    have hl := macRow_length B w d e 0
    generalize hrow : macRow B w d e 0 = rc at hl
    obtain ⟨row, c⟩ := rc
    cases row with
    | nil =>
      simp only [List.length_nil] at hl
      have he : e = [] := List.eq_nil_of_length_eq_zero hl.symm
      subst he
      simp only [List.length_cons, List.length_nil]
      rw [ih [] rfl]; simp
    | cons x xs =>
      simp only [List.length_cons] at hl
      have hlen : (xs ++ [c]).length = e.length := by simp [hl]
      simp only [List.length_cons]
      rw [ih _ hlen]; omega

/-- the schoolbook product of the model computes the product of the values -/
theorem mulLimbs_spec (d e : List Nat) : value B (mulLimbs B d e) = value B d * value B e := by
  unfold mulLimbs
  rw [mulAcc_spec B _ _ _ (by simp), value_replicate_zero]
  omega

theorem mulLimbs_length (d e : List Nat) : (mulLimbs B d e).length = d.length + e.length := by
  unfold mulLimbs
  exact mulAcc_length B _ _ _ (by simp)

theorem digits_length (n v : Nat) : (digits B n v).length = n := by
  induction n generalizing v with
  | zero => rfl
  | succ n ih => simp [digits, ih]

theorem value_digits (n v : Nat) : value B (digits B n v) = v % B ^ n := by
  induction n generalizing v with
  | zero => simp [digits, value, Nat.mod_one]
  | succ n ih =>
    simp only [digits, value, ih]
    rw [pow_succ, mul_comm (B ^ n) B, Nat.mod_mul]

theorem digits_lt (hB : 0 < B) (n v : Nat) : ∀ x ∈ digits B n v, x < B := by
  induction n generalizing v with
  | zero => simp [digits]
  | succ n ih =>
    intro x hx
    simp only [digits, List.mem_cons] at hx
    rcases hx with rfl | hx
    · exact Nat.mod_lt _ hB
    · exact ih _ x hx

/-- head limb of a Montgomery row is zero when k is chosen with the -p⁻¹ constant -/
theorem row_head_zero (inv m0 w0 : Nat) (hB : 0 < B) (hinv : (m0 * inv) % B = B - 1) :
    (w0 + ((w0 * inv) % B) * m0 + 0) % B = 0 := by
  have h1 : (w0 * inv % B) * m0 ≡ w0 * (B - 1) [MOD B] := by
    calc (w0 * inv % B) * m0 ≡ (w0 * inv) * m0 [MOD B] := Nat.ModEq.mul_right _ (Nat.mod_modEq _ _)
      _ = w0 * (m0 * inv) := by ring
      _ ≡ w0 * (B - 1) [MOD B] := by
          apply Nat.ModEq.mul_left
          rw [Nat.ModEq, hinv, Nat.mod_eq_of_lt (by omega)]
  have h2 : w0 + (w0 * inv % B) * m0 ≡ w0 + w0 * (B - 1) [MOD B] := Nat.ModEq.add_left _ h1
  have h3 : w0 + w0 * (B - 1) = w0 * B := by
    obtain ⟨n, rfl⟩ : ∃ n, B = n + 1 := ⟨B - 1, by omega⟩
    simp; ring
  rw [Nat.add_zero]
  rw [h3] at h2
  rw [h2]; exact Nat.mul_mod_left _ _

/-- REDC invariant: `B^|hi| * T_final = T_initial + k * M` with `k < B^|hi|`, where
    `T = value w + B^n (value hi + carry2)` -/
theorem redc_spec (inv : Nat) (m0 : Nat) (ms : List Nat) (hB : 0 < B)
    (hinv : (m0 * inv) % B = B - 1) (w hi : List Nat) (carry2 : Nat)
    (hw : w.length = (m0 :: ms).length) :
    ∃ k, k < B ^ hi.length ∧
      B ^ hi.length * (value B (redc B inv (m0 :: ms) w hi carry2).1
            + B ^ (m0 :: ms).length * (redc B inv (m0 :: ms) w hi carry2).2)
        = value B w + B ^ (m0 :: ms).length * (value B hi + carry2) + k * value B (m0 :: ms) := by
  induction hi generalizing w carry2 with
  | nil => exact ⟨0, by simp, by simp [redc, value]⟩
  | cons h hi ih =>
    unfold redc
    obtain ⟨w0, ws, rfl⟩ : ∃ w0 ws, w = w0 :: ws := by
      cases w with
      | nil => simp at hw
      | cons a as => exact ⟨a, as, rfl⟩
    simp only [List.headD_cons]
    have hklt : (w0 * inv) % B < B := Nat.mod_lt _ hB
    set k := (w0 * inv) % B with hk
    have hs := macRow_spec B (w0 :: ws) k (m0 :: ms) 0
    have hl := macRow_length B (w0 :: ws) k (m0 :: ms) 0
    rw [← hw, List.take_length] at hs
    -- head of the row
    have hhead : ∀ x xs c, macRow B (w0 :: ws) k (m0 :: ms) 0 = (x :: xs, c) → x = 0 := by
      intro x xs c hrow
      simp only [macRow, mac] at hrow
      have := (Prod.mk.inj hrow).1
      have hx := (List.cons.inj this).1
      rw [← hx]; exact row_head_zero B inv m0 w0 hB hinv
    generalize hrow : macRow B (w0 :: ws) k (m0 :: ms) 0 = rc at hs hl hhead
    obtain ⟨row, c⟩ := rc
    cases row with
    | nil => simp at hl
    | cons x xs =>
      have hx0 := hhead x xs c rfl
      subst hx0
      simp only [List.length_cons] at hl
      have hlen : (xs ++ [(h + c + carry2) % B]).length = (m0 :: ms).length := by simp [hl]
      obtain ⟨k', hk'lt, hk'⟩ := ih (xs ++ [(h + c + carry2) % B]) ((h + c + carry2) / B) hlen
      refine ⟨k + B * k', ?_, ?_⟩
      · simp only [List.length_cons, pow_succ]
        have : B * k' + B ≤ B * B ^ hi.length := by
          have : k' + 1 ≤ B ^ hi.length := hk'lt
          nlinarith [this]
        nlinarith [this]
      simp only [List.length_cons, pow_succ] at hk' ⊢
      rw [mul_comm (B ^ hi.length) B, mul_assoc, hk', value_append]
      simp only [value, List.length_cons] at hs ⊢
      have hdm := Nat.mod_add_div (h + c + carry2) B
      have hxs : xs.length = ms.length := by omega
      have hws : ws.length = ms.length := by simpa using hw
      rw [hws, pow_succ] at hs
      rw [hxs]
      simp only [mul_zero, add_zero]
      have h3 : B ^ ms.length * B * ((h + c + carry2) % B + B * ((h + c + carry2) / B))
          = B ^ ms.length * B * (h + c + carry2) := by rw [hdm]
      generalize (h + c + carry2) % B = lo at h3 ⊢
      generalize (h + c + carry2) / B = hi2 at h3 ⊢
      generalize B ^ ms.length = P at *
      ring_nf at hs h3 ⊢
      linarith [hs, h3]

/-! ### bounds: every limb produced by the carry chains is below `B` -/

theorem mac_cases (hB : 0 < B) (a b c d : Nat) :
    ∃ lo hi, mac B a b c d = (lo, hi) ∧ lo < B ∧ lo + B * hi = a + b * c + d ∧
      (a < B → b < B → c < B → d < B → hi < B) := by
  refine ⟨_, _, rfl, Nat.mod_lt _ hB, Nat.mod_add_div _ _, ?_⟩
  intro ha hb hc hd
  apply Nat.div_lt_of_lt_mul
  have h1 : b * c ≤ (B - 1) * (B - 1) := Nat.mul_le_mul (by omega) (by omega)
  obtain ⟨n, rfl⟩ : ∃ n, B = n + 1 := ⟨B - 1, by omega⟩
  simp only [Nat.add_sub_cancel] at h1
  nlinarith [h1]

theorem adc_cases (hB : 0 < B) (a b c : Nat) :
    ∃ lo hi, adc B a b c = (lo, hi) ∧ lo < B ∧ lo + B * hi = a + b + c :=
  ⟨_, _, rfl, Nat.mod_lt _ hB, Nat.mod_add_div _ _⟩

theorem value_inj (hB : 0 < B) (xs ys : List Nat) (hlen : xs.length = ys.length)
    (hx : ∀ x ∈ xs, x < B) (hy : ∀ y ∈ ys, y < B) (h : value B xs = value B ys) : xs = ys := by
  induction xs generalizing ys with
  | nil => cases ys with
    | nil => rfl
    | cons y ys => simp at hlen
  | cons x xs ih =>
    cases ys with
    | nil => simp at hlen
    | cons y ys =>
      simp only [value] at h
      have hxB := hx x (by simp)
      have hyB := hy y (by simp)
      have h1 : x = y := by
        have := congrArg (· % B) h
        simp only [Nat.add_mul_mod_self_left] at this
        rwa [Nat.mod_eq_of_lt hxB, Nat.mod_eq_of_lt hyB] at this
      subst h1
      have h2 : value B xs = value B ys := by
        have : B * value B xs = B * value B ys := by omega
        exact Nat.eq_of_mul_eq_mul_left hB this
      rw [ih ys (by simpa using hlen) (fun z hz => hx z (by simp [hz]))
        (fun z hz => hy z (by simp [hz])) h2]

theorem macRow_lt (hB : 0 < B) (acc : List Nat) (d : Nat) (e : List Nat) (carry : Nat) :
    ∀ x ∈ (macRow B acc d e carry).1, x < B := by
  induction e generalizing acc carry with
  | nil => cases acc <;> simp [macRow]
  | cons e es ih =>
    cases acc with
    | nil =>
      intro x hx
      simp only [macRow, List.mem_cons] at hx
      rcases hx with rfl | hx
      · exact Nat.mod_lt _ hB
      · exact ih _ _ x hx
    | cons a as =>
      intro x hx
      simp only [macRow, List.mem_cons] at hx
      rcases hx with rfl | hx
      · exact Nat.mod_lt _ hB
      · exact ih _ _ x hx

theorem macRow_carry_lt (hB : 0 < B) (acc : List Nat) (d : Nat) (e : List Nat) (carry : Nat)
    (hacc : ∀ x ∈ acc, x < B) (hd : d < B) (he : ∀ x ∈ e, x < B) (hc : carry < B) :
    (macRow B acc d e carry).2 < B := by
  induction e generalizing acc carry with
  | nil => cases acc <;> simpa [macRow]
  | cons e es ih =>
    have he0 : e < B := he e (by simp)
    have hes : ∀ x ∈ es, x < B := fun x hx => he x (by simp [hx])
    cases acc with
    | nil =>
      simp only [macRow]
      obtain ⟨lo, hi, hm, -, -, hhi⟩ := mac_cases B hB 0 d e carry
      exact ih [] _ (by simp) hes (by rw [hm]; exact hhi hB hd he0 hc)
    | cons a as =>
      simp only [macRow]
      obtain ⟨lo, hi, hm, -, -, hhi⟩ := mac_cases B hB a d e carry
      exact ih as _ (fun x hx => hacc x (by simp [hx])) hes
        (by rw [hm]; exact hhi (hacc a (by simp)) hd he0 hc)

theorem mulAcc_lt (hB : 0 < B) (w ds e : List Nat) (hw : ∀ x ∈ w, x < B)
    (hds : ∀ x ∈ ds, x < B) (he : ∀ x ∈ e, x < B) :
    ∀ x ∈ mulAcc B w ds e, x < B := by
  induction ds generalizing w with
  | nil => simpa [mulAcc] using hw
  | cons d ds ih =>
    have hd : d < B := hds d (by simp)
    have hds' : ∀ x ∈ ds, x < B := fun x hx => hds x (by simp [hx])
    unfold mulAcc
    have hl := macRow_lt B hB w d e 0
    have hc := macRow_carry_lt B hB w d e 0 hw hd he hB
    generalize macRow B w d e 0 = rc at hl hc
    obtain ⟨row, c⟩ := rc
    cases row with
    | nil =>
      intro x hx
      simp only [List.mem_cons] at hx
      rcases hx with rfl | hx
      · exact hc
      · exact ih [] (by simp) hds' x hx
    | cons y ys =>
      intro x hx
      simp only [List.mem_cons] at hx
      rcases hx with rfl | hx
      · exact hl _ (by simp)
      · refine ih (ys ++ [c]) ?_ hds' x hx
        intro z hz
        simp only [List.mem_append, List.mem_singleton] at hz
        rcases hz with hz | rfl
        · exact hl z (by simp [hz])
        · exact hc

theorem mulLimbs_lt (hB : 0 < B) (d e : List Nat) (hd : ∀ x ∈ d, x < B) (he : ∀ x ∈ e, x < B) :
    ∀ x ∈ mulLimbs B d e, x < B := by
  unfold mulLimbs
  apply mulAcc_lt B hB _ _ _ _ hd he
  intro x hx
  rw [List.mem_replicate] at hx
  omega

end Limb

namespace U256

theorem B64_pos : 0 < B64 := by unfold B64; exact Nat.pow_pos (by decide)

theorem B64_pow4 : B64 ^ 4 = W256 := by decide +kernel

theorem limbs_length (a : Nat) : (limbs a).length = 4 := Limb.digits_length _ _ _

theorem limbs_lt (a : Nat) : ∀ x ∈ limbs a, x < B64 := Limb.digits_lt _ B64_pos _ _

theorem ofLimbs_limbs (a : Nat) (ha : a < W256) : ofLimbs (limbs a) = a := by
  unfold ofLimbs limbs
  rw [Limb.value_digits, B64_pow4, Nat.mod_eq_of_lt ha]

theorem limbs_cons (m : Nat) : limbs m = (m % B64) :: Limb.digits B64 3 (m / B64) := rfl

theorem mul_without_cond_subtract_eq (a b m inv : Nat) :
    mul_without_cond_subtract a b m inv =
      ((Limb.redc B64 inv (limbs m) ((Limb.mulLimbs B64 (limbs a) (limbs b)).take 4)
          ((Limb.mulLimbs B64 (limbs a) (limbs b)).drop 4) 0).2 != 0,
       ofLimbs (Limb.redc B64 inv (limbs m) ((Limb.mulLimbs B64 (limbs a) (limbs b)).take 4)
          ((Limb.mulLimbs B64 (limbs a) (limbs b)).drop 4) 0).1) := rfl

/-- REDC on a full 8-limb input `t`: the output pair `(w, carry2)` satisfies
    `2^256 · (w + 2^256·carry2) = value t + k·m` for some `k < 2^256`. -/
theorem redc_limbs_spec (t : List Nat) (m inv : Nat) (ht : t.length = 8) (hm : m < W256)
    (hinv : (m * inv) % 2 ^ 64 = 2 ^ 64 - 1) :
    ∃ k, k < W256 ∧
      W256 * (ofLimbs (Limb.redc B64 inv (limbs m) (t.take 4) (t.drop 4) 0).1
          + W256 * (Limb.redc B64 inv (limbs m) (t.take 4) (t.drop 4) 0).2)
        = Limb.value B64 t + k * m := by
  have hinv0 : ((m % B64) * inv) % B64 = B64 - 1 := by
    rw [Nat.mod_mul_mod]; exact hinv
  have htake : (t.take 4).length = (m % B64 :: Limb.digits B64 3 (m / B64)).length := by
    simp [Limb.digits_length, ht]
  obtain ⟨k, hk, hspec⟩ := Limb.redc_spec B64 inv (m % B64) (Limb.digits B64 3 (m / B64)) B64_pos
    hinv0 (t.take 4) (t.drop 4) 0 htake
  have hdrop : (t.drop 4).length = 4 := by simp [ht]
  have hlen : (m % B64 :: Limb.digits B64 3 (m / B64)).length = 4 := by
    simp [Limb.digits_length]
  rw [← limbs_cons, hdrop, B64_pow4] at hspec
  rw [limbs_length, B64_pow4] at hspec
  rw [hdrop, B64_pow4] at hk
  refine ⟨k, hk, ?_⟩
  have hv := Limb.value_take_drop B64 4 t (by omega)
  rw [B64_pow4] at hv
  have hmv : Limb.value B64 (limbs m) = m := ofLimbs_limbs m hm
  rw [hmv] at hspec
  unfold ofLimbs
  rw [hspec, ← hv]; ring

theorem mul_without_cond_subtract_spec (a b m inv : Nat) (ha : a < W256) (hb : b < W256)
    (hm : m < W256) (hinv : (m * inv) % 2 ^ 64 = 2 ^ 64 - 1) :
    ∃ k c2, k < W256 ∧ (mul_without_cond_subtract a b m inv).1 = (c2 != 0) ∧
        W256 * ((mul_without_cond_subtract a b m inv).2 + W256 * c2) = a * b + k * m := by
  rw [mul_without_cond_subtract_eq]
  have hlen : (Limb.mulLimbs B64 (limbs a) (limbs b)).length = 8 := by
    rw [Limb.mulLimbs_length, limbs_length, limbs_length]
  obtain ⟨k, hk, hspec⟩ := redc_limbs_spec _ m inv hlen hm hinv
  have hval : Limb.value B64 (Limb.mulLimbs B64 (limbs a) (limbs b)) = a * b := by
    rw [Limb.mulLimbs_spec]
    have h1 := ofLimbs_limbs a ha
    have h2 := ofLimbs_limbs b hb
    unfold ofLimbs at h1 h2
    rw [h1, h2]
  rw [hval] at hspec
  exact ⟨k, _, hk, rfl, hspec⟩

/-- MAIN THEOREM (general form): the limb-level Montgomery product is the canonical
    representative of `a·b·R⁻¹ mod m`, `R = 2^256`, for any 256-bit operands whose
    product is below `m·R`. -/
theorem mul_refines_gen (a b m inv : Nat) (hm : m < W256) (hm2 : W256 < 2 * m)
    (hinv : (m * inv) % 2 ^ 64 = 2 ^ 64 - 1) (ha : a < W256) (hb : b < W256)
    (hab : a * b < m * W256) :
    mul a b m inv < m ∧ (mul a b m inv * W256) % m = (a * b) % m := by
  obtain ⟨k, c2, hk, hc, hspec⟩ := mul_without_cond_subtract_spec a b m inv ha hb hm hinv
  have hmul : mul a b m inv = subtract_modulus_with_carry (mul_without_cond_subtract a b m inv).2 m
      (mul_without_cond_subtract a b m inv).1 := rfl
  rw [hmul, hc]
  generalize (mul_without_cond_subtract a b m inv).2 = w at hspec ⊢
  -- u = w + W·c2 < 2m
  have hu : w + W256 * c2 < 2 * m := by
    have hW : 0 < W256 := by rw [W256_eq]; omega
    have : W256 * (w + W256 * c2) < W256 * (2 * m) := by
      rw [hspec]
      have : k * m ≤ W256 * m := Nat.mul_le_mul_right _ hk.le
      nlinarith [this, hab]
    exact Nat.lt_of_mul_lt_mul_left this
  -- the result r is u or u - m
  have key : ∃ r, subtract_modulus_with_carry w m (c2 != 0) = r ∧ r < m ∧
      (r = w + W256 * c2 ∨ r + m = w + W256 * c2) := by
    unfold subtract_modulus_with_carry Big.sub_with_borrow
    rw [W256_eq] at hm hm2 hu ⊢
    by_cases h0 : c2 = 0
    · subst h0
      by_cases h1 : w ≥ m
      · simp only [bne_self_eq_false, Bool.false_or, h1, decide_true, if_true]
        refine ⟨_, rfl, ?_, Or.inr ?_⟩ <;> omega
      · simp only [bne_self_eq_false, Bool.false_or, h1, decide_false]
        refine ⟨_, rfl, ?_, Or.inl ?_⟩ <;> simp; omega
    · have hb : (c2 != 0) = true := by simp [h0]
      simp only [hb, Bool.true_or, if_true]
      have hc1 : c2 = 1 := by
        rcases c2 with _ | _ | c2
        · omega
        · rfl
        · exfalso; omega
      subst hc1
      refine ⟨_, rfl, ?_, Or.inr ?_⟩ <;> omega
  obtain ⟨r, hr, hrm, hru⟩ := key
  rw [hr]
  refine ⟨hrm, ?_⟩
  rcases hru with h | h
  · rw [h, mul_comm, hspec, Nat.add_mul_mod_self_right]
  · have : r * W256 + W256 * m = a * b + k * m := by
      rw [← hspec, ← h]; ring
    calc (r * W256) % m = (r * W256 + W256 * m) % m := by rw [Nat.add_mul_mod_self_right]
      _ = (a * b) % m := by rw [this, Nat.add_mul_mod_self_right]

/-- MAIN THEOREM: for `2^255 < m < 2^256`, `inv = -m⁻¹ mod 2^64` and reduced operands,
    `U256::mul` returns the canonical representative of `a·b·R⁻¹ mod m`, `R = 2^256`.
    (The side conditions `m % 2 = 1` and `inv < 2^64` are not needed: oddness of `m` is
    implied by `hinv`.) -/
theorem mul_refines (a b m inv : Nat) (hm : m < W256) (hm2 : W256 < 2 * m)
    (hinv : (m * inv) % 2 ^ 64 = 2 ^ 64 - 1) (ha : a < m) (hb : b < m) :
    mul a b m inv < m ∧ (mul a b m inv * W256) % m = (a * b) % m := by
  apply mul_refines_gen a b m inv hm hm2 hinv (by omega) (by omega)
  have h1 : a * b ≤ m * b := Nat.mul_le_mul_right _ ha.le
  have h2 : m * b < m * W256 := Nat.mul_lt_mul_of_pos_left (by omega) (by omega)
  omega

/-! ## `U256::square`: the squaring schedule produces the same 8 limbs as the schoolbook product

Explicit forms (all by `rfl`) of the three passes on four symbolic limbs, their value
equations, then uniqueness of canonical digit lists. -/
section Square
open Limb

def sqOff4 (a0 a1 a2 a3 : Nat) : List Nat :=
  let m01 := mac B64 0 a0 a1 0
  let m02 := mac B64 0 a0 a2 m01.2
  let m03 := mac B64 0 a0 a3 m02.2
  let m12 := mac B64 m03.1 a1 a2 0
  let m13 := mac B64 m03.2 a1 a3 m12.2
  let m23 := mac B64 m13.2 a2 a3 0
  [0, m01.1, m02.1, m12.1, m13.1, m23.1, m23.2, 0]

theorem sqOffDiag_eq (a0 a1 a2 a3 : Nat) : sqOffDiag [a0, a1, a2, a3] = sqOff4 a0 a1 a2 a3 := rfl

def shl1 (x y : Nat) : Nat := ((x <<< 1) % B64) ||| (y >>> 63)

theorem sqShift_eq (r0 r1 r2 r3 r4 r5 r6 r7 : Nat) :
    sqShift [r0, r1, r2, r3, r4, r5, r6, r7] =
      [r0, (r1 <<< 1) % B64, shl1 r2 r1, shl1 r3 r2, shl1 r4 r3, shl1 r5 r4, shl1 r6 r5, r6 >>> 63] := rfl

def sqDiag4 (a0 a1 a2 a3 r0 r1 r2 r3 r4 r5 r6 r7 : Nat) : List Nat × Nat :=
  let m0 := mac B64 r0 a0 a0 0
  let c0 := adc B64 r1 0 m0.2
  let m1 := mac B64 r2 a1 a1 c0.2
  let c1 := adc B64 r3 0 m1.2
  let m2 := mac B64 r4 a2 a2 c1.2
  let c2 := adc B64 r5 0 m2.2
  let m3 := mac B64 r6 a3 a3 c2.2
  let c3 := adc B64 r7 0 m3.2
  ([m0.1, c0.1, m1.1, c1.1, m2.1, c2.1, m3.1, c3.1], c3.2)

theorem sqDiag_eq (a0 a1 a2 a3 r0 r1 r2 r3 r4 r5 r6 r7 : Nat) :
    sqDiag [a0, a1, a2, a3] [r0, r1, r2, r3, r4, r5, r6, r7] =
      (sqDiag4 a0 a1 a2 a3 r0 r1 r2 r3 r4 r5 r6 r7).1 := rfl

theorem limbs_eq (a : Nat) : limbs a = [a % B64, a / B64 % B64, a / B64 / B64 % B64, a / B64 / B64 / B64 % B64] := rfl
theorem B64_eq : B64 = 18446744073709551616 := by decide +kernel

theorem even_or_bit (e b : Nat) (he : e % 2 = 0) (hb : b < 2) : e ||| b = e + b := by
  have h1 : (e ||| b) / 2 = e / 2 := by
    rw [Nat.or_div_two]
    have : b / 2 = 0 := by omega
    rw [this, Nat.or_zero]
  have h2 : (e ||| b) % 2 = b := by
    have := @Nat.or_mod_two_pow e b 1
    simp only [pow_one] at this
    rw [this, he, Nat.zero_or]; omega
  omega


theorem shl1_eq (x y : Nat) (hy : y < B64) : shl1 x y = (2 * x) % B64 + y / 2 ^ 63 := by
  unfold shl1
  rw [Nat.shiftLeft_eq, Nat.shiftRight_eq_div_pow, pow_one, mul_comm x 2]
  rw [B64_eq] at hy ⊢
  apply even_or_bit <;> omega

theorem shl0_eq (x : Nat) : (x <<< 1) % B64 = (2 * x) % B64 := by
  rw [Nat.shiftLeft_eq, pow_one, mul_comm]

theorem dbl_split (x : Nat) (hx : x < B64) :
    2 * x = (2 * x) % B64 + B64 * (x / 2 ^ 63) ∧ (2 * x) % B64 + x / 2 ^ 63 < B64 := by
  rw [B64_eq] at hx ⊢; omega

theorem shl_lt (x y : Nat) (hy : y < B64) : (2 * x) % B64 + y / 2 ^ 63 < B64 := by
  rw [B64_eq] at hy ⊢; omega

theorem mac64_cases (a b c d : Nat) :
    ∃ lo hi, mac B64 a b c d = (lo, hi) ∧ lo < B64 ∧ lo + B64 * hi = a + b * c + d ∧
      (a < B64 → b < B64 → c < B64 → d < B64 → hi < B64) :=
  Limb.mac_cases B64 B64_pos a b c d

theorem adc64_cases (a b c : Nat) :
    ∃ lo hi, adc B64 a b c = (lo, hi) ∧ lo < B64 ∧ lo + B64 * hi = a + b + c :=
  Limb.adc_cases B64 B64_pos a b c

theorem offdiag_spec (a0 a1 a2 a3 : Nat) (h0 : a0 < B64) (h1 : a1 < B64) (h2 : a2 < B64)
    (h3 : a3 < B64) :
    ∃ p1 p2 p3 p4 p5 p6, sqOffDiag [a0, a1, a2, a3] = [0, p1, p2, p3, p4, p5, p6, 0] ∧
      p1 < B64 ∧ p2 < B64 ∧ p3 < B64 ∧ p4 < B64 ∧ p5 < B64 ∧ p6 < B64 ∧
      p1 * B64 + p2 * B64 ^ 2 + p3 * B64 ^ 3 + p4 * B64 ^ 4 + p5 * B64 ^ 5 + p6 * B64 ^ 6
        = a0 * a1 * B64 + a0 * a2 * B64 ^ 2 + (a0 * a3 + a1 * a2) * B64 ^ 3
          + a1 * a3 * B64 ^ 4 + a2 * a3 * B64 ^ 5 := by
  rw [sqOffDiag_eq]
  unfold sqOff4
  have hz := B64_pos
  obtain ⟨l01, c01, e01, b01, s01, k01⟩ := mac64_cases 0 a0 a1 0
  simp only [e01]
  obtain ⟨l02, c02, e02, b02, s02, k02⟩ := mac64_cases 0 a0 a2 c01
  simp only [e02]
  obtain ⟨l03, c03, e03, b03, s03, k03⟩ := mac64_cases 0 a0 a3 c02
  simp only [e03]
  obtain ⟨l12, c12, e12, b12, s12, k12⟩ := mac64_cases l03 a1 a2 0
  simp only [e12]
  obtain ⟨l13, c13, e13, b13, s13, k13⟩ := mac64_cases c03 a1 a3 c12
  simp only [e13]
  obtain ⟨l23, c23, e23, b23, s23, k23⟩ := mac64_cases c13 a2 a3 0
  simp only [e23]
  have q01 := k01 hz h0 h1 hz
  have q02 := k02 hz h0 h2 q01
  have q03 := k03 hz h0 h3 q02
  have q12 := k12 b03 h1 h2 hz
  have q13 := k13 q03 h1 h3 q12
  have q23 := k23 q13 h2 h3 hz
  refine ⟨_, _, _, _, _, _, rfl, b01, b02, b12, b13, b23, q23, ?_⟩
  linear_combination B64 * s01 + B64 ^ 2 * s02 + B64 ^ 3 * s03 + B64 ^ 3 * s12
    + B64 ^ 4 * s13 + B64 ^ 5 * s23

theorem shift_spec (p1 p2 p3 p4 p5 p6 : Nat) (h1 : p1 < B64) (h2 : p2 < B64) (h3 : p3 < B64)
    (h4 : p4 < B64) (h5 : p5 < B64) (h6 : p6 < B64) :
    ∃ s1 s2 s3 s4 s5 s6 s7, sqShift [0, p1, p2, p3, p4, p5, p6, 0] = [0, s1, s2, s3, s4, s5, s6, s7] ∧
      s1 * B64 + s2 * B64 ^ 2 + s3 * B64 ^ 3 + s4 * B64 ^ 4 + s5 * B64 ^ 5 + s6 * B64 ^ 6
          + s7 * B64 ^ 7
        = 2 * (p1 * B64 + p2 * B64 ^ 2 + p3 * B64 ^ 3 + p4 * B64 ^ 4 + p5 * B64 ^ 5
            + p6 * B64 ^ 6) := by
  rw [sqShift_eq, shl0_eq, shl1_eq _ _ h1, shl1_eq _ _ h2, shl1_eq _ _ h3, shl1_eq _ _ h4,
    shl1_eq _ _ h5, Nat.shiftRight_eq_div_pow]
  refine ⟨_, _, _, _, _, _, _, rfl, ?_⟩
  obtain ⟨d1, -⟩ := dbl_split p1 h1
  obtain ⟨d2, -⟩ := dbl_split p2 h2
  obtain ⟨d3, -⟩ := dbl_split p3 h3
  obtain ⟨d4, -⟩ := dbl_split p4 h4
  obtain ⟨d5, -⟩ := dbl_split p5 h5
  obtain ⟨d6, -⟩ := dbl_split p6 h6
  generalize 2 * p1 % B64 = l1 at *
  generalize 2 * p2 % B64 = l2 at *
  generalize 2 * p3 % B64 = l3 at *
  generalize 2 * p4 % B64 = l4 at *
  generalize 2 * p5 % B64 = l5 at *
  generalize 2 * p6 % B64 = l6 at *
  generalize p1 / 2 ^ 63 = q1 at *
  generalize p2 / 2 ^ 63 = q2 at *
  generalize p3 / 2 ^ 63 = q3 at *
  generalize p4 / 2 ^ 63 = q4 at *
  generalize p5 / 2 ^ 63 = q5 at *
  generalize p6 / 2 ^ 63 = q6 at *
  symm
  linear_combination B64 * d1 + B64 ^ 2 * d2 + B64 ^ 3 * d3 + B64 ^ 4 * d4 + B64 ^ 5 * d5
    + B64 ^ 6 * d6

theorem diag_spec (a0 a1 a2 a3 r0 r1 r2 r3 r4 r5 r6 r7 : Nat) :
    ∃ o0 o1 o2 o3 o4 o5 o6 o7 c,
      sqDiag [a0, a1, a2, a3] [r0, r1, r2, r3, r4, r5, r6, r7] = [o0, o1, o2, o3, o4, o5, o6, o7] ∧
      o0 < B64 ∧ o1 < B64 ∧ o2 < B64 ∧ o3 < B64 ∧ o4 < B64 ∧ o5 < B64 ∧ o6 < B64 ∧ o7 < B64 ∧
      o0 + o1 * B64 + o2 * B64 ^ 2 + o3 * B64 ^ 3 + o4 * B64 ^ 4 + o5 * B64 ^ 5 + o6 * B64 ^ 6
          + o7 * B64 ^ 7 + c * B64 ^ 8
        = r0 + r1 * B64 + r2 * B64 ^ 2 + r3 * B64 ^ 3 + r4 * B64 ^ 4 + r5 * B64 ^ 5 + r6 * B64 ^ 6
          + r7 * B64 ^ 7 + a0 * a0 + a1 * a1 * B64 ^ 2 + a2 * a2 * B64 ^ 4 + a3 * a3 * B64 ^ 6 := by
  rw [sqDiag_eq]
  unfold sqDiag4
  obtain ⟨l0, c0, e0, b0, s0, -⟩ := mac64_cases r0 a0 a0 0
  simp only [e0]
  obtain ⟨l1, c1, e1, b1, s1⟩ := adc64_cases r1 0 c0
  simp only [e1]
  obtain ⟨l2, c2, e2, b2, s2, -⟩ := mac64_cases r2 a1 a1 c1
  simp only [e2]
  obtain ⟨l3, c3, e3, b3, s3⟩ := adc64_cases r3 0 c2
  simp only [e3]
  obtain ⟨l4, c4, e4, b4, s4, -⟩ := mac64_cases r4 a2 a2 c3
  simp only [e4]
  obtain ⟨l5, c5, e5, b5, s5⟩ := adc64_cases r5 0 c4
  simp only [e5]
  obtain ⟨l6, c6, e6, b6, s6, -⟩ := mac64_cases r6 a3 a3 c5
  simp only [e6]
  obtain ⟨l7, c7, e7, b7, s7⟩ := adc64_cases r7 0 c6
  simp only [e7]
  refine ⟨_, _, _, _, _, _, _, _, c7, rfl, b0, b1, b2, b3, b4, b5, b6, b7, ?_⟩
  linear_combination s0 + B64 * s1 + B64 ^ 2 * s2 + B64 ^ 3 * s3 + B64 ^ 4 * s4 + B64 ^ 5 * s5
    + B64 ^ 6 * s6 + B64 ^ 7 * s7

theorem square_limbs_eq (a0 a1 a2 a3 : Nat) (h0 : a0 < B64) (h1 : a1 < B64) (h2 : a2 < B64)
    (h3 : a3 < B64) :
    sqDiag [a0, a1, a2, a3] (sqShift (sqOffDiag [a0, a1, a2, a3]))
      = mulLimbs B64 [a0, a1, a2, a3] [a0, a1, a2, a3] := by
  obtain ⟨p1, p2, p3, p4, p5, p6, ep, b1, b2, b3, b4, b5, b6, hp⟩ := offdiag_spec a0 a1 a2 a3 h0 h1 h2 h3
  obtain ⟨s1, s2, s3, s4, s5, s6, s7, es, hs⟩ := shift_spec p1 p2 p3 p4 p5 p6 b1 b2 b3 b4 b5 b6
  obtain ⟨o0, o1, o2, o3, o4, o5, o6, o7, c, eo, c0, c1, c2, c3, c4, c5, c6, c7, ho⟩ :=
    diag_spec a0 a1 a2 a3 0 s1 s2 s3 s4 s5 s6 s7
  rw [ep, es, eo]
  have hal : ∀ x ∈ [a0, a1, a2, a3], x < B64 := by
    intro x hx; simp only [List.mem_cons, List.not_mem_nil, or_false] at hx
    rcases hx with rfl | rfl | rfl | rfl <;> assumption
  -- total
  have htot : o0 + o1 * B64 + o2 * B64 ^ 2 + o3 * B64 ^ 3 + o4 * B64 ^ 4 + o5 * B64 ^ 5
      + o6 * B64 ^ 6 + o7 * B64 ^ 7 + c * B64 ^ 8
      = (a0 + a1 * B64 + a2 * B64 ^ 2 + a3 * B64 ^ 3) * (a0 + a1 * B64 + a2 * B64 ^ 2 + a3 * B64 ^ 3) := by
    linear_combination ho + hs + 2 * hp
  have hA : a0 + a1 * B64 + a2 * B64 ^ 2 + a3 * B64 ^ 3 < B64 ^ 4 := by
    rw [B64_eq] at h0 h1 h2 h3 ⊢; omega
  have hAA := Nat.mul_lt_mul'' hA hA
  have hc : c = 0 := by
    rcases Nat.eq_zero_or_pos c with h | h
    · exact h
    · exfalso
      have : B64 ^ 8 ≤ c * B64 ^ 8 := Nat.le_mul_of_pos_left _ h
      have e8 : B64 ^ 4 * B64 ^ 4 = B64 ^ 8 := by ring
      omega
  subst hc
  apply value_inj B64 B64_pos
  · rw [mulLimbs_length]; rfl
  · intro x hx; simp only [List.mem_cons, List.not_mem_nil, or_false] at hx
    rcases hx with rfl | rfl | rfl | rfl | rfl | rfl | rfl | rfl <;> assumption
  · exact mulLimbs_lt B64 B64_pos _ _ hal hal
  · rw [mulLimbs_spec]
    simp only [value]
    linear_combination htot

theorem square_unfold (a m inv : Nat) : square a m inv =
    subtract_modulus_with_carry
      (ofLimbs (Limb.redc B64 inv (limbs m) ((sqDiag (limbs a) (sqShift (sqOffDiag (limbs a)))).take 4)
        ((sqDiag (limbs a) (sqShift (sqOffDiag (limbs a)))).drop 4) 0).1) m
      ((Limb.redc B64 inv (limbs m) ((sqDiag (limbs a) (sqShift (sqOffDiag (limbs a)))).take 4)
        ((sqDiag (limbs a) (sqShift (sqOffDiag (limbs a)))).drop 4) 0).2 != 0) := by
  unfold square
  simp only []

/-- the squaring schedule of `U256::square` computes the same limbs as `U256::mul(a, a)` -/
theorem square_eq_mul (a m inv : Nat) : square a m inv = mul a a m inv := by
  have hl := limbs_lt a
  have e := square_limbs_eq (a % B64) (a / B64 % B64) (a / B64 / B64 % B64) (a / B64 / B64 / B64 % B64)
    (hl _ (by rw [limbs_eq]; simp)) (hl _ (by rw [limbs_eq]; simp)) (hl _ (by rw [limbs_eq]; simp))
    (hl _ (by rw [limbs_eq]; simp))
  rw [← limbs_eq] at e
  have hmul : mul a a m inv = subtract_modulus_with_carry (mul_without_cond_subtract a a m inv).2 m
      (mul_without_cond_subtract a a m inv).1 := rfl
  rw [square_unfold, hmul, mul_without_cond_subtract_eq, e]

end Square

end U256

/-- well-formedness of a Montgomery parameter set (all fields kernel-checkable) -/
structure MontParams.Ok (P : MontParams) : Prop where
  lt : P.modulus < W256
  gt : W256 < 2 * P.modulus
  odd : P.modulus % 2 = 1
  inv : (P.modulus * P.inv) % 2 ^ 64 = 2 ^ 64 - 1
  rsq : P.rsquared = (W256 * W256) % P.modulus
  one : P.one = W256 % P.modulus

theorem paramsQ_ok : paramsQ.Ok := by
  refine ⟨?_, ?_, ?_, ?_, ?_, ?_⟩ <;> decide +kernel

theorem paramsR_ok : paramsR.Ok := by
  refine ⟨?_, ?_, ?_, ?_, ?_, ?_⟩ <;> decide +kernel

namespace Fp
variable {P : MontParams}

theorem coprime_W256 (hP : P.Ok) : Nat.Coprime P.modulus W256 := by
  unfold W256
  exact Nat.Coprime.pow_right 256 (Nat.coprime_two_right.mpr (Nat.odd_iff.mpr hP.odd))

/-- `R = 2^256` is invertible modulo `m`: reduced values with equal `·R` are equal -/
theorem eq_of_mul_W256 (hP : P.Ok) {r s : Nat} (hr : r < P.modulus) (hs : s < P.modulus)
    (h : (r * W256) % P.modulus = (s * W256) % P.modulus) : r = s := by
  have h1 : r ≡ s [MOD P.modulus] :=
    Nat.ModEq.cancel_right_of_coprime (coprime_W256 hP) h
  have h2 : r % P.modulus = s % P.modulus := h1
  rwa [Nat.mod_eq_of_lt hr, Nat.mod_eq_of_lt hs] at h2

theorem mul_refines (hP : P.Ok) (a b : Nat) (ha : a < P.modulus) (hb : b < P.modulus) :
    mul P a b < P.modulus ∧ (mul P a b * W256) % P.modulus = (a * b) % P.modulus :=
  U256.mul_refines a b P.modulus P.inv hP.lt hP.gt hP.inv ha hb

theorem mul_refines_q (a b : Nat) (ha : a < Consts.FQ) (hb : b < Consts.FQ) :
    mul paramsQ a b < Consts.FQ ∧ (mul paramsQ a b * W256) % Consts.FQ = (a * b) % Consts.FQ :=
  mul_refines paramsQ_ok a b ha hb

theorem mul_refines_r (a b : Nat) (ha : a < Consts.FR) (hb : b < Consts.FR) :
    mul paramsR a b < Consts.FR ∧ (mul paramsR a b * W256) % Consts.FR = (a * b) % Consts.FR :=
  mul_refines paramsR_ok a b ha hb

/-- `Fp::squared` is `Fp::mul(a, a)` (unconditionally) -/
theorem squared_eq_mul (P : MontParams) (a : Nat) : squared P a = mul P a a :=
  U256.square_eq_mul a P.modulus P.inv

theorem squared_refines (hP : P.Ok) (a : Nat) (ha : a < P.modulus) :
    squared P a < P.modulus ∧ (squared P a * W256) % P.modulus = (a * a) % P.modulus := by
  rw [squared_eq_mul]; exact mul_refines hP a a ha ha

/-- `into_u256` (leave Montgomery form) is multiplication by `R⁻¹` -/
theorem into_u256_refines (hP : P.Ok) (x : Nat) (hx : x < P.modulus) :
    into_u256 P x < P.modulus ∧ (into_u256 P x * W256) % P.modulus = x := by
  have h1 : 1 < P.modulus := by have := hP.gt; rw [U256.W256_eq] at this; omega
  have := U256.mul_refines x 1 P.modulus P.inv hP.lt hP.gt hP.inv hx h1
  rw [mul_one, Nat.mod_eq_of_lt hx] at this
  exact this

/-- `new_mul_factor` (enter Montgomery form) is multiplication by `R` -/
theorem new_mul_factor_eq (hP : P.Ok) (x : Nat) (hx : x < P.modulus) :
    new_mul_factor P x = (x * W256) % P.modulus := by
  have hpos : 0 < P.modulus := by omega
  have hr : P.rsquared < P.modulus := by rw [hP.rsq]; exact Nat.mod_lt _ hpos
  obtain ⟨h1, h2⟩ := U256.mul_refines x P.rsquared P.modulus P.inv hP.lt hP.gt hP.inv hx hr
  apply eq_of_mul_W256 hP h1 (Nat.mod_lt _ hpos)
  show (U256.mul x P.rsquared P.modulus P.inv * W256) % P.modulus = _
  rw [h2, hP.rsq, Nat.mul_mod_mod, Nat.mod_mul_mod, mul_assoc]

theorem new_mul_factor_lt (hP : P.Ok) (x : Nat) (hx : x < P.modulus) :
    new_mul_factor P x < P.modulus := by
  rw [new_mul_factor_eq hP x hx]; exact Nat.mod_lt _ (by omega)

/-- `Fp::new` -/
theorem new_eq (hP : P.Ok) (x : Nat) :
    new P x = if x < P.modulus then some ((x * W256) % P.modulus) else none := by
  unfold new
  split
  · next hx =>
    congr 1
    by_cases h0 : x = 0
    · subst h0; simp
    · have : (x != 0) = true := by simp [h0]
      rw [this, if_pos rfl]
      exact new_mul_factor_eq hP x hx
  · rfl

/-- round trip: leaving Montgomery form undoes entering it -/
theorem into_u256_new_mul_factor (hP : P.Ok) (x : Nat) (hx : x < P.modulus) :
    into_u256 P (new_mul_factor P x) = x := by
  obtain ⟨h1, h2⟩ := into_u256_refines hP _ (new_mul_factor_lt hP x hx)
  apply eq_of_mul_W256 hP h1 hx
  rw [h2, new_mul_factor_eq hP x hx]

theorem new_mul_factor_into_u256 (hP : P.Ok) (x : Nat) (hx : x < P.modulus) :
    new_mul_factor P (into_u256 P x) = x := by
  obtain ⟨h1, h2⟩ := into_u256_refines hP x hx
  rw [new_mul_factor_eq hP _ h1, h2]

/-- abstraction-function form: `into_u256` maps limb-level `mul` to multiplication mod m -/
theorem into_u256_mul (hP : P.Ok) (a b : Nat) (ha : a < P.modulus) (hb : b < P.modulus) :
    into_u256 P (mul P a b) = (into_u256 P a * into_u256 P b) % P.modulus := by
  have hpos : 0 < P.modulus := by omega
  obtain ⟨hm1, hm2⟩ := mul_refines hP a b ha hb
  obtain ⟨hi1, hi2⟩ := into_u256_refines hP _ hm1
  obtain ⟨ha1, ha2⟩ := into_u256_refines hP a ha
  obtain ⟨hb1, hb2⟩ := into_u256_refines hP b hb
  apply eq_of_mul_W256 hP hi1 (Nat.mod_lt _ hpos)
  apply eq_of_mul_W256 hP (Nat.mod_lt _ hpos) (Nat.mod_lt _ hpos)
  rw [hi2, hm2]
  have e : (into_u256 P a * into_u256 P b) % P.modulus * W256 % P.modulus * W256
      ≡ into_u256 P a * into_u256 P b * W256 * W256 [MOD P.modulus] :=
    ((Nat.mod_modEq _ _).trans ((Nat.mod_modEq _ _).mul_right _)).mul_right _
  have : into_u256 P a * into_u256 P b * W256 * W256
      = (into_u256 P a * W256) * (into_u256 P b * W256) := by ring
  rw [show _ % P.modulus = _ % P.modulus from e, this, Nat.mul_mod (into_u256 P a * W256), ha2, hb2]

/-- representation form: `mul` on Montgomery representatives is the representative of the product -/
theorem mul_new_mul_factor (hP : P.Ok) (x y : Nat) (hx : x < P.modulus) (hy : y < P.modulus) :
    mul P (new_mul_factor P x) (new_mul_factor P y) = new_mul_factor P ((x * y) % P.modulus) := by
  have hpos : 0 < P.modulus := by omega
  have hxy := Nat.mod_lt (x * y) hpos
  have hnx := new_mul_factor_lt hP x hx
  have hny := new_mul_factor_lt hP y hy
  obtain ⟨hm1, -⟩ := mul_refines hP _ _ hnx hny
  rw [← new_mul_factor_into_u256 hP _ hm1, into_u256_mul hP _ _ hnx hny,
    into_u256_new_mul_factor hP x hx, into_u256_new_mul_factor hP y hy]

/-- the hypotheses of `U256.mul_refines` are satisfiable (both SM9 parameter sets), and the
    statement is not vacuous: a concrete instance -/
example : U256.mul 2 3 Consts.FQ Consts.FQ_INV < Consts.FQ ∧
    (U256.mul 2 3 Consts.FQ Consts.FQ_INV * W256) % Consts.FQ = 6 % Consts.FQ :=
  mul_refines_q 2 3 (by decide +kernel) (by decide +kernel)

example : mul paramsQ (one paramsQ) (one paramsQ) = one paramsQ := by decide +kernel
example : squared paramsR (one paramsR) = one paramsR := by decide +kernel

end Fp

end Sm9
