import Sm9.Proofs.LibScalar
import Sm9.Model.Prog
/-!
# Field programs (C07): the limb-level machine refines the value-level machine, for every program

`Sm9/Model/Prog.lean` defines one register machine `fstep O` / `frun O` over the instruction set
`FInstr` (the public `Fr` / `Fq` API of lib.rs) and instantiates it at the limb level
(`FrProg.opsL`, `FqProg.opsL`: registers are stored Montgomery representatives, operations are the
limb-model functions the `lib.rs` wrappers call) and at the value level (`FrProg.opsV`,
`FqProg.opsV`: what the driver runs).

* generic part: `OpsSim R L V` (every operation of `L` simulates the operation of `V` along `R`)
  lifts by one induction over the program to `frun_sim`.
* `FrProg.opsSim`, `FqProg.opsSim`: the per-operation refinement lemmas of `LibScalar.lean`,
  collected; `R` is `CanonRel x a := x < modulus ∧ ofMont x = a`.
* main theorems `frun_refines`, `frun_fails_iff`, `frun_canonical`, the syntactic
  characterisation of failure `frunV_fails_iff_wf`, and the observation corollaries.
-/
set_option maxRecDepth 100000

namespace Sm9

/-! ## generic simulation of two instances of the field machine -/

/-- both fail, or both succeed with related results -/
def OptRel {α β : Type} (R : α → β → Prop) : Option α → Option β → Prop
  | some a, some b => R a b
  | none, none => True
  | _, _ => False

theorem OptRel.none_iff {α β : Type} {R : α → β → Prop} {x : Option α} {y : Option β} (h : OptRel R x y) :
    x = none ↔ y = none := by
  cases x <;> cases y <;> simp_all [OptRel]

theorem OptRel.of_some {α β : Type} {R : α → β → Prop} {x : Option α} {y : Option β} {b : β}
    (h : OptRel R x y) (hy : y = some b) : ∃ a, x = some a ∧ R a b := by
  subst hy
  cases x with
  | none => exact h.elim
  | some a => exact ⟨a, rfl, h⟩

theorem OptRel.of_some_left {α β : Type} {R : α → β → Prop} {x : Option α} {y : Option β} {a : α}
    (h : OptRel R x y) (hx : x = some a) : ∃ b, y = some b ∧ R a b := by
  subst hx
  cases y with
  | none => exact h.elim
  | some b => exact ⟨b, rfl, h⟩

/-- every operation of `L` simulates the corresponding operation of `V` along `R` -/
structure OpsSim {α β : Type} (R : α → β → Prop) (L : FOps α) (V : FOps β) : Prop where
  const : ∀ v, OptRel R (L.const v) (V.const v)
  slice : ∀ bs, OptRel R (L.slice bs) (V.slice bs)
  str : ∀ cs, OptRel R (L.str cs) (V.str cs)
  hash : ∀ bs, OptRel R (L.hash bs) (V.hash bs)
  random : ∀ draw, OptRel R (L.random draw) (V.random draw)
  add : ∀ {a b a' b'}, R a a' → R b b' → OptRel R (L.add a b) (V.add a' b')
  sub : ∀ {a b a' b'}, R a a' → R b b' → OptRel R (L.sub a b) (V.sub a' b')
  mul : ∀ {a b a' b'}, R a a' → R b b' → OptRel R (L.mul a b) (V.mul a' b')
  pow : ∀ {a b a' b'}, R a a' → R b b' → OptRel R (L.pow a b) (V.pow a' b')
  neg : ∀ {a a'}, R a a' → OptRel R (L.neg a) (V.neg a')
  inv : ∀ {a a'}, R a a' → OptRel R (L.inv a) (V.inv a')
  sqrt : ∀ {a a'}, R a a' → OptRel R (L.sqrt a) (V.sqrt a')
  setbit : ∀ {a a'} (b : Nat) (v : Bool), R a a' → OptRel R (L.setbit a b v) (V.setbit a' b v)

section generic
variable {α β : Type} {R : α → β → Prop} {L : FOps α} {V : FOps β}

theorem lookup_rel {regs : List α} {ds : List β} (h : List.Forall₂ R regs ds) (i : Nat) :
    OptRel R regs[i]? ds[i]? := by
  have hlen := h.length_eq
  by_cases hi : i < regs.length
  · have hi' : i < ds.length := hlen ▸ hi
    have hr : R regs[i] ds[i] := by
      have := List.Forall₂.get h hi hi'
      simpa using this
    rw [List.getElem?_eq_getElem hi, List.getElem?_eq_getElem hi']
    exact hr
  · rw [List.getElem?_eq_none (by omega), List.getElem?_eq_none (by omega)]
    trivial

theorem binop_sim {regs : List α} {ds : List β} (h : List.Forall₂ R regs ds) (i j : Nat)
    (f : α → α → Option α) (g : β → β → Option β)
    (hfg : ∀ {a b a' b'}, R a a' → R b b' → OptRel R (f a b) (g a' b')) :
    OptRel R (match regs[i]?, regs[j]? with | some a, some b => f a b | _, _ => none)
      (match ds[i]?, ds[j]? with | some a, some b => g a b | _, _ => none) := by
  have h1 := lookup_rel h i
  have h2 := lookup_rel h j
  generalize regs[i]? = x at h1 ⊢
  generalize ds[i]? = x' at h1 ⊢
  generalize regs[j]? = y at h2 ⊢
  generalize ds[j]? = y' at h2 ⊢
  rcases x with _ | a <;> rcases x' with _ | a' <;> rcases y with _ | b <;> rcases y' with _ | b' <;>
    first | exact h1.elim | exact h2.elim | trivial | exact hfg h1 h2

theorem unop_sim {regs : List α} {ds : List β} (h : List.Forall₂ R regs ds) (i : Nat)
    (f : α → Option α) (g : β → Option β)
    (hfg : ∀ {a a'}, R a a' → OptRel R (f a) (g a')) :
    OptRel R (match regs[i]? with | some a => f a | none => none)
      (match ds[i]? with | some a => g a | none => none) := by
  have h1 := lookup_rel h i
  generalize regs[i]? = x at h1 ⊢
  generalize ds[i]? = x' at h1 ⊢
  rcases x with _ | a <;> rcases x' with _ | a' <;>
    first | exact h1.elim | trivial | exact hfg h1

/-- **one instruction**: the two machines fail together; otherwise the new registers are related -/
theorem fnew_sim (S : OpsSim R L V) {regs : List α} {ds : List β} (h : List.Forall₂ R regs ds) (ins : FInstr) :
    OptRel R (fnew L regs ins) (fnew V ds ins) := by
  cases ins with
  | const v => exact S.const v
  | slice bs => exact S.slice bs
  | str cs => exact S.str cs
  | hash bs => exact S.hash bs
  | random draw => exact S.random draw
  | add i j => exact binop_sim h i j _ _ S.add
  | sub i j => exact binop_sim h i j _ _ S.sub
  | mul i j => exact binop_sim h i j _ _ S.mul
  | pow i j => exact binop_sim h i j _ _ S.pow
  | neg i => exact unop_sim h i _ _ S.neg
  | dup i => exact lookup_rel h i
  | inv i => exact unop_sim h i _ _ S.inv
  | sqrt i => exact unop_sim h i _ _ S.sqrt
  | setbit i b v => exact unop_sim h i _ _ (S.setbit b v)

/-- **one step** (the step lemma): related register files are taken to related register files, and
    the two machines fail together -/
theorem fstep_sim (S : OpsSim R L V) {regs : List α} {ds : List β} (h : List.Forall₂ R regs ds) (ins : FInstr) :
    OptRel (List.Forall₂ R) (fstep L regs ins) (fstep V ds ins) := by
  have hn := fnew_sim S h ins
  unfold fstep
  generalize fnew L regs ins = x at hn ⊢
  generalize fnew V ds ins = y at hn ⊢
  rcases x with _ | a <;> rcases y with _ | b
  · trivial
  · exact hn.elim
  · exact hn.elim
  · exact List.rel_append h (List.Forall₂.cons hn List.Forall₂.nil)

/-- **whole programs, from any related state** -/
theorem frunFrom_sim (S : OpsSim R L V) (prog : List FInstr) : ∀ (regs : List α) (ds : List β),
    List.Forall₂ R regs ds → OptRel (List.Forall₂ R) (frunFrom L regs prog) (frunFrom V ds prog) := by
  induction prog with
  | nil => intro regs ds h; exact h
  | cons ins rest ih =>
    intro regs ds h
    have hs := fstep_sim S h ins
    simp only [frunFrom]
    generalize fstep L regs ins = x at hs ⊢
    generalize fstep V ds ins = y at hs ⊢
    rcases x with _ | regs1 <;> rcases y with _ | ds1
    · trivial
    · exact hs.elim
    · exact hs.elim
    · exact ih regs1 ds1 hs

theorem frun_sim (S : OpsSim R L V) (prog : List FInstr) :
    OptRel (List.Forall₂ R) (frun L prog) (frun V prog) :=
  frunFrom_sim S prog [] [] List.Forall₂.nil

/-- every successful step appends exactly one register -/
theorem fstep_length {O : FOps α} {regs regs' : List α} {ins : FInstr} (h : fstep O regs ins = some regs') :
    regs'.length = regs.length + 1 := by
  unfold fstep at h
  cases hn : fnew O regs ins with
  | none => rw [hn] at h; cases h
  | some x =>
    rw [hn, Option.some.injEq] at h
    subst h
    simp

theorem frunFrom_length {O : FOps α} (prog : List FInstr) : ∀ {regs regs' : List α},
    frunFrom O regs prog = some regs' → regs'.length = regs.length + prog.length := by
  induction prog with
  | nil => intro regs regs' h; simp only [frunFrom, Option.some.injEq] at h; subst h; simp
  | cons ins rest ih =>
    intro regs regs' h
    simp only [frunFrom] at h
    cases hs : fstep O regs ins with
    | none => rw [hs] at h; cases h
    | some regs1 =>
      rw [hs] at h
      rw [ih h, fstep_length hs, List.length_cons]
      omega

end generic

/-! ## plumbing shared by the two fields -/

namespace FProg

theorem libFromSlice_eq (P : MontParams) (hex : List UInt8) : libFromSlice P hex = Fp.lib_from_slice P hex := rfl

theorem constBytes_spec (v : Nat) (bs : List UInt8) (h : constBytes v = some bs) :
    (bs.length = 32 ∨ bs.length = 64) ∧ beVal bs = v := by
  unfold constBytes at h
  by_cases h1 : v < W256
  · rw [if_pos h1, Option.some.injEq] at h
    subst h
    refine ⟨Or.inl (beBytes_length _ _), beVal_beBytes 32 v ?_⟩
    rw [pow256_32]; exact h1
  · rw [if_neg h1] at h
    by_cases h2 : v < W256 * W256
    · rw [if_pos h2, Option.some.injEq] at h
      subst h
      refine ⟨Or.inr (beBytes_length _ _), beVal_beBytes 64 v ?_⟩
      have : (256 : Nat) ^ 64 = 256 ^ 32 * 256 ^ 32 := by rw [← pow_add]
      rw [this, pow256_32]; exact h2
    · rw [if_neg h2] at h; cases h

end FProg


/-! ## the scalar field Fr -/

namespace FrProg

/-- a limb-level register `x` is the canonical Montgomery representative of the value `a` -/
def CanonRel (x : Nat) (a : Fr) : Prop := x < paramsR.modulus ∧ Fr.ofMont x = a

theorem canonRel_zero : CanonRel Fp.zero 0 := ⟨Fr.zero_canon, Fr.ofMont_zero⟩

/-- an `Option` result of the API, with `None` leaving zero -/
theorem getD_rel {o : Option Nat} {w : Option Fr} (h1 : o.map Fr.ofMont = w) (h2 : ∀ y, o = some y → y < Consts.FR) :
    CanonRel (o.getD Fp.zero) (w.getD 0) := by
  subst h1
  cases o with
  | none => exact canonRel_zero
  | some y => exact ⟨h2 y rfl, rfl⟩

/-- an `Outcome (Option _)` result of the API that never panics, with `None` leaving zero -/
theorem orZero_rel {X : Outcome (Option Nat)} {w : Option Fr}
    (h : ∃ o, X = .ok o ∧ o.map Fr.ofMont = w ∧ ∀ y, o = some y → y < Consts.FR) :
    OptRel CanonRel (FProg.orZero X) (some (w.getD 0)) := by
  obtain ⟨o, hX, h1, h2⟩ := h
  subst hX
  have := getD_rel h1 h2
  cases o with
  | none => exact this
  | some y => exact this

theorem const_rel (v : Nat) :
    OptRel CanonRel (FProg.constL paramsR v) ((FProg.constBytes v).map (fun _ => Fr.ofNat v)) := by
  unfold FProg.constL
  cases hb : FProg.constBytes v with
  | none => trivial
  | some bs =>
    obtain ⟨hlen, hval⟩ := FProg.constBytes_spec v bs hb
    obtain ⟨o, ho, h1, h2⟩ := Fr.lib_from_slice_refines bs
    have hfs : Api.frFromSlice bs = some (Fr.ofNat v) := by
      unfold Api.frFromSlice
      rw [if_pos (by omega), hval]
    rw [hfs] at h1
    cases o with
    | none => cases h1
    | some y =>
      simp only [Option.map_some, Option.some.injEq] at h1
      simp only [FProg.libFromSlice_eq, ho, Option.map_some]
      exact ⟨h2 y rfl, h1⟩

theorem W256_ne_zero : Fr.ofNat W256 ≠ 0 := by decide +kernel

theorem ofNat_mod (v : Nat) : Fr.ofNat (v % r) = Fr.ofNat v := by
  apply Fr.ext_val
  rw [Fr.val_ofNat, Fr.val_ofNat]
  exact Nat.mod_mod _ _

/-- the stored representative `x` denotes `x · R⁻¹` -/
theorem ofMont_eq_mul_inv (x : Nat) (hx : x < Consts.FR) :
    Fr.ofMont x = Fr.ofNat x * (Fr.ofNat W256).pow (r - 2) := by
  have h1 : Fr.ofMont x * Fr.ofNat W256 = Fr.ofNat x := by
    apply Fr.ext_val
    rw [Fr.val_mul_eq, Fr.ofMont_val x hx, Fr.val_ofNat, Fr.val_ofNat, Nat.mul_mod_mod]
    have := Fp.into_mulW paramsR_ok x hx
    rw [Fr.hR] at this
    rw [this, Nat.mod_eq_of_lt hx]
  have h2 := Fr.pow_sub_two_mul (Fr.ofNat W256) W256_ne_zero
  rw [Fr.pow_eq, ← h1]
  calc Fr.ofMont x = Fr.ofMont x * ((Fr.ofNat W256) ^ (r - 2) * Fr.ofNat W256) := by rw [h2, mul_one]
    _ = Fr.ofMont x * Fr.ofNat W256 * (Fr.ofNat W256) ^ (r - 2) := by ring

theorem random_rel (draw : List Nat) (h : draw.length = 8) :
    CanonRel (Fp.random paramsR draw) (FProg.frRandomVal draw) := by
  obtain ⟨h1, h2⟩ := Fr.random_refines draw
  refine ⟨h1, ?_⟩
  rw [ofMont_eq_mul_inv _ h1, h2]
  unfold Api.frRandomRaw FProg.frRandomVal
  rw [List.take_of_length_le (by omega), ofNat_mod]

theorem opsSim : OpsSim CanonRel opsL opsV where
  const := const_rel
  slice := fun bs => orZero_rel (by rw [FProg.libFromSlice_eq]; exact Fr.lib_from_slice_refines bs)
  str := fun cs => getD_rel (Fr.from_str_refines cs).1 (Fr.from_str_refines cs).2
  hash := fun bs => orZero_rel (Fr.from_hash_refines bs)
  random := fun draw => by
    show OptRel CanonRel (if draw.length = 8 then _ else _) (if draw.length = 8 then _ else _)
    by_cases h : draw.length = 8
    · rw [if_pos h, if_pos h]; exact random_rel draw h
    · rw [if_neg h, if_neg h]; trivial
  add := fun {a b a' b'} ha hb => by
    obtain ⟨h1, h2⟩ := Fr.add_refines a b ha.1 hb.1
    exact ⟨h1, by rw [h2, ha.2, hb.2]⟩
  sub := fun {a b a' b'} ha hb => by
    obtain ⟨h1, h2⟩ := Fr.sub_refines a b ha.1 hb.1
    exact ⟨h1, by rw [h2, ha.2, hb.2]⟩
  mul := fun {a b a' b'} ha hb => by
    obtain ⟨h1, h2⟩ := Fr.mul_refines a b ha.1 hb.1
    exact ⟨h1, by rw [h2, ha.2, hb.2]⟩
  pow := fun {a e a' e'} ha he => by
    obtain ⟨h1, h2⟩ := Fr.pow_refines a e ha.1
    exact ⟨h1, by rw [h2, Fr.into_u256_refines e he.1, ha.2, he.2]⟩
  neg := fun {a a'} ha => by
    obtain ⟨h1, h2⟩ := Fr.neg_refines a ha.1
    exact ⟨h1, by rw [h2, ha.2]⟩
  inv := fun {a a'} ha => by
    obtain ⟨o, ho, h1, h2⟩ := Fr.inverse_refines a ha.1
    show OptRel CanonRel (FProg.invL paramsR a) (some (a'.inverse.getD 0))
    unfold FProg.invL
    rw [ho]
    rw [ha.2] at h1
    have := getD_rel h1 h2
    cases o with
    | none => exact this
    | some y => exact this
  sqrt := fun _ => trivial
  setbit := fun {a a'} b v ha => by
    obtain ⟨h1, h2⟩ := Fr.set_bit_refines a b v ha.1
    exact ⟨h1, by rw [h2, ha.2]⟩


/-- the fuel of the model's `inverse` suffices on every canonical input (zero included: the
    `None` result leaves zero), and the result is canonical -/
theorem invL_total (x : Nat) (hx : x < paramsR.modulus) :
    ∃ y, FProg.invL paramsR x = some y ∧ y < paramsR.modulus ∧ Fr.ofMont y = ((Fr.ofMont x).inverse).getD 0 := by
  have h := opsSim.inv (a := x) (a' := Fr.ofMont x) ⟨hx, rfl⟩
  obtain ⟨y, hy, hr⟩ := OptRel.of_some h rfl
  exact ⟨y, hy, hr.1, hr.2⟩

/-- one step from related states (the step lemma) -/
theorem fstep_refines {regs : List Nat} {ds : List Fr} (h : List.Forall₂ CanonRel regs ds) (ins : FInstr) :
    OptRel (List.Forall₂ CanonRel) (fstepL regs ins) (fstepV ds ins) :=
  fstep_sim opsSim h ins

/-! ### whole programs -/

/-- from any related state: the machines fail together, and otherwise end in related states -/
theorem frunFrom_refines (prog : List FInstr) (regs : List Nat) (ds : List Fr) (h : List.Forall₂ CanonRel regs ds) :
    OptRel (List.Forall₂ CanonRel) (frunFrom opsL regs prog) (frunFrom opsV ds prog) :=
  frunFrom_sim opsSim prog regs ds h

/-- **every program over the public Fr API**: if the value-level machine runs, the limb-level machine
    runs too (no model function panics or runs out of fuel), and limb register k is the canonical
    Montgomery representative (`< r`) of value register k -/
theorem frun_refines (prog : List FInstr) (ds : List Fr) (h : frunV prog = some ds) :
    ∃ regs, frunL prog = some regs ∧ List.Forall₂ CanonRel regs ds :=
  (frun_sim opsSim prog).of_some h

/-- conversely every limb-level run is a value-level run -/
theorem frun_refines_left (prog : List FInstr) (regs : List Nat) (h : frunL prog = some regs) :
    ∃ ds, frunV prog = some ds ∧ List.Forall₂ CanonRel regs ds :=
  (frun_sim opsSim prog).of_some_left h

/-- the two machines fail on exactly the same programs -/
theorem frun_fails_iff (prog : List FInstr) : frunL prog = none ↔ frunV prog = none :=
  (frun_sim opsSim prog).none_iff

theorem forall₂_canon {regs : List Nat} {ds : List Fr} (h : List.Forall₂ CanonRel regs ds) :
    ∀ x ∈ regs, x < paramsR.modulus := by
  induction h with
  | nil => intro x hx; cases hx
  | cons hr _ ih =>
    intro x hx
    rcases List.mem_cons.mp hx with rfl | hx
    · exact hr.1
    · exact ih x hx

/-- **canonicity after any sequence of public operations**: every register is `< r` -/
theorem frun_canonical (prog : List FInstr) (regs : List Nat) (h : frunL prog = some regs) :
    ∀ x ∈ regs, x < paramsR.modulus := by
  obtain ⟨ds, _, hr⟩ := frun_refines_left prog regs h
  exact forall₂_canon hr

/-! ### when does a program fail?  A purely syntactic condition -/

/-- instruction `ins` can be performed on a register file of `n` registers -/
def wfInstr (n : Nat) : FInstr → Bool
  | .const v => decide (v < W256 * W256)
  | .slice _ => true
  | .str _ => true
  | .hash _ => true
  | .random draw => decide (draw.length = 8)
  | .add i j => decide (i < n) && decide (j < n)
  | .sub i j => decide (i < n) && decide (j < n)
  | .mul i j => decide (i < n) && decide (j < n)
  | .pow i j => decide (i < n) && decide (j < n)
  | .neg i => decide (i < n)
  | .dup i => decide (i < n)
  | .inv i => decide (i < n)
  | .sqrt _ => false
  | .setbit i _ _ => decide (i < n)

def wfFrom : Nat → List FInstr → Bool
  | _, [] => true
  | n, ins :: rest => wfInstr n ins && wfFrom (n + 1) rest

/-- every register index refers to an earlier step, `random` scripts have 8 words, `const` literals
    fit 64 bytes, and the program does not use `sqrt` (which `Fr` does not have) -/
def WellFormed (prog : List FInstr) : Prop := wfFrom 0 prog = true

instance (prog : List FInstr) : Decidable (WellFormed prog) := by unfold WellFormed; infer_instance

theorem fnewV_isSome (ds : List Fr) (ins : FInstr) : (fnew opsV ds ins).isSome = wfInstr ds.length ins := by
  cases ins with
  | const v =>
    simp only [fnew, opsV, wfInstr, FProg.constBytes]
    by_cases h1 : v < W256
    · have : v < W256 * W256 := by
        have : 1 ≤ W256 := by rw [U256.W256_eq]; omega
        calc v < W256 := h1
          _ = W256 * 1 := (Nat.mul_one _).symm
          _ ≤ W256 * W256 := Nat.mul_le_mul_left _ this
      simp [h1, this]
    · by_cases h2 : v < W256 * W256 <;> simp [h1, h2]
  | slice bs => rfl
  | str cs => rfl
  | hash bs => rfl
  | random draw =>
    simp only [fnew, opsV, wfInstr]
    by_cases h : draw.length = 8 <;> simp [h]
  | add i j =>
    simp only [fnew, opsV, wfInstr]
    rcases Nat.lt_or_ge i ds.length with hi | hi <;> rcases Nat.lt_or_ge j ds.length with hj | hj <;>
      simp [hi, hj, Nat.not_lt.mpr]
  | sub i j =>
    simp only [fnew, opsV, wfInstr]
    rcases Nat.lt_or_ge i ds.length with hi | hi <;> rcases Nat.lt_or_ge j ds.length with hj | hj <;>
      simp [hi, hj, Nat.not_lt.mpr]
  | mul i j =>
    simp only [fnew, opsV, wfInstr]
    rcases Nat.lt_or_ge i ds.length with hi | hi <;> rcases Nat.lt_or_ge j ds.length with hj | hj <;>
      simp [hi, hj, Nat.not_lt.mpr]
  | pow i j =>
    simp only [fnew, opsV, wfInstr]
    rcases Nat.lt_or_ge i ds.length with hi | hi <;> rcases Nat.lt_or_ge j ds.length with hj | hj <;>
      simp [hi, hj, Nat.not_lt.mpr]
  | neg i =>
    simp only [fnew, opsV, wfInstr]
    rcases Nat.lt_or_ge i ds.length with hi | hi <;> simp [hi, Nat.not_lt.mpr]
  | dup i =>
    simp only [fnew, wfInstr]
    rcases Nat.lt_or_ge i ds.length with hi | hi <;> simp [hi, Nat.not_lt.mpr]
  | inv i =>
    simp only [fnew, opsV, wfInstr]
    rcases Nat.lt_or_ge i ds.length with hi | hi <;> simp [hi, Nat.not_lt.mpr]
  | sqrt i =>
    simp only [fnew, opsV, wfInstr]
    rcases Nat.lt_or_ge i ds.length with hi | hi <;> simp [hi]
  | setbit i b v =>
    simp only [fnew, opsV, wfInstr]
    rcases Nat.lt_or_ge i ds.length with hi | hi <;> simp [hi, Nat.not_lt.mpr]

theorem frunFromV_isSome (prog : List FInstr) : ∀ ds : List Fr,
    (frunFrom opsV ds prog).isSome = wfFrom ds.length prog := by
  induction prog with
  | nil => intro ds; rfl
  | cons ins rest ih =>
    intro ds
    have h1 := fnewV_isSome ds ins
    simp only [frunFrom, fstep, wfFrom]
    cases hn : fnew opsV ds ins with
    | none => rw [hn] at h1; rw [← h1]; rfl
    | some x =>
      rw [hn] at h1
      rw [← h1]
      simp only [Option.isSome_some, Bool.true_and]
      rw [ih (ds ++ [x])]
      simp

/-- the value-level machine (hence, by `frun_fails_iff`, the limb-level machine) fails exactly on
    programs that are not well formed -/
theorem frunV_fails_iff_wf (prog : List FInstr) : frunV prog = none ↔ ¬ WellFormed prog := by
  have h := frunFromV_isSome prog []
  unfold frunV frun WellFormed
  simp only [List.length_nil] at h
  rw [← h]
  cases frunFrom opsV [] prog <;> simp

/-- **totality**: on every well-formed program the limb-level machine terminates without a panic and
    within the model's fuel, with canonical registers denoting the value-level registers -/
theorem frunL_total (prog : List FInstr) (hwf : WellFormed prog) :
    ∃ regs ds, frunL prog = some regs ∧ frunV prog = some ds ∧ List.Forall₂ CanonRel regs ds ∧
      regs.length = prog.length ∧ ∀ x ∈ regs, x < paramsR.modulus := by
  cases hv : frunV prog with
  | none => exact absurd hwf ((frunV_fails_iff_wf prog).mp hv)
  | some ds =>
    obtain ⟨regs, hl, hr⟩ := frun_refines prog ds hv
    refine ⟨regs, ds, hl, rfl, hr, ?_, forall₂_canon hr⟩
    have := frunFrom_length prog hl
    simpa using this

/-! ### observations are functions of the denoted field element -/

/-- the representative is unique: the stored limbs are a function of the field element -/
theorem canonRel_unique {x y : Nat} {a : Fr} (hx : CanonRel x a) (hy : CanonRel y a) : x = y :=
  Fr.ofMont_inj x y hx.1 hy.1 (hx.2.trans hy.2.symm)

/-- derived `==` (equality of raw limbs) ⇔ equality of the denoted field elements -/
theorem observe_eq {x y : Nat} {a b : Fr} (hx : CanonRel x a) (hy : CanonRel y b) : x = y ↔ a = b := by
  constructor
  · intro h; subst h; exact hx.2.symm.trans hy.2
  · intro h; subst h; exact canonRel_unique hx hy

theorem observe_eq_bool {x y : Nat} {a b : Fr} (hx : CanonRel x a) (hy : CanonRel y b) :
    FProg.eqObs x y = decide (a = b) := by
  unfold FProg.eqObs
  by_cases h : a = b
  · have := (observe_eq hx hy).mpr h
    simp [h, this]
  · have : ¬ x = y := fun e => h ((observe_eq hx hy).mp e)
    simp [h, this]

theorem observe_is_zero {x : Nat} {a : Fr} (hx : CanonRel x a) : FProg.isZeroObs x = a.is_zero := by
  unfold FProg.isZeroObs
  rw [Fr.is_zero_refines x hx.1, hx.2]

theorem observe_is_zero_iff {x : Nat} {a : Fr} (hx : CanonRel x a) : FProg.isZeroObs x = true ↔ a = 0 := by
  rw [observe_is_zero hx]; exact Fr.is_zero_iff a

theorem observe_to_slice {x : Nat} {a : Fr} (hx : CanonRel x a) : FProg.toSliceObs paramsR x = Api.frToSlice a := by
  unfold FProg.toSliceObs
  rw [Fr.to_slice_refines x hx.1, hx.2]

/-- every field element has a canonical representative: the one `from_slice(to_slice(a))` computes -/
theorem canonRel_fresh (a : Fr) : CanonRel (Fp.new_mul_factor paramsR a.val) a := by
  have hv : a.val < W256 := lt_trans a.isLt paramsR_ok.lt
  obtain ⟨h1, h2⟩ := Fr.new_mul_factor_refines a.val hv
  exact ⟨h1, by rw [h2, Fr.ofNat_val]⟩

/-- two limb-level register files denoting the same values are equal -/
theorem regs_unique {regs regs' : List Nat} {ds : List Fr} (h : List.Forall₂ CanonRel regs ds)
    (h' : List.Forall₂ CanonRel regs' ds) : regs = regs' := by
  induction h generalizing regs' with
  | nil => cases h'; rfl
  | cons hr _ ih =>
    cases h' with
    | cons hr' ht' => rw [canonRel_unique hr hr', ih ht']

/-- **any further instruction** applied to two register files related to the same value-level file
    gives related results (the step lemma, twice) — in fact the same result -/
theorem step_congr {regs regs' : List Nat} {ds : List Fr} (h : List.Forall₂ CanonRel regs ds)
    (h' : List.Forall₂ CanonRel regs' ds) (ins : FInstr) :
    OptRel (List.Forall₂ CanonRel) (fstepL regs ins) (fstepV ds ins) ∧
    OptRel (List.Forall₂ CanonRel) (fstepL regs' ins) (fstepV ds ins) ∧
    fstepL regs ins = fstepL regs' ins :=
  ⟨fstep_sim opsSim h ins, fstep_sim opsSim h' ins, by rw [regs_unique h h']⟩

/-- the observations of a run: for registers i, j of the limb-level run, `==`, `is_zero`, `to_slice`
    are those of the value-level registers -/
theorem frun_observe (prog : List FInstr) (regs : List Nat) (h : frunL prog = some regs) :
    ∃ ds, frunV prog = some ds ∧ ds.length = regs.length ∧
      ∀ (i j x y : Nat), regs[i]? = some x → regs[j]? = some y → ∃ a b, ds[i]? = some a ∧ ds[j]? = some b ∧
        x < paramsR.modulus ∧ Fr.ofMont x = a ∧
        FProg.eqObs x y = decide (a = b) ∧ FProg.isZeroObs x = a.is_zero ∧
        FProg.toSliceObs paramsR x = Api.frToSlice a := by
  obtain ⟨ds, hv, hr⟩ := frun_refines_left prog regs h
  refine ⟨ds, hv, hr.length_eq.symm, fun i j x y hi hj => ?_⟩
  obtain ⟨a, ha, hxa⟩ := (lookup_rel hr i).of_some_left hi
  obtain ⟨b, hb, hyb⟩ := (lookup_rel hr j).of_some_left hj
  exact ⟨a, b, ha, hb, hxa.1, hxa.2, observe_eq_bool hxa hyb, observe_is_zero hxa, observe_to_slice hxa⟩

/-- non-vacuity: a program using every Fr instruction, including the `None` conventions
    (`inverse` of zero, a 65-byte slice, a non-digit string) -/
example : WellFormed [.const 5, .slice [1, 2, 3], .str ['1', '2'], .hash [7], .random [1, 2, 3, 4, 5, 6, 7, 8],
    .add 0 1, .sub 2 3, .mul 4 5, .pow 6 0, .neg 7, .dup 8, .inv 9, .setbit 10 255 true,
    .sub 0 0, .inv 13, .slice (List.replicate 65 1), .str ['x']] := by decide

end FrProg

/-! ## the base field Fq -/

namespace FqProg

/-- a limb-level register `x` is the canonical Montgomery representative of the value `a` -/
def CanonRel (x : Nat) (a : Fq) : Prop := x < paramsQ.modulus ∧ Fq.ofMont x = a

theorem canonRel_zero : CanonRel Fp.zero 0 := ⟨Fq.zero_canon, Fq.ofMont_zero⟩

/-- an `Option` result of the API, with `None` leaving zero -/
theorem getD_rel {o : Option Nat} {w : Option Fq} (h1 : o.map Fq.ofMont = w) (h2 : ∀ y, o = some y → y < Consts.FQ) :
    CanonRel (o.getD Fp.zero) (w.getD 0) := by
  subst h1
  cases o with
  | none => exact canonRel_zero
  | some y => exact ⟨h2 y rfl, rfl⟩

/-- an `Outcome (Option _)` result of the API that never panics, with `None` leaving zero -/
theorem orZero_rel {X : Outcome (Option Nat)} {w : Option Fq}
    (h : ∃ o, X = .ok o ∧ o.map Fq.ofMont = w ∧ ∀ y, o = some y → y < Consts.FQ) :
    OptRel CanonRel (FProg.orZero X) (some (w.getD 0)) := by
  obtain ⟨o, hX, h1, h2⟩ := h
  subst hX
  have := getD_rel h1 h2
  cases o with
  | none => exact this
  | some y => exact this

theorem const_rel (v : Nat) :
    OptRel CanonRel (FProg.constL paramsQ v) ((FProg.constBytes v).map (fun _ => Fq.ofNat v)) := by
  unfold FProg.constL
  cases hb : FProg.constBytes v with
  | none => trivial
  | some bs =>
    obtain ⟨hlen, hval⟩ := FProg.constBytes_spec v bs hb
    obtain ⟨o, ho, h1, h2⟩ := Fq.lib_from_slice_refines bs
    have hfs : Api.fqFromSlice bs = some (Fq.ofNat v) := by
      unfold Api.fqFromSlice
      rw [if_pos (by omega), hval]
    rw [hfs] at h1
    cases o with
    | none => cases h1
    | some y =>
      simp only [Option.map_some, Option.some.injEq] at h1
      simp only [FProg.libFromSlice_eq, ho, Option.map_some]
      exact ⟨h2 y rfl, h1⟩

theorem opsSim : OpsSim CanonRel opsL opsV where
  const := const_rel
  slice := fun bs => orZero_rel (by rw [FProg.libFromSlice_eq]; exact Fq.lib_from_slice_refines bs)
  str := fun cs => getD_rel (Fq.from_str_refines cs).1 (Fq.from_str_refines cs).2
  hash := fun _ => trivial
  random := fun _ => trivial
  add := fun {a b a' b'} ha hb => by
    obtain ⟨h1, h2⟩ := Fq.add_refines a b ha.1 hb.1
    exact ⟨h1, by rw [h2, ha.2, hb.2]⟩
  sub := fun {a b a' b'} ha hb => by
    obtain ⟨h1, h2⟩ := Fq.sub_refines a b ha.1 hb.1
    exact ⟨h1, by rw [h2, ha.2, hb.2]⟩
  mul := fun {a b a' b'} ha hb => by
    obtain ⟨h1, h2⟩ := Fq.mul_refines a b ha.1 hb.1
    exact ⟨h1, by rw [h2, ha.2, hb.2]⟩
  pow := fun {a e a' e'} ha he => by
    obtain ⟨h1, h2⟩ := Fq.pow_refines a e ha.1
    exact ⟨h1, by rw [h2, Fq.into_u256_refines e he.1, ha.2, he.2]⟩
  neg := fun {a a'} ha => by
    obtain ⟨h1, h2⟩ := Fq.neg_refines a ha.1
    exact ⟨h1, by rw [h2, ha.2]⟩
  inv := fun {a a'} ha => by
    obtain ⟨o, ho, h1, h2⟩ := Fq.inverse_refines a ha.1
    show OptRel CanonRel (FProg.invL paramsQ a) (some (a'.inverse.getD 0))
    unfold FProg.invL
    rw [ho]
    rw [ha.2] at h1
    have := getD_rel h1 h2
    cases o with
    | none => exact this
    | some y => exact this
  sqrt := fun {a a'} ha => by
    obtain ⟨h1, h2⟩ := Fq.sqrt_refines a ha.1
    rw [ha.2] at h1
    exact getD_rel h1 h2
  setbit := fun _ _ _ => trivial


/-- the fuel of the model's `inverse` suffices on every canonical input (zero included: the
    `None` result leaves zero), and the result is canonical -/
theorem invL_total (x : Nat) (hx : x < paramsQ.modulus) :
    ∃ y, FProg.invL paramsQ x = some y ∧ y < paramsQ.modulus ∧ Fq.ofMont y = ((Fq.ofMont x).inverse).getD 0 := by
  have h := opsSim.inv (a := x) (a' := Fq.ofMont x) ⟨hx, rfl⟩
  obtain ⟨y, hy, hr⟩ := OptRel.of_some h rfl
  exact ⟨y, hy, hr.1, hr.2⟩

/-- one step from related states (the step lemma) -/
theorem fstep_refines {regs : List Nat} {ds : List Fq} (h : List.Forall₂ CanonRel regs ds) (ins : FInstr) :
    OptRel (List.Forall₂ CanonRel) (fstepL regs ins) (fstepV ds ins) :=
  fstep_sim opsSim h ins

/-! ### whole programs -/

/-- from any related state: the machines fail together, and otherwise end in related states -/
theorem frunFrom_refines (prog : List FInstr) (regs : List Nat) (ds : List Fq) (h : List.Forall₂ CanonRel regs ds) :
    OptRel (List.Forall₂ CanonRel) (frunFrom opsL regs prog) (frunFrom opsV ds prog) :=
  frunFrom_sim opsSim prog regs ds h

/-- **every program over the public Fq API**: if the value-level machine runs, the limb-level machine
    runs too (no model function panics or runs out of fuel), and limb register k is the canonical
    Montgomery representative (`< q`) of value register k -/
theorem frun_refines (prog : List FInstr) (ds : List Fq) (h : frunV prog = some ds) :
    ∃ regs, frunL prog = some regs ∧ List.Forall₂ CanonRel regs ds :=
  (frun_sim opsSim prog).of_some h

/-- conversely every limb-level run is a value-level run -/
theorem frun_refines_left (prog : List FInstr) (regs : List Nat) (h : frunL prog = some regs) :
    ∃ ds, frunV prog = some ds ∧ List.Forall₂ CanonRel regs ds :=
  (frun_sim opsSim prog).of_some_left h

/-- the two machines fail on exactly the same programs -/
theorem frun_fails_iff (prog : List FInstr) : frunL prog = none ↔ frunV prog = none :=
  (frun_sim opsSim prog).none_iff

theorem forall₂_canon {regs : List Nat} {ds : List Fq} (h : List.Forall₂ CanonRel regs ds) :
    ∀ x ∈ regs, x < paramsQ.modulus := by
  induction h with
  | nil => intro x hx; cases hx
  | cons hr _ ih =>
    intro x hx
    rcases List.mem_cons.mp hx with rfl | hx
    · exact hr.1
    · exact ih x hx

/-- **canonicity after any sequence of public operations**: every register is `< q` -/
theorem frun_canonical (prog : List FInstr) (regs : List Nat) (h : frunL prog = some regs) :
    ∀ x ∈ regs, x < paramsQ.modulus := by
  obtain ⟨ds, _, hr⟩ := frun_refines_left prog regs h
  exact forall₂_canon hr

/-! ### when does a program fail?  A purely syntactic condition -/

/-- instruction `ins` can be performed on a register file of `n` registers -/
def wfInstr (n : Nat) : FInstr → Bool
  | .const v => decide (v < W256 * W256)
  | .slice _ => true
  | .str _ => true
  | .hash _ => false
  | .random _ => false
  | .add i j => decide (i < n) && decide (j < n)
  | .sub i j => decide (i < n) && decide (j < n)
  | .mul i j => decide (i < n) && decide (j < n)
  | .pow i j => decide (i < n) && decide (j < n)
  | .neg i => decide (i < n)
  | .dup i => decide (i < n)
  | .inv i => decide (i < n)
  | .sqrt i => decide (i < n)
  | .setbit _ _ _ => false

def wfFrom : Nat → List FInstr → Bool
  | _, [] => true
  | n, ins :: rest => wfInstr n ins && wfFrom (n + 1) rest

/-- every register index refers to an earlier step, `const` literals fit 64 bytes, and the program
    does not use `hash`, `random`, `setbit` (which `Fq` does not have) -/
def WellFormed (prog : List FInstr) : Prop := wfFrom 0 prog = true

instance (prog : List FInstr) : Decidable (WellFormed prog) := by unfold WellFormed; infer_instance

theorem fnewV_isSome (ds : List Fq) (ins : FInstr) : (fnew opsV ds ins).isSome = wfInstr ds.length ins := by
  cases ins with
  | const v =>
    simp only [fnew, opsV, wfInstr, FProg.constBytes]
    by_cases h1 : v < W256
    · have : v < W256 * W256 := by
        have : 1 ≤ W256 := by rw [U256.W256_eq]; omega
        calc v < W256 := h1
          _ = W256 * 1 := (Nat.mul_one _).symm
          _ ≤ W256 * W256 := Nat.mul_le_mul_left _ this
      simp [h1, this]
    · by_cases h2 : v < W256 * W256 <;> simp [h1, h2]
  | slice bs => rfl
  | str cs => rfl
  | hash bs => rfl
  | random draw => rfl
  | add i j =>
    simp only [fnew, opsV, wfInstr]
    rcases Nat.lt_or_ge i ds.length with hi | hi <;> rcases Nat.lt_or_ge j ds.length with hj | hj <;>
      simp [hi, hj, Nat.not_lt.mpr]
  | sub i j =>
    simp only [fnew, opsV, wfInstr]
    rcases Nat.lt_or_ge i ds.length with hi | hi <;> rcases Nat.lt_or_ge j ds.length with hj | hj <;>
      simp [hi, hj, Nat.not_lt.mpr]
  | mul i j =>
    simp only [fnew, opsV, wfInstr]
    rcases Nat.lt_or_ge i ds.length with hi | hi <;> rcases Nat.lt_or_ge j ds.length with hj | hj <;>
      simp [hi, hj, Nat.not_lt.mpr]
  | pow i j =>
    simp only [fnew, opsV, wfInstr]
    rcases Nat.lt_or_ge i ds.length with hi | hi <;> rcases Nat.lt_or_ge j ds.length with hj | hj <;>
      simp [hi, hj, Nat.not_lt.mpr]
  | neg i =>
    simp only [fnew, opsV, wfInstr]
    rcases Nat.lt_or_ge i ds.length with hi | hi <;> simp [hi, Nat.not_lt.mpr]
  | dup i =>
    simp only [fnew, wfInstr]
    rcases Nat.lt_or_ge i ds.length with hi | hi <;> simp [hi, Nat.not_lt.mpr]
  | inv i =>
    simp only [fnew, opsV, wfInstr]
    rcases Nat.lt_or_ge i ds.length with hi | hi <;> simp [hi, Nat.not_lt.mpr]
  | sqrt i =>
    simp only [fnew, opsV, wfInstr]
    rcases Nat.lt_or_ge i ds.length with hi | hi <;> simp [hi, Nat.not_lt.mpr]
  | setbit i b v =>
    simp only [fnew, opsV, wfInstr]
    rcases Nat.lt_or_ge i ds.length with hi | hi <;> simp [hi]

theorem frunFromV_isSome (prog : List FInstr) : ∀ ds : List Fq,
    (frunFrom opsV ds prog).isSome = wfFrom ds.length prog := by
  induction prog with
  | nil => intro ds; rfl
  | cons ins rest ih =>
    intro ds
    have h1 := fnewV_isSome ds ins
    simp only [frunFrom, fstep, wfFrom]
    cases hn : fnew opsV ds ins with
    | none => rw [hn] at h1; rw [← h1]; rfl
    | some x =>
      rw [hn] at h1
      rw [← h1]
      simp only [Option.isSome_some, Bool.true_and]
      rw [ih (ds ++ [x])]
      simp

/-- the value-level machine (hence, by `frun_fails_iff`, the limb-level machine) fails exactly on
    programs that are not well formed -/
theorem frunV_fails_iff_wf (prog : List FInstr) : frunV prog = none ↔ ¬ WellFormed prog := by
  have h := frunFromV_isSome prog []
  unfold frunV frun WellFormed
  simp only [List.length_nil] at h
  rw [← h]
  cases frunFrom opsV [] prog <;> simp

/-- **totality**: on every well-formed program the limb-level machine terminates without a panic and
    within the model's fuel, with canonical registers denoting the value-level registers -/
theorem frunL_total (prog : List FInstr) (hwf : WellFormed prog) :
    ∃ regs ds, frunL prog = some regs ∧ frunV prog = some ds ∧ List.Forall₂ CanonRel regs ds ∧
      regs.length = prog.length ∧ ∀ x ∈ regs, x < paramsQ.modulus := by
  cases hv : frunV prog with
  | none => exact absurd hwf ((frunV_fails_iff_wf prog).mp hv)
  | some ds =>
    obtain ⟨regs, hl, hr⟩ := frun_refines prog ds hv
    refine ⟨regs, ds, hl, rfl, hr, ?_, forall₂_canon hr⟩
    have := frunFrom_length prog hl
    simpa using this

/-! ### observations are functions of the denoted field element -/

/-- the representative is unique: the stored limbs are a function of the field element -/
theorem canonRel_unique {x y : Nat} {a : Fq} (hx : CanonRel x a) (hy : CanonRel y a) : x = y :=
  Fq.ofMont_inj x y hx.1 hy.1 (hx.2.trans hy.2.symm)

/-- derived `==` (equality of raw limbs) ⇔ equality of the denoted field elements -/
theorem observe_eq {x y : Nat} {a b : Fq} (hx : CanonRel x a) (hy : CanonRel y b) : x = y ↔ a = b := by
  constructor
  · intro h; subst h; exact hx.2.symm.trans hy.2
  · intro h; subst h; exact canonRel_unique hx hy

theorem observe_eq_bool {x y : Nat} {a b : Fq} (hx : CanonRel x a) (hy : CanonRel y b) :
    FProg.eqObs x y = decide (a = b) := by
  unfold FProg.eqObs
  by_cases h : a = b
  · have := (observe_eq hx hy).mpr h
    simp [h, this]
  · have : ¬ x = y := fun e => h ((observe_eq hx hy).mp e)
    simp [h, this]

theorem observe_is_zero {x : Nat} {a : Fq} (hx : CanonRel x a) : FProg.isZeroObs x = a.is_zero := by
  unfold FProg.isZeroObs
  rw [Fq.is_zero_refines x hx.1, hx.2]

theorem observe_is_zero_iff {x : Nat} {a : Fq} (hx : CanonRel x a) : FProg.isZeroObs x = true ↔ a = 0 := by
  rw [observe_is_zero hx]; exact Fq.is_zero_iff a

theorem observe_to_slice {x : Nat} {a : Fq} (hx : CanonRel x a) : FProg.toSliceObs paramsQ x = Api.fqToSlice a := by
  unfold FProg.toSliceObs
  rw [Fq.to_slice_refines x hx.1, hx.2]

/-- `Fq::is_even` (the sign bit of the compressed point encodings) -/
theorem observe_is_even {x : Nat} {a : Fq} (hx : CanonRel x a) : FProg.isEvenObs x = a.is_even := by
  unfold FProg.isEvenObs
  rw [Fq.is_even_refines x hx.1, hx.2]

/-- every field element has a canonical representative: the one `from_slice(to_slice(a))` computes -/
theorem canonRel_fresh (a : Fq) : CanonRel (Fp.new_mul_factor paramsQ a.val) a := by
  have hv : a.val < W256 := lt_trans a.isLt paramsQ_ok.lt
  obtain ⟨h1, h2⟩ := Fq.new_mul_factor_refines a.val hv
  exact ⟨h1, by rw [h2, Fq.ofNat_val]⟩

/-- two limb-level register files denoting the same values are equal -/
theorem regs_unique {regs regs' : List Nat} {ds : List Fq} (h : List.Forall₂ CanonRel regs ds)
    (h' : List.Forall₂ CanonRel regs' ds) : regs = regs' := by
  induction h generalizing regs' with
  | nil => cases h'; rfl
  | cons hr _ ih =>
    cases h' with
    | cons hr' ht' => rw [canonRel_unique hr hr', ih ht']

/-- **any further instruction** applied to two register files related to the same value-level file
    gives related results (the step lemma, twice) — in fact the same result -/
theorem step_congr {regs regs' : List Nat} {ds : List Fq} (h : List.Forall₂ CanonRel regs ds)
    (h' : List.Forall₂ CanonRel regs' ds) (ins : FInstr) :
    OptRel (List.Forall₂ CanonRel) (fstepL regs ins) (fstepV ds ins) ∧
    OptRel (List.Forall₂ CanonRel) (fstepL regs' ins) (fstepV ds ins) ∧
    fstepL regs ins = fstepL regs' ins :=
  ⟨fstep_sim opsSim h ins, fstep_sim opsSim h' ins, by rw [regs_unique h h']⟩

/-- the observations of a run: for registers i, j of the limb-level run, `==`, `is_zero`, `to_slice`,
    `is_even` are those of the value-level registers -/
theorem frun_observe (prog : List FInstr) (regs : List Nat) (h : frunL prog = some regs) :
    ∃ ds, frunV prog = some ds ∧ ds.length = regs.length ∧
      ∀ (i j x y : Nat), regs[i]? = some x → regs[j]? = some y → ∃ a b, ds[i]? = some a ∧ ds[j]? = some b ∧
        x < paramsQ.modulus ∧ Fq.ofMont x = a ∧
        FProg.eqObs x y = decide (a = b) ∧ FProg.isZeroObs x = a.is_zero ∧
        FProg.toSliceObs paramsQ x = Api.fqToSlice a ∧ FProg.isEvenObs x = a.is_even := by
  obtain ⟨ds, hv, hr⟩ := frun_refines_left prog regs h
  refine ⟨ds, hv, hr.length_eq.symm, fun i j x y hi hj => ?_⟩
  obtain ⟨a, ha, hxa⟩ := (lookup_rel hr i).of_some_left hi
  obtain ⟨b, hb, hyb⟩ := (lookup_rel hr j).of_some_left hj
  exact ⟨a, b, ha, hb, hxa.1, hxa.2, observe_eq_bool hxa hyb, observe_is_zero hxa, observe_to_slice hxa,
    observe_is_even hxa⟩

/-- non-vacuity: a program using every Fq instruction, including the `None` conventions
    (`inverse` of zero, `sqrt`, a 65-byte slice, a non-digit string) -/
example : WellFormed [.const 5, .slice [1, 2, 3], .str ['1', '2'],
    .add 0 1, .sub 2 3, .mul 4 0, .pow 5 0, .neg 6, .dup 7, .inv 8, .sqrt 9,
    .sub 0 0, .inv 11, .slice (List.replicate 65 1), .str ['x'], .sqrt 1] := by decide

end FqProg

end Sm9
