import Sm9.Proofs.JacobianInst
import Sm9.Proofs.TowerField
/-!
# The generic Jacobian theorems, instantiated at the model's own `FieldElement Fq2` (G2)

Twist E′ : y² = x³ + 5u over Fq2.  Side conditions: 2 ≠ 0 in Fq2; −5u is not a cube in
Fq2 (one kernel evaluation of (−5u)^((q²−1)/3) plus x^(q²−1) = 1), so E′ has no point
with y = 0.
-/
set_option maxRecDepth 100000
namespace Sm9
open WeierstrassCurve

theorem Fq2.inverse_ite (x : Fq2) : Fq2.inverse x = if x = 0 then none else some x⁻¹ := by
  by_cases h : x = 0
  · subst h; rw [if_pos rfl]; exact Fq2.inverse_zero
  · rw [if_neg h]; exact Fq2.inverse_eq_inv x h

theorem fe_Fq2_eq : (Sm9.Fq2.instFieldElement : FieldElement Fq2) = Jac.feOfField Fq2 := by
  unfold Sm9.Fq2.instFieldElement Jac.feOfField
  congr 1
  · funext x; exact Fq2.squared_eq_mul x
  · funext x; exact Fq2.inverse_ite x
  · funext x
    by_cases h : x = 0
    · subst h; simp [(Fq2.is_zero_iff 0).2 rfl]
    · have hz : Fq2.is_zero x = false := by
        cases hh : Fq2.is_zero x
        · rfl
        · exact absurd ((Fq2.is_zero_iff x).1 hh) h
      simp [hz, h]

theorem Fq2.two_ne_zero : (2 : Fq2) ≠ 0 := by
  intro h
  have : (2 : Fq2).c0 = (0 : Fq2).c0 := by rw [h]
  revert this
  decide +kernel

/-- the twist coefficient 5u -/
def b2 : Fq2 := GroupParams.coeff_b

theorem q2_sub_one_div_three : 3 * ((q ^ 2 - 1) / 3) = q ^ 2 - 1 := by decide +kernel
theorem neg_b2_not_cube_witness : FieldElement.pow (-b2) ((q ^ 2 - 1) / 3) ≠ 1 := by decide +kernel
theorem b2_ne_zero : b2 ≠ 0 := by decide +kernel

/-- −5u is not a cube in Fq2: E′(Fq2) has no point with y = 0 -/
theorem Fq2.no_two_torsion (x : Fq2) : x ^ 3 + b2 ≠ 0 := by
  apply no_cube_root b2 ((q ^ 2 - 1) / 3) b2_ne_zero
  · have := neg_b2_not_cube_witness
    rw [Fq2.pow_eq] at this
    exact this
  · intro y hy
    rw [q2_sub_one_div_three]
    exact Fq2.pow_card_sub_one y hy

namespace G2
abbrev Valid (P : G2) : Prop := Jac.Valid b2 P
noncomputable abbrev toAff (P : G2) := Jac.toAff b2 P

theorem toAff_zero (P : G2) (h : P.z = 0) : toAff P = 0 := Jac.toAff_zero b2 P h
theorem toAff_some (P : G2) (hz : P.z ≠ 0) (hn : (Jac.Wb b2).Nonsingular (P.x / P.z ^ 2) (P.y / P.z ^ 3)) :
    toAff P = .some _ _ hn := Jac.toAff_some b2 P hz hn

theorem add_correct (P Q : G2) (hP : Valid P) (hQ : Valid Q) : toAff (P.add Q) = toAff P + toAff Q := by
  have := Jac.add_correct b2 Fq2.two_ne_zero Fq2.no_two_torsion P Q hP hQ
  unfold Jac.add at this
  rw [← fe_Fq2_eq] at this
  exact this
theorem add_valid (P Q : G2) (hP : Valid P) (hQ : Valid Q) : Valid (P.add Q) := by
  have := Jac.add_valid b2 Fq2.two_ne_zero Fq2.no_two_torsion P Q hP hQ
  unfold Jac.add at this
  rw [← fe_Fq2_eq] at this
  exact this
theorem neg_correct (P : G2) (hP : Valid P) : toAff P.neg = -toAff P := by
  have := Jac.neg_correct b2 P hP
  unfold Jac.neg at this
  rw [← fe_Fq2_eq] at this
  exact this
theorem neg_valid (P : G2) (hP : Valid P) : Valid P.neg := by
  have := Jac.neg_valid b2 P hP
  unfold Jac.neg at this
  rw [← fe_Fq2_eq] at this
  exact this
theorem sub_correct (P Q : G2) (hP : Valid P) (hQ : Valid Q) : toAff (P.sub Q) = toAff P - toAff Q := by
  have := Jac.sub_correct b2 Fq2.two_ne_zero Fq2.no_two_torsion P Q hP hQ
  rw [← fe_Fq2_eq] at this
  exact this
theorem double_correct (P : G2) (hP : Valid P) : toAff P.double = toAff P + toAff P := by
  have := Jac.double_correct b2 Fq2.two_ne_zero P hP
  unfold Jac.dbl at this
  rw [← fe_Fq2_eq] at this
  exact this
theorem mul_correct (P : G2) (hP : Valid P) (k : Fr) : toAff (P.mul k) = k.val • toAff P := by
  have := Jac.mul_correct b2 Fq2.two_ne_zero Fq2.no_two_torsion P hP k
  rw [← fe_Fq2_eq] at this
  exact this
theorem mul_valid (P : G2) (hP : Valid P) (k : Fr) : Valid (P.mul k) := by
  have := Jac.mul_valid b2 Fq2.two_ne_zero Fq2.no_two_torsion P hP k
  rw [← fe_Fq2_eq] at this
  exact this
theorem eq_iff (P Q : G2) (hP : Valid P) (hQ : Valid Q) : P.eq Q = true ↔ toAff P = toAff Q := by
  have := Jac.eq_iff b2 P Q hP hQ
  rw [← fe_Fq2_eq] at this
  exact this
theorem to_affine_spec (P : G2) :
    P.to_affine = if P.z = 0 then none else some ⟨P.x / P.z ^ 2, P.y / P.z ^ 3⟩ := by
  have := Jac.to_affine_spec (F := Fq2) P
  rw [← fe_Fq2_eq] at this
  exact this
theorem normalize_spec (P : G2) (hP : Valid P) :
    toAff (Api.normalize P) = toAff P ∧ (P.z ≠ 0 → (Api.normalize P).z = 1) ∧
    (P.z = 0 → Api.normalize P = P) ∧ Valid (Api.normalize P) := by
  have := Jac.normalize_spec b2 P hP
  rw [← fe_Fq2_eq] at this
  exact this

/-- an affine pair satisfying the twist equation is a valid point -/
theorem valid_of_equation (x y : Fq2) (h : y * y = x * x * x + b2) : Valid ({ x := x, y := y, z := 1 } : G2) := by
  right
  rw [Jac.nonsingular_iff]
  simp only [one_pow, div_one]
  refine ⟨by rw [pow_two, h]; ring, ?_⟩
  right
  intro hy
  have hy0 : y = 0 := by
    have h2 : (2 : Fq2) * y = 0 := by linear_combination hy
    rcases mul_eq_zero.mp h2 with h' | h'
    · exact absurd h' Fq2.two_ne_zero
    · exact h'
  apply Fq2.no_two_torsion x
  rw [hy0] at h
  linear_combination -h

theorem one_valid : Valid (G.one : G2) := by
  have h := P2_on_twist
  have := valid_of_equation (G.one : G2).x (G.one : G2).y (by
    rw [Fq2.squared_eq_mul, Fq2.squared_eq_mul] at h; exact h)
  exact this

end G2
end Sm9
