import Sm9.Proofs.BilinRightAlg
import Sm9.Proofs.ChainIndepSm9
import Sm9.Proofs.MillerNeg
import Sm9.Proofs.MillerFrobEquivariant
/-!
# The SM9 pairing is additive in its `G2` argument

`e(P, Q1 + Q2) = e(P, Q1) · e(P, Q2)` for `P ∈ E(Fq)`, `Q1, Q2 ∈ G2 = ⟨P2⟩`.

`Sm9/Proofs/BilinRightAlg.lean` proves in the coordinate ring `Fq2[E′]` that the Miller functions at
`Q1`, `Q2`, `Q3 = Q1 + Q2` satisfy `F1·F2·ℓ_{−π³} = c·F3·ℓ_0^a·ℓ_π·ℓ_{−π²}` up to verticals, where `ℓ_s`
is the line through `sQ1`, `sQ2`.  Here:

1. the ideal of the whole SM9 Miller function (loop and the two Frobenius lines), `miller_ideal`;
2. evaluation at `ψ⁻¹(P)` and the final exponentiation: constants, verticals and `w³` die; with
   `z = ℓ_0(P)`: `red ℓ_π = (red z)^q`, `red ℓ_{−π²} · (red z)^(q²) = 1`, `red ℓ_{−π³} · (red z)^(q³) = 1`
   and `(red z)^r = 1`, `r ∣ a + q − q² + q³`;
3. `specMiller_add_right` (MAIN) and `api_pairing_add_right` (the entry point `pairing`).
-/
namespace Sm9
namespace Miller
open WeierstrassCurve Polynomial

set_option maxRecDepth 100000

/-- the final exponent -/
local notation "E" => ((q ^ 12 - 1) / r)

/-! ## 0. closed numeric facts -/

/-- `r ∣ a + q − q² + q³` -/
theorem rate_exponent : (Consts.SM9_LOOP_N + q + q * q * q) % r = (q * q) % r := by decide +kernel

theorem one_lt_r : 1 < r := by decide +kernel

/-! ## 1. the tail commutes with monoid homomorphisms of the line values -/

section generic
variable {F : Type} [Field F] [DecidableEq F] {K K' : Type} [MulOneClass K] [MulOneClass K']
variable (W : Affine F) (ℓ : F → F → F → K) (f : K →* K')

theorem specTail_hom (Q1 Q2 : W.Point) (st : W.Point × K) :
    specTail W (fun x y l => f (ℓ x y l)) Q1 Q2 (st.1, f st.2) = f (specTail W ℓ Q1 Q2 st) := by
  unfold specTail
  simp only [lineVal_hom, map_mul]

theorem specTail_specLoop_hom (Q Q1 Q2 : W.Point) (N : Nat) (idx : List Nat) :
    specTail W (fun x y l => f (ℓ x y l)) Q1 Q2 (specLoop W (fun x y l => f (ℓ x y l)) Q N idx)
      = f (specTail W ℓ Q1 Q2 (specLoop W ℓ Q N idx)) := by
  rw [specLoop_hom, specTail_hom]

end generic

/-! ## 2. evaluation and reduction -/

theorem specTail_ev_reduced (xP yP : Fq) (hP : yP * yP = xP * xP * xP + b1)
    (Q Q1 Q2 : (Jac.Wb b2).Point) (N : Nat) (idx : List Nat) :
    ev xP yP hP (specTail (Jac.Wb b2) (lineR (Jac.Wb b2)) Q1 Q2
        (specLoop (Jac.Wb b2) (lineR (Jac.Wb b2)) Q N idx)) ^ E
      = specTail (Jac.Wb b2) (lineAt xP yP) Q1 Q2 (specLoop (Jac.Wb b2) (lineAt xP yP) Q N idx) ^ E := by
  have h1 := specTail_specLoop_hom (Jac.Wb b2) (lineR (Jac.Wb b2))
    ((powMonoidHom E : Fq12 →* Fq12).comp (ev xP yP hP : _ →* Fq12)) Q Q1 Q2 N idx
  have h2 := specTail_specLoop_hom (Jac.Wb b2) (lineAt xP yP) (powMonoidHom E : Fq12 →* Fq12)
    Q Q1 Q2 N idx
  simp only [MonoidHom.comp_apply] at h1
  rw [line_reduced xP yP hP, h2] at h1
  simp only [powMonoidHom_apply] at h1
  exact h1.symm

theorem lineVal_ev_reduced (xP yP : Fq) (hP : yP * yP = xP * xP * xP + b1)
    (A B : (Jac.Wb b2).Point) :
    ev xP yP hP (lineVal (Jac.Wb b2) (lineR (Jac.Wb b2)) A B) ^ E
      = lineVal (Jac.Wb b2) (lineAt xP yP) A B ^ E := by
  cases A with
  | zero => show ev xP yP hP 1 ^ E = 1 ^ E; rw [map_one]
  | some x1 y1 h1 =>
    cases B with
    | zero => show ev xP yP hP 1 ^ E = 1 ^ E; rw [map_one]
    | some x2 y2 h2 =>
      rw [lineVal_some, lineVal_some, ev_lineR, mul_pow, w3_pow_final, one_mul]

theorem curveX_ne_zero : ∀ x ∈ curveX (Jac.Wb b2), x ≠ 0 := by
  rintro x ⟨y, h⟩
  exact twist_x_ne_zero h

/-! ## 3. the Frobenius of the twist on points -/

theorem frobHom_ne_zero {A : (Jac.Wb b2).Point} (hA : A ≠ 0) : frobHom A ≠ 0 := by
  cases A with
  | zero => exact absurd rfl hA
  | some x y h =>
    rw [frobHom_apply, ptMap_some]
    exact Affine.Point.some_ne_zero _

/-- the line through `πA`, `πB` at `P` is the `q`-th power of the line through `A`, `B` -/
theorem lineAt_frobHom (xP yP : Fq) (A B : (Jac.Wb b2).Point) :
    lineVal (Jac.Wb b2) (lineAt xP yP) (frobHom A) (frobHom B)
      = lineVal (Jac.Wb b2) (lineAt xP yP) A B ^ q :=
  lineVal_map b2 conj pi1F⁻¹ (inv_ne_zero pi1F_ne_zero) frob_coeff (lineAt xP yP) (powMonoidHom q)
    (lineAt_frob xP yP) A B

/-- the line through `−A`, `−B` at `P` is `σ` of the line through `A`, `B` -/
theorem lineAt_neg_neg (xP yP : Fq) (A B : (Jac.Wb b2).Point) :
    lineVal (Jac.Wb b2) (lineAt xP yP) (-A) (-B) = sigma (lineVal (Jac.Wb b2) (lineAt xP yP) A B) :=
  lineVal_negQ b2 sigma _ (lineAt_neg_Q xP yP) A B

/-- the Miller function of the R-ate pairing at a point `Q` of the twist, generic in the line values -/
noncomputable def specM {K : Type} [Mul K] [One K] (ℓ : Fq2 → Fq2 → Fq2 → K)
    (Q : (Jac.Wb b2).Point) : K :=
  specTail (Jac.Wb b2) ℓ (frobHom Q) (frobHom (frobHom Q))
    (specLoop (Jac.Wb b2) ℓ Q Consts.SM9_LOOP_N loopIdx)

theorem specMiller_eq_specM (xP yP : Fq) (x y : Fq2) (h : y * y = x * x * x + b2) :
    specMiller xP yP x y = specM (lineAt xP yP) (twPt (x, y)) := by
  unfold specMiller specM
  rw [frobHom_twPt (x, y) h, frobHom_twPt _ (frobTwist_equation (x, y) h)]

theorem specM_ev_reduced (xP yP : Fq) (hP : yP * yP = xP * xP * xP + b1) (Q : (Jac.Wb b2).Point) :
    ev xP yP hP (specM (lineR (Jac.Wb b2)) Q) ^ E = specM (lineAt xP yP) Q ^ E :=
  specTail_ev_reduced xP yP hP Q _ _ _ _

/-! ## 4. the ideal of the whole Miller function -/

section order
variable {Q : (Jac.Wb b2).Point}

theorem frob2_eq (he : frobHom Q = q • Q) : frobHom (frobHom Q) = (q * q) • Q := by
  rw [he, map_nsmul, he, mul_smul]

theorem frob3_eq (he : frobHom Q = q • Q) : frobHom (frobHom (frobHom Q)) = (q * q * q) • Q := by
  rw [frob2_eq he, map_nsmul, he, ← mul_smul]

/-- `aQ + πQ − π²Q = −π³Q` on the `q`-eigenspace of `π` in the `r`-torsion -/
theorem rate_point (hr : r • Q = 0) (he : frobHom Q = q • Q) :
    Consts.SM9_LOOP_N • Q + frobHom Q + -frobHom (frobHom Q) = -frobHom (frobHom (frobHom Q)) := by
  have H : (Consts.SM9_LOOP_N + q + q * q * q) • Q = (q * q) • Q := by
    rw [nsmul_mod hr, rate_exponent, ← nsmul_mod hr]
  rw [add_smul, add_smul] at H
  rw [frob3_eq he, frob2_eq he, he]
  generalize Consts.SM9_LOOP_N • Q = A at H ⊢
  generalize q • Q = B at H ⊢
  generalize (q * q * q) • Q = D at H ⊢
  rw [← H]
  abel

/-- (†): `(F_Q)·I(−π³Q) = I(Q)^a · I(πQ) · I(−π²Q) · (V)` -/
theorem miller_ideal (h0 : Q ≠ 0) (hr : r • Q = 0) (he : frobHom Q = q • Q) :
    MillerIdeal (Jac.Wb b2) Consts.SM9_LOOP_N (specM (lineR (Jac.Wb b2)) Q) Q (frobHom Q)
      (-frobHom (frobHom Q)) (-frobHom (frobHom (frobHom Q))) := by
  have hn : ∀ k, 0 < k → k < r → k • Q ≠ 0 := fun k hk hlt => nsmul_ne_zero_of_lt hr h0 hk hlt
  have he2 : frobHom (frobHom Q) = q • frobHom Q := by rw [he, map_nsmul, he]
  obtain ⟨-, t2, -, -⟩ := tail_of_eigen hr h0 he he2
  exact millerIdeal_of_loop (Jac.Wb b2) Q (frobHom Q) (frobHom (frobHom Q)) _ r hn one_lt_r
    Consts.SM9_LOOP_N loopIdx binChainOK_loop Consts.SM9_LOOP_N chainVal_loop (frobHom_ne_zero h0)
    (frobHom_ne_zero (frobHom_ne_zero h0)) (fun h => t2 (eq_neg_of_add_eq_zero_left h))
    (rate_point hr he) (neg_ne_zero.mpr (frobHom_ne_zero (frobHom_ne_zero (frobHom_ne_zero h0))))

end order

/-! ## 5. additivity of the reduced Miller function -/

/-- the exponent bookkeeping in `Fq12` -/
theorem reduce_combine (a : ℕ) (R1 R2 R3 Z SM SN : Fq12)
    (H : R1 * R2 * SN = R3 * Z ^ a * Z ^ q * SM)
    (hSM : SM * Z ^ (q * q) = 1) (hSN : SN * Z ^ (q * q * q) = 1)
    (hZ : Z ^ a * Z ^ q * Z ^ (q * q * q) = Z ^ (q * q)) : R3 = R1 * R2 := by
  generalize Z ^ (q * q) = A at hSM hZ
  generalize Z ^ (q * q * q) = B at hSN hZ
  generalize Z ^ q = C at H hZ
  generalize Z ^ a = D at H hZ
  calc R3 = R3 * (SM * A) := by rw [hSM, mul_one]
    _ = R3 * SM * (D * C * B) := by rw [hZ]; ring
    _ = (R3 * D * C * SM) * B := by ring
    _ = (R1 * R2 * SN) * B := by rw [H]
    _ = R1 * R2 * (SN * B) := by ring
    _ = R1 * R2 := by rw [hSN, mul_one]

theorem pow_rate (Z : Fq12) (hZ : Z ^ r = 1) :
    Z ^ Consts.SM9_LOOP_N * Z ^ q * Z ^ (q * q * q) = Z ^ (q * q) := by
  have h : ∀ n, Z ^ n = Z ^ (n % r) := fun n => by
    conv_lhs => rw [← Nat.div_add_mod n r, pow_add, pow_mul, hZ, one_pow, one_mul]
  rw [← pow_add, ← pow_add, h, rate_exponent, ← h]

/-- **additivity on points**: `Q1, Q2, Q1 + Q2` non-zero points of the `q`-eigenspace of `π` in the
    `r`-torsion of the twist -/
theorem specM_add (xP yP : Fq) (hP : yP * yP = xP * xP * xP + b1) (Q1 Q2 Q3 : (Jac.Wb b2).Point)
    (h1 : Q1 ≠ 0) (h2 : Q2 ≠ 0) (h3 : Q3 ≠ 0) (hr1 : r • Q1 = 0) (hr2 : r • Q2 = 0)
    (he1 : frobHom Q1 = q • Q1) (he2 : frobHom Q2 = q • Q2) (hadd : Q1 + Q2 = Q3) :
    specM (lineAt xP yP) Q3 ^ E = specM (lineAt xP yP) Q1 ^ E * specM (lineAt xP yP) Q2 ^ E := by
  have hr3 : r • Q3 = 0 := by rw [← hadd, nsmul_add, hr1, hr2, add_zero]
  have he3 : frobHom Q3 = q • Q3 := by rw [← hadd, map_add, he1, he2, nsmul_add]
  have hyP : yP ≠ 0 := by
    intro h0
    rw [h0, mul_zero] at hP
    exact Fq.no_two_torsion xP (by rw [hP]; ring)
  have d1 := miller_ideal h1 hr1 he1
  have d2 := miller_ideal h2 hr2 he2
  have d3 := miller_ideal h3 hr3 he3
  have f1 := fun {A : (Jac.Wb b2).Point} (h : A ≠ 0) => frobHom_ne_zero h
  obtain ⟨c, Va, Vb, hc, hVa, hVb, e⟩ := miller_add_coordinateRing (Jac.Wb b2) Consts.SM9_LOOP_N
    _ _ _ Q1 Q2 Q3 (frobHom Q1) (frobHom Q2) (frobHom Q3)
    (-frobHom (frobHom Q1)) (-frobHom (frobHom Q2)) (-frobHom (frobHom Q3))
    (-frobHom (frobHom (frobHom Q1))) (-frobHom (frobHom (frobHom Q2)))
    (-frobHom (frobHom (frobHom Q3))) d1 d2 d3 hadd
    (by rw [← map_add, hadd]) (by rw [← neg_add, ← map_add, ← map_add, hadd])
    (by rw [← neg_add, ← map_add, ← map_add, ← map_add, hadd])
    h1 h2 h3 (f1 h1) (f1 h2) (f1 h3)
    (neg_ne_zero.mpr (f1 (f1 h1))) (neg_ne_zero.mpr (f1 (f1 h2))) (neg_ne_zero.mpr (f1 (f1 h3)))
    (neg_ne_zero.mpr (f1 (f1 (f1 h1)))) (neg_ne_zero.mpr (f1 (f1 (f1 h2))))
    (neg_ne_zero.mpr (f1 (f1 (f1 h3))))
  have e' := congrArg (fun z => ev xP yP hP z ^ E) e
  simp only [map_mul, map_pow, mul_pow] at e'
  rw [vertProd_pow_final xP yP hP _ curveX_ne_zero Va hVa,
    vertProd_pow_final xP yP hP _ curveX_ne_zero Vb hVb, ev_algebraMap, ofFq2_pow_final c hc,
    mul_one, mul_one, one_mul, pow_right_comm _ Consts.SM9_LOOP_N, specM_ev_reduced,
    specM_ev_reduced, specM_ev_reduced, lineVal_ev_reduced, lineVal_ev_reduced, lineVal_ev_reduced,
    lineVal_ev_reduced] at e'
  simp only [lineAt_frobHom, lineAt_neg_neg] at e'
  have hz : lineVal (Jac.Wb b2) (lineAt xP yP) Q1 Q2 ≠ 0 :=
    lineVal_ne_zero _ _ (fun x y l => lineSpec_ne_zero x y l xP yP hyP) _ _
  generalize lineVal (Jac.Wb b2) (lineAt xP yP) Q1 Q2 = z at e' hz
  have hZr : (z ^ E) ^ r = 1 := pow_final_exponent_pow_r z hz
  have hSM := sigma_pow_final ((z ^ q) ^ q) (pow_ne_zero _ (pow_ne_zero _ hz))
  have hSN := sigma_pow_final (((z ^ q) ^ q) ^ q) (pow_ne_zero _ (pow_ne_zero _ (pow_ne_zero _ hz)))
  have p1 : (z ^ q) ^ E = (z ^ E) ^ q := pow_right_comm _ _ _
  have p2 : ((z ^ q) ^ q) ^ E = (z ^ E) ^ (q * q) := by
    rw [pow_right_comm _ q E, p1, ← pow_mul]
  have p3 : (((z ^ q) ^ q) ^ q) ^ E = (z ^ E) ^ (q * q * q) := by
    rw [pow_right_comm _ q E, p2, ← pow_mul]
  rw [p2] at hSM
  rw [p3] at hSN
  rw [p1] at e'
  exact reduce_combine Consts.SM9_LOOP_N _ _ _ (z ^ E) _ _ e' hSM hSN (pow_rate _ hZr)

/-! ## 6. MAIN -/

/-- **the reduced textbook Miller function of the SM9 R-ate pairing is additive in `Q`** on
    `G2 = ⟨P2⟩` (all three points different from `O`, being `twPt` of points of the twist) -/
theorem specMiller_add_right (xP yP : Fq) (hP : yP * yP = xP * xP * xP + b1)
    (x1 y1 x2 y2 x3 y3 : Fq2) (h1 : y1 * y1 = x1 * x1 * x1 + b2) (h2 : y2 * y2 = x2 * x2 * x2 + b2)
    (h3 : y3 * y3 = x3 * x3 * x3 + b2)
    (k1 k2 : ℕ) (hk1 : twPt (x1, y1) = k1 • twPt genXY) (hk2 : twPt (x2, y2) = k2 • twPt genXY)
    (hadd : twPt (x1, y1) + twPt (x2, y2) = twPt (x3, y3)) :
    specMiller xP yP x3 y3 ^ E = specMiller xP yP x1 y1 ^ E * specMiller xP yP x2 y2 ^ E := by
  obtain ⟨o1, e1, -⟩ := eigen_of_multiple (x1, y1) h1 k1 hk1
  obtain ⟨o2, e2, -⟩ := eigen_of_multiple (x2, y2) h2 k2 hk2
  rw [← frobHom_twPt _ h1] at e1
  rw [← frobHom_twPt _ h2] at e2
  rw [specMiller_eq_specM _ _ _ _ h1, specMiller_eq_specM _ _ _ _ h2, specMiller_eq_specM _ _ _ _ h3]
  exact specM_add xP yP hP _ _ _ (twPt_ne_zero _ h1) (twPt_ne_zero _ h2) (twPt_ne_zero _ h3)
    o1 o2 e1 e2 hadd

/-! ## 7. the entry point `pairing` -/

theorem G2.z_eq_zero_of_toAff (T : G2) (hv : G2.Valid T) (h : G2.toAff T = 0) : T.z = 0 := by
  by_contra hz
  rw [G2.toAff_some T hz (hv.resolve_left hz)] at h
  exact Affine.Point.some_ne_zero _ h

theorem Fq12.one_eq_one : Fq12.one = 1 := rfl

/-- `pairing` returns a value on all valid inputs -/
theorem api_pairing_ok (P : G1) (Q : G2) (hP : G1.Valid P) (hQ : G2.Valid Q) (k : ℕ)
    (hk : G2.toAff Q = k • G2.toAff (G.one : G2)) : ∃ g, Api.pairing P Q = .ok g := by
  by_cases hPz : P.z = 0
  · exact ⟨_, pairing_left_identity P Q hPz⟩
  by_cases hQz : Q.z = 0
  · exact ⟨_, pairing_right_identity P Q hQz⟩
  exact ⟨_, api_pairing_eq_spec_G2 P Q hPz hP hQz hQ k hk⟩

theorem G1.affine_equation (P : G1) (hPz : P.z ≠ 0) (hP : G1.Valid P) :
    P.y / P.z ^ 3 * (P.y / P.z ^ 3) = P.x / P.z ^ 2 * (P.x / P.z ^ 2) * (P.x / P.z ^ 2) + b1 := by
  have h := ((Jac.nonsingular_iff b1 _ _).1 (hP.resolve_left hPz)).1
  calc P.y / P.z ^ 3 * (P.y / P.z ^ 3) = (P.y / P.z ^ 3) ^ 2 := by ring
    _ = (P.x / P.z ^ 2) ^ 3 + b1 := h
    _ = P.x / P.z ^ 2 * (P.x / P.z ^ 2) * (P.x / P.z ^ 2) + b1 := by ring

/-- **`sm9_core::pairing` is additive in its `G2` argument**: all valid inputs (any Jacobian
    representatives, identities, `Q' = −Q`, `Q' = Q` included), `Q, Q' ∈ G2 = ⟨P2⟩`, the sum
    computed by the code's own `G2::add` -/
theorem api_pairing_add_right (P : G1) (Q Q' : G2) (hP : G1.Valid P) (hQ : G2.Valid Q)
    (hQ' : G2.Valid Q') (k k' : ℕ) (hk : G2.toAff Q = k • G2.toAff (G.one : G2))
    (hk' : G2.toAff Q' = k' • G2.toAff (G.one : G2)) :
    ∃ g g' : Fq12, Api.pairing P Q = .ok g ∧ Api.pairing P Q' = .ok g' ∧
      Api.pairing P (Q.add Q') = .ok (g * g') := by
  have hA := G2.add_correct Q Q' hQ hQ'
  have hAv := G2.add_valid Q Q' hQ hQ'
  have hkA : G2.toAff (Q.add Q') = (k + k') • G2.toAff (G.one : G2) := by
    rw [hA, hk, hk', add_smul]
  by_cases hPz : P.z = 0
  · refine ⟨1, 1, pairing_left_identity P Q hPz, pairing_left_identity P Q' hPz, ?_⟩
    rw [mul_one]
    exact pairing_left_identity P _ hPz
  by_cases hQz : Q.z = 0
  · have e : (Q.add Q').to_affine = Q'.to_affine :=
      G2.to_affine_congr _ _ hAv hQ' (by rw [hA, G2.toAff_zero Q hQz, zero_add])
    obtain ⟨g', hg'⟩ := api_pairing_ok P Q' hP hQ' k' hk'
    refine ⟨1, g', pairing_right_identity P Q hQz, hg', ?_⟩
    rw [one_mul, pairing_congr P P _ _ rfl e]
    exact hg'
  by_cases hQz' : Q'.z = 0
  · have e : (Q.add Q').to_affine = Q.to_affine :=
      G2.to_affine_congr _ _ hAv hQ (by rw [hA, G2.toAff_zero Q' hQz', add_zero])
    obtain ⟨g, hg⟩ := api_pairing_ok P Q hP hQ k hk
    refine ⟨g, 1, hg, pairing_right_identity P Q' hQz', ?_⟩
    rw [mul_one, pairing_congr P P _ _ rfl e]
    exact hg
  by_cases hS : G2.toAff Q + G2.toAff Q' = 0
  · have hz : (Q.add Q').z = 0 := G2.z_eq_zero_of_toAff _ hAv (hA.trans hS)
    have e : Q'.to_affine = Q.neg.to_affine :=
      G2.to_affine_congr _ _ hQ' (G2.neg_valid Q hQ)
        (by rw [G2.neg_correct Q hQ]; exact eq_neg_of_add_eq_zero_right hS)
    obtain ⟨g, g', a1, a2, a3⟩ := pairing_neg_right P Q hPz hP hQz hQ k hk
    refine ⟨g, g', a1, ?_, ?_⟩
    · rw [pairing_congr P P _ _ rfl e]
      exact a2
    · rw [mul_comm, a3]
      exact pairing_right_identity P _ hz
  · have hAz : (Q.add Q').z ≠ 0 := z_ne_zero_of_toAff _ (by rw [hA]; exact hS)
    rw [api_pairing_eq_fast_pairing P Q hP hQ k hk, api_pairing_eq_fast_pairing P Q' hP hQ' k' hk',
      api_pairing_eq_fast_pairing P _ hP hAv (k + k') hkA,
      api_fast_pairing_eq_spec_G2 P Q hPz hP hQz hQ k hk,
      api_fast_pairing_eq_spec_G2 P Q' hPz hP hQz' hQ' k' hk',
      api_fast_pairing_eq_spec_G2 P _ hPz hP hAz hAv (k + k') hkA]
    refine ⟨_, _, rfl, rfl, congrArg Outcome.ok ?_⟩
    obtain ⟨e1, p1⟩ := twPt_of_valid Q hQz hQ
    obtain ⟨e2, p2⟩ := twPt_of_valid Q' hQz' hQ'
    obtain ⟨e3, p3⟩ := twPt_of_valid _ hAz hAv
    have hg : twPt genXY = G2.toAff (G.one : G2) := by rw [twPt_eq, affG2_gen]
    exact specMiller_add_right _ _ (G1.affine_equation P hPz hP) _ _ _ _ _ _ e1 e2 e3 k k'
      (by rw [p1, hg]; exact hk) (by rw [p2, hg]; exact hk') (by rw [p1, p2, p3]; exact hA.symm)

end Miller
end Sm9

