import Sm9.Proofs.ChainIndepDefs
/-!
# Independence of the Miller function of the addition chain — proof in the coordinate ring
-/
namespace Sm9
namespace Miller
open WeierstrassCurve Polynomial
open scoped Polynomial.Bivariate
open WeierstrassCurve.Affine (CoordinateRing)
open WeierstrassCurve.Affine.CoordinateRing (XClass YClass XIdeal YIdeal XYIdeal)

variable {F : Type} [Field F] [DecidableEq F]

/-! ## units of the coordinate ring -/

/-- units of the coordinate ring are the non-zero constants -/
theorem coordinateRing_unit_const (W : Affine F) (u : W.CoordinateRing) (hu : IsUnit u) :
    ∃ c : F, c ≠ 0 ∧ u = algebraMap F W.CoordinateRing c := by
  obtain ⟨p, q, rfl⟩ := CoordinateRing.exists_smul_basis_eq u
  have hN : IsUnit (Algebra.norm F[X] (p • (1 : W.CoordinateRing) + q • CoordinateRing.mk W Y)) :=
    hu.map (Algebra.norm F[X])
  have hdeg := Polynomial.degree_eq_zero_of_isUnit hN
  rw [CoordinateRing.degree_norm_smul_basis] at hdeg
  have hq : q = 0 := by
    by_contra hq
    have h3 : 2 • q.degree + 3 ≤ (0 : WithBot ℕ) := hdeg ▸ le_max_right _ _
    rw [Polynomial.degree_eq_natDegree hq] at h3
    have : 2 * q.natDegree + 3 ≤ 0 := by
      rw [nsmul_eq_mul] at h3
      exact_mod_cast h3
    omega
  subst hq
  have hp0 : p ≠ 0 := by
    rintro rfl
    simp at hdeg
  have hp : p.degree = 0 := by
    have h2 : 2 • p.degree ≤ (0 : WithBot ℕ) := hdeg ▸ le_max_left _ _
    rw [Polynomial.degree_eq_natDegree hp0] at h2 ⊢
    have : 2 * p.natDegree ≤ 0 := by
      rw [nsmul_eq_mul] at h2
      exact_mod_cast h2
    have : p.natDegree = 0 := by omega
    rw [this]; rfl
  obtain ⟨c, hc⟩ : ∃ c, p = C c := ⟨_, Polynomial.eq_C_of_degree_eq_zero hp⟩
  refine ⟨c, ?_, ?_⟩
  · rintro rfl
    apply hp0
    rw [hc, C_0]
  · rw [zero_smul, add_zero, hc, IsScalarTower.algebraMap_apply F F[X] W.CoordinateRing,
      Algebra.algebraMap_eq_smul_one]
    rfl

/-! ## the ideal of a point -/

/-- the maximal ideal `⟨X − x, Y − y⟩` of an affine point, the unit ideal for the point at infinity -/
noncomputable def ptIdeal (W : Affine F) : W.Point → Ideal W.CoordinateRing
  | .zero => ⊤
  | .some x y _ => XYIdeal W x (C y)

omit [DecidableEq F] in
theorem ptIdeal_some (W : Affine F) {x y : F} (h : W.Nonsingular x y) :
    ptIdeal W (.some x y h) = XYIdeal W x (C y) := rfl

omit [DecidableEq F] in
theorem exists_some_of_ne_zero (W : Affine F) {A : W.Point} (hA : A ≠ 0) :
    ∃ x y h, A = .some x y h := by
  cases A with
  | zero => exact absurd rfl hA
  | some x y h => exact ⟨x, y, h, rfl⟩

/-- `(v_{A+B}) · I(A) · I(B) = (l_{A,B}) · I(A+B)` -/
theorem ptIdeal_add (W : Affine F) (A B : W.Point) (hA : A ≠ 0) (hB : B ≠ 0) (hAB : A + B ≠ 0) :
    ∃ x y h, A + B = .some x y h ∧
      Ideal.span {XClass W x} * (ptIdeal W A * ptIdeal W B)
        = Ideal.span {lineVal W (lineR W) A B} * ptIdeal W (A + B) := by
  obtain ⟨x₁, y₁, h₁, rfl⟩ := exists_some_of_ne_zero W hA
  obtain ⟨x₂, y₂, h₂, rfl⟩ := exists_some_of_ne_zero W hB
  by_cases hxy : x₁ = x₂ ∧ y₁ = W.negY x₂ y₂
  · exact absurd (Affine.Point.add_of_Y_eq hxy.1 hxy.2) hAB
  · rw [Affine.Point.add_some hxy]
    exact ⟨_, _, _, rfl, CoordinateRing.XYIdeal_mul_XYIdeal h₁.left h₂.left hxy⟩

omit [DecidableEq F] in
/-- `I(−A) · I(A) = (v_A)` -/
theorem ptIdeal_neg_mul (W : Affine F) {x y : F} (h : W.Nonsingular x y) :
    ptIdeal W (-.some x y h) * ptIdeal W (.some x y h) = Ideal.span {XClass W x} :=
  CoordinateRing.XYIdeal_neg_mul h

/-! ## products of verticals -/

omit [DecidableEq F] in
theorem VertProd.mul' {W : Affine F} {S : Set F} {a b : W.CoordinateRing}
    (ha : VertProd W S a) (hb : VertProd W S b) : VertProd W S (a * b) := by
  induction hb with
  | one => rwa [mul_one]
  | mul _ hx ih => rw [← mul_assoc]; exact VertProd.mul ih hx

theorem mem_multX (W : Affine F) (Q : W.Point) (n k : ℕ) (hk : 0 < k) (hkn : k < n) {x y : F}
    {h : W.Nonsingular x y} (e : k • Q = .some x y h) : x ∈ multX W Q n :=
  ⟨y, h, k, hk, hkn, e⟩

/-! ## the loop invariant -/

/-- the invariant of a loop state reached with multiplier `m` -/
def Inv (W : Affine F) (Q : W.Point) (n m : ℕ) (st : W.Point × W.CoordinateRing) : Prop :=
  0 < m ∧ m < n ∧ st.1 = m • Q ∧ ∃ V, VertProd W (multX W Q n) V ∧
    Ideal.span {st.2} * ptIdeal W st.1 = ptIdeal W Q ^ m * Ideal.span {V}

section steps
variable (W : Affine F) (Q : W.Point) (n : ℕ) (hn : ∀ k, 0 < k → k < n → k • Q ≠ 0)
include hn

/-- adding a point `B` to a state whose ideal is known -/
theorem step_add (T B : W.Point) (g V : W.CoordinateRing) (J : Ideal W.CoordinateRing) (k j : ℕ)
    (hk : 0 < k) (hkn : k < n) (hT : T = k • Q) (hB : B ≠ 0) (hj : 0 < j) (hjn : j < n)
    (hTB : T + B = j • Q)
    (hI : Ideal.span {g} * ptIdeal W T = J * Ideal.span {V}) :
    ∃ x ∈ multX W Q n, Ideal.span {g * lineVal W (lineR W) T B} * ptIdeal W (T + B)
      = J * ptIdeal W B * Ideal.span {V * XClass W x} := by
  have hT0 : T ≠ 0 := hT ▸ hn k hk hkn
  have hTB0 : T + B ≠ 0 := hTB ▸ hn j hj hjn
  obtain ⟨x, y, h, e, hxy⟩ := ptIdeal_add W T B hT0 hB hTB0
  refine ⟨x, mem_multX W Q n j hj hjn (hTB ▸ e), ?_⟩
  rw [← Ideal.span_singleton_mul_span_singleton, ← Ideal.span_singleton_mul_span_singleton,
    mul_assoc (Ideal.span {g}), ← hxy]
  calc Ideal.span {g} * (Ideal.span {XClass W x} * (ptIdeal W T * ptIdeal W B))
      = (Ideal.span {g} * ptIdeal W T) * ptIdeal W B * Ideal.span {XClass W x} := by ring
    _ = J * ptIdeal W B * (Ideal.span {V} * Ideal.span {XClass W x}) := by rw [hI]; ring

/-- doubling -/
theorem inv_double (m : ℕ) (st : W.Point × W.CoordinateRing) (h : Inv W Q n m st) (h2 : 2 * m < n) :
    Inv W Q n (2 * m) (st.1 + st.1, st.2 * st.2 * lineVal W (lineR W) st.1 st.1) := by
  obtain ⟨hm, hmn, hT, V, hV, hI⟩ := h
  have hT0 : st.1 ≠ 0 := hT ▸ hn m hm hmn
  have hTT : st.1 + st.1 = (2 * m) • Q := by rw [hT, mul_smul, two_smul]
  obtain ⟨x, hx, hS⟩ := step_add W Q n hn st.1 st.1 st.2 V _ m (2 * m) hm hmn hT hT0 (by omega) h2
    hTT hI
  refine ⟨by omega, h2, hTT, V * (V * XClass W x), hV.mul' (hV.mul' (VertProd.mul VertProd.one hx |>
    (by simpa using ·))), ?_⟩
  calc Ideal.span {st.2 * st.2 * lineVal W (lineR W) st.1 st.1} * ptIdeal W (st.1 + st.1)
      = Ideal.span {st.2} * (Ideal.span {st.2 * lineVal W (lineR W) st.1 st.1}
          * ptIdeal W (st.1 + st.1)) := by
        rw [mul_assoc st.2, ← Ideal.span_singleton_mul_span_singleton, mul_assoc]
    _ = Ideal.span {st.2} * (ptIdeal W Q ^ m * ptIdeal W st.1 * Ideal.span {V * XClass W x}) := by
        rw [hS]
    _ = ptIdeal W Q ^ m * (Ideal.span {st.2} * ptIdeal W st.1) * Ideal.span {V * XClass W x} := by
        ring
    _ = ptIdeal W Q ^ (2 * m) * (Ideal.span {V} * Ideal.span {V * XClass W x}) := by
        rw [hI]; ring
    _ = _ := by rw [Ideal.span_singleton_mul_span_singleton]

/-- adding `Q` -/
theorem inv_addQ (k : ℕ) (st : W.Point × W.CoordinateRing) (h : Inv W Q n k st) (hk1 : k + 1 < n) :
    Inv W Q n (k + 1) (st.1 + Q, st.2 * lineVal W (lineR W) st.1 Q) := by
  obtain ⟨hk, hkn, hT, V, hV, hI⟩ := h
  have hQ0 : Q ≠ 0 := by
    have := hn 1 Nat.one_pos (by omega)
    rwa [one_smul] at this
  have hTQ : st.1 + Q = (k + 1) • Q := by rw [hT, add_smul, one_smul]
  obtain ⟨x, hx, hS⟩ := step_add W Q n hn st.1 Q st.2 V _ k (k + 1) hk hkn hT hQ0 (by omega) hk1
    hTQ hI
  refine ⟨by omega, hk1, hTQ, V * XClass W x, VertProd.mul hV hx, ?_⟩
  simp only
  rw [hS, pow_succ]

/-- subtracting `Q` -/
theorem inv_subQ (k : ℕ) (st : W.Point × W.CoordinateRing) (h : Inv W Q n k st) (hk2 : 2 ≤ k) :
    Inv W Q n (k - 1) (st.1 + -Q, st.2 * lineVal W (lineR W) st.1 (-Q)) := by
  obtain ⟨hk, hkn, hT, V, hV, hI⟩ := h
  have hQ0 : Q ≠ 0 := by
    have := hn 1 Nat.one_pos (by omega)
    rwa [one_smul] at this
  obtain ⟨xQ, yQ, hQ, eQ⟩ := exists_some_of_ne_zero W hQ0
  have hxQ : xQ ∈ multX W Q n := mem_multX W Q n 1 Nat.one_pos (by omega) ((one_smul _ _).trans eQ)
  have hTQ : st.1 + -Q = (k - 1) • Q := by
    have e : k = (k - 1) + 1 := by omega
    have : k • Q = (k - 1) • Q + Q := by
      conv_lhs => rw [e, add_smul, one_smul]
    rw [hT, this, add_neg_cancel_right]
  obtain ⟨x, hx, hS⟩ := step_add W Q n hn st.1 (-Q) st.2 V _ k (k - 1) hk hkn hT
    (neg_ne_zero.mpr hQ0) (by omega) (by omega) hTQ hI
  refine ⟨by omega, by omega, hTQ, V * XClass W x * XClass W xQ, VertProd.mul (VertProd.mul hV hx) hxQ,
    ?_⟩
  have hneg : ptIdeal W (-Q) * ptIdeal W Q = Ideal.span {XClass W xQ} := by
    rw [eQ]; exact ptIdeal_neg_mul W hQ
  have e : k = (k - 1) + 1 := by omega
  calc Ideal.span {st.2 * lineVal W (lineR W) st.1 (-Q)} * ptIdeal W (st.1 + -Q)
      = ptIdeal W Q ^ k * ptIdeal W (-Q) * Ideal.span {V * XClass W x} := hS
    _ = ptIdeal W Q ^ (k - 1) * (ptIdeal W (-Q) * ptIdeal W Q) * Ideal.span {V * XClass W x} := by
        conv_lhs => rw [e, pow_succ]
        ring
    _ = ptIdeal W Q ^ (k - 1) * (Ideal.span {V * XClass W x} * Ideal.span {XClass W xQ}) := by
        rw [hneg]; ring
    _ = _ := by rw [Ideal.span_singleton_mul_span_singleton]

/-- one iteration of the binary loop -/
theorem inv_specStep (N i m : ℕ) (st : W.Point × W.CoordinateRing) (h : Inv W Q n m st)
    (h2 : 2 * m + 1 < n) :
    Inv W Q n (2 * m + (if bit N i then 1 else 0)) (specStep W (lineR W) Q N st i) := by
  have hd := inv_double W Q n hn m st h (by omega)
  unfold specStep
  split
  · exact inv_addQ W Q n hn (2 * m) _ hd h2
  · exact hd

/-- one iteration of the signed-digit loop -/
theorem inv_specStepNaf (d m : ℕ) (st : W.Point × W.CoordinateRing) (h : Inv W Q n m st)
    (h2 : 2 * m + 1 < n) :
    Inv W Q n (nafNext m d) (specStepNaf W (lineR W) Q st d) := by
  have hd := inv_double W Q n hn m st h (by omega)
  have hm : 0 < m := h.1
  unfold specStepNaf nafNext
  split
  · exact inv_addQ W Q n hn (2 * m) _ hd h2
  · split
    · exact inv_subQ W Q n hn (2 * m) _ hd (by omega)
    · exact hd

end steps

/-! ## the loops -/

theorem foldl_flag_false {α : Type} (g : ℕ → α → ℕ) (p : ℕ → Bool) (l : List α) (a : ℕ) :
    (l.foldl (fun (s : ℕ × Bool) i => (g s.1 i, s.2 && p s.1)) (a, false)).2 = false := by
  induction l generalizing a with
  | nil => rfl
  | cons i l ih => simpa [List.foldl_cons] using ih _

theorem foldl_flag_nil_of_not {α : Type} (g : ℕ → α → ℕ) (n : ℕ) (l : List α) (a : ℕ)
    (ha : ¬ 2 * a + 1 < n)
    (hok : (l.foldl (fun (s : ℕ × Bool) i => (g s.1 i, s.2 && decide (2 * s.1 + 1 < n)))
      (a, true)).2 = true) : l = [] := by
  cases l with
  | nil => rfl
  | cons i l =>
    exfalso
    rw [List.foldl_cons] at hok
    simp only [ha, decide_false, Bool.and_false] at hok
    have := foldl_flag_false g (fun m => decide (2 * m + 1 < n)) l (g a i)
    rw [this] at hok
    exact Bool.false_ne_true hok

theorem foldl_inv (W : Affine F) (Q : W.Point) (n : ℕ) {α : Type} (g : ℕ → α → ℕ)
    (step : W.Point × W.CoordinateRing → α → W.Point × W.CoordinateRing)
    (hstep : ∀ m st a, Inv W Q n m st → 2 * m + 1 < n → Inv W Q n (g m a) (step st a))
    (l : List α) (m : ℕ) (st : W.Point × W.CoordinateRing) (h : Inv W Q n m st)
    (hok : (l.foldl (fun (s : ℕ × Bool) i => (g s.1 i, s.2 && decide (2 * s.1 + 1 < n)))
      (m, true)).2 = true) :
    Inv W Q n (l.foldl g m) (l.foldl step st) := by
  induction l generalizing m st with
  | nil => exact h
  | cons a l ih =>
    by_cases h2 : 2 * m + 1 < n
    · rw [List.foldl_cons] at hok
      simp only [h2, decide_true, Bool.and_true] at hok
      exact ih _ _ (hstep m st a h h2) hok
    · exact absurd (foldl_flag_nil_of_not g n _ m h2 hok) (List.cons_ne_nil _ _)

/-- MAIN: two chains that reach the same multiple of `Q` accumulate the same product of lines
    up to a non-zero constant and verticals at multiples of `Q` -/
theorem chain_indep_coordinateRing (W : Affine F) (Q : W.Point) (n : ℕ)
    (hn : ∀ k, 0 < k → k < n → k • Q ≠ 0)
    (N : ℕ) (idx ds : List ℕ) (hbin : binChainOK N idx n = true) (hnaf : nafChainOK ds n = true)
    (heq : chainVal N idx 1 = chainValNaf ds 1) :
    ∃ (c : F) (V1 V2 : W.CoordinateRing), c ≠ 0 ∧
      VertProd W (multX W Q n) V1 ∧ VertProd W (multX W Q n) V2 ∧
      (specLoop W (lineR W) Q N idx).2 * V2
        = algebraMap F W.CoordinateRing c * ((specLoopNaf W (lineR W) Q ds).2 * V1) := by
  unfold binChainOK at hbin
  unfold nafChainOK at hnaf
  by_cases h1 : 1 < n
  · -- the generic case
    have hstart : Inv W Q n 1 (Q, 1) :=
      ⟨Nat.one_pos, h1, (one_smul _ _).symm, 1, VertProd.one, by simp⟩
    have hb : Inv W Q n (chainVal N idx 1) (specLoop W (lineR W) Q N idx) :=
      foldl_inv W Q n (fun m i => 2 * m + (if bit N i then 1 else 0)) (specStep W (lineR W) Q N)
        (fun m st i h h2 => inv_specStep W Q n hn N i m st h h2) idx 1 _ hstart hbin
    have hs : Inv W Q n (chainValNaf ds 1) (specLoopNaf W (lineR W) Q ds) :=
      foldl_inv W Q n nafNext (specStepNaf W (lineR W) Q)
        (fun m st d h h2 => inv_specStepNaf W Q n hn d m st h h2) ds 1 _ hstart hnaf
    rw [← heq] at hs
    generalize chainVal N idx 1 = M at hb hs
    generalize specLoop W (lineR W) Q N idx = s1 at hb ⊢
    generalize specLoopNaf W (lineR W) Q ds = s2 at hs ⊢
    obtain ⟨hM, hMn, hT1, V1, hV1, hI1⟩ := hb
    obtain ⟨-, -, hT2, V2, hV2, hI2⟩ := hs
    rw [hT1] at hI1
    rw [hT2] at hI2
    obtain ⟨x, y, h, e⟩ := exists_some_of_ne_zero W (hn M hM hMn)
    have hneg : ptIdeal W (-(M • Q)) * ptIdeal W (M • Q) = Ideal.span {XClass W x} := by
      rw [e]; exact ptIdeal_neg_mul W h
    have key : Ideal.span {s2.2 * V1 * XClass W x} = Ideal.span {s1.2 * V2 * XClass W x} := by
      calc Ideal.span {s2.2 * V1 * XClass W x}
          = Ideal.span {V1} * (Ideal.span {s2.2} * ptIdeal W (M • Q)) * ptIdeal W (-(M • Q)) := by
            simp only [← Ideal.span_singleton_mul_span_singleton]
            rw [← hneg]
            ring
        _ = Ideal.span {V2} * (Ideal.span {s1.2} * ptIdeal W (M • Q)) * ptIdeal W (-(M • Q)) := by
            rw [hI1, hI2]; ring
        _ = _ := by
            simp only [← Ideal.span_singleton_mul_span_singleton]
            rw [← hneg]
            ring
    obtain ⟨u, hu⟩ := Ideal.span_singleton_eq_span_singleton.mp key
    obtain ⟨c, hc, huc⟩ := coordinateRing_unit_const W u u.isUnit
    refine ⟨c, V1, V2, hc, hV1, hV2, ?_⟩
    have hx0 : XClass W x ≠ 0 := CoordinateRing.XClass_ne_zero x
    apply mul_right_cancel₀ hx0
    rw [← hu, ← huc]
    ring
  · -- both chains are empty
    have e1 := foldl_flag_nil_of_not (fun m i => 2 * m + (if bit N i then 1 else 0)) n idx 1 (by omega) hbin
    have e2 := foldl_flag_nil_of_not nafNext n ds 1 (by omega) hnaf
    subst e1 e2
    exact ⟨1, 1, 1, one_ne_zero, VertProd.one, VertProd.one, by simp [specLoop, specLoopNaf]⟩

end Miller
end Sm9
