import Sm9.Proofs.GroupBasic
import Sm9.Proofs.Consts
import Sm9.Proofs.Conversions
/-!
# Byte codecs: big-endian encoding at fixed length is a bijection, coordinate codecs

The basic byte lemmas (`beVal_append`, `beVal_cons`, `beVal_lt`, `beBytes_length`,
`beVal_beBytes_mod`, `beVal_beBytes`) come from `Sm9.Proofs.Conversions`.  Added here:

* `beVal_concat`, `beBytes_succ`, `beBytes_beVal` (encoding a decoded string at its own length
  gives the string back), `beVal_inj`, `beBytes_inj`
* `List.take`/`List.drop` of an append with known length of the left part
* `Api.fqFromSliceStrict` / `Api.fqToSlice`, `Api.fq2FromSlice` / `Api.fq2ToSlice` are mutually
  inverse (on canonical inputs) and the decoders are characterised exactly.
-/
namespace Sm9

/-! ## `beVal`, `beBytes` -/

theorem beVal_concat (l : List UInt8) (b : UInt8) : beVal (l ++ [b]) = beVal l * 256 + b.toNat := by
  unfold beVal
  rw [List.foldl_append]
  rfl

theorem beBytes_zero (n : Nat) : beBytes 0 n = [] := rfl

theorem beBytes_succ (len n : Nat) :
    beBytes (len + 1) n = beBytes len (n / 256) ++ [UInt8.ofNat (n % 256)] := by
  unfold beBytes
  simp [Limb.digits]

/-- encoding a decoded string at its own length gives the string back -/
theorem beBytes_beVal : ∀ {len : Nat} {bs : List UInt8}, bs.length = len → beBytes len (beVal bs) = bs := by
  intro len bs
  induction bs using List.reverseRecOn generalizing len with
  | nil => intro h; subst h; rfl
  | append_singleton l b ih =>
    intro h
    rw [List.length_append, List.length_singleton] at h
    subst h
    rw [beBytes_succ, beVal_concat]
    have hb : b.toNat < 256 := UInt8.toNat_lt b
    have h1 : (beVal l * 256 + b.toNat) / 256 = beVal l := by omega
    have h2 : (beVal l * 256 + b.toNat) % 256 = b.toNat := by omega
    rw [h1, h2, ih rfl, UInt8.ofNat_toNat]

/-- big-endian decoding is injective at fixed length -/
theorem beVal_inj {a b : List UInt8} (hl : a.length = b.length) (h : beVal a = beVal b) : a = b := by
  rw [← beBytes_beVal (bs := a) rfl, ← beBytes_beVal (bs := b) rfl, hl, h]

theorem beBytes_inj {len m n : Nat} (hm : m < 256 ^ len) (hn : n < 256 ^ len)
    (h : beBytes len m = beBytes len n) : m = n := by
  rw [← beVal_beBytes len m hm, ← beVal_beBytes len n hn, h]

/-! ## take / drop of an append -/

theorem take_append_of_length {α} {a b : List α} {n : Nat} (h : a.length = n) : (a ++ b).take n = a := by
  subst h; exact List.take_left

theorem drop_append_of_length {α} {a b : List α} {n : Nat} (h : a.length = n) : (a ++ b).drop n = b := by
  subst h; exact List.drop_left

/-! ## coordinate codecs -/

theorem q_lt_pow : q < 256 ^ 32 := by decide +kernel

theorem Fq.val_lt (a : Fq) : a.val < q := a.isLt
theorem Fq.val_lt_pow (a : Fq) : a.val < 256 ^ 32 := Nat.lt_trans a.isLt q_lt_pow
theorem Fq.val_inj {a b : Fq} (h : a.val = b.val) : a = b := Fin.ext h

theorem Fq.new_pos (n : Nat) (h : n < q) : Fq.new n = some (⟨n, h⟩ : Fin q) := by
  unfold Fq.new
  exact dif_pos h
theorem Fq.new_neg (n : Nat) (h : ¬ n < q) : Fq.new n = none := by
  unfold Fq.new
  exact dif_neg h

theorem Fq.new_eq_some_iff (n : Nat) (x : Fq) : Fq.new n = some x ↔ n = x.val := by
  constructor
  · intro h
    by_cases hn : n < q
    · rw [Fq.new_pos n hn] at h
      have := Option.some.inj h
      rw [← this]; rfl
    · rw [Fq.new_neg n hn] at h; cases h
  · intro h
    subst h
    exact Fq.new_pos _ x.isLt

theorem Fq.new_val (x : Fq) : Fq.new x.val = some x := (Fq.new_eq_some_iff _ _).2 rfl

theorem Fq.new_eq_none_iff (n : Nat) : Fq.new n = none ↔ q ≤ n := by
  constructor
  · intro h
    by_cases hn : n < q
    · rw [Fq.new_pos n hn] at h; cases h
    · omega
  · intro h
    exact Fq.new_neg n (by omega)

namespace Api

theorem fqToSlice_length (a : Fq) : (fqToSlice a).length = 32 := beBytes_length _ _
theorem beVal_fqToSlice (a : Fq) : beVal (fqToSlice a) = a.val := beVal_beBytes _ _ (Fq.val_lt_pow a)

/-- **exact characterisation of the strict coordinate decoder** -/
theorem fqFromSliceStrict_iff (bs : List UInt8) (x : Fq) :
    fqFromSliceStrict bs = some x ↔ bs.length = 32 ∧ beVal bs = x.val := by
  unfold fqFromSliceStrict
  by_cases hl : bs.length = 32
  · rw [if_pos hl, Fq.new_eq_some_iff]; simp [hl]
  · rw [if_neg hl]; simp [hl]

theorem fqFromSliceStrict_eq_none_iff (bs : List UInt8) :
    fqFromSliceStrict bs = none ↔ bs.length ≠ 32 ∨ q ≤ beVal bs := by
  unfold fqFromSliceStrict
  by_cases hl : bs.length = 32
  · rw [if_pos hl, Fq.new_eq_none_iff]; simp [hl]
  · rw [if_neg hl]; simp [hl]

theorem fqFromSliceStrict_toSlice (a : Fq) : fqFromSliceStrict (fqToSlice a) = some a :=
  (fqFromSliceStrict_iff _ _).2 ⟨fqToSlice_length a, beVal_fqToSlice a⟩

theorem fqToSlice_of_fromSliceStrict {bs : List UInt8} {x : Fq} (h : fqFromSliceStrict bs = some x) :
    fqToSlice x = bs := by
  obtain ⟨hl, hv⟩ := (fqFromSliceStrict_iff _ _).1 h
  unfold fqToSlice
  rw [← hv]
  exact beBytes_beVal hl

theorem fqToSlice_inj {a b : Fq} (h : fqToSlice a = fqToSlice b) : a = b :=
  Fq.val_inj (beBytes_inj (Fq.val_lt_pow a) (Fq.val_lt_pow b) h)

theorem fq2ToSlice_length (a : Fq2) : (fq2ToSlice a).length = 64 := by
  unfold fq2ToSlice
  rw [List.length_append, fqToSlice_length, fqToSlice_length]

theorem fq2ToSlice_take (a : Fq2) : (fq2ToSlice a).take 32 = fqToSlice a.c1 :=
  take_append_of_length (fqToSlice_length _)
theorem fq2ToSlice_drop (a : Fq2) : (fq2ToSlice a).drop 32 = fqToSlice a.c0 :=
  drop_append_of_length (fqToSlice_length _)

/-- **exact characterisation of `Fq2::from_slice`** (imaginary part first) -/
theorem fq2FromSlice_iff (bs : List UInt8) (x : Fq2) :
    fq2FromSlice bs = some x ↔
      bs.length = 64 ∧ beVal (bs.take 32) = x.c1.val ∧ beVal (bs.drop 32) = x.c0.val := by
  unfold fq2FromSlice
  by_cases hl : bs.length = 64
  · rw [if_pos hl]
    have ht : (bs.take 32).length = 32 := by rw [List.length_take]; omega
    have hd : (bs.drop 32).length = 32 := by rw [List.length_drop]; omega
    constructor
    · intro h
      split at h
      · next c1 c0 h1 h0 =>
        rw [Option.some.injEq] at h
        subst h
        exact ⟨hl, ((fqFromSliceStrict_iff _ _).1 h1).2, ((fqFromSliceStrict_iff _ _).1 h0).2⟩
      · cases h
    · rintro ⟨_, h1, h0⟩
      rw [(fqFromSliceStrict_iff _ x.c1).2 ⟨ht, h1⟩, (fqFromSliceStrict_iff _ x.c0).2 ⟨hd, h0⟩]
  · rw [if_neg hl]; simp [hl]

theorem fq2FromSlice_toSlice (a : Fq2) : fq2FromSlice (fq2ToSlice a) = some a := by
  rw [fq2FromSlice_iff]
  refine ⟨fq2ToSlice_length a, ?_, ?_⟩
  · rw [fq2ToSlice_take, beVal_fqToSlice]
  · rw [fq2ToSlice_drop, beVal_fqToSlice]

theorem fq2ToSlice_of_fromSlice {bs : List UInt8} {x : Fq2} (h : fq2FromSlice bs = some x) :
    fq2ToSlice x = bs := by
  obtain ⟨hl, h1, h0⟩ := (fq2FromSlice_iff _ _).1 h
  have ht : (bs.take 32).length = 32 := by rw [List.length_take]; omega
  have hd : (bs.drop 32).length = 32 := by rw [List.length_drop]; omega
  unfold fq2ToSlice fqToSlice
  rw [← h1, ← h0, beBytes_beVal ht, beBytes_beVal hd, List.take_append_drop]

theorem fq2ToSlice_inj {a b : Fq2} (h : fq2ToSlice a = fq2ToSlice b) : a = b := by
  have := fq2FromSlice_toSlice a
  rw [h, fq2FromSlice_toSlice, Option.some.injEq] at this
  exact this.symm

end Api

end Sm9
