import Sm9.Proofs.FieldProgram2
import Sm9.Proofs.Sqrt
/-!
# Field programs (C07), Fq2 registers: `Fq2::sqrt` at limb level

`Fq2Prog.sqrtL` is `Fq2::sqrt` of fq2.rs written on pairs of stored Montgomery representatives:
`Fq2.sqrt` of `Sm9/Model/Tower.lean` line by line, every Fq operation replaced by the limb-model
function (`Fp.is_zero`, `FqL.sqrt`, `Fp.neg/div2/squared/double/add/sub/mul paramsQ`, `Fp.inverse paramsQ`),
the final check `sqrt_cand.squared == x` done with the limb-level complex squaring and equality of raw limbs.

Main theorems: `sqrtL_refines`, `opsSim_s`, `frun_refines_s`, `frun_refines_left_s`, `frun_fails_iff_s`,
`frun_canonical_s`.
-/
set_option maxRecDepth 100000

namespace Sm9

namespace Fq2Prog

open FqProg (CanonRel)

/-! ## Fq operations along `CanonRel` -/

theorem cr_add {a b : Nat} {x y : Fq} (ha : CanonRel a x) (hb : CanonRel b y) :
    CanonRel (Fp.add paramsQ a b) (x + y) := FqProg.opsSim.add ha hb

theorem cr_sub {a b : Nat} {x y : Fq} (ha : CanonRel a x) (hb : CanonRel b y) :
    CanonRel (Fp.sub paramsQ a b) (x - y) := FqProg.opsSim.sub ha hb

theorem cr_mul {a b : Nat} {x y : Fq} (ha : CanonRel a x) (hb : CanonRel b y) :
    CanonRel (Fp.mul paramsQ a b) (x * y) := FqProg.opsSim.mul ha hb

theorem cr_neg {a : Nat} {x : Fq} (ha : CanonRel a x) : CanonRel (Fp.neg paramsQ a) (-x) :=
  FqProg.opsSim.neg ha

theorem cr_double {a : Nat} {x : Fq} (ha : CanonRel a x) : CanonRel (Fp.double paramsQ a) x.double := by
  obtain ⟨h1, h2⟩ := Fq.double_refines a ha.1
  exact ⟨h1, by rw [h2, ha.2]; rfl⟩

theorem cr_squared {a : Nat} {x : Fq} (ha : CanonRel a x) : CanonRel (Fp.squared paramsQ a) x.squared := by
  obtain ⟨h1, h2⟩ := Fq.squared_refines a ha.1
  exact ⟨h1, by rw [h2, ha.2]; rfl⟩

theorem cr_is_zero {a : Nat} {x : Fq} (ha : CanonRel a x) : Fp.is_zero a = x.is_zero :=
  FqProg.observe_is_zero ha

/-- `U256::div2` under the modulus on the stored representative is `Fq.div2` of the value -/
theorem cr_div2 {a : Nat} {x : Fq} (ha : CanonRel a x) : CanonRel (Fp.div2 paramsQ a) x.div2 := by
  obtain ⟨h1, h2⟩ := U256.div2_refines a paramsQ.modulus paramsQ_ok.lt paramsQ_ok.gt paramsQ_ok.odd ha.1
  have hd : Fp.div2 paramsQ a < paramsQ.modulus := h1
  refine ⟨hd, ?_⟩
  obtain ⟨_, h4⟩ := U256.mul2_refines (Fp.div2 paramsQ a) paramsQ.modulus paramsQ_ok.lt paramsQ_ok.gt hd
  have h5 : Fp.double paramsQ (Fp.div2 paramsQ a) = a := h4.trans h2
  obtain ⟨_, h6⟩ := Fq.double_refines (Fp.div2 paramsQ a) hd
  rw [h5, ha.2] at h6
  exact (Fq.div2_eq_of_add_self x _ h6.symm).symm

theorem cr_sqrt {a : Nat} {x : Fq} (ha : CanonRel a x) : OptRel CanonRel (FqL.sqrt a) x.sqrt := by
  obtain ⟨h1, h2⟩ := Fq.sqrt_refines a ha.1
  rw [ha.2] at h1
  generalize FqL.sqrt a = o at h1 h2
  rw [← h1]
  cases o with
  | none => trivial
  | some y => exact ⟨h2 y rfl, rfl⟩

/-- `Fq::inverse` on a canonical limb terminates within the model's fuel -/
theorem cr_inverse {a : Nat} {x : Fq} (ha : CanonRel a x) :
    ∃ o, Fp.inverse paramsQ a = some o ∧ OptRel CanonRel o x.inverse := by
  obtain ⟨o, ho, h1, h2⟩ := Fq.inverse_refines a ha.1
  rw [ha.2] at h1
  refine ⟨o, ho, ?_⟩
  rw [← h1]
  cases o with
  | none => trivial
  | some y => exact ⟨h2 y rfl, rfl⟩

/-! ## the value-level `Fq2.sqrt` in stages -/

/-- imaginary part zero: √a, or √(−a/2)·u -/
def realV (a : Fq) : Option Fq2 :=
  match a.sqrt with
  | some z0 => some (Fq2.new z0 0)
  | none => ((-a).div2.sqrt).map (fun z1 => Fq2.new 0 z1)

def yoV (a w : Fq) : Option Fq :=
  match (a + w).div2.sqrt with
  | some t => some t
  | none => ((a - w).div2).sqrt

def z1oV (b w y : Fq) : Option Fq :=
  if y.is_zero then w.div2.sqrt else y.double.inverse.map (fun t => b * t)

def checkV (x : Fq2) (y z1 : Fq) : Option Fq2 :=
  if (Fq2.new y z1).squared = x then some (Fq2.new y z1) else none

def complexV (x : Fq2) : Option Fq2 :=
  (x.c0.squared + x.c1.squared.double).sqrt.bind fun w =>
    (yoV x.c0 w).bind fun y => (z1oV x.c1 w y).bind fun z1 => checkV x y z1

/-- `Fq2.sqrt` of Tower.lean is the composition of the stages (definitionally) -/
theorem sqrtV_eq (x : Fq2) : x.sqrt =
    if x.is_zero then some Fq2.zero else if x.c1.is_zero then realV x.c0 else complexV x := rfl

/-! ## the limb-level `Fq2::sqrt` -/

def realL (a : Nat) : Option (Nat × Nat) :=
  match FqL.sqrt a with
  | some z0 => some (z0, Fp.zero)
  | none => (FqL.sqrt (Fp.div2 paramsQ (Fp.neg paramsQ a))).map (fun z1 => (Fp.zero, z1))

def yoL (a w : Nat) : Option Nat :=
  match FqL.sqrt (Fp.div2 paramsQ (Fp.add paramsQ a w)) with
  | some t => some t
  | none => FqL.sqrt (Fp.div2 paramsQ (Fp.sub paramsQ a w))

/-- outer `none`: `Fq::inverse` ran out of fuel -/
def z1oL (b w y : Nat) : Option (Option Nat) :=
  if Fp.is_zero y then some (FqL.sqrt (Fp.div2 paramsQ w))
  else (Fp.inverse paramsQ (Fp.double paramsQ y)).map (fun o => o.map (fun t => Fp.mul paramsQ b t))

/-- `Fq2::squared` (complex squaring) on limbs -/
def squaredL (a : Nat × Nat) : Nat × Nat :=
  (Fp.add paramsQ (Fp.mul paramsQ (Fp.add paramsQ a.1 a.2) (Fp.sub paramsQ a.1 (Fp.double paramsQ a.2)))
      (Fp.mul paramsQ a.1 a.2),
   Fp.double paramsQ (Fp.mul paramsQ a.1 a.2))

/-- `if sqrt_cand.squared() == *self { Some(sqrt_cand) } else { None }`: derived `==` on raw limbs -/
def checkL (x : Nat × Nat) (y z1 : Nat) : Option (Nat × Nat) :=
  if squaredL (y, z1) = x then some (y, z1) else none

def stage3L (x : Nat × Nat) (y : Nat) : Option (Option Nat) → Option (Option (Nat × Nat))
  | none => none
  | some none => some none
  | some (some z1) => some (checkL x y z1)

def stage2L (x : Nat × Nat) (w : Nat) : Option Nat → Option (Option (Nat × Nat))
  | none => some none
  | some y => stage3L x y (z1oL x.2 w y)

def stage1L (x : Nat × Nat) : Option Nat → Option (Option (Nat × Nat))
  | none => some none
  | some w => stage2L x w (yoL x.1 w)

def complexL (x : Nat × Nat) : Option (Option (Nat × Nat)) :=
  stage1L x (FqL.sqrt (Fp.add paramsQ (Fp.squared paramsQ x.1) (Fp.double paramsQ (Fp.squared paramsQ x.2))))

/-- `Fq2::sqrt` on pairs of stored Montgomery representatives.  Outer `none`: a callee (`Fq::inverse`)
    ran out of fuel; inner option: the `Option<Fq2>` the function returns. -/
def sqrtL (x : Nat × Nat) : Option (Option (Nat × Nat)) :=
  if isZeroObs2 x then some (some (Fp.zero, Fp.zero))
  else if Fp.is_zero x.2 then some (realL x.1)
  else complexL x

/-! ## refinement, stage by stage -/

/-- the limb-level computation terminates, and its `Option` result is related to the value-level one -/
def Res2 (r : Option (Option (Nat × Nat))) (v : Option Fq2) : Prop :=
  ∃ res, r = some res ∧ OptRel CanonRel2 res v

theorem realL_rel {a : Nat} {x : Fq} (ha : CanonRel a x) : OptRel CanonRel2 (realL a) (realV x) := by
  unfold realL realV
  have h1 := cr_sqrt ha
  have h2 := cr_sqrt (cr_div2 (cr_neg ha))
  generalize FqL.sqrt a = o1 at h1
  generalize x.sqrt = v1 at h1
  generalize FqL.sqrt (Fp.div2 paramsQ (Fp.neg paramsQ a)) = o2 at h2
  generalize (-x).div2.sqrt = v2 at h2
  cases o1 <;> cases v1 <;> try exact h1.elim
  · cases o2 <;> cases v2 <;> try exact h2.elim
    · trivial
    · exact ⟨FqProg.canonRel_zero, h2⟩
  · exact ⟨h1, FqProg.canonRel_zero⟩

theorem yoL_rel {a w : Nat} {x w' : Fq} (ha : CanonRel a x) (hw : CanonRel w w') :
    OptRel CanonRel (yoL a w) (yoV x w') := by
  unfold yoL yoV
  have h1 := cr_sqrt (cr_div2 (cr_add ha hw))
  have h2 := cr_sqrt (cr_div2 (cr_sub ha hw))
  generalize FqL.sqrt (Fp.div2 paramsQ (Fp.add paramsQ a w)) = o1 at h1
  generalize (x + w').div2.sqrt = v1 at h1
  generalize FqL.sqrt (Fp.div2 paramsQ (Fp.sub paramsQ a w)) = o2 at h2
  generalize (x - w').div2.sqrt = v2 at h2
  cases o1 <;> cases v1 <;> try exact h1.elim
  · exact h2
  · exact h1

theorem z1oL_rel {b w y : Nat} {b' w' y' : Fq} (hb : CanonRel b b') (hw : CanonRel w w') (hy : CanonRel y y') :
    ∃ o, z1oL b w y = some o ∧ OptRel CanonRel o (z1oV b' w' y') := by
  unfold z1oL z1oV
  have hz := cr_is_zero hy
  generalize Fp.is_zero y = bz at hz
  subst hz
  cases y'.is_zero with
  | true => exact ⟨_, rfl, cr_sqrt (cr_div2 hw)⟩
  | false =>
    obtain ⟨o, ho, hr⟩ := cr_inverse (cr_double hy)
    generalize Fp.inverse paramsQ (Fp.double paramsQ y) = oo at ho
    subst ho
    refine ⟨_, rfl, ?_⟩
    generalize y'.double.inverse = v at hr
    cases o <;> cases v <;> try exact hr.elim
    · trivial
    · exact cr_mul hb hr

theorem squaredL_rel {a : Nat × Nat} {a' : Fq2} (h : CanonRel2 a a') : CanonRel2 (squaredL a) a'.squared :=
  ⟨cr_add (cr_mul (cr_add h.1 h.2) (cr_sub h.1 (cr_double h.2))) (cr_mul h.1 h.2),
   cr_double (cr_mul h.1 h.2)⟩

theorem checkL_rel {x : Nat × Nat} {a : Fq2} {y z : Nat} {y' z' : Fq} (hx : CanonRel2 x a)
    (hy : CanonRel y y') (hz : CanonRel z z') : OptRel CanonRel2 (checkL x y z) (checkV a y' z') := by
  unfold checkL checkV
  have hc : CanonRel2 (y, z) (Fq2.new y' z') := ⟨hy, hz⟩
  have hs := observe_eq (squaredL_rel hc) hx
  generalize squaredL (y, z) = s at hs
  by_cases h : (Fq2.new y' z').squared = a
  · rw [if_pos h, if_pos (hs.mpr h)]; exact hc
  · rw [if_neg h, if_neg (fun e => h (hs.mp e))]; trivial

theorem stage3L_rel {x : Nat × Nat} {a : Fq2} {y : Nat} {y' : Fq} (hx : CanonRel2 x a) (hy : CanonRel y y')
    {oz : Option (Option Nat)} {vz : Option Fq} (hz : ∃ o, oz = some o ∧ OptRel CanonRel o vz) :
    Res2 (stage3L x y oz) (vz.bind fun z1 => checkV a y' z1) := by
  obtain ⟨o, rfl, hr⟩ := hz
  cases o <;> cases vz <;> try exact hr.elim
  · exact ⟨none, rfl, trivial⟩
  · exact ⟨_, rfl, checkL_rel hx hy hr⟩

theorem stage2L_rel {x : Nat × Nat} {a : Fq2} {w : Nat} {w' : Fq} (hx : CanonRel2 x a) (hw : CanonRel w w')
    {oy : Option Nat} {vy : Option Fq} (hy : OptRel CanonRel oy vy) :
    Res2 (stage2L x w oy) (vy.bind fun y => (z1oV a.c1 w' y).bind fun z1 => checkV a y z1) := by
  cases oy <;> cases vy <;> try exact hy.elim
  · exact ⟨none, rfl, trivial⟩
  · exact stage3L_rel hx hy (z1oL_rel hx.2 hw hy)

theorem stage1L_rel {x : Nat × Nat} {a : Fq2} (hx : CanonRel2 x a)
    {ow : Option Nat} {vw : Option Fq} (hw : OptRel CanonRel ow vw) :
    Res2 (stage1L x ow) (vw.bind fun w => (yoV a.c0 w).bind fun y =>
      (z1oV a.c1 w y).bind fun z1 => checkV a y z1) := by
  cases ow <;> cases vw <;> try exact hw.elim
  · exact ⟨none, rfl, trivial⟩
  · exact stage2L_rel hx hw (yoL_rel hx.1 hw)

/-- NB the statement keeps the argument of `FqL.sqrt` a variable: `OptRel` applied to a composite limb
    term makes the elaborator evaluate limb arithmetic -/
theorem stage1L_sqrt_rel {x : Nat × Nat} {a : Fq2} (hx : CanonRel2 x a) {u : Nat} {u' : Fq} (hu : CanonRel u u') :
    Res2 (stage1L x (FqL.sqrt u)) (u'.sqrt.bind fun w => (yoV a.c0 w).bind fun y =>
      (z1oV a.c1 w y).bind fun z1 => checkV a y z1) :=
  stage1L_rel hx (cr_sqrt hu)

theorem complexL_rel {x : Nat × Nat} {a : Fq2} (hx : CanonRel2 x a) : Res2 (complexL x) (complexV a) := by
  unfold complexL complexV
  exact stage1L_sqrt_rel hx (cr_add (cr_squared hx.1) (cr_double (cr_squared hx.2)))

/-- **`Fq2::sqrt` on limbs refines the value-level `Fq2.sqrt`**: on a canonical pair it never runs out
    of fuel, returns `None` exactly when the value-level function does, and otherwise a canonical pair
    denoting the value-level root -/
theorem sqrtL_refines {x : Nat × Nat} {a : Fq2} (hx : CanonRel2 x a) :
    ∃ res, sqrtL x = some res ∧ OptRel CanonRel2 res a.sqrt := by
  rw [sqrtV_eq]
  unfold sqrtL
  have h0 := observe_is_zero hx
  have h1 := cr_is_zero hx.2
  generalize isZeroObs2 x = b0 at h0
  generalize Fp.is_zero x.2 = b1 at h1
  subst h0 h1
  have ht : (true = true) := rfl
  have hf : ¬ (false = true) := Bool.false_ne_true
  cases a.is_zero with
  | true =>
    rw [if_pos ht, if_pos ht]
    exact ⟨_, rfl, canonRel2_zero⟩
  | false =>
    rw [if_neg hf, if_neg hf]
    cases a.c1.is_zero with
    | true =>
      rw [if_pos ht, if_pos ht]
      exact ⟨_, rfl, realL_rel hx.1⟩
    | false =>
      rw [if_neg hf, if_neg hf]
      exact complexL_rel hx

/-- the limb-level `Fq2::sqrt` is total on canonical pairs -/
theorem sqrtL_total {x : Nat × Nat} {a : Fq2} (hx : CanonRel2 x a) : ∃ res, sqrtL x = some res :=
  let ⟨res, e, _⟩ := sqrtL_refines hx; ⟨res, e⟩

/-- it returns `None` exactly when the value-level function does -/
theorem sqrtL_none_iff {x : Nat × Nat} {a : Fq2} (hx : CanonRel2 x a) : sqrtL x = some none ↔ a.sqrt = none := by
  obtain ⟨res, e, hr⟩ := sqrtL_refines hx
  rw [e, Option.some.injEq]
  exact hr.none_iff

/-- a returned root is a canonical pair denoting the value-level root -/
theorem sqrtL_some {x y : Nat × Nat} {a : Fq2} (hx : CanonRel2 x a) (h : sqrtL x = some (some y)) :
    ∃ b, a.sqrt = some b ∧ CanonRel2 y b := by
  obtain ⟨res, e, hr⟩ := sqrtL_refines hx
  rw [e, Option.some.injEq] at h
  exact hr.of_some_left h

/-! ## the Fq2 machine with `sqrt` -/

/-- LIMB level: `opsL` plus `sqrt`; an API result `None` leaves zero (as for the Fq machine) -/
def opsLs : FOps (Nat × Nat) :=
  { opsL with sqrt := fun x => (sqrtL x).map (fun r => r.getD (Fp.zero, Fp.zero)) }

/-- VALUE level: `opsV` plus `sqrt` -/
def opsVs : FOps Fq2 :=
  { opsV with sqrt := fun a => some (a.sqrt.getD Fq2.zero) }

def frunLs : List FInstr → Option (List (Nat × Nat)) := frun opsLs
def frunVs : List FInstr → Option (List Fq2) := frun opsVs

theorem sqrt_rel {x : Nat × Nat} {a : Fq2} (hx : CanonRel2 x a) :
    OptRel CanonRel2 ((sqrtL x).map (fun r => r.getD (Fp.zero, Fp.zero))) (some (a.sqrt.getD Fq2.zero)) := by
  obtain ⟨res, e, hr⟩ := sqrtL_refines hx
  rw [e]
  generalize a.sqrt = v at hr
  cases res <;> cases v <;> try exact hr.elim
  · exact canonRel2_zero
  · exact hr

/-- every operation of the limb-level Fq2 machine with `sqrt` simulates the value-level operation -/
theorem opsSim_s : OpsSim CanonRel2 opsLs opsVs where
  const := fun _ => trivial
  slice := fun bs => slice_rel bs
  str := fun _ => trivial
  hash := fun _ => trivial
  random := fun _ => trivial
  add := fun ha hb => add_rel ha hb
  sub := fun ha hb => sub_rel ha hb
  mul := fun ha hb => mul_rel ha hb
  pow := fun _ _ => trivial
  neg := fun ha => neg_rel ha
  inv := fun _ => trivial
  sqrt := fun ha => sqrt_rel ha
  setbit := fun _ _ _ => trivial

/-- **every program over the Fq2 operations including `sqrt`**: if the value-level machine runs, the
    limb-level machine runs too (no `sum_of_products`, `inverse` runs out of fuel), and limb register k
    is, in both coordinates, the canonical Montgomery representative of value register k -/
theorem frun_refines_s (prog : List FInstr) (ds : List Fq2) (h : frunVs prog = some ds) :
    ∃ regs, frunLs prog = some regs ∧ List.Forall₂ CanonRel2 regs ds :=
  (frun_sim opsSim_s prog).of_some h

/-- conversely every limb-level run is a value-level run -/
theorem frun_refines_left_s (prog : List FInstr) (regs : List (Nat × Nat)) (h : frunLs prog = some regs) :
    ∃ ds, frunVs prog = some ds ∧ List.Forall₂ CanonRel2 regs ds :=
  (frun_sim opsSim_s prog).of_some_left h

/-- the two machines fail on exactly the same programs -/
theorem frun_fails_iff_s (prog : List FInstr) : frunLs prog = none ↔ frunVs prog = none :=
  (frun_sim opsSim_s prog).none_iff

/-- **canonicity after any sequence of operations**: both coordinates of every register are `< q` -/
theorem frun_canonical_s (prog : List FInstr) (regs : List (Nat × Nat)) (h : frunLs prog = some regs) :
    ∀ x ∈ regs, x.1 < paramsQ.modulus ∧ x.2 < paramsQ.modulus := by
  obtain ⟨ds, _, hr⟩ := frun_refines_left_s prog regs h
  exact forall₂_canon hr

/-! ## non-vacuity -/

/-- √4 (imaginary part zero, a square in Fq) -/
def demoSqrtReal : List FInstr := [.slice (bytes2 0 4), .sqrt 0]
/-- √((3 + 5u)²): the general branch (norm, two Fq square roots, an inverse, the final check) -/
def demoSqrt : List FInstr := [.slice (bytes2 5 3), .mul 0 0, .sqrt 1]
/-- √u: not a square, the API returns `None`, the register is zero -/
def demoSqrtNone : List FInstr := [.slice (bytes2 1 0), .sqrt 0]

example : frunVs demoSqrtReal = some [Fq2.new (Fq.ofNat 4) 0, Fq2.new (Fq.ofNat 2) 0] := by decide +kernel

theorem demoSqrt_runs : frunVs demoSqrt = some [Fq2.new (Fq.ofNat 3) (Fq.ofNat 5),
    Fq2.new (Fq.ofNat (q - 41)) (Fq.ofNat 30), Fq2.new (Fq.ofNat 3) (Fq.ofNat 5)] := by decide +kernel

example : frunVs demoSqrtNone = some [Fq2.new 0 1, Fq2.zero] ∧ (Fq2.new 0 1).sqrt = none := by decide +kernel

/-- the limb machine runs too (kernel evaluation of the limb model), and its registers taken out of
    Montgomery form are the same values -/
example : (frunLs demoSqrt).map (List.map fun x => (Fp.into_u256 paramsQ x.1, Fp.into_u256 paramsQ x.2))
    = some [(3, 5), (q - 41, 30), (3, 5)] := by decide +kernel

/-- the refinement theorem applied to the example: the limb-level run exists and is canonical -/
example : ∃ regs, frunLs demoSqrt = some regs ∧ regs.length = 3 ∧
    ∀ x ∈ regs, x.1 < paramsQ.modulus ∧ x.2 < paramsQ.modulus := by
  obtain ⟨regs, h, hr⟩ := frun_refines_s demoSqrt _ demoSqrt_runs
  exact ⟨regs, h, by simpa using hr.length_eq, frun_canonical_s demoSqrt regs h⟩

end Fq2Prog

end Sm9
