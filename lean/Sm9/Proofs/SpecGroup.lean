import Sm9.Proofs.SpecCurve
import Sm9.Proofs.JacobianInst2
import Sm9.Proofs.MillerPrepared
/-!
# The oracle's affine point arithmetic (`Spec.ptNeg`, `ptAdd`, `ptMul`) on both curves is
Mathlib's group law on `Jac.Wb b1` (over `Fq`) and `Jac.Wb b2` (over `Fq2`)
-/
namespace Sm9
namespace SpecGroup
open SpecField SpecCurve WeierstrassCurve

set_option maxRecDepth 100000

/-! ## the double-and-add loop, generically -/

theorem ptMul_eq_iter {α : Type} (K : Spec.FieldOps α) (k : ℕ) (P : Spec.Pt α) :
    Spec.ptMul K k P = ((powStep (Spec.ptAdd K))^[k.log2 + 1] (none, P, k)).1 := by
  unfold Spec.ptMul
  simp only [Std.Legacy.Range.forIn_eq_forIn_range']
  have hf : (fun (_ : ℕ) (s : Spec.Pt α × Spec.Pt α × ℕ) =>
      if (s.2.2 % 2 == 1) = true then
        (pure (ForInStep.yield (Spec.ptAdd K s.1 s.2.1, Spec.ptAdd K s.2.1 s.2.1, s.2.2 / 2)) : Id _)
      else pure (ForInStep.yield (s.1, Spec.ptAdd K s.2.1 s.2.1, s.2.2 / 2)))
      = fun _ s => pure (ForInStep.yield (powStep (Spec.ptAdd K) s)) := by
    funext _ s
    unfold powStep
    by_cases h : s.2.2 % 2 = 1 <;> simp [h]
  rw [hf, forIn_ignore]
  simp only [Std.Legacy.Range.size, range'_len]
  rfl

/-- fuel invariant of right-to-left double-and-add: `acc = enc (c • a)`, `base = enc (m • a)` -/
theorem addStep_iter {α M : Type} [AddMonoid M] (add : α → α → α) (enc : M → α)
    (hadd : ∀ x y, add (enc x) (enc y) = enc (x + y)) (a : M) (n : ℕ) :
    ∀ c m k : ℕ, ((powStep add)^[n] (enc (c • a), enc (m • a), k)).1
      = enc ((c + m * (k % 2 ^ n)) • a) := by
  induction n with
  | zero => intro c m k; simp [Nat.mod_one]
  | succ n ih =>
    intro c m k
    rw [Function.iterate_succ_apply]
    have hstep : powStep add (enc (c • a), enc (m • a), k)
        = (enc ((c + m * (k % 2)) • a), enc ((m + m) • a), k / 2) := by
      unfold powStep
      dsimp only
      have hb : add (enc (m • a)) (enc (m • a)) = enc ((m + m) • a) := by rw [hadd, ← add_nsmul]
      rw [hb]
      rcases Nat.mod_two_eq_zero_or_one k with h | h
      · rw [h, if_neg (by omega), Nat.mul_zero, Nat.add_zero]
      · rw [h, if_pos rfl, hadd, ← add_nsmul, Nat.mul_one]
    rw [hstep, ih]
    congr 2
    rw [pow_succ', Nat.mod_mul]
    ring

/-- **generic double-and-add**: for any additive monoid `M` encoded in `Pt α` compatibly with `ptAdd K` -/
theorem ptMul_generic {α M : Type} [AddMonoid M] (K : Spec.FieldOps α) (enc : M → Spec.Pt α)
    (h0 : enc 0 = none) (hadd : ∀ x y, Spec.ptAdd K (enc x) (enc y) = enc (x + y)) (k : ℕ) (a : M) :
    Spec.ptMul K k (enc a) = enc (k • a) := by
  rw [ptMul_eq_iter]
  have h := addStep_iter (Spec.ptAdd K) enc hadd a (k.log2 + 1) 0 1 k
  rw [zero_nsmul, one_nsmul, h0] at h
  rw [h, Nat.mod_eq_of_lt Nat.lt_log2_self, Nat.zero_add, Nat.one_mul]

/-- Mathlib's group of points of `y² = x³ + b`; stated in a generic context so that over `Fq` the ring
    structure is the one derived from `Field Fq`, as in `G1.Valid`/`G1.toAff` (cf. `Jac.Pt`) -/
abbrev EPt {F : Type} [Field F] (b : F) : Type := (Jac.Wb b).Point
abbrev ENS {F : Type} [Field F] (b x y : F) : Prop := (Jac.Wb b).Nonsingular x y

/-! ## `y² = x³ + b` over any field: Mathlib's formulas in closed form -/
section generic
variable {F : Type} [Field F] (b : F)

theorem gnegY_eq (x y : F) : (Jac.Wb b).negY x y = -y := by
  simp only [Affine.negY, Jac.Wb, zero_mul, sub_zero]

theorem gnegY_of {x2 y1 y2 : F} (h : y1 = -y2) : y1 = (Jac.Wb b).negY x2 y2 := by rwa [gnegY_eq]
theorem gnot_cond {x1 x2 y1 y2 : F} (h : ¬(x1 = x2 ∧ y1 = -y2)) :
    ¬(x1 = x2 ∧ y1 = (Jac.Wb b).negY x2 y2) := by rwa [gnegY_eq]

theorem gslope_eq [DecidableEq F] (x1 x2 y1 y2 : F) :
    (Jac.Wb b).slope x1 x2 y1 y2 =
      if x1 = x2 then (if y1 = -y2 then 0 else 3 * (x1 * x1) * (y1 + y1)⁻¹)
      else (y2 - y1) * (x2 - x1)⁻¹ := by
  by_cases hx : x1 = x2
  · rw [if_pos hx]
    by_cases hy : y1 = -y2
    · rw [if_pos hy, Affine.slope_of_Y_eq hx (by rw [gnegY_eq]; exact hy)]
    · rw [if_neg hy, Affine.slope_of_Y_ne hx (by rw [gnegY_eq]; exact hy), gnegY_eq]
      simp only [Jac.Wb, mul_zero, zero_mul, add_zero, sub_zero, sub_neg_eq_add, div_eq_mul_inv]
      ring
  · rw [if_neg hx, Affine.slope_of_X_ne hx, ← neg_sub y2 y1, ← neg_sub x2 x1, neg_div_neg_eq,
      div_eq_mul_inv]

theorem gaddX_eq (x1 x2 l : F) : (Jac.Wb b).addX x1 x2 l = l * l - (x1 + x2) := by
  simp only [Affine.addX, Jac.Wb]; ring
theorem gaddY_eq (x1 x2 y1 l : F) :
    (Jac.Wb b).addY x1 x2 y1 l = l * (x1 - (l * l - (x1 + x2))) - y1 := by
  simp only [Affine.addY, Affine.negAddY, Affine.negY, Affine.addX, Jac.Wb]; ring

theorem gneg_some {x y : F} (h : (Jac.Wb b).Nonsingular x y) :
    -(Affine.Point.some x y h : (Jac.Wb b).Point)
      = .some x (-y) (by have := (Affine.nonsingular_neg (W' := Jac.Wb b) x y).2 h; rwa [gnegY_eq] at this) := by
  rw [Affine.Point.neg_some]
  congr 1
  exact gnegY_eq b x y

end generic

/-! ## the operations of `Spec.opsQ` on canonical representatives of `Fq` -/

theorem val_add (a b : Fq) : (a.val + b.val) % Spec.q = (a + b).val :=
  eq_val_of_cast (mod_lt _) (by rw [cast_mod, Nat.cast_add, cast_val, cast_val])
theorem val_sub (a b : Fq) : Spec.subm Spec.q a.val b.val = (a - b).val :=
  eq_val_of_cast (subm_lt _ _) (by rw [cast_subm, cast_val, cast_val])
theorem val_mul (a b : Fq) : a.val * b.val % Spec.q = (a * b).val :=
  eq_val_of_cast (mod_lt _) (by rw [cast_mod, Nat.cast_mul, cast_val, cast_val])
theorem val_neg (a : Fq) : Spec.negm Spec.q a.val = (-a).val :=
  eq_val_of_cast (negm_lt _) (by rw [cast_negm, cast_val])
theorem val_inv (a : Fq) : Spec.invm Spec.q a.val = (a⁻¹).val :=
  eq_val_of_cast (invm_lt _) (by rw [cast_invm, cast_val])
theorem val_ofNat (n : ℕ) : n % Spec.q = ((n : ℕ) : Fq).val := (val_cast n).symm
theorem val_three : 3 % Spec.q = (3 : Fq).val := by
  rw [val_ofNat]; norm_num
theorem val_injective : Function.Injective (fun a : Fq => a.val) := fun a b h => by
  rw [← cast_val a, ← cast_val b]; exact congrArg _ h
theorem val_isZero (a : Fq) : (a.val % Spec.q == 0) = decide (a = 0) := by
  rw [Bool.eq_iff_iff, beq_iff_eq, decide_eq_true_iff, Nat.mod_eq_of_lt (val_lt a)]
  constructor
  · intro h; rw [← cast_val a, h, Nat.cast_zero]
  · intro h; rw [h]; exact Fq.zero_val

/-! ## G1 -/

/-- points of `E : y² = x³ + 5` as the oracle represents them -/
noncomputable def encPt1 : EPt b1 → Spec.Pt ℕ
  | .zero => none
  | .some x y _ => some (x.val, y.val)

theorem encPt1_zero : encPt1 (0 : EPt b1) = none := rfl
theorem encPt1_some {x y : Fq} (h : ENS b1 x y) : encPt1 (.some x y h) = some (x.val, y.val) := rfl

theorem encPt1_injective : Function.Injective encPt1 := by
  intro A B h
  cases A <;> cases B <;> simp only [encPt1, reduceCtorEq, Option.some.injEq, Prod.mk.injEq] at h
  · rfl
  · obtain ⟨h1, h2⟩ := h
    cases val_injective h1; cases val_injective h2; rfl

/-- **`Spec.ptAdd Spec.opsQ` is Mathlib's point addition on `E(F_q)`** -/
theorem ptAdd1_eq (A B : EPt b1) : Spec.ptAdd Spec.opsQ (encPt1 A) (encPt1 B) = encPt1 (A + B) := by
  cases A with
  | zero =>
    show Spec.ptAdd Spec.opsQ none (encPt1 B) = encPt1 (0 + B)
    rw [zero_add]; rfl
  | some x1 y1 h1 =>
    cases B with
    | zero =>
      show Spec.ptAdd Spec.opsQ (some _) none = encPt1 (_ + 0)
      rw [add_zero]; rfl
    | some x2 y2 h2 =>
      simp only [encPt1, Spec.ptAdd, Spec.opsQ, val_sub, val_add, val_isZero, val_mul, val_inv,
        val_three, decide_eq_true_eq, sub_eq_zero, add_eq_zero_iff_eq_neg]
      by_cases hx : x1 = x2
      · by_cases hy : y1 = -y2
        · rw [if_pos hx, if_pos hy, Affine.Point.add_of_Y_eq hx (gnegY_of b1 hy)]
        · have hxy := gnot_cond b1 (fun h : x1 = x2 ∧ y1 = -y2 => hy h.2)
          rw [if_pos hx, if_neg hy, Affine.Point.add_some hxy]
          simp only [gaddX_eq, gaddY_eq, gslope_eq, if_pos hx, if_neg hy]
      · have hxy := gnot_cond b1 (fun h : x1 = x2 ∧ y1 = -y2 => hx h.1)
        rw [if_neg hx, Affine.Point.add_some hxy]
        simp only [gaddX_eq, gaddY_eq, gslope_eq, if_neg hx]

/-! ## negation -/

theorem ptNeg1_eq (A : EPt b1) : Spec.ptNeg Spec.opsQ (encPt1 A) = encPt1 (-A) := by
  cases A with
  | zero => rfl
  | some x y h =>
    rw [gneg_some]
    simp only [encPt1, Spec.ptNeg, Spec.opsQ, val_neg]

theorem ptNeg_eq (A : W.Point) : Spec.ptNeg Spec.opsQ2 (encPt A) = encPt (-A) := by
  cases A with
  | zero => rfl
  | some x y h =>
    rw [gneg_some]
    simp only [encPt, Spec.ptNeg, Spec.opsQ2, toQ2_neg]

/-! ## scalar multiplication -/

/-- **`Spec.ptMul Spec.opsQ2` is `k • ·` on the twist** -/
theorem ptMul_eq (k : ℕ) (A : W.Point) : Spec.ptMul Spec.opsQ2 k (encPt A) = encPt (k • A) :=
  ptMul_generic Spec.opsQ2 encPt encPt_zero ptAdd_eq k A

/-- **`Spec.ptMul Spec.opsQ` is `k • ·` on `E(F_q)`** -/
theorem ptMul1_eq (k : ℕ) (A : EPt b1) : Spec.ptMul Spec.opsQ k (encPt1 A) = encPt1 (k • A) :=
  ptMul_generic Spec.opsQ encPt1 encPt1_zero ptAdd1_eq k A

/-! ## generators and curve membership -/

theorem toAff_z_one {F : Type} [Field F] [DecidableEq F] (b : F) (P : G F) (hz : P.z = 1)
    (hv : Jac.Valid b P) : ∃ hn : ENS b P.x P.y, Jac.toAff b P = .some P.x P.y hn := by
  have hz0 : P.z ≠ 0 := by rw [hz]; exact one_ne_zero
  rcases hv with h | h
  · exact absurd h hz0
  · have hn : ENS b P.x P.y := by
      have h' := h
      simp only [hz, one_pow, div_one] at h'
      exact h'
    refine ⟨hn, ?_⟩
    rw [Jac.toAff_some b P hz0 h]
    simp only [hz, one_pow, div_one]

/-- the oracle's generator of G1 is the model's -/
theorem P1_eq : Spec.P1 = encPt1 (G1.toAff G.one) := by
  obtain ⟨hn, h⟩ := toAff_z_one b1 (G.one : G1) rfl G1.one_valid
  have h' : G1.toAff G.one = .some _ _ hn := h
  rw [h']
  show Spec.P1 = some ((G.one : G1).x.val, (G.one : G1).y.val)
  decide +kernel

/-- the oracle's generator of G2 is the model's -/
theorem P2_eq : Spec.P2 = encPt (G2.toAff G.one) := by
  obtain ⟨hn, h⟩ := toAff_z_one b2 (G.one : G2) rfl G2.one_valid
  have h' : G2.toAff G.one = .some _ _ hn := h
  rw [h']
  show Spec.P2 = some (toQ2 (G.one : G2).x, toQ2 (G.one : G2).y)
  decide +kernel

theorem b_eq1 : ((Spec.b : ℕ) : Fq) = b1 := by decide +kernel
theorem bTwist_eq : Spec.Q2.bTwist = toQ2 b2 := by decide +kernel

theorem mod_eq_iff_cast (m n : ℕ) : m % Spec.q = n % Spec.q ↔ (m : Fq) = (n : Fq) := by
  constructor
  · intro h; rw [← cast_mod m, h, cast_mod]
  · intro h; rw [← val_cast, ← val_cast, h]

theorem onCurve1_eq (x y : Fq) : Spec.onCurve1 x.val y.val = decide (y * y = x * x * x + b1) := by
  unfold Spec.onCurve1
  rw [Bool.eq_iff_iff, beq_iff_eq, decide_eq_true_iff, mod_eq_iff_cast]
  simp only [Nat.cast_mul, Nat.cast_add, cast_val, b_eq1]

theorem onCurve2_eq (x y : Fq2) :
    Spec.onCurve2 (toQ2 x) (toQ2 y) = decide (y * y = x * x * x + b2) := by
  unfold Spec.onCurve2
  rw [bTwist_eq, toQ2_mul, toQ2_mul, toQ2_mul, toQ2_add, Bool.eq_iff_iff, beq_iff_eq,
    decide_eq_true_iff]
  exact toQ2_injective.eq_iff

/-! ## corollaries against the model -/

theorem g1_add_independent (P Q : G1) (hP : G1.Valid P) (hQ : G1.Valid Q) :
    Spec.ptAdd Spec.opsQ (encPt1 (G1.toAff P)) (encPt1 (G1.toAff Q)) = encPt1 (G1.toAff (P.add Q)) := by
  rw [ptAdd1_eq, G1.add_correct P Q hP hQ]

theorem g1_neg_independent (P : G1) (hP : G1.Valid P) :
    Spec.ptNeg Spec.opsQ (encPt1 (G1.toAff P)) = encPt1 (G1.toAff P.neg) := by
  rw [ptNeg1_eq, G1.neg_correct P hP]

theorem g1_mul_independent (P : G1) (hP : G1.Valid P) (k : Fr) :
    Spec.ptMul Spec.opsQ k.val (encPt1 (G1.toAff P)) = encPt1 (G1.toAff (P.mul k)) := by
  rw [ptMul1_eq, G1.mul_correct P hP k]

theorem g2_add_independent (P Q : G2) (hP : G2.Valid P) (hQ : G2.Valid Q) :
    Spec.ptAdd Spec.opsQ2 (encPt (G2.toAff P)) (encPt (G2.toAff Q)) = encPt (G2.toAff (P.add Q)) := by
  rw [ptAdd_eq, G2.add_correct P Q hP hQ]

theorem g2_neg_independent (P : G2) (hP : G2.Valid P) :
    Spec.ptNeg Spec.opsQ2 (encPt (G2.toAff P)) = encPt (G2.toAff P.neg) := by
  rw [ptNeg_eq, G2.neg_correct P hP]

theorem g2_mul_independent (P : G2) (hP : G2.Valid P) (k : Fr) :
    Spec.ptMul Spec.opsQ2 k.val (encPt (G2.toAff P)) = encPt (G2.toAff (P.mul k)) := by
  rw [ptMul_eq, G2.mul_correct P hP k]

end SpecGroup
end Sm9
