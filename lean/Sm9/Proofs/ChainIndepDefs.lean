import Sm9.Proofs.MillerNafSpec
import Mathlib.AlgebraicGeometry.EllipticCurve.Affine.Point
/-!
# Independence of the Miller function of the addition chain — definitions

The two Miller loops of the crate walk two different addition chains for `6t+2` (binary digits in
`G2Prepared::from`, signed digits in `G2::miller_loop`).  `Sm9/Proofs/MillerSpec.lean` and
`MillerNafSpec.lean` define both loops generically in the type `K` of line values.  Here `K` is
instantiated with the **affine coordinate ring** `F[W]` of Mathlib
(`WeierstrassCurve.Affine.CoordinateRing`): the line through `(x, y)` with slope `λ` is the class of
`Y − (λ·(X − x) + y)`.  The product of lines a chain accumulates generates the ideal
`I_Q^m · I_{−[m]Q}` times a product of principal *vertical* ideals `(X − x_T)`; two chains reaching
the same multiple therefore produce elements that differ by a unit of `F[W]` — a non-zero constant
of `F` — and by verticals (`Sm9/Proofs/ChainIndep.lean`).
-/
namespace Sm9
namespace Miller
open WeierstrassCurve

section generic
variable {F : Type} [Field F] [DecidableEq F]

/-- the line through `(x, y)` with slope `lam`, as an element of the coordinate ring -/
noncomputable def lineR (W : Affine F) (x y lam : F) : W.CoordinateRing :=
  Affine.CoordinateRing.YClass W (Affine.linePolynomial x y lam)

/-- finite products of verticals `X − x` with `x ∈ S` -/
inductive VertProd (W : Affine F) (S : Set F) : W.CoordinateRing → Prop
  | one : VertProd W S 1
  | mul {v : W.CoordinateRing} {x : F} :
      VertProd W S v → x ∈ S → VertProd W S (v * Affine.CoordinateRing.XClass W x)

/-- the `x`-coordinates of the multiples `k•Q`, `0 < k < n` -/
def multX (W : Affine F) (Q : W.Point) (n : ℕ) : Set F :=
  {x | ∃ (y : F) (h : W.Nonsingular x y) (k : ℕ), 0 < k ∧ k < n ∧ k • Q = .some x y h}

end generic

/-- every multiplier `m` the binary chain passes through (the start `1` included, the final one
    excluded) satisfies `2m+1 < n`, so that `m, 2m, 2m+1` are non-zero multiples below `n` -/
def binChainOK (N : ℕ) (idx : List ℕ) (n : ℕ) : Bool :=
  (idx.foldl (fun (s : ℕ × Bool) i =>
      (2 * s.1 + (if bit N i then 1 else 0), s.2 && decide (2 * s.1 + 1 < n))) (1, true)).2

/-- the same for the signed-digit chain (`m ≥ 1` throughout, so `2m−1 ≥ 1`) -/
def nafChainOK (ds : List ℕ) (n : ℕ) : Bool :=
  (ds.foldl (fun (s : ℕ × Bool) d => (nafNext s.1 d, s.2 && decide (2 * s.1 + 1 < n))) (1, true)).2

end Miller
end Sm9
