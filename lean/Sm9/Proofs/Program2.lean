import Sm9.Proofs.Program
import Sm9.Proofs.Decoders
import Mathlib.GroupTheory.OrderOfElement
/-!
# C16 for the mixed machine: G1 and G2 registers, encode/decode round trips

The machine `mstep`/`mrun` of `Sm9/Model/Prog.lean` is the one the differential driver runs
(`Sm9/Driver/Prog.lean` only parses text into `MInstr`).  Here it is proved to refine the
abstract machine `astep2`/`arun2` that tracks (group tag, discrete logarithm in Z_r):

* `mrun_fails_iff` (unconditional): the two machines fail on exactly the same programs;
* `mrun_valid` (unconditional): every register is a valid point of the order-r subgroup of its
  group (`d • P1` resp. `d • P2` for *some* `d`);
* `mrun_refines`: register k denotes `d_k • P1` / `d_k • P2` with `d_k` the abstract register,
  under the visible hypothesis `G2CompressedSafe prog`: whenever the compressed encode/decode
  round trip is applied to a G2 register with abstract log `d`, the point `d • P2` has
  `Re y ≠ 0` (`ReYNonzero d`; vacuous for the identity).  `NoG2Compressed prog` (decidable, no
  compressed round trip of a non-identity G2 value at all) implies it.
  What is missing to drop the hypothesis: a proof that no point of the order-r subgroup of the
  twist has `Re y = 0` (for such a point the crate's decoder returns ±P depending on which root
  `Fq2::sqrt` produces, `encDec2_compressed_up_to_sign`; the unconditional statements are
  `mrun_fails_iff` and `mrun_valid`);
* observation theorems: `==`, `is_zero`, affine coordinates, the three encodings and the three
  pairing entry points of related registers are functions of (tag, log).
-/
set_option maxRecDepth 100000
namespace Sm9
open WeierstrassCurve

/-! ## the generator of G2 has order exactly r -/

noncomputable def gen2 := G2.toAff (G.one : G2)

theorem gen2_order : r • gen2 = 0 ∧ gen2 ≠ 0 := by
  unfold gen2
  refine ⟨G2.one_in_subgroup, ?_⟩
  rw [G2.toAff_some _ G2.one_z_ne_zero (G2.one_valid.resolve_left G2.one_z_ne_zero)]
  exact Affine.Point.some_ne_zero _

theorem gen2_addOrderOf : addOrderOf gen2 = r := by
  have : Fact (Nat.Prime r) := ⟨r_prime⟩
  exact addOrderOf_eq_prime gen2_order.1 gen2_order.2

theorem smul_mod_r2 (n : Nat) : (n % r) • gen2 = n • gen2 := by
  conv_rhs => rw [← Nat.div_add_mod n r, add_smul, mul_smul, smul_comm, gen2_order.1, smul_zero, zero_add]

theorem smul_gen2_inj (a b : Fr) (h : a.val • gen2 = b.val • gen2) : a = b := by
  rw [nsmul_eq_nsmul_iff_modEq, gen2_addOrderOf] at h
  apply Fin.ext
  have ha : a.val < r := a.isLt
  have hb : b.val < r := b.isLt
  unfold Nat.ModEq at h
  rwa [Nat.mod_eq_of_lt ha, Nat.mod_eq_of_lt hb] at h

/-! ## the refinement relations -/

/-- a G1 value denotes `d • P1` (the relation `Rel` of `Program.lean`) -/
abbrev Rel1 (P : G1) (d : Fr) : Prop := Rel P d

/-- a G2 value denotes `d • P2` -/
def Rel2 (Q : G2) (d : Fr) : Prop := G2.Valid Q ∧ G2.toAff Q = d.val • gen2

/-- a register of the mixed machine against (group tag, discrete log); `true` tags G1 -/
def RegRel : Reg → Bool × Fr → Prop
  | .p1 P, (true, d) => Rel1 P d
  | .p2 Q, (false, d) => Rel2 Q d
  | _, _ => False

theorem rel2_subgroup {Q : G2} {d : Fr} (h : Rel2 Q d) : r • G2.toAff Q = 0 := by
  rw [h.2, smul_comm, gen2_order.1, smul_zero]

theorem rel1_subgroup {P : G1} {d : Fr} (h : Rel1 P d) : r • G1.toAff P = 0 := by
  rw [h.2, smul_comm, gen1_order.1, smul_zero]

theorem rel2_add {P Q : G2} {a b : Fr} (hP : Rel2 P a) (hQ : Rel2 Q b) : Rel2 (P.add Q) (a + b) := by
  refine ⟨G2.add_valid P Q hP.1 hQ.1, ?_⟩
  rw [G2.add_correct P Q hP.1 hQ.1, hP.2, hQ.2, ← add_smul]
  have : (a + b).val = (a.val + b.val) % r := rfl
  rw [this, smul_mod_r2]

theorem rel2_neg {P : G2} {a : Fr} (hP : Rel2 P a) : Rel2 P.neg (-a) := by
  refine ⟨G2.neg_valid P hP.1, ?_⟩
  rw [G2.neg_correct P hP.1, hP.2]
  have hsum : (-a).val • gen2 + a.val • gen2 = 0 := by
    rw [← add_smul]
    have : ((-a) + a).val = ((-a).val + a.val) % r := rfl
    rw [← smul_mod_r2, ← this]
    have h0 : (-a + a) = 0 := by ring
    rw [h0]
    show Fin.val (0 : Fr) • gen2 = 0
    rw [Fr.zero_val, zero_smul]
  exact (eq_neg_of_add_eq_zero_left hsum).symm

theorem rel2_sub {P Q : G2} {a b : Fr} (hP : Rel2 P a) (hQ : Rel2 Q b) : Rel2 (P.sub Q) (a - b) := by
  have := rel2_add hP (rel2_neg hQ)
  have e : a + -b = a - b := by ring
  rw [e] at this
  exact this

theorem rel2_mul {P : G2} {a : Fr} (hP : Rel2 P a) (k : Fr) : Rel2 (P.mul k) (a * k) := by
  refine ⟨G2.mul_valid P hP.1 k, ?_⟩
  rw [G2.mul_correct P hP.1 k, hP.2, ← mul_smul]
  have : (a * k).val = (a.val * k.val) % r := rfl
  rw [this, smul_mod_r2, mul_comm]

theorem rel2_normalize {P : G2} {a : Fr} (hP : Rel2 P a) : Rel2 (Api.normalize P) a := by
  obtain ⟨h1, _, _, h4⟩ := G2.normalize_spec P hP.1
  exact ⟨h4, by rw [h1, hP.2]⟩

theorem rel2_one : Rel2 (G.one : G2) 1 := by
  refine ⟨G2.one_valid, ?_⟩
  show _ = Fin.val (1 : Fr) • gen2
  rw [Fr.one_val, one_smul]; rfl

theorem rel2_zero : Rel2 (G.zero : G2) 0 := by
  refine ⟨Or.inl rfl, ?_⟩
  show _ = Fin.val (0 : Fr) • gen2
  rw [G2.toAff_zero _ rfl, Fr.zero_val, zero_smul]

/-- a freshly computed value of the group element with logarithm `d` -/
theorem rel1_fresh (d : Fr) : Rel1 ((G.one : G1).mul d) d := by
  have := rel_mul rel_one d
  rwa [one_mul] at this
theorem rel2_fresh (d : Fr) : Rel2 ((G.one : G2).mul d) d := by
  have := rel2_mul rel2_one d
  rwa [one_mul] at this

/-- the affine round trip of the driver is `Api.normalize` -/
theorem affRound_eq {F} [FieldElement F] (p : G F) : affRound p = Api.normalize p := rfl

/-! ## observations of G2 values -/

theorem observe_eq2 {P Q : G2} {a b : Fr} (hP : Rel2 P a) (hQ : Rel2 Q b) : P.eq Q = true ↔ a = b := by
  rw [G2.eq_iff P Q hP.1 hQ.1, hP.2, hQ.2]
  exact ⟨smul_gen2_inj a b, fun h => by rw [h]⟩

theorem rel1_z_zero_iff {P : G1} {a : Fr} (hP : Rel1 P a) : P.z = 0 ↔ a = 0 := by
  rw [← observe_is_zero hP, G1.is_zero_iff]

theorem rel2_z_zero_iff {P : G2} {a : Fr} (hP : Rel2 P a) : P.z = 0 ↔ a = 0 := by
  constructor
  · intro hz
    apply smul_gen2_inj
    rw [← hP.2, G2.toAff_zero P hz]
    show (0 : (Jac.Wb b2).toAffine.Point) = Fin.val (0 : Fr) • gen2
    rw [Fr.zero_val, zero_smul]
  · intro ha
    subst ha
    by_contra hz
    obtain ⟨hv, h⟩ := hP
    have h0 : Fr.val (0 : Fr) • gen2 = 0 := by
      show Fin.val (0 : Fr) • gen2 = 0
      rw [Fr.zero_val, zero_smul]
    rw [G2.toAff_some P hz (hv.resolve_left hz), h0] at h
    exact Affine.Point.some_ne_zero _ h

theorem observe_is_zero2 {P : G2} {a : Fr} (hP : Rel2 P a) : P.is_zero = true ↔ a = 0 := by
  rw [G2.is_zero_iff, rel2_z_zero_iff hP]

/-! ## encode/decode round trips return the normal form -/

theorem G1.normalize_of_z_ne (P : G1) (hz : P.z ≠ 0) :
    Api.normalize P = { x := P.x / P.z ^ 2, y := P.y / P.z ^ 3, z := 1 } := by
  unfold Api.normalize
  rw [G1.to_affine_spec, if_neg hz]
  rfl

theorem G2.normalize_of_z_ne (P : G2) (hz : P.z ≠ 0) :
    Api.normalize P = { x := P.x / P.z ^ 2, y := P.y / P.z ^ 3, z := 1 } := by
  unfold Api.normalize
  rw [G2.to_affine_spec, if_neg hz]
  rfl

/-- **G1, all three formats**: encoding then decoding a valid value never fails and returns
    exactly its normal form (the identity is passed through) -/
theorem encDec1_eq (fmt : Fmt) (P : G1) (hP : G1.Valid P) : encDec1 fmt P = some (Api.normalize P) := by
  unfold encDec1
  by_cases hz : P.z = 0
  · rw [if_pos ((G1.is_zero_iff P).2 hz), (G1.normalize_spec P hP).2.2.1 hz]
  · rw [if_neg (fun h => hz ((G1.is_zero_iff P).1 h)), G1.normalize_of_z_ne P hz]
    have ha : P.to_affine = some ⟨P.x / P.z ^ 2, P.y / P.z ^ 3⟩ := by
      rw [G1.to_affine_spec, if_neg hz]
    have he := G1.affine_equation P hP hz
    have h1 : Api.g1ToSlice P = .ok (Api.fqToSlice (P.x / P.z ^ 2) ++ Api.fqToSlice (P.y / P.z ^ 3)) := by
      unfold Api.g1ToSlice; rw [ha]
    cases fmt
    · simp only [h1, g1_from_slice_encode _ _ he]
      rfl
    · simp only [Api.g1ToUncompressed_ok P _ h1,
        (g1_from_uncompressed_iff _ _).2 ⟨_, rfl, g1_from_slice_encode _ _ he⟩]
      rfl
    · have h2 : Api.g1ToCompressed P
          = .ok (compByte (P.y / P.z ^ 3).is_even :: Api.fqToSlice (P.x / P.z ^ 2)) := by
        unfold Api.g1ToCompressed; rw [ha]; rfl
      simp only [h2, g1_from_compressed_encode _ _ he]
      rfl

/-- **G2**: for a valid value of the order-r subgroup; in the compressed format under the side
    condition `Re y ≠ 0` on the affine y-coordinate -/
theorem encDec2_eq (fmt : Fmt) (P : G2) (hP : G2.Valid P) (hsub : r • G2.toAff P = 0)
    (hre : fmt = .compressed → P.z ≠ 0 → (P.y / P.z ^ 3).c0 ≠ 0) :
    encDec2 fmt P = some (Api.normalize P) := by
  unfold encDec2
  by_cases hz : P.z = 0
  · rw [if_pos ((G2.is_zero_iff P).2 hz), (G2.normalize_spec P hP).2.2.1 hz]
  · rw [if_neg (fun h => hz ((G2.is_zero_iff P).1 h)), G2.normalize_of_z_ne P hz]
    have ha : P.to_affine = some ⟨P.x / P.z ^ 2, P.y / P.z ^ 3⟩ := by
      rw [G2.to_affine_spec, if_neg hz]
    have he := G2.affine_equation P hP hz
    have hs : r • G2.toAff { x := P.x / P.z ^ 2, y := P.y / P.z ^ 3, z := 1 } = 0 := by
      rw [(G2.toAff_affine P hP hz).2]; exact hsub
    have h1 : Api.g2ToSlice P = .ok (Api.fq2ToSlice (P.x / P.z ^ 2) ++ Api.fq2ToSlice (P.y / P.z ^ 3)) := by
      unfold Api.g2ToSlice; rw [ha]
    cases fmt
    · simp only [h1, g2_from_slice_encode _ _ he hs]
      rfl
    · simp only [Api.g2ToUncompressed_ok P _ h1,
        (g2_from_uncompressed_iff _ _).2 ⟨_, rfl, g2_from_slice_encode _ _ he hs⟩]
      rfl
    · have h2 : Api.g2ToCompressed P
          = .ok (compByte (Api.fq2IsEven (P.y / P.z ^ 3)) :: Api.fq2ToSlice (P.x / P.z ^ 2)) := by
        unfold Api.g2ToCompressed; rw [ha]; rfl
      simp only [h2, g2_from_compressed_encode_partial _ _ he hs (hre rfl hz)]
      rfl

/-- **G2 compressed, no side condition**: the round trip never fails and returns the normal form
    or its negative -/
theorem encDec2_compressed_up_to_sign (P : G2) (hP : G2.Valid P) (hsub : r • G2.toAff P = 0) :
    encDec2 .compressed P = some (Api.normalize P) ∨ encDec2 .compressed P = some (Api.normalize P).neg := by
  by_cases hz : P.z = 0
  · left
    unfold encDec2
    rw [if_pos ((G2.is_zero_iff P).2 hz), (G2.normalize_spec P hP).2.2.1 hz]
  · unfold encDec2
    rw [if_neg (fun h => hz ((G2.is_zero_iff P).1 h)), G2.normalize_of_z_ne P hz, G2.neg_of_z_one]
    have ha : P.to_affine = some ⟨P.x / P.z ^ 2, P.y / P.z ^ 3⟩ := by
      rw [G2.to_affine_spec, if_neg hz]
    have he := G2.affine_equation P hP hz
    have hs : r • G2.toAff { x := P.x / P.z ^ 2, y := P.y / P.z ^ 3, z := 1 } = 0 := by
      rw [(G2.toAff_affine P hP hz).2]; exact hsub
    have h2 : Api.g2ToCompressed P
        = .ok (compByte (Api.fq2IsEven (P.y / P.z ^ 3)) :: Api.fq2ToSlice (P.x / P.z ^ 2)) := by
      unfold Api.g2ToCompressed; rw [ha]; rfl
    obtain ⟨y2, hy2, hdec⟩ := g2_from_compressed_encode_up_to_sign _ _ he hs
    simp only [h2, hdec]
    rcases hy2 with e | e
    · left; rw [e]; rfl
    · right; rw [e]; rfl

/-! ## the side condition of the compressed G2 round trip, in terms of the discrete log -/

/-- the point `d • P2` has an affine y-coordinate with non-zero real part (vacuous for `d = 0`) -/
def ReYNonzero (d : Fr) : Prop :=
  ∀ (x y : Fq2) (h : (Jac.Wb b2).Nonsingular x y), d.val • gen2 = .some x y h → y.c0 ≠ 0

theorem fr_zero_smul_gen2 : Fr.val (0 : Fr) • gen2 = 0 := by
  show Fin.val (0 : Fr) • gen2 = 0
  rw [Fr.zero_val, zero_smul]

theorem reYNonzero_zero : ReYNonzero 0 := by
  intro x y h e
  rw [fr_zero_smul_gen2] at e
  exact absurd e.symm (Affine.Point.some_ne_zero _)

theorem rel2_re_ne {Q : G2} {d : Fr} (hQ : Rel2 Q d) (hd : ReYNonzero d) (hz : Q.z ≠ 0) :
    (Q.y / Q.z ^ 3).c0 ≠ 0 := by
  obtain ⟨hv, ht⟩ := hQ
  rw [G2.toAff_some Q hz (hv.resolve_left hz)] at ht
  exact hd _ _ _ ht.symm

/-- the step is not a compressed encode/decode of a G2 register whose point has `Re y = 0` -/
def StepSafe (ds : List (Bool × Fr)) : MInstr → Prop
  | .encdec i .compressed => ∀ d, ds[i]? = some (false, d) → ReYNonzero d
  | _ => True

def SafeFrom : List (Bool × Fr) → List MInstr → Prop
  | _, [] => True
  | ds, ins :: rest => StepSafe ds ins ∧ ∀ ds', astep2 ds ins = some ds' → SafeFrom ds' rest

/-- along the abstract run, every compressed encode/decode of a G2 register with log `d`
    has `ReYNonzero d` -/
def G2CompressedSafe (prog : List MInstr) : Prop := SafeFrom [] prog

theorem rel1_encdec {P : G1} {d : Fr} (h : Rel1 P d) (fmt : Fmt) :
    ∃ P', encDec1 fmt P = some P' ∧ Rel1 P' d :=
  ⟨_, encDec1_eq fmt P h.1, rel_normalize h⟩

theorem rel2_encdec {Q : G2} {d : Fr} (h : Rel2 Q d) (fmt : Fmt) (hs : fmt = .compressed → ReYNonzero d) :
    ∃ Q', encDec2 fmt Q = some Q' ∧ Rel2 Q' d :=
  ⟨_, encDec2_eq fmt Q h.1 (rel2_subgroup h) (fun hf hz => rel2_re_ne h (hs hf) hz), rel2_normalize h⟩

theorem rel2_encdec_up_to_sign {Q : G2} {d : Fr} (h : Rel2 Q d) (fmt : Fmt) :
    ∃ Q' d', encDec2 fmt Q = some Q' ∧ Rel2 Q' d' ∧ (d' = d ∨ d' = -d) := by
  cases fmt
  · exact ⟨_, d, encDec2_eq .slice Q h.1 (rel2_subgroup h) (fun hf => by cases hf), rel2_normalize h, Or.inl rfl⟩
  · exact ⟨_, d, encDec2_eq .uncompressed Q h.1 (rel2_subgroup h) (fun hf => by cases hf), rel2_normalize h, Or.inl rfl⟩
  · rcases encDec2_compressed_up_to_sign Q h.1 (rel2_subgroup h) with e | e
    · exact ⟨_, d, e, rel2_normalize h, Or.inl rfl⟩
    · exact ⟨_, -d, e, rel2_neg (rel2_normalize h), Or.inr rfl⟩

/-! ## one step -/

theorem regs_lookup {regs : List Reg} {ds : List (Bool × Fr)} (h : List.Forall₂ RegRel regs ds) (i : Nat) :
    (regs[i]? = none ∧ ds[i]? = none) ∨
    (∃ P d, regs[i]? = some (.p1 P) ∧ ds[i]? = some (true, d) ∧ Rel1 P d) ∨
    (∃ Q d, regs[i]? = some (.p2 Q) ∧ ds[i]? = some (false, d) ∧ Rel2 Q d) := by
  have hlen := h.length_eq
  by_cases hi : i < regs.length
  · right
    have hi' : i < ds.length := hlen ▸ hi
    have hr : RegRel regs[i] ds[i] := by
      have := List.Forall₂.get h hi hi'
      simpa using this
    have e1 : regs[i]? = some regs[i] := List.getElem?_eq_getElem hi
    have e2 : ds[i]? = some ds[i] := List.getElem?_eq_getElem hi'
    rw [e1, e2]
    generalize regs[i] = R at hr
    generalize ds[i] = e at hr
    obtain ⟨t, d⟩ := e
    cases R with
    | p1 P => cases t with
      | true => exact Or.inl ⟨P, d, rfl, rfl, hr⟩
      | false => exact hr.elim
    | p2 Q => cases t with
      | true => exact hr.elim
      | false => exact Or.inr ⟨Q, d, rfl, rfl, hr⟩
  · left
    exact ⟨List.getElem?_eq_none (by omega), List.getElem?_eq_none (by omega)⟩

/-- simulation of one instruction's result `a` (abstract) by `m` (concrete) -/
def NewSim (ds : List (Bool × Fr)) (ins : MInstr) (a : Option (Bool × Fr)) (m : Option Reg) : Prop :=
  (a = none → m = none) ∧
  (∀ e, a = some e → ∃ R e', m = some R ∧ RegRel R e' ∧ e'.1 = e.1 ∧ (StepSafe ds ins → e' = e))

theorem NewSim.bad (ds : List (Bool × Fr)) (ins : MInstr) : NewSim ds ins none none :=
  ⟨fun _ => rfl, fun _ he => nomatch he⟩

theorem NewSim.ok (ds : List (Bool × Fr)) (ins : MInstr) {R : Reg} {e : Bool × Fr} (hr : RegRel R e) :
    NewSim ds ins (some e) (some R) := by
  refine ⟨fun hh => (nomatch hh), fun e0 he => ?_⟩
  rw [Option.some.injEq] at he
  subst he
  exact ⟨R, e, rfl, hr, rfl, fun _ => rfl⟩

/-- **one instruction**: the abstract machine fails iff the concrete one does; otherwise the new
    concrete register is a subgroup point of the group predicted by the abstract tag, and it
    denotes exactly the abstract log when the step is safe -/
theorem mnew_sim {regs : List Reg} {ds : List (Bool × Fr)} (h : List.Forall₂ RegRel regs ds) (ins : MInstr) :
    NewSim ds ins (anew ds ins) (mnew regs ins) := by
  have tt : (true != true) = false := rfl
  have ff : (false != false) = false := rfl
  have tf : (true != false) = true := rfl
  have ft : (false != true) = true := rfl
  cases ins with
  | one1 => exact NewSim.ok _ _ (R := .p1 G.one) (e := (true, 1)) rel_one
  | one2 => exact NewSim.ok _ _ (R := .p2 G.one) (e := (false, 1)) rel2_one
  | zero1 => exact NewSim.ok _ _ (R := .p1 G.zero) (e := (true, 0)) rel_zero
  | zero2 => exact NewSim.ok _ _ (R := .p2 G.zero) (e := (false, 0)) rel2_zero
  | add i j =>
    rcases regs_lookup h i with ⟨h1, h2⟩ | ⟨P, a, h1, h2, hr1⟩ | ⟨P, a, h1, h2, hr1⟩ <;>
    rcases regs_lookup h j with ⟨h3, h4⟩ | ⟨Q, b, h3, h4, hr2⟩ | ⟨Q, b, h3, h4, hr2⟩ <;>
    simp only [mnew, anew, h1, h2, h3, h4, tt, ff, tf, ft, if_true, if_false, Bool.false_eq_true]
    all_goals first | exact NewSim.bad _ _ | skip
    · exact NewSim.ok _ _ (R := .p1 _) (e := (true, _)) (rel_add hr1 hr2)
    · exact NewSim.ok _ _ (R := .p2 _) (e := (false, _)) (rel2_add hr1 hr2)
  | sub i j =>
    rcases regs_lookup h i with ⟨h1, h2⟩ | ⟨P, a, h1, h2, hr1⟩ | ⟨P, a, h1, h2, hr1⟩ <;>
    rcases regs_lookup h j with ⟨h3, h4⟩ | ⟨Q, b, h3, h4, hr2⟩ | ⟨Q, b, h3, h4, hr2⟩ <;>
    simp only [mnew, anew, h1, h2, h3, h4, tt, ff, tf, ft, if_true, if_false, Bool.false_eq_true]
    all_goals first | exact NewSim.bad _ _ | skip
    · exact NewSim.ok _ _ (R := .p1 _) (e := (true, _)) (rel_sub hr1 hr2)
    · exact NewSim.ok _ _ (R := .p2 _) (e := (false, _)) (rel2_sub hr1 hr2)
  | neg i =>
    rcases regs_lookup h i with ⟨h1, h2⟩ | ⟨P, a, h1, h2, hr1⟩ | ⟨P, a, h1, h2, hr1⟩ <;>
    simp only [mnew, anew, h1, h2]
    · exact NewSim.bad _ _
    · exact NewSim.ok _ _ (R := .p1 _) (e := (true, _)) (rel_neg hr1)
    · exact NewSim.ok _ _ (R := .p2 _) (e := (false, _)) (rel2_neg hr1)
  | mul i k =>
    rcases regs_lookup h i with ⟨h1, h2⟩ | ⟨P, a, h1, h2, hr1⟩ | ⟨P, a, h1, h2, hr1⟩ <;>
    simp only [mnew, anew, h1, h2]
    · exact NewSim.bad _ _
    · exact NewSim.ok _ _ (R := .p1 _) (e := (true, _)) (rel_mul hr1 k)
    · exact NewSim.ok _ _ (R := .p2 _) (e := (false, _)) (rel2_mul hr1 k)
  | normalize i =>
    rcases regs_lookup h i with ⟨h1, h2⟩ | ⟨P, a, h1, h2, hr1⟩ | ⟨P, a, h1, h2, hr1⟩ <;>
    simp only [mnew, anew, h1, h2]
    · exact NewSim.bad _ _
    · exact NewSim.ok _ _ (R := .p1 _) (e := (true, _)) (rel_normalize hr1)
    · exact NewSim.ok _ _ (R := .p2 _) (e := (false, _)) (rel2_normalize hr1)
  | affine i =>
    rcases regs_lookup h i with ⟨h1, h2⟩ | ⟨P, a, h1, h2, hr1⟩ | ⟨P, a, h1, h2, hr1⟩ <;>
    simp only [mnew, anew, h1, h2, affRound_eq]
    · exact NewSim.bad _ _
    · exact NewSim.ok _ _ (R := .p1 _) (e := (true, _)) (rel_normalize hr1)
    · exact NewSim.ok _ _ (R := .p2 _) (e := (false, _)) (rel2_normalize hr1)
  | encdec i fmt =>
    rcases regs_lookup h i with ⟨h1, h2⟩ | ⟨P, a, h1, h2, hr1⟩ | ⟨P, a, h1, h2, hr1⟩ <;>
    simp only [mnew, anew, h1, h2]
    · exact NewSim.bad _ _
    · obtain ⟨P', e1, hr⟩ := rel1_encdec hr1 fmt
      rw [e1]
      exact NewSim.ok _ _ (R := .p1 _) (e := (true, _)) hr
    · obtain ⟨Q', d', e1, hr, hd⟩ := rel2_encdec_up_to_sign hr1 fmt
      rw [e1]
      refine ⟨fun hh => (nomatch hh), fun e0 he => ?_⟩
      rw [Option.some.injEq] at he
      subst he
      refine ⟨.p2 Q', (false, d'), rfl, hr, rfl, fun hs => ?_⟩
      -- a safe step: the exact round trip applies, and logs of equal points are equal
      have hsafe : fmt = .compressed → ReYNonzero a := by
        intro hf; subst hf; exact hs a h2
      obtain ⟨Q'', e2, hr2⟩ := rel2_encdec hr1 fmt hsafe
      rw [e1, Option.some.injEq] at e2
      subst e2
      have : d' = a := smul_gen2_inj _ _ (hr.2.symm.trans hr2.2)
      rw [this]

theorem mstep_sim {regs : List Reg} {ds : List (Bool × Fr)} (h : List.Forall₂ RegRel regs ds) (ins : MInstr) :
    (astep2 ds ins = none → mstep regs ins = none) ∧
    (∀ ds', astep2 ds ins = some ds' → ∃ regs' ds'', mstep regs ins = some regs' ∧
      List.Forall₂ RegRel regs' ds'' ∧ ds''.map Prod.fst = ds'.map Prod.fst ∧ (StepSafe ds ins → ds'' = ds')) := by
  obtain ⟨hn, hs⟩ := mnew_sim h ins
  unfold astep2 mstep
  cases ha : anew ds ins with
  | none =>
    rw [hn ha]
    exact ⟨fun _ => rfl, fun _ he => nomatch he⟩
  | some e =>
    obtain ⟨R, e', hm, hr, ht, hsafe⟩ := hs e ha
    rw [hm]
    refine ⟨fun hh => (nomatch hh), fun ds' he => ?_⟩
    rw [Option.some.injEq] at he
    subst he
    refine ⟨regs ++ [R], ds ++ [e'], rfl, List.rel_append h (List.Forall₂.cons hr List.Forall₂.nil), ?_, ?_⟩
    · rw [List.map_append, List.map_append, List.map_singleton, List.map_singleton, ht]
    · intro hs'; rw [hsafe hs']

/-! ## success/failure and group tags of the abstract machine depend only on the tags -/

theorem anew_tags {ds es : List (Bool × Fr)} (ht : ds.map Prod.fst = es.map Prod.fst) (ins : MInstr) :
    (anew ds ins).map Prod.fst = (anew es ins).map Prod.fst := by
  have look : ∀ i, (ds[i]?).map Prod.fst = (es[i]?).map Prod.fst := fun i => by
    rw [← List.getElem?_map, ← List.getElem?_map, ht]
  cases ins with
  | one1 => rfl
  | one2 => rfl
  | zero1 => rfl
  | zero2 => rfl
  | add i j =>
    have h1 := look i
    have h2 := look j
    simp only [anew]
    generalize ds[i]? = x at h1 ⊢
    generalize es[i]? = x' at h1 ⊢
    generalize ds[j]? = y at h2 ⊢
    generalize es[j]? = y' at h2 ⊢
    rcases x with _ | ⟨t1, a1⟩ <;> rcases x' with _ | ⟨t2, a2⟩ <;>
    rcases y with _ | ⟨t3, a3⟩ <;> rcases y' with _ | ⟨t4, a4⟩ <;> simp_all
  | sub i j =>
    have h1 := look i
    have h2 := look j
    simp only [anew]
    generalize ds[i]? = x at h1 ⊢
    generalize es[i]? = x' at h1 ⊢
    generalize ds[j]? = y at h2 ⊢
    generalize es[j]? = y' at h2 ⊢
    rcases x with _ | ⟨t1, a1⟩ <;> rcases x' with _ | ⟨t2, a2⟩ <;>
    rcases y with _ | ⟨t3, a3⟩ <;> rcases y' with _ | ⟨t4, a4⟩ <;> simp_all
  | neg i =>
    have h1 := look i
    simp only [anew]
    generalize ds[i]? = x at h1 ⊢
    generalize es[i]? = x' at h1 ⊢
    rcases x with _ | ⟨t1, a1⟩ <;> rcases x' with _ | ⟨t2, a2⟩ <;> simp_all
  | mul i k =>
    have h1 := look i
    simp only [anew]
    generalize ds[i]? = x at h1 ⊢
    generalize es[i]? = x' at h1 ⊢
    rcases x with _ | ⟨t1, a1⟩ <;> rcases x' with _ | ⟨t2, a2⟩ <;> simp_all
  | normalize i => exact look i
  | affine i => exact look i
  | encdec i fmt => exact look i

theorem astep2_tags {ds es : List (Bool × Fr)} (ht : ds.map Prod.fst = es.map Prod.fst) (ins : MInstr) :
    (astep2 ds ins).map (List.map Prod.fst) = (astep2 es ins).map (List.map Prod.fst) := by
  have h := anew_tags ht ins
  unfold astep2
  generalize anew ds ins = x at h ⊢
  generalize anew es ins = x' at h ⊢
  rcases x with _ | e <;> rcases x' with _ | e' <;> simp_all

/-! ## whole programs -/

/-- unconditional run theorem, from any related state (the abstract state may differ in the logs,
    not in the tags) -/
theorem mrunFrom_total (prog : List MInstr) : ∀ (regs : List Reg) (ds es : List (Bool × Fr)),
    List.Forall₂ RegRel regs ds → ds.map Prod.fst = es.map Prod.fst →
    (arunFrom2 es prog = none → mrunFrom regs prog = none) ∧
    (∀ es', arunFrom2 es prog = some es' → ∃ regs' ds', mrunFrom regs prog = some regs' ∧
      List.Forall₂ RegRel regs' ds' ∧ ds'.map Prod.fst = es'.map Prod.fst) := by
  induction prog with
  | nil =>
    intro regs ds es h ht
    refine ⟨fun hh => (nomatch hh), fun es' he => ?_⟩
    simp only [arunFrom2, Option.some.injEq] at he
    subst he
    exact ⟨regs, ds, rfl, h, ht⟩
  | cons ins rest ih =>
    intro regs ds es h ht
    have htag := astep2_tags ht ins
    obtain ⟨hn, hs⟩ := mstep_sim h ins
    simp only [arunFrom2, mrunFrom]
    cases hd : astep2 ds ins with
    | none =>
      have he : astep2 es ins = none := by
        rw [hd] at htag
        cases hh : astep2 es ins with
        | none => rfl
        | some x => rw [hh] at htag; cases htag
      rw [he, hn hd]
      exact ⟨fun _ => rfl, fun _ hh => nomatch hh⟩
    | some ds1 =>
      obtain ⟨regs1, ds1', hm, hr, ht1, _⟩ := hs ds1 hd
      cases he : astep2 es ins with
      | none => rw [hd, he] at htag; cases htag
      | some es1 =>
        rw [hd, he] at htag
        simp only [Option.map_some, Option.some.injEq] at htag
        rw [hm]
        exact ih regs1 ds1' es1 hr (ht1.trans htag)

/-- run theorem under the safety hypothesis, from any related state -/
theorem mrunFrom_refines (prog : List MInstr) : ∀ (regs : List Reg) (ds : List (Bool × Fr)),
    List.Forall₂ RegRel regs ds → SafeFrom ds prog →
    (arunFrom2 ds prog = none → mrunFrom regs prog = none) ∧
    (∀ ds', arunFrom2 ds prog = some ds' → ∃ regs', mrunFrom regs prog = some regs' ∧
      List.Forall₂ RegRel regs' ds') := by
  induction prog with
  | nil =>
    intro regs ds h _
    refine ⟨fun hh => (nomatch hh), fun ds' he => ?_⟩
    simp only [arunFrom2, Option.some.injEq] at he
    subst he
    exact ⟨regs, rfl, h⟩
  | cons ins rest ih =>
    intro regs ds h hsafe
    obtain ⟨hstep, hrest⟩ := hsafe
    obtain ⟨hn, hs⟩ := mstep_sim h ins
    simp only [arunFrom2, mrunFrom]
    cases hd : astep2 ds ins with
    | none =>
      rw [hn hd]
      exact ⟨fun _ => rfl, fun _ hh => nomatch hh⟩
    | some ds1 =>
      obtain ⟨regs1, ds1', hm, hr, _, heq⟩ := hs ds1 hd
      rw [heq hstep] at hr
      rw [hm]
      exact ih regs1 ds1 hr (hrest ds1 hd)

/-- **every program, every instruction (both groups, all three encode/decode round trips)**:
    if the abstract machine runs, so does the concrete one, and register k denotes
    `d_k • P1` resp. `d_k • P2`.  Hypothesis: `G2CompressedSafe prog` (see the header). -/
theorem mrun_refines (prog : List MInstr) (hsafe : G2CompressedSafe prog) (ds : List (Bool × Fr))
    (h : arun2 prog = some ds) : ∃ regs, mrun prog = some regs ∧ List.Forall₂ RegRel regs ds :=
  (mrunFrom_refines prog [] [] List.Forall₂.nil hsafe).2 ds h

/-- **unconditional**: if the abstract machine runs, so does the concrete one; every register is
    a valid point of the order-r subgroup of the group given by the abstract tag
    (it denotes `d' • P1` resp. `d' • P2` for some `d'`) -/
theorem mrun_valid (prog : List MInstr) (ds : List (Bool × Fr)) (h : arun2 prog = some ds) :
    ∃ regs ds', mrun prog = some regs ∧ List.Forall₂ RegRel regs ds' ∧ ds'.map Prod.fst = ds.map Prod.fst :=
  (mrunFrom_total prog [] [] [] List.Forall₂.nil rfl).2 ds h

/-- **unconditional**: the two machines fail on exactly the same programs (bad index or operands
    of different groups; an encoder never panics and a decoder never rejects along a run) -/
theorem mrun_fails_iff (prog : List MInstr) : mrun prog = none ↔ arun2 prog = none := by
  constructor
  · intro hm
    cases ha : arun2 prog with
    | none => rfl
    | some ds =>
      obtain ⟨regs, _, hr, _⟩ := mrun_valid prog ds ha
      rw [hm] at hr; cases hr
  · exact (mrunFrom_total prog [] [] [] List.Forall₂.nil rfl).1

/-! ## the decidable sufficient condition -/

theorem stepSafe_of_not_isG2Compressed (ds : List (Bool × Fr)) (ins : MInstr)
    (h : isG2Compressed ds ins = false) : StepSafe ds ins := by
  cases ins with
  | encdec i fmt =>
    cases fmt with
    | compressed =>
      intro d hd
      simp only [isG2Compressed, hd] at h
      have hv : d.val = 0 := by simpa using h
      have : d = 0 := Fin.ext (by rw [show Fin.val d = d.val from rfl, hv, Fr.zero_val])
      rw [this]
      exact reYNonzero_zero
    | slice => trivial
    | uncompressed => trivial
  | _ => trivial

theorem safeFrom_of_noG2CompressedFrom (prog : List MInstr) : ∀ ds : List (Bool × Fr),
    noG2CompressedFrom ds prog = true → SafeFrom ds prog := by
  induction prog with
  | nil => intro _ _; trivial
  | cons ins rest ih =>
    intro ds h
    simp only [noG2CompressedFrom, Bool.and_eq_true, Bool.not_eq_true'] at h
    refine ⟨stepSafe_of_not_isG2Compressed ds ins h.1, fun ds' hd => ?_⟩
    have h2 := h.2
    rw [hd] at h2
    exact ih ds' h2

theorem safe_of_noG2Compressed (prog : List MInstr) (h : NoG2Compressed prog) : G2CompressedSafe prog :=
  safeFrom_of_noG2CompressedFrom prog [] h

/-- `mrun_refines` under the decidable, purely syntactic-plus-tags condition -/
theorem mrun_refines_noG2Compressed (prog : List MInstr) (h : NoG2Compressed prog) (ds : List (Bool × Fr))
    (ha : arun2 prog = some ds) : ∃ regs, mrun prog = some regs ∧ List.Forall₂ RegRel regs ds :=
  mrun_refines prog (safe_of_noG2Compressed prog h) ds ha

/-! ## observations are functions of (tag, discrete log) -/

/-- the freshly computed value with a given tag and log: `[d]P1` resp. `[d]P2` -/
def fresh : Bool × Fr → Reg
  | (true, d) => .p1 ((G.one : G1).mul d)
  | (false, d) => .p2 ((G.one : G2).mul d)

theorem regRel_fresh (e : Bool × Fr) : RegRel (fresh e) e := by
  obtain ⟨t, d⟩ := e
  cases t
  · exact rel2_fresh d
  · exact rel1_fresh d

/-- `==` of two registers of the same group is equality of the logs -/
theorem observe_reg_eq {A B : Reg} {t : Bool} {a b : Fr} (hA : RegRel A (t, a)) (hB : RegRel B (t, b)) :
    ∃ v, A.eqObs B = some v ∧ (v = true ↔ a = b) := by
  cases A with
  | p1 P => cases B with
    | p1 Q => cases t with
      | true => exact ⟨_, rfl, observe_eq hA hB⟩
      | false => exact hA.elim
    | p2 Q => cases t with
      | true => exact hB.elim
      | false => exact hA.elim
  | p2 P => cases B with
    | p1 Q => cases t with
      | true => exact hA.elim
      | false => exact hB.elim
    | p2 Q => cases t with
      | true => exact hA.elim
      | false => exact ⟨_, rfl, observe_eq2 hA hB⟩

/-- registers of different groups are not comparable (the driver prints `-`, as the spec does) -/
theorem observe_reg_eq_mixed {A B : Reg} {t u : Bool} {a b : Fr} (hA : RegRel A (t, a)) (hB : RegRel B (u, b))
    (htu : t ≠ u) : A.eqObs B = none := by
  cases A <;> cases B <;> cases t <;> cases u <;>
    first | rfl | exact hA.elim | exact hB.elim | exact absurd rfl htu

/-- `is_zero` of a register is `log = 0` (P1 and P2 have order exactly r) -/
theorem observe_reg_is_zero {A : Reg} {t : Bool} {a : Fr} (hA : RegRel A (t, a)) :
    A.isZero = true ↔ a = 0 := by
  cases A with
  | p1 P => cases t with
    | true => exact observe_is_zero hA
    | false => exact hA.elim
  | p2 P => cases t with
    | true => exact hA.elim
    | false => exact observe_is_zero2 hA

/-- two G1 values with the same log: same affine coordinates, same three encodings -/
theorem observe_affine1 {P P' : G1} {d : Fr} (h : Rel1 P d) (h' : Rel1 P' d) :
    P.to_affine = P'.to_affine ∧ Api.g1ToSlice P = Api.g1ToSlice P' ∧
    Api.g1ToUncompressed P = Api.g1ToUncompressed P' ∧ Api.g1ToCompressed P = Api.g1ToCompressed P' := by
  have e : G1.toAff P = G1.toAff P' := by rw [h.2, h'.2]
  exact ⟨G1.to_affine_congr P P' h.1 h'.1 e, g1_to_slice_congr P P' h.1 h'.1 e,
    g1_to_uncompressed_congr P P' h.1 h'.1 e, g1_to_compressed_congr P P' h.1 h'.1 e⟩

/-- two G2 values with the same log: same affine coordinates, same three encodings -/
theorem observe_affine2 {Q Q' : G2} {d : Fr} (h : Rel2 Q d) (h' : Rel2 Q' d) :
    Q.to_affine = Q'.to_affine ∧ Api.g2ToSlice Q = Api.g2ToSlice Q' ∧
    Api.g2ToUncompressed Q = Api.g2ToUncompressed Q' ∧ Api.g2ToCompressed Q = Api.g2ToCompressed Q' := by
  have e : G2.toAff Q = G2.toAff Q' := by rw [h.2, h'.2]
  exact ⟨G2.to_affine_congr Q Q' h.1 h'.1 e, g2_to_slice_congr Q Q' h.1 h'.1 e,
    g2_to_uncompressed_congr Q Q' h.1 h'.1 e, g2_to_compressed_congr Q Q' h.1 h'.1 e⟩

/-- the three pairing entry points depend only on the logs of their operands -/
theorem observe_pairings {p p' : G1} {qv qv' : G2} {a b : Fr} (hp : Rel1 p a) (hp' : Rel1 p' a)
    (hq : Rel2 qv b) (hq' : Rel2 qv' b) :
    Api.pairing p qv = Api.pairing p' qv' ∧ Api.fast_pairing p qv = Api.fast_pairing p' qv' ∧
    (do let pr ← Api.prepare qv; Api.preparedPairing pr p) = (do let pr ← Api.prepare qv'; Api.preparedPairing pr p') := by
  have e1 := (observe_affine1 hp hp').1
  have e2 := (observe_affine2 hq hq').1
  exact ⟨pairing_congr p p' qv qv' e1 e2, fast_pairing_congr p p' qv qv' e1 e2,
    prepared_pairing_congr p p' qv qv' e1 e2⟩

/-- in particular every value is observationally identical to the freshly computed `[d]P1`, `[d]P2` -/
theorem observe_pairings_fresh {p : G1} {qv : G2} {a b : Fr} (hp : Rel1 p a) (hq : Rel2 qv b) :
    Api.pairing p qv = Api.pairing ((G.one : G1).mul a) ((G.one : G2).mul b) ∧
    Api.fast_pairing p qv = Api.fast_pairing ((G.one : G1).mul a) ((G.one : G2).mul b) ∧
    (do let pr ← Api.prepare qv; Api.preparedPairing pr p)
      = (do let pr ← Api.prepare ((G.one : G2).mul b); Api.preparedPairing pr ((G.one : G1).mul a)) :=
  observe_pairings hp (rel1_fresh a) hq (rel2_fresh b)

/-! the operands of the driver's pairing observation: the last register of each group -/

def OptRel1 : Option G1 → Option Fr → Prop
  | some P, some a => Rel1 P a
  | none, none => True
  | _, _ => False
def OptRel2 : Option G2 → Option Fr → Prop
  | some Q, some b => Rel2 Q b
  | none, none => True
  | _, _ => False

theorem lastOf_foldl_rel {regs : List Reg} {ds : List (Bool × Fr)} (h : List.Forall₂ RegRel regs ds) :
    ∀ (acc : Option G1 × Option G2) (aacc : Option Fr × Option Fr),
      OptRel1 acc.1 aacc.1 → OptRel2 acc.2 aacc.2 →
      OptRel1 (regs.foldl (fun (acc : Option G1 × Option G2) rg =>
          match rg with
          | .p1 p => (some p, acc.2)
          | .p2 p => (acc.1, some p)) acc).1
        (ds.foldl (fun (acc : Option Fr × Option Fr) x =>
          if x.1 then (some x.2, acc.2) else (acc.1, some x.2)) aacc).1 ∧
      OptRel2 (regs.foldl (fun (acc : Option G1 × Option G2) rg =>
          match rg with
          | .p1 p => (some p, acc.2)
          | .p2 p => (acc.1, some p)) acc).2
        (ds.foldl (fun (acc : Option Fr × Option Fr) x =>
          if x.1 then (some x.2, acc.2) else (acc.1, some x.2)) aacc).2 := by
  induction h with
  | nil => intro acc aacc h1 h2; exact ⟨h1, h2⟩
  | @cons R e regs ds hr _ ih =>
    intro acc aacc h1 h2
    simp only [List.foldl_cons]
    obtain ⟨t, d⟩ := e
    cases R with
    | p1 P => cases t with
      | true => exact ih (some P, acc.2) (some d, aacc.2) hr h2
      | false => exact hr.elim
    | p2 Q => cases t with
      | true => exact hr.elim
      | false => exact ih (acc.1, some Q) (aacc.1, some d) h1 hr

/-- the last G1 / G2 registers denote the last G1 / G2 logs of the abstract machine -/
theorem lastOf_rel {regs : List Reg} {ds : List (Bool × Fr)} (h : List.Forall₂ RegRel regs ds) :
    OptRel1 (lastOf regs).1 (alastOf ds).1 ∧ OptRel2 (lastOf regs).2 (alastOf ds).2 :=
  lastOf_foldl_rel h (none, none) (none, none) trivial trivial

/-! ## non-vacuity -/

/-- the side condition can be read off any normal-form representative of `d • P2` -/
theorem reYNonzero_of_rel {Q : G2} {d : Fr} (hQ : Rel2 Q d) (hz : Q.z = 1) (hy : Q.y.c0 ≠ 0) : ReYNonzero d := by
  intro x y h e
  obtain ⟨hv, ht⟩ := hQ
  have hz0 : Q.z ≠ 0 := by rw [hz]; exact Fq2.one_ne_zero_fq2
  rw [G2.toAff_some Q hz0 (hv.resolve_left hz0)] at ht
  have hy2 := (Affine.Point.some.inj (ht.trans e)).2
  rw [← hy2, hz, one_pow, div_one]
  exact hy

/-- … hence it is decided, for a concrete `d`, by one kernel evaluation of `[d]P2` -/
theorem reYNonzero_of_compute (d : Fr) (hz : (Api.normalize ((G.one : G2).mul d)).z = 1)
    (hy : (Api.normalize ((G.one : G2).mul d)).y.c0 ≠ 0) : ReYNonzero d :=
  reYNonzero_of_rel (rel2_normalize (rel2_fresh d)) hz hy

/-- the generator P2 itself satisfies the side condition -/
theorem reYNonzero_one : ReYNonzero 1 :=
  reYNonzero_of_rel rel2_one rfl (by decide +kernel)

example : ReYNonzero (Fr.ofNat 2) := reYNonzero_of_compute _ (by decide +kernel) (by decide +kernel)

/-- a program over both groups with all three round trips, including the compressed round trip
    of P2 (allowed: `ReYNonzero 1`) and of the G2 identity -/
example : G2CompressedSafe [.one1, .one2, .zero2, .encdec 1 .compressed, .encdec 2 .compressed,
    .encdec 0 .compressed, .add 1 3, .encdec 6 .slice, .sub 0 5] := by
  refine ⟨trivial, fun _ h => ?_⟩
  obtain rfl := Option.some.inj h
  refine ⟨trivial, fun _ h => ?_⟩
  obtain rfl := Option.some.inj h
  refine ⟨trivial, fun _ h => ?_⟩
  obtain rfl := Option.some.inj h
  refine ⟨fun d hd => ?_, fun _ h => ?_⟩
  · rw [show d = 1 from (Prod.mk.inj (Option.some.inj hd)).2.symm]; exact reYNonzero_one
  obtain rfl := Option.some.inj h
  refine ⟨fun d hd => ?_, fun _ h => ?_⟩
  · rw [show d = 0 from (Prod.mk.inj (Option.some.inj hd)).2.symm]; exact reYNonzero_zero
  obtain rfl := Option.some.inj h
  refine ⟨fun d hd => (nomatch hd), fun _ h => ?_⟩
  obtain rfl := Option.some.inj h
  refine ⟨trivial, fun _ h => ?_⟩
  obtain rfl := Option.some.inj h
  refine ⟨trivial, fun _ h => ?_⟩
  obtain rfl := Option.some.inj h
  exact ⟨trivial, fun _ _ => trivial⟩

example : NoG2Compressed [.one1, .one2, .zero2, .encdec 2 .compressed, .encdec 0 .compressed,
    .encdec 1 .uncompressed, .add 1 5, .mul 6 (Fr.ofNat 7), .affine 7] := by decide

end Sm9
