import Sm9.Proofs.FqField
import Sm9.Model.Api
/-!
# Identity inputs short-circuit to one in every pairing entry point
-/
namespace Sm9

theorem Fq2.is_zero_zero : (Fq2.zero).is_zero = true := by decide +kernel

/-- `to_affine` is `none` exactly on z = 0 (G1) -/
theorem G1.to_affine_none_of_z (p : G1) (h : p.z = 0) : p.to_affine = none := by
  unfold G.to_affine
  have : FieldElement.is_zero p.z = true := by
    show Fq.is_zero p.z = true
    rw [Fq.is_zero_iff]; exact h
  simp [this]

theorem G2.to_affine_none_of_z (p : G2) (h : p.z = Fq2.zero) : p.to_affine = none := by
  unfold G.to_affine
  have : FieldElement.is_zero p.z = true := by
    show Fq2.is_zero p.z = true
    rw [h]; exact Fq2.is_zero_zero
  simp [this]

theorem normalize_of_none {F} [FieldElement F] (p : G F) (h : p.to_affine = none) : Api.normalize p = p := by
  unfold Api.normalize; rw [h]

/-- final exponentiation of one is one (both chains), by evaluation of the model -/
theorem final_exp_one : Fq12.one.final_exp = .ok (some Fq12.one) := by decide +kernel
theorem final_exponentiation_one : Fq12.one.final_exponentiation = .ok (some Fq12.one) := by decide +kernel

theorem pairing_left_identity (p : G1) (qv : G2) (h : p.z = 0) : Api.pairing p qv = .ok Fq12.one := by
  unfold Api.pairing Pairings.pairing
  rw [G1.to_affine_none_of_z p h]

theorem pairing_right_identity (p : G1) (qv : G2) (h : qv.z = Fq2.zero) : Api.pairing p qv = .ok Fq12.one := by
  unfold Api.pairing Pairings.pairing
  rw [G2.to_affine_none_of_z qv h]
  cases p.to_affine <;> rfl

end Sm9

namespace Sm9

/-- the Frobenius constant (π₁, 0) is invertible: `q_power_frobenius(&frob).unwrap()` cannot panic -/
theorem frob_norm_inverse_some :
    ((Fq2.new pi1 0).c0.squared + (Fq2.new pi1 0).c1.squared.double).inverse.isSome = true := by decide +kernel
theorem frob_inverse_some : ((Fq2.new pi1 0).inverse).isSome = true := by
  unfold Fq2.inverse
  simp only [Option.isSome_map]
  exact frob_norm_inverse_some

theorem q_power_frobenius_some (a : G2) : ∃ b, G2m.q_power_frobenius a (Fq2.new pi1 0) = some b := by
  unfold G2m.q_power_frobenius
  have h := frob_inverse_some
  cases hinv : (Fq2.new pi1 0).inverse with
  | none => rw [hinv] at h; cases h
  | some r => exact ⟨_, rfl⟩

/-- `G2Prepared::from` never panics, for any input whatsoever -/
theorem prepTail_ok (g2 : G2) (st : G2 × List (Fq2 × Fq2 × Fq2)) : ∃ pr, G2Prepared.prepTail g2 st = .ok pr := by
  unfold G2Prepared.prepTail
  obtain ⟨ka, hka⟩ := q_power_frobenius_some g2
  obtain ⟨ka2, hka2⟩ := q_power_frobenius_some ka
  rw [hka]
  simp only [hka2]
  exact ⟨_, rfl⟩

theorem prepared_from_ok (g2 : G2) : ∃ pr, G2Prepared.from_ g2 = .ok pr := by
  unfold G2Prepared.from_
  split
  · exact ⟨_, rfl⟩
  · exact prepTail_ok g2 _

theorem prepared_from_zero (g2 : G2) (h : g2.z = Fq2.zero) : G2Prepared.from_ g2 = .ok { coeffs := [] } := by
  unfold G2Prepared.from_
  have : g2.is_zero = true := by
    show Fq2.is_zero g2.z = true
    rw [h]; exact Fq2.is_zero_zero
  simp [this]

theorem miller_loop_identity_left (pr : G2Prepared) (p : G1) (h : p.z = 0) :
    pr.miller_loop p = .ok Fq12.one := by
  unfold G2Prepared.miller_loop
  have : p.is_zero = true := by
    show Fq.is_zero p.z = true
    rw [Fq.is_zero_iff]; exact h
  simp [this]

theorem miller_loop_identity_right (p : G1) : ({ coeffs := [] } : G2Prepared).miller_loop p = .ok Fq12.one := by
  unfold G2Prepared.miller_loop
  simp

theorem fast_pairing_left_identity (p : G1) (qv : G2) (h : p.z = 0) : Api.fast_pairing p qv = .ok Fq12.one := by
  unfold Api.fast_pairing Pairings.fast_pairing
  rw [normalize_of_none p (G1.to_affine_none_of_z p h)]
  obtain ⟨pr, hpr⟩ := prepared_from_ok (Api.normalize qv)
  simp only [hpr, bind, Outcome.bind, miller_loop_identity_left pr p h, final_exp_one, Outcome.unwrap]

theorem fast_pairing_right_identity (p : G1) (qv : G2) (h : qv.z = Fq2.zero) : Api.fast_pairing p qv = .ok Fq12.one := by
  unfold Api.fast_pairing Pairings.fast_pairing
  rw [normalize_of_none qv (G2.to_affine_none_of_z qv h), prepared_from_zero qv h]
  simp only [bind, Outcome.bind, miller_loop_identity_right, final_exp_one, Outcome.unwrap]

theorem prepared_pairing_left_identity (p : G1) (qv : G2) (h : p.z = 0) :
    (do let pr ← Api.prepare qv; Api.preparedPairing pr p) = .ok Fq12.one := by
  unfold Api.prepare Api.preparedPairing
  obtain ⟨pr, hpr⟩ := prepared_from_ok (Api.normalize qv)
  rw [normalize_of_none p (G1.to_affine_none_of_z p h)]
  simp only [hpr, bind, Outcome.bind, miller_loop_identity_left pr p h, final_exp_one, Outcome.unwrap]

theorem prepared_pairing_right_identity (p : G1) (qv : G2) (h : qv.z = Fq2.zero) :
    (do let pr ← Api.prepare qv; Api.preparedPairing pr p) = .ok Fq12.one := by
  unfold Api.prepare Api.preparedPairing
  rw [normalize_of_none qv (G2.to_affine_none_of_z qv h), prepared_from_zero qv h]
  simp only [bind, Outcome.bind, miller_loop_identity_right, final_exp_one, Outcome.unwrap]

end Sm9
