import Sm9.Proofs.Frobenius
import Sm9.Model.Pairings
/-!
# `Fq12::pow(u128)` and the final exponentiation

* `Fq12.pow_u128_eq` — the two-`while` square-and-multiply of `pairings.rs` computes `x ^ e`
  for every `e < 2¹²⁸` (fuel 128 suffices).
* `Fq12.final_exponentiation_eq_pow`, `Fq12.final_exp_eq_pow` — both final exponentiations
  (easy part followed by either hard-part addition chain) never panic on a non-zero input and
  return `x ^ ((q¹² − 1) / r)`.  Every intermediate value is an integer power of `x`
  (Frobenius theorems, inverse correctness); the exponent of each chain is an explicit integer
  expression in `q` and the extracted constants, congruent to `(q¹² − 1)/r` modulo `q¹² − 1`
  by a kernel computation; Lagrange (`Fq12.pow_card_sub_one`) finishes.
-/
namespace Sm9

set_option maxRecDepth 100000

namespace Fq12

/-! ## `pow(u128)` -/

theorem powStrip_spec (fuel : Nat) (base : Fq12) (e : Nat) :
    (powStrip fuel base e).1 ^ (powStrip fuel base e).2 = base ^ e ∧
    (e ≠ 0 → e < 2 ^ fuel → (powStrip fuel base e).2 % 2 = 1) ∧
    (powStrip fuel base e).2 ≤ e := by
  induction fuel generalizing base e with
  | zero =>
    refine ⟨rfl, ?_, le_refl _⟩
    intro h0 h1; simp at h1; exact absurd h1 h0
  | succ fuel ih =>
    unfold powStrip
    by_cases h : e % 2 = 0
    · have hb : (e % 2 == 0) = true := by simp [h]
      rw [if_pos hb]
      obtain ⟨i1, i2, i3⟩ := ih base.squared (e / 2)
      refine ⟨?_, ?_, ?_⟩
      · rw [i1, squared_eq_mul, ← pow_two, ← pow_mul]
        congr 1; omega
      · intro h0 h1
        apply i2
        · omega
        · rw [pow_succ] at h1; omega
      · omega
    · have hb : ¬ ((e % 2 == 0) = true) := by simp [h]
      rw [if_neg hb]
      refine ⟨rfl, ?_, le_refl _⟩
      intro _ _; show e % 2 = 1; omega

theorem powAcc_spec (fuel : Nat) (base acc : Fq12) (e : Nat) (he : e < 2 ^ fuel) :
    powAcc fuel base acc e = acc * base ^ (e - e % 2) := by
  induction fuel generalizing base acc e with
  | zero =>
    have : e = 0 := by simpa using he
    subst this
    simp [powAcc]
  | succ fuel ih =>
    unfold powAcc
    by_cases h : e > 1
    · rw [if_pos h]
      simp only
      have he2 : e / 2 < 2 ^ fuel := by rw [pow_succ] at he; omega
      rw [ih _ _ _ he2, squared_eq_mul, ← pow_two, ← pow_mul]
      by_cases h1 : e / 2 % 2 = 1
      · have hb : (e / 2 % 2 == 1) = true := by simp [h1]
        rw [if_pos hb, mul_assoc]
        congr 1
        rw [h1]
        have : base ^ 2 = base ^ (2 * 1) := by rw [mul_one]
        rw [this, ← pow_add]
        congr 1; omega
      · have hb : ¬ ((e / 2 % 2 == 1) = true) := by simp [h1]
        rw [if_neg hb]
        congr 2; omega
    · rw [if_neg h]
      have : e - e % 2 = 0 := by omega
      rw [this, pow_zero, mul_one]

/-- `Fq12::pow(&self, exp: u128)` is exponentiation, for every `u128` exponent -/
theorem pow_u128_eq (x : Fq12) (e : Nat) (he : e < 2 ^ 128) : x.pow_u128 e = x ^ e := by
  unfold pow_u128
  by_cases h0 : e = 0
  · subst h0; simp; rfl
  · have hb : ¬ ((e == 0) = true) := by simp [h0]
    rw [if_neg hb]
    obtain ⟨i1, i2, i3⟩ := powStrip_spec 128 x e
    have hodd := i2 h0 he
    generalize powStrip 128 x e = p at i1 i3 hodd
    obtain ⟨b, e'⟩ := p
    simp only at i1 i3 hodd ⊢
    by_cases h1 : e' = 1
    · have hb1 : (e' == 1) = true := by simp [h1]
      rw [if_pos hb1, ← i1, h1, pow_one]
    · have hb1 : ¬ ((e' == 1) = true) := by simp [h1]
      rw [if_neg hb1, powAcc_spec 128 b b e' (lt_of_le_of_lt i3 he), ← i1, ← pow_succ']
      congr 1; omega

example : (2 : Fq12).pow_u128 (2 ^ 128 - 1) = 2 ^ (2 ^ 128 - 1) := pow_u128_eq _ _ (by norm_num)

end Fq12

/-! ## Outcome plumbing -/
namespace Outcome
/- these three hold by `rfl`, but are deliberately *not* stated as `rfl`-lemmas: `simp` would then
   use them definitionally and leave the kernel to re-check large defeq problems around
   `y ^ (huge exponent)`; with an opaque proof term the kernel only matches instances
   syntactically. -/
theorem bind_ok {α β} (a : α) (f : α → Outcome β) : (Outcome.ok a >>= f) = f a :=
  id (Eq.refl (f a))
theorem unwrap_some {α} (a : α) : Outcome.unwrap (some a) = .ok a := id (Eq.refl _)
theorem pure_eq {α} (a : α) : (pure a : Outcome α) = .ok a := id (Eq.refl _)
end Outcome

namespace Fq12
open Consts

/-! ## every operation of the chains on integer powers of a fixed non-zero `y` -/
section zpow
variable {y : Fq12}

theorem z_mul (hy : y ≠ 0) (n m : ℤ) : y ^ n * y ^ m = y ^ (n + m) := (zpow_add₀ hy n m).symm
theorem z_sq (hy : y ≠ 0) (n : ℤ) : (y ^ n).squared = y ^ (2 * n) := by
  rw [squared_eq_mul, z_mul hy]; congr 1; ring
theorem z_inv (hy : y ≠ 0) (n : ℤ) : (y ^ n).inverse = some (y ^ (-n)) := by
  rw [inverse_eq_inv _ (zpow_ne_zero n hy), zpow_neg]
theorem z_pow (n : ℤ) (e : ℕ) (he : e < 2 ^ 128) : (y ^ n).pow_u128 e = y ^ (n * (e : ℤ)) := by
  rw [pow_u128_eq _ _ he, zpow_mul, zpow_natCast]
theorem z_frob1 (n : ℤ) : (y ^ n).frob1 = y ^ (n * (q : ℤ)) := by
  rw [frob1_eq_pow, zpow_mul, zpow_natCast]
theorem z_frob2 (n : ℤ) : (y ^ n).frob2 = y ^ (n * (q : ℤ) ^ 2) := by
  rw [frob2_eq_pow, zpow_mul, ← Nat.cast_pow, zpow_natCast]
theorem z_frob3 (n : ℤ) : (y ^ n).frob3 = y ^ (n * (q : ℤ) ^ 3) := by
  rw [frob3_eq_pow, zpow_mul, ← Nat.cast_pow, zpow_natCast]
theorem z_frob6 (n : ℤ) : (y ^ n).frob6 = y ^ (n * (q : ℤ) ^ 6) := by
  rw [frob6_eq_pow, zpow_mul, ← Nat.cast_pow, zpow_natCast]

theorem z_pow_A3 (n : ℤ) : (y ^ n).pow_u128 SM9_A3 = y ^ (n * (SM9_A3 : ℤ)) :=
  z_pow n _ (by decide +kernel)
theorem z_pow_A2 (n : ℤ) : (y ^ n).pow_u128 SM9_A2 = y ^ (n * (SM9_A2 : ℤ)) :=
  z_pow n _ (by decide +kernel)
theorem z_pow_NINE (n : ℤ) : (y ^ n).pow_u128 SM9_NINE = y ^ (n * (SM9_NINE : ℤ)) :=
  z_pow n _ (by decide +kernel)
theorem z_pow_S (n : ℤ) : (y ^ n).pow_u128 SM9_S = y ^ (n * (SM9_S : ℤ)) :=
  z_pow n _ (by decide +kernel)

end zpow

/-! ## exponents of the three pieces -/

/-- exponent of the easy part: `(q⁶ − 1)(q² + 1)` -/
def easyExp : ℤ := ((q : ℤ) ^ 6 - 1) * ((q : ℤ) ^ 2 + 1)

/-- exponent computed by the chain `final_exponentiation_last_chunk` -/
def hardExp1 : ℤ :=
  let Q : ℤ := q
  let A2 : ℤ := SM9_A2
  let A3 : ℤ := SM9_A3
  let N : ℤ := SM9_NINE
  Q ^ 3 + A2 * (Q ^ 2 + (2 * Q - A3 * (Q + 1))) + (4 + (N * (1 + Q) - A3 * (Q + 2)))

/-- exponent computed by the chain `final_exp_last_chunk` -/
def hardExp2 : ℤ :=
  let S : ℤ := SM9_S
  let Q : ℤ := q
  let t1 := -S
  let x3 := t1 * Q
  let x4 := t1
  let x0 := (Q ^ 2 + (1 + Q)) * Q
  let x5 := t1 * S
  let t1 := -x5
  let u := -(t1 * Q)
  let x4 := x4 + u
  let x2 := t1 * Q ^ 2
  let t0 := -(t1 * S)
  let t1 := t0 * Q
  let t0 := t0 + t1
  let t0 := 2 * t0
  let t0 := t0 + (x4 + x5)
  let t1 := x3 + x5
  let t1 := t1 + t0
  let t0 := t0 + x2
  let t1 := 2 * t1
  let t1 := t1 + t0
  let t1 := 2 * t1
  let t0 := t1 + Q ^ 6
  let t1 := t1 + x0
  let t0 := 2 * t0
  t0 + t1

theorem first_chunk_zpow {y : Fq12} (hy : y ≠ 0) (n : ℤ) :
    (y ^ n).final_exponentiation_first_chunk = some (y ^ (n * easyExp)) := by
  unfold final_exponentiation_first_chunk
  rw [z_inv hy]
  simp only [z_frob6, z_mul hy, z_frob2]
  congr 2
  unfold easyExp; ring

theorem last_chunk_zpow {y : Fq12} (hy : y ≠ 0) (n : ℤ) :
    (y ^ n).final_exponentiation_last_chunk = .ok (y ^ (n * hardExp1)) := by
  unfold final_exponentiation_last_chunk
  simp only [z_pow_A3, z_pow_A2, z_pow_NINE, z_inv hy, z_frob1, z_frob2, z_frob3,
    z_mul hy, z_sq hy, Outcome.unwrap_some, Outcome.bind_ok, Outcome.pure_eq]
  congr 2
  simp only [hardExp1]; ring

theorem last_chunk2_zpow {y : Fq12} (hy : y ≠ 0) (n : ℤ) :
    (y ^ n).final_exp_last_chunk = .ok (y ^ (n * hardExp2)) := by
  unfold final_exp_last_chunk
  simp only [z_pow_S, z_inv hy, z_frob1, z_frob2, z_frob6,
    z_mul hy, z_sq hy, Outcome.unwrap_some, Outcome.bind_ok, Outcome.pure_eq]
  congr 2
  simp only [hardExp2]; ring

/-! ## the exponent identities (kernel) -/

theorem r_dvd : r ∣ q ^ 12 - 1 := by decide +kernel

theorem exp1_congr :
    (easyExp * hardExp1 - (((q ^ 12 - 1) / r : ℕ) : ℤ)) % (((q ^ 12 - 1 : ℕ)) : ℤ) = 0 := by
  decide +kernel

theorem exp2_congr :
    (easyExp * hardExp2 - (((q ^ 12 - 1) / r : ℕ) : ℤ)) % (((q ^ 12 - 1 : ℕ)) : ℤ) = 0 := by
  decide +kernel

/-- exponents congruent modulo `q¹² − 1` give the same power of a non-zero element -/
theorem zpow_congr {y : Fq12} (hy : y ≠ 0) (E : ℤ) (T : ℕ)
    (h : (E - (T : ℤ)) % ((q ^ 12 - 1 : ℕ) : ℤ) = 0) : y ^ E = y ^ T := by
  obtain ⟨k, hk⟩ := Int.dvd_of_emod_eq_zero h
  have hE : E = (T : ℤ) + ((q ^ 12 - 1 : ℕ) : ℤ) * k := by rw [← hk]; ring
  rw [hE, zpow_add₀ hy, zpow_mul, zpow_natCast, zpow_natCast, pow_card_sub_one y hy, one_zpow,
    mul_one]

/-! ## main theorems -/

/-- `Fq12::final_exponentiation` (hard part: the `a2/a3/nine` chain) on a non-zero input does
    not panic and is exponentiation by `(q¹² − 1)/r` -/
theorem final_exponentiation_eq_pow (x : Fq12) (hx : x ≠ 0) :
    x.final_exponentiation = .ok (some (x ^ ((q ^ 12 - 1) / r))) := by
  have h1 := first_chunk_zpow hx 1
  rw [zpow_one, one_mul] at h1
  unfold final_exponentiation
  rw [h1]
  simp only
  rw [last_chunk_zpow hx]
  simp only [Outcome.bind_ok, Outcome.pure_eq]
  rw [zpow_congr hx _ _ exp1_congr]

/-- `Fq12::final_exp` (hard part: the `SM9_S` chain used by `fast_pairing`) on a non-zero input
    does not panic and is exponentiation by `(q¹² − 1)/r` -/
theorem final_exp_eq_pow (x : Fq12) (hx : x ≠ 0) :
    x.final_exp = .ok (some (x ^ ((q ^ 12 - 1) / r))) := by
  have h1 := first_chunk_zpow hx 1
  rw [zpow_one, one_mul] at h1
  unfold final_exp
  rw [h1]
  simp only
  rw [last_chunk2_zpow hx]
  simp only [Outcome.bind_ok, Outcome.pure_eq]
  rw [zpow_congr hx _ _ exp2_congr]

/-- the same, phrased with the model's own `FieldElement::pow` (`Gt::pow`) -/
theorem final_exp_eq_model_pow (x : Fq12) (hx : x ≠ 0) :
    x.final_exp = .ok (some (FieldElement.pow x ((q ^ 12 - 1) / r))) := by
  rw [Fq12.pow_eq]; exact final_exp_eq_pow x hx

example : (1 : Fq12).final_exp = .ok (some 1) := by
  rw [final_exp_eq_pow 1 one_ne_zero, one_pow]

/-- on zero both return `None` without panicking -/
theorem final_exponentiation_zero : (0 : Fq12).final_exponentiation = .ok none := by
  unfold final_exponentiation final_exponentiation_first_chunk
  rw [inverse_zero]
theorem final_exp_zero : (0 : Fq12).final_exp = .ok none := by
  unfold final_exp final_exponentiation_first_chunk
  rw [inverse_zero]

/-- the two final exponentiations agree on every input -/
theorem final_exp_eq_final_exponentiation (x : Fq12) : x.final_exp = x.final_exponentiation := by
  by_cases hx : x = 0
  · subst hx; rw [final_exp_zero, final_exponentiation_zero]
  · rw [final_exp_eq_pow x hx, final_exponentiation_eq_pow x hx]

end Fq12

end Sm9
