import Sm9.Proofs.TowerField
import Mathlib.Algebra.CharP.Lemmas
import Mathlib.Algebra.CharP.Algebra
import Mathlib.Algebra.CharP.Basic
/-!
# The coded Frobenius maps are the `q^k`-power maps

`Fq12 = Fq[w]/(w¹² + 2)` with `u = w⁶`, `v = w³`.  Every element is `Σ ι(eᵢ) wⁱ` (`decomp`).
In characteristic `q` the map `x ↦ x^(q^k)` is a ring homomorphism fixing `ι(Fq)` and sending
`w ↦ ι(α₁ᵏ) w`, where `α₁ = (−2)^((q−1)/12)` is the coded constant (`alpha1_eq`), because
`w^q = (w¹²)^((q−1)/12) · w`.  Hence `x^(q^k) = twist (α₁ᵏ) x`, and the coded `frobK` is
`twist (α₁ᵏ)` by twelve facts about the coded constants checked in the kernel.
-/
namespace Sm9

set_option maxRecDepth 100000

instance : CharP Fq q := Fin.charP q

namespace Fq12

/-- the embedding of the prime field -/
def ofFq : Fq →+* Fq12 where
  toFun a := ⟨⟨⟨a, 0⟩, 0⟩, 0, 0⟩
  map_one' := rfl
  map_zero' := rfl
  map_mul' := by intros; ext <;> simp
  map_add' := by intros; ext <;> simp

/-- the generator `w` with `w³ = v` -/
def w : Fq12 := ⟨0, 1, 0⟩

theorem ofFq_apply (a : Fq) : ofFq a = ⟨⟨⟨a, 0⟩, 0⟩, 0, 0⟩ := rfl

theorem ofFq_injective : Function.Injective ofFq := by
  intro a b h
  have := congrArg (fun x : Fq12 => x.c0.c0.c0) h
  exact this

instance : CharP Fq12 q := charP_of_injective_ringHom ofFq_injective q

theorem w_pow2 : w ^ 2 = ⟨0, 0, 1⟩ := by decide +kernel
theorem w_pow3 : w ^ 3 = ⟨⟨0, 1⟩, 0, 0⟩ := by decide +kernel
theorem w_pow4 : w ^ 4 = ⟨0, ⟨0, 1⟩, 0⟩ := by decide +kernel
theorem w_pow5 : w ^ 5 = ⟨0, 0, ⟨0, 1⟩⟩ := by decide +kernel
theorem w_pow6 : w ^ 6 = ⟨⟨⟨0, 1⟩, 0⟩, 0, 0⟩ := by decide +kernel
theorem w_pow7 : w ^ 7 = ⟨0, ⟨⟨0, 1⟩, 0⟩, 0⟩ := by decide +kernel
theorem w_pow8 : w ^ 8 = ⟨0, 0, ⟨⟨0, 1⟩, 0⟩⟩ := by decide +kernel
theorem w_pow9 : w ^ 9 = ⟨⟨0, ⟨0, 1⟩⟩, 0, 0⟩ := by decide +kernel
theorem w_pow10 : w ^ 10 = ⟨0, ⟨0, ⟨0, 1⟩⟩, 0⟩ := by decide +kernel
theorem w_pow11 : w ^ 11 = ⟨0, 0, ⟨0, ⟨0, 1⟩⟩⟩ := by decide +kernel
theorem w_pow12 : w ^ 12 = ofFq nr := by decide +kernel

/-- coordinates with respect to the basis `1, w, …, w¹¹` -/
theorem decomp (x : Fq12) :
    x = ofFq x.c0.c0.c0 + ofFq x.c1.c0.c0 * w + ofFq x.c2.c0.c0 * w ^ 2
      + ofFq x.c0.c1.c0 * w ^ 3 + ofFq x.c1.c1.c0 * w ^ 4 + ofFq x.c2.c1.c0 * w ^ 5
      + ofFq x.c0.c0.c1 * w ^ 6 + ofFq x.c1.c0.c1 * w ^ 7 + ofFq x.c2.c0.c1 * w ^ 8
      + ofFq x.c0.c1.c1 * w ^ 9 + ofFq x.c1.c1.c1 * w ^ 10 + ofFq x.c2.c1.c1 * w ^ 11 := by
  rw [w_pow2, w_pow3, w_pow4, w_pow5, w_pow6, w_pow7, w_pow8, w_pow9, w_pow10, w_pow11]
  ext <;> simp [ofFq_apply, w, Fq4.v]

/-- the `Fq`-linear map multiplying the coefficient of `wⁱ` by `cⁱ` -/
noncomputable def twist (c : Fq) (x : Fq12) : Fq12 :=
  ⟨⟨⟨x.c0.c0.c0, x.c0.c0.c1 * c ^ 6⟩, ⟨x.c0.c1.c0 * c ^ 3, x.c0.c1.c1 * c ^ 9⟩⟩,
   ⟨⟨x.c1.c0.c0 * c, x.c1.c0.c1 * c ^ 7⟩, ⟨x.c1.c1.c0 * c ^ 4, x.c1.c1.c1 * c ^ 10⟩⟩,
   ⟨⟨x.c2.c0.c0 * c ^ 2, x.c2.c0.c1 * c ^ 8⟩, ⟨x.c2.c1.c0 * c ^ 5, x.c2.c1.c1 * c ^ 11⟩⟩⟩

theorem ofFq_mul (a b : Fq) : ofFq (a * b) = ofFq a * ofFq b := map_mul ofFq a b
theorem ofFq_pow (a : Fq) (n : Nat) : ofFq (a ^ n) = ofFq a ^ n := map_pow ofFq a n

/-- a ring endomorphism fixing `Fq` and scaling `w` by `c` is `twist c` -/
theorem ringHom_eq_twist (φ : Fq12 →+* Fq12) (c : Fq) (hι : ∀ a, φ (ofFq a) = ofFq a)
    (hw : φ w = ofFq c * w) (x : Fq12) : φ x = twist c x := by
  conv_lhs => rw [decomp x]
  rw [decomp (twist c x)]
  simp only [map_add, map_mul, map_pow, hι, hw, twist, mul_pow, ofFq_mul]
  ring

end Fq12

/-! ## the power maps -/

theorem Fq.pow_q_pow (a : Fq) (k : Nat) : a ^ q ^ k = a := by
  have := FiniteField.pow_card_pow k a
  rwa [Fq.card] at this

theorem q_sub_one_twelfth : 12 * ((q - 1) / 12) + 1 = q := by decide +kernel

namespace Fq12

theorem w_pow_q : w ^ q = ofFq Fq4.alpha1 * w := by
  conv_lhs => rw [← q_sub_one_twelfth]
  rw [pow_succ, pow_mul, w_pow12, ← map_pow, ← Fq.pow_eq, show (q - 1) / 12 = (Consts.FQ - 1) / 12 from rfl,
    ← alpha1_eq]

theorem w_pow_q_pow (k : Nat) : w ^ q ^ k = ofFq (Fq4.alpha1 ^ k) * w := by
  induction k with
  | zero => simp
  | succ k ih =>
    rw [pow_succ, pow_mul, ih, mul_pow, w_pow_q, ← map_pow]
    have h : (Fq4.alpha1 ^ k) ^ q = Fq4.alpha1 ^ k := by
      simpa using Fq.pow_q_pow (Fq4.alpha1 ^ k) 1
    rw [h, ← mul_assoc, ← map_mul, pow_succ]


/-- the `q^k`-power map in coordinates -/
theorem pow_q_pow_eq_twist (x : Fq12) (k : Nat) : x ^ q ^ k = twist (Fq4.alpha1 ^ k) x := by
  have h := ringHom_eq_twist (iterateFrobenius Fq12 q k) (Fq4.alpha1 ^ k)
    (fun a => by rw [iterateFrobenius_def, ← map_pow, Fq.pow_q_pow])
    (by rw [iterateFrobenius_def, w_pow_q_pow]) x
  rwa [iterateFrobenius_def] at h

/-! ## the coded constants -/

theorem consts1 :
    Fq4.alpha1 ^ 2 = Fq4.alpha2 ∧ Fq4.alpha1 ^ 3 = Fq4.alpha3 ∧ Fq4.alpha1 ^ 4 = Fq4.alpha4 ∧
    Fq4.alpha1 ^ 5 = Fq4.alpha5 ∧ Fq4.alpha1 ^ 6 = -1 ∧ Fq4.alpha1 ^ 7 = -Fq4.alpha1 ∧
    Fq4.alpha1 ^ 8 = -Fq4.alpha2 ∧ Fq4.alpha1 ^ 9 = -Fq4.alpha3 ∧ Fq4.alpha1 ^ 10 = -Fq4.alpha4 ∧
    Fq4.alpha1 ^ 11 = -Fq4.alpha5 := by decide +kernel

theorem consts2 :
    Fq4.alpha1 ^ 2 = Fq4.alpha2 ∧
    Fq4.alpha2 ^ 2 = Fq4.alpha4 ∧ Fq4.alpha2 ^ 3 = -1 ∧ Fq4.alpha2 ^ 4 = -Fq4.alpha2 ∧
    Fq4.alpha2 ^ 5 = -Fq4.alpha4 ∧ Fq4.alpha2 ^ 6 = 1 ∧ Fq4.alpha2 ^ 7 = Fq4.alpha2 ∧
    Fq4.alpha2 ^ 8 = Fq4.alpha4 ∧ Fq4.alpha2 ^ 9 = -1 ∧ Fq4.alpha2 ^ 10 = -Fq4.alpha2 ∧
    Fq4.alpha2 ^ 11 = -Fq4.alpha4 := by decide +kernel

theorem consts3 :
    Fq4.alpha1 ^ 3 = Fq4.beta ∧
    Fq4.beta ^ 2 = -1 ∧ Fq4.beta ^ 3 = -Fq4.beta ∧ Fq4.beta ^ 4 = 1 ∧
    Fq4.beta ^ 5 = Fq4.beta ∧ Fq4.beta ^ 6 = -1 ∧ Fq4.beta ^ 7 = -Fq4.beta ∧
    Fq4.beta ^ 8 = 1 ∧ Fq4.beta ^ 9 = Fq4.beta ∧ Fq4.beta ^ 10 = -1 ∧
    Fq4.beta ^ 11 = -Fq4.beta := by decide +kernel

theorem consts6 : Fq4.alpha1 ^ 6 = -1 := by decide +kernel

theorem frob1_eq_twist (x : Fq12) : x.frob1 = twist (Fq4.alpha1 ^ 1) x := by
  obtain ⟨h2, h3, h4, h5, h6, h7, h8, h9, h10, h11⟩ := consts1
  rw [pow_one]
  ext <;> simp [frob1, Fq4.frob10, Fq4.frob11, Fq4.frob12, Fq2.unitary_inverse, Fq2.scale, twist,
    h2, h3, h4, h5, h6, h7, h8, h9, h10, h11] <;> ring

theorem frob2_eq_twist (x : Fq12) : x.frob2 = twist (Fq4.alpha1 ^ 2) x := by
  obtain ⟨h1, h2, h3, h4, h5, h6, h7, h8, h9, h10, h11⟩ := consts2
  rw [h1]
  ext <;> simp [frob2, Fq4.frob21, Fq4.frob22, Fq4.unitary_inverse, Fq4.scale_fq, Fq2.scale, twist,
    h2, h3, h4, h5, h6, h7, h8, h9, h10, h11] <;> ring

theorem frob30_eq (a : Fq4) :
    a.frob30 = ⟨a.c0.unitary_inverse, -(a.c1.unitary_inverse.scale Fq4.beta)⟩ := by
  rw [Fq2.scale_eq]; rfl
theorem frob31_eq (a : Fq4) :
    a.frob31 = ⟨a.c0.unitary_inverse.scale Fq4.beta, a.c1.unitary_inverse⟩ := by
  rw [Fq2.scale_eq]; rfl
theorem frob32_eq (a : Fq4) :
    a.frob32 = ⟨-a.c0.unitary_inverse, a.c1.unitary_inverse.scale Fq4.beta⟩ := by
  rw [Fq2.scale_eq]; rfl

theorem frob3_eq_twist (x : Fq12) : x.frob3 = twist (Fq4.alpha1 ^ 3) x := by
  obtain ⟨h1, h2, h3, h4, h5, h6, h7, h8, h9, h10, h11⟩ := consts3
  rw [h1]
  ext <;> simp [frob3, frob30_eq, frob31_eq, frob32_eq, Fq2.unitary_inverse, Fq2.scale, twist,
    h2, h3, h4, h5, h6, h7, h8, h9, h10, h11] <;> ring

theorem frob6_eq_twist (x : Fq12) : x.frob6 = twist (Fq4.alpha1 ^ 6) x := by
  rw [consts6]
  ext <;> simp [frob6, Fq4.unitary_inverse, twist] <;> ring

/-! ## main theorems -/

/-- `Fq12::frobenius_map(1)` is `x ↦ x^q` -/
theorem frob1_eq_pow (x : Fq12) : x.frob1 = x ^ q := by
  rw [frob1_eq_twist, ← pow_q_pow_eq_twist, pow_one]
/-- `Fq12::frobenius_map(2)` is `x ↦ x^(q²)` -/
theorem frob2_eq_pow (x : Fq12) : x.frob2 = x ^ q ^ 2 := by
  rw [frob2_eq_twist, ← pow_q_pow_eq_twist]
/-- `Fq12::frobenius_map(3)` is `x ↦ x^(q³)` -/
theorem frob3_eq_pow (x : Fq12) : x.frob3 = x ^ q ^ 3 := by
  rw [frob3_eq_twist, ← pow_q_pow_eq_twist]
/-- `Fq12::frobenius_map(6)` is `x ↦ x^(q⁶)` -/
theorem frob6_eq_pow (x : Fq12) : x.frob6 = x ^ q ^ 6 := by
  rw [frob6_eq_twist, ← pow_q_pow_eq_twist]

/-- every supported arm of `Fq12::frobenius_map` -/
theorem frobenius_map_eq_pow (x : Fq12) (k : Nat) (hk : k = 1 ∨ k = 2 ∨ k = 3 ∨ k = 6) :
    x.frobenius_map k = .ok (x ^ q ^ k) := by
  rcases hk with rfl | rfl | rfl | rfl
  · simp only [frobenius_map, frob1_eq_pow, pow_one]
  · simp only [frobenius_map, frob2_eq_pow]
  · simp only [frobenius_map, frob3_eq_pow]
  · simp only [frobenius_map, frob6_eq_pow]

end Fq12

end Sm9
