import Sm9.Model.Mont
import Sm9.Proofs.MontBasic
import Sm9.Proofs.MontMul
import Mathlib.Tactic.Ring
import Mathlib.Tactic.Linarith
/-!
# `U512::divrem` (u512.rs): the bitwise long division is Euclidean division

For every 512-bit dividend `n` and every modulus `0 < m < 2^256`:

* the remainder returned is `n % m`,
* the quotient returned is `Some (n / m)` exactly when `n / m < m` (and fits 256 bits), `None` otherwise,
* the `debug_assert!(q.is_none() || self == U512::new(q, r, m))` holds (including the inner
  `debug_assert!(!carry)` of `U512::new`).

Loop invariant (`Inv`), after the iteration for bit index `i` (bits are processed from the top):
with `N = n / 2^i` (the bits of `n` at index `≥ i`), `r = N % m` and
`q = Some (2^i · (N / m))` if that number fits 256 bits, `None` otherwise (a quotient bit of index
`≥ 256` was needed).  The carry out of `r.mul2()` is modelled exactly: `2r + bit` may exceed
`2^256` when `m > 2^255`, and the code then subtracts `m` modulo `2^256`, which is exact.
-/
set_option exponentiation.threshold 1024

namespace Sm9
namespace U512

/-! ## bit-level facts about `U256::set_bit` -/

theorem W256_pow : W256 = 2 ^ 256 := rfl

theorem set_bit0_even (x : Nat) (b : Bool) (hx : x < W256) (he : x % 2 = 0) :
    (U256.set_bit x 0 b).1 = x + b.toNat := by
  unfold U256.set_bit
  rw [if_neg (by omega)]
  cases b
  · simp only [Bool.false_eq_true, if_false, Nat.one_shiftLeft, pow_zero, Bool.toNat_false, add_zero]
    -- x &&& (W256 - 2) = x
    have h2 : W256 - 1 - 1 = 2 * (2 ^ 255 - 1) := by rw [U256.W256_eq]; decide +kernel
    have hd : (x &&& (W256 - 1 - 1)) / 2 = x / 2 := by
      rw [Nat.and_div_two, h2, Nat.mul_div_cancel_left _ (by decide : 0 < 2),
        Nat.and_two_pow_sub_one_eq_mod]
      apply Nat.mod_eq_of_lt
      rw [U256.W256_eq] at hx
      have : (2:Nat) ^ 255 = 57896044618658097711785492504343953926634992332820282019728792003956564819968 := by
        decide +kernel
      omega
    have hm : (x &&& (W256 - 1 - 1)) % 2 = 0 := by
      have := @Nat.and_mod_two_pow x (W256 - 1 - 1) 1
      rw [pow_one] at this
      rw [this, he, Nat.zero_and]
    omega
  · simp only [if_true, Nat.one_shiftLeft, pow_zero, Bool.toNat_true]
    exact U256.even_or_bit x 1 he (by decide)

theorem set_bit_true_lt (qv i : Nat) (hi : i < 256) :
    U256.set_bit qv i true = (qv ||| 2 ^ i, true) := by
  unfold U256.set_bit
  rw [if_neg (by omega)]
  simp [Nat.one_shiftLeft]

theorem set_bit_ge (qv i : Nat) (b : Bool) (hi : 256 ≤ i) :
    U256.set_bit qv i b = (qv, false) := by
  unfold U256.set_bit
  rw [if_pos hi]

/-! ## one loop iteration in exact arithmetic -/

/-- one iteration on exact integers: `t = 2r + bit`, subtract `m` once if `t ≥ m` -/
theorem divStep_eq (n m r i : Nat) (q : Option Nat) (hm : m < W256) (hr : r < m) :
    divStep n m (q, r) i =
      (if m ≤ 2 * r + (n.testBit i).toNat then
        (match q with
          | none => none
          | some qv => if i < 256 then some (qv ||| 2 ^ i) else none,
         2 * r + (n.testBit i).toNat - m)
       else (q, 2 * r + (n.testBit i).toNat)) := by
  have hb : (n.testBit i).toNat < 2 := Bool.toNat_lt _
  generalize hbb : n.testBit i = b at hb
  have hW : W256 = 115792089237316195423570985008687907853269984665640564039457584007913129639936 :=
    U256.W256_eq
  -- the doubled value
  have hlt : (2 * r) % W256 < W256 := Nat.mod_lt _ (by rw [hW]; omega)
  have hev : (2 * r) % W256 % 2 = 0 := by rw [hW]; omega
  have hset := set_bit0_even ((2 * r) % W256) b hlt hev
  unfold divStep
  simp only [Big.mul2, Big.get_bit, hbb, Big.sub_with_borrow]
  rw [hset]
  rw [hW] at hm ⊢
  by_cases hc : 2 * r ≥ 115792089237316195423570985008687907853269984665640564039457584007913129639936
  · have h1 : m ≤ 2 * r + b.toNat := by omega
    simp only [hc, decide_true, Bool.or_true, if_true, h1]
    congr 1
    · cases q with
      | none => rfl
      | some qv =>
        by_cases hi : i < 256
        · simp only [set_bit_true_lt qv i hi, if_true, hi]
        · simp only [set_bit_ge qv i true (by omega), hi, if_false]; rfl
    · omega
  · simp only [hc, decide_false, Bool.or_false]
    have hs : (2 * r) % 115792089237316195423570985008687907853269984665640564039457584007913129639936 = 2 * r := by
      omega
    rw [hs]
    by_cases h1 : m ≤ 2 * r + b.toNat
    · simp only [ge_iff_le, h1, decide_true, if_true]
      congr 1
      · cases q with
        | none => rfl
        | some qv =>
          by_cases hi : i < 256
          · simp only [set_bit_true_lt qv i hi, if_true, hi]
          · simp only [set_bit_ge qv i true (by omega), hi, if_false]; rfl
      · omega
    · simp only [ge_iff_le, h1, decide_false, if_false]
      simp

/-- Euclidean division of `2N + b` from that of `N` -/
theorem step_arith (N m b : Nat) (hm : 0 < m) (hb : b < 2) :
    (2 * N + b) % m = (if m ≤ 2 * (N % m) + b then 2 * (N % m) + b - m else 2 * (N % m) + b) ∧
    (2 * N + b) / m = 2 * (N / m) + (if m ≤ 2 * (N % m) + b then 1 else 0) := by
  have hdm := Nat.div_add_mod N m
  have hr := Nat.mod_lt N hm
  generalize N % m = r at *
  generalize hQ : N / m = Q at *
  have := (Nat.div_mod_unique (a := 2 * N + b) (d := 2 * Q + (if m ≤ 2 * r + b then 1 else 0))
    (c := (if m ≤ 2 * r + b then 2 * r + b - m else 2 * r + b)) hm).mpr ?_
  · exact ⟨this.2, this.1⟩
  · split
    · next h =>
      have e : m * (2 * Q + 1) = 2 * (m * Q) + m := by ring
      rw [e]
      omega
    · next h =>
      have e : m * (2 * Q + 0) = 2 * (m * Q) := by ring
      rw [e]
      omega

theorem shift_step (n i : Nat) : n / 2 ^ i = 2 * (n / 2 ^ (i + 1)) + (n.testBit i).toNat := by
  have h1 : n / 2 ^ (i + 1) = n / 2 ^ i / 2 := by rw [pow_succ, Nat.div_div_eq_div_mul]
  have h2 : (n.testBit i).toNat = n / 2 ^ i % 2 := by
    rw [Nat.testBit_eq_decide_div_mod_eq]
    have : n / 2 ^ i % 2 < 2 := Nat.mod_lt _ (by decide)
    by_cases h : n / 2 ^ i % 2 = 1
    · simp [h]
    · have : n / 2 ^ i % 2 = 0 := by omega
      simp [this]
  rw [h1, h2]
  omega

/-! ## the loop invariant -/

/-- state after the iteration for bit index `i` (all bits of index `≥ i` consumed) -/
def Inv (n m : Nat) (st : Option Nat × Nat) (i : Nat) : Prop :=
  st.2 = (n / 2 ^ i) % m ∧
  st.1 = (if 2 ^ i * (n / 2 ^ i / m) < W256 then some (2 ^ i * (n / 2 ^ i / m)) else none)

theorem inv_step (n m i : Nat) (st : Option Nat × Nat) (hm0 : 0 < m) (hm : m < W256)
    (h : Inv n m st (i + 1)) : Inv n m (divStep n m st i) i := by
  obtain ⟨q, r⟩ := st
  obtain ⟨hr, hq⟩ := h
  simp only at hr hq
  have hrm : r < m := by rw [hr]; exact Nat.mod_lt _ hm0
  rw [divStep_eq n m r i q hm hrm]
  have hb : (n.testBit i).toNat < 2 := Bool.toNat_lt _
  have hsh := shift_step n i
  obtain ⟨a1, a2⟩ := step_arith (n / 2 ^ (i + 1)) m (n.testBit i).toNat hm0 hb
  rw [← hsh, ← hr] at a1 a2
  generalize (n.testBit i).toNat = b at *
  generalize n / 2 ^ (i + 1) / m = Q' at *
  have hpow : 2 ^ (i + 1) * Q' = 2 ^ i * (2 * Q') := by rw [pow_succ]; ring
  unfold Inv
  rw [a1, a2]
  by_cases hc : m ≤ 2 * r + b
  · simp only [hc, if_true, true_and]
    have hval : 2 ^ i * (2 * Q' + 1) = 2 ^ (i + 1) * Q' + 2 ^ i := by rw [pow_succ]; ring
    rw [hval, hq]
    by_cases hlt : 2 ^ (i + 1) * Q' < W256
    · simp only [hlt, if_true]
      by_cases hi : i < 256
      · simp only [hi, if_true]
        have hor : 2 ^ (i + 1) * Q' ||| 2 ^ i = 2 ^ (i + 1) * Q' + 2 ^ i :=
          (Nat.two_pow_add_eq_or_of_lt (Nat.pow_lt_pow_right (by decide) (Nat.lt_succ_self i)) Q').symm
        rw [hor]
        -- no overflow: a multiple of 2^(i+1) below 2^256 is at most 2^256 - 2^(i+1)
        have hfit : 2 ^ (i + 1) * Q' + 2 ^ i < W256 := by
          have hW : W256 = 2 ^ (i + 1) * 2 ^ (255 - i) := by
            rw [W256_pow, ← pow_add]; congr 1; omega
          rw [hW] at hlt ⊢
          have hQ : Q' < 2 ^ (255 - i) := Nat.lt_of_mul_lt_mul_left hlt
          have h1 : 2 ^ (i + 1) * (Q' + 1) ≤ 2 ^ (i + 1) * 2 ^ (255 - i) :=
            Nat.mul_le_mul_left _ hQ
          have h2 : 2 ^ i < 2 ^ (i + 1) := Nat.pow_lt_pow_right (by decide) (Nat.lt_succ_self i)
          have h3 : 2 ^ (i + 1) * (Q' + 1) = 2 ^ (i + 1) * Q' + 2 ^ (i + 1) := by ring
          omega
        rw [if_pos hfit]
      · simp only [hi, if_false]
        have hbig : ¬ 2 ^ (i + 1) * Q' + 2 ^ i < W256 := by
          have : W256 ≤ 2 ^ i := by
            rw [W256_pow]; exact Nat.pow_le_pow_right (by decide) (by omega)
          omega
        rw [if_neg hbig]
    · simp only [hlt, if_false]
      have hbig : ¬ 2 ^ (i + 1) * Q' + 2 ^ i < W256 :=
        fun h => hlt (lt_of_le_of_lt (Nat.le_add_right _ _) h)
      rw [if_neg hbig]
  · simp only [hc, if_false, true_and, add_zero]
    rw [hq, hpow]

theorem inv_fold (n m : Nat) (hm0 : 0 < m) (hm : m < W256) :
    ∀ (k : Nat) (st : Option Nat × Nat), Inv n m st k →
      Inv n m ((List.range k).reverse.foldl (divStep n m) st) 0 := by
  intro k
  induction k with
  | zero => intro st h; simpa using h
  | succ k ih =>
    intro st h
    rw [List.range_succ, List.reverse_append, List.reverse_singleton, List.singleton_append,
      List.foldl_cons]
    exact ih _ (inv_step n m k st hm0 hm h)

theorem lt_two_pow_bitLen (n : Nat) : n < 2 ^ bitLen n := by
  unfold bitLen
  split
  · next h => subst h; decide
  · exact Nat.lt_log2_self

theorem inv_init (n m : Nat) : Inv n m (some 0, 0) (Big.num_bits n) := by
  have h : n / 2 ^ Big.num_bits n = 0 := Nat.div_eq_of_lt (lt_two_pow_bitLen n)
  unfold Inv
  rw [h]
  simp [W256_pow]

/-- the loop computes Euclidean division (quotient as `None` when it needs more than 256 bits) -/
theorem loop_spec (n m : Nat) (hm0 : 0 < m) (hm : m < W256) :
    (List.range (Big.num_bits n)).reverse.foldl (divStep n m) (some 0, 0)
      = (if n / m < W256 then some (n / m) else none, n % m) := by
  have := inv_fold n m hm0 hm _ _ (inv_init n m)
  obtain ⟨h1, h2⟩ := this
  simp only [pow_zero, Nat.div_one, one_mul] at h1 h2
  exact Prod.ext h2 h1

/-! ## `U512::new` and the debug assertion -/

theorem W512_eq_mul : W512 = W256 * W256 := by decide +kernel

/-- `U512::new(c1, c0, m)` is `c1·m + c0`, without overflow whenever that is below `2^512` -/
theorem new_spec (c1 c0 m : Nat) (hc0 : c0 < W256) (h : c1 * m + c0 < W512) :
    new c1 c0 m = (c1 * m + c0, true) := by
  rw [W512_eq_mul] at h
  unfold new Big.mul Big.add_with_carry
  have hdm := Nat.div_add_mod (c1 * m) W256
  have hW : 0 < W256 := by rw [U256.W256_eq]; omega
  have hlo := Nat.mod_lt (c1 * m) hW
  generalize c1 * m = p at *
  generalize p / W256 = hi at *
  generalize p % W256 = lo at *
  generalize W256 = W at *
  have hhi : hi * W + lo + c0 < W * W := by rw [Nat.mul_comm hi]; omega
  simp only
  by_cases hc : lo + c0 ≥ W
  · simp only [hc, decide_true, if_true]
    have hhi1 : hi + 1 < W := by
      have : (hi + 1) * W < W * W := by
        have : (hi + 1) * W = hi * W + W := by ring
        omega
      exact Nat.lt_of_mul_lt_mul_right this
    have e1 : (hi + 1) % W = hi + 1 := Nat.mod_eq_of_lt hhi1
    have e2 : (lo + c0) % W = lo + c0 - W := by
      rw [Nat.mod_eq_sub_mod hc, Nat.mod_eq_of_lt (by omega)]
    have e3 : ¬ (hi + 1 ≥ W) := by omega
    rw [e1, e2]
    simp only [e3, decide_false, Bool.not_false]
    congr 1
    have : (hi + 1) * W = hi * W + W := by ring
    rw [this, ← hdm, Nat.mul_comm W hi]
    omega
  · simp only [hc, decide_false, Bool.false_eq_true, if_false, Bool.not_false]
    have e2 : (lo + c0) % W = lo + c0 := Nat.mod_eq_of_lt (by omega)
    rw [e2, ← hdm, Nat.mul_comm W hi]
    congr 1
    omega

/-! ## main theorem -/

/-- `U512::divrem` returns the Euclidean remainder; the quotient is `Some (n / m)` iff it is
    below `m` (and fits 256 bits); the debug assertion (and the one inside `U512::new`) holds. -/
theorem divrem_spec (n m : Nat) (hm0 : 0 < m) (hm : m < W256) (hn : n < W512) :
    (divrem n m).1.2 = n % m ∧
    (divrem n m).1.1 = (if n / m < m ∧ n / m < W256 then some (n / m) else none) ∧
    (divrem n m).2 = true := by
  have hl := loop_spec n m hm0 hm
  unfold divrem
  simp only [hl]
  by_cases hq : n / m < W256
  · simp only [hq, if_true, and_true]
    have hnew : new (n / m) (n % m) m = (n, true) := by
      have e : n / m * m + n % m = n := by rw [Nat.mul_comm]; exact Nat.div_add_mod n m
      have := new_spec (n / m) (n % m) m (lt_trans (Nat.mod_lt _ hm0) hm) (by rw [e]; exact hn)
      rw [this, e]
    rw [hnew]
    refine ⟨?_, ?_, by simp⟩
    · by_cases h2 : n / m ≥ m <;> simp [h2]
    · by_cases h2 : n / m ≥ m
      · simp [h2]
      · simp only [h2, decide_false, Bool.false_eq_true, if_false]
        rw [if_pos (by omega)]
  · simp only [hq, if_false, and_false]
    simp

/-- the remainder part, without the 512-bit bound (not needed for the remainder) -/
theorem divrem_rem (n m : Nat) (hm0 : 0 < m) (hm : m < W256) : (divrem n m).1.2 = n % m := by
  have hl := loop_spec n m hm0 hm
  unfold divrem
  simp only [hl]
  by_cases hq : n / m < W256
  · simp only [hq, if_true]
    by_cases h2 : n / m ≥ m <;> simp [h2]
  · simp only [hq, if_false]
    simp

/-- the hypotheses are satisfiable and the statement is not vacuous -/
example : divrem (3 * Consts.FQ + 5) Consts.FQ = ((some 3, 5), true) := by decide +kernel

example : (divrem (W512 - 1) Consts.FR).1.2 = (W512 - 1) % Consts.FR :=
  (divrem_spec _ _ (by decide +kernel) (by decide +kernel) (by decide +kernel)).1

end U512
end Sm9
