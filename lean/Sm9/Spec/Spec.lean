/-!
# The oracle: a deliberately naive, independent executable specification

Nothing here imports the model or the constants extracted from the Rust source.
Everything is derived from the SM9 curve parameter `t` as the standard does:
BN polynomials for `q` and `r`, `F_q[w]/(w¹²+2)` with schoolbook arithmetic, affine
chord-and-tangent addition with field division, the textbook R-ate pairing over the
*binary* expansion of `6t+2`, Frobenius as literal `q`-th powers, final power by the
literal exponent `(q¹²−1)/r`, and the byte formats of GM/T 0044.
-/
namespace Sm9.Spec

/-- SM9 curve parameter -/
def t : Nat := 0x600000000058F98A
def q : Nat := 36*t^4 + 36*t^3 + 24*t^2 + 6*t + 1
def r : Nat := 36*t^4 + 36*t^3 + 18*t^2 + 6*t + 1
/-- Miller loop length of the R-ate pairing -/
def a : Nat := 6*t + 2
/-- curve coefficient: E : y² = x³ + 5 ;  twist E′ : y² = x³ + 5u, u² = −2 -/
def b : Nat := 5

/-! ## integers mod p -/

def powm (p x e : Nat) : Nat := Id.run do
  let mut acc := 1 % p
  let mut base := x % p
  let mut e := e
  for _ in [0:e.log2 + 1] do
    if e % 2 == 1 then acc := acc * base % p
    base := base * base % p
    e := e / 2
  return acc

def invm (p x : Nat) : Nat := powm p x (p - 2)
def negm (p x : Nat) : Nat := (p - x % p) % p
def subm (p x y : Nat) : Nat := (x % p + p - y % p) % p

/-- is `x` a square mod the odd prime `p` (Euler) -/
def isSq (p x : Nat) : Bool := x % p == 0 || powm p x ((p - 1) / 2) == 1

/-- Tonelli–Shanks; returns the smaller of the two roots -/
def sqrtm (p x : Nat) : Option Nat :=
  let x := x % p
  if x == 0 then some 0 else
  if !isSq p x then none else Id.run do
    -- p − 1 = 2^s · m
    let mut s := 0
    let mut m := p - 1
    while m % 2 == 0 do
      m := m / 2
      s := s + 1
    let mut z := 2
    while isSq p z do z := z + 1
    let mut c := powm p z m
    let mut rt := powm p x ((m + 1) / 2)
    let mut tt := powm p x m
    let mut mm := s
    while tt != 1 do
      let mut i := 0
      let mut t2 := tt
      while t2 != 1 do
        t2 := t2 * t2 % p
        i := i + 1
      let bb := powm p c (2 ^ (mm - i - 1))
      rt := rt * bb % p
      c := bb * bb % p
      tt := tt * c % p
      mm := i
    return some (if p - rt < rt then p - rt else rt)

/-! ## F_q² = F_q[u]/(u²+2) as pairs (real, imaginary) -/

abbrev Q2 := Nat × Nat
namespace Q2
def add (x y : Q2) : Q2 := ((x.1 + y.1) % q, (x.2 + y.2) % q)
def sub (x y : Q2) : Q2 := (subm q x.1 y.1, subm q x.2 y.2)
def neg (x : Q2) : Q2 := (negm q x.1, negm q x.2)
def mul (x y : Q2) : Q2 :=
  (subm q (x.1 * y.1) (2 * (x.2 * y.2)), (x.1 * y.2 + x.2 * y.1) % q)
def inv (x : Q2) : Q2 :=
  let n := invm q ((x.1 * x.1 + 2 * (x.2 * x.2)) % q)
  (x.1 * n % q, negm q (x.2 * n))
def isZero (x : Q2) : Bool := x.1 % q == 0 && x.2 % q == 0
def ofNat (n : Nat) : Q2 := (n % q, 0)
/-- 5u -/
def bTwist : Q2 := (0, b)
def pow (x : Q2) (e : Nat) : Q2 := Id.run do
  let mut acc : Q2 := (1, 0)
  let mut base := x
  let mut e := e
  for _ in [0:e.log2 + 1] do
    if e % 2 == 1 then acc := mul acc base
    base := mul base base
    e := e / 2
  return acc
/-- square test in F_q²: x^((q²−1)/2) = 1 -/
def isSq (x : Q2) : Bool := isZero x || pow x ((q*q - 1) / 2) == (1, 0)
end Q2

/-! ## affine chord-and-tangent law over a field given by its operations -/

structure FieldOps (α : Type) where
  add : α → α → α
  sub : α → α → α
  mul : α → α → α
  neg : α → α
  inv : α → α
  isZero : α → Bool
  ofNat : Nat → α

def opsQ : FieldOps Nat :=
  { add := fun x y => (x + y) % q, sub := subm q, mul := fun x y => x * y % q,
    neg := negm q, inv := invm q, isZero := fun x => x % q == 0, ofNat := fun n => n % q }
def opsQ2 : FieldOps Q2 :=
  { add := Q2.add, sub := Q2.sub, mul := Q2.mul, neg := Q2.neg, inv := Q2.inv,
    isZero := Q2.isZero, ofNat := Q2.ofNat }

/-- affine point: `none` is the point at infinity -/
abbrev Pt (α : Type) := Option (α × α)

def ptNeg {α} (K : FieldOps α) : Pt α → Pt α
  | none => none
  | some (x, y) => some (x, K.neg y)

/-- textbook addition on y² = x³ + b (a = 0) -/
def ptAdd {α} (K : FieldOps α) : Pt α → Pt α → Pt α
  | none, Q => Q
  | P, none => P
  | some (x1, y1), some (x2, y2) =>
    if K.isZero (K.sub x1 x2) then
      if K.isZero (K.add y1 y2) then none
      else
        let lam := K.mul (K.mul (K.ofNat 3) (K.mul x1 x1)) (K.inv (K.add y1 y1))
        let x3 := K.sub (K.mul lam lam) (K.add x1 x2)
        some (x3, K.sub (K.mul lam (K.sub x1 x3)) y1)
    else
      let lam := K.mul (K.sub y2 y1) (K.inv (K.sub x2 x1))
      let x3 := K.sub (K.mul lam lam) (K.add x1 x2)
      some (x3, K.sub (K.mul lam (K.sub x1 x3)) y1)

/-- k-fold sum by right-to-left double-and-add -/
def ptMul {α} (K : FieldOps α) (k : Nat) (P : Pt α) : Pt α := Id.run do
  let mut acc : Pt α := none
  let mut base := P
  let mut k := k
  for _ in [0:k.log2 + 1] do
    if k % 2 == 1 then acc := ptAdd K acc base
    base := ptAdd K base base
    k := k / 2
  return acc

def onCurve1 (x y : Nat) : Bool := (y * y) % q == (x * x * x + b) % q
def onCurve2 (x y : Q2) : Bool := Q2.mul y y == Q2.add (Q2.mul (Q2.mul x x) x) Q2.bTwist

/-- generators of the standard -/
def P1 : Pt Nat := some
  (0x93DE051D62BF718FF5ED0704487D01D6E1E4086909DC3280E8C4E4817C66DDDD,
   0x21FE8DDA4F21E607631065125C395BBC1C1C00CBFA6024350C464CD70A3EA616)
def P2 : Pt Q2 := some
  ((0x3722755292130B08D2AAB97FD34EC120EE265948D19C17ABF9B7213BAF82D65B,
    0x85AEF3D078640C98597B6027B441A01FF1DD2C190F5E93C454806C11D8806141),
   (0xA7CF28D519BE3DA65F3170153D278FF247EFBA98A71A08116215BBA5C999A7C7,
    0x17509B092E845C1266BA0D262CBEE6ED0736A96FA347C8BD856DC76B84EBEB96))

/-! ## F_q¹² = F_q[w]/(w¹²+2), 12 coefficients, schoolbook -/

abbrev F12 := Array Nat   -- size 12, entries < q

namespace F12
def zero : F12 := Array.replicate 12 0
def one : F12 := zero.set! 0 1
def ofCoeffs (l : List Nat) : F12 := (l.map (· % q)).toArray
def mono (i c : Nat) : F12 := zero.set! i (c % q)
def add (x y : F12) : F12 := (Array.range 12).map fun i => (x[i]! + y[i]!) % q
def mul (x y : F12) : F12 := Id.run do
  let mut acc : Array Nat := Array.replicate 23 0
  for i in [0:12] do
    for j in [0:12] do
      acc := acc.set! (i + j) (acc[i + j]! + x[i]! * y[j]!)
  -- w^12 = −2
  let mut res : Array Nat := Array.replicate 12 0
  for i in [0:12] do
    let hi := if i + 12 < 23 then acc[i + 12]! else 0
    res := res.set! i (subm q acc[i]! (2 * hi))
  return res
def pow (x : F12) (e : Nat) : F12 := Id.run do
  let mut acc := one
  let mut base := x
  let mut e := e
  for _ in [0:e.log2 + 1] do
    if e % 2 == 1 then acc := mul acc base
    base := mul base base
    e := e / 2
  return acc
/-- embedding of F_q² : u = w⁶ -/
def ofQ2 (x : Q2) : F12 := (zero.set! 0 (x.1 % q)).set! 6 (x.2 % q)
def ofQ (x : Nat) : F12 := zero.set! 0 (x % q)
/-- an element of the image of F_q² back as a pair; `none` if it is not in the image -/
def toQ2? (x : F12) : Option Q2 :=
  if (List.range 12).all (fun i => i == 0 || i == 6 || x[i]! == 0) then some (x[0]!, x[6]!) else none
/-- w⁻¹ = −w¹¹/2 -/
def winv : F12 := mono 11 (negm q (invm q 2))
end F12

/-- tower coordinates → flat: coefficient of w^(i+3j+6k) is c_i.c_j.c_k.
    Byte order of the standard: c2‖c1‖c0, within each F_q⁴ c1‖c0, within each F_q² c1‖c0. -/
def flatIndexOrder : List Nat :=
  -- position in the 12×32-byte string (high first) → exponent of w
  [2+3+6, 2+3, 2+6, 2,  1+3+6, 1+3, 1+6, 1,  0+3+6, 0+3, 0+6, 0]

/-! ## textbook R-ate pairing -/

/-- slope of the chord/tangent on the twist, `none` for a vertical line -/
def slope2 (T Q : Q2 × Q2) : Option Q2 :=
  if Q2.isZero (Q2.sub T.1 Q.1) then
    if Q2.isZero (Q2.add T.2 Q.2) then none
    else some (Q2.mul (Q2.mul (Q2.ofNat 3) (Q2.mul T.1 T.1)) (Q2.inv (Q2.add T.2 T.2)))
  else some (Q2.mul (Q2.sub Q.2 T.2) (Q2.inv (Q2.sub Q.1 T.1)))

/-- the line through ψ(T), ψ(Q) evaluated at P = (xP, yP) ∈ E(F_q), with the untwist
    ψ(x′, y′) = (x′ w⁻², y′ w⁻³):  l(P) = yP − λ′ xP w⁻¹ + (λ′ x′_T − y′_T) w⁻³ -/
def lineEval (T Q : Q2 × Q2) (P : Nat × Nat) : F12 :=
  match slope2 T Q with
  | none => F12.add (F12.ofQ P.1) (F12.mul (F12.ofQ2 (Q2.neg T.1)) (F12.mul F12.winv F12.winv))
  | some lam =>
    let w1 := F12.winv
    let w3 := F12.mul w1 (F12.mul w1 w1)
    F12.add (F12.ofQ P.2)
      (F12.add (F12.mul (F12.ofQ2 (Q2.neg (Q2.mul lam (Q2.ofNat P.1)))) w1)
               (F12.mul (F12.ofQ2 (Q2.sub (Q2.mul lam T.1) T.2)) w3))

/-- Frobenius π_q on a twist point by literal q-th powers of the untwisted coordinates -/
def frobTwist (Q : Q2 × Q2) : Option (Q2 × Q2) :=
  let w1 := F12.winv
  let w2 := F12.mul w1 w1
  let w3 := F12.mul w2 w1
  let x := F12.pow (F12.mul (F12.ofQ2 Q.1) w2) q
  let y := F12.pow (F12.mul (F12.ofQ2 Q.2) w3) q
  -- back to twist coordinates: multiply by w², w³
  let wsq := F12.mono 2 1
  let wcu := F12.mono 3 1
  match F12.toQ2? (F12.mul x wsq), F12.toQ2? (F12.mul y wcu) with
  | some x', some y' => some (x', y')
  | _, _ => none

/-- bits of `n` below the most significant one, high to low -/
def lowerBits (n : Nat) : List Bool := ((List.range n.log2).reverse).map (fun i => n.testBit i)

def finalExponent : Nat := (q^12 - 1) / r

/-- e(P, Q) for affine P ∈ E(F_q), Q ∈ E′(F_q²), both of order r; identity ↦ 1 -/
def rate (P : Pt Nat) (Q : Pt Q2) : Option F12 :=
  match P, Q with
  | none, _ => some F12.one
  | _, none => some F12.one
  | some P, some Q => Id.run do
    let mut f := F12.one
    let mut T : Pt Q2 := some Q
    for bit in lowerBits a do
      match T with
      | none => return none
      | some Tv =>
        f := F12.mul (F12.mul f f) (lineEval Tv Tv P)
        T := ptAdd opsQ2 T T
        if bit then
          match T with
          | none => return none
          | some Tv =>
            f := F12.mul f (lineEval Tv Q P)
            T := ptAdd opsQ2 T (some Q)
    match frobTwist Q with
    | none => return none
    | some Q1 =>
      match frobTwist Q1 with
      | none => return none
      | some Q2v =>
        match T with
        | none => return none
        | some Tv =>
          f := F12.mul f (lineEval Tv Q1 P)
          T := ptAdd opsQ2 T (some Q1)
          match T with
          | none => return none
          | some Tv =>
            let nQ2 : Q2 × Q2 := (Q2v.1, Q2.neg Q2v.2)
            f := F12.mul f (lineEval Tv nQ2 P)
            return some (F12.pow f finalExponent)

/-! ## byte formats -/

def hexDigit (n : Nat) : Char := if n < 10 then Char.ofNat (48 + n) else Char.ofNat (87 + n)
def hexFixed (len n : Nat) : String :=
  String.ofList ((List.range (2 * len)).reverse.map fun i => hexDigit ((n / 16 ^ i) % 16))

def encQ2 (x : Q2) : String := hexFixed 32 x.2 ++ hexFixed 32 x.1
def encF12 (x : F12) : String := String.join (flatIndexOrder.map fun i => hexFixed 32 x[i]!)
def encG1 : Pt Nat → String
  | none => "INF"
  | some (x, y) => hexFixed 32 x ++ hexFixed 32 y
def encG2 : Pt Q2 → String
  | none => "INF"
  | some (x, y) => encQ2 x ++ encQ2 y

end Sm9.Spec
