import Sm9.Driver.Text
import Sm9.Model.Prog
/-!
# Register-machine programs and law checks of the line protocol (C01, C03, C07, C11, C16)

A program is a list of steps; every step appends one register.  The model runs the
value-level model, the spec tracks integers mod p (field programs) or the discrete
logarithm of each register (group programs).

Field programs: the model side is a thin parser (`parseFInstr`: text → `Sm9.FInstr`) in front of
the value-level machine of `Sm9/Model/Prog.lean` (`FrProg.fstepV` / `FqProg.fstepV`, run by
`frun`); `Sm9/Proofs/FieldProgram.lean` relates that machine to the limb-level machine for every
program (C07).  The spec side (`natM`) interprets the text directly over naturals mod p
(`fieldStep`).  Instructions that do not exist for a field (`hash random setbit` for Fq, `sqrt`
for Fr) and `const` literals beyond 64 bytes stop the model machine (as they stop the harness).
-/
namespace Sm9.Driver
open Sm9

def splitArgs (s : String) : String × List String :=
  match s.splitOn ":" with
  | [] => ("", [])
  | [k] => (k, [])
  | k :: rest => (k, (":".intercalate rest).splitOn ",")

/-! ## field programs -/

structure FieldOpsM (α : Type) where
  ofNat : Nat → α
  val : α → Nat
  add : α → α → α
  sub : α → α → α
  mul : α → α → α
  neg : α → α
  inv : α → Option α
  pow : α → Nat → α
  sqrt : α → Option α
  p : Nat

/-- the spec: plain naturals mod p -/
def natOps (p : Nat) : FieldOpsM Nat :=
  { ofNat := (· % p), val := id, add := fun a b => (a + b) % p, sub := Spec.subm p,
    mul := fun a b => a * b % p, neg := Spec.negm p,
    inv := fun a => if a % p == 0 then none else some (Spec.invm p a),
    pow := fun a e => Spec.powm p a e, sqrt := Spec.sqrtm p, p := p }

def decStr (cs : List Char) : Option Nat :=
  if cs.all Char.isDigit then some (cs.foldl (fun acc c => acc * 10 + (c.toNat - 48)) 0) else none

/-- one step of a field program on the spec side (`natM`); failed constructors / `None` results leave zero -/
def fieldStep {α} (M : FieldOpsM α) (isFr : Bool) (regs : Array α) (step : String) : Option (Array α) :=
  let (k, as) := splitArgs step
  let reg (s : String) : Option α := s.toNat?.bind (fun i => regs[i]?)
  let z := M.ofNat 0
  match k, as with
  | "const", [h] => do let v ← parseHexNat h; pure (regs.push (M.ofNat v))
  | "slice", [h] => do
      let bs ← parseBytes h
      pure (regs.push (if 1 ≤ bs.length ∧ bs.length ≤ 64 then M.ofNat (beVal bs) else z))
  | "str", [h] => do
      let bs ← parseBytes h
      let cs ← (String.fromUTF8? ⟨bs.toArray⟩).map String.toList
      pure (regs.push (match decStr cs with | some v => M.ofNat v | none => z))
  | "hash", [h] => do
      let bs ← parseBytes h
      pure (regs.push (if bs.length > 64 then z else M.ofNat (beVal bs % (M.p - 1) + 1)))
  | "random", ws => do
      let draw ← ws.mapM parseHexNat
      if !isFr || draw.length != 8 then none else
      pure (regs.push (M.mul (M.ofNat (Limb.value B64 draw)) (M.ofNat (Spec.invm M.p (W256 % M.p)))))
  | "add", [i, j] => do pure (regs.push (M.add (← reg i) (← reg j)))
  | "sub", [i, j] => do pure (regs.push (M.sub (← reg i) (← reg j)))
  | "mul", [i, j] => do pure (regs.push (M.mul (← reg i) (← reg j)))
  | "pow", [i, j] => do pure (regs.push (M.pow (← reg i) (M.val (← reg j))))
  | "neg", [i] => do pure (regs.push (M.neg (← reg i)))
  | "dup", [i] => do pure (regs.push (← reg i))
  | "inv", [i] => do pure (regs.push ((M.inv (← reg i)).getD z))
  | "sqrt", [i] => do pure (regs.push ((M.sqrt (← reg i)).getD z))
  | "setbit", [i, b, v] => do
      let x ← reg i; let b ← b.toNat?
      pure (regs.push (M.ofNat (U256.set_bit (M.val x) b (v == "1")).1))
  | _, _ => none

/-- text of one step → instruction of the model's field machine (`Sm9.FInstr`, Model/Prog.lean) -/
def parseFInstr (step : String) : Option FInstr :=
  let (k, as) := splitArgs step
  match k, as with
  | "const", [h] => do pure (.const (← parseHexNat h))
  | "slice", [h] => do pure (.slice (← parseBytes h))
  | "str", [h] => do
      let bs ← parseBytes h
      let cs ← (String.fromUTF8? ⟨bs.toArray⟩).map String.toList
      pure (.str cs)
  | "hash", [h] => do pure (.hash (← parseBytes h))
  | "random", ws => do pure (.random (← ws.mapM parseHexNat))
  | "add", [i, j] => do pure (.add (← i.toNat?) (← j.toNat?))
  | "sub", [i, j] => do pure (.sub (← i.toNat?) (← j.toNat?))
  | "mul", [i, j] => do pure (.mul (← i.toNat?) (← j.toNat?))
  | "pow", [i, j] => do pure (.pow (← i.toNat?) (← j.toNat?))
  | "neg", [i] => do pure (.neg (← i.toNat?))
  | "dup", [i] => do pure (.dup (← i.toNat?))
  | "inv", [i] => do pure (.inv (← i.toNat?))
  | "sqrt", [i] => do pure (.sqrt (← i.toNat?))
  | "setbit", [i, b, v] => do pure (.setbit (← i.toNat?) (← b.toNat?) (v == "1"))
  | _, _ => none

/-- a thin parser in front of the model's value-level `fstep` (`FrProg.fstepV`, `FqProg.fstepV`) -/
def fieldStepFr (regs : List Fr) (step : String) : Option (List Fr) := do
  let ins ← parseFInstr step
  FrProg.fstepV regs ins
def fieldStepFq (regs : List Fq) (step : String) : Option (List Fq) := do
  let ins ← parseFInstr step
  FqProg.fstepV regs ins

/-- a machine for field programs: the final register file of a program text, and how a register is printed -/
structure FieldMachine (α : Type) where
  val : α → Nat
  run : Bool → List String → Option (List α)

/-- the model: parse, then run the model's value-level machine (`frun`: `fstep` from the empty
    register file; the fold of `fieldStepFr` / `fieldStepFq`) -/
def frM : FieldMachine Fr :=
  { val := Fr.val, run := fun _ steps => do let prog ← steps.mapM parseFInstr; FrProg.frunV prog }
def fqM : FieldMachine Fq :=
  { val := Fq.val, run := fun _ steps => do let prog ← steps.mapM parseFInstr; FqProg.frunV prog }
/-- the spec: plain naturals mod p, interpreted directly from the text by `fieldStep` -/
def natM (p : Nat) : FieldMachine Nat :=
  { val := id, run := fun isFr steps => (steps.foldlM (fieldStep (natOps p) isFr) #[]).map Array.toList }

def runFieldProg {α} (M : FieldMachine α) (isFr : Bool) (steps : List String) : Option String := do
  let regs ← M.run isFr steps
  pure (",".intercalate (regs.map fun x => hexFixed 32 (M.val x)) ++ "|LAWS-OK")

/-! ## group programs -/

/-- text of one step → instruction of the model's mixed machine (`Sm9.MInstr`, Model/Prog.lean);
    any format name other than `slice` / `uncompressed` selects the compressed format -/
def parseInstr (step : String) : Option MInstr :=
  let (k, as) := splitArgs step
  match k, as with
  | "one1", [] => some .one1
  | "one2", [] => some .one2
  | "zero1", [] => some .zero1
  | "zero2", [] => some .zero2
  | "add", [i, j] => do pure (.add (← i.toNat?) (← j.toNat?))
  | "sub", [i, j] => do pure (.sub (← i.toNat?) (← j.toNat?))
  | "neg", [i] => do pure (.neg (← i.toNat?))
  | "mul", [i, ks] => do let kk ← pFr ks; pure (.mul (← i.toNat?) kk)
  | "normalize", [i] => do pure (.normalize (← i.toNat?))
  | "affine", [i] => do pure (.affine (← i.toNat?))
  | "encdec", [i, fmt] => do
      let f : Fmt := match fmt with
        | "slice" => .slice
        | "uncompressed" => .uncompressed
        | _ => .compressed
      pure (.encdec (← i.toNat?) f)
  | _, _ => none

/-- a thin parser in front of the model's `mstep` -/
def groupStep (regs : List Reg) (step : String) : Option (List Reg) := do
  let ins ← parseInstr step
  mstep regs ins

def regJac : Reg → String
  | .p1 p => sG1 p
  | .p2 p => sG2 p
def regAff : Reg → String
  | .p1 p => affG1 p
  | .p2 p => affG2 p
def regEq (a b : Reg) : String :=
  match a.eqObs b with
  | some true => "1"
  | some false => "0"
  | none => "-"
def regZero (p : Reg) : String := if p.isZero then "1" else "0"

def threePairings (p : G1) (q : G2) : String :=
  let a := sOut sFq12 (Api.pairing p q)
  let b := sOut sFq12 (Api.fast_pairing p q)
  let c := sOut sFq12 (do let pr ← Api.prepare q; Api.preparedPairing pr p)
  a ++ "," ++ b ++ "," ++ c

def runGroupProgModel (steps : List String) : Option String := do
  -- parse, then run the model's machine (`mrun`: `mstep` from the empty register file; the fold of `groupStep`)
  let prog ← steps.mapM parseInstr
  let l ← mrun prog
  let eqm := String.join (l.map fun a => String.join (l.map fun b => regEq a b))
  let zs := String.join (l.map regZero)
  let pr := match lastOf l with
    | (some p, some qv) => threePairings p qv
    | _ => "-"
  pure (",".intercalate (l.map regJac) ++ "|" ++ ",".intercalate (l.map regAff) ++ "|" ++ eqm ++ "/" ++ zs ++ "|" ++ pr)

/-- spec: (group, discrete log mod r) -/
def specStep (regs : Array (Bool × Nat)) (step : String) : Option (Array (Bool × Nat)) :=
  let (k, as) := splitArgs step
  let reg (s : String) : Option (Bool × Nat) := s.toNat?.bind (fun i => regs[i]?)
  let rr := Spec.r
  match k, as with
  | "one1", [] => some (regs.push (true, 1))
  | "one2", [] => some (regs.push (false, 1))
  | "zero1", [] => some (regs.push (true, 0))
  | "zero2", [] => some (regs.push (false, 0))
  | "add", [i, j] => do
      let a ← reg i; let b ← reg j
      if a.1 != b.1 then none else pure (regs.push (a.1, (a.2 + b.2) % rr))
  | "sub", [i, j] => do
      let a ← reg i; let b ← reg j
      if a.1 != b.1 then none else pure (regs.push (a.1, Spec.subm rr a.2 b.2))
  | "neg", [i] => do let a ← reg i; pure (regs.push (a.1, Spec.negm rr a.2))
  | "mul", [i, ks] => do
      let a ← reg i; let kk ← parseHexNat ks
      pure (regs.push (a.1, a.2 * kk % rr))
  | "normalize", [i] => do pure (regs.push (← reg i))
  | "affine", [i] => do pure (regs.push (← reg i))
  | "encdec", [i, _] => do pure (regs.push (← reg i))
  | _, _ => none

def runGroupProgSpec (steps : List String) : Option String := do
  let regs ← steps.foldlM specStep #[]
  let l := regs.toList
  let aff (x : Bool × Nat) : String :=
    if x.1 then Spec.encG1 (Spec.ptMul Spec.opsQ x.2 Spec.P1) else Spec.encG2 (Spec.ptMul Spec.opsQ2 x.2 Spec.P2)
  let eqm := String.join (l.map fun a => String.join (l.map fun b =>
    if a.1 != b.1 then "-" else if a.2 == b.2 then "1" else "0"))
  let zs := String.join (l.map fun a => if a.2 == 0 then "1" else "0")
  let last := l.foldl (fun (acc : Option Nat × Option Nat) x => if x.1 then (some x.2, acc.2) else (acc.1, some x.2)) (none, none)
  let pr := match last with
    | (some a, some b) =>
      let v := sF12o' (Spec.rate (Spec.ptMul Spec.opsQ a Spec.P1) (Spec.ptMul Spec.opsQ2 b Spec.P2))
      v ++ "," ++ v ++ "," ++ v
    | _ => "-"
  pure ("*|" ++ ",".intercalate (l.map aff) ++ "|" ++ eqm ++ "/" ++ zs ++ "|" ++ pr)
where
  sF12o' (o : Option Spec.F12) : String := match o with | some v => Spec.encF12 v | none => "SPEC-UNDEFINED"

/-! ## pairing laws (C01) and Gt laws (C11) -/

def entry (e : String) (p : G1) (qv : G2) : Outcome Fq12 :=
  match e with
  | "pairing" => Api.pairing p qv
  | "fast" => Api.fast_pairing p qv
  | _ => do let pr ← Api.prepare qv; Api.preparedPairing pr p

def g1k (k : Fr) : G1 := (G.one : G1).mul k
def g2k (k : Fr) : G2 := (G.one : G2).mul k

def outBool (o : Outcome Bool) : String :=
  match o with
  | .ok b => sBool b
  | .panic => "PANIC"

def runLaw (name e : String) (args : List String) : Option (String × String) :=
  match name, args with
  | "bilin", [a, b] => do
      let a ← pFr a; let b ← pFr b
      let m := do
        let lhs ← entry e (g1k a) (g2k b)
        let base ← entry e G.one G.one
        pure (decide (lhs = Api.gtPow base (a * b)))
      pure (outBool m, "true")
  | "additive", [a, a2, b, c] => do
      let a ← pFr a; let a2 ← pFr a2; let b ← pFr b; let c ← pFr c
      let m1 := do
        let l ← entry e ((g1k a).add (g1k a2)) (g2k b)
        let x ← entry e (g1k a) (g2k b)
        let y ← entry e (g1k a2) (g2k b)
        pure (decide (l = x * y))
      let m2 := do
        let l ← entry e (g1k a) ((g2k b).add (g2k c))
        let x ← entry e (g1k a) (g2k b)
        let y ← entry e (g1k a) (g2k c)
        pure (decide (l = x * y))
      pure (outBool m1 ++ "," ++ outBool m2, "true,true")
  | "additive2", [p1, p2, q1, q2] => do
      let p1 ← pG1 p1; let p2 ← pG1 p2; let q1 ← pG2 q1; let q2 ← pG2 q2
      let m1 := do
        let l ← entry e (p1.add p2) q1
        let x ← entry e p1 q1
        let y ← entry e p2 q1
        pure (decide (l = x * y))
      let m2 := do
        let l ← entry e p1 (q1.add q2)
        let x ← entry e p1 q1
        let y ← entry e p1 q2
        pure (decide (l = x * y))
      pure (outBool m1 ++ "," ++ outBool m2, "true,true")
  | "prepreuse", [a, b] => do
      let a ← pFr a; let b ← pFr b
      let m : Outcome String := do
        let p := g1k a; let qv := g2k b
        let pr ← Api.prepare qv
        let e1 ← Api.preparedPairing pr p
        let en ← Api.preparedPairing pr p.neg
        let e2 ← Api.preparedPairing pr (p.add p)
        let e1b ← Api.preparedPairing pr p
        let ep ← Api.pairing p qv
        pure (sBool (en * e1 == Fq12.one) ++ "," ++ sBool (e2 == e1 * e1) ++ "," ++ sBool (e1b == e1) ++ "," ++ sBool (e1 == ep))
      pure (sOut id m, "true,true,true,true")
  | "identity", [o1, o2] => do
      let o1 ← pG1 o1; let o2 ← pG2 o2
      let one := Fq12.one
      let t (x : Outcome Fq12) : String := outBool (do let v ← x; pure (decide (v = one)))
      pure (t (entry e o1 G.one) ++ "," ++ t (entry e G.one o2) ++ "," ++ t (entry e o1 o2), "true,true,true")
  | "nondegenerate", [] =>
      let m := do
        let g ← entry e G.one G.one
        pure (decide (g ≠ Fq12.one), decide (Api.gtPow g (-(1 : Fr)) * g = Fq12.one))
      match m with
      | .ok (x, y) => some (sBool x ++ "," ++ sBool y, "true,true")
      | .panic => some ("PANIC", "true,true")
  | _, _ => none

def limbsBelowQ (v : Fq12) : Bool :=
  -- every 32-byte limb of the encoding is below q
  let bs := Api.fq12ToSlice v
  (List.range 12).all fun i => beVal ((bs.drop (32 * i)).take 32) < q

def runGtk (args : List String) : Option (String × String) :=
  match args with
  | [k1, k2, a, b] => do
      let k1 ← pFr k1; let k2 ← pFr k2; let a ← pFr a; let b ← pFr b
      let m : Outcome String := do
        let g ← Api.pairing (g1k k1) G.one
        let h ← Api.pairing G.one (g2k k2)
        let one := Fq12.one
        let inv := g.inverse
        let pw (x : Fq12) (e : Fr) := Api.gtPow x e
        pure (sFq12 (g * h) ++ "|" ++ sBool (g * h == h * g) ++ "|" ++ sBool (g * one == g) ++ "|"
          ++ (match inv with | some i => sBool (i * g == one) | none => "NONE") ++ "|"
          ++ sFq12 (pw g a) ++ "|" ++ sBool (pw g a * pw g b == pw g (a + b)) ++ "|"
          ++ sBool (pw (pw g a) b == pw g (a * b)) ++ "|" ++ sBool (pw (g * h) a == pw g a * pw h a) ++ "|"
          ++ sBool (pw g 0 == one) ++ "|" ++ sBool (pw g 1 == g) ++ "|"
          ++ sBool ((g == h) == (Api.fq12ToSlice g == Api.fq12ToSlice h)) ++ "|" ++ sBool (limbsBelowQ (g * h)) ++ "|"
          ++ (match inv with
              | some i =>
                let e := i * g
                (match e.inverse, one.inverse with
                 | some ei, some oi => sBool (ei == one && oi == one && Api.fq12ToSlice ei == Api.fq12ToSlice one
                     && Api.fq12ToSlice oi == Api.fq12ToSlice one && g * ei == g
                     && ((ei == e) == (Api.fq12ToSlice ei == Api.fq12ToSlice e)))
                 | _, _ => "NONE")
              | none => "NONE"))
      let sp : String :=
        match Spec.rate (Spec.ptMul Spec.opsQ k1.val Spec.P1) Spec.P2, Spec.rate Spec.P1 (Spec.ptMul Spec.opsQ2 k2.val Spec.P2) with
        | some g, some h =>
          Spec.encF12 (Spec.F12.mul g h) ++ "|true|true|true|" ++ Spec.encF12 (Spec.F12.pow g a.val)
            ++ "|true|true|true|true|true|true|true|true"
        | _, _ => "SPEC-UNDEFINED"
      pure (sOut id m, sp)
  | _ => none

def runReuse (args : List String) : Option (String × String) :=
  match args with
  | qs :: order :: ps => do
      let qq ← pG2 qs
      let pts ← ps.mapM pG1
      let idxs ← (order.splitOn ",").mapM String.toNat?
      let m : Outcome (List String) := do
        let pr ← Api.prepare qq
        idxs.mapM fun i => do
          let p ← Outcome.unwrap pts[i]?
          let v ← Api.preparedPairing pr p
          pure (sFq12 v)
      let sq ← spPt2 qs
      let sps ← ps.mapM spPt1
      let sp := idxs.map fun i =>
        match sps[i]? with
        | some p => (match Spec.rate p sq with | some v => Spec.encF12 v | none => "SPEC-UNDEFINED")
        | none => "BAD"
      pure (sOut (fun l => ",".intercalate l) m, ",".intercalate sp)
  | _ => none

end Sm9.Driver
