import Sm9.Driver.Text
import Sm9.Driver.Prog
/-!
# The operations of the line protocol, on the model and on the spec

`runLine line = (modelOutput, specOutput)`.  Output fields are separated by `|`; a spec
field `*` means "the spec does not define this field" (e.g. the Jacobian representative).
`BAD` = the driver could not parse the line (never expected; counted as a disagreement).
-/
namespace Sm9.Driver
open Sm9

def opName (s : String) : String := (s.splitOn "@").headD s

/-! ## helpers -/
def Rinv (p : Nat) : Nat := Spec.invm p (W256 % p)

def frBin (op : String) (a b : Fr) : Option Fr :=
  match op with
  | "add" => some (a + b) | "sub" => some (a - b) | "mul" => some (a * b) | _ => none
def fqBin (op : String) (a b : Fq) : Option Fq :=
  match op with
  | "add" => some (a + b) | "sub" => some (a - b) | "mul" => some (a * b) | _ => none
def fq2Bin (op : String) (a b : Fq2) : Option Fq2 :=
  match op with
  | "add" => some (a + b) | "sub" => some (a - b) | "mul" => some (a * b) | _ => none
def spBin (p : Nat) (op : String) (a b : Nat) : Option Nat :=
  match op with
  | "add" => some ((a + b) % p) | "sub" => some (Spec.subm p a b) | "mul" => some (a * b % p) | _ => none
def sp2Bin (op : String) (a b : SQ2) : Option SQ2 :=
  match op with
  | "add" => some (Spec.Q2.add a b) | "sub" => some (Spec.Q2.sub a b) | "mul" => some (Spec.Q2.mul a b) | _ => none
def sSQ2 (a : SQ2) : String := hexFixed 32 a.2 ++ hexFixed 32 a.1

def curveErr : CurveError → String
  | .InvalidEncoding => "ERR InvalidEncoding"
  | .NotMember => "ERR NotMember"
def groupErr : GroupError → String
  | .NotOnCurve => "ERR NotOnCurve"
  | .NotInSubgroup => "ERR NotInSubgroup"

def utf8Chars (bs : List UInt8) : Option (List Char) :=
  let ba : ByteArray := ⟨bs.toArray⟩
  (String.fromUTF8? ba).map String.toList

/-- spec-side decimal parser -/
def spFromStr (p : Nat) (cs : List Char) : String :=
  if cs.all (fun c => '0' ≤ c ∧ c ≤ '9') then
    "SOME " ++ hexFixed 32 (cs.foldl (fun acc c => (acc * 10 + (c.toNat - 48)) % p) 0)
  else "NONE"

/-- spec: is (x, y) a point of E′ of order dividing r -/
def spInG2 (x y : SQ2) : Bool :=
  Spec.onCurve2 x y && (Spec.ptMul Spec.opsQ2 Spec.r (some (x, y))).isNone

/-- spec: decode big-endian coordinate strictly below q -/
def spCoord (bs : List UInt8) : Option Nat :=
  let v := beVal bs
  if v < Spec.q then some v else none

def spG1Dec (bs : List UInt8) : String :=
  if bs.length != 64 then "ERR InvalidEncoding" else
  match spCoord (bs.take 32), spCoord (bs.drop 32) with
  | some x, some y => if Spec.onCurve1 x y then "OK|*|" ++ hexFixed 32 x ++ hexFixed 32 y else "ERR NotMember"
  | _, _ => "ERR InvalidEncoding"

def spQ2Dec (bs : List UInt8) : Option SQ2 :=
  match spCoord (bs.take 32), spCoord (bs.drop 32) with
  | some im, some re => some (re, im)
  | _, _ => none

def spG2Dec (bs : List UInt8) : String :=
  if bs.length != 128 then "ERR InvalidEncoding" else
  match spQ2Dec (bs.take 64), spQ2Dec (bs.drop 64) with
  | some x, some y => if spInG2 x y then "OK|*|" ++ sSQ2 x ++ sSQ2 y else "ERR NotMember"
  | _, _ => "ERR InvalidEncoding"

/-- spec: compressed G1: prefix 02/03 selects the parity of y -/
def spG1DecC (bs : List UInt8) : String :=
  if bs.length != 33 then "ERR InvalidEncoding" else
  let pre := (bs.headD 0).toNat
  if pre != 2 && pre != 3 then "ERR InvalidEncoding" else
  match spCoord (bs.drop 1) with
  | none => "ERR InvalidEncoding"
  | some x =>
    match Spec.sqrtm Spec.q ((x * x * x + Spec.b) % Spec.q) with
    | none => "ERR NotMember"
    | some y0 =>
      let y := if (y0 % 2 == 0) == (pre == 2) then y0 else Spec.negm Spec.q y0
      "OK|*|" ++ hexFixed 32 x ++ hexFixed 32 y

/-- spec-side square root in F_q²: search both candidate real parts by the textbook
    identity; returns any root (the caller fixes the sign by parity) -/
def spSqrt2 (x : SQ2) : Option SQ2 :=
  if Spec.Q2.isZero x then some (0, 0) else
  if !Spec.Q2.isSq x then none else
  -- x = (c0 + c1 u)^2, N = c0^2 + 2 c1^2 = ± sqrt(norm x)
  let nrm := (x.1 * x.1 + 2 * (x.2 * x.2)) % Spec.q
  match Spec.sqrtm Spec.q nrm with
  | none => none
  | some w =>
    let cands := [(x.1 + w) % Spec.q, Spec.subm Spec.q x.1 w]
    let inv2 := Spec.invm Spec.q 2
    cands.foldl (fun acc v =>
      match acc with
      | some r => some r
      | none =>
        match Spec.sqrtm Spec.q (v * inv2 % Spec.q) with
        | none => none
        | some c0 =>
          if c0 == 0 then
            match Spec.sqrtm Spec.q (Spec.negm Spec.q x.1 * inv2 % Spec.q) with
            | some c1 => if Spec.Q2.mul (0, c1) (0, c1) == x then some (0, c1) else none
            | none => none
          else
            let c1 := x.2 * Spec.invm Spec.q (2 * c0 % Spec.q) % Spec.q
            if Spec.Q2.mul (c0, c1) (c0, c1) == x then some (c0, c1) else none) none

def spG2DecC (bs : List UInt8) : String :=
  if bs.length != 65 then "ERR InvalidEncoding" else
  let pre := (bs.headD 0).toNat
  if pre != 2 && pre != 3 then "ERR InvalidEncoding" else
  match spQ2Dec (bs.drop 1) with
  | none => "ERR InvalidEncoding"
  | some x =>
    let rhs := Spec.Q2.add (Spec.Q2.mul (Spec.Q2.mul x x) x) Spec.Q2.bTwist
    match spSqrt2 rhs with
    | none => "ERR NotMember"
    | some y0 =>
      let y := if (y0.1 % 2 == 0) == (pre == 2) then y0 else Spec.Q2.neg y0
      if spInG2 x y then "OK|*|" ++ sSQ2 x ++ sSQ2 y else "ERR NotMember"

def okPt1 (r : Except CurveError G1) : String :=
  match r with
  | .ok p => "OK|" ++ sG1 p ++ "|" ++ affG1 p
  | .error e => curveErr e
def okPt2 (r : Except CurveError G2) : String :=
  match r with
  | .ok p => "OK|" ++ sG2 p ++ "|" ++ affG2 p
  | .error e => curveErr e

def outBytes (o : Outcome (List UInt8)) : String :=
  match o with
  | .ok b => "OK " ++ hexBytes b
  | .panic => "PANIC"

def spEnc1 (fmt : String) (p : Spec.Pt Nat) : String :=
  match p with
  | none => "PANIC"
  | some (x, y) =>
    match fmt with
    | "to_slice" => "OK " ++ hexFixed 32 x ++ hexFixed 32 y
    | "to_uncompressed" => "OK 04" ++ hexFixed 32 x ++ hexFixed 32 y
    | _ => "OK " ++ (if y % 2 == 0 then "02" else "03") ++ hexFixed 32 x
def spEnc2 (fmt : String) (p : Spec.Pt SQ2) : String :=
  match p with
  | none => "PANIC"
  | some (x, y) =>
    match fmt with
    | "to_slice" => "OK " ++ sSQ2 x ++ sSQ2 y
    | "to_uncompressed" => "OK 04" ++ sSQ2 x ++ sSQ2 y
    | _ => "OK " ++ (if y.1 % 2 == 0 then "02" else "03") ++ sSQ2 x

def sF12o (o : Option Spec.F12) : String :=
  match o with
  | some v => Spec.encF12 v
  | none => "SPEC-UNDEFINED"

/-- all scalar / limb parses of a list of hex words -/
def natArgs (ws : List String) : Option (List Nat) := ws.mapM parseHexNat

/-! ## dispatcher -/

def runOp (op : String) (args : List String) : Option (String × String) :=
  let base := opName op
  match base.splitOn ".", args with
  -- ---------- Fr / Fq public operators ----------
  | ["fr", o], [a, b] =>
    if o == "pow" then do
      let x ← pFr a; let e ← pFr b
      pure (sFr (x.pow e.val), hexFixed 32 (Spec.powm Spec.r x.val e.val))
    else do
      let x ← pFr a; let y ← pFr b
      let m ← frBin o x y; let s ← spBin Spec.r o x.val y.val
      pure (sFr m, hexFixed 32 s)
  | ["fq", o], [a, b] =>
    if o == "pow" then do
      let x ← pFq a; let e ← pFq b
      pure (sFq (x.pow e.val), hexFixed 32 (Spec.powm Spec.q x.val e.val))
    else if o == "to_big_endian" then do
      let x ← pFq a; let n ← b.toNat?
      let s := if n == 32 then "OK " ++ hexFixed 32 x.val else "ERR"
      pure ((match Api.fqToBigEndian x n with | some bs => "OK " ++ hexBytes bs | none => "ERR"), s)
    else do
      let x ← pFq a; let y ← pFq b
      let m ← fqBin o x y; let s ← spBin Spec.q o x.val y.val
      pure (sFq m, hexFixed 32 s)
  | ["fr", "neg"], [a] => do
      let x ← pFr a; pure (sFr (-x), hexFixed 32 (Spec.negm Spec.r x.val))
  | ["fq", "neg"], [a] => do
      let x ← pFq a; pure (sFq (-x), hexFixed 32 (Spec.negm Spec.q x.val))
  | ["fr", "inv"], [a] => do
      let x ← pFr a
      pure (sOpt sFr x.inverse,
            if x.val == 0 then "NONE" else "SOME " ++ hexFixed 32 (Spec.invm Spec.r x.val))
  | ["fq", "inv"], [a] => do
      let x ← pFq a
      pure (sOpt sFq x.inverse,
            if x.val == 0 then "NONE" else "SOME " ++ hexFixed 32 (Spec.invm Spec.q x.val))
  | ["fr", "is_zero"], [a] => do
      let x ← pFr a; pure (sBool x.is_zero, sBool (x.val == 0))
  | ["fq", "is_zero"], [a] => do
      let x ← pFq a; pure (sBool x.is_zero, sBool (x.val == 0))
  | ["fq", "is_even"], [a] => do
      let x ← pFq a; pure (sBool x.is_even, sBool (x.val % 2 == 0))
  | ["fq", "sqrt"], [a] => do
      let x ← pFq a
      pure (sOpt sFq x.sqrt, sOpt (hexFixed 32) (Spec.sqrtm Spec.q x.val))
  | ["fr", "to_slice"], [a] => do
      let x ← pFr a; pure (hexBytes (Api.frToSlice x), hexFixed 32 x.val)
  | ["fq", "to_slice"], [a] => do
      let x ← pFq a; pure (hexBytes (Api.fqToSlice x), hexFixed 32 x.val)
  -- ---------- conversions ----------
  | ["fr", "from_slice"], [h] => do
      let bs ← parseBytes h
      pure (sOpt sFr (Api.frFromSlice bs),
            if 1 ≤ bs.length && bs.length ≤ 64 then "SOME " ++ hexFixed 32 (beVal bs % Spec.r) else "NONE")
  | ["fq", "from_slice"], [h] => do
      let bs ← parseBytes h
      pure (sOpt sFq (Api.fqFromSlice bs),
            if 1 ≤ bs.length && bs.length ≤ 64 then "SOME " ++ hexFixed 32 (beVal bs % Spec.q) else "NONE")
  | ["fr", "interpret"], [h] => do
      let bs ← parseBytes h
      if bs.length != 64 then none else
      pure (sFr (Fr.ofNat (beVal bs)), hexFixed 32 (beVal bs % Spec.r))
  | ["fq", "interpret"], [h] => do
      let bs ← parseBytes h
      if bs.length != 64 then none else
      pure (sFq (Fq.ofNat (beVal bs)), hexFixed 32 (beVal bs % Spec.q))
  | ["fr", "from_str"], [h] => do
      let bs ← parseBytes h; let cs ← utf8Chars bs
      pure (sOpt sFr (Api.frFromStr cs), spFromStr Spec.r cs)
  | ["fq", "from_str"], [h] => do
      let bs ← parseBytes h; let cs ← utf8Chars bs
      pure (sOpt sFq (Api.fqFromStr cs), spFromStr Spec.q cs)
  | ["fr", "from_hash"], [h] => do
      let bs ← parseBytes h
      pure (sOpt sFr (Api.frFromHash bs),
            if bs.length > 64 then "NONE" else "SOME " ++ hexFixed 32 (beVal bs % (Spec.r - 1) + 1))
  | ["fr", "set_bit"], [a, i, v] => do
      let x ← pFr a; let i ← i.toNat?
      let to := v == "1"
      let sv := if i ≥ 256 then x.val else
        (if to then x.val ||| (1 <<< i) else x.val - (if x.val.testBit i then 1 <<< i else 0)) % Spec.r
      pure (sFr (Api.frSetBit x i to), hexFixed 32 sv)
  | ["fr", "random"], ws => do
      let draw ← natArgs ws
      if draw.length != 8 then none else
      let raw := Api.frRandomRaw draw
      let v := Fr.ofNat raw * Fr.ofNat (Rinv r)
      pure (sFr v, hexFixed 32 (Limb.value B64 draw % Spec.r * Rinv Spec.r % Spec.r))
  -- ---------- Fq2 public ----------
  | ["fq2", "neg"], [a] => do
      let x ← pFq2 a; let s ← spQ2 a
      pure (sFq2 (-x), sSQ2 (Spec.Q2.neg s))
  | ["fq2", "parts"], [a] => do
      let x ← pFq2 a; let s ← spQ2 a
      pure (sFq x.real ++ "|" ++ sFq x.imaginary ++ "|" ++ sBool (Api.fq2IsEven x) ++ "|" ++ sBool x.is_zero,
            hexFixed 32 s.1 ++ "|" ++ hexFixed 32 s.2 ++ "|" ++ sBool (s.1 % 2 == 0) ++ "|" ++ sBool (Spec.Q2.isZero s))
  | ["fq2", "new"], [re, im] => do
      let a ← pFq re; let b ← pFq im
      pure (hexBytes (Api.fq2ToSlice (Fq2.new a b)), hexFixed 32 b.val ++ hexFixed 32 a.val)
  | ["fq2", "from_slice"], [h] => do
      let bs ← parseBytes h
      let sp := if bs.length != 64 then "NONE" else
        match spQ2Dec bs with
        | some v => "SOME " ++ sSQ2 v
        | none => "NONE"
      pure (sOpt sFq2 (Api.fq2FromSlice bs), sp)
  | ["fq2", "sqrt"], [a] => do
      let x ← pFq2 a; let s ← spQ2 a
      -- existence and soundness are the property; which of ±root is returned is free
      let m := match x.sqrt with
        | some rt => "SOME|" ++ sFq2 rt ++ "|" ++ sFq2 (rt * rt)
        | none => "NONE"
      pure (m, if Spec.Q2.isSq s then "SOME|*|" ++ sSQ2 s else "NONE")
  | ["fq2", "law"], [a, b] => do
      let x ← pFq2 a; let y ← pFq2 b; let sx ← spQ2 a; let sy ← spQ2 b
      pure (sFq2 (x * y) ++ "|LAWS-OK", sSQ2 (Spec.Q2.mul sx sy) ++ "|LAWS-OK")
  | ["fq2", o], [a, b] => do
      let x ← pFq2 a; let y ← pFq2 b; let sx ← spQ2 a; let sy ← spQ2 b
      let m ← fq2Bin o x y; let s ← sp2Bin o sx sy
      pure (sFq2 m, sSQ2 s)
  -- ---------- limb level (hooks) ----------
  | ["u256", o], ws => do
      let v ← natArgs ws
      match o, v with
      | "add", [a, b, m] => pure (hexFixed 32 (U256.add a b m), if a < m ∧ b < m then hexFixed 32 ((a + b) % m) else "*")
      | "sub", [a, b, m] => pure (hexFixed 32 (U256.sub a b m), if a < m ∧ b < m then hexFixed 32 (Spec.subm m a b) else "*")
      | "mul2", [a, m] => pure (hexFixed 32 (U256.mul2 a m), if a < m then hexFixed 32 (2 * a % m) else "*")
      | "div2", [a, m] => pure (hexFixed 32 (U256.div2 a m), if a < m then hexFixed 32 (a * Spec.invm m 2 % m) else "*")
      | "neg", [a, m] => pure (hexFixed 32 (U256.neg a m), if a < m then hexFixed 32 (Spec.negm m a) else "*")
      | "mul", [a, b, m, inv] =>
          pure (hexFixed 32 (U256.mul a b m inv), if a < m ∧ b < m then hexFixed 32 (a * b % m * Rinv m % m) else "*")
      | "square", [a, m, inv] =>
          pure (hexFixed 32 (U256.square a m inv), if a < m then hexFixed 32 (a * a % m * Rinv m % m) else "*")
      | "invert", [a, m, r2] =>
          let sp := if 0 < a ∧ a < m then "SOME " ++ hexFixed 32 (Spec.invm m a * (r2 % m) % m) else "*"
          pure ((match U256.invert a m r2 with | some x => "SOME " ++ hexFixed 32 x | none => "TIMEOUT"), sp)
      | _, _ => none
  | ["fqraw", o], ws => do
      let v ← natArgs ws
      let P := paramsQ
      let canon := v.all (· < Spec.q)
      let R := W256 % Spec.q
      let sp (x : Nat) : String := if canon then hexFixed 32 (x % Spec.q) else "*"
      match o, v with
      | "add", [a, b] => pure (hexFixed 32 (Fp.add P a b), sp (a + b))
      | "sub", [a, b] => pure (hexFixed 32 (Fp.sub P a b), sp (Spec.subm Spec.q a b))
      | "mul", [a, b] => pure (hexFixed 32 (Fp.mul P a b), sp (a * b % Spec.q * Rinv Spec.q))
      | "neg", [a] => pure (hexFixed 32 (Fp.neg P a), sp (Spec.negm Spec.q a))
      | "double", [a] => pure (hexFixed 32 (Fp.double P a), sp (2 * a))
      | "triple", [a] => pure (hexFixed 32 (Fp.triple P a), sp (3 * a))
      | "squared", [a] => pure (hexFixed 32 (Fp.squared P a), sp (a * a % Spec.q * Rinv Spec.q))
      | "div2", [a] => pure (hexFixed 32 (Fp.div2 P a), sp (a * Spec.invm Spec.q 2))
      | "into", [a] => pure (hexFixed 32 (Fp.into_u256 P a), sp (a * Rinv Spec.q))
      | "inverse", [a] =>
          let m := match Fp.inverse P a with
            | some (some x) => "SOME " ++ hexFixed 32 x
            | some none => "NONE"
            | none => "TIMEOUT"
          let s := if !canon then "*" else if a == 0 then "NONE" else
            "SOME " ++ hexFixed 32 (Spec.invm Spec.q a * R % Spec.q * R % Spec.q)
          pure (m, s)
      | "sop2", [a0, a1, b0, b1] =>
          pure ((match FqL.sum_of_products [a0, a1] [b0, b1] with | some x => hexFixed 32 x | none => "TIMEOUT"),
                sp ((a0 * b0 + a1 * b1) % Spec.q * Rinv Spec.q))
      | "sop4", [a0, a1, a2, a3, b0, b1, b2, b3] =>
          pure ((match FqL.sum_of_products [a0, a1, a2, a3] [b0, b1, b2, b3] with | some x => hexFixed 32 x | none => "TIMEOUT"),
                sp ((a0 * b0 + a1 * b1 + a2 * b2 + a3 * b3) % Spec.q * Rinv Spec.q))
      | _, _ => none
  | ["frraw", o], ws => do
      let v ← natArgs ws
      let P := paramsR
      let canon := v.all (· < Spec.r)
      let sp (x : Nat) : String := if canon then hexFixed 32 (x % Spec.r) else "*"
      match o, v with
      | "add", [a, b] => pure (hexFixed 32 (Fp.add P a b), sp (a + b))
      | "sub", [a, b] => pure (hexFixed 32 (Fp.sub P a b), sp (Spec.subm Spec.r a b))
      | "mul", [a, b] => pure (hexFixed 32 (Fp.mul P a b), sp (a * b % Spec.r * Rinv Spec.r))
      | "neg", [a] => pure (hexFixed 32 (Fp.neg P a), sp (Spec.negm Spec.r a))
      | "squared", [a] => pure (hexFixed 32 (Fp.squared P a), sp (a * a % Spec.r * Rinv Spec.r))
      | "into", [a] => pure (hexFixed 32 (Fp.into_u256 P a), sp (a * Rinv Spec.r))
      | _, _ => none
  | ["u512", "divrem"], [n, m] => do
      let n ← parseHexNat n; let m ← parseHexNat m
      if m == 0 then none else
      let ((qo, rr), dbg) := U512.divrem n m
      let f (qo : Option Nat) (rr : Nat) := (match qo with | some x => "SOME " ++ hexFixed 32 x | none => "NONE") ++ "|" ++ hexFixed 32 rr
      let sq := n / m
      pure (if dbg then f qo rr else "DEBUG-ASSERT", f (if sq < m ∧ sq < W256 then some sq else none) (n % m))
  -- ---------- tower (hooks) ----------
  | ["fq4", o], ws =>
    match o, ws with
    | "mul", [a, b] => do
        let x ← pFq4 a; let y ← pFq4 b; pure (sFq4 (x * y), "*")
    | "mul_1", [a, b] => do
        let x ← pFq4 a; let y ← pFq4 b; pure (sFq4 (x.mul_1 y), "*")
    | "sq", [a] => do let x ← pFq4 a; pure (sFq4 x.squared, "*")
    | "inv", [a] => do let x ← pFq4 a; pure (sOpt sFq4 x.inverse, "*")
    | "frob", [k, a] => do
        let k ← k.toNat?; let x ← pFq4 a; pure (sOut sFq4 (x.frobenius_map k), "*")
    | _, _ => none
  | ["fq12", o], ws =>
    match o, ws with
    | "mul", [a, b] => do
        let x ← pFq12 a; let y ← pFq12 b; let sx ← spF12 a; let sy ← spF12 b
        pure (sFq12 (x * y), Spec.encF12 (Spec.F12.mul sx sy))
    | "mul_015", [a, b] => do
        let x ← pFq12 a; let y ← pFq12 b; let sx ← spF12 a; let sy ← spF12 b
        pure (sFq12 (x.mul_015 y), Spec.encF12 (Spec.F12.mul sx sy))
    | "sq", [a] => do
        let x ← pFq12 a; let sx ← spF12 a
        pure (sFq12 x.squared, Spec.encF12 (Spec.F12.mul sx sx))
    | "inv", [a] => do
        let x ← pFq12 a; let sx ← spF12 a
        let m := match x.inverse with
          | some i => "SOME|" ++ sFq12 i ++ "|" ++ sFq12 (i * x)
          | none => "NONE"
        pure (m, if sx == Spec.F12.zero then "NONE" else "SOME|*|" ++ Spec.encF12 Spec.F12.one)
    | "frob", [k, a] => do
        let k ← k.toNat?; let x ← pFq12 a; let sx ← spF12 a
        let sp := if k == 1 ∨ k == 2 ∨ k == 3 ∨ k == 6 then Spec.encF12 (Spec.F12.pow sx (Spec.q ^ k)) else "PANIC"
        pure (sOut sFq12 (x.frobenius_map k), sp)
    | "pow", [a, e] => do
        let x ← pFq12 a; let sx ← spF12 a; let e ← parseHexNat e
        pure (sFq12 (x.pow_u128 e), Spec.encF12 (Spec.F12.pow sx e))
    | "fe", [a] => do
        let x ← pFq12 a; let sx ← spF12 a
        let sp := if sx == Spec.F12.zero then "NONE" else "SOME " ++ Spec.encF12 (Spec.F12.pow sx Spec.finalExponent)
        pure (sOut (sOpt sFq12) x.final_exponentiation, sp)
    | "fexp", [a] => do
        let x ← pFq12 a; let sx ← spF12 a
        let sp := if sx == Spec.F12.zero then "NONE" else "SOME " ++ Spec.encF12 (Spec.F12.pow sx Spec.finalExponent)
        pure (sOut (sOpt sFq12) x.final_exp, sp)
    | _, _ => none
  | ["miller", o], [qs, ps] => do
      let qq ← pG2 qs; let pp ← pG1 ps
      -- the two Miller loops agree only after the final exponentiation
      let fin (f : Outcome Fq12) : String :=
        match f with
        | .panic => "PANIC"
        | .ok v => sOut (sOpt sFq12) v.final_exp
      let sp := match spPt1 ps, spPt2 qs with
        | some p, some qv => "SOME " ++ sF12o (Spec.rate p qv)
        | _, _ => "*"
      match o with
      | "g2" => pure (sOut sFq12 (G2m.miller_loop qq pp) ++ "|" ++ fin (G2m.miller_loop qq pp), "*|" ++ sp)
      | "prep" =>
        let f := do let pr ← G2Prepared.from_ qq; pr.miller_loop pp
        pure (sOut sFq12 f ++ "|" ++ fin f, "*|" ++ sp)
      | _ => none
  -- ---------- groups (public) ----------
  | ["g1", o], ws =>
    match o, ws with
    | "add", [a, b] => do
        let x ← pG1 a; let y ← pG1 b; let sx ← spPt1 a; let sy ← spPt1 b
        let m := x.add y
        pure (sG1 m ++ "|" ++ affG1 m, "*|" ++ Spec.encG1 (Spec.ptAdd Spec.opsQ sx sy))
    | "sub", [a, b] => do
        let x ← pG1 a; let y ← pG1 b; let sx ← spPt1 a; let sy ← spPt1 b
        let m := x.sub y
        pure (sG1 m ++ "|" ++ affG1 m, "*|" ++ Spec.encG1 (Spec.ptAdd Spec.opsQ sx (Spec.ptNeg Spec.opsQ sy)))
    | "neg", [a] => do
        let x ← pG1 a; let sx ← spPt1 a
        let m := x.neg
        pure (sG1 m ++ "|" ++ affG1 m, "*|" ++ Spec.encG1 (Spec.ptNeg Spec.opsQ sx))
    | "mul", [a, k] => do
        let x ← pG1 a; let k ← pFr k; let sx ← spPt1 a
        let m := x.mul k
        pure (sG1 m ++ "|" ++ affG1 m, "*|" ++ Spec.encG1 (Spec.ptMul Spec.opsQ k.val sx))
    | "eq", [a, b] => do
        let x ← pG1 a; let y ← pG1 b; let sx ← spPt1 a; let sy ← spPt1 b
        pure (sBool (x.eq y), sBool (sx == sy))
    | "is_zero", [a] => do
        let x ← pG1 a; let sx ← spPt1 a
        pure (sBool x.is_zero, sBool sx.isNone)
    | "normalize", [a] => do
        let x ← pG1 a; let sx ← spPt1 a
        let m := Api.normalize x
        pure (sG1 m ++ "|" ++ affG1 m ++ "|" ++ sBool (m.z == (1 : Fq) || m.is_zero),
              "*|" ++ Spec.encG1 sx ++ "|true")
    | "affine", [a] => do
        let x ← pG1 a; let sx ← spPt1 a
        let m := match x.to_affine with
          | none => "NONE"
          | some af => "SOME " ++ sFq af.x ++ sFq af.y ++ "|" ++ sG1 af.to_jacobian
        let sp := match sx with
          | none => "NONE"
          | some (px, py) => "SOME " ++ hexFixed 32 px ++ hexFixed 32 py ++ "|" ++ hexFixed 32 px ++ ":" ++ hexFixed 32 py ++ ":" ++ hexFixed 32 1
        pure (m, sp)
    | "set", [a, c, v] => do
        let x ← pG1 a; let vv ← pFq v
        let m : G1 ← match c with
          | "x" => some { x with x := vv } | "y" => some { x with y := vv } | "z" => some { x with z := vv } | _ => none
        let out := sG1 m ++ "|" ++ sFq m.x ++ ":" ++ sFq m.y ++ ":" ++ sFq m.z ++ "|" ++ sFq Api.g1B
        -- spec: on the text itself (a setter replaces one coordinate and nothing else); b = 5
        let parts := a.splitOn ":"
        let i := if c == "x" then 0 else if c == "y" then 1 else 2
        let t := ":".intercalate (parts.set i v)
        pure (out, t ++ "|" ++ t ++ "|" ++ hexFixed 32 5)
    | "from_slice", [h] => do let bs ← parseBytes h; pure (okPt1 (Api.g1FromSlice bs), spG1Dec bs)
    | "from_uncompressed", [h] => do
        let bs ← parseBytes h
        pure (okPt1 (Api.g1FromUncompressed bs),
              if bs.length != 65 || bs.head? != some 4 then "ERR InvalidEncoding" else spG1Dec (bs.drop 1))
    | "from_compressed", [h] => do let bs ← parseBytes h; pure (okPt1 (Api.g1FromCompressed bs), spG1DecC bs)
    | fmt, [a] =>
      if fmt == "to_slice" || fmt == "to_uncompressed" || fmt == "to_compressed" then do
        let x ← pG1 a; let sx ← spPt1 a
        let m := match fmt with
          | "to_slice" => Api.g1ToSlice x
          | "to_uncompressed" => Api.g1ToUncompressed x
          | _ => Api.g1ToCompressed x
        pure (outBytes m, spEnc1 fmt sx)
      else none
    | _, _ => none
  | ["g2", o], ws =>
    match o, ws with
    | "add", [a, b] => do
        let x ← pG2 a; let y ← pG2 b; let sx ← spPt2 a; let sy ← spPt2 b
        let m := x.add y
        pure (sG2 m ++ "|" ++ affG2 m, "*|" ++ Spec.encG2 (Spec.ptAdd Spec.opsQ2 sx sy))
    | "sub", [a, b] => do
        let x ← pG2 a; let y ← pG2 b; let sx ← spPt2 a; let sy ← spPt2 b
        let m := x.sub y
        pure (sG2 m ++ "|" ++ affG2 m, "*|" ++ Spec.encG2 (Spec.ptAdd Spec.opsQ2 sx (Spec.ptNeg Spec.opsQ2 sy)))
    | "neg", [a] => do
        let x ← pG2 a; let sx ← spPt2 a
        let m := x.neg
        pure (sG2 m ++ "|" ++ affG2 m, "*|" ++ Spec.encG2 (Spec.ptNeg Spec.opsQ2 sx))
    | "mul", [a, k] => do
        let x ← pG2 a; let k ← pFr k; let sx ← spPt2 a
        let m := x.mul k
        pure (sG2 m ++ "|" ++ affG2 m, "*|" ++ Spec.encG2 (Spec.ptMul Spec.opsQ2 k.val sx))
    | "eq", [a, b] => do
        let x ← pG2 a; let y ← pG2 b; let sx ← spPt2 a; let sy ← spPt2 b
        pure (sBool (x.eq y), sBool (sx == sy))
    | "is_zero", [a] => do
        let x ← pG2 a; let sx ← spPt2 a
        pure (sBool x.is_zero, sBool sx.isNone)
    | "normalize", [a] => do
        let x ← pG2 a; let sx ← spPt2 a
        let m := Api.normalize x
        pure (sG2 m ++ "|" ++ affG2 m ++ "|" ++ sBool (m.z == Fq2.one || m.is_zero),
              "*|" ++ Spec.encG2 sx ++ "|true")
    | "affine", [a] => do
        let x ← pG2 a; let sx ← spPt2 a
        let m := match x.to_affine with
          | none => "NONE"
          | some af => "SOME " ++ sFq2 af.x ++ sFq2 af.y ++ "|" ++ sG2 af.to_jacobian
        let sp := match sx with
          | none => "NONE"
          | some (px, py) => "SOME " ++ sSQ2 px ++ sSQ2 py ++ "|" ++ sSQ2 px ++ ":" ++ sSQ2 py ++ ":" ++ sSQ2 (1, 0)
        pure (m, sp)
    | "set", [a, c, v] => do
        let x ← pG2 a; let vv ← pFq2 v
        let m : G2 ← match c with
          | "x" => some { x with x := vv } | "y" => some { x with y := vv } | "z" => some { x with z := vv } | _ => none
        let out := sG2 m ++ "|" ++ sFq2 m.x ++ ":" ++ sFq2 m.y ++ ":" ++ sFq2 m.z ++ "|" ++ sFq2 Api.g2B
        let parts := a.splitOn ":"
        let i := if c == "x" then 0 else if c == "y" then 1 else 2
        let t := ":".intercalate (parts.set i v)
        -- b' = 5u: imaginary part 5, real part 0 (printed imaginary first)
        pure (out, t ++ "|" ++ t ++ "|" ++ hexFixed 32 5 ++ hexFixed 32 0)
    | "from_slice", [h] => do let bs ← parseBytes h; pure (okPt2 (Api.g2FromSlice bs), spG2Dec bs)
    | "from_uncompressed", [h] => do
        let bs ← parseBytes h
        pure (okPt2 (Api.g2FromUncompressed bs),
              if bs.length != 129 || bs.head? != some 4 then "ERR InvalidEncoding" else spG2Dec (bs.drop 1))
    | "from_compressed", [h] => do let bs ← parseBytes h; pure (okPt2 (Api.g2FromCompressed bs), spG2DecC bs)
    | fmt, [a] =>
      if fmt == "to_slice" || fmt == "to_uncompressed" || fmt == "to_compressed" then do
        let x ← pG2 a; let sx ← spPt2 a
        let m := match fmt with
          | "to_slice" => Api.g2ToSlice x
          | "to_uncompressed" => Api.g2ToUncompressed x
          | _ => Api.g2ToCompressed x
        pure (outBytes m, spEnc2 fmt sx)
      else none
    | _, _ => none
  | ["aff1", "new"], [xs, ys] => do
      let x ← pFq xs; let y ← pFq ys
      let m := match (AffineG.new x y : Except GroupError AffineG1) with
        | .ok _ => "OK"
        | .error e => groupErr e
      pure (m, if Spec.onCurve1 x.val y.val then "OK" else "ERR NotOnCurve")
  | ["aff2", "new"], [xs, ys] => do
      let x ← pFq2 xs; let y ← pFq2 ys; let sx ← spQ2 xs; let sy ← spQ2 ys
      let m := match (AffineG.new x y : Except GroupError AffineG2) with
        | .ok _ => "OK"
        | .error e => groupErr e
      let sp := if !Spec.onCurve2 sx sy then "ERR NotOnCurve"
        else if (Spec.ptMul Spec.opsQ2 Spec.r (some (sx, sy))).isNone then "OK" else "ERR NotInSubgroup"
      pure (m, sp)
  -- ---------- pairings (public) ----------
  | ["pair", o], [ps, qs] => do
      let pp ← pG1 ps; let qq ← pG2 qs
      let m := match o with
        | "pairing" => Api.pairing pp qq
        | "fast" => Api.fast_pairing pp qq
        | _ => do let pr ← Api.prepare qq; Api.preparedPairing pr pp
      let sp := match spPt1 ps, spPt2 qs with
        | some p, some qv => sF12o (Spec.rate p qv)
        | _, _ => "*"
      pure (sOut sFq12 m, sp)
  | ["prog", "fr"], steps => do
      let m ← runFieldProg frM true steps; let s ← runFieldProg (natM Spec.r) true steps
      pure (m, s)
  | ["prog", "fq"], steps => do
      let m ← runFieldProg fqM false steps; let s ← runFieldProg (natM Spec.q) false steps
      pure (m, s)
  | ["prog", "group"], steps => do
      let m ← runGroupProgModel steps; let s ← runGroupProgSpec steps
      pure (m, s)
  | ["law", name], ws => runLaw name ((op.splitOn "@").getD 1 "pairing") ws
  | ["gtk", "ops"], ws => runGtk ws
  | ["pair", "reuse"], ws => runReuse ws
  | _, _ => none

def runLine (line : String) : String × String :=
  match (line.trimAscii.toString.splitOn " ").filter (· ≠ "") with
  | [] => ("EMPTY", "EMPTY")
  | op :: args =>
    match runOp op args with
    | some r => r
    | none => ("BAD", "BAD")

end Sm9.Driver
