import Sm9.Model.Api
import Sm9.Spec.Spec
/-!
# Text encoding of the line protocol (shared by model and spec sides of the driver)

Field elements: 64 hex digits of the canonical value.  Fq2: 128 hex digits, imaginary
part first (the `to_slice` layout).  Points: `x:y:z`.  Fq4 / Fq12: `to_slice` layout.
Bytes: hex, `-` for the empty string.
-/
namespace Sm9.Driver
open Sm9

def hexVal (c : Char) : Option Nat :=
  if '0' ≤ c ∧ c ≤ '9' then some (c.toNat - 48)
  else if 'a' ≤ c ∧ c ≤ 'f' then some (c.toNat - 87)
  else if 'A' ≤ c ∧ c ≤ 'F' then some (c.toNat - 55)
  else none

def parseHexNat (s : String) : Option Nat :=
  s.toList.foldl (fun acc c => match acc, hexVal c with
    | some a, some d => some (a * 16 + d)
    | _, _ => none) (some 0)

def parseBytes (s : String) : Option (List UInt8) :=
  if s == "-" then some [] else
  let rec go : List Char → Option (List UInt8)
    | [] => some []
    | [_] => none
    | a :: b :: rest =>
      match hexVal a, hexVal b, go rest with
      | some x, some y, some r => some (UInt8.ofNat (x * 16 + y) :: r)
      | _, _, _ => none
  go s.toList

def hexDigit (n : Nat) : Char := if n < 10 then Char.ofNat (48 + n) else Char.ofNat (87 + n)
def hexFixed (len n : Nat) : String :=
  String.ofList ((List.range (2 * len)).reverse.map fun i => hexDigit ((n / 16 ^ i) % 16))
def hexBytes (bs : List UInt8) : String :=
  if bs.isEmpty then "-" else
  String.ofList (bs.flatMap fun b => [hexDigit (b.toNat / 16), hexDigit (b.toNat % 16)])

def sub (s : String) (i n : Nat) : String := String.ofList ((s.toList.drop i).take n)

/-! ### model-side values -/
def pFq (s : String) : Option Fq := if s.length == 64 then (parseHexNat s).bind Fq.new else none
def pFr (s : String) : Option Fr := if s.length == 64 then (parseHexNat s).bind Fr.new else none
def pFq2 (s : String) : Option Fq2 :=
  if s.length == 128 then
    match pFq (sub s 0 64), pFq (sub s 64 64) with
    | some c1, some c0 => some { c0, c1 }
    | _, _ => none
  else none
def pFq4 (s : String) : Option Fq4 :=
  if s.length == 256 then
    match pFq2 (sub s 0 128), pFq2 (sub s 128 128) with
    | some c1, some c0 => some { c0, c1 }
    | _, _ => none
  else none
def pFq12 (s : String) : Option Fq12 :=
  if s.length == 768 then
    match pFq4 (sub s 0 256), pFq4 (sub s 256 256), pFq4 (sub s 512 256) with
    | some c2, some c1, some c0 => some { c0, c1, c2 }
    | _, _, _ => none
  else none
def pG1 (s : String) : Option G1 :=
  match s.splitOn ":" with
  | [x, y, z] => match pFq x, pFq y, pFq z with
    | some x, some y, some z => some { x, y, z }
    | _, _, _ => none
  | _ => none
def pG2 (s : String) : Option G2 :=
  match s.splitOn ":" with
  | [x, y, z] => match pFq2 x, pFq2 y, pFq2 z with
    | some x, some y, some z => some { x, y, z }
    | _, _, _ => none
  | _ => none

def sFq (a : Fq) : String := hexFixed 32 a.val
def sFr (a : Fr) : String := hexFixed 32 a.val
def sFq2 (a : Fq2) : String := sFq a.c1 ++ sFq a.c0
def sFq4 (a : Fq4) : String := sFq2 a.c1 ++ sFq2 a.c0
def sFq12 (a : Fq12) : String := sFq4 a.c2 ++ sFq4 a.c1 ++ sFq4 a.c0
def sG1 (p : G1) : String := sFq p.x ++ ":" ++ sFq p.y ++ ":" ++ sFq p.z
def sG2 (p : G2) : String := sFq2 p.x ++ ":" ++ sFq2 p.y ++ ":" ++ sFq2 p.z
def affG1 (p : G1) : String :=
  match p.to_affine with
  | none => "INF"
  | some a => sFq a.x ++ sFq a.y
def affG2 (p : G2) : String :=
  match p.to_affine with
  | none => "INF"
  | some a => sFq2 a.x ++ sFq2 a.y
def sBool (b : Bool) : String := if b then "true" else "false"
def sOpt {α} (f : α → String) : Option α → String
  | some a => "SOME " ++ f a
  | none => "NONE"
def sOut {α} (f : α → String) : Outcome α → String
  | .ok a => f a
  | .panic => "PANIC"

/-! ### spec-side values -/
abbrev SQ2 := Spec.Q2
def spQ2 (s : String) : Option SQ2 :=
  if s.length == 128 then
    match parseHexNat (sub s 0 64), parseHexNat (sub s 64 64) with
    | some im, some re => some (re, im)
    | _, _ => none
  else none
/-- Jacobian text → affine spec point (x/z², y/z³) -/
def spPt1 (s : String) : Option (Spec.Pt Nat) :=
  match s.splitOn ":" with
  | [x, y, z] => match parseHexNat x, parseHexNat y, parseHexNat z with
    | some x, some y, some z =>
      if z % Spec.q == 0 then some none else
      let zi := Spec.invm Spec.q z
      some (some (x * zi % Spec.q * zi % Spec.q, y * zi % Spec.q * zi % Spec.q * zi % Spec.q))
    | _, _, _ => none
  | _ => none
def spPt2 (s : String) : Option (Spec.Pt SQ2) :=
  match s.splitOn ":" with
  | [x, y, z] => match spQ2 x, spQ2 y, spQ2 z with
    | some x, some y, some z =>
      if Spec.Q2.isZero z then some none else
      let zi := Spec.Q2.inv z
      let zi2 := Spec.Q2.mul zi zi
      some (some (Spec.Q2.mul x zi2, Spec.Q2.mul y (Spec.Q2.mul zi2 zi)))
    | _, _, _ => none
  | _ => none

/-- Fq12 `to_slice` text → flat coefficients -/
def spF12 (s : String) : Option Spec.F12 :=
  if s.length != 768 then none else
  (List.range 12).foldl (fun (acc : Option Spec.F12) k =>
    match acc, parseHexNat (sub s (64 * k) 64) with
    | some a, some v => some (a.set! (Spec.flatIndexOrder.getD k 0) (v % Spec.q))
    | _, _ => none) (some Spec.F12.zero)

end Sm9.Driver
