import Sm9.Proofs.JacobianInst2
/-!
# C15 — Point equality, normalisation and affine conversion respect the group element
`==` holds exactly when the two values denote the same point of the curve (generic over
the field; and for the model's G1): hence an equivalence relation, invariant under
rescaling, separating P from −P and from the identity, with every z = 0 value the
identity.  `to_affine` is `None` exactly for z = 0 and otherwise (x/z², y/z³) — the z = 1
shortcut and the inversion path agree; `normalize` keeps the point, yields z = 1 and
leaves the identity untouched.
-/
namespace Sm9.C15
open Jac

theorem eq_iff_same_point {F : Type} [Field F] [DecidableEq F] (b : F) (P Q : G F) (hP : Valid b P) (hQ : Valid b Q) :
    @G.eq F (feOfField F) P Q = true ↔ toAff b P = toAff b Q := eq_iff b P Q hP hQ
theorem g1_eq_iff (P Q : G1) (hP : G1.Valid P) (hQ : G1.Valid Q) : P.eq Q = true ↔ G1.toAff P = G1.toAff Q :=
  G1.eq_iff P Q hP hQ
theorem g1_eq_symm (P Q : G1) (hP : G1.Valid P) (hQ : G1.Valid Q) : P.eq Q = true ↔ Q.eq P = true := by
  rw [G1.eq_iff P Q hP hQ, G1.eq_iff Q P hQ hP, eq_comm]
theorem g1_eq_trans (P Q R : G1) (hP : G1.Valid P) (hQ : G1.Valid Q) (hR : G1.Valid R)
    (h1 : P.eq Q = true) (h2 : Q.eq R = true) : P.eq R = true := by
  rw [G1.eq_iff _ _ hP hQ] at h1; rw [G1.eq_iff _ _ hQ hR] at h2
  rw [G1.eq_iff _ _ hP hR, h1, h2]
theorem g2_eq_iff (P Q : G2) (hP : G2.Valid P) (hQ : G2.Valid Q) : P.eq Q = true ↔ G2.toAff P = G2.toAff Q :=
  G2.eq_iff P Q hP hQ
theorem g2_eq_symm (P Q : G2) (hP : G2.Valid P) (hQ : G2.Valid Q) : P.eq Q = true ↔ Q.eq P = true := by
  rw [G2.eq_iff P Q hP hQ, G2.eq_iff Q P hQ hP, eq_comm]
theorem g2_eq_trans (P Q R : G2) (hP : G2.Valid P) (hQ : G2.Valid Q) (hR : G2.Valid R)
    (h1 : P.eq Q = true) (h2 : Q.eq R = true) : P.eq R = true := by
  rw [G2.eq_iff _ _ hP hQ] at h1; rw [G2.eq_iff _ _ hQ hR] at h2
  rw [G2.eq_iff _ _ hP hR, h1, h2]
theorem g2_to_affine_spec (P : G2) :
    P.to_affine = if P.z = 0 then none else some ⟨P.x / P.z ^ 2, P.y / P.z ^ 3⟩ := G2.to_affine_spec P
theorem g2_normalize_spec (P : G2) (hP : G2.Valid P) :
    G2.toAff (Api.normalize P) = G2.toAff P ∧ (P.z ≠ 0 → (Api.normalize P).z = 1) ∧
    (P.z = 0 → Api.normalize P = P) ∧ G2.Valid (Api.normalize P) := G2.normalize_spec P hP
theorem g1_eq_refl (p : G1) : p.eq p = true := G1.eq_refl p
theorem g2_eq_refl (p : G2) : p.eq p = true := G2.eq_refl p
/-- P and −P are different unless P is the identity (no 2-torsion) -/
theorem g1_ne_neg (P : G1) (hP : G1.Valid P) (hz : P.z ≠ 0) : P.eq P.neg = false := by
  cases h : P.eq P.neg
  · rfl
  · exfalso
    rw [G1.eq_iff P P.neg hP (G1.neg_valid P hP), G1.neg_correct P hP] at h
    have hn := hP.resolve_left hz
    rw [G1.toAff_some P hz hn, WeierstrassCurve.Affine.Point.neg_some] at h
    simp only [WeierstrassCurve.Affine.negY, Jac.Wb, zero_mul, sub_zero] at h
    have h := (WeierstrassCurve.Affine.Point.some.inj h).2
    have hy : P.y ≠ 0 := Jac.y_ne_zero b1 Fq.no_two_torsion P hz hn
    have h2 : (2 : Fq) * (P.y / P.z ^ 3) = 0 := by
      calc (2 : Fq) * (P.y / P.z ^ 3) = P.y / P.z ^ 3 + P.y / P.z ^ 3 := by ring
        _ = P.y / P.z ^ 3 + -(P.y / P.z ^ 3) := by rw [← h]
        _ = 0 := by ring
    rcases mul_eq_zero.mp h2 with h' | h'
    · exact Fq.two_ne_zero h'
    · rw [div_eq_zero_iff] at h'
      rcases h' with h' | h'
      · exact hy h'
      · exact hz (pow_eq_zero_iff (by norm_num) |>.mp h')
theorem g1_eq_identity_iff (p o : G1) (ho : o.z = 0) : p.eq o = true ↔ p.z = 0 := G1.eq_zero_iff p o ho
theorem g1_is_zero_iff (p : G1) : p.is_zero = true ↔ p.z = 0 := G1.is_zero_iff p
theorem g2_is_zero_iff (p : G2) : p.is_zero = true ↔ p.z = 0 := G2.is_zero_iff p
theorem g1_to_affine_spec (P : G1) :
    P.to_affine = if P.z = 0 then none else some ⟨P.x / P.z ^ 2, P.y / P.z ^ 3⟩ := G1.to_affine_spec P
theorem g1_normalize_spec (P : G1) (hP : G1.Valid P) :
    G1.toAff (Api.normalize P) = G1.toAff P ∧ (P.z ≠ 0 → (Api.normalize P).z = 1) ∧
    (P.z = 0 → Api.normalize P = P) ∧ G1.Valid (Api.normalize P) := G1.normalize_spec P hP

end Sm9.C15
