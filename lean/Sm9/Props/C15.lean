import Sm9.Proofs.GroupBasic
/-!
# C15 — Point equality, normalisation and affine conversion respect the group element
First landing: `==` is reflexive on every value, every z = 0 value is the identity for
`==`, `is_zero` is exactly z = 0, normalisation leaves the identity untouched and
conversion to affine fails exactly for z = 0.
-/
namespace Sm9.C15

theorem g1_eq_refl (p : G1) : p.eq p = true := G1.eq_refl p
theorem g2_eq_refl (p : G2) : p.eq p = true := G2.eq_refl p
theorem g1_eq_identity_iff (p o : G1) (ho : o.z = 0) : p.eq o = true ↔ p.z = 0 := G1.eq_zero_iff p o ho
theorem g1_is_zero_iff (p : G1) : p.is_zero = true ↔ p.z = 0 := G1.is_zero_iff p
theorem g2_is_zero_iff (p : G2) : p.is_zero = true ↔ p.z = 0 := G2.is_zero_iff p
theorem g1_to_affine_none_iff (p : G1) : p.to_affine = none ↔ p.z = 0 := by
  constructor
  · intro h
    unfold G.to_affine at h
    by_cases hz : FieldElement.is_zero p.z = true
    · exact (Fq.is_zero_iff p.z).1 hz
    · have hz' : FieldElement.is_zero p.z = false := by simpa using hz
      simp only [hz', Bool.false_eq_true, if_false] at h
      split at h
      · cases h
      · -- inverse of a non-zero element exists
        have hne : p.z ≠ 0 := fun h0 => hz ((Fq.is_zero_iff p.z).2 h0)
        have : FieldElement.inverse p.z = Fq.inverse p.z := rfl
        rw [this] at h
        unfold Fq.inverse at h
        have hz2 : Fq.is_zero p.z = false := hz'
        simp [hz2] at h
  · exact G1.to_affine_none_of_z p
theorem normalize_identity (p : G1) (h : p.z = 0) : Api.normalize p = p :=
  normalize_of_none p (G1.to_affine_none_of_z p h)
/-- a normalised point has z = 1 -/
theorem normalize_z (p : G1) (a : AffineG1) (h : p.to_affine = some a) : (Api.normalize p).z = 1 := by
  unfold Api.normalize; rw [h]; rfl

end Sm9.C15
