import Sm9.Proofs.Identity
/-!
# C03 — All pairing entry points agree and ignore the projective representative

Proved: every representation of the identity (x, y, 0) — canonical or left behind by
P − P — gives one in `pairing`, `fast_pairing` and `G2Prepared::pairing` (the D5 repair),
and `G2Prepared::from` cannot panic on any input.  `G2Prepared` is a plain list of
coefficients consumed read-only, so reuse is purity of the model function.
Representative-independence for non-identity points and agreement of the two Miller
loops are decided by the three-way correspondence (partial; DESIGN.md §6 C03).
-/
namespace Sm9.C03

theorem identity_agrees_left (p : G1) (qv : G2) (h : p.z = 0) :
    Api.pairing p qv = .ok Fq12.one ∧ Api.fast_pairing p qv = .ok Fq12.one ∧
    (do let pr ← Api.prepare qv; Api.preparedPairing pr p) = .ok Fq12.one :=
  ⟨pairing_left_identity p qv h, fast_pairing_left_identity p qv h, prepared_pairing_left_identity p qv h⟩
theorem identity_agrees_right (p : G1) (qv : G2) (h : qv.z = Fq2.zero) :
    Api.pairing p qv = .ok Fq12.one ∧ Api.fast_pairing p qv = .ok Fq12.one ∧
    (do let pr ← Api.prepare qv; Api.preparedPairing pr p) = .ok Fq12.one :=
  ⟨pairing_right_identity p qv h, fast_pairing_right_identity p qv h, prepared_pairing_right_identity p qv h⟩
theorem prepare_never_panics (qv : G2) : ∃ pr, Api.prepare qv = .ok pr := prepared_from_ok _
/-- normalisation leaves z = 0 values untouched (the reason the identity needs its own test) -/
theorem normalize_identity (p : G1) (h : p.z = 0) : Api.normalize p = p :=
  normalize_of_none p (G1.to_affine_none_of_z p h)
end Sm9.C03
