import Sm9.Proofs.RepIndep
import Sm9.Proofs.FinalExp
/-!
# C03 — All pairing entry points agree and ignore the projective representative

Proved for all valid operands: each of `pairing`, `fast_pairing`, `G2Prepared::pairing`
depends on its operands only through the group elements they denote (`toAff`): any Jacobian
rescaling, normalised or not, and any representation of the identity (x, y, 0) gives the
same value; identity inputs give one in all three; `G2Prepared::from` never panics.  A
prepared value is an immutable list of coefficients (the model function is pure), so reuse in
any order cannot change results.  **Not yet a theorem**: that `pairing` and `fast_pairing`
(the two Miller loops) agree on non-identity inputs — decided by the three-way
correspondence against the textbook pairing, including interleaved reuse through clones.
-/
namespace Sm9.C03

/-- representative independence of all three entry points -/
theorem pairing_rep_indep (p p' : G1) (qv qv' : G2) (hp : G1.Valid p) (hp' : G1.Valid p') (hq : G2.Valid qv)
    (hq' : G2.Valid qv') (h1 : G1.toAff p = G1.toAff p') (h2 : G2.toAff qv = G2.toAff qv') :
    Api.pairing p qv = Api.pairing p' qv' ∧ Api.fast_pairing p qv = Api.fast_pairing p' qv' ∧
    (do let pr ← Api.prepare qv; Api.preparedPairing pr p) = (do let pr ← Api.prepare qv'; Api.preparedPairing pr p') := by
  have e1 := G1.to_affine_congr p p' hp hp' h1
  have e2 := G2.to_affine_congr qv qv' hq hq' h2
  exact ⟨pairing_congr p p' qv qv' e1 e2, fast_pairing_congr p p' qv qv' e1 e2, prepared_pairing_congr p p' qv qv' e1 e2⟩
theorem identity_agrees_left (p : G1) (qv : G2) (h : p.z = 0) :
    Api.pairing p qv = .ok Fq12.one ∧ Api.fast_pairing p qv = .ok Fq12.one ∧
    (do let pr ← Api.prepare qv; Api.preparedPairing pr p) = .ok Fq12.one :=
  ⟨pairing_left_identity p qv h, fast_pairing_left_identity p qv h, prepared_pairing_left_identity p qv h⟩
theorem identity_agrees_right (p : G1) (qv : G2) (h : qv.z = Fq2.zero) :
    Api.pairing p qv = .ok Fq12.one ∧ Api.fast_pairing p qv = .ok Fq12.one ∧
    (do let pr ← Api.prepare qv; Api.preparedPairing pr p) = .ok Fq12.one :=
  ⟨pairing_right_identity p qv h, fast_pairing_right_identity p qv h, prepared_pairing_right_identity p qv h⟩
theorem prepare_never_panics (qv : G2) : ∃ pr, Api.prepare qv = .ok pr := prepared_from_ok _
/-- normalisation leaves z = 0 values untouched (the reason the identity needs its own test) -/
theorem normalize_identity (p : G1) (h : p.z = 0) : Api.normalize p = p :=
  normalize_of_none p (G1.to_affine_none_of_z p h)
/-- the two final exponentiations used by the two paths agree on every input -/
theorem final_exp_variants_agree (x : Fq12) : x.final_exp = x.final_exponentiation :=
  Fq12.final_exp_eq_final_exponentiation x

/-- non-vacuity: the generator and its rescaling by λ = −1 denote the same point -/
example : G1.Valid (G.one : G1) ∧ G2.Valid (G.one : G2) := ⟨G1.one_valid, G2.one_valid⟩

end Sm9.C03
