import Sm9.Proofs.RepIndep
import Sm9.Proofs.FinalExp
import Sm9.Proofs.MillerNafInstance
import Sm9.Proofs.MillerNeg
import Sm9.Proofs.MillerFrobEquivariant
import Sm9.Proofs.ChainIndepSm9
/-!
# C03 — All pairing entry points agree and ignore the projective representative

Proved for all valid operands: each of `pairing`, `fast_pairing`, `G2Prepared::pairing`
depends on its operands only through the group elements they denote (`toAff`): any Jacobian
rescaling, normalised or not, and any representation of the identity (x, y, 0) gives the
same value; identity inputs give one in all three; `G2Prepared::from` never panics.  A
prepared value is an immutable list of coefficients (the model function is pure), so reuse in
any order cannot change results; `fast_pairing` and the two-call prepared API are the same
computation (`prepared_is_fast`, by `rfl`).  Each of the two Miller loops is proved equal to the
textbook Miller function of its own addition chain (C02), so `pairing = fast_pairing` on a
non-identity input is *equivalent* to the equality of the two reduced textbook functions there
(`agreement_iff_chain_independence`); that equality — independence of the Miller function of the
addition chain — is proved at the standard's test vector (`chain_independence_at_known_answer`) and
for the generators (kernel), **not in general** (divisor theory): decided by the three-way
correspondence against the textbook pairing, including interleaved reuse through clones.
-/
namespace Sm9.C03

/-- representative independence of all three entry points -/
theorem pairing_rep_indep (p p' : G1) (qv qv' : G2) (hp : G1.Valid p) (hp' : G1.Valid p') (hq : G2.Valid qv)
    (hq' : G2.Valid qv') (h1 : G1.toAff p = G1.toAff p') (h2 : G2.toAff qv = G2.toAff qv') :
    Api.pairing p qv = Api.pairing p' qv' ∧ Api.fast_pairing p qv = Api.fast_pairing p' qv' ∧
    (do let pr ← Api.prepare qv; Api.preparedPairing pr p) = (do let pr ← Api.prepare qv'; Api.preparedPairing pr p') := by
  have e1 := G1.to_affine_congr p p' hp hp' h1
  have e2 := G2.to_affine_congr qv qv' hq hq' h2
  exact ⟨pairing_congr p p' qv qv' e1 e2, fast_pairing_congr p p' qv qv' e1 e2, prepared_pairing_congr p p' qv qv' e1 e2⟩
theorem identity_agrees_left (p : G1) (qv : G2) (h : p.z = 0) :
    Api.pairing p qv = .ok Fq12.one ∧ Api.fast_pairing p qv = .ok Fq12.one ∧
    (do let pr ← Api.prepare qv; Api.preparedPairing pr p) = .ok Fq12.one :=
  ⟨pairing_left_identity p qv h, fast_pairing_left_identity p qv h, prepared_pairing_left_identity p qv h⟩
theorem identity_agrees_right (p : G1) (qv : G2) (h : qv.z = Fq2.zero) :
    Api.pairing p qv = .ok Fq12.one ∧ Api.fast_pairing p qv = .ok Fq12.one ∧
    (do let pr ← Api.prepare qv; Api.preparedPairing pr p) = .ok Fq12.one :=
  ⟨pairing_right_identity p qv h, fast_pairing_right_identity p qv h, prepared_pairing_right_identity p qv h⟩
theorem prepare_never_panics (qv : G2) : ∃ pr, Api.prepare qv = .ok pr := prepared_from_ok _
/-- normalisation leaves z = 0 values untouched (the reason the identity needs its own test) -/
theorem normalize_identity (p : G1) (h : p.z = 0) : Api.normalize p = p :=
  normalize_of_none p (G1.to_affine_none_of_z p h)
/-- the two final exponentiations used by the two paths agree on every input -/
theorem final_exp_variants_agree (x : Fq12) : x.final_exp = x.final_exponentiation :=
  Fq12.final_exp_eq_final_exponentiation x

/-- non-vacuity: the generator and its rescaling by λ = −1 denote the same point -/
example : G1.Valid (G.one : G1) ∧ G2.Valid (G.one : G2) := ⟨G1.one_valid, G2.one_valid⟩

/-- the two-call prepared API is the same computation as `fast_pairing` -/
theorem prepared_is_fast (P : G1) (Q : G2) :
    (do let pr ← Api.prepare Q; Api.preparedPairing pr P) = Api.fast_pairing P Q := Miller.api_prepared_eq_fast P Q
open Miller in
theorem agreement_iff_chain_independence (P : G1) (Q : G2) (hPz : P.z ≠ 0) (hPv : G1.Valid P)
    (hQz : Q.z ≠ 0) (hQv : G2.Valid Q) (k : Nat) (hk : G2.toAff Q = k • G2.toAff (G.one : G2)) :
    Api.pairing P Q = Api.fast_pairing P Q ↔
      specMillerNaf (P.x / P.z ^ 2) (P.y / P.z ^ 3) (Q.x / Q.z ^ 2) (Q.y / Q.z ^ 3) ^ ((q ^ 12 - 1) / r)
        = specMiller (P.x / P.z ^ 2) (P.y / P.z ^ 3) (Q.x / Q.z ^ 2) (Q.y / Q.z ^ 3) ^ ((q ^ 12 - 1) / r) :=
  api_pairing_eq_fast_pairing_iff P Q hPz hPv hQz hQv k hk
open Miller C02 in
/-- at the standard's test vector the two textbook functions have the same reduced value, the published one -/
theorem chain_independence_at_known_answer :
    specMillerNaf kaP.x kaP.y kaQ.x kaQ.y ^ ((q ^ 12 - 1) / r)
      = specMiller kaP.x kaP.y kaQ.x kaQ.y ^ ((q ^ 12 - 1) / r) ∧
    specMillerNaf kaP.x kaP.y kaQ.x kaQ.y ^ ((q ^ 12 - 1) / r) = kaExpected :=
  specMillerNaf_eq_specMiller_known_answer

/-! ## the set on which `pairing()` and `fast_pairing()` agree is closed under the symmetries of the Miller function

If the two entry points agree at `(P, Q)` they agree at `(−P, Q)`, `(P, −Q)` and `(P, [q]Q)` (hence on the whole orbit
`{±P} × {±qʲ·Q}`): both values are the inverse, resp. the `q`-th power, of the common value at `(P, Q)`
(Proofs/MillerNeg.lean, MillerFrobEquivariant.lean).  With `chain_independence_at_known_answer` this settles the
agreement on the orbit of the standard's test vector; everywhere else it is decided by the correspondence check. -/
private theorem inv_unique {g a b : Fq12} (ha : a * g = 1) (hb : b * g = 1) : a = b := by
  have hg : g ≠ 0 := by
    intro h; rw [h, mul_zero] at ha; exact zero_ne_one ha
  exact mul_right_cancel₀ hg (ha.trans hb.symm)

section orbit
variable (P : G1) (Q : G2) (hPz : P.z ≠ 0) (hPv : G1.Valid P) (hQz : Q.z ≠ 0) (hQv : G2.Valid Q)
  (k : Nat) (hk : G2.toAff Q = k • G2.toAff (G.one : G2))
include hPz hPv hQz hQv hk

theorem agreement_neg_left (h : Api.pairing P Q = Api.fast_pairing P Q) :
    Api.pairing P.neg Q = Api.fast_pairing P.neg Q := by
  obtain ⟨g, g', h1, h2, h3⟩ := Miller.pairing_neg_left P Q hPz hPv hQz hQv k hk
  obtain ⟨f, f', e1, e2, e3⟩ := Miller.fast_pairing_neg_left P Q hPz hPv hQz hQv k hk
  have hgf : g = f := by
    have := h1.symm.trans (h.trans e1); injection this
  subst hgf
  rw [h2, e2, inv_unique h3 e3]

theorem agreement_neg_right (h : Api.pairing P Q = Api.fast_pairing P Q) :
    Api.pairing P Q.neg = Api.fast_pairing P Q.neg := by
  obtain ⟨g, g', h1, h2, h3⟩ := Miller.pairing_neg_right P Q hPz hPv hQz hQv k hk
  obtain ⟨f, f', e1, e2, e3⟩ := Miller.fast_pairing_neg_right P Q hPz hPv hQz hQv k hk
  have hgf : g = f := by
    have := h1.symm.trans (h.trans e1); injection this
  subst hgf
  rw [h2, e2, inv_unique h3 e3]

theorem agreement_mul_q (h : Api.pairing P Q = Api.fast_pairing P Q) :
    Api.pairing P (Q.mul Miller.qFr) = Api.fast_pairing P (Q.mul Miller.qFr) := by
  obtain ⟨g, h1, h2⟩ := Miller.api_pairing_mul_q P Q hPz hPv hQz hQv k hk
  obtain ⟨f, e1, e2⟩ := Miller.api_fast_pairing_mul_q P Q hPz hPv hQz hQv k hk
  have hgf : g = f := by
    have := h1.symm.trans (h.trans e1); injection this
  subst hgf
  rw [h2, e2]
end orbit

/-! ## the three entry points agree on every valid input

`pairing()` walks the signed-digit chain, `fast_pairing()` / `G2Prepared` the binary chain; each is the textbook
Miller function of its chain (C02), and the Miller function does not depend on the chain after the final
exponentiation (`Sm9.C02.chain_independence`, Proofs/ChainIndep.lean: an argument in Mathlib's coordinate ring of
the twist — both products of lines generate the same ideal up to verticals, so they differ by a unit, a constant). -/
/-- **`pairing(P, Q) = fast_pairing(P, Q)`** for every valid `P` and every `Q` of `⟨P2⟩`, any representatives,
    identities in any form included -/
theorem pairing_eq_fast_pairing (P : G1) (Q : G2) (hPv : G1.Valid P) (hQv : G2.Valid Q)
    (k : Nat) (hk : G2.toAff Q = k • G2.toAff (G.one : G2)) : Api.pairing P Q = Api.fast_pairing P Q :=
  Miller.api_pairing_eq_fast_pairing P Q hPv hQv k hk
/-- **all three entry points agree** -/
theorem all_entry_points_agree (P : G1) (Q : G2) (hPv : G1.Valid P) (hQv : G2.Valid Q)
    (k : Nat) (hk : G2.toAff Q = k • G2.toAff (G.one : G2)) :
    Api.pairing P Q = Api.fast_pairing P Q ∧
    (do let pr ← Api.prepare Q; Api.preparedPairing pr P) = Api.pairing P Q :=
  ⟨Miller.api_pairing_eq_fast_pairing P Q hPv hQv k hk,
   (Miller.api_prepared_eq_fast P Q).trans (Miller.api_pairing_eq_fast_pairing P Q hPv hQv k hk).symm⟩
/-- non-vacuity: the generators satisfy the hypotheses (`k = 1`) -/
example : Api.pairing (G.one : G1) (G.one : G2) = Api.fast_pairing (G.one : G1) (G.one : G2) :=
  pairing_eq_fast_pairing _ _ G1.one_valid G2.one_valid 1 (one_nsmul _).symm

end Sm9.C03
