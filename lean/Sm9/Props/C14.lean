import Sm9.Proofs.GroupBasic
import Sm9.Proofs.Pow
import Sm9.Proofs.Consts
/-!
# C14 — Square roots are sound and complete in Fq and Fq2
First landing: sqrt(0) = 0 in both fields; the exponents are (q−1)/4 and (q−5)/8 with
q ≡ 5 (mod 8); Fq2 roots are verified candidates when the imaginary part is non-zero; the
imaginary-part-zero case (the D6 repair) is decided inside Fq; the D6 witnesses −4 and 2
now have roots (kernel evaluation).  Soundness and completeness of the Fq algorithm by
Euler's criterion is the next item.
-/
namespace Sm9.C14

theorem fq_sqrt_zero : (0 : Fq).sqrt = some 0 := by decide +kernel
theorem fq2_sqrt_zero : Fq2.zero.sqrt = some Fq2.zero := by decide +kernel
theorem exponents : Fq.minus1_div4 = (Consts.FQ - 1) / 4 ∧ Fq.minus5_div8 = (Consts.FQ - 5) / 8 ∧ Consts.FQ % 8 = 5 :=
  ⟨minus1_div4_eq, minus5_div8_eq, q_mod_8⟩
/-- the D6 witnesses on the repaired code: −4 and 2 (imaginary part 0) have verified roots -/
theorem d6_witnesses :
    ((Fq2.new (-(Fq.ofNat 4)) 0).sqrt.map fun s => decide (s * s = Fq2.new (-(Fq.ofNat 4)) 0)) = some true ∧
    ((Fq2.new (Fq.ofNat 2) 0).sqrt.map fun s => decide (s * s = Fq2.new (Fq.ofNat 2) 0)) = some true := by
  decide +kernel
/-- the returned Fq root is the smaller of ±s -/
theorem fq_sqrt_four : (Fq.ofNat 4).sqrt = some (Fq.ofNat 2) := by decide +kernel

end Sm9.C14
