import Sm9.Proofs.Sqrt
import Sm9.Proofs.Consts
import Sm9.Proofs.Decoders
import Sm9.Proofs.DecodersG2
/-!
# C14 — Square roots are sound and complete in Fq and Fq2
Full strength on the model: for **every** x in Fq and in Fq2, `sqrt x` is `some s` with
s·s = x exactly when x is a square, `none` otherwise; sqrt 0 = 0; the Fq root returned is
the smaller of ±s; every element of Fq has a root in Fq2 (the D6 repair).  The consequence
for compressed decoding rests on these plus C08's decoder model.
-/
namespace Sm9.C14

theorem fq_sqrt_sound (x s : Fq) (h : x.sqrt = some s) : s * s = x := Fq.sqrt_sound x s h
theorem fq_sqrt_complete (x : Fq) (h : ∃ c, c * c = x) : x.sqrt.isSome = true := Fq.sqrt_complete x h
theorem fq_sqrt_none_iff (x : Fq) : x.sqrt = none ↔ ¬ ∃ c, c * c = x := Fq.sqrt_eq_none_iff x
theorem fq_sqrt_zero : (0 : Fq).sqrt = some 0 := Fq.sqrt_zero
theorem fq_sqrt_smaller (x s : Fq) (h : x.sqrt = some s) : s.val ≤ (-s).val := Fq.sqrt_smaller x s h
theorem fq2_sqrt_sound (x s : Fq2) (h : x.sqrt = some s) : s * s = x := Fq2.sqrt_sound x s h
theorem fq2_sqrt_complete (x : Fq2) (h : ∃ c, c * c = x) : x.sqrt.isSome = true := Fq2.sqrt_complete x h
theorem fq2_sqrt_none_iff (x : Fq2) : x.sqrt = none ↔ ¬ ∃ c, c * c = x := Fq2.sqrt_eq_none_iff x
/-- every element of Fq is a square in Fq2 -/
theorem fq2_sqrt_real (a : Fq) : (Fq2.sqrt { c0 := a, c1 := 0 }).isSome = true := Fq2.sqrt_complete_real a
theorem fq2_sqrt_zero : Fq2.zero.sqrt = some Fq2.zero := by decide +kernel
theorem exponents : Fq.minus1_div4 = (Consts.FQ - 1) / 4 ∧ Fq.minus5_div8 = (Consts.FQ - 5) / 8 ∧ Consts.FQ % 8 = 5 :=
  ⟨minus1_div4_eq, minus5_div8_eq, q_mod_8⟩
/-- consequence: compressed-point decoding succeeds for every x-coordinate that carries a curve
    point, with the prefix selecting the parity of y (G1; G2 under Re y ≠ 0 is C10's partial) -/
theorem g1_decompression_succeeds (x y : Fq) (h : y * y = x * x * x + b1) :
    Api.g1FromCompressed (compByte y.is_even :: Api.fqToSlice x) = .ok { x := x, y := y, z := 1 } :=
  Sm9.g1_from_compressed_encode x y h
/-- the same for G2: for every subgroup point `(x, y)` of the twist both prefixes decompress (to `(x, ±y)`), and with
    Re y ≠ 0 the prefix of y gives back exactly `(x, y)` -/
theorem g2_decompression_succeeds (x y : Fq2) (h : y * y = x * x * x + b2)
    (hsub : r • G2.toAff { x := x, y := y, z := 1 } = 0) :
    (∀ b : UInt8, (b.toNat = 2 ∨ b.toNat = 3) →
      ∃ P : G2, Api.g2FromCompressed (b :: Api.fq2ToSlice x) = .ok P ∧ P.x = x ∧ (P.y = y ∨ P.y = -y) ∧ P.z = 1) ∧
    (y.c0 ≠ 0 → ∃ P : G2, Api.g2FromCompressed (compByte (Api.fq2IsEven y) :: Api.fq2ToSlice x) = .ok P ∧
      P.x = x ∧ P.y = y ∧ P.z = 1) :=
  ⟨fun b hb => Sm9.g2_from_compressed_complete x y h hsub b hb,
   fun hre => Sm9.g2_from_compressed_complete_exact x y h hsub hre _ rfl⟩
/-- the D6 witnesses on the repaired code: −4 and 2 (imaginary part 0) have verified roots -/
theorem d6_witnesses :
    ((Fq2.new (-(Fq.ofNat 4)) 0).sqrt.map fun s => decide (s * s = Fq2.new (-(Fq.ofNat 4)) 0)) = some true ∧
    ((Fq2.new (Fq.ofNat 2) 0).sqrt.map fun s => decide (s * s = Fq2.new (Fq.ofNat 2) 0)) = some true := by
  decide +kernel

end Sm9.C14
