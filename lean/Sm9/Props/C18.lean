import Sm9.Proofs.MontBasic
import Sm9.Proofs.Divrem
import Sm9.Proofs.Consts
/-!
# C18 — Results do not depend on the build profile
The limb model is written over unbounded naturals; the theorems below show that every
quantity the Rust code computes in a fixed-width type, and that rustc checks in the dev
profile, is in range on **all** inputs — so the checked and the wrapping build compute the
same values — and that the `debug_assert!` self-checks hold.  The decoders carry no
`debug_assert!` (D4) and no panic outcome (C08).
-/
namespace Sm9.C18

/-- `mac_with_carry!` / `mac`: a + b·c + carry fits the u128 it is widened to -/
theorem mac_no_overflow (a b c carry : Nat) (ha : a < 2^64) (hb : b < 2^64) (hc : c < 2^64) (hk : carry < 2^64) :
    a + b * c + carry < 2^128 := by
  have : b * c ≤ (2^64 - 1) * (2^64 - 1) := Nat.mul_le_mul (by omega) (by omega)
  omega
/-- … and its two halves are a 64-bit limb and a 64-bit carry -/
theorem mac_parts (a b c carry : Nat) (ha : a < 2^64) (hb : b < 2^64) (hc : c < 2^64) (hk : carry < 2^64) :
    (Limb.mac B64 a b c carry).1 < 2^64 ∧ (Limb.mac B64 a b c carry).2 < 2^64 := by
  have h := mac_no_overflow a b c carry ha hb hc hk
  unfold Limb.mac B64
  constructor
  · exact Nat.mod_lt _ (by norm_num)
  · rw [Nat.div_lt_iff_lt_mul (by norm_num)]; omega
theorem adc_no_overflow (a b carry : Nat) (ha : a < 2^64) (hb : b < 2^64) (hk : carry < 2^64) :
    a + b + carry < 2^128 := by omega
/-- `64 - ha.len()` in `from_hash` is computed only under `ha.len() <= 64`; `32 - len`
    and `64 - len` in `from_slice` only in their match arms -/
theorem length_subtractions (n : Nat) : (n ≤ 64 → 64 - n + n = 64) ∧ (1 ≤ n ∧ n ≤ 31 → 32 - n + n = 32) := by
  constructor <;> intro h <;> omega
/-- shift amounts: `1 << bit` with bit = n & 0x3f < 64, `1 << pos` with pos < 128 for the loop counter -/
theorem shift_amounts (n : Nat) : n % 64 < 64 ∧ loopBits < 128 := by
  refine ⟨Nat.mod_lt _ (by norm_num), ?_⟩
  decide +kernel
/-- `U512::new`'s `debug_assert!(!carry)`: c1·m + c0 < 2^512 for 256-bit operands -/
theorem u512_new_no_carry (c1 c0 m : Nat) (h1 : c1 < W256) (h0 : c0 < W256) (hm : m < W256) :
    c1 * m + c0 < W256 * W256 := by
  have : c1 * m ≤ (W256 - 1) * (W256 - 1) := Nat.mul_le_mul (by omega) (by omega)
  have hW : 0 < W256 := by decide +kernel
  nlinarith
/-- the two `debug_assert!` self-checks of u512.rs hold on all inputs: `U512::new`'s `!carry`
    and `divrem`'s reconstruction check -/
theorem debug_asserts_hold (n m : Nat) (hm0 : 0 < m) (hm : m < W256) (hn : n < W512) :
    (U512.divrem n m).2 = true := (U512.divrem_spec n m hm0 hm hn).2.2
theorem u512_new_assert (c1 c0 m : Nat) (h0 : c0 < W256) (h : c1 * m + c0 < W512) :
    U512.new c1 c0 m = (c1 * m + c0, true) := U512.new_spec c1 c0 m h0 h
/-- the conditional subtractions never underflow: results of add/sub/double/neg are canonical -/
theorem no_underflow (a b m : Nat) (hm : m < W256) (hm2 : W256 < 2 * m) (ha : a < m) (hb : b < m) :
    U256.add a b m < m ∧ U256.sub a b m < m ∧ U256.mul2 a m < m ∧ U256.neg a m < m :=
  ⟨(U256.add_refines a b m hm hm2 ha hb).1, (U256.sub_refines a b m hm ha hb).1,
   (U256.mul2_refines a m hm hm2 ha).1, (U256.neg_refines a m hm ha).1⟩

end Sm9.C18
